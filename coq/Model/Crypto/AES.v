(* AES.v -- AES-128 / AES-256 block cipher (encrypt + decrypt) written from FIPS 197, executable.
   Stands in for the `aes` crate (third-party code); anchored by the FIPS 197 Appendix B / C
   vectors below and differential-tested through lopdf on every run of the C05/C06 checks.
   The state is the 16 input bytes in input order (FIPS 197 3.4: s[r,c] = in[r + 4c]).
   S-box and GF(2^8) multiplication tables are 256-way matches (constant time when extracted);
   their algebraic properties are proved by byte sweeps in Proofs/CryptoProofsAES.v. *)
From LV Require Import Base.Bytes Model.Crypto.Word.
Local Open Scope N_scope.

Definition sbox (b : byte) : byte :=
  match b with
  | x00 => x63 | x01 => x7c | x02 => x77 | x03 => x7b | x04 => xf2 | x05 => x6b | x06 => x6f | x07 => xc5
  | x08 => x30 | x09 => x01 | x0a => x67 | x0b => x2b | x0c => xfe | x0d => xd7 | x0e => xab | x0f => x76
  | x10 => xca | x11 => x82 | x12 => xc9 | x13 => x7d | x14 => xfa | x15 => x59 | x16 => x47 | x17 => xf0
  | x18 => xad | x19 => xd4 | x1a => xa2 | x1b => xaf | x1c => x9c | x1d => xa4 | x1e => x72 | x1f => xc0
  | x20 => xb7 | x21 => xfd | x22 => x93 | x23 => x26 | x24 => x36 | x25 => x3f | x26 => xf7 | x27 => xcc
  | x28 => x34 | x29 => xa5 | x2a => xe5 | x2b => xf1 | x2c => x71 | x2d => xd8 | x2e => x31 | x2f => x15
  | x30 => x04 | x31 => xc7 | x32 => x23 | x33 => xc3 | x34 => x18 | x35 => x96 | x36 => x05 | x37 => x9a
  | x38 => x07 | x39 => x12 | x3a => x80 | x3b => xe2 | x3c => xeb | x3d => x27 | x3e => xb2 | x3f => x75
  | x40 => x09 | x41 => x83 | x42 => x2c | x43 => x1a | x44 => x1b | x45 => x6e | x46 => x5a | x47 => xa0
  | x48 => x52 | x49 => x3b | x4a => xd6 | x4b => xb3 | x4c => x29 | x4d => xe3 | x4e => x2f | x4f => x84
  | x50 => x53 | x51 => xd1 | x52 => x00 | x53 => xed | x54 => x20 | x55 => xfc | x56 => xb1 | x57 => x5b
  | x58 => x6a | x59 => xcb | x5a => xbe | x5b => x39 | x5c => x4a | x5d => x4c | x5e => x58 | x5f => xcf
  | x60 => xd0 | x61 => xef | x62 => xaa | x63 => xfb | x64 => x43 | x65 => x4d | x66 => x33 | x67 => x85
  | x68 => x45 | x69 => xf9 | x6a => x02 | x6b => x7f | x6c => x50 | x6d => x3c | x6e => x9f | x6f => xa8
  | x70 => x51 | x71 => xa3 | x72 => x40 | x73 => x8f | x74 => x92 | x75 => x9d | x76 => x38 | x77 => xf5
  | x78 => xbc | x79 => xb6 | x7a => xda | x7b => x21 | x7c => x10 | x7d => xff | x7e => xf3 | x7f => xd2
  | x80 => xcd | x81 => x0c | x82 => x13 | x83 => xec | x84 => x5f | x85 => x97 | x86 => x44 | x87 => x17
  | x88 => xc4 | x89 => xa7 | x8a => x7e | x8b => x3d | x8c => x64 | x8d => x5d | x8e => x19 | x8f => x73
  | x90 => x60 | x91 => x81 | x92 => x4f | x93 => xdc | x94 => x22 | x95 => x2a | x96 => x90 | x97 => x88
  | x98 => x46 | x99 => xee | x9a => xb8 | x9b => x14 | x9c => xde | x9d => x5e | x9e => x0b | x9f => xdb
  | xa0 => xe0 | xa1 => x32 | xa2 => x3a | xa3 => x0a | xa4 => x49 | xa5 => x06 | xa6 => x24 | xa7 => x5c
  | xa8 => xc2 | xa9 => xd3 | xaa => xac | xab => x62 | xac => x91 | xad => x95 | xae => xe4 | xaf => x79
  | xb0 => xe7 | xb1 => xc8 | xb2 => x37 | xb3 => x6d | xb4 => x8d | xb5 => xd5 | xb6 => x4e | xb7 => xa9
  | xb8 => x6c | xb9 => x56 | xba => xf4 | xbb => xea | xbc => x65 | xbd => x7a | xbe => xae | xbf => x08
  | xc0 => xba | xc1 => x78 | xc2 => x25 | xc3 => x2e | xc4 => x1c | xc5 => xa6 | xc6 => xb4 | xc7 => xc6
  | xc8 => xe8 | xc9 => xdd | xca => x74 | xcb => x1f | xcc => x4b | xcd => xbd | xce => x8b | xcf => x8a
  | xd0 => x70 | xd1 => x3e | xd2 => xb5 | xd3 => x66 | xd4 => x48 | xd5 => x03 | xd6 => xf6 | xd7 => x0e
  | xd8 => x61 | xd9 => x35 | xda => x57 | xdb => xb9 | xdc => x86 | xdd => xc1 | xde => x1d | xdf => x9e
  | xe0 => xe1 | xe1 => xf8 | xe2 => x98 | xe3 => x11 | xe4 => x69 | xe5 => xd9 | xe6 => x8e | xe7 => x94
  | xe8 => x9b | xe9 => x1e | xea => x87 | xeb => xe9 | xec => xce | xed => x55 | xee => x28 | xef => xdf
  | xf0 => x8c | xf1 => xa1 | xf2 => x89 | xf3 => x0d | xf4 => xbf | xf5 => xe6 | xf6 => x42 | xf7 => x68
  | xf8 => x41 | xf9 => x99 | xfa => x2d | xfb => x0f | xfc => xb0 | xfd => x54 | xfe => xbb | xff => x16
  end.

Definition inv_sbox (b : byte) : byte :=
  match b with
  | x00 => x52 | x01 => x09 | x02 => x6a | x03 => xd5 | x04 => x30 | x05 => x36 | x06 => xa5 | x07 => x38
  | x08 => xbf | x09 => x40 | x0a => xa3 | x0b => x9e | x0c => x81 | x0d => xf3 | x0e => xd7 | x0f => xfb
  | x10 => x7c | x11 => xe3 | x12 => x39 | x13 => x82 | x14 => x9b | x15 => x2f | x16 => xff | x17 => x87
  | x18 => x34 | x19 => x8e | x1a => x43 | x1b => x44 | x1c => xc4 | x1d => xde | x1e => xe9 | x1f => xcb
  | x20 => x54 | x21 => x7b | x22 => x94 | x23 => x32 | x24 => xa6 | x25 => xc2 | x26 => x23 | x27 => x3d
  | x28 => xee | x29 => x4c | x2a => x95 | x2b => x0b | x2c => x42 | x2d => xfa | x2e => xc3 | x2f => x4e
  | x30 => x08 | x31 => x2e | x32 => xa1 | x33 => x66 | x34 => x28 | x35 => xd9 | x36 => x24 | x37 => xb2
  | x38 => x76 | x39 => x5b | x3a => xa2 | x3b => x49 | x3c => x6d | x3d => x8b | x3e => xd1 | x3f => x25
  | x40 => x72 | x41 => xf8 | x42 => xf6 | x43 => x64 | x44 => x86 | x45 => x68 | x46 => x98 | x47 => x16
  | x48 => xd4 | x49 => xa4 | x4a => x5c | x4b => xcc | x4c => x5d | x4d => x65 | x4e => xb6 | x4f => x92
  | x50 => x6c | x51 => x70 | x52 => x48 | x53 => x50 | x54 => xfd | x55 => xed | x56 => xb9 | x57 => xda
  | x58 => x5e | x59 => x15 | x5a => x46 | x5b => x57 | x5c => xa7 | x5d => x8d | x5e => x9d | x5f => x84
  | x60 => x90 | x61 => xd8 | x62 => xab | x63 => x00 | x64 => x8c | x65 => xbc | x66 => xd3 | x67 => x0a
  | x68 => xf7 | x69 => xe4 | x6a => x58 | x6b => x05 | x6c => xb8 | x6d => xb3 | x6e => x45 | x6f => x06
  | x70 => xd0 | x71 => x2c | x72 => x1e | x73 => x8f | x74 => xca | x75 => x3f | x76 => x0f | x77 => x02
  | x78 => xc1 | x79 => xaf | x7a => xbd | x7b => x03 | x7c => x01 | x7d => x13 | x7e => x8a | x7f => x6b
  | x80 => x3a | x81 => x91 | x82 => x11 | x83 => x41 | x84 => x4f | x85 => x67 | x86 => xdc | x87 => xea
  | x88 => x97 | x89 => xf2 | x8a => xcf | x8b => xce | x8c => xf0 | x8d => xb4 | x8e => xe6 | x8f => x73
  | x90 => x96 | x91 => xac | x92 => x74 | x93 => x22 | x94 => xe7 | x95 => xad | x96 => x35 | x97 => x85
  | x98 => xe2 | x99 => xf9 | x9a => x37 | x9b => xe8 | x9c => x1c | x9d => x75 | x9e => xdf | x9f => x6e
  | xa0 => x47 | xa1 => xf1 | xa2 => x1a | xa3 => x71 | xa4 => x1d | xa5 => x29 | xa6 => xc5 | xa7 => x89
  | xa8 => x6f | xa9 => xb7 | xaa => x62 | xab => x0e | xac => xaa | xad => x18 | xae => xbe | xaf => x1b
  | xb0 => xfc | xb1 => x56 | xb2 => x3e | xb3 => x4b | xb4 => xc6 | xb5 => xd2 | xb6 => x79 | xb7 => x20
  | xb8 => x9a | xb9 => xdb | xba => xc0 | xbb => xfe | xbc => x78 | xbd => xcd | xbe => x5a | xbf => xf4
  | xc0 => x1f | xc1 => xdd | xc2 => xa8 | xc3 => x33 | xc4 => x88 | xc5 => x07 | xc6 => xc7 | xc7 => x31
  | xc8 => xb1 | xc9 => x12 | xca => x10 | xcb => x59 | xcc => x27 | xcd => x80 | xce => xec | xcf => x5f
  | xd0 => x60 | xd1 => x51 | xd2 => x7f | xd3 => xa9 | xd4 => x19 | xd5 => xb5 | xd6 => x4a | xd7 => x0d
  | xd8 => x2d | xd9 => xe5 | xda => x7a | xdb => x9f | xdc => x93 | xdd => xc9 | xde => x9c | xdf => xef
  | xe0 => xa0 | xe1 => xe0 | xe2 => x3b | xe3 => x4d | xe4 => xae | xe5 => x2a | xe6 => xf5 | xe7 => xb0
  | xe8 => xc8 | xe9 => xeb | xea => xbb | xeb => x3c | xec => x83 | xed => x53 | xee => x99 | xef => x61
  | xf0 => x17 | xf1 => x2b | xf2 => x04 | xf3 => x7e | xf4 => xba | xf5 => x77 | xf6 => xd6 | xf7 => x26
  | xf8 => xe1 | xf9 => x69 | xfa => x14 | xfb => x63 | xfc => x55 | xfd => x21 | xfe => x0c | xff => x7d
  end.

Definition gmul2 (b : byte) : byte :=
  match b with
  | x00 => x00 | x01 => x02 | x02 => x04 | x03 => x06 | x04 => x08 | x05 => x0a | x06 => x0c | x07 => x0e
  | x08 => x10 | x09 => x12 | x0a => x14 | x0b => x16 | x0c => x18 | x0d => x1a | x0e => x1c | x0f => x1e
  | x10 => x20 | x11 => x22 | x12 => x24 | x13 => x26 | x14 => x28 | x15 => x2a | x16 => x2c | x17 => x2e
  | x18 => x30 | x19 => x32 | x1a => x34 | x1b => x36 | x1c => x38 | x1d => x3a | x1e => x3c | x1f => x3e
  | x20 => x40 | x21 => x42 | x22 => x44 | x23 => x46 | x24 => x48 | x25 => x4a | x26 => x4c | x27 => x4e
  | x28 => x50 | x29 => x52 | x2a => x54 | x2b => x56 | x2c => x58 | x2d => x5a | x2e => x5c | x2f => x5e
  | x30 => x60 | x31 => x62 | x32 => x64 | x33 => x66 | x34 => x68 | x35 => x6a | x36 => x6c | x37 => x6e
  | x38 => x70 | x39 => x72 | x3a => x74 | x3b => x76 | x3c => x78 | x3d => x7a | x3e => x7c | x3f => x7e
  | x40 => x80 | x41 => x82 | x42 => x84 | x43 => x86 | x44 => x88 | x45 => x8a | x46 => x8c | x47 => x8e
  | x48 => x90 | x49 => x92 | x4a => x94 | x4b => x96 | x4c => x98 | x4d => x9a | x4e => x9c | x4f => x9e
  | x50 => xa0 | x51 => xa2 | x52 => xa4 | x53 => xa6 | x54 => xa8 | x55 => xaa | x56 => xac | x57 => xae
  | x58 => xb0 | x59 => xb2 | x5a => xb4 | x5b => xb6 | x5c => xb8 | x5d => xba | x5e => xbc | x5f => xbe
  | x60 => xc0 | x61 => xc2 | x62 => xc4 | x63 => xc6 | x64 => xc8 | x65 => xca | x66 => xcc | x67 => xce
  | x68 => xd0 | x69 => xd2 | x6a => xd4 | x6b => xd6 | x6c => xd8 | x6d => xda | x6e => xdc | x6f => xde
  | x70 => xe0 | x71 => xe2 | x72 => xe4 | x73 => xe6 | x74 => xe8 | x75 => xea | x76 => xec | x77 => xee
  | x78 => xf0 | x79 => xf2 | x7a => xf4 | x7b => xf6 | x7c => xf8 | x7d => xfa | x7e => xfc | x7f => xfe
  | x80 => x1b | x81 => x19 | x82 => x1f | x83 => x1d | x84 => x13 | x85 => x11 | x86 => x17 | x87 => x15
  | x88 => x0b | x89 => x09 | x8a => x0f | x8b => x0d | x8c => x03 | x8d => x01 | x8e => x07 | x8f => x05
  | x90 => x3b | x91 => x39 | x92 => x3f | x93 => x3d | x94 => x33 | x95 => x31 | x96 => x37 | x97 => x35
  | x98 => x2b | x99 => x29 | x9a => x2f | x9b => x2d | x9c => x23 | x9d => x21 | x9e => x27 | x9f => x25
  | xa0 => x5b | xa1 => x59 | xa2 => x5f | xa3 => x5d | xa4 => x53 | xa5 => x51 | xa6 => x57 | xa7 => x55
  | xa8 => x4b | xa9 => x49 | xaa => x4f | xab => x4d | xac => x43 | xad => x41 | xae => x47 | xaf => x45
  | xb0 => x7b | xb1 => x79 | xb2 => x7f | xb3 => x7d | xb4 => x73 | xb5 => x71 | xb6 => x77 | xb7 => x75
  | xb8 => x6b | xb9 => x69 | xba => x6f | xbb => x6d | xbc => x63 | xbd => x61 | xbe => x67 | xbf => x65
  | xc0 => x9b | xc1 => x99 | xc2 => x9f | xc3 => x9d | xc4 => x93 | xc5 => x91 | xc6 => x97 | xc7 => x95
  | xc8 => x8b | xc9 => x89 | xca => x8f | xcb => x8d | xcc => x83 | xcd => x81 | xce => x87 | xcf => x85
  | xd0 => xbb | xd1 => xb9 | xd2 => xbf | xd3 => xbd | xd4 => xb3 | xd5 => xb1 | xd6 => xb7 | xd7 => xb5
  | xd8 => xab | xd9 => xa9 | xda => xaf | xdb => xad | xdc => xa3 | xdd => xa1 | xde => xa7 | xdf => xa5
  | xe0 => xdb | xe1 => xd9 | xe2 => xdf | xe3 => xdd | xe4 => xd3 | xe5 => xd1 | xe6 => xd7 | xe7 => xd5
  | xe8 => xcb | xe9 => xc9 | xea => xcf | xeb => xcd | xec => xc3 | xed => xc1 | xee => xc7 | xef => xc5
  | xf0 => xfb | xf1 => xf9 | xf2 => xff | xf3 => xfd | xf4 => xf3 | xf5 => xf1 | xf6 => xf7 | xf7 => xf5
  | xf8 => xeb | xf9 => xe9 | xfa => xef | xfb => xed | xfc => xe3 | xfd => xe1 | xfe => xe7 | xff => xe5
  end.

Definition gmul3 (b : byte) : byte :=
  match b with
  | x00 => x00 | x01 => x03 | x02 => x06 | x03 => x05 | x04 => x0c | x05 => x0f | x06 => x0a | x07 => x09
  | x08 => x18 | x09 => x1b | x0a => x1e | x0b => x1d | x0c => x14 | x0d => x17 | x0e => x12 | x0f => x11
  | x10 => x30 | x11 => x33 | x12 => x36 | x13 => x35 | x14 => x3c | x15 => x3f | x16 => x3a | x17 => x39
  | x18 => x28 | x19 => x2b | x1a => x2e | x1b => x2d | x1c => x24 | x1d => x27 | x1e => x22 | x1f => x21
  | x20 => x60 | x21 => x63 | x22 => x66 | x23 => x65 | x24 => x6c | x25 => x6f | x26 => x6a | x27 => x69
  | x28 => x78 | x29 => x7b | x2a => x7e | x2b => x7d | x2c => x74 | x2d => x77 | x2e => x72 | x2f => x71
  | x30 => x50 | x31 => x53 | x32 => x56 | x33 => x55 | x34 => x5c | x35 => x5f | x36 => x5a | x37 => x59
  | x38 => x48 | x39 => x4b | x3a => x4e | x3b => x4d | x3c => x44 | x3d => x47 | x3e => x42 | x3f => x41
  | x40 => xc0 | x41 => xc3 | x42 => xc6 | x43 => xc5 | x44 => xcc | x45 => xcf | x46 => xca | x47 => xc9
  | x48 => xd8 | x49 => xdb | x4a => xde | x4b => xdd | x4c => xd4 | x4d => xd7 | x4e => xd2 | x4f => xd1
  | x50 => xf0 | x51 => xf3 | x52 => xf6 | x53 => xf5 | x54 => xfc | x55 => xff | x56 => xfa | x57 => xf9
  | x58 => xe8 | x59 => xeb | x5a => xee | x5b => xed | x5c => xe4 | x5d => xe7 | x5e => xe2 | x5f => xe1
  | x60 => xa0 | x61 => xa3 | x62 => xa6 | x63 => xa5 | x64 => xac | x65 => xaf | x66 => xaa | x67 => xa9
  | x68 => xb8 | x69 => xbb | x6a => xbe | x6b => xbd | x6c => xb4 | x6d => xb7 | x6e => xb2 | x6f => xb1
  | x70 => x90 | x71 => x93 | x72 => x96 | x73 => x95 | x74 => x9c | x75 => x9f | x76 => x9a | x77 => x99
  | x78 => x88 | x79 => x8b | x7a => x8e | x7b => x8d | x7c => x84 | x7d => x87 | x7e => x82 | x7f => x81
  | x80 => x9b | x81 => x98 | x82 => x9d | x83 => x9e | x84 => x97 | x85 => x94 | x86 => x91 | x87 => x92
  | x88 => x83 | x89 => x80 | x8a => x85 | x8b => x86 | x8c => x8f | x8d => x8c | x8e => x89 | x8f => x8a
  | x90 => xab | x91 => xa8 | x92 => xad | x93 => xae | x94 => xa7 | x95 => xa4 | x96 => xa1 | x97 => xa2
  | x98 => xb3 | x99 => xb0 | x9a => xb5 | x9b => xb6 | x9c => xbf | x9d => xbc | x9e => xb9 | x9f => xba
  | xa0 => xfb | xa1 => xf8 | xa2 => xfd | xa3 => xfe | xa4 => xf7 | xa5 => xf4 | xa6 => xf1 | xa7 => xf2
  | xa8 => xe3 | xa9 => xe0 | xaa => xe5 | xab => xe6 | xac => xef | xad => xec | xae => xe9 | xaf => xea
  | xb0 => xcb | xb1 => xc8 | xb2 => xcd | xb3 => xce | xb4 => xc7 | xb5 => xc4 | xb6 => xc1 | xb7 => xc2
  | xb8 => xd3 | xb9 => xd0 | xba => xd5 | xbb => xd6 | xbc => xdf | xbd => xdc | xbe => xd9 | xbf => xda
  | xc0 => x5b | xc1 => x58 | xc2 => x5d | xc3 => x5e | xc4 => x57 | xc5 => x54 | xc6 => x51 | xc7 => x52
  | xc8 => x43 | xc9 => x40 | xca => x45 | xcb => x46 | xcc => x4f | xcd => x4c | xce => x49 | xcf => x4a
  | xd0 => x6b | xd1 => x68 | xd2 => x6d | xd3 => x6e | xd4 => x67 | xd5 => x64 | xd6 => x61 | xd7 => x62
  | xd8 => x73 | xd9 => x70 | xda => x75 | xdb => x76 | xdc => x7f | xdd => x7c | xde => x79 | xdf => x7a
  | xe0 => x3b | xe1 => x38 | xe2 => x3d | xe3 => x3e | xe4 => x37 | xe5 => x34 | xe6 => x31 | xe7 => x32
  | xe8 => x23 | xe9 => x20 | xea => x25 | xeb => x26 | xec => x2f | xed => x2c | xee => x29 | xef => x2a
  | xf0 => x0b | xf1 => x08 | xf2 => x0d | xf3 => x0e | xf4 => x07 | xf5 => x04 | xf6 => x01 | xf7 => x02
  | xf8 => x13 | xf9 => x10 | xfa => x15 | xfb => x16 | xfc => x1f | xfd => x1c | xfe => x19 | xff => x1a
  end.

Definition gmul9 (b : byte) : byte :=
  match b with
  | x00 => x00 | x01 => x09 | x02 => x12 | x03 => x1b | x04 => x24 | x05 => x2d | x06 => x36 | x07 => x3f
  | x08 => x48 | x09 => x41 | x0a => x5a | x0b => x53 | x0c => x6c | x0d => x65 | x0e => x7e | x0f => x77
  | x10 => x90 | x11 => x99 | x12 => x82 | x13 => x8b | x14 => xb4 | x15 => xbd | x16 => xa6 | x17 => xaf
  | x18 => xd8 | x19 => xd1 | x1a => xca | x1b => xc3 | x1c => xfc | x1d => xf5 | x1e => xee | x1f => xe7
  | x20 => x3b | x21 => x32 | x22 => x29 | x23 => x20 | x24 => x1f | x25 => x16 | x26 => x0d | x27 => x04
  | x28 => x73 | x29 => x7a | x2a => x61 | x2b => x68 | x2c => x57 | x2d => x5e | x2e => x45 | x2f => x4c
  | x30 => xab | x31 => xa2 | x32 => xb9 | x33 => xb0 | x34 => x8f | x35 => x86 | x36 => x9d | x37 => x94
  | x38 => xe3 | x39 => xea | x3a => xf1 | x3b => xf8 | x3c => xc7 | x3d => xce | x3e => xd5 | x3f => xdc
  | x40 => x76 | x41 => x7f | x42 => x64 | x43 => x6d | x44 => x52 | x45 => x5b | x46 => x40 | x47 => x49
  | x48 => x3e | x49 => x37 | x4a => x2c | x4b => x25 | x4c => x1a | x4d => x13 | x4e => x08 | x4f => x01
  | x50 => xe6 | x51 => xef | x52 => xf4 | x53 => xfd | x54 => xc2 | x55 => xcb | x56 => xd0 | x57 => xd9
  | x58 => xae | x59 => xa7 | x5a => xbc | x5b => xb5 | x5c => x8a | x5d => x83 | x5e => x98 | x5f => x91
  | x60 => x4d | x61 => x44 | x62 => x5f | x63 => x56 | x64 => x69 | x65 => x60 | x66 => x7b | x67 => x72
  | x68 => x05 | x69 => x0c | x6a => x17 | x6b => x1e | x6c => x21 | x6d => x28 | x6e => x33 | x6f => x3a
  | x70 => xdd | x71 => xd4 | x72 => xcf | x73 => xc6 | x74 => xf9 | x75 => xf0 | x76 => xeb | x77 => xe2
  | x78 => x95 | x79 => x9c | x7a => x87 | x7b => x8e | x7c => xb1 | x7d => xb8 | x7e => xa3 | x7f => xaa
  | x80 => xec | x81 => xe5 | x82 => xfe | x83 => xf7 | x84 => xc8 | x85 => xc1 | x86 => xda | x87 => xd3
  | x88 => xa4 | x89 => xad | x8a => xb6 | x8b => xbf | x8c => x80 | x8d => x89 | x8e => x92 | x8f => x9b
  | x90 => x7c | x91 => x75 | x92 => x6e | x93 => x67 | x94 => x58 | x95 => x51 | x96 => x4a | x97 => x43
  | x98 => x34 | x99 => x3d | x9a => x26 | x9b => x2f | x9c => x10 | x9d => x19 | x9e => x02 | x9f => x0b
  | xa0 => xd7 | xa1 => xde | xa2 => xc5 | xa3 => xcc | xa4 => xf3 | xa5 => xfa | xa6 => xe1 | xa7 => xe8
  | xa8 => x9f | xa9 => x96 | xaa => x8d | xab => x84 | xac => xbb | xad => xb2 | xae => xa9 | xaf => xa0
  | xb0 => x47 | xb1 => x4e | xb2 => x55 | xb3 => x5c | xb4 => x63 | xb5 => x6a | xb6 => x71 | xb7 => x78
  | xb8 => x0f | xb9 => x06 | xba => x1d | xbb => x14 | xbc => x2b | xbd => x22 | xbe => x39 | xbf => x30
  | xc0 => x9a | xc1 => x93 | xc2 => x88 | xc3 => x81 | xc4 => xbe | xc5 => xb7 | xc6 => xac | xc7 => xa5
  | xc8 => xd2 | xc9 => xdb | xca => xc0 | xcb => xc9 | xcc => xf6 | xcd => xff | xce => xe4 | xcf => xed
  | xd0 => x0a | xd1 => x03 | xd2 => x18 | xd3 => x11 | xd4 => x2e | xd5 => x27 | xd6 => x3c | xd7 => x35
  | xd8 => x42 | xd9 => x4b | xda => x50 | xdb => x59 | xdc => x66 | xdd => x6f | xde => x74 | xdf => x7d
  | xe0 => xa1 | xe1 => xa8 | xe2 => xb3 | xe3 => xba | xe4 => x85 | xe5 => x8c | xe6 => x97 | xe7 => x9e
  | xe8 => xe9 | xe9 => xe0 | xea => xfb | xeb => xf2 | xec => xcd | xed => xc4 | xee => xdf | xef => xd6
  | xf0 => x31 | xf1 => x38 | xf2 => x23 | xf3 => x2a | xf4 => x15 | xf5 => x1c | xf6 => x07 | xf7 => x0e
  | xf8 => x79 | xf9 => x70 | xfa => x6b | xfb => x62 | xfc => x5d | xfd => x54 | xfe => x4f | xff => x46
  end.

Definition gmul11 (b : byte) : byte :=
  match b with
  | x00 => x00 | x01 => x0b | x02 => x16 | x03 => x1d | x04 => x2c | x05 => x27 | x06 => x3a | x07 => x31
  | x08 => x58 | x09 => x53 | x0a => x4e | x0b => x45 | x0c => x74 | x0d => x7f | x0e => x62 | x0f => x69
  | x10 => xb0 | x11 => xbb | x12 => xa6 | x13 => xad | x14 => x9c | x15 => x97 | x16 => x8a | x17 => x81
  | x18 => xe8 | x19 => xe3 | x1a => xfe | x1b => xf5 | x1c => xc4 | x1d => xcf | x1e => xd2 | x1f => xd9
  | x20 => x7b | x21 => x70 | x22 => x6d | x23 => x66 | x24 => x57 | x25 => x5c | x26 => x41 | x27 => x4a
  | x28 => x23 | x29 => x28 | x2a => x35 | x2b => x3e | x2c => x0f | x2d => x04 | x2e => x19 | x2f => x12
  | x30 => xcb | x31 => xc0 | x32 => xdd | x33 => xd6 | x34 => xe7 | x35 => xec | x36 => xf1 | x37 => xfa
  | x38 => x93 | x39 => x98 | x3a => x85 | x3b => x8e | x3c => xbf | x3d => xb4 | x3e => xa9 | x3f => xa2
  | x40 => xf6 | x41 => xfd | x42 => xe0 | x43 => xeb | x44 => xda | x45 => xd1 | x46 => xcc | x47 => xc7
  | x48 => xae | x49 => xa5 | x4a => xb8 | x4b => xb3 | x4c => x82 | x4d => x89 | x4e => x94 | x4f => x9f
  | x50 => x46 | x51 => x4d | x52 => x50 | x53 => x5b | x54 => x6a | x55 => x61 | x56 => x7c | x57 => x77
  | x58 => x1e | x59 => x15 | x5a => x08 | x5b => x03 | x5c => x32 | x5d => x39 | x5e => x24 | x5f => x2f
  | x60 => x8d | x61 => x86 | x62 => x9b | x63 => x90 | x64 => xa1 | x65 => xaa | x66 => xb7 | x67 => xbc
  | x68 => xd5 | x69 => xde | x6a => xc3 | x6b => xc8 | x6c => xf9 | x6d => xf2 | x6e => xef | x6f => xe4
  | x70 => x3d | x71 => x36 | x72 => x2b | x73 => x20 | x74 => x11 | x75 => x1a | x76 => x07 | x77 => x0c
  | x78 => x65 | x79 => x6e | x7a => x73 | x7b => x78 | x7c => x49 | x7d => x42 | x7e => x5f | x7f => x54
  | x80 => xf7 | x81 => xfc | x82 => xe1 | x83 => xea | x84 => xdb | x85 => xd0 | x86 => xcd | x87 => xc6
  | x88 => xaf | x89 => xa4 | x8a => xb9 | x8b => xb2 | x8c => x83 | x8d => x88 | x8e => x95 | x8f => x9e
  | x90 => x47 | x91 => x4c | x92 => x51 | x93 => x5a | x94 => x6b | x95 => x60 | x96 => x7d | x97 => x76
  | x98 => x1f | x99 => x14 | x9a => x09 | x9b => x02 | x9c => x33 | x9d => x38 | x9e => x25 | x9f => x2e
  | xa0 => x8c | xa1 => x87 | xa2 => x9a | xa3 => x91 | xa4 => xa0 | xa5 => xab | xa6 => xb6 | xa7 => xbd
  | xa8 => xd4 | xa9 => xdf | xaa => xc2 | xab => xc9 | xac => xf8 | xad => xf3 | xae => xee | xaf => xe5
  | xb0 => x3c | xb1 => x37 | xb2 => x2a | xb3 => x21 | xb4 => x10 | xb5 => x1b | xb6 => x06 | xb7 => x0d
  | xb8 => x64 | xb9 => x6f | xba => x72 | xbb => x79 | xbc => x48 | xbd => x43 | xbe => x5e | xbf => x55
  | xc0 => x01 | xc1 => x0a | xc2 => x17 | xc3 => x1c | xc4 => x2d | xc5 => x26 | xc6 => x3b | xc7 => x30
  | xc8 => x59 | xc9 => x52 | xca => x4f | xcb => x44 | xcc => x75 | xcd => x7e | xce => x63 | xcf => x68
  | xd0 => xb1 | xd1 => xba | xd2 => xa7 | xd3 => xac | xd4 => x9d | xd5 => x96 | xd6 => x8b | xd7 => x80
  | xd8 => xe9 | xd9 => xe2 | xda => xff | xdb => xf4 | xdc => xc5 | xdd => xce | xde => xd3 | xdf => xd8
  | xe0 => x7a | xe1 => x71 | xe2 => x6c | xe3 => x67 | xe4 => x56 | xe5 => x5d | xe6 => x40 | xe7 => x4b
  | xe8 => x22 | xe9 => x29 | xea => x34 | xeb => x3f | xec => x0e | xed => x05 | xee => x18 | xef => x13
  | xf0 => xca | xf1 => xc1 | xf2 => xdc | xf3 => xd7 | xf4 => xe6 | xf5 => xed | xf6 => xf0 | xf7 => xfb
  | xf8 => x92 | xf9 => x99 | xfa => x84 | xfb => x8f | xfc => xbe | xfd => xb5 | xfe => xa8 | xff => xa3
  end.

Definition gmul13 (b : byte) : byte :=
  match b with
  | x00 => x00 | x01 => x0d | x02 => x1a | x03 => x17 | x04 => x34 | x05 => x39 | x06 => x2e | x07 => x23
  | x08 => x68 | x09 => x65 | x0a => x72 | x0b => x7f | x0c => x5c | x0d => x51 | x0e => x46 | x0f => x4b
  | x10 => xd0 | x11 => xdd | x12 => xca | x13 => xc7 | x14 => xe4 | x15 => xe9 | x16 => xfe | x17 => xf3
  | x18 => xb8 | x19 => xb5 | x1a => xa2 | x1b => xaf | x1c => x8c | x1d => x81 | x1e => x96 | x1f => x9b
  | x20 => xbb | x21 => xb6 | x22 => xa1 | x23 => xac | x24 => x8f | x25 => x82 | x26 => x95 | x27 => x98
  | x28 => xd3 | x29 => xde | x2a => xc9 | x2b => xc4 | x2c => xe7 | x2d => xea | x2e => xfd | x2f => xf0
  | x30 => x6b | x31 => x66 | x32 => x71 | x33 => x7c | x34 => x5f | x35 => x52 | x36 => x45 | x37 => x48
  | x38 => x03 | x39 => x0e | x3a => x19 | x3b => x14 | x3c => x37 | x3d => x3a | x3e => x2d | x3f => x20
  | x40 => x6d | x41 => x60 | x42 => x77 | x43 => x7a | x44 => x59 | x45 => x54 | x46 => x43 | x47 => x4e
  | x48 => x05 | x49 => x08 | x4a => x1f | x4b => x12 | x4c => x31 | x4d => x3c | x4e => x2b | x4f => x26
  | x50 => xbd | x51 => xb0 | x52 => xa7 | x53 => xaa | x54 => x89 | x55 => x84 | x56 => x93 | x57 => x9e
  | x58 => xd5 | x59 => xd8 | x5a => xcf | x5b => xc2 | x5c => xe1 | x5d => xec | x5e => xfb | x5f => xf6
  | x60 => xd6 | x61 => xdb | x62 => xcc | x63 => xc1 | x64 => xe2 | x65 => xef | x66 => xf8 | x67 => xf5
  | x68 => xbe | x69 => xb3 | x6a => xa4 | x6b => xa9 | x6c => x8a | x6d => x87 | x6e => x90 | x6f => x9d
  | x70 => x06 | x71 => x0b | x72 => x1c | x73 => x11 | x74 => x32 | x75 => x3f | x76 => x28 | x77 => x25
  | x78 => x6e | x79 => x63 | x7a => x74 | x7b => x79 | x7c => x5a | x7d => x57 | x7e => x40 | x7f => x4d
  | x80 => xda | x81 => xd7 | x82 => xc0 | x83 => xcd | x84 => xee | x85 => xe3 | x86 => xf4 | x87 => xf9
  | x88 => xb2 | x89 => xbf | x8a => xa8 | x8b => xa5 | x8c => x86 | x8d => x8b | x8e => x9c | x8f => x91
  | x90 => x0a | x91 => x07 | x92 => x10 | x93 => x1d | x94 => x3e | x95 => x33 | x96 => x24 | x97 => x29
  | x98 => x62 | x99 => x6f | x9a => x78 | x9b => x75 | x9c => x56 | x9d => x5b | x9e => x4c | x9f => x41
  | xa0 => x61 | xa1 => x6c | xa2 => x7b | xa3 => x76 | xa4 => x55 | xa5 => x58 | xa6 => x4f | xa7 => x42
  | xa8 => x09 | xa9 => x04 | xaa => x13 | xab => x1e | xac => x3d | xad => x30 | xae => x27 | xaf => x2a
  | xb0 => xb1 | xb1 => xbc | xb2 => xab | xb3 => xa6 | xb4 => x85 | xb5 => x88 | xb6 => x9f | xb7 => x92
  | xb8 => xd9 | xb9 => xd4 | xba => xc3 | xbb => xce | xbc => xed | xbd => xe0 | xbe => xf7 | xbf => xfa
  | xc0 => xb7 | xc1 => xba | xc2 => xad | xc3 => xa0 | xc4 => x83 | xc5 => x8e | xc6 => x99 | xc7 => x94
  | xc8 => xdf | xc9 => xd2 | xca => xc5 | xcb => xc8 | xcc => xeb | xcd => xe6 | xce => xf1 | xcf => xfc
  | xd0 => x67 | xd1 => x6a | xd2 => x7d | xd3 => x70 | xd4 => x53 | xd5 => x5e | xd6 => x49 | xd7 => x44
  | xd8 => x0f | xd9 => x02 | xda => x15 | xdb => x18 | xdc => x3b | xdd => x36 | xde => x21 | xdf => x2c
  | xe0 => x0c | xe1 => x01 | xe2 => x16 | xe3 => x1b | xe4 => x38 | xe5 => x35 | xe6 => x22 | xe7 => x2f
  | xe8 => x64 | xe9 => x69 | xea => x7e | xeb => x73 | xec => x50 | xed => x5d | xee => x4a | xef => x47
  | xf0 => xdc | xf1 => xd1 | xf2 => xc6 | xf3 => xcb | xf4 => xe8 | xf5 => xe5 | xf6 => xf2 | xf7 => xff
  | xf8 => xb4 | xf9 => xb9 | xfa => xae | xfb => xa3 | xfc => x80 | xfd => x8d | xfe => x9a | xff => x97
  end.

Definition gmul14 (b : byte) : byte :=
  match b with
  | x00 => x00 | x01 => x0e | x02 => x1c | x03 => x12 | x04 => x38 | x05 => x36 | x06 => x24 | x07 => x2a
  | x08 => x70 | x09 => x7e | x0a => x6c | x0b => x62 | x0c => x48 | x0d => x46 | x0e => x54 | x0f => x5a
  | x10 => xe0 | x11 => xee | x12 => xfc | x13 => xf2 | x14 => xd8 | x15 => xd6 | x16 => xc4 | x17 => xca
  | x18 => x90 | x19 => x9e | x1a => x8c | x1b => x82 | x1c => xa8 | x1d => xa6 | x1e => xb4 | x1f => xba
  | x20 => xdb | x21 => xd5 | x22 => xc7 | x23 => xc9 | x24 => xe3 | x25 => xed | x26 => xff | x27 => xf1
  | x28 => xab | x29 => xa5 | x2a => xb7 | x2b => xb9 | x2c => x93 | x2d => x9d | x2e => x8f | x2f => x81
  | x30 => x3b | x31 => x35 | x32 => x27 | x33 => x29 | x34 => x03 | x35 => x0d | x36 => x1f | x37 => x11
  | x38 => x4b | x39 => x45 | x3a => x57 | x3b => x59 | x3c => x73 | x3d => x7d | x3e => x6f | x3f => x61
  | x40 => xad | x41 => xa3 | x42 => xb1 | x43 => xbf | x44 => x95 | x45 => x9b | x46 => x89 | x47 => x87
  | x48 => xdd | x49 => xd3 | x4a => xc1 | x4b => xcf | x4c => xe5 | x4d => xeb | x4e => xf9 | x4f => xf7
  | x50 => x4d | x51 => x43 | x52 => x51 | x53 => x5f | x54 => x75 | x55 => x7b | x56 => x69 | x57 => x67
  | x58 => x3d | x59 => x33 | x5a => x21 | x5b => x2f | x5c => x05 | x5d => x0b | x5e => x19 | x5f => x17
  | x60 => x76 | x61 => x78 | x62 => x6a | x63 => x64 | x64 => x4e | x65 => x40 | x66 => x52 | x67 => x5c
  | x68 => x06 | x69 => x08 | x6a => x1a | x6b => x14 | x6c => x3e | x6d => x30 | x6e => x22 | x6f => x2c
  | x70 => x96 | x71 => x98 | x72 => x8a | x73 => x84 | x74 => xae | x75 => xa0 | x76 => xb2 | x77 => xbc
  | x78 => xe6 | x79 => xe8 | x7a => xfa | x7b => xf4 | x7c => xde | x7d => xd0 | x7e => xc2 | x7f => xcc
  | x80 => x41 | x81 => x4f | x82 => x5d | x83 => x53 | x84 => x79 | x85 => x77 | x86 => x65 | x87 => x6b
  | x88 => x31 | x89 => x3f | x8a => x2d | x8b => x23 | x8c => x09 | x8d => x07 | x8e => x15 | x8f => x1b
  | x90 => xa1 | x91 => xaf | x92 => xbd | x93 => xb3 | x94 => x99 | x95 => x97 | x96 => x85 | x97 => x8b
  | x98 => xd1 | x99 => xdf | x9a => xcd | x9b => xc3 | x9c => xe9 | x9d => xe7 | x9e => xf5 | x9f => xfb
  | xa0 => x9a | xa1 => x94 | xa2 => x86 | xa3 => x88 | xa4 => xa2 | xa5 => xac | xa6 => xbe | xa7 => xb0
  | xa8 => xea | xa9 => xe4 | xaa => xf6 | xab => xf8 | xac => xd2 | xad => xdc | xae => xce | xaf => xc0
  | xb0 => x7a | xb1 => x74 | xb2 => x66 | xb3 => x68 | xb4 => x42 | xb5 => x4c | xb6 => x5e | xb7 => x50
  | xb8 => x0a | xb9 => x04 | xba => x16 | xbb => x18 | xbc => x32 | xbd => x3c | xbe => x2e | xbf => x20
  | xc0 => xec | xc1 => xe2 | xc2 => xf0 | xc3 => xfe | xc4 => xd4 | xc5 => xda | xc6 => xc8 | xc7 => xc6
  | xc8 => x9c | xc9 => x92 | xca => x80 | xcb => x8e | xcc => xa4 | xcd => xaa | xce => xb8 | xcf => xb6
  | xd0 => x0c | xd1 => x02 | xd2 => x10 | xd3 => x1e | xd4 => x34 | xd5 => x3a | xd6 => x28 | xd7 => x26
  | xd8 => x7c | xd9 => x72 | xda => x60 | xdb => x6e | xdc => x44 | xdd => x4a | xde => x58 | xdf => x56
  | xe0 => x37 | xe1 => x39 | xe2 => x2b | xe3 => x25 | xe4 => x0f | xe5 => x01 | xe6 => x13 | xe7 => x1d
  | xe8 => x47 | xe9 => x49 | xea => x5b | xeb => x55 | xec => x7f | xed => x71 | xee => x63 | xef => x6d
  | xf0 => xd7 | xf1 => xd9 | xf2 => xcb | xf3 => xc5 | xf4 => xef | xf5 => xe1 | xf6 => xf3 | xf7 => xfd
  | xf8 => xa7 | xf9 => xa9 | xfa => xbb | xfb => xb5 | xfc => x9f | xfd => x91 | xfe => x83 | xff => x8d
  end.

(* 5.1.1 / 5.3.2 *)
Definition sub_bytes (s : bytes) : bytes := map sbox s.
Definition inv_sub_bytes (s : bytes) : bytes := map inv_sbox s.

(* 5.1.2: row r is rotated left by r; with s[r,c] at index r + 4c *)
Definition shift_rows (s : bytes) : bytes :=
  match s with
  | [a0; a1; a2; a3; a4; a5; a6; a7; a8; a9; a10; a11; a12; a13; a14; a15] =>
    [a0; a5; a10; a15; a4; a9; a14; a3; a8; a13; a2; a7; a12; a1; a6; a11]
  | _ => s
  end.
(* 5.3.1 *)
Definition inv_shift_rows (s : bytes) : bytes :=
  match s with
  | [a0; a1; a2; a3; a4; a5; a6; a7; a8; a9; a10; a11; a12; a13; a14; a15] =>
    [a0; a13; a10; a7; a4; a1; a14; a11; a8; a5; a2; a15; a12; a9; a6; a3]
  | _ => s
  end.

Definition x4 (a b c d : byte) : byte := bxor (bxor a b) (bxor c d).

(* 5.1.3: each column is multiplied by {03}x^3 + {01}x^2 + {01}x + {02} *)
Definition mix_col (a0 a1 a2 a3 : byte) : bytes :=
  [x4 (gmul2 a0) (gmul3 a1) a2 a3;
   x4 a0 (gmul2 a1) (gmul3 a2) a3;
   x4 a0 a1 (gmul2 a2) (gmul3 a3);
   x4 (gmul3 a0) a1 a2 (gmul2 a3)].
(* 5.3.3: {0b}x^3 + {0d}x^2 + {09}x + {0e} *)
Definition inv_mix_col (a0 a1 a2 a3 : byte) : bytes :=
  [x4 (gmul14 a0) (gmul11 a1) (gmul13 a2) (gmul9 a3);
   x4 (gmul9 a0) (gmul14 a1) (gmul11 a2) (gmul13 a3);
   x4 (gmul13 a0) (gmul9 a1) (gmul14 a2) (gmul11 a3);
   x4 (gmul11 a0) (gmul13 a1) (gmul9 a2) (gmul14 a3)].

Fixpoint mix_columns (s : bytes) : bytes :=
  match s with
  | a0 :: a1 :: a2 :: a3 :: r => mix_col a0 a1 a2 a3 ++ mix_columns r
  | _ => s
  end.
Fixpoint inv_mix_columns (s : bytes) : bytes :=
  match s with
  | a0 :: a1 :: a2 :: a3 :: r => inv_mix_col a0 a1 a2 a3 ++ inv_mix_columns r
  | _ => s
  end.

Definition add_round_key (rk s : bytes) : bytes := xor_bytes s rk.

(* 5.2 key expansion.  Words are 4-byte lists; [wr] holds w[i-1], w[i-2], ... (newest first). *)
Definition rot_word (w : bytes) : bytes := match w with a :: r => r ++ [a] | [] => [] end.
Definition sub_word (w : bytes) : bytes := map sbox w.
Definition rcon : list byte := [x01; x02; x04; x08; x10; x20; x40; x80; x1b; x36].

Fixpoint expand_aux (n : nat) (nk : nat) (i : nat) (wr : list bytes) : list bytes :=
  match n with
  | O => wr
  | S m =>
    let temp := nth 0 wr [] in
    let temp' :=
      if Nat.eqb (Nat.modulo i nk) 0 then
        xor_bytes (sub_word (rot_word temp)) [nth (Nat.sub (Nat.div i nk) 1) rcon x00; x00; x00; x00]
      else if Nat.ltb 6 nk && Nat.eqb (Nat.modulo i nk) 4 then sub_word temp
      else temp in
    expand_aux m nk (S i) (xor_bytes (nth (Nat.sub nk 1) wr []) temp' :: wr)
  end.

Fixpoint group4 (ws : list bytes) : list bytes :=
  match ws with
  | a :: b :: c :: d :: r => (a ++ b ++ c ++ d) :: group4 r
  | _ => []
  end.

(* the Nr + 1 round keys of 16 bytes each; key of 16 bytes (Nk = 4, Nr = 10) or 32 bytes (Nk = 8, Nr = 14) *)
Definition key_expansion (key : bytes) : list bytes :=
  let nk := Nat.div (length key) 4 in
  let nr := Nat.add nk 6 in
  let w0 := rev (chunks_of 4 key) in
  group4 (rev (expand_aux (Nat.sub (Nat.mul 4 (S nr)) nk) nk nk w0)).

(* 5.1 Cipher: rounds 1 .. Nr over the round keys after the first *)
Fixpoint cipher_rounds (rks : list bytes) (s : bytes) : bytes :=
  match rks with
  | [] => s
  | [rk] => add_round_key rk (shift_rows (sub_bytes s))
  | rk :: rest => cipher_rounds rest (add_round_key rk (mix_columns (shift_rows (sub_bytes s))))
  end.
Definition cipher (rks : list bytes) (s : bytes) : bytes :=
  match rks with
  | [] => s
  | rk0 :: rest => cipher_rounds rest (add_round_key rk0 s)
  end.

(* 5.3 InvCipher, written over the same (forward) key schedule: the rounds of [cipher_rounds]
   undone last first *)
Fixpoint inv_cipher_rounds (rks : list bytes) (s : bytes) : bytes :=
  match rks with
  | [] => s
  | [rk] => inv_sub_bytes (inv_shift_rows (add_round_key rk s))
  | rk :: rest =>
    inv_sub_bytes (inv_shift_rows (inv_mix_columns (add_round_key rk (inv_cipher_rounds rest s))))
  end.
Definition inv_cipher (rks : list bytes) (s : bytes) : bytes :=
  match rks with
  | [] => s
  | rk0 :: rest => add_round_key rk0 (inv_cipher_rounds rest s)
  end.

(* block functions on a raw key; the key schedule is computed once per key when partially applied *)
Definition aes_encrypt_block (key : bytes) : bytes -> bytes :=
  let rks := key_expansion key in fun b => cipher rks b.
Definition aes_decrypt_block (key : bytes) : bytes -> bytes :=
  let rks := key_expansion key in fun b => inv_cipher rks b.

(* FIPS 197 Appendix B *)
Example aes128_appB :
  aes_encrypt_block (hex "2b7e151628aed2a6abf7158809cf4f3c") (hex "3243f6a8885a308d313198a2e0370734")
  = hex "3925841d02dc09fbdc118597196a0b32".
Proof. vm_compute. reflexivity. Qed.
(* Appendix A.1: last round key of the 128-bit expansion *)
Example aes128_expansion_last :
  last (key_expansion (hex "2b7e151628aed2a6abf7158809cf4f3c")) [] = hex "d014f9a8c9ee2589e13f0cc8b6630ca6".
Proof. vm_compute. reflexivity. Qed.
(* Appendix A.3: last round key of the 256-bit expansion *)
Example aes256_expansion_last :
  last (key_expansion (hex "603deb1015ca71be2b73aef0857d77811f352c073b6108d72d9810a30914dff4")) []
  = hex "fe4890d1e6188d0b046df344706c631e".
Proof. vm_compute. reflexivity. Qed.
(* Appendix C.1 *)
Example aes128_C1_enc :
  aes_encrypt_block (hex "000102030405060708090a0b0c0d0e0f") (hex "00112233445566778899aabbccddeeff")
  = hex "69c4e0d86a7b0430d8cdb78070b4c55a".
Proof. vm_compute. reflexivity. Qed.
Example aes128_C1_dec :
  aes_decrypt_block (hex "000102030405060708090a0b0c0d0e0f") (hex "69c4e0d86a7b0430d8cdb78070b4c55a")
  = hex "00112233445566778899aabbccddeeff".
Proof. vm_compute. reflexivity. Qed.
(* Appendix C.3 *)
Example aes256_C3_enc :
  aes_encrypt_block (hex "000102030405060708090a0b0c0d0e0f101112131415161718191a1b1c1d1e1f")
                    (hex "00112233445566778899aabbccddeeff")
  = hex "8ea2b7ca516745bfeafc49904b496089".
Proof. vm_compute. reflexivity. Qed.
Example aes256_C3_dec :
  aes_decrypt_block (hex "000102030405060708090a0b0c0d0e0f101112131415161718191a1b1c1d1e1f")
                    (hex "8ea2b7ca516745bfeafc49904b496089")
  = hex "00112233445566778899aabbccddeeff".
Proof. vm_compute. reflexivity. Qed.
