(* MD5.v -- MD5 written from RFC 1321, executable.  Stands in for the `md-5` crate (third-party
   code: not lopdf's); anchored by the RFC's test suite below and differential-tested through
   lopdf on every run of the C05/C06 checks.  Definitions + test vectors only. *)
From LV Require Import Base.Bytes Model.Crypto.Word.
Local Open Scope N_scope.

(* per step: (round 0..3, K[i] = floor(2^32 * abs(sin(i+1))), shift s[i], message word index g) *)
Definition md5_table : list (N * N * N * N) :=
  [(0, 3614090360, 7, 0);
   (0, 3905402710, 12, 1);
   (0, 606105819, 17, 2);
   (0, 3250441966, 22, 3);
   (0, 4118548399, 7, 4);
   (0, 1200080426, 12, 5);
   (0, 2821735955, 17, 6);
   (0, 4249261313, 22, 7);
   (0, 1770035416, 7, 8);
   (0, 2336552879, 12, 9);
   (0, 4294925233, 17, 10);
   (0, 2304563134, 22, 11);
   (0, 1804603682, 7, 12);
   (0, 4254626195, 12, 13);
   (0, 2792965006, 17, 14);
   (0, 1236535329, 22, 15);
   (1, 4129170786, 5, 1);
   (1, 3225465664, 9, 6);
   (1, 643717713, 14, 11);
   (1, 3921069994, 20, 0);
   (1, 3593408605, 5, 5);
   (1, 38016083, 9, 10);
   (1, 3634488961, 14, 15);
   (1, 3889429448, 20, 4);
   (1, 568446438, 5, 9);
   (1, 3275163606, 9, 14);
   (1, 4107603335, 14, 3);
   (1, 1163531501, 20, 8);
   (1, 2850285829, 5, 13);
   (1, 4243563512, 9, 2);
   (1, 1735328473, 14, 7);
   (1, 2368359562, 20, 12);
   (2, 4294588738, 4, 5);
   (2, 2272392833, 11, 8);
   (2, 1839030562, 16, 11);
   (2, 4259657740, 23, 14);
   (2, 2763975236, 4, 1);
   (2, 1272893353, 11, 4);
   (2, 4139469664, 16, 7);
   (2, 3200236656, 23, 10);
   (2, 681279174, 4, 13);
   (2, 3936430074, 11, 0);
   (2, 3572445317, 16, 3);
   (2, 76029189, 23, 6);
   (2, 3654602809, 4, 9);
   (2, 3873151461, 11, 12);
   (2, 530742520, 16, 15);
   (2, 3299628645, 23, 2);
   (3, 4096336452, 6, 0);
   (3, 1126891415, 10, 7);
   (3, 2878612391, 15, 14);
   (3, 4237533241, 21, 5);
   (3, 1700485571, 6, 12);
   (3, 2399980690, 10, 3);
   (3, 4293915773, 15, 10);
   (3, 2240044497, 21, 1);
   (3, 1873313359, 6, 8);
   (3, 4264355552, 10, 15);
   (3, 2734768916, 15, 6);
   (3, 1309151649, 21, 13);
   (3, 4149444226, 6, 4);
   (3, 3174756917, 10, 11);
   (3, 718787259, 15, 2);
   (3, 3951481745, 21, 9)].

(* RFC 1321 3.1/3.2: append 0x80, zeros up to 56 mod 64, then the bit length as 64-bit little endian *)
Definition md5_pad (m : bytes) : bytes :=
  let len := length m in
  let r := Nat.modulo (len + 1) 64 in
  let z := if Nat.leb r 56 then Nat.sub 56 r else Nat.sub 120 r in
  m ++ x80 :: zeros z ++ N_to_le 8 (8 * N.of_nat len).

Definition md5_step (M : list N) (st : N * N * N * N) (e : N * N * N * N) : N * N * N * N :=
  let '(a, b, c, d) := st in
  let '(kind, k, s, g) := e in
  let f := match kind with
           | 0 => N.lor (N.land b c) (N.land (not32 b) d)
           | 1 => N.lor (N.land d b) (N.land (not32 d) c)
           | 2 => N.lxor b (N.lxor c d)
           | _ => N.lxor c (N.lor b (not32 d))
           end in
  let f' := add32 (add32 (add32 f a) k) (nth (N.to_nat g) M 0) in
  (d, add32 b (rotl32 f' s), b, c).

Definition md5_block (st : N * N * N * N) (blk : bytes) : N * N * N * N :=
  let M := map le_to_N (chunks_of 4 blk) in
  let '(a, b, c, d) := st in
  let '(a', b', c', d') := fold_left (md5_step M) md5_table st in
  (add32 a a', add32 b b', add32 c c', add32 d d').

Definition md5_init : N * N * N * N := (1732584193, 4023233417, 2562383102, 271733878).

Definition md5 (m : bytes) : bytes :=
  let '(a, b, c, d) := fold_left md5_block (chunks_of 64 (md5_pad m)) md5_init in
  N_to_le 4 a ++ N_to_le 4 b ++ N_to_le 4 c ++ N_to_le 4 d.

(* RFC 1321 A.5 test suite *)
Example md5_empty : md5 [] = hex "d41d8cd98f00b204e9800998ecf8427e".
Proof. vm_compute. reflexivity. Qed.
Example md5_a : md5 (bs "a") = hex "0cc175b9c0f1b6a831c399e269772661".
Proof. vm_compute. reflexivity. Qed.
Example md5_abc : md5 (bs "abc") = hex "900150983cd24fb0d6963f7d28e17f72".
Proof. vm_compute. reflexivity. Qed.
Example md5_msgdigest : md5 (bs "message digest") = hex "f96b697d7cb7938d525a2f31aaf161d0".
Proof. vm_compute. reflexivity. Qed.
Example md5_alpha : md5 (bs "abcdefghijklmnopqrstuvwxyz") = hex "c3fcd3d76192e4007dfb496cca67e13b".
Proof. vm_compute. reflexivity. Qed.
Example md5_alnum : md5 (bs "ABCDEFGHIJKLMNOPQRSTUVWXYZabcdefghijklmnopqrstuvwxyz0123456789")
  = hex "d174ab98d277d9f5a5611c2c9f419d9f".
Proof. vm_compute. reflexivity. Qed.
Example md5_digits :
  md5 (bs "12345678901234567890123456789012345678901234567890123456789012345678901234567890")
  = hex "57edf4a22be3c955ac49da2e2107b67a".
Proof. vm_compute. reflexivity. Qed.
