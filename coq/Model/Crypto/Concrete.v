(* Concrete.v -- the executable instantiation of [Handler.prims] with the Gallina MD5 / SHA-2 / AES
   written from the public standards.  One line of the trusted base each (DESIGN 3, "External
   code"): they stand in for the md-5, sha2 and aes crates and are differential-tested through
   lopdf on every run.  [aes_encrypt_block key] computes the key schedule once per key. *)
From LV Require Import Base.Bytes Model.Obj Model.Crypto.Word Model.Crypto.MD5 Model.Crypto.SHA2 Model.Crypto.AES
  Model.Crypto.Handler.

(* [dec] = Stream::decompress (see [p_decompress]); the hashes and the block cipher are the Gallina ones *)
Definition concrete_with (dec : dict -> bytes -> option (dict * bytes)) : prims :=
  {| p_md5 := md5; p_sha256 := sha256; p_sha384 := sha384; p_sha512 := sha512;
     p_aes_enc := aes_encrypt_block; p_aes_dec := aes_decrypt_block; p_decompress := dec |}.

(* the instance the runners execute: no filter model -- Stream::decompress fails on a stream that has no Filter
   (filters() = Err), which is all this instance is asked about: the C05 runner answers "unmodelled" itself when a
   stream of Type ObjStm carries a Filter *)
Definition concrete : prims := concrete_with (fun _ _ => None).
