(* Word.v -- byte / word helpers shared by the cryptographic primitives (RC4, MD5, SHA-2, AES,
   PKCS#5 / CBC) and by the security-handler model.  Definitions only.
   32- and 64-bit words are [N]; wrap-around is explicit ([w32], [w64] = reduction mod 2^32 /
   2^64, written with [N.land] against the all-ones mask, which is the same function and much
   faster than [N.modulo] in the extracted runner). *)
From LV Require Import Base.Bytes Base.Sx.
Local Open Scope N_scope.

(* low 8 bits of a number as a byte (Rust: [x as u8]) *)
Definition byte_lo (x : N) : byte :=
  match Strings.Byte.of_N (N.land x 255) with Some b => b | None => x00 end.

(* byte xor through 4-bit halves: every step is a match on an enumeration (no allocation in the
   extracted runner); [bxor_spec] in Proofs/CryptoProofs.v ties it to N.lxor by a 65 536-case sweep *)
Inductive nib := n0 | n1 | n2 | n3 | n4 | n5 | n6 | n7 | n8 | n9 | na | nb | nc | nd | ne | nf.
Definition nib_hi (b : byte) : nib :=
  match b with
  | x00 => n0 | x01 => n0 | x02 => n0 | x03 => n0 | x04 => n0 | x05 => n0 | x06 => n0 | x07 => n0
  | x08 => n0 | x09 => n0 | x0a => n0 | x0b => n0 | x0c => n0 | x0d => n0 | x0e => n0 | x0f => n0
  | x10 => n1 | x11 => n1 | x12 => n1 | x13 => n1 | x14 => n1 | x15 => n1 | x16 => n1 | x17 => n1
  | x18 => n1 | x19 => n1 | x1a => n1 | x1b => n1 | x1c => n1 | x1d => n1 | x1e => n1 | x1f => n1
  | x20 => n2 | x21 => n2 | x22 => n2 | x23 => n2 | x24 => n2 | x25 => n2 | x26 => n2 | x27 => n2
  | x28 => n2 | x29 => n2 | x2a => n2 | x2b => n2 | x2c => n2 | x2d => n2 | x2e => n2 | x2f => n2
  | x30 => n3 | x31 => n3 | x32 => n3 | x33 => n3 | x34 => n3 | x35 => n3 | x36 => n3 | x37 => n3
  | x38 => n3 | x39 => n3 | x3a => n3 | x3b => n3 | x3c => n3 | x3d => n3 | x3e => n3 | x3f => n3
  | x40 => n4 | x41 => n4 | x42 => n4 | x43 => n4 | x44 => n4 | x45 => n4 | x46 => n4 | x47 => n4
  | x48 => n4 | x49 => n4 | x4a => n4 | x4b => n4 | x4c => n4 | x4d => n4 | x4e => n4 | x4f => n4
  | x50 => n5 | x51 => n5 | x52 => n5 | x53 => n5 | x54 => n5 | x55 => n5 | x56 => n5 | x57 => n5
  | x58 => n5 | x59 => n5 | x5a => n5 | x5b => n5 | x5c => n5 | x5d => n5 | x5e => n5 | x5f => n5
  | x60 => n6 | x61 => n6 | x62 => n6 | x63 => n6 | x64 => n6 | x65 => n6 | x66 => n6 | x67 => n6
  | x68 => n6 | x69 => n6 | x6a => n6 | x6b => n6 | x6c => n6 | x6d => n6 | x6e => n6 | x6f => n6
  | x70 => n7 | x71 => n7 | x72 => n7 | x73 => n7 | x74 => n7 | x75 => n7 | x76 => n7 | x77 => n7
  | x78 => n7 | x79 => n7 | x7a => n7 | x7b => n7 | x7c => n7 | x7d => n7 | x7e => n7 | x7f => n7
  | x80 => n8 | x81 => n8 | x82 => n8 | x83 => n8 | x84 => n8 | x85 => n8 | x86 => n8 | x87 => n8
  | x88 => n8 | x89 => n8 | x8a => n8 | x8b => n8 | x8c => n8 | x8d => n8 | x8e => n8 | x8f => n8
  | x90 => n9 | x91 => n9 | x92 => n9 | x93 => n9 | x94 => n9 | x95 => n9 | x96 => n9 | x97 => n9
  | x98 => n9 | x99 => n9 | x9a => n9 | x9b => n9 | x9c => n9 | x9d => n9 | x9e => n9 | x9f => n9
  | xa0 => na | xa1 => na | xa2 => na | xa3 => na | xa4 => na | xa5 => na | xa6 => na | xa7 => na
  | xa8 => na | xa9 => na | xaa => na | xab => na | xac => na | xad => na | xae => na | xaf => na
  | xb0 => nb | xb1 => nb | xb2 => nb | xb3 => nb | xb4 => nb | xb5 => nb | xb6 => nb | xb7 => nb
  | xb8 => nb | xb9 => nb | xba => nb | xbb => nb | xbc => nb | xbd => nb | xbe => nb | xbf => nb
  | xc0 => nc | xc1 => nc | xc2 => nc | xc3 => nc | xc4 => nc | xc5 => nc | xc6 => nc | xc7 => nc
  | xc8 => nc | xc9 => nc | xca => nc | xcb => nc | xcc => nc | xcd => nc | xce => nc | xcf => nc
  | xd0 => nd | xd1 => nd | xd2 => nd | xd3 => nd | xd4 => nd | xd5 => nd | xd6 => nd | xd7 => nd
  | xd8 => nd | xd9 => nd | xda => nd | xdb => nd | xdc => nd | xdd => nd | xde => nd | xdf => nd
  | xe0 => ne | xe1 => ne | xe2 => ne | xe3 => ne | xe4 => ne | xe5 => ne | xe6 => ne | xe7 => ne
  | xe8 => ne | xe9 => ne | xea => ne | xeb => ne | xec => ne | xed => ne | xee => ne | xef => ne
  | xf0 => nf | xf1 => nf | xf2 => nf | xf3 => nf | xf4 => nf | xf5 => nf | xf6 => nf | xf7 => nf
  | xf8 => nf | xf9 => nf | xfa => nf | xfb => nf | xfc => nf | xfd => nf | xfe => nf | xff => nf
  end.

Definition nib_lo (b : byte) : nib :=
  match b with
  | x00 => n0 | x01 => n1 | x02 => n2 | x03 => n3 | x04 => n4 | x05 => n5 | x06 => n6 | x07 => n7
  | x08 => n8 | x09 => n9 | x0a => na | x0b => nb | x0c => nc | x0d => nd | x0e => ne | x0f => nf
  | x10 => n0 | x11 => n1 | x12 => n2 | x13 => n3 | x14 => n4 | x15 => n5 | x16 => n6 | x17 => n7
  | x18 => n8 | x19 => n9 | x1a => na | x1b => nb | x1c => nc | x1d => nd | x1e => ne | x1f => nf
  | x20 => n0 | x21 => n1 | x22 => n2 | x23 => n3 | x24 => n4 | x25 => n5 | x26 => n6 | x27 => n7
  | x28 => n8 | x29 => n9 | x2a => na | x2b => nb | x2c => nc | x2d => nd | x2e => ne | x2f => nf
  | x30 => n0 | x31 => n1 | x32 => n2 | x33 => n3 | x34 => n4 | x35 => n5 | x36 => n6 | x37 => n7
  | x38 => n8 | x39 => n9 | x3a => na | x3b => nb | x3c => nc | x3d => nd | x3e => ne | x3f => nf
  | x40 => n0 | x41 => n1 | x42 => n2 | x43 => n3 | x44 => n4 | x45 => n5 | x46 => n6 | x47 => n7
  | x48 => n8 | x49 => n9 | x4a => na | x4b => nb | x4c => nc | x4d => nd | x4e => ne | x4f => nf
  | x50 => n0 | x51 => n1 | x52 => n2 | x53 => n3 | x54 => n4 | x55 => n5 | x56 => n6 | x57 => n7
  | x58 => n8 | x59 => n9 | x5a => na | x5b => nb | x5c => nc | x5d => nd | x5e => ne | x5f => nf
  | x60 => n0 | x61 => n1 | x62 => n2 | x63 => n3 | x64 => n4 | x65 => n5 | x66 => n6 | x67 => n7
  | x68 => n8 | x69 => n9 | x6a => na | x6b => nb | x6c => nc | x6d => nd | x6e => ne | x6f => nf
  | x70 => n0 | x71 => n1 | x72 => n2 | x73 => n3 | x74 => n4 | x75 => n5 | x76 => n6 | x77 => n7
  | x78 => n8 | x79 => n9 | x7a => na | x7b => nb | x7c => nc | x7d => nd | x7e => ne | x7f => nf
  | x80 => n0 | x81 => n1 | x82 => n2 | x83 => n3 | x84 => n4 | x85 => n5 | x86 => n6 | x87 => n7
  | x88 => n8 | x89 => n9 | x8a => na | x8b => nb | x8c => nc | x8d => nd | x8e => ne | x8f => nf
  | x90 => n0 | x91 => n1 | x92 => n2 | x93 => n3 | x94 => n4 | x95 => n5 | x96 => n6 | x97 => n7
  | x98 => n8 | x99 => n9 | x9a => na | x9b => nb | x9c => nc | x9d => nd | x9e => ne | x9f => nf
  | xa0 => n0 | xa1 => n1 | xa2 => n2 | xa3 => n3 | xa4 => n4 | xa5 => n5 | xa6 => n6 | xa7 => n7
  | xa8 => n8 | xa9 => n9 | xaa => na | xab => nb | xac => nc | xad => nd | xae => ne | xaf => nf
  | xb0 => n0 | xb1 => n1 | xb2 => n2 | xb3 => n3 | xb4 => n4 | xb5 => n5 | xb6 => n6 | xb7 => n7
  | xb8 => n8 | xb9 => n9 | xba => na | xbb => nb | xbc => nc | xbd => nd | xbe => ne | xbf => nf
  | xc0 => n0 | xc1 => n1 | xc2 => n2 | xc3 => n3 | xc4 => n4 | xc5 => n5 | xc6 => n6 | xc7 => n7
  | xc8 => n8 | xc9 => n9 | xca => na | xcb => nb | xcc => nc | xcd => nd | xce => ne | xcf => nf
  | xd0 => n0 | xd1 => n1 | xd2 => n2 | xd3 => n3 | xd4 => n4 | xd5 => n5 | xd6 => n6 | xd7 => n7
  | xd8 => n8 | xd9 => n9 | xda => na | xdb => nb | xdc => nc | xdd => nd | xde => ne | xdf => nf
  | xe0 => n0 | xe1 => n1 | xe2 => n2 | xe3 => n3 | xe4 => n4 | xe5 => n5 | xe6 => n6 | xe7 => n7
  | xe8 => n8 | xe9 => n9 | xea => na | xeb => nb | xec => nc | xed => nd | xee => ne | xef => nf
  | xf0 => n0 | xf1 => n1 | xf2 => n2 | xf3 => n3 | xf4 => n4 | xf5 => n5 | xf6 => n6 | xf7 => n7
  | xf8 => n8 | xf9 => n9 | xfa => na | xfb => nb | xfc => nc | xfd => nd | xfe => ne | xff => nf
  end.

Definition nib_xor (x y : nib) : nib :=
  match x with
  | n0 => match y with | n0 => n0 | n1 => n1 | n2 => n2 | n3 => n3 | n4 => n4 | n5 => n5 | n6 => n6 | n7 => n7 | n8 => n8 | n9 => n9 | na => na | nb => nb | nc => nc | nd => nd | ne => ne | nf => nf end
  | n1 => match y with | n0 => n1 | n1 => n0 | n2 => n3 | n3 => n2 | n4 => n5 | n5 => n4 | n6 => n7 | n7 => n6 | n8 => n9 | n9 => n8 | na => nb | nb => na | nc => nd | nd => nc | ne => nf | nf => ne end
  | n2 => match y with | n0 => n2 | n1 => n3 | n2 => n0 | n3 => n1 | n4 => n6 | n5 => n7 | n6 => n4 | n7 => n5 | n8 => na | n9 => nb | na => n8 | nb => n9 | nc => ne | nd => nf | ne => nc | nf => nd end
  | n3 => match y with | n0 => n3 | n1 => n2 | n2 => n1 | n3 => n0 | n4 => n7 | n5 => n6 | n6 => n5 | n7 => n4 | n8 => nb | n9 => na | na => n9 | nb => n8 | nc => nf | nd => ne | ne => nd | nf => nc end
  | n4 => match y with | n0 => n4 | n1 => n5 | n2 => n6 | n3 => n7 | n4 => n0 | n5 => n1 | n6 => n2 | n7 => n3 | n8 => nc | n9 => nd | na => ne | nb => nf | nc => n8 | nd => n9 | ne => na | nf => nb end
  | n5 => match y with | n0 => n5 | n1 => n4 | n2 => n7 | n3 => n6 | n4 => n1 | n5 => n0 | n6 => n3 | n7 => n2 | n8 => nd | n9 => nc | na => nf | nb => ne | nc => n9 | nd => n8 | ne => nb | nf => na end
  | n6 => match y with | n0 => n6 | n1 => n7 | n2 => n4 | n3 => n5 | n4 => n2 | n5 => n3 | n6 => n0 | n7 => n1 | n8 => ne | n9 => nf | na => nc | nb => nd | nc => na | nd => nb | ne => n8 | nf => n9 end
  | n7 => match y with | n0 => n7 | n1 => n6 | n2 => n5 | n3 => n4 | n4 => n3 | n5 => n2 | n6 => n1 | n7 => n0 | n8 => nf | n9 => ne | na => nd | nb => nc | nc => nb | nd => na | ne => n9 | nf => n8 end
  | n8 => match y with | n0 => n8 | n1 => n9 | n2 => na | n3 => nb | n4 => nc | n5 => nd | n6 => ne | n7 => nf | n8 => n0 | n9 => n1 | na => n2 | nb => n3 | nc => n4 | nd => n5 | ne => n6 | nf => n7 end
  | n9 => match y with | n0 => n9 | n1 => n8 | n2 => nb | n3 => na | n4 => nd | n5 => nc | n6 => nf | n7 => ne | n8 => n1 | n9 => n0 | na => n3 | nb => n2 | nc => n5 | nd => n4 | ne => n7 | nf => n6 end
  | na => match y with | n0 => na | n1 => nb | n2 => n8 | n3 => n9 | n4 => ne | n5 => nf | n6 => nc | n7 => nd | n8 => n2 | n9 => n3 | na => n0 | nb => n1 | nc => n6 | nd => n7 | ne => n4 | nf => n5 end
  | nb => match y with | n0 => nb | n1 => na | n2 => n9 | n3 => n8 | n4 => nf | n5 => ne | n6 => nd | n7 => nc | n8 => n3 | n9 => n2 | na => n1 | nb => n0 | nc => n7 | nd => n6 | ne => n5 | nf => n4 end
  | nc => match y with | n0 => nc | n1 => nd | n2 => ne | n3 => nf | n4 => n8 | n5 => n9 | n6 => na | n7 => nb | n8 => n4 | n9 => n5 | na => n6 | nb => n7 | nc => n0 | nd => n1 | ne => n2 | nf => n3 end
  | nd => match y with | n0 => nd | n1 => nc | n2 => nf | n3 => ne | n4 => n9 | n5 => n8 | n6 => nb | n7 => na | n8 => n5 | n9 => n4 | na => n7 | nb => n6 | nc => n1 | nd => n0 | ne => n3 | nf => n2 end
  | ne => match y with | n0 => ne | n1 => nf | n2 => nc | n3 => nd | n4 => na | n5 => nb | n6 => n8 | n7 => n9 | n8 => n6 | n9 => n7 | na => n4 | nb => n5 | nc => n2 | nd => n3 | ne => n0 | nf => n1 end
  | nf => match y with | n0 => nf | n1 => ne | n2 => nd | n3 => nc | n4 => nb | n5 => na | n6 => n9 | n7 => n8 | n8 => n7 | n9 => n6 | na => n5 | nb => n4 | nc => n3 | nd => n2 | ne => n1 | nf => n0 end
  end.

Definition nib_join (x y : nib) : byte :=
  match x with
  | n0 => match y with | n0 => x00 | n1 => x01 | n2 => x02 | n3 => x03 | n4 => x04 | n5 => x05 | n6 => x06 | n7 => x07 | n8 => x08 | n9 => x09 | na => x0a | nb => x0b | nc => x0c | nd => x0d | ne => x0e | nf => x0f end
  | n1 => match y with | n0 => x10 | n1 => x11 | n2 => x12 | n3 => x13 | n4 => x14 | n5 => x15 | n6 => x16 | n7 => x17 | n8 => x18 | n9 => x19 | na => x1a | nb => x1b | nc => x1c | nd => x1d | ne => x1e | nf => x1f end
  | n2 => match y with | n0 => x20 | n1 => x21 | n2 => x22 | n3 => x23 | n4 => x24 | n5 => x25 | n6 => x26 | n7 => x27 | n8 => x28 | n9 => x29 | na => x2a | nb => x2b | nc => x2c | nd => x2d | ne => x2e | nf => x2f end
  | n3 => match y with | n0 => x30 | n1 => x31 | n2 => x32 | n3 => x33 | n4 => x34 | n5 => x35 | n6 => x36 | n7 => x37 | n8 => x38 | n9 => x39 | na => x3a | nb => x3b | nc => x3c | nd => x3d | ne => x3e | nf => x3f end
  | n4 => match y with | n0 => x40 | n1 => x41 | n2 => x42 | n3 => x43 | n4 => x44 | n5 => x45 | n6 => x46 | n7 => x47 | n8 => x48 | n9 => x49 | na => x4a | nb => x4b | nc => x4c | nd => x4d | ne => x4e | nf => x4f end
  | n5 => match y with | n0 => x50 | n1 => x51 | n2 => x52 | n3 => x53 | n4 => x54 | n5 => x55 | n6 => x56 | n7 => x57 | n8 => x58 | n9 => x59 | na => x5a | nb => x5b | nc => x5c | nd => x5d | ne => x5e | nf => x5f end
  | n6 => match y with | n0 => x60 | n1 => x61 | n2 => x62 | n3 => x63 | n4 => x64 | n5 => x65 | n6 => x66 | n7 => x67 | n8 => x68 | n9 => x69 | na => x6a | nb => x6b | nc => x6c | nd => x6d | ne => x6e | nf => x6f end
  | n7 => match y with | n0 => x70 | n1 => x71 | n2 => x72 | n3 => x73 | n4 => x74 | n5 => x75 | n6 => x76 | n7 => x77 | n8 => x78 | n9 => x79 | na => x7a | nb => x7b | nc => x7c | nd => x7d | ne => x7e | nf => x7f end
  | n8 => match y with | n0 => x80 | n1 => x81 | n2 => x82 | n3 => x83 | n4 => x84 | n5 => x85 | n6 => x86 | n7 => x87 | n8 => x88 | n9 => x89 | na => x8a | nb => x8b | nc => x8c | nd => x8d | ne => x8e | nf => x8f end
  | n9 => match y with | n0 => x90 | n1 => x91 | n2 => x92 | n3 => x93 | n4 => x94 | n5 => x95 | n6 => x96 | n7 => x97 | n8 => x98 | n9 => x99 | na => x9a | nb => x9b | nc => x9c | nd => x9d | ne => x9e | nf => x9f end
  | na => match y with | n0 => xa0 | n1 => xa1 | n2 => xa2 | n3 => xa3 | n4 => xa4 | n5 => xa5 | n6 => xa6 | n7 => xa7 | n8 => xa8 | n9 => xa9 | na => xaa | nb => xab | nc => xac | nd => xad | ne => xae | nf => xaf end
  | nb => match y with | n0 => xb0 | n1 => xb1 | n2 => xb2 | n3 => xb3 | n4 => xb4 | n5 => xb5 | n6 => xb6 | n7 => xb7 | n8 => xb8 | n9 => xb9 | na => xba | nb => xbb | nc => xbc | nd => xbd | ne => xbe | nf => xbf end
  | nc => match y with | n0 => xc0 | n1 => xc1 | n2 => xc2 | n3 => xc3 | n4 => xc4 | n5 => xc5 | n6 => xc6 | n7 => xc7 | n8 => xc8 | n9 => xc9 | na => xca | nb => xcb | nc => xcc | nd => xcd | ne => xce | nf => xcf end
  | nd => match y with | n0 => xd0 | n1 => xd1 | n2 => xd2 | n3 => xd3 | n4 => xd4 | n5 => xd5 | n6 => xd6 | n7 => xd7 | n8 => xd8 | n9 => xd9 | na => xda | nb => xdb | nc => xdc | nd => xdd | ne => xde | nf => xdf end
  | ne => match y with | n0 => xe0 | n1 => xe1 | n2 => xe2 | n3 => xe3 | n4 => xe4 | n5 => xe5 | n6 => xe6 | n7 => xe7 | n8 => xe8 | n9 => xe9 | na => xea | nb => xeb | nc => xec | nd => xed | ne => xee | nf => xef end
  | nf => match y with | n0 => xf0 | n1 => xf1 | n2 => xf2 | n3 => xf3 | n4 => xf4 | n5 => xf5 | n6 => xf6 | n7 => xf7 | n8 => xf8 | n9 => xf9 | na => xfa | nb => xfb | nc => xfc | nd => xfd | ne => xfe | nf => xff end
  end.

Definition bxor (a b : byte) : byte :=
  nib_join (nib_xor (nib_hi a) (nib_hi b)) (nib_xor (nib_lo a) (nib_lo b)).

(* zip semantics: the result is as long as the shorter argument *)
Fixpoint xor_bytes (a b : bytes) : bytes :=
  match a, b with
  | x :: a', y :: b' => bxor x y :: xor_bytes a' b'
  | _, _ => []
  end.

Definition mask32 : N := 4294967295.
Definition mask64 : N := 18446744073709551615.
Definition w32 (x : N) : N := N.land x mask32.          (* x mod 2^32 *)
Definition w64 (x : N) : N := N.land x mask64.          (* x mod 2^64 *)
Definition add32 (a b : N) : N := w32 (a + b).
Definition add64 (a b : N) : N := w64 (a + b).
Definition not32 (x : N) : N := N.lxor (w32 x) mask32.
Definition not64 (x : N) : N := N.lxor (w64 x) mask64.
Definition rotl32 (x n : N) : N := w32 (N.lor (N.shiftl x n) (N.shiftr x (32 - n))).
Definition rotr32 (x n : N) : N := w32 (N.lor (N.shiftr x n) (N.shiftl x (32 - n))).
Definition rotr64 (x n : N) : N := w64 (N.lor (N.shiftr x n) (N.shiftl x (64 - n))).

(* little / big endian *)
Fixpoint le_to_N (l : bytes) : N :=
  match l with [] => 0 | b :: r => N.lor (N_of_byte b) (N.shiftl (le_to_N r) 8) end.
Definition be_to_N (l : bytes) : N :=
  fold_left (fun acc b => N.lor (N.shiftl acc 8) (N_of_byte b)) l 0.
Fixpoint N_to_le (n : nat) (x : N) : bytes :=
  match n with O => [] | S k => byte_lo x :: N_to_le k (N.shiftr x 8) end.
Definition N_to_be (n : nat) (x : N) : bytes := rev (N_to_le n x).

(* [chunks n fuel l]: consecutive pieces of n bytes (the last may be shorter); fuel >= length l
   suffices; callers pass [length l]. *)
Fixpoint chunks (n : nat) (fuel : nat) (l : bytes) : list bytes :=
  match fuel with
  | O => []
  | S f => match l with [] => [] | _ => firstn n l :: chunks n f (skipn n l) end
  end.
Definition chunks16 (l : bytes) : list bytes := chunks 16 (length l) l.
Definition chunks_of (n : nat) (l : bytes) : list bytes := chunks n (length l) l.

Definition zeros (n : nat) : bytes := repeat x00 n.

(* pad with zeros / truncate to exactly n bytes *)
Definition fit (n : nat) (l : bytes) : bytes := firstn n (l ++ zeros n).

Fixpoint iter {A} (n : nat) (f : A -> A) (x : A) : A :=
  match n with O => x | S k => iter k f (f x) end.

(* ---------- words as lists of 4-bit digits, least significant first (used by SHA-2: every step is a
   match on an enumeration, which the extracted runner executes without big-number arithmetic) ---------- *)
Definition nib_and (x y : nib) : nib :=
  match x with
  | n0 => match y with | n0 => n0 | n1 => n0 | n2 => n0 | n3 => n0 | n4 => n0 | n5 => n0 | n6 => n0 | n7 => n0 | n8 => n0 | n9 => n0 | na => n0 | nb => n0 | nc => n0 | nd => n0 | ne => n0 | nf => n0 end
  | n1 => match y with | n0 => n0 | n1 => n1 | n2 => n0 | n3 => n1 | n4 => n0 | n5 => n1 | n6 => n0 | n7 => n1 | n8 => n0 | n9 => n1 | na => n0 | nb => n1 | nc => n0 | nd => n1 | ne => n0 | nf => n1 end
  | n2 => match y with | n0 => n0 | n1 => n0 | n2 => n2 | n3 => n2 | n4 => n0 | n5 => n0 | n6 => n2 | n7 => n2 | n8 => n0 | n9 => n0 | na => n2 | nb => n2 | nc => n0 | nd => n0 | ne => n2 | nf => n2 end
  | n3 => match y with | n0 => n0 | n1 => n1 | n2 => n2 | n3 => n3 | n4 => n0 | n5 => n1 | n6 => n2 | n7 => n3 | n8 => n0 | n9 => n1 | na => n2 | nb => n3 | nc => n0 | nd => n1 | ne => n2 | nf => n3 end
  | n4 => match y with | n0 => n0 | n1 => n0 | n2 => n0 | n3 => n0 | n4 => n4 | n5 => n4 | n6 => n4 | n7 => n4 | n8 => n0 | n9 => n0 | na => n0 | nb => n0 | nc => n4 | nd => n4 | ne => n4 | nf => n4 end
  | n5 => match y with | n0 => n0 | n1 => n1 | n2 => n0 | n3 => n1 | n4 => n4 | n5 => n5 | n6 => n4 | n7 => n5 | n8 => n0 | n9 => n1 | na => n0 | nb => n1 | nc => n4 | nd => n5 | ne => n4 | nf => n5 end
  | n6 => match y with | n0 => n0 | n1 => n0 | n2 => n2 | n3 => n2 | n4 => n4 | n5 => n4 | n6 => n6 | n7 => n6 | n8 => n0 | n9 => n0 | na => n2 | nb => n2 | nc => n4 | nd => n4 | ne => n6 | nf => n6 end
  | n7 => match y with | n0 => n0 | n1 => n1 | n2 => n2 | n3 => n3 | n4 => n4 | n5 => n5 | n6 => n6 | n7 => n7 | n8 => n0 | n9 => n1 | na => n2 | nb => n3 | nc => n4 | nd => n5 | ne => n6 | nf => n7 end
  | n8 => match y with | n0 => n0 | n1 => n0 | n2 => n0 | n3 => n0 | n4 => n0 | n5 => n0 | n6 => n0 | n7 => n0 | n8 => n8 | n9 => n8 | na => n8 | nb => n8 | nc => n8 | nd => n8 | ne => n8 | nf => n8 end
  | n9 => match y with | n0 => n0 | n1 => n1 | n2 => n0 | n3 => n1 | n4 => n0 | n5 => n1 | n6 => n0 | n7 => n1 | n8 => n8 | n9 => n9 | na => n8 | nb => n9 | nc => n8 | nd => n9 | ne => n8 | nf => n9 end
  | na => match y with | n0 => n0 | n1 => n0 | n2 => n2 | n3 => n2 | n4 => n0 | n5 => n0 | n6 => n2 | n7 => n2 | n8 => n8 | n9 => n8 | na => na | nb => na | nc => n8 | nd => n8 | ne => na | nf => na end
  | nb => match y with | n0 => n0 | n1 => n1 | n2 => n2 | n3 => n3 | n4 => n0 | n5 => n1 | n6 => n2 | n7 => n3 | n8 => n8 | n9 => n9 | na => na | nb => nb | nc => n8 | nd => n9 | ne => na | nf => nb end
  | nc => match y with | n0 => n0 | n1 => n0 | n2 => n0 | n3 => n0 | n4 => n4 | n5 => n4 | n6 => n4 | n7 => n4 | n8 => n8 | n9 => n8 | na => n8 | nb => n8 | nc => nc | nd => nc | ne => nc | nf => nc end
  | nd => match y with | n0 => n0 | n1 => n1 | n2 => n0 | n3 => n1 | n4 => n4 | n5 => n5 | n6 => n4 | n7 => n5 | n8 => n8 | n9 => n9 | na => n8 | nb => n9 | nc => nc | nd => nd | ne => nc | nf => nd end
  | ne => match y with | n0 => n0 | n1 => n0 | n2 => n2 | n3 => n2 | n4 => n4 | n5 => n4 | n6 => n6 | n7 => n6 | n8 => n8 | n9 => n8 | na => na | nb => na | nc => nc | nd => nc | ne => ne | nf => ne end
  | nf => match y with | n0 => n0 | n1 => n1 | n2 => n2 | n3 => n3 | n4 => n4 | n5 => n5 | n6 => n6 | n7 => n7 | n8 => n8 | n9 => n9 | na => na | nb => nb | nc => nc | nd => nd | ne => ne | nf => nf end
  end.

Definition nib_or (x y : nib) : nib :=
  match x with
  | n0 => match y with | n0 => n0 | n1 => n1 | n2 => n2 | n3 => n3 | n4 => n4 | n5 => n5 | n6 => n6 | n7 => n7 | n8 => n8 | n9 => n9 | na => na | nb => nb | nc => nc | nd => nd | ne => ne | nf => nf end
  | n1 => match y with | n0 => n1 | n1 => n1 | n2 => n3 | n3 => n3 | n4 => n5 | n5 => n5 | n6 => n7 | n7 => n7 | n8 => n9 | n9 => n9 | na => nb | nb => nb | nc => nd | nd => nd | ne => nf | nf => nf end
  | n2 => match y with | n0 => n2 | n1 => n3 | n2 => n2 | n3 => n3 | n4 => n6 | n5 => n7 | n6 => n6 | n7 => n7 | n8 => na | n9 => nb | na => na | nb => nb | nc => ne | nd => nf | ne => ne | nf => nf end
  | n3 => match y with | n0 => n3 | n1 => n3 | n2 => n3 | n3 => n3 | n4 => n7 | n5 => n7 | n6 => n7 | n7 => n7 | n8 => nb | n9 => nb | na => nb | nb => nb | nc => nf | nd => nf | ne => nf | nf => nf end
  | n4 => match y with | n0 => n4 | n1 => n5 | n2 => n6 | n3 => n7 | n4 => n4 | n5 => n5 | n6 => n6 | n7 => n7 | n8 => nc | n9 => nd | na => ne | nb => nf | nc => nc | nd => nd | ne => ne | nf => nf end
  | n5 => match y with | n0 => n5 | n1 => n5 | n2 => n7 | n3 => n7 | n4 => n5 | n5 => n5 | n6 => n7 | n7 => n7 | n8 => nd | n9 => nd | na => nf | nb => nf | nc => nd | nd => nd | ne => nf | nf => nf end
  | n6 => match y with | n0 => n6 | n1 => n7 | n2 => n6 | n3 => n7 | n4 => n6 | n5 => n7 | n6 => n6 | n7 => n7 | n8 => ne | n9 => nf | na => ne | nb => nf | nc => ne | nd => nf | ne => ne | nf => nf end
  | n7 => match y with | n0 => n7 | n1 => n7 | n2 => n7 | n3 => n7 | n4 => n7 | n5 => n7 | n6 => n7 | n7 => n7 | n8 => nf | n9 => nf | na => nf | nb => nf | nc => nf | nd => nf | ne => nf | nf => nf end
  | n8 => match y with | n0 => n8 | n1 => n9 | n2 => na | n3 => nb | n4 => nc | n5 => nd | n6 => ne | n7 => nf | n8 => n8 | n9 => n9 | na => na | nb => nb | nc => nc | nd => nd | ne => ne | nf => nf end
  | n9 => match y with | n0 => n9 | n1 => n9 | n2 => nb | n3 => nb | n4 => nd | n5 => nd | n6 => nf | n7 => nf | n8 => n9 | n9 => n9 | na => nb | nb => nb | nc => nd | nd => nd | ne => nf | nf => nf end
  | na => match y with | n0 => na | n1 => nb | n2 => na | n3 => nb | n4 => ne | n5 => nf | n6 => ne | n7 => nf | n8 => na | n9 => nb | na => na | nb => nb | nc => ne | nd => nf | ne => ne | nf => nf end
  | nb => match y with | n0 => nb | n1 => nb | n2 => nb | n3 => nb | n4 => nf | n5 => nf | n6 => nf | n7 => nf | n8 => nb | n9 => nb | na => nb | nb => nb | nc => nf | nd => nf | ne => nf | nf => nf end
  | nc => match y with | n0 => nc | n1 => nd | n2 => ne | n3 => nf | n4 => nc | n5 => nd | n6 => ne | n7 => nf | n8 => nc | n9 => nd | na => ne | nb => nf | nc => nc | nd => nd | ne => ne | nf => nf end
  | nd => match y with | n0 => nd | n1 => nd | n2 => nf | n3 => nf | n4 => nd | n5 => nd | n6 => nf | n7 => nf | n8 => nd | n9 => nd | na => nf | nb => nf | nc => nd | nd => nd | ne => nf | nf => nf end
  | ne => match y with | n0 => ne | n1 => nf | n2 => ne | n3 => nf | n4 => ne | n5 => nf | n6 => ne | n7 => nf | n8 => ne | n9 => nf | na => ne | nb => nf | nc => ne | nd => nf | ne => ne | nf => nf end
  | nf => match y with | n0 => nf | n1 => nf | n2 => nf | n3 => nf | n4 => nf | n5 => nf | n6 => nf | n7 => nf | n8 => nf | n9 => nf | na => nf | nb => nf | nc => nf | nd => nf | ne => nf | nf => nf end
  end.

Definition nib_add (x y : nib) (c : bool) : nib * bool :=
  if c then
    match x with
    | n0 => match y with | n0 => (n1, false) | n1 => (n2, false) | n2 => (n3, false) | n3 => (n4, false) | n4 => (n5, false) | n5 => (n6, false) | n6 => (n7, false) | n7 => (n8, false) | n8 => (n9, false) | n9 => (na, false) | na => (nb, false) | nb => (nc, false) | nc => (nd, false) | nd => (ne, false) | ne => (nf, false) | nf => (n0, true) end
    | n1 => match y with | n0 => (n2, false) | n1 => (n3, false) | n2 => (n4, false) | n3 => (n5, false) | n4 => (n6, false) | n5 => (n7, false) | n6 => (n8, false) | n7 => (n9, false) | n8 => (na, false) | n9 => (nb, false) | na => (nc, false) | nb => (nd, false) | nc => (ne, false) | nd => (nf, false) | ne => (n0, true) | nf => (n1, true) end
    | n2 => match y with | n0 => (n3, false) | n1 => (n4, false) | n2 => (n5, false) | n3 => (n6, false) | n4 => (n7, false) | n5 => (n8, false) | n6 => (n9, false) | n7 => (na, false) | n8 => (nb, false) | n9 => (nc, false) | na => (nd, false) | nb => (ne, false) | nc => (nf, false) | nd => (n0, true) | ne => (n1, true) | nf => (n2, true) end
    | n3 => match y with | n0 => (n4, false) | n1 => (n5, false) | n2 => (n6, false) | n3 => (n7, false) | n4 => (n8, false) | n5 => (n9, false) | n6 => (na, false) | n7 => (nb, false) | n8 => (nc, false) | n9 => (nd, false) | na => (ne, false) | nb => (nf, false) | nc => (n0, true) | nd => (n1, true) | ne => (n2, true) | nf => (n3, true) end
    | n4 => match y with | n0 => (n5, false) | n1 => (n6, false) | n2 => (n7, false) | n3 => (n8, false) | n4 => (n9, false) | n5 => (na, false) | n6 => (nb, false) | n7 => (nc, false) | n8 => (nd, false) | n9 => (ne, false) | na => (nf, false) | nb => (n0, true) | nc => (n1, true) | nd => (n2, true) | ne => (n3, true) | nf => (n4, true) end
    | n5 => match y with | n0 => (n6, false) | n1 => (n7, false) | n2 => (n8, false) | n3 => (n9, false) | n4 => (na, false) | n5 => (nb, false) | n6 => (nc, false) | n7 => (nd, false) | n8 => (ne, false) | n9 => (nf, false) | na => (n0, true) | nb => (n1, true) | nc => (n2, true) | nd => (n3, true) | ne => (n4, true) | nf => (n5, true) end
    | n6 => match y with | n0 => (n7, false) | n1 => (n8, false) | n2 => (n9, false) | n3 => (na, false) | n4 => (nb, false) | n5 => (nc, false) | n6 => (nd, false) | n7 => (ne, false) | n8 => (nf, false) | n9 => (n0, true) | na => (n1, true) | nb => (n2, true) | nc => (n3, true) | nd => (n4, true) | ne => (n5, true) | nf => (n6, true) end
    | n7 => match y with | n0 => (n8, false) | n1 => (n9, false) | n2 => (na, false) | n3 => (nb, false) | n4 => (nc, false) | n5 => (nd, false) | n6 => (ne, false) | n7 => (nf, false) | n8 => (n0, true) | n9 => (n1, true) | na => (n2, true) | nb => (n3, true) | nc => (n4, true) | nd => (n5, true) | ne => (n6, true) | nf => (n7, true) end
    | n8 => match y with | n0 => (n9, false) | n1 => (na, false) | n2 => (nb, false) | n3 => (nc, false) | n4 => (nd, false) | n5 => (ne, false) | n6 => (nf, false) | n7 => (n0, true) | n8 => (n1, true) | n9 => (n2, true) | na => (n3, true) | nb => (n4, true) | nc => (n5, true) | nd => (n6, true) | ne => (n7, true) | nf => (n8, true) end
    | n9 => match y with | n0 => (na, false) | n1 => (nb, false) | n2 => (nc, false) | n3 => (nd, false) | n4 => (ne, false) | n5 => (nf, false) | n6 => (n0, true) | n7 => (n1, true) | n8 => (n2, true) | n9 => (n3, true) | na => (n4, true) | nb => (n5, true) | nc => (n6, true) | nd => (n7, true) | ne => (n8, true) | nf => (n9, true) end
    | na => match y with | n0 => (nb, false) | n1 => (nc, false) | n2 => (nd, false) | n3 => (ne, false) | n4 => (nf, false) | n5 => (n0, true) | n6 => (n1, true) | n7 => (n2, true) | n8 => (n3, true) | n9 => (n4, true) | na => (n5, true) | nb => (n6, true) | nc => (n7, true) | nd => (n8, true) | ne => (n9, true) | nf => (na, true) end
    | nb => match y with | n0 => (nc, false) | n1 => (nd, false) | n2 => (ne, false) | n3 => (nf, false) | n4 => (n0, true) | n5 => (n1, true) | n6 => (n2, true) | n7 => (n3, true) | n8 => (n4, true) | n9 => (n5, true) | na => (n6, true) | nb => (n7, true) | nc => (n8, true) | nd => (n9, true) | ne => (na, true) | nf => (nb, true) end
    | nc => match y with | n0 => (nd, false) | n1 => (ne, false) | n2 => (nf, false) | n3 => (n0, true) | n4 => (n1, true) | n5 => (n2, true) | n6 => (n3, true) | n7 => (n4, true) | n8 => (n5, true) | n9 => (n6, true) | na => (n7, true) | nb => (n8, true) | nc => (n9, true) | nd => (na, true) | ne => (nb, true) | nf => (nc, true) end
    | nd => match y with | n0 => (ne, false) | n1 => (nf, false) | n2 => (n0, true) | n3 => (n1, true) | n4 => (n2, true) | n5 => (n3, true) | n6 => (n4, true) | n7 => (n5, true) | n8 => (n6, true) | n9 => (n7, true) | na => (n8, true) | nb => (n9, true) | nc => (na, true) | nd => (nb, true) | ne => (nc, true) | nf => (nd, true) end
    | ne => match y with | n0 => (nf, false) | n1 => (n0, true) | n2 => (n1, true) | n3 => (n2, true) | n4 => (n3, true) | n5 => (n4, true) | n6 => (n5, true) | n7 => (n6, true) | n8 => (n7, true) | n9 => (n8, true) | na => (n9, true) | nb => (na, true) | nc => (nb, true) | nd => (nc, true) | ne => (nd, true) | nf => (ne, true) end
    | nf => match y with | n0 => (n0, true) | n1 => (n1, true) | n2 => (n2, true) | n3 => (n3, true) | n4 => (n4, true) | n5 => (n5, true) | n6 => (n6, true) | n7 => (n7, true) | n8 => (n8, true) | n9 => (n9, true) | na => (na, true) | nb => (nb, true) | nc => (nc, true) | nd => (nd, true) | ne => (ne, true) | nf => (nf, true) end
    end
  else
    match x with
    | n0 => match y with | n0 => (n0, false) | n1 => (n1, false) | n2 => (n2, false) | n3 => (n3, false) | n4 => (n4, false) | n5 => (n5, false) | n6 => (n6, false) | n7 => (n7, false) | n8 => (n8, false) | n9 => (n9, false) | na => (na, false) | nb => (nb, false) | nc => (nc, false) | nd => (nd, false) | ne => (ne, false) | nf => (nf, false) end
    | n1 => match y with | n0 => (n1, false) | n1 => (n2, false) | n2 => (n3, false) | n3 => (n4, false) | n4 => (n5, false) | n5 => (n6, false) | n6 => (n7, false) | n7 => (n8, false) | n8 => (n9, false) | n9 => (na, false) | na => (nb, false) | nb => (nc, false) | nc => (nd, false) | nd => (ne, false) | ne => (nf, false) | nf => (n0, true) end
    | n2 => match y with | n0 => (n2, false) | n1 => (n3, false) | n2 => (n4, false) | n3 => (n5, false) | n4 => (n6, false) | n5 => (n7, false) | n6 => (n8, false) | n7 => (n9, false) | n8 => (na, false) | n9 => (nb, false) | na => (nc, false) | nb => (nd, false) | nc => (ne, false) | nd => (nf, false) | ne => (n0, true) | nf => (n1, true) end
    | n3 => match y with | n0 => (n3, false) | n1 => (n4, false) | n2 => (n5, false) | n3 => (n6, false) | n4 => (n7, false) | n5 => (n8, false) | n6 => (n9, false) | n7 => (na, false) | n8 => (nb, false) | n9 => (nc, false) | na => (nd, false) | nb => (ne, false) | nc => (nf, false) | nd => (n0, true) | ne => (n1, true) | nf => (n2, true) end
    | n4 => match y with | n0 => (n4, false) | n1 => (n5, false) | n2 => (n6, false) | n3 => (n7, false) | n4 => (n8, false) | n5 => (n9, false) | n6 => (na, false) | n7 => (nb, false) | n8 => (nc, false) | n9 => (nd, false) | na => (ne, false) | nb => (nf, false) | nc => (n0, true) | nd => (n1, true) | ne => (n2, true) | nf => (n3, true) end
    | n5 => match y with | n0 => (n5, false) | n1 => (n6, false) | n2 => (n7, false) | n3 => (n8, false) | n4 => (n9, false) | n5 => (na, false) | n6 => (nb, false) | n7 => (nc, false) | n8 => (nd, false) | n9 => (ne, false) | na => (nf, false) | nb => (n0, true) | nc => (n1, true) | nd => (n2, true) | ne => (n3, true) | nf => (n4, true) end
    | n6 => match y with | n0 => (n6, false) | n1 => (n7, false) | n2 => (n8, false) | n3 => (n9, false) | n4 => (na, false) | n5 => (nb, false) | n6 => (nc, false) | n7 => (nd, false) | n8 => (ne, false) | n9 => (nf, false) | na => (n0, true) | nb => (n1, true) | nc => (n2, true) | nd => (n3, true) | ne => (n4, true) | nf => (n5, true) end
    | n7 => match y with | n0 => (n7, false) | n1 => (n8, false) | n2 => (n9, false) | n3 => (na, false) | n4 => (nb, false) | n5 => (nc, false) | n6 => (nd, false) | n7 => (ne, false) | n8 => (nf, false) | n9 => (n0, true) | na => (n1, true) | nb => (n2, true) | nc => (n3, true) | nd => (n4, true) | ne => (n5, true) | nf => (n6, true) end
    | n8 => match y with | n0 => (n8, false) | n1 => (n9, false) | n2 => (na, false) | n3 => (nb, false) | n4 => (nc, false) | n5 => (nd, false) | n6 => (ne, false) | n7 => (nf, false) | n8 => (n0, true) | n9 => (n1, true) | na => (n2, true) | nb => (n3, true) | nc => (n4, true) | nd => (n5, true) | ne => (n6, true) | nf => (n7, true) end
    | n9 => match y with | n0 => (n9, false) | n1 => (na, false) | n2 => (nb, false) | n3 => (nc, false) | n4 => (nd, false) | n5 => (ne, false) | n6 => (nf, false) | n7 => (n0, true) | n8 => (n1, true) | n9 => (n2, true) | na => (n3, true) | nb => (n4, true) | nc => (n5, true) | nd => (n6, true) | ne => (n7, true) | nf => (n8, true) end
    | na => match y with | n0 => (na, false) | n1 => (nb, false) | n2 => (nc, false) | n3 => (nd, false) | n4 => (ne, false) | n5 => (nf, false) | n6 => (n0, true) | n7 => (n1, true) | n8 => (n2, true) | n9 => (n3, true) | na => (n4, true) | nb => (n5, true) | nc => (n6, true) | nd => (n7, true) | ne => (n8, true) | nf => (n9, true) end
    | nb => match y with | n0 => (nb, false) | n1 => (nc, false) | n2 => (nd, false) | n3 => (ne, false) | n4 => (nf, false) | n5 => (n0, true) | n6 => (n1, true) | n7 => (n2, true) | n8 => (n3, true) | n9 => (n4, true) | na => (n5, true) | nb => (n6, true) | nc => (n7, true) | nd => (n8, true) | ne => (n9, true) | nf => (na, true) end
    | nc => match y with | n0 => (nc, false) | n1 => (nd, false) | n2 => (ne, false) | n3 => (nf, false) | n4 => (n0, true) | n5 => (n1, true) | n6 => (n2, true) | n7 => (n3, true) | n8 => (n4, true) | n9 => (n5, true) | na => (n6, true) | nb => (n7, true) | nc => (n8, true) | nd => (n9, true) | ne => (na, true) | nf => (nb, true) end
    | nd => match y with | n0 => (nd, false) | n1 => (ne, false) | n2 => (nf, false) | n3 => (n0, true) | n4 => (n1, true) | n5 => (n2, true) | n6 => (n3, true) | n7 => (n4, true) | n8 => (n5, true) | n9 => (n6, true) | na => (n7, true) | nb => (n8, true) | nc => (n9, true) | nd => (na, true) | ne => (nb, true) | nf => (nc, true) end
    | ne => match y with | n0 => (ne, false) | n1 => (nf, false) | n2 => (n0, true) | n3 => (n1, true) | n4 => (n2, true) | n5 => (n3, true) | n6 => (n4, true) | n7 => (n5, true) | n8 => (n6, true) | n9 => (n7, true) | na => (n8, true) | nb => (n9, true) | nc => (na, true) | nd => (nb, true) | ne => (nc, true) | nf => (nd, true) end
    | nf => match y with | n0 => (nf, false) | n1 => (n0, true) | n2 => (n1, true) | n3 => (n2, true) | n4 => (n3, true) | n5 => (n4, true) | n6 => (n5, true) | n7 => (n6, true) | n8 => (n7, true) | n9 => (n8, true) | na => (n9, true) | nb => (na, true) | nc => (nb, true) | nd => (nc, true) | ne => (nd, true) | nf => (ne, true) end
    end.

(* [nib_shN hi lo]: the low 4 bits of ((hi * 16 + lo) >> N) *)
Definition nib_sh1 (x y : nib) : nib :=
  match x with
  | n0 => match y with | n0 => n0 | n1 => n0 | n2 => n1 | n3 => n1 | n4 => n2 | n5 => n2 | n6 => n3 | n7 => n3 | n8 => n4 | n9 => n4 | na => n5 | nb => n5 | nc => n6 | nd => n6 | ne => n7 | nf => n7 end
  | n1 => match y with | n0 => n8 | n1 => n8 | n2 => n9 | n3 => n9 | n4 => na | n5 => na | n6 => nb | n7 => nb | n8 => nc | n9 => nc | na => nd | nb => nd | nc => ne | nd => ne | ne => nf | nf => nf end
  | n2 => match y with | n0 => n0 | n1 => n0 | n2 => n1 | n3 => n1 | n4 => n2 | n5 => n2 | n6 => n3 | n7 => n3 | n8 => n4 | n9 => n4 | na => n5 | nb => n5 | nc => n6 | nd => n6 | ne => n7 | nf => n7 end
  | n3 => match y with | n0 => n8 | n1 => n8 | n2 => n9 | n3 => n9 | n4 => na | n5 => na | n6 => nb | n7 => nb | n8 => nc | n9 => nc | na => nd | nb => nd | nc => ne | nd => ne | ne => nf | nf => nf end
  | n4 => match y with | n0 => n0 | n1 => n0 | n2 => n1 | n3 => n1 | n4 => n2 | n5 => n2 | n6 => n3 | n7 => n3 | n8 => n4 | n9 => n4 | na => n5 | nb => n5 | nc => n6 | nd => n6 | ne => n7 | nf => n7 end
  | n5 => match y with | n0 => n8 | n1 => n8 | n2 => n9 | n3 => n9 | n4 => na | n5 => na | n6 => nb | n7 => nb | n8 => nc | n9 => nc | na => nd | nb => nd | nc => ne | nd => ne | ne => nf | nf => nf end
  | n6 => match y with | n0 => n0 | n1 => n0 | n2 => n1 | n3 => n1 | n4 => n2 | n5 => n2 | n6 => n3 | n7 => n3 | n8 => n4 | n9 => n4 | na => n5 | nb => n5 | nc => n6 | nd => n6 | ne => n7 | nf => n7 end
  | n7 => match y with | n0 => n8 | n1 => n8 | n2 => n9 | n3 => n9 | n4 => na | n5 => na | n6 => nb | n7 => nb | n8 => nc | n9 => nc | na => nd | nb => nd | nc => ne | nd => ne | ne => nf | nf => nf end
  | n8 => match y with | n0 => n0 | n1 => n0 | n2 => n1 | n3 => n1 | n4 => n2 | n5 => n2 | n6 => n3 | n7 => n3 | n8 => n4 | n9 => n4 | na => n5 | nb => n5 | nc => n6 | nd => n6 | ne => n7 | nf => n7 end
  | n9 => match y with | n0 => n8 | n1 => n8 | n2 => n9 | n3 => n9 | n4 => na | n5 => na | n6 => nb | n7 => nb | n8 => nc | n9 => nc | na => nd | nb => nd | nc => ne | nd => ne | ne => nf | nf => nf end
  | na => match y with | n0 => n0 | n1 => n0 | n2 => n1 | n3 => n1 | n4 => n2 | n5 => n2 | n6 => n3 | n7 => n3 | n8 => n4 | n9 => n4 | na => n5 | nb => n5 | nc => n6 | nd => n6 | ne => n7 | nf => n7 end
  | nb => match y with | n0 => n8 | n1 => n8 | n2 => n9 | n3 => n9 | n4 => na | n5 => na | n6 => nb | n7 => nb | n8 => nc | n9 => nc | na => nd | nb => nd | nc => ne | nd => ne | ne => nf | nf => nf end
  | nc => match y with | n0 => n0 | n1 => n0 | n2 => n1 | n3 => n1 | n4 => n2 | n5 => n2 | n6 => n3 | n7 => n3 | n8 => n4 | n9 => n4 | na => n5 | nb => n5 | nc => n6 | nd => n6 | ne => n7 | nf => n7 end
  | nd => match y with | n0 => n8 | n1 => n8 | n2 => n9 | n3 => n9 | n4 => na | n5 => na | n6 => nb | n7 => nb | n8 => nc | n9 => nc | na => nd | nb => nd | nc => ne | nd => ne | ne => nf | nf => nf end
  | ne => match y with | n0 => n0 | n1 => n0 | n2 => n1 | n3 => n1 | n4 => n2 | n5 => n2 | n6 => n3 | n7 => n3 | n8 => n4 | n9 => n4 | na => n5 | nb => n5 | nc => n6 | nd => n6 | ne => n7 | nf => n7 end
  | nf => match y with | n0 => n8 | n1 => n8 | n2 => n9 | n3 => n9 | n4 => na | n5 => na | n6 => nb | n7 => nb | n8 => nc | n9 => nc | na => nd | nb => nd | nc => ne | nd => ne | ne => nf | nf => nf end
  end.

Definition nib_sh2 (x y : nib) : nib :=
  match x with
  | n0 => match y with | n0 => n0 | n1 => n0 | n2 => n0 | n3 => n0 | n4 => n1 | n5 => n1 | n6 => n1 | n7 => n1 | n8 => n2 | n9 => n2 | na => n2 | nb => n2 | nc => n3 | nd => n3 | ne => n3 | nf => n3 end
  | n1 => match y with | n0 => n4 | n1 => n4 | n2 => n4 | n3 => n4 | n4 => n5 | n5 => n5 | n6 => n5 | n7 => n5 | n8 => n6 | n9 => n6 | na => n6 | nb => n6 | nc => n7 | nd => n7 | ne => n7 | nf => n7 end
  | n2 => match y with | n0 => n8 | n1 => n8 | n2 => n8 | n3 => n8 | n4 => n9 | n5 => n9 | n6 => n9 | n7 => n9 | n8 => na | n9 => na | na => na | nb => na | nc => nb | nd => nb | ne => nb | nf => nb end
  | n3 => match y with | n0 => nc | n1 => nc | n2 => nc | n3 => nc | n4 => nd | n5 => nd | n6 => nd | n7 => nd | n8 => ne | n9 => ne | na => ne | nb => ne | nc => nf | nd => nf | ne => nf | nf => nf end
  | n4 => match y with | n0 => n0 | n1 => n0 | n2 => n0 | n3 => n0 | n4 => n1 | n5 => n1 | n6 => n1 | n7 => n1 | n8 => n2 | n9 => n2 | na => n2 | nb => n2 | nc => n3 | nd => n3 | ne => n3 | nf => n3 end
  | n5 => match y with | n0 => n4 | n1 => n4 | n2 => n4 | n3 => n4 | n4 => n5 | n5 => n5 | n6 => n5 | n7 => n5 | n8 => n6 | n9 => n6 | na => n6 | nb => n6 | nc => n7 | nd => n7 | ne => n7 | nf => n7 end
  | n6 => match y with | n0 => n8 | n1 => n8 | n2 => n8 | n3 => n8 | n4 => n9 | n5 => n9 | n6 => n9 | n7 => n9 | n8 => na | n9 => na | na => na | nb => na | nc => nb | nd => nb | ne => nb | nf => nb end
  | n7 => match y with | n0 => nc | n1 => nc | n2 => nc | n3 => nc | n4 => nd | n5 => nd | n6 => nd | n7 => nd | n8 => ne | n9 => ne | na => ne | nb => ne | nc => nf | nd => nf | ne => nf | nf => nf end
  | n8 => match y with | n0 => n0 | n1 => n0 | n2 => n0 | n3 => n0 | n4 => n1 | n5 => n1 | n6 => n1 | n7 => n1 | n8 => n2 | n9 => n2 | na => n2 | nb => n2 | nc => n3 | nd => n3 | ne => n3 | nf => n3 end
  | n9 => match y with | n0 => n4 | n1 => n4 | n2 => n4 | n3 => n4 | n4 => n5 | n5 => n5 | n6 => n5 | n7 => n5 | n8 => n6 | n9 => n6 | na => n6 | nb => n6 | nc => n7 | nd => n7 | ne => n7 | nf => n7 end
  | na => match y with | n0 => n8 | n1 => n8 | n2 => n8 | n3 => n8 | n4 => n9 | n5 => n9 | n6 => n9 | n7 => n9 | n8 => na | n9 => na | na => na | nb => na | nc => nb | nd => nb | ne => nb | nf => nb end
  | nb => match y with | n0 => nc | n1 => nc | n2 => nc | n3 => nc | n4 => nd | n5 => nd | n6 => nd | n7 => nd | n8 => ne | n9 => ne | na => ne | nb => ne | nc => nf | nd => nf | ne => nf | nf => nf end
  | nc => match y with | n0 => n0 | n1 => n0 | n2 => n0 | n3 => n0 | n4 => n1 | n5 => n1 | n6 => n1 | n7 => n1 | n8 => n2 | n9 => n2 | na => n2 | nb => n2 | nc => n3 | nd => n3 | ne => n3 | nf => n3 end
  | nd => match y with | n0 => n4 | n1 => n4 | n2 => n4 | n3 => n4 | n4 => n5 | n5 => n5 | n6 => n5 | n7 => n5 | n8 => n6 | n9 => n6 | na => n6 | nb => n6 | nc => n7 | nd => n7 | ne => n7 | nf => n7 end
  | ne => match y with | n0 => n8 | n1 => n8 | n2 => n8 | n3 => n8 | n4 => n9 | n5 => n9 | n6 => n9 | n7 => n9 | n8 => na | n9 => na | na => na | nb => na | nc => nb | nd => nb | ne => nb | nf => nb end
  | nf => match y with | n0 => nc | n1 => nc | n2 => nc | n3 => nc | n4 => nd | n5 => nd | n6 => nd | n7 => nd | n8 => ne | n9 => ne | na => ne | nb => ne | nc => nf | nd => nf | ne => nf | nf => nf end
  end.

Definition nib_sh3 (x y : nib) : nib :=
  match x with
  | n0 => match y with | n0 => n0 | n1 => n0 | n2 => n0 | n3 => n0 | n4 => n0 | n5 => n0 | n6 => n0 | n7 => n0 | n8 => n1 | n9 => n1 | na => n1 | nb => n1 | nc => n1 | nd => n1 | ne => n1 | nf => n1 end
  | n1 => match y with | n0 => n2 | n1 => n2 | n2 => n2 | n3 => n2 | n4 => n2 | n5 => n2 | n6 => n2 | n7 => n2 | n8 => n3 | n9 => n3 | na => n3 | nb => n3 | nc => n3 | nd => n3 | ne => n3 | nf => n3 end
  | n2 => match y with | n0 => n4 | n1 => n4 | n2 => n4 | n3 => n4 | n4 => n4 | n5 => n4 | n6 => n4 | n7 => n4 | n8 => n5 | n9 => n5 | na => n5 | nb => n5 | nc => n5 | nd => n5 | ne => n5 | nf => n5 end
  | n3 => match y with | n0 => n6 | n1 => n6 | n2 => n6 | n3 => n6 | n4 => n6 | n5 => n6 | n6 => n6 | n7 => n6 | n8 => n7 | n9 => n7 | na => n7 | nb => n7 | nc => n7 | nd => n7 | ne => n7 | nf => n7 end
  | n4 => match y with | n0 => n8 | n1 => n8 | n2 => n8 | n3 => n8 | n4 => n8 | n5 => n8 | n6 => n8 | n7 => n8 | n8 => n9 | n9 => n9 | na => n9 | nb => n9 | nc => n9 | nd => n9 | ne => n9 | nf => n9 end
  | n5 => match y with | n0 => na | n1 => na | n2 => na | n3 => na | n4 => na | n5 => na | n6 => na | n7 => na | n8 => nb | n9 => nb | na => nb | nb => nb | nc => nb | nd => nb | ne => nb | nf => nb end
  | n6 => match y with | n0 => nc | n1 => nc | n2 => nc | n3 => nc | n4 => nc | n5 => nc | n6 => nc | n7 => nc | n8 => nd | n9 => nd | na => nd | nb => nd | nc => nd | nd => nd | ne => nd | nf => nd end
  | n7 => match y with | n0 => ne | n1 => ne | n2 => ne | n3 => ne | n4 => ne | n5 => ne | n6 => ne | n7 => ne | n8 => nf | n9 => nf | na => nf | nb => nf | nc => nf | nd => nf | ne => nf | nf => nf end
  | n8 => match y with | n0 => n0 | n1 => n0 | n2 => n0 | n3 => n0 | n4 => n0 | n5 => n0 | n6 => n0 | n7 => n0 | n8 => n1 | n9 => n1 | na => n1 | nb => n1 | nc => n1 | nd => n1 | ne => n1 | nf => n1 end
  | n9 => match y with | n0 => n2 | n1 => n2 | n2 => n2 | n3 => n2 | n4 => n2 | n5 => n2 | n6 => n2 | n7 => n2 | n8 => n3 | n9 => n3 | na => n3 | nb => n3 | nc => n3 | nd => n3 | ne => n3 | nf => n3 end
  | na => match y with | n0 => n4 | n1 => n4 | n2 => n4 | n3 => n4 | n4 => n4 | n5 => n4 | n6 => n4 | n7 => n4 | n8 => n5 | n9 => n5 | na => n5 | nb => n5 | nc => n5 | nd => n5 | ne => n5 | nf => n5 end
  | nb => match y with | n0 => n6 | n1 => n6 | n2 => n6 | n3 => n6 | n4 => n6 | n5 => n6 | n6 => n6 | n7 => n6 | n8 => n7 | n9 => n7 | na => n7 | nb => n7 | nc => n7 | nd => n7 | ne => n7 | nf => n7 end
  | nc => match y with | n0 => n8 | n1 => n8 | n2 => n8 | n3 => n8 | n4 => n8 | n5 => n8 | n6 => n8 | n7 => n8 | n8 => n9 | n9 => n9 | na => n9 | nb => n9 | nc => n9 | nd => n9 | ne => n9 | nf => n9 end
  | nd => match y with | n0 => na | n1 => na | n2 => na | n3 => na | n4 => na | n5 => na | n6 => na | n7 => na | n8 => nb | n9 => nb | na => nb | nb => nb | nc => nb | nd => nb | ne => nb | nf => nb end
  | ne => match y with | n0 => nc | n1 => nc | n2 => nc | n3 => nc | n4 => nc | n5 => nc | n6 => nc | n7 => nc | n8 => nd | n9 => nd | na => nd | nb => nd | nc => nd | nd => nd | ne => nd | nf => nd end
  | nf => match y with | n0 => ne | n1 => ne | n2 => ne | n3 => ne | n4 => ne | n5 => ne | n6 => ne | n7 => ne | n8 => nf | n9 => nf | na => nf | nb => nf | nc => nf | nd => nf | ne => nf | nf => nf end
  end.

Definition word := list nib.
Fixpoint wmap2 (f : nib -> nib -> nib) (a b : word) : word :=
  match a, b with x :: a', y :: b' => f x y :: wmap2 f a' b' | _, _ => [] end.
Definition wxor : word -> word -> word := wmap2 nib_xor.
Definition wand : word -> word -> word := wmap2 nib_and.
Definition wor : word -> word -> word := wmap2 nib_or.
(* addition modulo 16^(length a): the final carry is dropped *)
Fixpoint wadd_c (a b : word) (c : bool) : word :=
  match a, b with
  | x :: a', y :: b' => let r := nib_add x y c in fst r :: wadd_c a' b' (snd r)
  | _, _ => []
  end.
Definition wadd (a b : word) : word := wadd_c a b false.
(* shift every digit right by the table's bit count, taking the bits that enter each digit from its more
   significant neighbour and, for the top digit, from [fill] *)
Fixpoint wshr_bits (t : nib -> nib -> nib) (l : word) (fill : nib) : word :=
  match l with
  | [] => []
  | x :: l' => match l' with
               | [] => [t fill x]
               | y :: _ => t y x :: wshr_bits t l' fill
               end
  end.
Definition sh_tab (r : nat) : nib -> nib -> nib :=
  match r with 1%nat => nib_sh1 | 2%nat => nib_sh2 | _ => nib_sh3 end.
(* rotate / shift right by 4q + r bits (r < 4) *)
Definition wrotr (l : word) (q r : nat) : word :=
  let l' := skipn q l ++ firstn q l in
  match r with O => l' | _ => wshr_bits (sh_tab r) l' (hd n0 l') end.
Definition wshr (l : word) (q r : nat) : word :=
  let l' := skipn q l ++ repeat n0 q in
  match r with O => l' | _ => wshr_bits (sh_tab r) l' n0 end.
(* conversions *)
Definition word_of_be (l : bytes) : word := rev (flat_map (fun b => [nib_hi b; nib_lo b]) l).
Fixpoint be_of_msb (l : list nib) : bytes :=
  match l with h :: l0 :: r => nib_join h l0 :: be_of_msb r | _ => [] end.
Definition be_of_word (w : word) : bytes := be_of_msb (rev w).
Fixpoint word_of_N (digits : nat) (x : N) : word :=
  match digits with O => [] | S k => nib_lo (byte_lo x) :: word_of_N k (N.shiftr x 4) end.

(* hex literals for test vectors: [hex "00ff"] *)
Definition hex (s : String.string) : bytes :=
  match bytes_of_hex (bs s) with Some b => b | None => [] end.
Arguments hex _%string_scope.
