(* Writer.v -- src/writer.rs: Writer::write_object and friends, and src/content.rs:
   Content::encode.  Pure functions from values to the bytes written (the sink behaviour is
   Model/Sink.v).  Byte sets and variant lists come from Gen/Lex.v (regenerated every run). *)
From LV Require Import Base.Bytes Base.Sx Model.Obj Gen.Lex.
From Coq Require Import Strings.String.

Local Open Scope N_scope.

(* "{:02X}" *)
Definition hex_upper (d : N) : byte :=
  if d <? 10 then byte_of_N (48 + d) else byte_of_N (55 + d).
Definition hex2_upper (b : byte) : bytes :=
  [hex_upper (N_of_byte b / 16); hex_upper (N_of_byte b mod 16)].

(* Writer::write_name *)
Definition name_escaped (b : byte) : bool :=
  byte_in b NAME_ESCAPE_SET || negb ((NAME_PLAIN_LO <=? N_of_byte b) && (N_of_byte b <=? NAME_PLAIN_HI)).
Definition write_name_byte (b : byte) : bytes :=
  if name_escaped b then x23 :: hex2_upper b else [b].
Definition write_name (n : bytes) : bytes := x2f :: flat_map write_name_byte n.

(* Writer::write_string, Literal.
   First pass: scan with a stack of indices of open parentheses ([parens], top first) and the
   list of indices to escape; an opening parenthesis met while MAX_BRACKET are already open is
   escaped at once; at the end the still-open parentheses are escaped too.
   Second pass: emit, escaping the bytes whose index is in the list. *)
Fixpoint lit_scan (i : nat) (text : bytes) (parens esc : list nat) : list nat :=
  match text with
  | [] => esc ++ parens
  | b :: t =>
    if byte_eqb b x28 then
      if (MAX_BRACKET <=? N.of_nat (List.length parens)) then lit_scan (S i) t parens (i :: esc)
      else lit_scan (S i) t (i :: parens) esc
    else if byte_eqb b x29 then
      match parens with
      | _ :: ps => lit_scan (S i) t ps esc
      | [] => lit_scan (S i) t [] (i :: esc)
      end
    else if byte_eqb b x5c || byte_eqb b x0d then lit_scan (S i) t parens (i :: esc)
    else lit_scan (S i) t parens esc
  end.

Definition nat_in (i : nat) (l : list nat) : bool := existsb (Nat.eqb i) l.

Fixpoint lit_emit (i : nat) (text : bytes) (esc : list nat) : bytes :=
  match text with
  | [] => []
  | b :: t =>
    if nat_in i esc then x5c :: (if byte_eqb b x0d then x72 else b) :: lit_emit (S i) t esc
    else b :: lit_emit (S i) t esc
  end.

Definition write_literal (text : bytes) : bytes :=
  x28 :: lit_emit 0 text (lit_scan 0 text [] []) ++ [x29].

Definition write_hex (text : bytes) : bytes :=
  x3c :: flat_map hex2_upper text ++ [x3e].

(* Real: "{}" of the f32, plus ".0" when the value is integral with magnitude >= 2^63
   (the model holds the Display string, see Gen/Lex.v for the threshold in Display digits) *)
Definition is_dec_digit (c : byte) : bool := (48 <=? N_of_byte c) && (N_of_byte c <=? 57).
Definition digits_val (ds : bytes) : N :=
  fold_left (fun acc c => acc * 10 + (N_of_byte c - 48)) ds 0.
Definition real_needs_point (r : bytes) : bool :=
  let t := match r with x2d :: t => t | _ => r end in
  match t with
  | [] => false
  | _ => forallb is_dec_digit t && (REAL_POINT_DISPLAY_THRESHOLD <=? digits_val t)
  end.
Definition write_real (r : bytes) : bytes := if real_needs_point r then r ++ [x2e; x30] else r.

(* variant names, as Object::enum_variant *)
Definition variant (o : obj) : string :=
  match o with
  | ONull => "Null" | OBool _ => "Boolean" | OInt _ => "Integer" | OReal _ => "Real"
  | OName _ => "Name" | OStr _ _ => "String" | OArr _ => "Array" | ODict _ => "Dictionary"
  | OStream _ _ => "Stream" | ORef _ _ => "Reference"
  end%string.
Definition need_separator (o : obj) : bool := existsb (String.eqb (variant o)) NEED_SEPARATOR.
Definition need_end_separator (o : obj) : bool := existsb (String.eqb (variant o)) NEED_END_SEPARATOR.

Definition sp_if (b : bool) : bytes := if b then [x20] else [].

(* Writer::write_object *)
Fixpoint write_object (o : obj) : bytes :=
  let write_dict :=
    (fix wd (d : list (bytes * obj)) : bytes :=
       match d with
       | [] => []
       | (k, v) :: d' => write_name k ++ sp_if (need_separator v) ++ write_object v ++ wd d'
       end) in
  match o with
  | ONull => bs "null"
  | OBool true => bs "true"
  | OBool false => bs "false"
  | OInt z => Z_dec z
  | OReal r => write_real r
  | OName n => write_name n
  | OStr s false => write_literal s
  | OStr s true => write_hex s
  | OArr l =>
    x5b :: (match l with
            | [] => []
            | o0 :: l' =>
              write_object o0 ++
              (fix wa (l : list obj) : bytes :=
                 match l with
                 | [] => []
                 | x :: l'' => sp_if (need_separator x) ++ write_object x ++ wa l''
                 end) l'
            end) ++ [x5d]
  | ODict d => x3c :: x3c :: write_dict d ++ [x3e; x3e]
  | OStream d c => x3c :: x3c :: write_dict d ++ [x3e; x3e] ++ bs "stream" ++ [x0a] ++ c ++ x0a :: bs "endstream"
  | ORef i g => N_dec i ++ x20 :: N_dec g ++ [x20; x52]
  end.

Definition write_dictionary (d : dict) : bytes := write_object (ODict d).

(* Writer::write_indirect_object (bytes only; the xref side effect is in Model/Save.v) *)
Definition write_indirect_object (id gen : N) (o : obj) : bytes :=
  N_dec id ++ x20 :: N_dec gen ++ bs " obj" ++ [x0a] ++ sp_if (need_separator o) ++
  write_object o ++ sp_if (need_end_separator o) ++ x0a :: bs "endobj" ++ [x0a].

(* ---- src/content.rs ---- *)
Record operation := { op_operator : bytes; op_operands : list obj }.

(* an inline image (operator BI, one stream operand) is written BI <entries> ID <data> EI *)
Definition encode_inline_image (d : dict) (c : bytes) : bytes :=
  bs "BI" ++ flat_map (fun kv => x20 :: write_name (fst kv) ++ x20 :: write_object (snd kv)) d ++
  bs " ID " ++ c ++ bs " EI".

Definition encode_operation (op : operation) : bytes :=
  match op_operands op with
  | [OStream d c] =>
    if bytes_eqb (op_operator op) (bs "BI") then encode_inline_image d c
    else write_object (OStream d c) ++ x20 :: op_operator op
  | ops => flat_map (fun o => write_object o ++ [x20]) ops ++ op_operator op
  end.

(* Content::encode: "\n" between operations *)
Fixpoint encode_content (ops : list operation) : bytes :=
  match ops with
  | [] => []
  | [op] => encode_operation op
  | op :: ops' => encode_operation op ++ x0a :: encode_content ops'
  end.
