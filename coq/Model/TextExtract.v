(* TextExtract.v -- model of Document::extract_text / extract_text_chunks
   (src/parser_aux.rs): the per-page font -> encoding map, the Tf / Tj / TJ / ET state machine and
   collect_text.  Written from the Rust source, branch for branch.  Definitions only.

   Scope.  The model starts from what extract_text_chunks_from_page has after its first four
   calls: the page's fonts (get_page_fonts: a BTreeMap name -> font dictionary) and the decoded
   operations (get_page_content + Content::decode).  Page lookup, resource inheritance and the
   content-stream parser belong to C12 / C13 / C14; the harness builds documents on which those
   steps are the identity (one Resources dictionary per page, operations printed by
   Content::encode). *)
From LV Require Import Base.Bytes Model.Utf Model.Obj Model.OneByte Gen.Tables.
Local Open Scope N_scope.

Definition op := (bytes * list obj)%type.          (* Operation { operator, operands } *)

Record page := { p_fonts : list (bytes * dict); p_ops : list op }.

(* why collect_text stopped early *)
Inductive stop := SErr (e : err) | SPanic | SUnmodelled.

Definition stop_of_res {A} (r : res A) : stop :=
  match r with Err e => SErr e | Panic => SPanic | _ => SUnmodelled end.

(* collect_text: one operand.  Returns the text so far and why it stopped, if it did. *)
Fixpoint collect_obj (enc : encoding) (o : obj) (text : ustring) : ustring * option stop :=
  match o with
  | OStr b _ =>
    match enc_bytes_to_string enc b with
    | Ok s => (text ++ s, None)
    | r => (text, Some (stop_of_res r))
    end
  | OArr arr =>
    let '(t, e) :=
      (fix go (l : list obj) (text : ustring) : ustring * option stop :=
         match l with
         | [] => (text, None)
         | x :: l' =>
           let '(t1, e1) := collect_obj enc x text in
           match e1 with None => go l' t1 | Some _ => (t1, e1) end
         end) arr text in
    match e with None => (t ++ [32], None) | Some _ => (t, e) end
  | OInt i => if (i <? TJ_SPACE_THRESHOLD)%Z then (text ++ [32], None) else (text, None)
  | _ => (text, None)
  end.

Fixpoint collect_text (enc : encoding) (operands : list obj) (text : ustring) : ustring * option stop :=
  match operands with
  | [] => (text, None)
  | x :: l' =>
    let '(t1, e1) := collect_obj enc x text in
    match e1 with None => collect_text enc l' t1 | Some _ => (t1, e1) end
  end.

(* ---- fonts: BTreeMap<Vec<u8>, &Dictionary> iterates in key order ---- *)
Fixpoint bytes_ltb (a b : bytes) : bool :=
  match a, b with
  | [], [] => false
  | [], _ :: _ => true
  | _ :: _, [] => false
  | x :: a', y :: b' =>
    if (N_of_byte x <? N_of_byte y) then true
    else if (N_of_byte y <? N_of_byte x) then false
    else bytes_ltb a' b'
  end.

Fixpoint insert_sorted {A} (k : bytes) (v : A) (l : list (bytes * A)) : list (bytes * A) :=
  match l with
  | [] => [(k, v)]
  | (k', v') :: l' =>
    if bytes_ltb k k' then (k, v) :: l
    else if bytes_eqb k k' then l               (* `if !fonts.contains_key(name)`: first wins *)
    else (k', v') :: insert_sorted k v l'
  end.

Definition sort_fonts {A} (l : list (bytes * A)) : list (bytes * A) :=
  fold_left (fun acc kv => insert_sorted (fst kv) (snd kv) acc) l [].

(* chunk list entries *)
Definition chunk := res ustring.

(* fonts.into_iter().filter_map(get_font_encoding ...): encodings map, errors pushed in key order;
   the third component says that some font needs a path outside this model *)
Fixpoint page_encodings (fonts : list (bytes * dict)) : list (bytes * encoding) * list chunk * bool :=
  match fonts with
  | [] => ([], [], false)
  | (name, font) :: l =>
    let '(encs, errs, unm) := page_encodings l in
    match get_font_encoding font with
    | Ok e => ((name, e) :: encs, errs, unm)
    | Err e => (encs, Err e :: errs, unm)
    | Panic => (encs, Panic :: errs, unm)
    | Unmodelled => (encs, errs, true)
    end
  end.

Definition K_Tf := Eval cbv in bs "Tf".
Definition K_Tj := Eval cbv in bs "Tj".
Definition K_TJ := Eval cbv in bs "TJ".
Definition K_ET := Eval cbv in bs "ET".

Record st := {
  cur_enc : option encoding;
  cur_text : ustring;
  rchunks : list chunk;          (* collected_chunks_and_errs, reversed *)
}.

Definition ends_with_nl (t : ustring) : bool :=
  match rev t with c :: _ => c =? 10 | [] => false end.

(* one iteration of `for operation in &content.operations`; Err = the `?` in the Tf arm *)
Definition step (encs : list (bytes * encoding)) (s : st) (o : op) : res st :=
  let '(operator, operands) := o in
  if bytes_eqb operator K_Tf then
    match operands with
    | [] => Err ESyntax
    | f :: _ =>
      let '(enc, chunks1) :=
        match f with
        | OName font => (assoc_bytes font encs, rchunks s)
        | _ => (None, Err EObjectType :: rchunks s)
        end in
      match cur_text s with
      | [] => Ok {| cur_enc := enc; cur_text := []; rchunks := chunks1 |}
      | t => Ok {| cur_enc := enc; cur_text := []; rchunks := Ok t :: chunks1 |}
      end
    end
  else if bytes_eqb operator K_Tj || bytes_eqb operator K_TJ then
    match cur_enc s with
    | Some enc =>
      match collect_text enc operands (cur_text s) with
      | (t, None) => Ok {| cur_enc := cur_enc s; cur_text := t; rchunks := rchunks s |}
      | (t, Some (SErr e)) => Ok {| cur_enc := cur_enc s; cur_text := t; rchunks := Err e :: rchunks s |}
      | (_, Some SPanic) => Panic
      | (_, Some SUnmodelled) => Unmodelled
      end
    | None => Ok s
    end
  else if bytes_eqb operator K_ET then
    if ends_with_nl (cur_text s) then Ok s
    else Ok {| cur_enc := cur_enc s; cur_text := cur_text s ++ [10]; rchunks := rchunks s |}
  else Ok s.

Fixpoint run_ops (encs : list (bytes * encoding)) (s : st) (ops : list op) : res st :=
  match ops with
  | [] => Ok s
  | o :: ops' =>
    match step encs s o with
    | Ok s' => run_ops encs s' ops'
    | r => r
    end
  end.

(* extract_text_chunks_from_page, after the page has been found *)
Definition page_chunks (p : page) : res (list chunk) :=
  let '(encs, errs, unm) := page_encodings (sort_fonts (p_fonts p)) in
  if unm then Unmodelled
  else
    match run_ops encs {| cur_enc := None; cur_text := []; rchunks := rev errs |} (p_ops p) with
    | Ok s =>
      match cur_text s with
      | [] => Ok (rev (rchunks s))
      | t => Ok (rev (Ok t :: rchunks s))
      end
    | Err e => Err e
    | Panic => Panic
    | Unmodelled => Unmodelled
    end.

(* extract_text_chunks: pages are numbered from 1 (get_pages) *)
Definition nth_page (pages : list page) (n : N) : option page :=
  if n =? 0 then None else nth_error pages (N.to_nat (n - 1)).

Fixpoint extract_text_chunks (pages : list page) (nums : list N) : res (list chunk) :=
  match nums with
  | [] => Ok []
  | n :: nums' =>
    let here :=
      match nth_page pages n with
      | None => Ok [Err EPageNumberNotFound]
      | Some p =>
        match page_chunks p with
        | Err e => Ok [Err e]                 (* Err(err) => vec![Err(err)] *)
        | r => r
        end
      end in
    match here with
    | Ok cs =>
      match extract_text_chunks pages nums' with
      | Ok cs' => Ok (cs ++ cs')
      | r => r
      end
    | r => r
    end
  end.

(* extract_text: concatenate, the first Err chunk is returned *)
Fixpoint concat_chunks (cs : list chunk) (acc : ustring) : res ustring :=
  match cs with
  | [] => Ok acc
  | Ok t :: cs' => concat_chunks cs' (acc ++ t)
  | Err e :: _ => Err e
  | Panic :: _ => Panic
  | Unmodelled :: _ => Unmodelled
  end.

Definition extract_text (pages : list page) (nums : list N) : res ustring :=
  match extract_text_chunks pages nums with
  | Ok cs => concat_chunks cs []
  | Err e => Err e
  | Panic => Panic
  | Unmodelled => Unmodelled
  end.
