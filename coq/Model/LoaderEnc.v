(* LoaderEnc.v -- Reader::read with the last feature Model/Loader.v and Model/LoaderExt.v leave out: a trailer
   that has an Encrypt entry.  src/reader.rs, as it is now:

     let is_encrypted = self.document.trailer.get(b"Encrypt").is_ok();          (the entry is PRESENT, whatever it is)
     entries_filter_map:   if stream.dict.has_type(b"ObjStm") && !is_encrypted { ObjectStream::new .. }
                           else if stream.content.is_empty() { zero_length_streams.push(object_id) }
     ... the object streams are merged (none was collected when is_encrypted), read_stream_content for every
     zero-length stream ...
     let mut document = self.document;
     if document.authenticate_password("").is_ok() { document.decrypt("")?; }
     Ok(document)

   So with Encrypt in the trailer the cross-reference sections, the trailer and the objects are read exactly as for
   any other file, except that streams typed ObjStm are NOT opened (they are ordinary streams: one with empty content
   goes to the zero-length pass), and then the document is handed to the decrypt attempt with the empty password.
   Without an Encrypt entry authenticate_password answers Err(NotEncrypted) (Document::is_encrypted = get_encrypted
   is Ok = the entry is there and is a dictionary or a reference to one) and nothing else happens.

   The decrypt attempt is the PARAMETER [after] (so that nothing here depends on the cryptographic development):
   [after x d t] = what `if d.authenticate_password("").is_ok() { d.decrypt("")? } Ok(d)` answers for the document
   [d] just read; [x] = Document.reference_table.entries (decrypt_raw's object-stream pass consults it: Compressed
   entries), [t] the remembered cross-reference type.  The result type [R] is a parameter too ([ret] embeds the
   reader's own answers), so that an instance can report decryption errors in its own classes.
   Instances: Model/LoaderCrypt.v (C05's security handler); [fun _ d t => LOk d t] (nothing decrypted).

   [load_front] / [load_front_x] = Reader::read up to `self.document.reference_table = xref` (header, binary mark,
   startxref, cross-reference sections, the Prev loop, the size correction): the part shared by every variant.
   Proofs/LoaderEncProofs.v shows Loader.load and LoaderExt.load_ext to be these fronts followed by their tails, and
   [load_encx] to be load_ext on every file whose trailer has no Encrypt entry, for every [after].
   Definitions only. *)
From LV Require Import Base.Bytes Base.Sx Model.Obj Model.Writer Model.Parser Model.Xref Model.ObjStm Model.Utf
  Model.Loader Model.LoaderExt Gen.Lex Gen.SaveFmt Gen.Consts.

Local Open Scope N_scope.

(* what the reader holds when it starts on the objects *)
Record front := {
  f_buf : bytes;          (* self.buffer: the file from "%PDF-" on *)
  f_version : bytes;
  f_mark : bytes;
  f_xref : xref;          (* the merged table, max_id + 1 fits u32 *)
  f_trailer : dict;       (* the newest trailer without Prev (and without XRefStm once the Prev loop has run) *)
}.

(* ---------- Model/Loader.v's reader in two parts ---------- *)
Definition load_front (buf0 : bytes) : lstep front :=
  let buf := from (pdf_offset buf0) buf0 in
  match header buf with
  | None => SErr LeHeader
  | Some version =>
    let mark := read_binary_mark buf in
    match get_xref_start buf with
    | None => SErr LeXrefStart
    | Some xs =>
      match xref_and_trailer buf xs with
      | SOk (x0, t0) =>
        match prev_loop (S (S (length buf))) buf x0 (dict_swap_remove t0 K_Prev) (dict_get t0 K_Prev) [] with
        | SOk (x, t) =>
          if u32_max <=? xref_max_id x then SErr LeInvalidXref
          else SOk {| f_buf := buf; f_version := version; f_mark := mark; f_xref := x; f_trailer := t |}
        | SErr e => SErr e
        | SPanic => SPanic
        | SOut => SOut
        | SUnm => SUnm
        end
      | SErr e => SErr e
      | SPanic => SPanic
      | SOut => SOut
      | SUnm => SUnm
      end
    end
  end.

Definition doc_of (f : front) (objs : objmap) : doc :=
  {| d_version := f_version f; d_binary_mark := f_mark f; d_trailer := f_trailer f;
     d_objects := objs; d_max_id := xref_max_id (f_xref f) |}.

Definition load_tail (f : front) : lres :=
  if dict_has (f_trailer f) K_Encrypt then LUnmodelled
  else
    match read_entries (f_buf f) (x_entries (f_xref f)) [] with
    | SOk objs => LOk (doc_of f objs) (x_type (f_xref f))
    | SErr e => LErr e
    | SPanic => LPanic
    | SOut => LOut
    | SUnm => LUnmodelled
    end.

(* entries_filter_map when is_encrypted: a stream typed ObjStm is a stream like any other *)
Fixpoint read_entries_enc (buf : bytes) (x : xmap) (es : xmap) (st : rstate) : lstep rstate :=
  match es with
  | [] => SOk st
  | (k, XNormal off _) :: es' =>
    if Loader.blen buf <? off then read_entries_enc buf x es' st                (* Error::InvalidOffset *)
    else
      match indirect_x buf x (from off buf) None with
      | IxOk id (OStream d c) pos =>
        read_entries_enc buf x es'
          {| r_objs := insert (r_objs st) id (OStream d c); r_pos := pos_set (r_pos st) id pos;
             r_ostm := r_ostm st;
             r_zero := match c with [] => r_zero st ++ [id] | _ => r_zero st end |}
      | IxOk id o _ =>
        read_entries_enc buf x es'
          {| r_objs := insert (r_objs st) id o; r_pos := pos_set (r_pos st) id None;
             r_ostm := r_ostm st; r_zero := r_zero st |}
      | IxErr => read_entries_enc buf x es' st                              (* "Object load error", entry dropped *)
      | IxPanic => SPanic
      | IxOut => SOut
      end
  | _ :: es' => read_entries_enc buf x es' st
  end.

Definition rstate0 : rstate := {| r_objs := []; r_pos := []; r_ostm := []; r_zero := [] |}.

Section Enc.
  Variable decompress : dict -> bytes -> option (dict * bytes).
  Variable can_decompress : dict -> bool.

  (* ---------- Model/LoaderExt.v's reader in two parts ---------- *)
  Definition load_front_x (buf0 : bytes) : lstep front :=
    let buf := from (pdf_offset buf0) buf0 in
    match header buf with
    | None => SErr LeHeader
    | Some version =>
      let mark := read_binary_mark buf in
      match get_xref_start buf with
      | None => SErr LeXrefStart
      | Some xs =>
        match xref_and_trailer_x decompress can_decompress buf xs with
        | SOk (x0, t0) =>
          match prev_loop_x decompress can_decompress (S (S (length buf))) buf x0
                  (dict_swap_remove t0 K_Prev) (dict_get t0 K_Prev) [] with
          | SOk (x, t) =>
            if u32_max <=? xref_max_id x then SErr LeInvalidXref
            else SOk {| f_buf := buf; f_version := version; f_mark := mark; f_xref := x; f_trailer := t |}
          | SErr e => SErr e
          | SPanic => SPanic
          | SOut => SOut
          | SUnm => SUnm
          end
        | SErr e => SErr e
        | SPanic => SPanic
        | SOut => SOut
        | SUnm => SUnm
        end
      end
    end.

  (* the objects of a file that is not encrypted *)
  Definition plain_tail (f : front) : lres :=
    let x := f_xref f in
    match read_entries_x decompress can_decompress (f_buf f) (x_entries x) (x_entries x) rstate0 with
    | SOk st =>
      let m := merge_object_streams (x_entries x) (r_objs st) (r_ostm st) in
      LOk (doc_of f (zero_pass (f_buf f) m (r_pos st) (r_zero st))) (x_type x)
    | SErr e => LErr e
    | SPanic => LPanic
    | SOut => LOut
    | SUnm => LUnmodelled
    end.

  Definition load_ext_tail (f : front) : lres :=
    if dict_has (f_trailer f) K_Encrypt then LUnmodelled else plain_tail f.

  (* does the reader find an Encrypt entry in the trailer it ends up with (false also when it fails before) *)
  Definition file_encrypted (buf0 : bytes) : bool :=
    match load_front_x buf0 with SOk f => dict_has (f_trailer f) K_Encrypt | _ => false end.

  Variable R : Type.
  Variable ret : lres -> R.
  Variable after : xmap -> doc -> xtype -> R.

  (* the objects of an encrypted file (no object stream is opened, hence nothing to merge), then the decrypt attempt *)
  Definition enc_tail (f : front) : R :=
    let x := f_xref f in
    match read_entries_enc (f_buf f) (x_entries x) (x_entries x) rstate0 with
    | SOk st =>
      after (x_entries x) (doc_of f (zero_pass (f_buf f) (r_objs st) (r_pos st) (r_zero st))) (x_type x)
    | SErr e => ret (LErr e)
    | SPanic => ret LPanic
    | SOut => ret LOut
    | SUnm => ret LUnmodelled
    end.

  (* Reader::read, every file *)
  Definition load_encx (buf0 : bytes) : R :=
    match load_front_x buf0 with
    | SOk f => if dict_has (f_trailer f) K_Encrypt then enc_tail f else ret (plain_tail f)
    | SErr e => ret (LErr e)
    | SPanic => ret LPanic
    | SOut => ret LOut
    | SUnm => ret LUnmodelled
    end.
End Enc.

(* the decrypt attempt as a function of the document alone, answering in the reader's own classes *)
Definition load_enc (decompress : dict -> bytes -> option (dict * bytes)) (can_decompress : dict -> bool)
           (after : doc -> xtype -> lres) : bytes -> lres :=
  load_encx decompress can_decompress lres (fun r => r) (fun _ => after).

(* nothing is decrypted: the document comes back as it was read (what the crate does when the empty password does
   not open the file) *)
Definition load_keep (decompress : dict -> bytes -> option (dict * bytes)) (can_decompress : dict -> bool)
  : bytes -> lres := load_enc decompress can_decompress (fun d t => LOk d t).
