(* Incremental.v -- src/incremental_document.rs (IncrementalDocument: create_from,
   opt_clone_object_to_new_document, get_or_create_resources -- as repaired by e57537a: a page that only inherits
   Resources gets a copy of the inherited dictionary --, add_xobject), Document::new_from_prev
   (src/document.rs) and IncrementalDocument::save_internal (src/writer.rs, as repaired by commit
   bb85a17: offsets are counted from the file header, not from byte 0 of the unsliced buffer).
   The pieces shared with the plain save (indirect objects with the byte counter, cross-reference
   table / stream, trailer, startxref) are those of Model/Save.v.  Definitions only. *)
From LV Require Import Base.Bytes Base.Sx Model.Obj Model.DocQ Model.Writer Model.Save Gen.Inc.

Local Open Scope N_scope.

(* a Document together with the two fields the incremental path reads besides those of [doc]:
   xref_start and reference_table.cross_reference_type *)
Record xdoc := { xd_doc : doc; xd_start : N; xd_type : xref_type }.

(* Document::new_from_prev *)
Definition new_from_prev (prev : xdoc) : xdoc :=
  {| xd_doc := {| d_version := INC_VERSION;
                  d_binary_mark := INC_BINARY_MARK;
                  d_trailer := dict_set (d_trailer (xd_doc prev)) K_Prev (OInt (Z.of_N (xd_start prev)));
                  d_objects := [];
                  d_max_id := d_max_id (xd_doc prev) |};
     xd_start := 0;
     xd_type := xd_type prev |}.

Record incdoc := { i_bytes : bytes;        (* bytes_documents *)
                   i_prev : xdoc;          (* prev_documents *)
                   i_new : xdoc }.         (* new_document *)

(* IncrementalDocument::create_from *)
Definition create_from (prev_bytes : bytes) (prev : xdoc) : incdoc :=
  {| i_bytes := prev_bytes; i_prev := prev; i_new := new_from_prev prev |}.

(* ---- editing the new document ---- *)
Definition with_objects (x : xdoc) (m : objmap) : xdoc :=
  {| xd_doc := {| d_version := d_version (xd_doc x); d_binary_mark := d_binary_mark (xd_doc x);
                  d_trailer := d_trailer (xd_doc x); d_objects := m; d_max_id := d_max_id (xd_doc x) |};
     xd_start := xd_start x; xd_type := xd_type x |}.
Definition with_new (s : incdoc) (n : xdoc) : incdoc :=
  {| i_bytes := i_bytes s; i_prev := i_prev s; i_new := n |}.
Definition new_objects (s : incdoc) : objmap := d_objects (xd_doc (i_new s)).
Definition prev_objects (s : incdoc) : objmap := d_objects (xd_doc (i_prev s)).
Definition set_new_objects (s : incdoc) (m : objmap) : incdoc := with_new s (with_objects (i_new s) m).

(* Document::set_object on new_document *)
Definition set_object (s : incdoc) (id : oid) (o : obj) : incdoc :=
  set_new_objects s (insert (new_objects s) id o).

(* Document::add_object on new_document: max_id += 1 (u32; overflow is outside the model: None) *)
Definition add_object (s : incdoc) (o : obj) : option (incdoc * oid) :=
  let n := i_new s in
  if u32_top <=? d_max_id (xd_doc n) then None
  else
    let id := (d_max_id (xd_doc n) + 1, 0) in
    Some ({| i_bytes := i_bytes s; i_prev := i_prev s;
             i_new := {| xd_doc := {| d_version := d_version (xd_doc n); d_binary_mark := d_binary_mark (xd_doc n);
                                      d_trailer := d_trailer (xd_doc n);
                                      d_objects := insert (d_objects (xd_doc n)) id o;
                                      d_max_id := d_max_id (xd_doc n) + 1 |};
                         xd_start := xd_start n; xd_type := xd_type n |} |}, id).

(* opt_clone_object_to_new_document: copies what get_object returns, i.e. the object reached after
   following references, under the ORIGINAL id.  None = Err (state unchanged). *)
Definition opt_clone (s : incdoc) (id : oid) : option incdoc :=
  match lookup (new_objects s) id with
  | Some _ => Some s
  | None =>
    match get_object (prev_objects s) id with
    | Some o => Some (set_object s id o)
    | None => None
    end
  end.

(* Document::get_object_mut: the id of the object that is handed out for mutation *)
Definition get_object_mut_id (m : objmap) (id : oid) : option oid :=
  match lookup m id with
  | None => None
  | Some o =>
    match dereference m o with
    | Some (Some r, _) => Some r
    | Some (None, _) => Some id
    | None => None
    end
  end.

(* a place inside the new document: a whole object, or the value of one key of a dictionary object *)
Inductive place := PObj (id : oid) | PKey (id : oid) (k : bytes).

Definition K_Resources := Eval cbv in bs "Resources".
Definition K_XObject := Eval cbv in bs "XObject".

Definition as_dict (o : obj) : option dict := match o with ODict d => Some d | _ => None end.

Definition place_get (m : objmap) (p : place) : option obj :=
  match p with
  | PObj id => lookup m id
  | PKey id k => match lookup m id with Some (ODict d) => dict_get d k | _ => None end
  end.
Definition place_set (m : objmap) (p : place) (o : obj) : objmap :=
  match p with
  | PObj id => insert m id o
  | PKey id k => match lookup m id with Some (ODict d) => insert m id (ODict (dict_set d k o)) | _ => m end
  end.

(* ---- the objects of the update over those of the previous documents (current_object:
   new_document.objects.get(&id).or_else(|| prev_documents.objects.get(&id)) ): [lookup] in this list finds the
   object of the new document first; its length is new_document.objects.len() + prev_documents.objects.len() ---- *)
Definition cur_objects (s : incdoc) : objmap := new_objects s ++ prev_objects s.

(* inherited_resources (after the repair e57537a; the same walk as Document::inherited_resources of src/creator.rs, but
   every id is resolved by current_object and references are followed by current_dereference = Document::dereference
   over current_object, same limit):
     for _ in 0..new.len() + prev.len() { parent_id = node.get("Parent").as_reference().ok()?;
        node = current_dereference(current_object(parent_id)?)?.as_dict().ok()?;
        if let Ok(r) = node.get("Resources") { return current_dereference(r)?.as_dict().ok().cloned() } }  None *)
Fixpoint inherited_loop (fuel : nat) (m : objmap) (node : dict) : option dict :=
  match fuel with
  | O => None
  | S k =>
    match dict_get node K_Parent with
    | Some (ORef i g) =>
      match get_dictionary m (i, g) with
      | None => None
      | Some pn =>
        match dict_get pn K_Resources with
        | Some r => match dereference m r with Some (_, ODict rd) => Some rd | _ => None end
        | None => inherited_loop k m pn
        end
      end
    | _ => None
    end
  end.
Definition inherited_resources (s : incdoc) (node : dict) : option dict :=
  inherited_loop (length (cur_objects s)) (cur_objects s) node.

(* the dictionary a page without a Resources entry gets: inherited.unwrap_or_default() *)
Definition initial_resources (s : incdoc) (node : dict) : dict :=
  match inherited_resources s node with Some rd => rd | None => [] end.

(* get_or_create_resources: the state afterwards (changes made before an error are kept) and the
   place of the returned &mut Object (None = Err).  [init] = what a page without a Resources entry gets, computed
   from the page dictionary in the state after the page was copied. *)
Definition get_or_create_resources_with (init : incdoc -> dict -> dict) (s : incdoc) (page : oid) : incdoc * option place :=
  match opt_clone s page with
  | None => (s, None)
  | Some s1 =>
    match get_object (new_objects s1) page with
    | Some (ODict pd) =>
      let res_id :=
        if dict_has pd K_Resources then
          match dict_get pd K_Resources with Some (ORef i g) => Some (i, g) | _ => None end
        else None in
      match res_id with
      | Some rid =>
        match opt_clone s1 rid with
        | None => (s1, None)
        | Some s2 =>
          match get_object_mut_id (new_objects s2) rid with
          | Some t => (s2, Some (PObj t))
          | None => (s2, None)
          end
        end
      | None =>
        match get_object_mut_id (new_objects s1) page with
        | Some t =>
          match lookup (new_objects s1) t with
          | Some (ODict td) =>
            let s2 := if dict_has td K_Resources then s1
                      else set_new_objects s1 (insert (new_objects s1) t (ODict (dict_set td K_Resources (ODict (init s1 pd))))) in
            (s2, Some (PKey t K_Resources))
          | _ => (s1, None)
          end
        | None => (s1, None)
        end
      end
    | _ => (s1, None)
    end
  end.

(* the code as it is now: a page that only inherits Resources gets a COPY of the nearest inherited dictionary *)
Definition get_or_create_resources := get_or_create_resources_with initial_resources.
(* the code before the repair e57537a: Dictionary::new(), which hides the inherited resources (refutation theorem only) *)
Definition get_or_create_resources_v0 := get_or_create_resources_with (fun _ _ => []).

(* add_xobject: Ok(()) also when the resources are not a dictionary (the `if let Ok` swallows it);
   Err only from the part inside.  Result: state, true = Ok *)
Definition add_xobject (s : incdoc) (page : oid) (name : bytes) (xid : oid) : incdoc * bool :=
  match get_or_create_resources s page with
  | (s1, Some rp) =>
    match place_get (new_objects s1) rp with
    | Some (ODict rd) =>
      let rd1 := if dict_has rd K_XObject then rd else dict_set rd K_XObject (ODict []) in
      let m1 := place_set (new_objects s1) rp (ODict rd1) in
      let s2 := set_new_objects s1 m1 in
      match dict_get rd1 K_XObject with
      | Some (ORef i g) =>
        (* while let Reference(id) = new_document.get_object(id)? : get_object already follows the
           chain, so the loop body never runs; an unresolvable reference is an error *)
        match get_object m1 (i, g) with
        | None => (s2, false)
        | Some _ =>
          match get_object_mut_id m1 (i, g) with
          | None => (s2, false)
          | Some t =>
            match lookup m1 t with
            | Some (ODict xd) =>
              (set_new_objects s2 (insert m1 t (ODict (dict_set xd name (ORef (fst xid) (snd xid))))), true)
            | _ => (s2, false)
            end
          end
        end
      | Some (ODict xd) =>
        let rd2 := dict_set rd1 K_XObject (ODict (dict_set xd name (ORef (fst xid) (snd xid)))) in
        (set_new_objects s1 (place_set (new_objects s1) rp (ODict rd2)), true)
      | _ => (s2, false)
      end
    | _ => (s1, true)
    end
  | (s1, None) => (s1, true)
  end.

(* ---- IncrementalDocument::save_internal ---- *)
(* prev_document_bytes.windows(5).position(|w| w == b"%PDF-").unwrap_or(0) *)
Fixpoint find_pat (pat s : bytes) : option nat :=
  if prefixb pat s then Some O
  else match s with
       | [] => None
       | _ :: s' => option_map S (find_pat pat s')
       end.
Definition header_offset (b : bytes) : nat :=
  match find_pat HEADER_PATTERN b with Some n => n | None => O end.

(* the byte counter after the previous bytes have been handed to the sink *)
Definition start_count (prev : bytes) : N := N.of_nat (length prev - header_offset prev).

(* writeln!(target) unless the previous bytes are empty or end with a newline *)
Definition separator (prev : bytes) : bytes :=
  match prev with
  | [] => []
  | _ => if byte_eqb (last prev x00) x0a then [] else [x0a]
  end.

Inductive inc_status := IncOk | IncInvalidMark | IncPanic.
Record inc_out := { io_status : inc_status; io_bytes : bytes; io_start : N (* xref_start written *) }.

(* what follows the previous bytes: separator, header, binary mark, the new objects *)
Definition inc_head (s : incdoc) : bytes :=
  separator (i_bytes s) ++ header_bytes (xd_doc (i_new s)) ++ mark_bytes (xd_doc (i_new s)).

Definition inc_save (s : incdoc) : inc_out :=
  let prev := i_bytes s in
  let nd := xd_doc (i_new s) in
  if u32_top <=? d_max_id nd then {| io_status := IncPanic; io_bytes := prev; io_start := 0 |}
  else if negb (binary_mark_ok (d_binary_mark nd)) then
    {| io_status := IncInvalidMark; io_bytes := prev ++ separator prev ++ header_bytes nd; io_start := 0 |}
  else
    let h := inc_head s in
    let '(ob, pos, x) := write_objects (start_count prev + blen h) (d_objects nd) [] in
    match xd_type (i_prev s) with
    | XTable =>
      {| io_status := IncOk;
         io_bytes := prev ++ h ++ ob ++ write_xref x (d_max_id nd + 1) ++ trailer_bytes (trailer_table nd) ++
                     startxref_bytes pos;
         io_start := pos |}
    | XStream =>
      if u32_top <=? d_max_id nd + 1 then {| io_status := IncPanic; io_bytes := prev ++ h ++ ob; io_start := pos |}
      else
        let '(t, content, _) := xstream_parts nd x (pos mod u32_mod) in
        {| io_status := IncOk;
           io_bytes := prev ++ h ++ ob ++ write_indirect_object (d_max_id nd + 1) 0 (OStream t content) ++
                       startxref_bytes pos;
           io_start := pos |}
    end.

(* ---- what a reader must see after the save ("overlay"): the new objects over the previous view.
   Objects the writer skips (ObjStm, XRef, Linearized) are not part of the new revision. ---- *)
Definition written (m : objmap) : objmap := filter (fun io => negb (skipped (snd io))) m.
Definition overlay (prev new : objmap) : objmap :=
  fold_left (fun m io => insert m (fst io) (snd io)) (written new) prev.
