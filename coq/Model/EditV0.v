(* EditV0.v -- delete_object of src/processor.rs as it was on the PINNED tree, before the repairs
   d8f953f / 5f2d281 / a9154d5 / 5ad5348 (kept for the refutation theorem only; the runner uses Model/Edit.v).
     Array      => if let Some(index) = array.iter().position(is Reference(id)) { array.remove(index) }   -- once
     Dictionary => remove every entry whose value is Reference(id)
     _          => {}                     -- stream dictionaries and top-level references untouched
   and the trailer's own entries are never looked at (traverse_objects applies the action to its values). *)
From LV Require Import Base.Bytes Model.Obj Model.DocQ Model.Traverse Model.Edit.

Fixpoint strip_v0 (id : oid) (o : obj) : obj :=
  match o with
  | OArr l =>
    OArr ((fix go (removed : bool) (l : list obj) : list obj :=
             match l with
             | [] => []
             | x :: l0 => if negb removed && is_ref_to id x then go true l0 else strip_v0 id x :: go removed l0
             end) false l)
  | ODict d =>
    ODict (remove_keys (ref_keys id d)
             ((fix go (d : list (bytes * obj)) : list (bytes * obj) :=
                 match d with [] => [] | (k, v) :: d0 => (k, strip_v0 id v) :: go d0 end) d))
  | OStream d c =>
    OStream ((fix go (d : list (bytes * obj)) : list (bytes * obj) :=
                match d with [] => [] | (k, v) :: d0 => (k, strip_v0 id v) :: go d0 end) d) c
  | _ => o
  end.

Definition strip_values_v0 (id : oid) (d : dict) : dict := map (fun kv => (fst kv, strip_v0 id (snd kv))) d.

Definition delete_object_v0 (d : doc) (id : oid) : option (doc * option obj) :=
  let tr := d_trailer d in
  let m := d_objects d in
  match act_traverse (strip_v0 id) (strip_values_v0 id) (trav_fuel tr m) tr m with
  | Some (tr', m', _) => Some (with_graph d tr' (remove m' id), lookup m' id)
  | None => None
  end.

(* get_or_create_resources of src/creator.rs before the repair of C11-resources-shadow: a page without a Resources
   entry got an EMPTY dictionary, which by the nearest-ancestor rule hides the inherited one (kept for the refutation
   theorem only). *)
Definition get_or_create_resources_v0 (d : doc) (page : oid) : doc * option res_loc :=
  let m := d_objects d in
  match get_object m page with
  | Some (ODict pd) =>
    match (if dict_has pd K_Resources then as_ref (dict_get pd K_Resources) else None) with
    | Some rid => (d, option_map RLObj (get_object_mut_id m rid))
    | None =>
      match get_object_mut_id m page with
      | Some t =>
        match lookup m t with
        | Some (ODict td) =>
          let td' := if dict_has td K_Resources then td else dict_set td K_Resources (ODict []) in
          (with_objs d (update m t (ODict td')), Some (RLEntry t))
        | _ => (d, None)
        end
      | None => (d, None)
      end
    end
  | _ => (d, None)
  end.

(* add_xobject / add_graphics_state on top of it (the text of Model/Edit.v [add_resource], unchanged by the repair) *)
Definition add_resource_v0 (follow : bool) (key : bytes) (d : doc) (page : oid) (nm : bytes) (x : oid) : doc * out :=
  let '(d1, loc) := get_or_create_resources_v0 d page in
  match loc with
  | None => (d1, OOk)
  | Some loc =>
    let m1 := d_objects d1 in
    match loc_get m1 loc with
    | Some (ODict rd) =>
      let rd1 := if dict_has rd key then rd else dict_set rd key (ODict []) in
      let m2 := loc_set m1 loc (ODict rd1) in
      let d2 := with_objs d1 m2 in
      let entry := ORef (fst x) (snd x) in
      match dict_get rd1 key with
      | Some (ODict xd) => (with_objs d1 (loc_set m2 loc (ODict (dict_set rd1 key (ODict (dict_set xd nm entry))))), OOk)
      | Some (ORef i g) =>
        if follow then
          match get_object m2 (i, g), get_object_mut_id m2 (i, g) with
          | Some _, Some t =>
            match lookup m2 t with
            | Some (ODict xd) => (with_objs d1 (update m2 t (ODict (dict_set xd nm entry))), OOk)
            | _ => (d2, OErr)
            end
          | _, _ => (d2, OErr)
          end
        else (d2, OErr)
      | _ => (d2, OErr)
      end
    | _ => (d1, OOk)
    end
  end.
Definition add_xobject_v0 := add_resource_v0 true K_XObject.
