(* EditV0.v -- delete_object of src/processor.rs as it was on the PINNED tree, before the repairs
   d8f953f / 5f2d281 / a9154d5 / 5ad5348 (kept for the refutation theorem only; the runner uses Model/Edit.v).
     Array      => if let Some(index) = array.iter().position(is Reference(id)) { array.remove(index) }   -- once
     Dictionary => remove every entry whose value is Reference(id)
     _          => {}                     -- stream dictionaries and top-level references untouched
   and the trailer's own entries are never looked at (traverse_objects applies the action to its values). *)
From LV Require Import Base.Bytes Model.Obj Model.Traverse Model.Edit.

Fixpoint strip_v0 (id : oid) (o : obj) : obj :=
  match o with
  | OArr l =>
    OArr ((fix go (removed : bool) (l : list obj) : list obj :=
             match l with
             | [] => []
             | x :: l0 => if negb removed && is_ref_to id x then go true l0 else strip_v0 id x :: go removed l0
             end) false l)
  | ODict d =>
    ODict (remove_keys (ref_keys id d)
             ((fix go (d : list (bytes * obj)) : list (bytes * obj) :=
                 match d with [] => [] | (k, v) :: d0 => (k, strip_v0 id v) :: go d0 end) d))
  | OStream d c =>
    OStream ((fix go (d : list (bytes * obj)) : list (bytes * obj) :=
                match d with [] => [] | (k, v) :: d0 => (k, strip_v0 id v) :: go d0 end) d) c
  | _ => o
  end.

Definition strip_values_v0 (id : oid) (d : dict) : dict := map (fun kv => (fst kv, strip_v0 id (snd kv))) d.

Definition delete_object_v0 (d : doc) (id : oid) : option (doc * option obj) :=
  let tr := d_trailer d in
  let m := d_objects d in
  match act_traverse (strip_v0 id) (strip_values_v0 id) (trav_fuel tr m) tr m with
  | Some (tr', m', _) => Some (with_graph d tr' (remove m' id), lookup m' id)
  | None => None
  end.
