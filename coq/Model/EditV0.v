(* EditV0.v -- delete_object of src/processor.rs as it was on the PINNED tree, before the repairs
   d8f953f / 5f2d281 / a9154d5 / 5ad5348 (kept for the refutation theorem only; the runner uses Model/Edit.v).
     Array      => if let Some(index) = array.iter().position(is Reference(id)) { array.remove(index) }   -- once
     Dictionary => remove every entry whose value is Reference(id)
     _          => {}                     -- stream dictionaries and top-level references untouched
   and the trailer's own entries are never looked at (traverse_objects applies the action to its values). *)
From LV Require Import Base.Bytes Model.Obj Model.DocQ Model.PageTree Model.Traverse Model.Edit.

Fixpoint strip_v0 (id : oid) (o : obj) : obj :=
  match o with
  | OArr l =>
    OArr ((fix go (removed : bool) (l : list obj) : list obj :=
             match l with
             | [] => []
             | x :: l0 => if negb removed && is_ref_to id x then go true l0 else strip_v0 id x :: go removed l0
             end) false l)
  | ODict d =>
    ODict (remove_keys (ref_keys id d)
             ((fix go (d : list (bytes * obj)) : list (bytes * obj) :=
                 match d with [] => [] | (k, v) :: d0 => (k, strip_v0 id v) :: go d0 end) d))
  | OStream d c =>
    OStream ((fix go (d : list (bytes * obj)) : list (bytes * obj) :=
                match d with [] => [] | (k, v) :: d0 => (k, strip_v0 id v) :: go d0 end) d) c
  | _ => o
  end.

Definition strip_values_v0 (id : oid) (d : dict) : dict := map (fun kv => (fst kv, strip_v0 id (snd kv))) d.

Definition delete_object_v0 (d : doc) (id : oid) : option (doc * option obj) :=
  let tr := d_trailer d in
  let m := d_objects d in
  match act_traverse (strip_v0 id) (strip_values_v0 id) (trav_fuel tr m) tr m with
  | Some (tr', m', _) => Some (with_graph d tr' (remove m' id), lookup m' id)
  | None => None
  end.

(* get_or_create_resources of src/creator.rs before the repair of C11-resources-shadow: a page without a Resources
   entry got an EMPTY dictionary, which by the nearest-ancestor rule hides the inherited one (kept for the refutation
   theorem only). *)
Definition get_or_create_resources_v0 (d : doc) (page : oid) : doc * option res_loc :=
  let m := d_objects d in
  match get_object m page with
  | Some (ODict pd) =>
    match (if dict_has pd K_Resources then as_ref (dict_get pd K_Resources) else None) with
    | Some rid => (d, option_map RLObj (get_object_mut_id m rid))
    | None =>
      match get_object_mut_id m page with
      | Some t =>
        match lookup m t with
        | Some (ODict td) =>
          let td' := if dict_has td K_Resources then td else dict_set td K_Resources (ODict []) in
          (with_objs d (update m t (ODict td')), Some (RLEntry t))
        | _ => (d, None)
        end
      | None => (d, None)
      end
    end
  | _ => (d, None)
  end.

(* add_xobject / add_graphics_state on top of it (the text of Model/Edit.v [add_resource], unchanged by the repair) *)
Definition add_resource_v0 (follow : bool) (key : bytes) (d : doc) (page : oid) (nm : bytes) (x : oid) : doc * out :=
  let '(d1, loc) := get_or_create_resources_v0 d page in
  match loc with
  | None => (d1, OOk)
  | Some loc =>
    let m1 := d_objects d1 in
    match loc_get m1 loc with
    | Some (ODict rd) =>
      let rd1 := if dict_has rd key then rd else dict_set rd key (ODict []) in
      let m2 := loc_set m1 loc (ODict rd1) in
      let d2 := with_objs d1 m2 in
      let entry := ORef (fst x) (snd x) in
      match dict_get rd1 key with
      | Some (ODict xd) => (with_objs d1 (loc_set m2 loc (ODict (dict_set rd1 key (ODict (dict_set xd nm entry))))), OOk)
      | Some (ORef i g) =>
        if follow then
          match get_object m2 (i, g), get_object_mut_id m2 (i, g) with
          | Some _, Some t =>
            match lookup m2 t with
            | Some (ODict xd) => (with_objs d1 (update m2 t (ODict (dict_set xd nm entry))), OOk)
            | _ => (d2, OErr)
            end
          | _, _ => (d2, OErr)
          end
        else (d2, OErr)
      | _ => (d2, OErr)
      end
    | _ => (d1, OOk)
    end
  end.
Definition add_xobject_v0 := add_resource_v0 true K_XObject.

(* change_page_content of src/processor.rs and add_page_contents of src/document.rs on the PINNED tree, before the repairs of
   C11-content-indirect and C11-content-shared (kept for the refutation theorems only): Contents is looked at without following
   references -- a reference is taken to name a stream, an array to hold such references -- and the one stream of a page is
   rewritten in place whoever else shows it. *)
Definition change_page_content_v0 (O : oracles) (d : doc) (page : oid) (content : bytes) : doc * out :=
  match get_dictionary (d_objects d) page with
  | None => (d, OErr)
  | Some pd =>
    match dict_get pd K_Contents with
    | None => (d, OErr)
    | Some (ORef i g) => (change_content_stream O d (i, g) content, OOk)
    | Some (OArr [x]) =>
      match x with
      | ORef i g => (change_content_stream O d (i, g) content, OOk)
      | _ => (d, OOk)
      end
    | Some (OArr _) =>
      match add_object d (new_stream content) with
      | None => (d, OPanic)
      | Some (d1, nid) =>
        match set_page_entry (d_objects d1) page K_Contents (ORef (fst nid) (snd nid)) with
        | Some m2 => (with_objs d1 m2, OOk)
        | None => (d1, OOk)
        end
      end
    | Some _ => (d, OOk)
    end
  end.

Definition add_page_contents_v0 (d : doc) (page : oid) (content : bytes) : doc * out :=
  match get_dictionary (d_objects d) page with
  | None => (d, OErr)
  | Some pd =>
    let cur := match dict_get pd K_Contents with
               | Some (ORef i g) => [ORef i g]
               | Some (OArr l) => l
               | _ => []
               end in
    match add_object d (new_stream content) with
    | None => (d, OPanic)
    | Some (d1, nid) =>
      match set_page_entry (d_objects d1) page K_Contents (OArr (cur ++ [ORef (fst nid) (snd nid)])) with
      | Some m2 => (with_objs d1 m2, OOk)
      | None => (d1, OErr)
      end
    end
  end.

(* delete_pages of src/processor.rs on the PINNED tree, before the repairs of C11-count-indirect and C11-page-reference-object
   (kept for the refutation theorems only): the Count of an ancestor is decremented only when the entry is an integer in the
   dictionary itself (as_i64 on the entry), and the Parent chain is entered only when the object stored under the page id is the
   page dictionary itself (as_dict on the removed object). *)
Fixpoint count_loop_v0 (fuel : nat) (m : objmap) (r : option oid) : objmap * loop_res :=
  match r with
  | None => (m, LOk)
  | Some id =>
    match fuel with
    | O => (m, LHang)
    | S k =>
      match lookup m id with
      | Some (ODict pt) =>
        match dict_get pt K_Count with
        | Some (OInt c) =>
          if (c =? I64_MIN)%Z then (m, LPanic)
          else let pt' := dict_set pt K_Count (OInt (c - 1)) in
               count_loop_v0 k (update m id (ODict pt')) (as_ref (dict_get pt' K_Parent))
        | _ => count_loop_v0 k m (as_ref (dict_get pt K_Parent))
        end
      | _ => (m, LOk)
      end
    end
  end.

Fixpoint delete_pages_loop_v0 (pages : list (N * oid)) (nums : list N) (d : doc) : doc * loop_res :=
  match nums with
  | [] => (d, LOk)
  | n :: ns =>
    match assoc_N pages n with
    | None => delete_pages_loop_v0 pages ns d
    | Some pid =>
      match delete_object d pid with
      | None => (d, LFuel)
      | Some (d1, None) => delete_pages_loop_v0 pages ns d1
      | Some (d1, Some page) =>
        let r := match page with ODict pd => as_ref (dict_get pd K_Parent) | _ => None end in
        let '(m2, lr) := count_loop_v0 (S (length (d_objects d1))) (d_objects d1) r in
        match lr with
        | LOk => delete_pages_loop_v0 pages ns (with_objs d1 m2)
        | _ => (with_objs d1 m2, lr)
        end
      end
    end
  end.

Definition delete_pages_v0 (d : doc) (nums : list N) : doc * loop_res := delete_pages_loop_v0 (get_pages d) nums d.
