(* OneByte.v -- model of src/encodings/mod.rs (bytes_to_string, string_to_bytes, Encoding,
   encode_utf16_be, encode_utf8) over the tables REGENERATED from src/encodings/mappings.rs
   (Gen/Tables.v), and of Dictionary::get_font_encoding (src/object.rs) as far as the predefined
   one-byte encodings are concerned.  Written from the Rust source, branch for branch.
   Definitions only. *)
From LV Require Import Base.Bytes Model.Utf Model.Obj Gen.Tables.
Local Open Scope N_scope.

(* error classes of lopdf::Error that these functions can return *)
Inductive err :=
| EObjectType | EDictType | EDictKey | ETextStringDecode | ECharacterEncoding | ESyntax
| EPageNumberNotFound.

(* outcome of a call: a value, an `Err`, a panic (the `expect` in bytes_to_string, `unimplemented!`),
   or a path this model does not cover (ToUnicode CMaps are C15's, encoding_rs' BOM sniffing) *)
Inductive res (A : Type) := Ok (a : A) | Err (e : err) | Panic | Unmodelled.
Arguments Ok {A} a.
Arguments Err {A} e.
Arguments Panic {A}.
Arguments Unmodelled {A}.

(* CodedCharacterSet = [Option<u16>; 256] *)
Definition table := list (option N).

(* encoding[byte as usize] *)
Definition cell (t : table) (b : byte) : option N := nth (N.to_nat (N_of_byte b)) t None.

Fixpoint filter_map {A B} (f : A -> option B) (l : list A) : list B :=
  match l with
  | [] => []
  | a :: l' => match f a with Some b => b :: filter_map f l' | None => filter_map f l' end
  end.

(* bytes.iter().filter_map(|&byte| encoding[byte as usize]).collect::<Vec<u16>>() *)
Definition bytes_to_units (t : table) (bs : bytes) : list N := filter_map (cell t) bs.

(* String::from_utf16(&code_points).expect(..) *)
Definition bytes_to_string (t : table) (bs : bytes) : res ustring :=
  match utf16_decode (bytes_to_units t bs) with
  | Some s => Ok s
  | None => Panic
  end.

(* encoding.iter().position(|&code| code == Some(ch)) *)
Fixpoint position_from (t : table) (u : N) (i : N) : option N :=
  match t with
  | [] => None
  | c :: t' =>
    if match c with Some v => v =? u | None => false end then Some i
    else position_from t' u (i + 1)
  end.
Definition position (t : table) (u : N) : option N := position_from t u 0.

(* text.encode_utf16().filter_map(position).map(|byte| byte as u8).collect() *)
Definition string_to_bytes (t : table) (s : ustring) : bytes :=
  map byte_of_N (filter_map (position t) (utf16_encode s)).

(* encode_utf16_be / encode_utf8 *)
Definition encode_utf16_be (s : ustring) : bytes :=
  be_bytes ENC_MARK_UTF16 ++ flat_map be_bytes (utf16_encode s).
Definition encode_utf8 (s : ustring) : bytes := ENC_MARK_UTF8 ++ utf8_encode s.

(* enum Encoding; the UnicodeMapEncoding payload (a ToUnicode CMap) belongs to C15 *)
Inductive encoding :=
| EncOneByte (t : table)
| EncSimple (name : bytes)
| EncCMap.

Definition N_UniGB_UCS2_H := Eval cbv in bs "UniGB-UCS2-H".
Definition N_UniGB_UTF16_H := Eval cbv in bs "UniGB-UTF16-H".
Definition is_unigb (n : bytes) : bool := bytes_eqb n N_UniGB_UCS2_H || bytes_eqb n N_UniGB_UTF16_H.

(* Encoding::bytes_to_string (= Document::decode_text) *)
Definition enc_bytes_to_string (e : encoding) (bs : bytes) : res ustring :=
  match e with
  | EncOneByte t => bytes_to_string t bs
  | EncSimple n => if is_unigb n then Unmodelled (* encoding_rs UTF_16BE.decode *) else Err ECharacterEncoding
  | EncCMap => Unmodelled
  end.

(* Encoding::string_to_bytes (= Document::encode_text) *)
Definition enc_string_to_bytes (e : encoding) (s : ustring) : res bytes :=
  match e with
  | EncOneByte t => Ok (string_to_bytes t s)
  | EncSimple n => if is_unigb n then Ok (encode_utf16_be s) else Ok (utf8_encode s)
  | EncCMap => Panic (* unimplemented!() *)
  end.

(* ---- Dictionary::get_font_encoding ---- *)
Definition K_Font := Eval cbv in bs "Font".
Definition K_Encoding := Eval cbv in bs "Encoding".
Definition K_ToUnicode := Eval cbv in bs "ToUnicode".
Definition N_Identity_H := Eval cbv in bs "Identity-H".
Definition N_Identity_V := Eval cbv in bs "Identity-V".

Fixpoint assoc_bytes {A} (k : bytes) (l : list (bytes * A)) : option A :=
  match l with
  | [] => None
  | (k', v) :: l' => if bytes_eqb k' k then Some v else assoc_bytes k l'
  end.

Definition get_font_encoding (font : dict) : res encoding :=
  if negb (has_type font K_Font) then Err EDictType
  else
    match dict_get font K_Encoding with
    | Some (OName n) =>
      match assoc_bytes n FONT_ENCODINGS with
      | Some t => Ok (EncOneByte t)
      | None =>
        if bytes_eqb n N_Identity_H || bytes_eqb n N_Identity_V then
          (* self.get_deref(b"ToUnicode", doc)?.as_stream()? then the CMap parser *)
          match dict_get font K_ToUnicode with
          | None => Err EDictKey
          | Some (ORef _ _) => Unmodelled
          | Some (OStream _ _) => Unmodelled
          | Some _ => Err EObjectType
          end
        else Ok (EncSimple n)
      end
    | _ =>
      (* no Encoding name: ToUnicode if it is a stream, else the Standard table *)
      match dict_get font K_ToUnicode with
      | Some (ORef _ _) => Unmodelled
      | Some (OStream _ _) => Unmodelled
      | _ => Ok (EncOneByte FALLBACK_ENCODING)
      end
    end.
