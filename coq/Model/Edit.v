(* Edit.v -- the editing operations of src/creator.rs, src/processor.rs and src/document.rs as one
   step function  step : oracles -> doc -> op -> doc * out  (property C11).
   Written from the Rust source as it is NOW (after the fix: commits recorded for C11 in
   known_findings.json), branch for branch.  Definitions only.

   Conventions
   * `self.max_id += 1` is a checked u32 addition (the harness is built with overflow checks):
     at u32::MAX the call panics before anything is written, outcome [OPanic], document unchanged.
   * A `Result<()>` is observed as ok / err (error classes are not distinguished: every error here is
     one of ObjectNotFound / DictKey / ObjectType / ReferenceLimit raised by the first failing
     accessor, and which accessor fails is already visible in the document that results).
   * Document::traverse_objects with a shape-changing action (delete_object):
       fn traverse_object(o) { action(o); match o { Array => each item; Dictionary => each value;
                                Stream => each dict value; Reference(id) => push id once } }
     The action of delete_object only removes top-level items / entries that are references to the
     deleted id, then the traversal descends into what is left.  So one call of traverse_object
     rewrites the object to [strip id o] (the action applied at every level, outermost first) and
     pushes the reference ids of the RESULT in depth-first order: [collect (strip id o) refs].
     (The entries a dictionary keeps are processed in the order swap_remove leaves them in; the
     stripped value of a kept entry does not depend on that order, and [collect] walks the result.)
   * The worklist loop `while index < refs.len()` is recursion on fuel with the out-of-fuel value
     [None]; Proofs/EditProofsTrav.v shows [trav_fuel] always suffices. *)
From LV Require Import Base.Bytes Base.Sx Model.Obj Model.DocQ Model.PageTree Model.Traverse Gen.Consts.

Definition U32_MAX : N := 4294967295.

Definition K_Annots := Eval cbv in bs "Annots".

(* ------------------------------------------------------------------------------------------ *)
(* third-party code (flate2, weezl): see Model/StreamFilt.v; carried as a record so that [step]
   has one extra argument *)
Record oracles := {
  o_inflate : bytes -> bytes;
  o_lzw : bool -> bytes -> bytes;
  o_deflate : bytes -> bytes;
}.

(* ------------------------------------------------------------------------------------------ *)
Inductive op :=
| NewObjectId
| AddObject (o : obj)
| SetObject (id : oid) (o : obj)
| DeleteObject (id : oid)
| RemoveAnnot (id : oid)            (* Document::remove_object *)
| PruneObjects.

Inductive out :=
| OUnit
| OId (id : oid)
| OObj (o : option obj)
| OIds (l : list oid)
| OOk
| OErr
| OPanic
| OFuel.                            (* the model ran out of fuel: excluded by the theorems *)

Definition with_max (d : doc) (mx : N) : doc :=
  {| d_version := d_version d; d_binary_mark := d_binary_mark d; d_trailer := d_trailer d;
     d_objects := d_objects d; d_max_id := mx |}.
Definition with_objs (d : doc) (m : objmap) : doc :=
  {| d_version := d_version d; d_binary_mark := d_binary_mark d; d_trailer := d_trailer d;
     d_objects := m; d_max_id := d_max_id d |}.
Definition with_graph (d : doc) (tr : dict) (m : objmap) : doc :=
  {| d_version := d_version d; d_binary_mark := d_binary_mark d; d_trailer := tr;
     d_objects := m; d_max_id := d_max_id d |}.

(* ---------------- creator.rs: new_object_id / add_object / set_object ---------------- *)
Definition new_object_id (d : doc) : option (doc * oid) :=
  if (d_max_id d <? U32_MAX)%N then
    let mx := (d_max_id d + 1)%N in Some (with_max d mx, (mx, 0%N))
  else None.                                                    (* attempt to add with overflow *)

Definition add_object (d : doc) (o : obj) : option (doc * oid) :=
  match new_object_id d with
  | Some (d1, id) => Some (with_objs d1 (insert (d_objects d1) id o), id)
  | None => None
  end.

Definition set_object (d : doc) (id : oid) (o : obj) : doc := with_objs d (insert (d_objects d) id o).

(* ---------------- traversal with a shape-changing action ---------------- *)
Definition collect (o : obj) (refs : list oid) : list oid := snd (trav_obj (fun x => x) o refs).
Definition collect_dict (d : dict) (refs : list oid) : list oid := snd (trav_dict (fun x => x) d refs).

Fixpoint act_loop (act : obj -> obj) (fuel : nat) (m : objmap) (refs : list oid) (index : nat)
  : option (objmap * list oid) :=
  match fuel with
  | O => None
  | S k =>
    match nth_error refs index with
    | None => Some (m, refs)
    | Some id =>
      match lookup m id with
      | Some o => let o' := act o in act_loop act k (update m id o') (collect o' refs) (S index)
      | None => act_loop act k m refs (S index)
      end
    end
  end.

(* [act_tr]: what happens to the trailer (traverse_dictionary applies the action to its VALUES only;
   delete_object strips the trailer's own entries itself before traversing) *)
Definition act_traverse (act : obj -> obj) (act_tr : dict -> dict) (fuel : nat) (tr : dict) (m : objmap)
  : option (dict * objmap * list oid) :=
  let tr' := act_tr tr in
  match act_loop act fuel m (collect_dict tr' []) 0 with
  | Some (m', refs) => Some (tr', m', refs)
  | None => None
  end.

(* ---------------- processor.rs: delete_object ---------------- *)
Definition is_ref_to (id : oid) (o : obj) : bool :=
  match o with ORef i g => oid_eqb (i, g) id | _ => false end.

(* let keys = dict.iter().filter(value is Reference(id)).map(key).collect(); for key in keys { dict.remove(&key) }
   Dictionary::remove is IndexMap::swap_remove *)
Definition ref_keys (id : oid) (d : dict) : list bytes :=
  map fst (filter (fun kv => is_ref_to id (snd kv)) d).
Definition remove_keys (ks : list bytes) (d : dict) : dict := fold_left dict_swap_remove ks d.
Definition remove_ref_entries (id : oid) (d : dict) : dict := remove_keys (ref_keys id d) d.

(* the action of delete_object applied at every level of one object:
     Array      => array.retain(|item| item is not Reference(id))
     Dictionary => remove every entry whose value is Reference(id)
     Stream     => the same on the stream dictionary
     Reference(id) itself => Null   (only an indirect object can still be one when the traversal
                                     gets to it: nested ones were removed by the level above)
   The keys to remove are read off the dictionary BEFORE its values are rewritten, as in the code. *)
Fixpoint strip (id : oid) (o : obj) : obj :=
  match o with
  | OArr l =>
    OArr ((fix go (l : list obj) : list obj :=
             match l with
             | [] => []
             | x :: l0 => if is_ref_to id x then go l0 else strip id x :: go l0
             end) l)
  | ODict d =>
    ODict (remove_keys (ref_keys id d)
             ((fix go (d : list (bytes * obj)) : list (bytes * obj) :=
                 match d with [] => [] | (k, v) :: d0 => (k, strip id v) :: go d0 end) d))
  | OStream d c =>
    OStream (remove_keys (ref_keys id d)
               ((fix go (d : list (bytes * obj)) : list (bytes * obj) :=
                   match d with [] => [] | (k, v) :: d0 => (k, strip id v) :: go d0 end) d)) c
  | ORef i g => if oid_eqb (i, g) id then ONull else o
  | _ => o
  end.

Definition strip_values (id : oid) (d : dict) : dict := map (fun kv => (fst kv, strip id (snd kv))) d.
Definition strip_trailer (id : oid) (tr : dict) : dict := remove_keys (ref_keys id tr) (strip_values id tr).

Definition delete_object (d : doc) (id : oid) : option (doc * option obj) :=
  let tr := d_trailer d in
  let m := d_objects d in
  match act_traverse (strip id) (strip_trailer id) (trav_fuel tr m) tr m with
  | Some (tr', m', _) => Some (with_graph d tr' (remove m' id), lookup m' id)
  | None => None
  end.

(* ---------------- processor.rs: prune_objects ---------------- *)
Definition prune_objects (d : doc) : option (doc * list oid) :=
  let tr := d_trailer d in
  let m := d_objects d in
  match traverse_objects (fun x => x) (trav_fuel tr m) tr m with
  | Some (tr', m', refs) =>
    let ids := filter (fun id => negb (mem_oid id refs)) (map fst m') in
    Some (with_graph d tr' (fold_left remove ids m'), ids)
  | None => None
  end.

(* ---------------- creator.rs: remove_object (removes an annotation from every page) ---------------- *)
(* Document::get_object_mut: the id of the object the returned &mut points at *)
Definition get_object_mut_id (m : objmap) (id : oid) : option oid :=
  match lookup m id with
  | None => None
  | Some o =>
    match dereference m o with
    | Some (Some r, _) => Some r
    | Some (None, _) => Some id
    | None => None
    end
  end.

(* for (_, page_id) in self.get_pages() { page = get_object_mut(page_id)?.as_dict_mut()?;
     annots = page.get_mut("Annots")?.as_array_mut()?; annots.retain(not Reference(object_id)) }
   the page list is computed once, before the loop; an error returns at once and keeps what
   earlier iterations did *)
Fixpoint remove_annot_loop (target : oid) (pages : list oid) (m : objmap) : objmap * bool :=
  match pages with
  | [] => (m, true)
  | p :: ps =>
    match get_object_mut_id m p with
    | None => (m, false)
    | Some t =>
      match lookup m t with
      | Some (ODict pd) =>
        match dict_get pd K_Annots with
        | Some (OArr l) =>
          let l' := filter (fun x => negb (is_ref_to target x)) l in
          remove_annot_loop target ps (update m t (ODict (dict_set pd K_Annots (OArr l'))))
        | _ => (m, false)
        end
      | _ => (m, false)
      end
    end
  end.

Definition remove_annot (d : doc) (target : oid) : doc * bool :=
  let '(m, ok) := remove_annot_loop target (map snd (get_pages d)) (d_objects d) in
  (with_objs d m, ok).

(* ------------------------------------------------------------------------------------------ *)
Definition step (O : oracles) (d : doc) (o : op) : doc * out :=
  match o with
  | NewObjectId =>
    match new_object_id d with Some (d', id) => (d', OId id) | None => (d, OPanic) end
  | AddObject x =>
    match add_object d x with Some (d', id) => (d', OId id) | None => (d, OPanic) end
  | SetObject id x => (set_object d id x, OUnit)
  | DeleteObject id =>
    match delete_object d id with Some (d', r) => (d', OObj r) | None => (d, OFuel) end
  | RemoveAnnot id =>
    let '(d', ok) := remove_annot d id in (d', if ok then OOk else OErr)
  | PruneObjects =>
    match prune_objects d with Some (d', ids) => (d', OIds ids) | None => (d, OFuel) end
  end.

(* the state after a program, and the trace of outputs *)
Definition run_ops (O : oracles) (d : doc) (ops : list op) : doc :=
  fold_left (fun d o => fst (step O d o)) ops d.
