(* Edit.v -- the editing operations of src/creator.rs, src/processor.rs and src/document.rs as one
   step function  step : oracles -> doc -> op -> doc * out  (property C11).
   Written from the Rust source as it is NOW (after the fix: commits recorded for C11 in
   known_findings.json), branch for branch.  Definitions only.

   Conventions
   * `self.max_id += 1` is a checked u32 addition (the harness is built with overflow checks):
     at u32::MAX the call panics before anything is written, outcome [OPanic], document unchanged.
   * A `Result<()>` is observed as ok / err (error classes are not distinguished: every error here is
     one of ObjectNotFound / DictKey / ObjectType / ReferenceLimit raised by the first failing
     accessor, and which accessor fails is already visible in the document that results).
   * Document::traverse_objects with a shape-changing action (delete_object):
       fn traverse_object(o) { action(o); match o { Array => each item; Dictionary => each value;
                                Stream => each dict value; Reference(id) => push id once } }
     The action of delete_object only removes top-level items / entries that are references to the
     deleted id, then the traversal descends into what is left.  So one call of traverse_object
     rewrites the object to [strip id o] (the action applied at every level, outermost first) and
     pushes the reference ids of the RESULT in depth-first order: [collect (strip id o) refs].
     (The entries a dictionary keeps are processed in the order swap_remove leaves them in; the
     stripped value of a kept entry does not depend on that order, and [collect] walks the result.)
   * The worklist loop `while index < refs.len()` is recursion on fuel with the out-of-fuel value
     [None]; Proofs/EditProofsTrav.v shows [trav_fuel] always suffices. *)
From LV Require Import Base.Bytes Base.Sx Model.Obj Model.DocQ Model.PageTree Model.Traverse Gen.Consts
  Gen.Filters Model.A85 Model.Png Model.StreamFilt Model.Writer Model.Renumber.
(* qualified use only (Outline.x, SaveState.x): both files reuse names of this one *)
From LV Require Model.Outline Model.SaveState.

Definition I64_MIN : Z := (-9223372036854775808)%Z.

Definition K_Annots := Eval cbv in bs "Annots".
Definition K_Contents := Eval cbv in bs "Contents".
Definition K_Resources := Eval cbv in bs "Resources".
Definition K_XObject := Eval cbv in bs "XObject".
Definition K_ExtGState := Eval cbv in bs "ExtGState".

(* ------------------------------------------------------------------------------------------ *)
(* third-party code (flate2, weezl): see Model/StreamFilt.v; carried as a record so that [step]
   has one extra argument *)
Record oracles := {
  o_inflate : bytes -> bytes;
  o_lzw : bool -> bytes -> bytes;
  o_deflate : bytes -> bytes;
}.

(* ------------------------------------------------------------------------------------------ *)
Inductive op :=
| NewObjectId
| AddObject (o : obj)
| SetObject (id : oid) (o : obj)
| DeleteObject (id : oid)
| RemoveAnnot (id : oid)            (* Document::remove_object *)
| PruneObjects
| DeletePages (nums : list N)
| RenumberObjects
| Compress
| Decompress
| ChangeContentStream (id : oid) (c : bytes)
| ChangePageContent (page : oid) (c : bytes)
| AddPageContents (page : oid) (c : bytes)
| AddToPageContent (page : oid) (ops : list operation)
| GetOrCreateResources (page : oid)
| AddXObject (page : oid) (name : bytes) (x : oid)
| AddGraphicsState (page : oid) (name : bytes) (g : oid)
| GetPageContent (page : oid)       (* observation only: Document::get_page_content *)
| Save (stream : bool).             (* Document::save_to with reference_table.cross_reference_type = Table / Stream:
                                       only its effect on the Document is modelled (max_id, trailer); bytes are C01's *)

Inductive out :=
| OUnit
| OId (id : oid)
| OObj (o : option obj)
| OIds (l : list oid)
| OOk
| OErr
| OPanic
| OOkObj (o : obj)                  (* Ok(&mut Object): the object the reference points at *)
| OBytes (r : option bytes)         (* Result<Vec<u8>> *)
| OHang                             (* the Rust loop does not terminate (cyclic Parent chain) *)
| OFuel                             (* the model ran out of fuel: excluded by the theorems *)
| ONum (n : N)                      (* add_bookmark: the bookmark id *)
| ORoot (r : option oid).           (* build_outline: Option<ObjectId> *)

Definition with_max (d : doc) (mx : N) : doc :=
  {| d_version := d_version d; d_binary_mark := d_binary_mark d; d_trailer := d_trailer d;
     d_objects := d_objects d; d_max_id := mx |}.
Definition with_objs (d : doc) (m : objmap) : doc :=
  {| d_version := d_version d; d_binary_mark := d_binary_mark d; d_trailer := d_trailer d;
     d_objects := m; d_max_id := d_max_id d |}.
Definition with_graph (d : doc) (tr : dict) (m : objmap) : doc :=
  {| d_version := d_version d; d_binary_mark := d_binary_mark d; d_trailer := tr;
     d_objects := m; d_max_id := d_max_id d |}.

(* ---------------- creator.rs: new_object_id / add_object / set_object ---------------- *)
Definition new_object_id (d : doc) : option (doc * oid) :=
  if (d_max_id d <? U32_MAX)%N then
    let mx := (d_max_id d + 1)%N in Some (with_max d mx, (mx, 0%N))
  else None.                                                    (* attempt to add with overflow *)

Definition add_object (d : doc) (o : obj) : option (doc * oid) :=
  match new_object_id d with
  | Some (d1, id) => Some (with_objs d1 (insert (d_objects d1) id o), id)
  | None => None
  end.

Definition set_object (d : doc) (id : oid) (o : obj) : doc := with_objs d (insert (d_objects d) id o).

(* ---------------- traversal with a shape-changing action ---------------- *)
Definition collect (o : obj) (refs : list oid) : list oid := snd (trav_obj (fun x => x) o refs).
Definition collect_dict (d : dict) (refs : list oid) : list oid := snd (trav_dict (fun x => x) d refs).

Fixpoint act_loop (act : obj -> obj) (fuel : nat) (m : objmap) (refs : list oid) (index : nat)
  : option (objmap * list oid) :=
  match fuel with
  | O => None
  | S k =>
    match nth_error refs index with
    | None => Some (m, refs)
    | Some id =>
      match lookup m id with
      | Some o => let o' := act o in act_loop act k (update m id o') (collect o' refs) (S index)
      | None => act_loop act k m refs (S index)
      end
    end
  end.

(* [act_tr]: what happens to the trailer (traverse_dictionary applies the action to its VALUES only;
   delete_object strips the trailer's own entries itself before traversing) *)
Definition act_traverse (act : obj -> obj) (act_tr : dict -> dict) (fuel : nat) (tr : dict) (m : objmap)
  : option (dict * objmap * list oid) :=
  let tr' := act_tr tr in
  match act_loop act fuel m (collect_dict tr' []) 0 with
  | Some (m', refs) => Some (tr', m', refs)
  | None => None
  end.

(* ---------------- processor.rs: delete_object ---------------- *)
Definition is_ref_to (id : oid) (o : obj) : bool :=
  match o with ORef i g => oid_eqb (i, g) id | _ => false end.

(* let keys = dict.iter().filter(value is Reference(id)).map(key).collect(); for key in keys { dict.remove(&key) }
   Dictionary::remove is IndexMap::swap_remove *)
Definition ref_keys (id : oid) (d : dict) : list bytes :=
  map fst (filter (fun kv => is_ref_to id (snd kv)) d).
Definition remove_keys (ks : list bytes) (d : dict) : dict := fold_left dict_swap_remove ks d.
Definition remove_ref_entries (id : oid) (d : dict) : dict := remove_keys (ref_keys id d) d.

(* the action of delete_object applied at every level of one object:
     Array      => array.retain(|item| item is not Reference(id))
     Dictionary => remove every entry whose value is Reference(id)
     Stream     => the same on the stream dictionary
     Reference(id) itself => Null   (only an indirect object can still be one when the traversal
                                     gets to it: nested ones were removed by the level above)
   The keys to remove are read off the dictionary BEFORE its values are rewritten, as in the code. *)
Fixpoint strip (id : oid) (o : obj) : obj :=
  match o with
  | OArr l =>
    OArr ((fix go (l : list obj) : list obj :=
             match l with
             | [] => []
             | x :: l0 => if is_ref_to id x then go l0 else strip id x :: go l0
             end) l)
  | ODict d =>
    ODict (remove_keys (ref_keys id d)
             ((fix go (d : list (bytes * obj)) : list (bytes * obj) :=
                 match d with [] => [] | (k, v) :: d0 => (k, strip id v) :: go d0 end) d))
  | OStream d c =>
    OStream (remove_keys (ref_keys id d)
               ((fix go (d : list (bytes * obj)) : list (bytes * obj) :=
                   match d with [] => [] | (k, v) :: d0 => (k, strip id v) :: go d0 end) d)) c
  | ORef i g => if oid_eqb (i, g) id then ONull else o
  | _ => o
  end.

Definition strip_values (id : oid) (d : dict) : dict := map (fun kv => (fst kv, strip id (snd kv))) d.
Definition strip_trailer (id : oid) (tr : dict) : dict := remove_keys (ref_keys id tr) (strip_values id tr).

Definition delete_object (d : doc) (id : oid) : option (doc * option obj) :=
  let tr := d_trailer d in
  let m := d_objects d in
  (* fuel: the number of reference occurrences left after the action, + 1 *)
  let fuel := trav_fuel (strip_trailer id tr) (map (fun io => (fst io, strip id (snd io))) m) in
  match act_traverse (strip id) (strip_trailer id) fuel tr m with
  | Some (tr', m', _) => Some (with_graph d tr' (remove m' id), lookup m' id)
  | None => None
  end.

(* ---------------- processor.rs: prune_objects ---------------- *)
Definition prune_objects (d : doc) : option (doc * list oid) :=
  let tr := d_trailer d in
  let m := d_objects d in
  match traverse_objects (fun x => x) (trav_fuel tr m) tr m with
  | Some (tr', m', refs) =>
    let ids := filter (fun id => negb (mem_oid id refs)) (map fst m') in
    Some (with_graph d tr' (fold_left remove ids m'), ids)
  | None => None
  end.

(* ---------------- creator.rs: remove_object (removes an annotation from every page) ---------------- *)
(* Document::get_object_mut: the id of the object the returned &mut points at *)
Definition get_object_mut_id (m : objmap) (id : oid) : option oid :=
  match lookup m id with
  | None => None
  | Some o =>
    match dereference m o with
    | Some (Some r, _) => Some r
    | Some (None, _) => Some id
    | None => None
    end
  end.

(* for (_, page_id) in self.get_pages() { page = get_object_mut(page_id)?.as_dict_mut()?;
     annots = page.get_mut("Annots")?.as_array_mut()?; annots.retain(not Reference(object_id)) }
   the page list is computed once, before the loop; an error returns at once and keeps what
   earlier iterations did *)
Fixpoint remove_annot_loop (target : oid) (pages : list oid) (m : objmap) : objmap * bool :=
  match pages with
  | [] => (m, true)
  | p :: ps =>
    match get_object_mut_id m p with
    | None => (m, false)
    | Some t =>
      match lookup m t with
      | Some (ODict pd) =>
        match dict_get pd K_Annots with
        | Some (OArr l) =>
          let l' := filter (fun x => negb (is_ref_to target x)) l in
          remove_annot_loop target ps (update m t (ODict (dict_set pd K_Annots (OArr l'))))
        | _ => (m, false)
        end
      | _ => (m, false)
      end
    end
  end.

Definition remove_annot (d : doc) (target : oid) : doc * bool :=
  let '(m, ok) := remove_annot_loop target (map snd (get_pages d)) (d_objects d) in
  (with_objs d m, ok).

(* ---------------- processor.rs: delete_pages ---------------- *)
Definition as_ref (o : option obj) : option oid :=
  match o with Some (ORef i g) => Some (i, g) | _ => None end.

Inductive loop_res := LOk | LPanic | LHang | LFuel.

(* let count = objects.get(&id).as_dict().get("Count").and_then(|c| self.dereference(c)).as_i64()   -- Count may be an indirect
                                                                     object (fix: commit for C11-count-indirect) *)
Definition read_count (m : objmap) (pt : dict) : option Z :=
  match dict_get pt K_Count with
  | Some c => match dereference m c with Some (_, OInt n) => Some n | _ => None end
  | None => None
  end.

(* while let Ok(id) = page_tree_ref {
     let count = ..;
     if let Some(pt) = objects.get_mut(&id).and_then(as_dict_mut) {
        if let Some(count) = count { pt.set("Count", count - 1) }                      -- checked i64 subtraction
        page_tree_ref = pt.get("Parent").as_reference() } else { break } }
   A chain without a cycle visits at most |objects| nodes; running out of [fuel] = |objects| + 1 means the
   Parent chain is cyclic and the Rust loop keeps going (until a Count underflows, 2^63 rounds later). *)
Fixpoint count_loop (fuel : nat) (m : objmap) (r : option oid) : objmap * loop_res :=
  match r with
  | None => (m, LOk)
  | Some id =>
    match fuel with
    | O => (m, LHang)
    | S k =>
      match lookup m id with
      | Some (ODict pt) =>
        match read_count m pt with
        | Some c =>
          if (c =? I64_MIN)%Z then (m, LPanic)                     (* attempt to subtract with overflow *)
          else let pt' := dict_set pt K_Count (OInt (c - 1)) in
               count_loop k (update m id (ODict pt')) (as_ref (dict_get pt' K_Parent))
        | None => count_loop k m (as_ref (dict_get pt K_Parent))
        end
      | _ => (m, LOk)
      end
    end
  end.

Fixpoint assoc_N {A} (l : list (N * A)) (n : N) : option A :=
  match l with [] => None | (k, v) :: l' => if (k =? n)%N then Some v else assoc_N l' n end.

(* let pages = self.get_pages();  for n in page_numbers { if let Some(page) = pages.get(n).and_then(delete_object) {..} } *)
Fixpoint delete_pages_loop (pages : list (N * oid)) (nums : list N) (d : doc) : doc * loop_res :=
  match nums with
  | [] => (d, LOk)
  | n :: ns =>
    match assoc_N pages n with
    | None => delete_pages_loop pages ns d
    | Some pid =>
      match delete_object d pid with
      | None => (d, LFuel)
      | Some (d1, None) => delete_pages_loop pages ns d1
      | Some (d1, Some page) =>
        (* self.dereference(&page).and_then(as_dict): the page object may be a reference to the page dictionary
           (fix: commit for C11-page-reference-object) *)
        let r := match dereference (d_objects d1) page with
                 | Some (_, ODict pd) => as_ref (dict_get pd K_Parent)
                 | _ => None
                 end in
        let '(m2, lr) := count_loop (S (length (d_objects d1))) (d_objects d1) r in
        match lr with
        | LOk => delete_pages_loop pages ns (with_objs d1 m2)
        | _ => (with_objs d1 m2, lr)
        end
      end
    end
  end.

Definition delete_pages (d : doc) (nums : list N) : doc * loop_res := delete_pages_loop (get_pages d) nums d.

(* ---------------- document.rs: get_page_contents / get_page_content ---------------- *)
Definition ref_ids (l : list obj) : list oid :=
  flat_map (fun x => match x with ORef i g => [(i, g)] | _ => [] end) l.

(* loop { match contents { Reference(id) => match objects.get(id) { None | Some(Stream) => push id,
            Some(o) => { nb_deref += 1; if nb_deref < DEREF_LIMIT { contents = o; continue } } },
          Array(arr) => push every reference in arr, _ => {} } break } *)
Fixpoint contents_walk (fuel : nat) (m : objmap) (c : obj) (nb : N) : list oid :=
  match c with
  | ORef i g =>
    match lookup m (i, g) with
    | None => [(i, g)]
    | Some (OStream _ _) => [(i, g)]
    | Some o =>
      if (nb + 1 <? DEREF_LIMIT)%N then
        match fuel with S k => contents_walk k m o (nb + 1) | O => [] end
      else []
    end
  | OArr l => ref_ids l
  | _ => []
  end.

Definition get_page_contents (m : objmap) (page : oid) : list oid :=
  match get_dictionary m page with
  | Some pd => match dict_get pd K_Contents with
               | Some c => contents_walk (N.to_nat DEREF_LIMIT) m c 0
               | None => []
               end
  | None => []
  end.

(* for id in content_streams { if let Ok(stream) = get_object(id).as_stream() {
       match stream.decompressed_content() { Ok(data) => append data, Err(_) => append stream.content } } }
   None = a panic inside the filter code *)
Fixpoint page_content_of (O : oracles) (m : objmap) (ids : list oid) : option bytes :=
  match ids with
  | [] => Some []
  | id :: ids' =>
    match get_object m id with
    | Some (OStream sd c) =>
      match decompressed_content (o_inflate O) (o_lzw O) {| s_dict := sd; s_content := c |} with
      | Ok data => option_map (app data) (page_content_of O m ids')
      | Err _ => option_map (app c) (page_content_of O m ids')
      | _ => None
      end
    | _ => page_content_of O m ids'
    end
  end.

Definition get_page_content (O : oracles) (m : objmap) (page : oid) : option bytes :=
  page_content_of O m (get_page_contents m page).

(* ---------------- processor.rs: change_content_stream / change_page_content ---------------- *)
Definition stream_obj (s : stream) : obj := OStream (s_dict s) (s_content s).

(* if let Some(Object::Stream(stream)) = self.objects.get_mut(&id) { set_plain_content; let _ = compress() } *)
Definition change_content_stream (O : oracles) (d : doc) (id : oid) (content : bytes) : doc :=
  match lookup (d_objects d) id with
  | Some (OStream sd c) =>
    let s := compress (o_deflate O) (set_plain_content {| s_dict := sd; s_content := c |} content) in
    with_objs d (update (d_objects d) id (stream_obj s))
  | _ => d
  end.

(* Stream::new(Dictionary::new(), content) *)
Definition new_stream (content : bytes) : obj := OStream [(K_Length, len_obj content)] content.

(* the page dictionary reached through get_object_mut(page_id), with one entry set *)
Definition set_page_entry (m : objmap) (page : oid) (k : bytes) (v : obj) : option objmap :=
  match get_object_mut_id m page with
  | Some t => match lookup m t with
              | Some (ODict td) => Some (update m t (ODict (dict_set td k v)))
              | _ => None
              end
  | None => None
  end.

(* let stream_id = |object| match self.dereference(object) { Ok((Some(id), Object::Stream(_))) => Some(id), _ => None } *)
Definition stream_id_of (m : objmap) (o : obj) : option oid :=
  match dereference m o with
  | Some (Some id, OStream _ _) => Some id
  | _ => None
  end.

(* the stream a page shows when it shows exactly one (fix: commit for C11-content-indirect): Contents, or the only item of the
   array it is, may sit behind references
     match self.dereference(contents) { Ok((_, Array(arr))) => if arr.len() == 1 { stream_id(&arr[0]) } else { None },
                                         _ => stream_id(contents) } *)
Definition single_stream (m : objmap) (contents : obj) : option oid :=
  match dereference m contents with
  | Some (_, OArr l) => match l with [x] => stream_id_of m x | _ => None end
  | _ => stream_id_of m contents
  end.

(* let new_stream = self.add_object(Stream::new(dictionary! {}, content));
   if let Ok(Object::Dictionary(dict)) = self.get_object_mut(page_id) { dict.set("Contents", new_stream) } *)
Definition replace_page_content (d : doc) (page : oid) (content : bytes) : doc * out :=
  match add_object d (new_stream content) with
  | None => (d, OPanic)
  | Some (d1, nid) =>
    match set_page_entry (d_objects d1) page K_Contents (ORef (fst nid) (snd nid)) with
    | Some m2 => (with_objs d1 m2, OOk)
    | None => (d1, OOk)
    end
  end.

(* Document::is_content_stream_of_another_page (fix: commit for C11-content-shared):
     let leads_to_stream = |object| matches!(self.dereference(object), Ok((Some(id), _)) if id == stream_id);
     self.page_iter().filter(|id| *id != page_id).any(|id|
       match self.get_dictionary(id).and_then(|page| page.get("Contents")) {
         Ok(contents) => match self.dereference(contents) { Ok((_, Array(arr))) => arr.iter().any(leads_to_stream),
                                                            Ok((id, _)) => id == Some(stream_id), Err(_) => false },
         Err(_) => false }) *)
Definition leads_to_stream (m : objmap) (sid : oid) (o : obj) : bool :=
  match dereference m o with
  | Some (Some id, _) => oid_eqb id sid
  | _ => false
  end.

Definition page_shows_stream (m : objmap) (sid : oid) (p : oid) : bool :=
  match get_dictionary m p with
  | Some pd =>
    match dict_get pd K_Contents with
    | Some c =>
      match dereference m c with
      | Some (_, OArr l) => existsb (leads_to_stream m sid) l
      | Some (Some id, _) => oid_eqb id sid
      | _ => false
      end
    | None => false
    end
  | None => false
  end.

Definition is_content_stream_of_another_page (d : doc) (sid : oid) (page : oid) : bool :=
  existsb (fun p => negb (oid_eqb p page) && page_shows_stream (d_objects d) sid p) (page_iter d).

(* match single_stream { Some(id) if !self.is_content_stream_of_another_page(id, page_id) => change_content_stream(id, content),
                         _ => { new stream; Contents = its reference } } *)
Definition change_page_content (O : oracles) (d : doc) (page : oid) (content : bytes) : doc * out :=
  match get_dictionary (d_objects d) page with
  | None => (d, OErr)
  | Some pd =>
    match dict_get pd K_Contents with
    | None => (d, OErr)
    | Some c =>
      match single_stream (d_objects d) c with
      | Some id =>
        if is_content_stream_of_another_page d id page then replace_page_content d page content
        else (change_content_stream O d id content, OOk)
      | None => replace_page_content d page content
      end
    end
  end.

(* ---------------- document.rs: add_page_contents; parser_aux.rs: add_to_page_content ---------------- *)
(* what Contents leads to (fix: commit for C11-content-indirect):
     match page.get("Contents") { Ok(contents) => match self.dereference(contents) {
         Ok((_, Array(arr))) => arr.clone(), Ok((_, Stream(_))) => vec![contents.clone()], _ => vec![] }, _ => vec![] } *)
Definition current_content_list (m : objmap) (pd : dict) : list obj :=
  match dict_get pd K_Contents with
  | Some c =>
    match dereference m c with
    | Some (_, OArr l) => l
    | Some (_, OStream _ _) => [c]
    | _ => []
    end
  | None => []
  end.

Definition add_page_contents (d : doc) (page : oid) (content : bytes) : doc * out :=
  match get_dictionary (d_objects d) page with
  | None => (d, OErr)
  | Some pd =>
    let cur := current_content_list (d_objects d) pd in
    match add_object d (new_stream content) with
    | None => (d, OPanic)
    | Some (d1, nid) =>
      match set_page_entry (d_objects d1) page K_Contents (OArr (cur ++ [ORef (fst nid) (snd nid)])) with
      | Some m2 => (with_objs d1 m2, OOk)
      | None => (d1, OErr)
      end
    end
  end.

Definition add_to_page_content (d : doc) (page : oid) (ops : list operation) : doc * out :=
  add_page_contents d page (encode_content ops).

(* ---------------- creator.rs: get_or_create_resources / add_xobject / add_graphics_state ---------------- *)
(* where the returned &mut Object points: a whole object, or the Resources entry of a dictionary object *)
Inductive res_loc := RLObj (t : oid) | RLEntry (t : oid).

Definition loc_get (m : objmap) (l : res_loc) : option obj :=
  match l with
  | RLObj t => lookup m t
  | RLEntry t => match lookup m t with Some (ODict td) => dict_get td K_Resources | _ => None end
  end.

Definition loc_set (m : objmap) (l : res_loc) (o : obj) : objmap :=
  match l with
  | RLObj t => update m t o
  | RLEntry t => match lookup m t with
                 | Some (ODict td) => update m t (ODict (dict_set td K_Resources o))
                 | _ => m
                 end
  end.

(* Document::inherited_resources (fix: commit for C11-resources-shadow): the Resources dictionary of the nearest
   ancestor that has the entry.
     for _ in 0..self.objects.len() { parent_id = node.get("Parent").as_reference().ok()?;
        node = self.get_dictionary(parent_id).ok()?;
        if let Ok(r) = node.get("Resources") { return self.dereference(r).ok()?.1.as_dict().ok().cloned() } }  None *)
Fixpoint inherited_loop (fuel : nat) (m : objmap) (node : dict) : option dict :=
  match fuel with
  | O => None
  | S k =>
    match as_ref (dict_get node K_Parent) with
    | None => None
    | Some pid =>
      match get_dictionary m pid with
      | None => None
      | Some pn =>
        match dict_get pn K_Resources with
        | Some r => match dereference m r with Some (_, ODict rd) => Some rd | _ => None end
        | None => inherited_loop k m pn
        end
      end
    end
  end.
Definition inherited_resources (m : objmap) (node : dict) : option dict := inherited_loop (length m) m node.

(* the dictionary a page without a Resources entry gets: a copy of the inherited one (inherited.unwrap_or_default()) *)
Definition initial_resources (m : objmap) (node : dict) : dict :=
  match inherited_resources m node with Some rd => rd | None => [] end.

Definition get_or_create_resources (d : doc) (page : oid) : doc * option res_loc :=
  let m := d_objects d in
  match get_object m page with
  | Some (ODict pd) =>
    match (if dict_has pd K_Resources then as_ref (dict_get pd K_Resources) else None) with
    | Some rid => (d, option_map RLObj (get_object_mut_id m rid))
    | None =>
      match get_object_mut_id m page with
      | Some t =>
        match lookup m t with
        | Some (ODict td) =>
          let td' := if dict_has td K_Resources then td
                     else dict_set td K_Resources (ODict (initial_resources m pd)) in
          (with_objs d (update m t (ODict td')), Some (RLEntry t))
        | _ => (d, None)
        end
      | None => (d, None)
      end
    end
  | _ => (d, None)
  end.

(* if let Ok(resources) = gocr(page).and_then(as_dict_mut) {
     if !resources.has(key) { resources.set(key, {}) }
     let mut x = resources.get_mut(key)?;
     [add_xobject only] if let Reference(r) = x { while let Reference(id) = self.get_object(r)? {..}   -- never iterates:
                                                   x = self.get_object_mut(r)? }                      -- get_object dereferences
     x.as_dict_mut()?.set(name, Reference(id)) }
   Ok(()) *)
Definition add_resource (follow : bool) (key : bytes) (d : doc) (page : oid) (nm : bytes) (x : oid) : doc * out :=
  let '(d1, loc) := get_or_create_resources d page in
  match loc with
  | None => (d1, OOk)
  | Some loc =>
    let m1 := d_objects d1 in
    match loc_get m1 loc with
    | Some (ODict rd) =>
      let rd1 := if dict_has rd key then rd else dict_set rd key (ODict []) in
      let m2 := loc_set m1 loc (ODict rd1) in
      let d2 := with_objs d1 m2 in
      let entry := ORef (fst x) (snd x) in
      match dict_get rd1 key with
      | Some (ODict xd) => (with_objs d1 (loc_set m2 loc (ODict (dict_set rd1 key (ODict (dict_set xd nm entry))))), OOk)
      | Some (ORef i g) =>
        if follow then
          match get_object m2 (i, g), get_object_mut_id m2 (i, g) with
          | Some _, Some t =>
            match lookup m2 t with
            | Some (ODict xd) => (with_objs d1 (update m2 t (ODict (dict_set xd nm entry))), OOk)
            | _ => (d2, OErr)
            end
          | _, _ => (d2, OErr)
          end
        else (d2, OErr)
      | _ => (d2, OErr)
      end
    | _ => (d1, OOk)
    end
  end.

Definition add_xobject := add_resource true K_XObject.
Definition add_graphics_state := add_resource false K_ExtGState.

(* ---------------- processor.rs: compress / decompress ---------------- *)
(* every stream built by the harness allows compression *)
Definition compress_all (O : oracles) (d : doc) : doc := with_objs d (doc_compress (o_deflate O) [] (d_objects d)).

(* for object in objects.values_mut() { if Stream { let _ = stream.decompress() } }: a panic inside one
   stream leaves the streams before it decompressed *)
Fixpoint decompress_objs (O : oracles) (m : objmap) : objmap * bool :=
  match m with
  | [] => ([], true)
  | io :: m' =>
    match snd io with
    | OStream sd c =>
      match StreamFilt.decompress (o_inflate O) (o_lzw O) {| s_dict := sd; s_content := c |} with
      | Ok s => let '(r, ok) := decompress_objs O m' in ((fst io, stream_obj s) :: r, ok)
      | Err _ => let '(r, ok) := decompress_objs O m' in (io :: r, ok)
      | _ => (io :: m', false)
      end
    | _ => let '(r, ok) := decompress_objs O m' in (io :: r, ok)
    end
  end.

(* ---------------- processor.rs: renumber_objects (Model/Renumber.v; the harness document has no bookmarks) ---------------- *)
Definition renumber (d : doc) : doc * out :=
  match renumber_objects {| base := d; max_bookmark_id := 0; bookmarks := []; bm_table := [] |} with
  | Done rd => (base rd, OUnit)
  | Renumber.Panic => (d, OPanic)       (* needs an object number above u32::MAX: impossible when numbering from 1 *)
  | StackOverflow => (d, OPanic)
  | OutOfFuel => (d, OFuel)
  end.

(* ---------------- writer.rs: what save_internal does to the Document (Model/SaveState.v, C19) ---------------- *)
(*   let mut xref = Xref::new(self.max_id + 1, ..)                  -- checked u32 addition
     writeln!("%PDF-.."); write_binary_mark(..)?                    -- Err(InvalidData) unless every byte is >= 128
     for (id, object) in &self.objects { unless type_name is ObjStm / XRef / Linearized: write, xref.insert(id.0, ..) }
     Table : write_xref; write_trailer            -> trailer.set("Size", max_id + 1)
     Stream: write_cross_reference_stream         -> max_id += 1; trailer.set(Type, Size, W, Index, -Filter, Length)
   save_internal begins by raising max_id to the largest object number (/repo 19ab1a6), before anything can fail.
   A Vec<u8> sink never fails.  In the Stream case `self.max_id + 1` (for Size) is a second checked addition AFTER
   `self.max_id += 1` and `trailer.set("Type", XRef)`: at max_id = u32::MAX - 1 it panics with both already done. *)
Definition K_ObjStm := Eval cbv in bs "ObjStm".
Definition save_skipped (o : obj) : bool :=
  match (match o with ODict d => get_type d | OStream d _ => get_type d | _ => None end) with
  | Some n => bytes_eqb n K_ObjStm || bytes_eqb n SaveState.K_XRef || bytes_eqb n K_Linearized
  | None => false
  end.
Definition written_numbers (m : objmap) : list N :=
  map (fun io => fst (fst io)) (filter (fun io => negb (save_skipped (snd io))) m).
Definition with_state (d : doc) (st : SaveState.sstate) : doc :=
  {| d_version := d_version d; d_binary_mark := d_binary_mark d; d_trailer := SaveState.s_trailer st;
     d_objects := d_objects d; d_max_id := SaveState.s_max_id st |}.
Definition state_of (d : doc) : SaveState.sstate :=
  {| SaveState.s_max_id := d_max_id d; SaveState.s_trailer := d_trailer d |}.

(* self.max_id = self.objects.keys().next_back().map_or(self.max_id, |id| self.max_id.max(id.0))   (/repo 19ab1a6):
   the largest key of the BTreeMap carries the largest object number *)
Definition top_number (m : objmap) : N := fold_right N.max 0%N (map (fun io => fst (fst io)) m).
Definition raise_max (d : doc) : doc := with_max d (N.max (d_max_id d) (top_number (d_objects d))).

Definition save_effect (stream : bool) (d : doc) : doc * out :=
  let d := raise_max d in
  if (U32_MAX <=? d_max_id d)%N then (d, OPanic)
  else if negb (forallb (fun b => (128 <=? N_of_byte b)%N) (d_binary_mark d)) then (d, OErr)
  else if stream then
    if (U32_MAX <=? d_max_id d + 1)%N then
      (with_state d {| SaveState.s_max_id := (d_max_id d + 1)%N;
                       SaveState.s_trailer := dict_set (d_trailer d) K_Type (OName SaveState.K_XRef) |}, OPanic)
    else (with_state d (SaveState.mutate SaveState.XStream (written_numbers (d_objects d)) (state_of d)), OOk)
  else (with_state d (SaveState.mutate SaveState.XTable [] (state_of d)), OOk).

(* ------------------------------------------------------------------------------------------ *)
Definition step (O : oracles) (d : doc) (o : op) : doc * out :=
  match o with
  | NewObjectId =>
    match new_object_id d with Some (d', id) => (d', OId id) | None => (d, OPanic) end
  | AddObject x =>
    match add_object d x with Some (d', id) => (d', OId id) | None => (d, OPanic) end
  | SetObject id x => (set_object d id x, OUnit)
  | DeleteObject id =>
    match delete_object d id with Some (d', r) => (d', OObj r) | None => (d, OFuel) end
  | RemoveAnnot id =>
    let '(d', ok) := remove_annot d id in (d', if ok then OOk else OErr)
  | PruneObjects =>
    match prune_objects d with Some (d', ids) => (d', OIds ids) | None => (d, OFuel) end
  | DeletePages nums =>
    let '(d', r) := delete_pages d nums in
    (d', match r with LOk => OUnit | LPanic => OPanic | LHang => OHang | LFuel => OFuel end)
  | RenumberObjects => renumber d
  | Compress => (compress_all O d, OUnit)
  | Decompress =>
    let '(m, ok) := decompress_objs O (d_objects d) in (with_objs d m, if ok then OUnit else OPanic)
  | ChangeContentStream id c => (change_content_stream O d id c, OUnit)
  | ChangePageContent page c => change_page_content O d page c
  | AddPageContents page c => add_page_contents d page c
  | AddToPageContent page ops => add_to_page_content d page ops
  | GetOrCreateResources page =>
    let '(d', loc) := get_or_create_resources d page in
    (d', match loc with
         | Some l => match loc_get (d_objects d') l with Some o => OOkObj o | None => OErr end
         | None => OErr
         end)
  | AddXObject page nm x => add_xobject d page nm x
  | AddGraphicsState page nm g => add_graphics_state d page nm g
  | GetPageContent page =>
    (d, match get_page_content O (d_objects d) page with Some b => OBytes (Some b) | None => OPanic end)
  | Save stream => save_effect stream d
  end.

(* the state after a program, and the trace of outputs *)
Definition run_ops (O : oracles) (d : doc) (ops : list op) : doc :=
  fold_left (fun d o => fst (step O d o)) ops d.

(* ------------------------------------------------------------------------------------------ *)
(* The whole Document: the object graph above plus the bookmark fields (max_bookmark_id, bookmarks,
   bookmark_table).  [state] is Model/Outline.v's record (C17); add_bookmark and build_outline are its
   functions, used as they are.  Every operation of [op] acts on the base document and leaves the bookmark
   fields alone, except renumber_objects, which renames the target page of every table entry
   (renumber_bookmarks_with: Model/Renumber.v, C10 -- its table keeps only children and page, so the result
   is read back entry by entry). *)
Definition state := Outline.bdoc.

Inductive sop :=
| SDoc (o : op)
| SAddBookmark (title : Outline.ustring) (format : N) (color : bytes * bytes * bytes) (page : oid) (parent : option N)
                                    (* add_bookmark(Bookmark::new(title, color, format, page), parent) *)
| SBuildOutline.                    (* build_outline *)

Definition rtable (t : Outline.btable) : bmtable :=
  map (fun kb => (fst kb, {| bm_children := Outline.bm_children (snd kb); bm_page := Outline.bm_page (snd kb) |})) t.
Definition rdoc_of_state (s : state) : rdoc :=
  {| base := Outline.base s; max_bookmark_id := Outline.max_bookmark_id s; bookmarks := Outline.bookmarks s;
     bm_table := rtable (Outline.bookmark_table s) |}.
Definition pages_back (t : Outline.btable) (rt : bmtable) : Outline.btable :=
  map (fun kb => (fst kb, match bm_get rt (fst kb) with
                          | Some rb => Outline.set_page (snd kb) (bm_page rb)
                          | None => snd kb
                          end)) t.

Definition renumber_state (s : state) : state * out :=
  match renumber_objects (rdoc_of_state s) with
  | Done rd => ({| Outline.base := base rd; Outline.max_bookmark_id := Outline.max_bookmark_id s;
                   Outline.bookmarks := Outline.bookmarks s;
                   Outline.bookmark_table := pages_back (Outline.bookmark_table s) (bm_table rd) |}, OUnit)
  | Renumber.Panic => (s, OPanic)
  | StackOverflow => (s, OPanic)
  | OutOfFuel => (s, OFuel)
  end.

Definition sstep (O : oracles) (s : state) (o : sop) : state * out :=
  match o with
  | SDoc RenumberObjects => renumber_state s
  | SDoc x => let '(d', r) := step O (Outline.base s) x in (Outline.with_base s d', r)
  | SAddBookmark title format color page parent =>
    let '(s', id) := Outline.add_bookmark s (Outline.new_bookmark title color format page) parent in (s', ONum id)
  | SBuildOutline =>
    (* the Rust recursion has no fuel; default_fuel = |table| + 1 exceeds the depth of every table add_bookmark builds *)
    match Outline.build_outline (Outline.default_fuel s) s with
    | Outline.OOk (r, s') => (s', ORoot r)
    | Outline.OPanic => (s, OPanic)        (* before self.objects / self.max_id are written *)
    | Outline.OFuel => (s, OFuel)
    end
  end.

Definition srun_ops (O : oracles) (s : state) (ops : list sop) : state :=
  fold_left (fun s o => fst (sstep O s o)) ops s.
