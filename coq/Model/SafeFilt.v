(* SafeFilt.v -- C04 layer over the stream filters: Stream::decode_ascii85 and the PNG predictor
   (Stream::decompress_predictor of src/object.rs, png::decode_frame / decode_row of src/filters/png.rs,
   after the repairs 686bd3f checked geometry and 22cc8e0 row buffers bounded by the data).
   The value computed is the LENGTH of the decoded data (what the decoded bytes are is C09's business:
   Model/A85.v, Model/Png.v); the panic sites, the allocation requests and the loop steps are explicit.
   Position counters that are bounded by the length of a slice (`pos += 1` while `pos < len`) cannot
   overflow a usize because a Rust slice is at most isize::MAX bytes long; they are not sites.
   Flate and LZW are third-party (flate2, weezl): total oracles, outside this model.
   Definitions only. *)
From LV Require Import Base.Bytes Gen.Filters Model.A85 Model.Png Model.Safe.
Local Open Scope N_scope.

Definition blen (l : bytes) : N := N.of_nat (length l).

(* ---------------- ASCII85 ---------------- *)

(* (ch - b'!') : u8 subtraction *)
Definition u8_sub (a b : byte) : M N := ck_sub (N_of_byte a) (N_of_byte b).

(* if input.len() >= 2 && &input[input.len() - 2..] == b"~>" { &input[..input.len() - 2] } else { input } *)
Definition sa85_strip (input : bytes) : M bytes :=
  if 2 <=? blen input then
    k <- ck_sub (blen input) 2 ;;
    tl <- slice_from input k ;;
    if bytes_eqb tl A85_EOD then slice_to input k else ret input
  else ret input.

(* after the loop: the partial group.  [outlen] = output.len() so far *)
Definition sa85_finish (buffer : N) (count : nat) (outlen : N) : M N :=
  match count with
  | O => ret outlen
  | _ =>
    tick (N.of_nat (A85_GROUP - count)) ;;;
    match pad buffer (A85_GROUP - count) with           (* checked_mul / checked_add: an Err, not a panic *)
    | None => fail
    | Some b =>
      k <- ck_sub (N.of_nat count) 1 ;;                 (* count - 1 *)
      pre <- slice_to (be_bytes b) k ;;                 (* &bytes[..count - 1] *)
      request (outlen + blen pre) ;;;
      ret (outlen + blen pre)
    end
  end.

Fixpoint sa85_loop (input : bytes) (buffer : N) (count : nat) (outlen : N) : M N :=
  match input with
  | [] => sa85_finish buffer count outlen
  | ch :: input' =>
    tick 1 ;;;
    if byte_eqb ch A85_Z then
      match count with
      | O => request (outlen + 4) ;;; sa85_loop input' buffer count (outlen + 4)
      | _ => fail
      end
    else if is_skipped ch then sa85_loop input' buffer count outlen
    else if negb (in_digit_range ch) then sa85_finish buffer count outlen
    else
      d <- u8_sub ch A85_LO ;;
      match accum buffer d with
      | None => fail
      | Some b =>
        if Nat.eqb (S count) A85_GROUP then request (outlen + 4) ;;; sa85_loop input' 0 O (outlen + 4)
        else sa85_loop input' b (S count) outlen
      end
  end.

Definition sa85 (input : bytes) : M N :=
  body <- sa85_strip input ;; sa85_loop body 0 O 0.

(* ---------------- PNG predictor ---------------- *)

(* decode_row: the index sites are previous[i] for every i < current.len() when the filter reads the row above
   (Up, Avg, Paeth), and current[i - bpp] for i >= bpp (bpp = bpp.min(len), so i - bpp never underflows) *)
Definition srow (t : ftype) (prev_len cur_len : N) : M unit :=
  if needs_prev t && (prev_len <? cur_len) then panic RIndex else tick cur_len.

(* the loop of decode_frame; [rest] = &content[pos..], [declen] = decoded.len() *)
Fixpoint sframe_go (fuel : nat) (bpr row_len : N) (rest : bytes) (declen : N) : M N :=
  match rest with
  | [] => ret declen
  | f :: rest' =>
    match fuel with
    | O => out_of_fuel
    | S fuel' =>
      tick 1 ;;;
      match ftype_of_N (N_of_byte f) with
      | None => fail                                             (* invalid PNG filter type *)
      | Some t =>
        if blen rest' <? row_len then fail                       (* read_exact: UnexpectedEof *)
        else
          srow t row_len row_len ;;;                             (* previous and current are both row_len long *)
          request (declen + row_len) ;;;                         (* decoded.write_all(current) *)
          sframe_go fuel' bpr row_len (skipn (N.to_nat bpr) rest') (declen + row_len)
      end
    end
  end.

Definition sdecode_frame (content : bytes) (bpp ppr : N) : M N :=
  match opt_mul USIZE_MAX bpp ppr with
  | None => fail                                                 (* checked_mul: InvalidInput *)
  | Some bpr =>
    let row_len := N.min bpr (blen content) in
    try_request row_len ;;; try_request row_len ;;;
    sframe_go (length content) bpr row_len content 0
  end.

(* decompress_predictor with the four parameters already looked up (unwrap_or defaults applied by the caller) *)
Definition spredictor (predictor columns colors bits : Z) (data : bytes) : M N :=
  if ((PRED_LO <=? predictor) && (predictor <=? PRED_HI))%Z then
    let ppr := as_usize (Z.max COLUMNS_MIN columns) in           (* max(1, ..) as usize *)
    let ncolors := as_usize (Z.max COLORS_MIN colors) in
    let nbits := as_usize (Z.max BITS_MIN bits) in
    match opt_mul USIZE_MAX ncolors nbits with
    | None => fail                                               (* checked_mul: InvalidInput *)
    | Some cb => sdecode_frame data (cb / 8) ppr
    end
  else ret (blen data).
