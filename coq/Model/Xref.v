(* Xref.v -- the cross-reference layer of lopdf, branch for branch:
     src/xref.rs          Xref, XrefEntry, XrefType, Xref::{new,get,insert,merge,clear,max_id}
     src/parser/mod.rs    xref (the cross-reference TABLE parser: "xref" eol, sub-sections, 20-byte entries),
                          trailer, and the first alternative of xref_and_trailer (table + trailer + Size)
     src/parser_aux.rs    decode_xref_stream, read_big_endian_integer, parse_integer_array
   Definitions only.

   Conventions (DESIGN 3): u32/u16/usize/i64 values are N / Z with the wrap or the overflow panic written
   out (the harness is built with overflow checks).  Stream::decompress (flate2, weezl, ASCII85, PNG
   predictor) is a Section variable of [decode_xref_stream]; Model/StreamFilt.v gives the instance.

   Not modelled: the allocation `vec![0u8; W[i] as usize]` for an absurd width (an allocation failure
   aborts the process; C04 territory).  The model answers what the code would answer with enough memory:
   an IO error, because the content is shorter than the field. *)
From LV Require Import Base.Bytes Base.Sx Model.Obj Model.Writer Model.Parser Gen.Lex.

Local Open Scope N_scope.

(* ------------------------------------------------------------------------------------------
   src/xref.rs
   ------------------------------------------------------------------------------------------ *)
Inductive xentry :=
| XFree
| XUnusableFree
| XNormal (offset generation : N)          (* u32, u16 *)
| XCompressed (container index : N).       (* u32, u16 *)

Inductive xtype := XTStream | XTTable.

(* BTreeMap<u32, XrefEntry>: association list sorted by key, keys unique *)
Definition xmap := list (N * xentry).

Fixpoint xget (m : xmap) (id : N) : option xentry :=
  match m with
  | [] => None
  | (k, e) :: m' => if k =? id then Some e else xget m' id
  end.

(* BTreeMap::insert: replaces an existing entry *)
Fixpoint xinsert (m : xmap) (id : N) (e : xentry) : xmap :=
  match m with
  | [] => [(id, e)]
  | (k, e') :: m' =>
    if k =? id then (k, e) :: m'
    else if id <? k then (id, e) :: (k, e') :: m'
    else (k, e') :: xinsert m' id e
  end.

(* entry(id).or_insert(entry): keeps an existing entry *)
Definition xinsert_new (m : xmap) (id : N) (e : xentry) : xmap :=
  match xget m id with Some _ => m | None => xinsert m id e end.

Record xref := { x_type : xtype; x_entries : xmap; x_size : N }.

Definition xref_new (size : N) (t : xtype) : xref := {| x_type := t; x_entries := []; x_size := size |}.
Definition xref_get (x : xref) (id : N) : option xentry := xget (x_entries x) id.
Definition xref_insert (x : xref) (id : N) (e : xentry) : xref :=
  {| x_type := x_type x; x_entries := xinsert (x_entries x) id e; x_size := x_size x |}.
(* Xref::merge(self, other): entries of [other] are added only where [self] has none *)
Definition xref_merge (x other : xref) : xref :=
  {| x_type := x_type x;
     x_entries := fold_left (fun m ke => xinsert_new m (fst ke) (snd ke)) (x_entries other) (x_entries x);
     x_size := x_size x |}.
Definition xref_clear (x : xref) : xref := {| x_type := x_type x; x_entries := []; x_size := x_size x |}.
(* keys().max(), 0 when empty *)
Definition xref_max_id (x : xref) : N := fold_left (fun a ke => N.max a (fst ke)) (x_entries x) 0.

Definition is_normal (e : xentry) : bool := match e with XNormal _ _ => true | _ => false end.
Definition is_compressed (e : xentry) : bool := match e with XCompressed _ _ => true | _ => false end.

(* ------------------------------------------------------------------------------------------
   src/parser/mod.rs : xref (table)
   ------------------------------------------------------------------------------------------ *)
Definition two32 : N := 4294967296.

(* xref_eol = alt(" \r", " \n", "\r\n") *)
Definition xref_eol (s : bytes) : pres unit :=
  match s with
  | x20 :: x0d :: r => POk tt r
  | x20 :: x0a :: r => POk tt r
  | x0d :: x0a :: r => POk tt r
  | _ => PErr
  end.

(* one_of("nf") mapped to k == 'n' *)
Definition entry_kind (s : bytes) : pres bool :=
  match s with
  | x6e :: r => POk true r
  | x66 :: r => POk false r
  | _ => PErr
  end.

(* xref_entry = pair(separated_pair(unsigned_int::<u32>, " ", unsigned_int::<u32>),
                     delimited(" ", one_of("nf") == 'n', xref_eol))
   (the first number has the type of XrefEntry::Normal.offset, u32) *)
Definition xref_entry (s : bytes) : pres (N * N * bool) :=
  pbind (unsigned_int u32_max s) (fun off r1 =>
  pbind (ptag [x20] r1) (fun _ r2 =>
  pbind (unsigned_int u32_max r2) (fun gen r3 =>
  pbind (ptag [x20] r3) (fun _ r4 =>
  pbind (entry_kind r4) (fun k r5 =>
  pbind (xref_eol r5) (fun _ r6 => POk (off, gen, k) r6)))))).

(* many0(xref_entry): stops at the first Error (no other outcome exists for xref_entry).  Each entry
   consumes input, so [fuel] = length of the input + 1 suffices; POut otherwise. *)
Fixpoint many0_entries (fuel : nat) (s : bytes) : pres (list (N * N * bool)) :=
  match fuel with
  | O => POut
  | S f =>
    match xref_entry s with
    | POk e r => pmap (cons e) (many0_entries f r)
    | PErr => POk [] s
    | PFail => PFail
    | PPanic => PPanic
    | POut => POut
    end
  end.

(* xref_section = pair(separated_pair(unsigned_int::<usize>, " ", unsigned_int::<u32>),
                       preceded(pair(opt(" "), eol), many0(xref_entry)))
   The count is parsed and then ignored. *)
Definition xref_section (fuel : nat) (s : bytes) : pres (N * list (N * N * bool)) :=
  pbind (unsigned_int usize_max s) (fun start r1 =>
  pbind (ptag [x20] r1) (fun _ r2 =>
  pbind (unsigned_int u32_max r2) (fun _count r3 =>
  let r4 := match r3 with x20 :: t => t | _ => r3 end in
  pbind (eol r4) (fun _ r5 =>
  pbind (many0_entries fuel r5) (fun es r6 => POk (start, es) r6))))).

(* the fold closure: for (index, ((offset, generation), is_normal)) in entries.enumerate():
     if is_normal and generation fits u16:
       xref.insert(start.wrapping_add(index) as u32, Normal{offset, generation})
   (usize wrapping addition, then truncation: the sum modulo 2^32; repaired by d85940f) *)
Fixpoint add_section (m : xmap) (start : N) (index : N) (es : list (N * N * bool)) : xmap :=
  match es with
  | [] => m
  | (off, gen, k) :: es' =>
    if k && (gen <=? u16_max)
    then add_section (xinsert m ((start + index) mod two32) (XNormal off gen)) start (index + 1) es'
    else add_section m start (index + 1) es'
  end.

(* fold_many1(xref_section, ...): at least one section; stops at the first Error *)
Fixpoint fold_sections (n : nat) (fuel : nat) (s : bytes) (m : xmap) : pres xmap :=
  match n with
  | O => POut
  | S n' =>
    match xref_section fuel s with
    | POk (start, es) r =>
      fold_sections n' fuel r (add_section m start 0 es)
    | PErr => POk m s
    | PFail => PFail
    | PPanic => PPanic
    | POut => POut
    end
  end.

(* xref = delimited(pair("xref", eol), fold_many1(xref_section, ...), space) *)
Definition xref_table (s : bytes) : pres xref :=
  let fuel := S (length s) in
  pbind (ptag (bs "xref") s) (fun _ r1 =>
  pbind (eol r1) (fun _ r2 =>
  match xref_section fuel r2 with
  | POk (start, es) r3 =>
    pbind (fold_sections fuel fuel r3 (add_section [] start 0 es)) (fun m' r4 =>
      POk {| x_type := XTTable; x_entries := m'; x_size := 0 |} (space r4))
  | PErr => PErr
  | PFail => PFail
  | PPanic => PPanic
  | POut => POut
  end)).

(* trailer = delimited(pair("trailer", space), dictionary, space) *)
Definition trailer (s : bytes) : pres dict :=
  pbind (ptag (bs "trailer") s) (fun _ r1 =>
  pbind (dictionary (fuel_for s) (space r1)) (fun d r2 => POk d (space r2))).

(* i64 as u32 *)
Definition i64_as_u32 (z : Z) : N := Z.to_N (z mod 4294967296)%Z.
Definition K_Size := Eval cbv in bs "Size".
Definition K_W := Eval cbv in bs "W".
Definition K_Index := Eval cbv in bs "Index".
Definition K_Prev := Eval cbv in bs "Prev".
Definition K_XRefStm := Eval cbv in bs "XRefStm".

(* outcome of xref_and_trailer and decode_xref_stream: error classes as the harness prints them *)
Inductive xerr :=
| XeInvalidTrailer     (* Error::Parse(InvalidTrailer) *)
| XeInvalidXref        (* Error::Parse(InvalidXref) *)
| XeIo                 (* Error::IO (read_exact: UnexpectedEof) *)
| XeDecompress.        (* whatever Stream::decompress returned *)
Inductive xres (A : Type) := XOk (a : A) | XErr (e : xerr) | XPanic | XOut | XNoMatch.
Arguments XOk {A} a.
Arguments XErr {A} e.
Arguments XPanic {A}.
Arguments XOut {A}.
Arguments XNoMatch {A}.

(* First alternative of xref_and_trailer: map(pair(xref, trailer), |(xref, trailer)| { xref.size =
   trailer.get(Size).and_then(as_i64).map_err(InvalidTrailer)? as u32; Ok((xref, trailer)) }).
   XNoMatch = the alternative returned nom Error, the caller goes on with the xref-stream alternative
   (Model/Loader.v); when that fails too the result is XErr XeInvalidTrailer. *)
Definition xref_and_trailer_table (s : bytes) : xres (xref * dict) :=
  match xref_table s with
  | POk x r =>
    match trailer r with
    | POk t _ =>
      match dict_get t K_Size with
      | Some (OInt z) => XOk ({| x_type := x_type x; x_entries := x_entries x; x_size := i64_as_u32 z |}, t)
      | _ => XErr XeInvalidTrailer
      end
    | PErr => XNoMatch
    | PFail => XErr XeInvalidTrailer    (* a nom Failure leaves alt at once *)
    | PPanic => XPanic
    | POut => XOut
    end
  | PErr => XNoMatch
  | PFail => XErr XeInvalidTrailer
  | PPanic => XPanic
  | POut => XOut
  end.

(* ------------------------------------------------------------------------------------------
   src/parser_aux.rs : decode_xref_stream
   ------------------------------------------------------------------------------------------ *)

(* parse_integer_array: an array all of whose elements are integers *)
Fixpoint ints_of (l : list obj) : option (list Z) :=
  match l with
  | [] => Some []
  | OInt z :: l' => option_map (cons z) (ints_of l')
  | _ :: _ => None
  end.
Definition parse_integer_array (o : obj) : option (list Z) :=
  match o with OArr l => ints_of l | _ => None end.

(* read_big_endian_integer: value = (value << 8) + byte in u32; the shift drops the high bits and the
   addition cannot overflow, so the result is the big-endian value modulo 2^32 *)
Definition be_value (f : bytes) : N := fold_left (fun v b => (v * 256 + N_of_byte b) mod two32) f 0.

(* Cursor::read_exact into a buffer of [w] bytes *)
Definition read_field (w : N) (s : bytes) : option (N * bytes) :=
  if N.of_nat (length s) <? w then None
  else match take_n (N.to_nat w) s with
       | Some (f, r) => Some (be_value f, r)
       | None => None
       end.

(* one iteration of `for j in 0..count`; [j] is the loop variable; the key is
   start.wrapping_add(j) as u32, i.e. the sum modulo 2^32 (repaired by 7320cb4); `as u16` wraps *)
Definition xs_key (start j : Z) : N := i64_as_u32 (start + j)%Z.

Definition xs_row (w0 w1 w2 : N) (start j : Z) (s : bytes) (m : xmap) : xres (xmap * bytes) :=
  match (if w0 =? 0 then Some (1, s) else read_field w0 s) with
  | None => XErr XeIo
  | Some (ty, s1) =>
    if ty =? 0 then
      match read_field w1 s1 with
      | None => XErr XeIo
      | Some (_, s2) => match read_field w2 s2 with None => XErr XeIo | Some (_, s3) => XOk (m, s3) end
      end
    else if ty =? 1 then
      match read_field w1 s1 with
      | None => XErr XeIo
      | Some (off, s2) =>
        match (if w2 =? 0 then Some (0, s2) else read_field w2 s2) with
        | None => XErr XeIo
        | Some (gen, s3) =>
          XOk (xinsert m (xs_key start j) (XNormal off (gen mod 65536)), s3)
        end
      end
    else if ty =? 2 then
      match read_field w1 s1 with
      | None => XErr XeIo
      | Some (c, s2) =>
        match read_field w2 s2 with
        | None => XErr XeIo
        | Some (ix, s3) =>
          XOk (xinsert m (xs_key start j) (XCompressed c (ix mod 65536)), s3)
        end
      end
    else XOk (m, s1)                     (* `_ => {}`: the other two fields are NOT skipped *)
  end.

Fixpoint xs_rows (cnt : nat) (w0 w1 w2 : N) (start j : Z) (s : bytes) (m : xmap) : xres (xmap * bytes) :=
  match cnt with
  | O => XOk (m, s)
  | S c =>
    match xs_row w0 w1 w2 start j s m with
    | XOk (m', s') => xs_rows c w0 w1 w2 start (j + 1)%Z s' m'
    | e => e
    end
  end.

(* Number of iterations of `for j in 0..count`.  The widths are not all 0 (checked before the loop, repair
   960142a), so every iteration consumes at least one byte or fails: no run reaches iteration |s|+1 and the
   cap below changes nothing (it only keeps the extracted model from counting to 2^63 in unary). *)
Definition xs_iterations (count : Z) (s : bytes) : nat :=
  Z.to_nat (Z.min count (Z.of_nat (S (length s)))).

(* `for i in 0..section_indice.len() / 2`: pairs; an odd last element is ignored *)
Fixpoint xs_sections (idx : list Z) (w0 w1 w2 : N) (s : bytes) (m : xmap) : xres (xmap * bytes) :=
  match idx with
  | start :: count :: idx' =>
    match xs_rows (xs_iterations count s) w0 w1 w2 start 0%Z s m with
    | XOk (m', s') => xs_sections idx' w0 w1 w2 s' m'
    | e => e
    end
  | _ => XOk (m, s)
  end.

(* the part after decompression *)
Definition decode_xref_plain (d : dict) (content : bytes) : xres (xref * dict) :=
  match dict_get d K_Size with
  | Some (OInt size) =>
    let idx := match dict_get d K_Index with
               | Some o => match parse_integer_array o with Some l => l | None => [0%Z; size] end
               | None => [0%Z; size]
               end in
    match dict_get d K_W with
    | Some o =>
      match parse_integer_array o with
      | Some (w0 :: w1 :: w2 :: _) =>
        if (w0 <? 0)%Z || (w1 <? 0)%Z || (w2 <? 0)%Z then XErr XeInvalidXref
        else if (w0 =? 0)%Z && (w1 =? 0)%Z && (w2 =? 0)%Z then XErr XeInvalidXref
        else
          match xs_sections idx (Z.to_N w0) (Z.to_N w1) (Z.to_N w2) content [] with
          | XOk (m, _) =>
            XOk ({| x_type := XTStream; x_entries := m; x_size := i64_as_u32 size |},
                 dict_swap_remove (dict_swap_remove (dict_swap_remove d K_Length) K_W) K_Index)
          | XErr e => XErr e
          | XPanic => XPanic
          | XOut => XOut
          | XNoMatch => XNoMatch
          end
      | _ => XErr XeInvalidXref
      end
    | None => XErr XeInvalidXref
    end
  | _ => XErr XeInvalidXref
  end.

Section Decompress.
  (* Stream::decompress on (dict, content): Some (dict', content') on Ok, None on Err *)
  Variable decompress : dict -> bytes -> option (dict * bytes).

  Definition decode_xref_stream (d : dict) (content : bytes) : xres (xref * dict) :=
    if dict_has d K_Filter then
      match decompress d content with
      | Some (d', c') => decode_xref_plain d' c'
      | None => XErr XeDecompress
      end
    else decode_xref_plain d content.
End Decompress.

(* ---- case-language printing ---- *)
Definition xentry_to_sx (e : xentry) : sx :=
  match e with
  | XFree => sx_id "free"
  | XUnusableFree => sx_id "unusable"
  | XNormal o g => SL [sx_id "n"; sx_N o; sx_N g]
  | XCompressed c i => SL [sx_id "c"; sx_N c; sx_N i]
  end.
Definition xmap_to_sx (m : xmap) : sx := SL (map (fun ke => SL [sx_N (fst ke); xentry_to_sx (snd ke)]) m).
Definition xref_to_sx (x : xref) : sx :=
  SL [sx_id "xref"; match x_type x with XTStream => sx_id "stream" | XTTable => sx_id "table" end;
      sx_N (x_size x); xmap_to_sx (x_entries x)].
Definition xerr_to_sx (e : xerr) : sx :=
  match e with
  | XeInvalidTrailer => sx_id "InvalidTrailer"
  | XeInvalidXref => sx_id "InvalidXref"
  | XeIo => sx_id "IO"
  | XeDecompress => sx_id "Decompress"
  end.
