(* Toc.v -- Document::get_toc (src/toc.rs) over get_outlines / get_outline / build_outline_result
   (src/outlines.rs), setup_outline_page_ids and setup_page_id_to_num.  Definitions only.

   * get_outlines / get_outlines_limited: the First/Next walk follows at most objects.len()
     *references* (ref_budget, one unit per reference followed through First or Next) and nests First
     at most OUTLINE_DEPTH_LIMIT deep, else Err(ReferenceLimit) (commit a720232).  Inline
     dictionaries cost nothing, so the Gallina recursion still carries explicit fuel (one unit per
     visited node, [WFuel] when it runs out; Proofs: never on the builder's output).
   * Errors of get_outline are swallowed by `if let Ok(Some(..))`.  Since commit bcaf31f a
     destination array shorter than two elements is an error, no longer an index panic; the
     [RPanic] / [WPanic] / [TPanic] outcomes are kept in the result types but nothing produces them.
   * Named destinations: when the catalog has a Dests (or Names/Dests) dictionary the Rust code
     runs get_named_destinations first; that function is not modelled here ([WUnmodelled]).  With
     no such tree the map is empty and a string destination yields Ok(None).
   * A [Destination] is a Dictionary with Title, Page, Type set in that order; only title() and
     page() are read, so it is the triple.
   * Titles come back as Rust Strings = lists of scalar values; String::from_utf16_lossy and
     String::from_utf8_lossy are Rust std behaviour (trusted base, tied by correspondence). *)
From LV Require Import Base.Bytes Base.Sx Model.Obj Model.DocQ Model.PageTree Model.Outline Gen.QueryC.

Definition K_Dest := Eval cbv in bs "Dest".
Definition K_Dests := Eval cbv in bs "Dests".
Definition K_Names := Eval cbv in bs "Names".
Definition K_GoToR := Eval cbv in bs "GoToR".

Inductive res (A : Type) := ROk (a : A) | RErr | RPanic.
Arguments ROk {A} a.
Arguments RErr {A}.
Arguments RPanic {A}.

Inductive wres (A : Type) := WOk (a : A) | WErr | WPanic | WFuel | WUnmodelled.
Arguments WOk {A} a.
Arguments WErr {A}.
Arguments WPanic {A}.
Arguments WFuel {A}.
Arguments WUnmodelled {A}.

Inductive outline :=
| ODest (title page typ : obj)
| OSub (l : list outline).

(* Document::get_dict_in_dict *)
Definition get_dict_in_dict (m : objmap) (node : dict) (k : bytes) : option dict :=
  match dict_get node k with
  | Some (ORef i g) => get_dictionary m (i, g)
  | Some (ODict d) => Some d
  | _ => None
  end.

(* build_outline_result on a destination that is not a reference *)
Definition bor_direct (dest title : obj) : res (option outline) :=
  match dest with
  | OArr (a0 :: a1 :: _) => ROk (Some (ODest title a0 a1))
  | OArr _ => RErr                                     (* "Destination array too short" *)
  | OStr _ _ => ROk None                               (* named_destinations is empty *)
  | _ => RErr
  end.

(* get_object never returns a Reference (dereference loops while it sees one), so the recursive
   call of build_outline_result is at most one level deep *)
Definition build_outline_result (m : objmap) (dest title : obj) : res (option outline) :=
  match dest with
  | ORef i g => match get_object m (i, g) with
                | Some o => bor_direct o title
                | None => RErr
                end
  | _ => bor_direct dest title
  end.

Definition get_outline (m : objmap) (node : dict) : res (option outline) :=
  match get_dict_in_dict m node K_A with
  | None =>
    match dict_get node K_Dest, dict_get node K_Title with
    | Some dest, Some title => build_outline_result m dest title
    | _, _ => RErr
    end
  | Some action =>
    match dict_get action K_S with
    | Some (OName command) =>
      if bytes_eqb command K_GoTo || bytes_eqb command K_GoToR then
        match dict_get node K_Title with
        | Some (ORef i g) =>
          match dict_get action K_D, get_object m (i, g) with
          | Some d, Some t => build_outline_result m d t
          | _, _ => RErr
          end
        | Some (OStr s h) =>
          match dict_get action K_D with
          | Some d => build_outline_result m d (OStr s h)
          | None => RErr
          end
        | _ => RErr
        end
      else RErr
    | _ => RErr
    end
  end.

(* follow_outline_reference: None = Err(ReferenceLimit) *)
Definition follow_ref (budget : N) : option N :=
  if (budget =? 0)%N then None else Some (budget - 1)%N.

(* the loop of get_outlines_limited started at dictionary [node] with [budget] references left, at
   First-nesting [depth]; returns the outlines and the remaining budget.  The recursive call on
   First resolves its argument on entry (a dictionary, or a reference: one unit of budget). *)
Fixpoint walk (fuel : nat) (m : objmap) (node : dict) (budget depth : N) : wres (list outline * N) :=
  match fuel with
  | O => WFuel
  | S f =>
    let item := match get_outline m node with ROk (Some o) => [o] | _ => [] end in
    let sub : wres (list outline * N) :=
      match dict_get node K_First with
      | None => WOk ([], budget)
      | Some first =>
        if (OUTLINE_DEPTH_LIMIT <=? depth)%N then WErr
        else
          let fd : option (dict * N) :=
            match first with
            | ODict d => Some (d, budget)
            | ORef i g =>
              match follow_ref budget with
              | None => None
              | Some b1 => match get_dictionary m (i, g) with Some d => Some (d, b1) | None => None end
              end
            | _ => None
            end in
          match fd with
          | None => WErr
          | Some (d, b1) =>
            match walk f m d b1 (depth + 1) with
            | WOk ([], b2) => WOk ([], b2)
            | WOk (subs, b2) => WOk ([OSub subs], b2)
            | e => e
            end
          end
      end in
    match sub with
    | WOk (s, b2) =>
      let nb : option N :=
        match dict_get node K_Next with
        | Some (ORef _ _) => follow_ref b2
        | _ => Some b2
        end in
      match nb with
      | None => WErr
      | Some b3 =>
        match get_dict_in_dict m node K_Next with
        | Some n =>
          match walk f m n b3 depth with
          | WOk (r, b4) => WOk (item ++ s ++ r, b4)
          | e => e
          end
        | None => WOk (item ++ s, b3)
        end
      end
    | e => e
    end
  end.

Definition named_tree (m : objmap) (cat : dict) : option dict :=
  match get_dict_in_dict m cat K_Dests with
  | Some t => Some t
  | None => match get_dict_in_dict m cat K_Names with
            | Some names => get_dict_in_dict m names K_Dests
            | None => None
            end
  end.

(* get_outlines(None, None, ..) *)
Definition get_outlines_top (fuel : nat) (d : doc) : wres (list outline) :=
  let m := d_objects d in
  match catalog d with
  | None => WErr
  | Some cat =>
    match get_dict_in_dict m cat K_Outlines with
    | None => WErr
    | Some od =>
      let dict_node := match get_dict_in_dict m od K_First with Some f => f | None => od end in
      match named_tree m cat with
      | Some _ => WUnmodelled
      | None =>
        match walk fuel m dict_node (N.of_nat (length m)) 0 with
        | WOk (outs, _) => WOk outs
        | WErr => WErr
        | WPanic => WPanic
        | WFuel => WFuel
        | WUnmodelled => WUnmodelled
        end
      end
    end
  end.

(* IndexMap::insert on the title-keyed map: replace the value in place, else append *)
Definition page_ids := list (bytes * (oid * N)).
Fixpoint ix_insert (r : page_ids) (k : bytes) (v : oid * N) : page_ids :=
  match r with
  | [] => [(k, v)]
  | (k', v') :: r' => if bytes_eqb k' k then (k', v) :: r' else (k', v') :: ix_insert r' k v
  end.

Fixpoint setup_one (o : outline) (acc : page_ids) (level : N) : option page_ids :=
  match o with
  | ODest (OStr s _) (ORef i g) _ => Some (ix_insert acc s ((i, g), level))
  | ODest _ _ _ => None
  | OSub l =>
    (fix go (l : list outline) (acc : page_ids) : option page_ids :=
       match l with
       | [] => Some acc
       | o :: l' => match setup_one o acc (level + 1) with Some a => go l' a | None => None end
       end) l acc
  end.
Fixpoint setup_all (l : list outline) (acc : page_ids) (level : N) : option page_ids :=
  match l with
  | [] => Some acc
  | o :: l' => match setup_one o acc level with Some a => setup_all l' a level | None => None end
  end.

(* setup_page_id_to_num: IndexMap filled in page order, a repeated page id keeps its last number *)
Definition page_num (pages : list (N * oid)) (pid : oid) : option N :=
  fold_left (fun acc p => if oid_eqb (snd p) pid then Some (fst p) else acc) pages None.

(* ---------- title decoding ---------- *)
Definition REPL : N := 65533.

(* char::decode_utf16 + unwrap_or(REPLACEMENT_CHARACTER) *)
Fixpoint utf16_lossy (u : list N) : ustring :=
  match u with
  | [] => []
  | a :: r =>
    if (a <? 55296)%N || (57344 <=? a)%N then a :: utf16_lossy r
    else if (56320 <=? a)%N then REPL :: utf16_lossy r
    else match r with
         | [] => [REPL]
         | b :: r' =>
           if (56320 <=? b)%N && (b <=? 57343)%N
           then (65536 + (a - 55296) * 1024 + (b - 56320))%N :: utf16_lossy r'
           else REPL :: utf16_lossy r
         end
  end.

Fixpoint units_be (s : bytes) : list N :=
  match s with
  | a :: b :: r => (N_of_byte a * 256 + N_of_byte b)%N :: units_be r
  | _ => []
  end.
Fixpoint units_le (s : bytes) : list N :=
  match s with
  | a :: b :: r => (N_of_byte b * 256 + N_of_byte a)%N :: units_le r
  | _ => []
  end.

(* String::from_utf8_lossy (core::str::lossy::Utf8Chunks): one U+FFFD per maximal invalid part *)
Definition is_cont (b : byte) : bool := (128 <=? N_of_byte b)%N && (N_of_byte b <=? 191)%N.
Definition in_rng (b : byte) (lo hi : N) : bool := (lo <=? N_of_byte b)%N && (N_of_byte b <=? hi)%N.
Definition ok3 (b0 : N) (c : byte) : bool :=
  if (b0 =? 224)%N then in_rng c 160 191
  else if (b0 =? 237)%N then in_rng c 128 159
  else in_rng c 128 191.
Definition ok4 (b0 : N) (c : byte) : bool :=
  if (b0 =? 240)%N then in_rng c 144 191
  else if (b0 =? 244)%N then in_rng c 128 143
  else in_rng c 128 191.
Definition low6 (b : byte) : N := (N_of_byte b mod 64)%N.

Fixpoint utf8_lossy (s : bytes) : ustring :=
  match s with
  | [] => []
  | b :: r =>
    let n := N_of_byte b in
    if (n <? 128)%N then n :: utf8_lossy r
    else if (194 <=? n)%N && (n <=? 223)%N then
      match r with
      | c1 :: r1 => if is_cont c1 then ((n mod 32) * 64 + low6 c1)%N :: utf8_lossy r1
                    else REPL :: utf8_lossy r
      | [] => [REPL]
      end
    else if (224 <=? n)%N && (n <=? 239)%N then
      match r with
      | c1 :: r1 =>
        if ok3 n c1 then
          match r1 with
          | c2 :: r2 => if is_cont c2 then ((n mod 16) * 4096 + low6 c1 * 64 + low6 c2)%N :: utf8_lossy r2
                        else REPL :: utf8_lossy r1
          | [] => [REPL]
          end
        else REPL :: utf8_lossy r
      | [] => [REPL]
      end
    else if (240 <=? n)%N && (n <=? 244)%N then
      match r with
      | c1 :: r1 =>
        if ok4 n c1 then
          match r1 with
          | c2 :: r2 =>
            if is_cont c2 then
              match r2 with
              | c3 :: r3 =>
                if is_cont c3
                then ((n mod 8) * 262144 + low6 c1 * 4096 + low6 c2 * 64 + low6 c3)%N :: utf8_lossy r3
                else REPL :: utf8_lossy r2
              | [] => [REPL]
              end
            else REPL :: utf8_lossy r1
          | [] => [REPL]
          end
        else REPL :: utf8_lossy r
      | [] => [REPL]
      end
    else REPL :: utf8_lossy r
  end.

(* None = "has invalid length" pushed to toc.errors *)
Definition decode_title (t : bytes) : option ustring :=
  match t with
  | a :: b :: rest =>
    if byte_eqb a xfe && byte_eqb b xff then
      if Nat.odd (length t) then None else Some (utf16_lossy (units_be rest))
    else if byte_eqb a xff && byte_eqb b xfe then
      if Nat.odd (length t) then None else Some (utf16_lossy (units_le rest))
    else Some (utf8_lossy t)
  | _ => Some (utf8_lossy t)
  end.

Record toc_entry := { te_level : N; te_title : ustring; te_page : N }.

Inductive tres := TOk (toc : list toc_entry) (errors : N) | TErr | TPanic | TFuel | TUnmodelled.

Fixpoint toc_rows (pages : list (N * oid)) (ids : page_ids) : list toc_entry * N :=
  match ids with
  | [] => ([], 0%N)
  | (title, (pid, level)) :: r =>
    let '(rows, errs) := toc_rows pages r in
    match page_num pages pid with
    | None => (rows, errs)
    | Some n =>
      match decode_title title with
      | None => (rows, (errs + 1)%N)
      | Some s => ({| te_level := level; te_title := s; te_page := n |} :: rows, errs)
      end
    end
  end.

Definition get_toc (fuel : nat) (d : doc) : tres :=
  match get_outlines_top fuel d with
  | WErr => TErr
  | WPanic => TPanic
  | WFuel => TFuel
  | WUnmodelled => TUnmodelled
  | WOk outs =>
    match setup_all outs [] 1 with
    | None => TErr
    | Some ids => let '(rows, errs) := toc_rows (get_pages d) ids in TOk rows errs
    end
  end.
