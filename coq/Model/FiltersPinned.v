(* FiltersPinned.v -- the filter code as it was on the PINNED tree, before the five C09 repairs
   (f51f21b Average predictor, c049d3a ASCII85 checked_add, efed7db ASCII85 NUL, c3c22fe DecodeParms array,
   fcb7fe1 compress drops stale DecodeParms).  Only the functions that differ from Model/{A85,Png,StreamFilt}.v
   are repeated, with the pinned line quoted.  Used for the ..._refuted theorems only.  Definitions only. *)
From LV Require Import Base.Bytes Model.Obj Gen.Filters Model.A85 Model.Png Model.StreamFilt.

(* ---- decode_ascii85:   buffer = buffer.checked_mul(85)?;  buffer += (ch - b'!') as u32;   (overflow checks on)
                          if ch.is_ascii_whitespace() { continue }                                            ---- *)
Definition accum_v0 (buffer d : N) : res N :=
  match checked_mul_u32 buffer A85_BASE with
  | None => Err EA85
  | Some b => if (b + d <=? U32_MAX)%N then Ok (b + d)%N else Panic
  end.

Fixpoint pad_v0 (buffer : N) (k : nat) : res N :=
  match k with
  | O => Ok buffer
  | S k' => rbind (accum_v0 buffer A85_PAD) (fun b => pad_v0 b k')
  end.

Definition finish_v0 (buffer : N) (count : nat) : res bytes :=
  match count with
  | O => Ok []
  | _ => rbind (pad_v0 buffer (A85_GROUP - count)) (fun b => Ok (firstn (count - 1) (be_bytes b)))
  end.

Fixpoint loop_v0 (input : bytes) (buffer : N) (count : nat) : res bytes :=
  match input with
  | [] => finish_v0 buffer count
  | ch :: input' =>
    if byte_eqb ch A85_Z then
      match count with
      | O => emit [x00; x00; x00; x00] (loop_v0 input' buffer count)
      | _ => Err EA85
      end
    else if is_ascii_ws ch then loop_v0 input' buffer count
    else if negb (in_digit_range ch) then finish_v0 buffer count
    else rbind (accum_v0 buffer (N_of_byte ch - N_of_byte A85_LO))
               (fun b => if Nat.eqb (S count) A85_GROUP then emit (be_bytes b) (loop_v0 input' 0%N O)
                         else loop_v0 input' b (S count))
  end.

Definition decode_v0 (input : bytes) : res bytes := loop_v0 (strip_eod input) 0%N O.

(* ---- decode_row, Avg:  current[i].wrapping_add((i16::from(current[i - bpp]) + i16::from(previous[i]) / 2) as u8) ---- *)
Definition avg_v0 (left above : byte) : byte := byte_of_N (N_of_byte left + N_of_byte above / 2).

Definition recon_v0 (t : ftype) (x left above upperleft : byte) : byte :=
  match t with
  | FAvg => badd x (avg_v0 left above)
  | _ => recon t x left above upperleft
  end.

Fixpoint row_go_v0 (t : ftype) (bpp : nat) (rdone rprev prev cur : bytes) : bytes :=
  match cur with
  | [] => []
  | x :: cur' =>
    let above := hd x00 prev in
    let left := match bpp with O => x | S k => nth k rdone x00 end in
    let upperleft := match bpp with O => above | S k => nth k rprev x00 end in
    let y := recon_v0 t x left above upperleft in
    y :: row_go_v0 t bpp (y :: rdone) (above :: rprev) (tl prev) cur'
  end.

Definition decode_row_v0 (t : ftype) (bpp : N) (prev cur : bytes) : res bytes :=
  if needs_prev t && (length prev <? length cur)%nat then Panic
  else Ok (row_go_v0 t (N.to_nat (N.min bpp (N.of_nat (length cur)))) [] [] prev cur).

(* ---- decompressed_content:  let params = self.dict.get(b"DecodeParms").and_then(Object::as_dict).ok();
                               for filter in filters { ... }          (the same params for every filter)      ---- *)
Definition params_v0 (d : dict) : option dict :=
  match dict_get d K_DecodeParms_ with Some (ODict p) => Some p | _ => None end.

Section Oracles.
  Variable inflate : bytes -> bytes.
  Variable lzw : bool -> bytes -> bytes.
  Variable deflate : bytes -> bytes.

  Fixpoint decode_loop_v0 (d : dict) (fs : list bytes) (input output : bytes) : res bytes :=
    match fs with
    | [] => Ok output
    | f :: fs' =>
      match decode_one inflate lzw f (params_v0 d) input with
      | Ok o => decode_loop_v0 d fs' o o
      | e => e
      end
    end.

  Definition decompressed_content_v0 (s : stream) : res bytes :=
    match filters (s_dict s) with
    | Ok fs => decode_loop_v0 (s_dict s) fs (s_content s) []
    | Err e => Err e
    | Panic => Panic
    | Fuel => Fuel
    end.

  (* ---- compress:  self.dict.set("Filter", "FlateDecode"); self.set_content(compressed);   (DecodeParms stays) ---- *)
  Definition compress_v0 (s : stream) : stream :=
    if dict_has (s_dict s) K_Filter then s
    else
      let compressed := deflate (s_content s) in
      if (N.of_nat (length compressed) + COMPRESS_SLACK <? N.of_nat (length (s_content s)))%N then
        set_content {| s_dict := dict_set (s_dict s) K_Filter (OName COMPRESS_FILTER); s_content := s_content s |} compressed
      else s.
End Oracles.
