(* TocNamed.v -- Document::get_toc (src/toc.rs) WITH named destinations: the complete model of what
   get_toc does on a document whose catalog has a `Dests` (or `Names`/`Dests`) tree.  Definitions only.

   Model/Toc.v stops with [WUnmodelled] when the catalog has such a tree, because get_named_destinations
   (src/destinations.rs) belongs to C13 (Model/Query.v: [nd_walk] with its kid budget and
   NAME_TREE_DEPTH_LIMIT, proved total in C13_get_named_destinations_total).  Query.v imports Toc.v (title
   decoding), so the call cannot be added to Toc.v itself; this file sits above both and is the model the C17
   runner and the read-back theorems use.  As in the Rust code (get_outlines_limited, `outlines.is_none()`
   branch):

       catalog()?; Outlines dictionary?; First (optional);
       tree = Dests, else Names -> Dests;
       if let Ok(tree) = tree { self.get_named_destinations(tree, named_destinations)?; }      <- an Err ends get_toc
       then the First/Next walk, which now carries the map: build_outline_result on a STRING destination
       looks the key up (`named_destinations.get_mut(key)`), writes the item's title into the stored
       destination (`destination.set(b"Title", ..)`, visible to later items with the same key) and
       returns a clone; an unknown key is Ok(None).

   The walk is Toc.walk with the map threaded through (the map after an error is not observable from
   get_toc: it is a local of get_toc).  Budgets, depth limit, fuel: exactly as in Toc.v.  The fuel of the
   name-tree walk is Query.fuel_nd (= |objects| + 1), which C13 proves sufficient on every graph. *)
From LV Require Import Base.Bytes Base.Sx Model.Obj Model.DocQ Model.PageTree Model.Outline Model.Toc Gen.QueryC.
From LV Require Model.Query.

(* IndexMap<Vec<u8>, Destination>: Query.nmap = list (key * (Title, Page, Type)) *)
Definition nmap := Query.nmap.

(* build_outline_result on a destination that is not a reference *)
Definition bor_direct (dest title : obj) (nm : nmap) : nmap * res (option outline) :=
  match dest with
  | OArr (a0 :: a1 :: _) => (nm, ROk (Some (ODest title a0 a1)))
  | OArr _ => (nm, RErr)                                  (* "Destination array too short" *)
  | OStr key _ =>
    match Query.nm_get nm key with
    | Some (_, p, ty) => (Query.nm_insert nm key (title, p, ty), ROk (Some (ODest title p ty)))
    | None => (nm, ROk None)
    end
  | _ => (nm, RErr)
  end.

Definition build_outline_result (m : objmap) (dest title : obj) (nm : nmap) : nmap * res (option outline) :=
  match dest with
  | ORef i g => match get_object m (i, g) with
                | Some o => bor_direct o title nm
                | None => (nm, RErr)
                end
  | _ => bor_direct dest title nm
  end.

Definition get_outline (m : objmap) (node : dict) (nm : nmap) : nmap * res (option outline) :=
  match get_dict_in_dict m node K_A with
  | None =>
    match dict_get node K_Dest, dict_get node K_Title with
    | Some dest, Some title => build_outline_result m dest title nm
    | _, _ => (nm, RErr)
    end
  | Some action =>
    match dict_get action K_S with
    | Some (OName command) =>
      if bytes_eqb command K_GoTo || bytes_eqb command K_GoToR then
        match dict_get node K_Title with
        | Some (ORef i g) =>
          match dict_get action K_D, get_object m (i, g) with
          | Some d, Some t => build_outline_result m d t nm
          | _, _ => (nm, RErr)
          end
        | Some (OStr s h) =>
          match dict_get action K_D with
          | Some d => build_outline_result m d (OStr s h) nm
          | None => (nm, RErr)
          end
        | _ => (nm, RErr)
        end
      else (nm, RErr)
    | _ => (nm, RErr)
    end
  end.

(* the loop of get_outlines_limited: Toc.walk with the destination map threaded through *)
Fixpoint walk (fuel : nat) (m : objmap) (node : dict) (nm : nmap) (budget depth : N)
  : wres (list outline * N * nmap) :=
  match fuel with
  | O => WFuel
  | S f =>
    let '(nm1, r) := get_outline m node nm in
    let item := match r with ROk (Some o) => [o] | _ => [] end in
    let sub : wres (list outline * N * nmap) :=
      match dict_get node K_First with
      | None => WOk ([], budget, nm1)
      | Some first =>
        if (OUTLINE_DEPTH_LIMIT <=? depth)%N then WErr
        else
          let fd : option (dict * N) :=
            match first with
            | ODict d => Some (d, budget)
            | ORef i g =>
              match follow_ref budget with
              | None => None
              | Some b1 => match get_dictionary m (i, g) with Some d => Some (d, b1) | None => None end
              end
            | _ => None
            end in
          match fd with
          | None => WErr
          | Some (d, b1) =>
            match walk f m d nm1 b1 (depth + 1) with
            | WOk ([], b2, nm2) => WOk ([], b2, nm2)
            | WOk (subs, b2, nm2) => WOk ([OSub subs], b2, nm2)
            | e => e
            end
          end
      end in
    match sub with
    | WOk (s, b2, nm2) =>
      let nb : option N :=
        match dict_get node K_Next with
        | Some (ORef _ _) => follow_ref b2
        | _ => Some b2
        end in
      match nb with
      | None => WErr
      | Some b3 =>
        match get_dict_in_dict m node K_Next with
        | Some n =>
          match walk f m n nm2 b3 depth with
          | WOk (r, b4, nm3) => WOk (item ++ s ++ r, b4, nm3)
          | e => e
          end
        | None => WOk (item ++ s, b3, nm2)
        end
      end
    | e => e
    end
  end.

(* `if let Ok(tree) = tree { self.get_named_destinations(tree, named_destinations)?; }` on the empty map *)
Definition named_destinations (m : objmap) (cat : dict) : wres nmap :=
  match named_tree m cat with
  | None => WOk []
  | Some tree =>
    match Query.get_named_destinations (Query.fuel_nd m) m tree [] with
    | (nm, Query.Ok _) => WOk nm
    | (_, Query.Err) => WErr
    | (_, Query.Panic _) => WPanic
    | (_, Query.OutOfFuel) => WFuel
    end
  end.

(* get_outlines(None, None, &mut IndexMap::new()) *)
Definition get_outlines_top (fuel : nat) (d : doc) : wres (list outline) :=
  let m := d_objects d in
  match catalog d with
  | None => WErr
  | Some cat =>
    match get_dict_in_dict m cat K_Outlines with
    | None => WErr
    | Some od =>
      let dict_node := match get_dict_in_dict m od K_First with Some f => f | None => od end in
      match named_destinations m cat with
      | WOk nm =>
        match walk fuel m dict_node nm (N.of_nat (length m)) 0 with
        | WOk (outs, _, _) => WOk outs
        | WErr => WErr
        | WPanic => WPanic
        | WFuel => WFuel
        | WUnmodelled => WUnmodelled
        end
      | WErr => WErr
      | WPanic => WPanic
      | WFuel => WFuel
      | WUnmodelled => WUnmodelled
      end
    end
  end.

Definition get_toc (fuel : nat) (d : doc) : tres :=
  match get_outlines_top fuel d with
  | WErr => TErr
  | WPanic => TPanic
  | WFuel => TFuel
  | WUnmodelled => TUnmodelled
  | WOk outs =>
    match setup_all outs [] 1 with
    | None => TErr
    | Some ids => let '(rows, errs) := toc_rows (get_pages d) ids in TOk rows errs
    end
  end.

(* "the crate's get_named_destinations accepts the name tree of this document" (true when there is none) *)
Definition name_tree_readable (d : doc) : bool :=
  match catalog d with
  | None => true
  | Some cat => match named_destinations (d_objects d) cat with WOk _ => true | _ => false end
  end.
