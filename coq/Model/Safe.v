(* Safe.v -- the resource-annotated outcome monad of the C04 layer (DESIGN 6 C04).
   Every Safe* model is written from the Rust source with its PANIC SITES EXPLICIT: a checked
   + - * (the harness is built with overflow checks), a slice index, an unwrap/expect, an
   `as` cast, a with_capacity / vec! size is a primitive below that can answer [SPanic]; the
   theorems then show that no input reaches that answer.  Beside the outcome every computation
   returns its cost: steps (loop iterations / bytes visited), the largest single allocation
   request in bytes, and the largest recursion depth.  Definitions only. *)
From LV Require Import Base.Bytes.
Local Open Scope N_scope.

Inductive reason :=
| ROverflow      (* attempt to add / subtract / multiply with overflow *)
| RIndex         (* index or slice range out of bounds *)
| RUnwrap        (* unwrap / expect on None / Err *)
| RCapacity.     (* capacity overflow: a Vec larger than isize::MAX bytes (panic), or an allocation the
                    allocator cannot serve (abort) *)

Inductive out (A : Type) :=
| SOk (a : A)
| SErr                 (* the entry point returns Err(_) / None *)
| SPanic (r : reason)
| SFuel.               (* the model's fuel ran out; excluded by the e_terminates theorems *)
Arguments SOk {A} a.
Arguments SErr {A}.
Arguments SPanic {A} r.
Arguments SFuel {A}.

Record cost := mkCost { c_steps : N; c_alloc : N; c_depth : N }.

Definition M (A : Type) : Type := (out A * cost)%type.

Definition USIZE_MAX : N := 18446744073709551615.
Definition ISIZE_MAX : N := 9223372036854775807.
Definition I64_MAX : Z := 9223372036854775807%Z.
Definition I64_MIN : Z := (-9223372036854775808)%Z.
Definition U32_MAX : N := 4294967295.
Definition U16_MAX : N := 65535.

Definition c0 : cost := mkCost 0 0 0.
(* sequential composition: steps add up, the largest request and the largest depth are kept *)
Definition cjoin (a b : cost) : cost :=
  mkCost (c_steps a + c_steps b) (N.max (c_alloc a) (c_alloc b)) (N.max (c_depth a) (c_depth b)).

Definition ret {A} (a : A) : M A := (SOk a, c0).
Definition fail {A} : M A := (SErr, c0).
Definition panic {A} (r : reason) : M A := (SPanic r, c0).
Definition out_of_fuel {A} : M A := (SFuel, c0).

Definition bind {A B} (m : M A) (f : A -> M B) : M B :=
  match fst m with
  | SOk a => let r := f a in (fst r, cjoin (snd m) (snd r))
  | SErr => (SErr, snd m)
  | SPanic r => (SPanic r, snd m)
  | SFuel => (SFuel, snd m)
  end.

Notation "x <- m ;; k" := (bind m (fun x => k)) (at level 61, m at next level, right associativity).
Notation "m ;;; k" := (bind m (fun _ => k)) (at level 61, right associativity).

(* the work of one loop iteration / n visited bytes *)
Definition tick (n : N) : M unit := (SOk tt, mkCost n 0 0).

(* growth of a Vec the code fills itself (push / extend / write_all / collect) to a total of n bytes: the request is
   recorded so that the e_alloc theorems can bound it by the input size *)
Definition request (n : N) : M unit := (SOk tt, mkCost 0 n 0).
(* Vec::with_capacity(n) / vec![0; n] with n CHOSEN BY THE FILE: panics with "capacity overflow" above isize::MAX;
   below that the allocator decides (a refusal aborts the process): recorded like any request *)
Definition request_chosen (n : N) : M unit :=
  if ISIZE_MAX <? n then (SPanic RCapacity, mkCost 0 n 0) else (SOk tt, mkCost 0 n 0).
(* try_reserve(n): an impossible request is an Err, never a panic *)
Definition try_request (n : N) : M unit :=
  if ISIZE_MAX <? n then (SErr, mkCost 0 n 0) else (SOk tt, mkCost 0 n 0).

(* one more level of recursion around m *)
Definition deeper {A} (m : M A) : M A :=
  (fst m, mkCost (c_steps (snd m)) (c_alloc (snd m)) (1 + c_depth (snd m))).

(* ---------- panic sites ---------- *)
Definition ck_add (maxv a b : N) : M N := if a + b <=? maxv then ret (a + b) else panic ROverflow.
Definition ck_mul (maxv a b : N) : M N := if a * b <=? maxv then ret (a * b) else panic ROverflow.
Definition ck_sub (a b : N) : M N := if b <=? a then ret (a - b) else panic ROverflow.
Definition usize_add := ck_add USIZE_MAX.
Definition usize_mul := ck_mul USIZE_MAX.
Definition u32_add := ck_add U32_MAX.
Definition u16_add := ck_add U16_MAX.
(* i64 + i64 *)
Definition i64_add (a b : Z) : M Z :=
  if ((I64_MIN <=? a + b) && (a + b <=? I64_MAX))%Z then ret (a + b)%Z else panic ROverflow.

(* checked_* of the standard library: None instead of a panic *)
Definition opt_mul (maxv a b : N) : option N := if a * b <=? maxv then Some (a * b) else None.
Definition opt_add (maxv a b : N) : option N := if a + b <=? maxv then Some (a + b) else None.

(* i64 as usize (two's complement), i64 as u32, u32 as u16 ... *)
Definition as_usize (z : Z) : N := Z.to_N (z mod 18446744073709551616)%Z.
Definition as_u32 (z : Z) : N := Z.to_N (z mod 4294967296)%Z.

(* v[i] *)
Definition idx {A} (l : list A) (i : N) : M A :=
  match nth_error l (N.to_nat i) with Some a => ret a | None => panic RIndex end.
(* &v[n..] and &v[..n] *)
Definition slice_from {A} (l : list A) (n : N) : M (list A) :=
  if n <=? N.of_nat (length l) then ret (skipn (N.to_nat n) l) else panic RIndex.
Definition slice_to {A} (l : list A) (n : N) : M (list A) :=
  if n <=? N.of_nat (length l) then ret (firstn (N.to_nat n) l) else panic RIndex.
(* Option::unwrap / Result::expect *)
Definition unwrap {A} (o : option A) : M A := match o with Some a => ret a | None => panic RUnwrap end.

(* ---------- observations ---------- *)
Definition outcome {A} (m : M A) : out A := fst m.
Definition steps {A} (m : M A) : N := c_steps (snd m).
Definition max_alloc {A} (m : M A) : N := c_alloc (snd m).
Definition max_depth {A} (m : M A) : N := c_depth (snd m).

Definition is_panic {A} (o : out A) : bool := match o with SPanic _ => true | _ => false end.
Definition no_panic {A} (m : M A) : Prop := is_panic (outcome m) = false.
Definition terminates {A} (m : M A) : Prop := outcome m <> SFuel.
