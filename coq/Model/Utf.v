(* Utf.v -- Unicode scalar values and the UTF-8 / UTF-16 transformation formats.

   This is the model of what Rust's `String` / `char` / `str` do for the calls lopdf makes in
   src/common_data_structures/mod.rs and src/encodings/mod.rs (Rust std is third-party for
   lopdf; the behaviours below are ASSUMED of std and are tied by the differential check):

     Rust value / call                          model
     ---------------------------------------    ------------------------------------------------
     `String`, `&str`                           [ustring] = list of scalar values, [ustring_wf]
     `str::is_ascii`                            [is_ascii]   (every scalar value < 128)
     `str::bytes`, `str::as_bytes`, `.into()`   [utf8_encode]   (the UTF-8 bytes of the string)
     `str::encode_utf16`                        [utf16_encode]  (surrogate pairs above U+FFFF)
     `String::from_utf16(&[u16])`               [utf16_decode]  strict: `None` (= `Err`) on any
                                                unpaired surrogate; a leading U+FEFF is kept
     `String::from_utf8(Vec<u8>)`               [utf8_decode]   strict: `None` on overlong forms,
                                                encoded surrogates, values above U+10FFFF,
                                                stray / missing continuation bytes (Unicode
                                                definition D92); a leading U+FEFF is kept
     `u16::to_be_bytes`, `u16::from_be_bytes`   [be_bytes], [be_unit]

   Definitions only (models contain no proofs); the round-trip theorems are in
   Proofs/TextProofsUtf.v. *)
From LV Require Import Base.Bytes.
Local Open Scope N_scope.

Definition ustring := list N.

Definition is_surrogate (c : N) : bool := (0xD800 <=? c) && (c <=? 0xDFFF).
Definition is_scalarb (c : N) : bool := (c <? 0x110000) && negb (is_surrogate c).
Definition is_scalar (c : N) : Prop := is_scalarb c = true.
Definition ustring_wf (s : ustring) : Prop := Forall is_scalar s.
Definition ustring_wfb (s : ustring) : bool := forallb is_scalarb s.

Definition is_ascii (s : ustring) : bool := forallb (fun c => c <? 128) s.

(* ---------------- UTF-16 ---------------- *)

Definition utf16_encode_char (c : N) : list N :=
  if c <? 0x10000 then [c]
  else [0xD800 + (c - 0x10000) / 1024; 0xDC00 + (c - 0x10000) mod 1024].

Definition utf16_encode (s : ustring) : list N := flat_map utf16_encode_char s.

(* char::decode_utf16 collected into a Result: the first unpaired surrogate makes it an error *)
Fixpoint utf16_decode (us : list N) : option ustring :=
  match us with
  | [] => Some []
  | u :: r =>
    if negb (is_surrogate u) then option_map (cons u) (utf16_decode r)
    else if u <? 0xDC00 then
      match r with
      | l :: r' =>
        if (0xDC00 <=? l) && (l <=? 0xDFFF)
        then option_map (cons (0x10000 + (u - 0xD800) * 1024 + (l - 0xDC00))) (utf16_decode r')
        else None
      | [] => None
      end
    else None
  end.

(* u16 <-> two bytes, big endian *)
Definition be_bytes (u : N) : bytes := [byte_of_N (u / 256); byte_of_N (u mod 256)].
Definition be_unit (hi lo : byte) : N := N_of_byte hi * 256 + N_of_byte lo.

(* ---------------- UTF-8 ---------------- *)

Definition utf8_encode_char (c : N) : bytes :=
  if c <? 0x80 then [byte_of_N c]
  else if c <? 0x800 then [byte_of_N (192 + c / 64); byte_of_N (128 + c mod 64)]
  else if c <? 0x10000 then
    [byte_of_N (224 + c / 4096); byte_of_N (128 + (c / 64) mod 64); byte_of_N (128 + c mod 64)]
  else
    [byte_of_N (240 + c / 262144); byte_of_N (128 + (c / 4096) mod 64);
     byte_of_N (128 + (c / 64) mod 64); byte_of_N (128 + c mod 64)].

Definition utf8_encode (s : ustring) : bytes := flat_map utf8_encode_char s.

Definition is_cont (n : N) : bool := (128 <=? n) && (n <? 192).

Fixpoint utf8_decode (bs : bytes) : option ustring :=
  match bs with
  | [] => Some []
  | b0 :: r0 =>
    let n0 := N_of_byte b0 in
    if n0 <? 128 then option_map (cons n0) (utf8_decode r0)
    else if n0 <? 192 then None
    else if n0 <? 224 then
      match r0 with
      | b1 :: r1 =>
        let n1 := N_of_byte b1 in
        let c := (n0 - 192) * 64 + (n1 - 128) in
        if is_cont n1 && (0x80 <=? c) then option_map (cons c) (utf8_decode r1) else None
      | _ => None
      end
    else if n0 <? 240 then
      match r0 with
      | b1 :: b2 :: r2 =>
        let n1 := N_of_byte b1 in
        let n2 := N_of_byte b2 in
        let c := (n0 - 224) * 4096 + (n1 - 128) * 64 + (n2 - 128) in
        if is_cont n1 && is_cont n2 && (0x800 <=? c) && negb (is_surrogate c)
        then option_map (cons c) (utf8_decode r2) else None
      | _ => None
      end
    else if n0 <? 248 then
      match r0 with
      | b1 :: b2 :: b3 :: r3 =>
        let n1 := N_of_byte b1 in
        let n2 := N_of_byte b2 in
        let n3 := N_of_byte b3 in
        let c := (n0 - 240) * 262144 + (n1 - 128) * 4096 + (n2 - 128) * 64 + (n3 - 128) in
        if is_cont n1 && is_cont n2 && is_cont n3 && (0x10000 <=? c) && (c <? 0x110000)
        then option_map (cons c) (utf8_decode r3) else None
      | _ => None
      end
    else None
  end.
