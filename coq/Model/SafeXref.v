(* SafeXref.v -- C04 layer over xref::decode_xref_stream (src/parser_aux.rs) after the decompression step, as
   repaired by 42cc00d (field buffers at most content.len() + 1 long), 960142a (W [0 0 0] rejected) and 7320cb4
   (object numbers by wrapping_add), and over Reader::search_substring / get_xref_start (src/reader.rs).
   What the entries ARE is C02's business (Model/Xref.v); here: the panic sites (`vec![0; w as usize]`, `start + j`,
   `field_widths[k]`), the loop whose bound `count` the file chooses, the steps and the allocation requests.
   [pinned = true] runs the code as it was before the three repairs.  Definitions only. *)
From LV Require Import Base.Bytes Model.Safe.
Local Open Scope N_scope.

Definition blen (l : bytes) : N := N.of_nat (length l).

(* read_big_endian_integer(reader, buffer): read_exact fills the whole buffer or fails; the value is irrelevant here
   except for the entry type, which is the big-endian value modulo 2^32 *)
Definition be_value (f : bytes) : N := fold_left (fun v b => (v * 256 + N_of_byte b) mod 4294967296) f 0.
Definition sread (buflen : N) (s : bytes) : M (N * bytes) :=
  if blen s <? buflen then fail
  else tick buflen ;;; ret (be_value (firstn (N.to_nat buflen) s), skipn (N.to_nat buflen) s).

(* one iteration of `for j in 0..count`; result: did it insert an entry, and the rest of the data *)
Definition sxrow (b0 b1 b2 : N) (s : bytes) : M (bool * bytes) :=
  t <- (if b0 =? 0 then ret (1, s) else sread b0 s) ;;
  if fst t =? 0 then
    r1 <- sread b1 (snd t) ;; r2 <- sread b2 (snd r1) ;; ret (false, snd r2)
  else if fst t =? 1 then
    r1 <- sread b1 (snd t) ;;
    r2 <- (if b2 =? 0 then ret (0, snd r1) else sread b2 (snd r1)) ;;
    ret (true, snd r2)
  else if fst t =? 2 then
    r1 <- sread b1 (snd t) ;; r2 <- sread b2 (snd r1) ;; ret (true, snd r2)
  else ret (false, snd t).

(* the key of an inserted entry: (start + j) as u32 in the pinned tree (i64 addition, a site), start.wrapping_add(j)
   as u32 now *)
Definition skey (pinned : bool) (start j : Z) : M unit :=
  if pinned then (_ <- i64_add start j ;; ret tt) else ret tt.

(* `for j in 0..count`: [n] counts the insertions (each is one BTreeMap node of constant size) *)
Fixpoint sxrows (fuel : nat) (pinned : bool) (b0 b1 b2 : N) (start count j : Z) (s : bytes) (n : N) : M (N * bytes) :=
  if (count <=? j)%Z then ret (n, s)
  else
    match fuel with
    | O => out_of_fuel
    | S fuel' =>
      tick 1 ;;;
      r <- sxrow b0 b1 b2 s ;;
      (if fst r then skey pinned start j else ret tt) ;;;
      sxrows fuel' pinned b0 b1 b2 start count (j + 1)%Z (snd r) (if fst r then n + 1 else n)
    end.

(* `for i in 0..section_indice.len() / 2`; the fuel of every section is what is left of the data plus one *)
Fixpoint sxsections (pinned : bool) (fuel_of : bytes -> nat) (idx : list Z) (b0 b1 b2 : N) (s : bytes) (n : N) : M N :=
  match idx with
  | start :: count :: idx' =>
    tick 1 ;;;
    r <- sxrows (fuel_of s) pinned b0 b1 b2 start count 0%Z s n ;;
    sxsections pinned fuel_of idx' b0 b1 b2 (snd r) (fst r)
  | _ => ret n
  end.

Definition ROW_FUEL (s : bytes) : nat := S (length s).

(* decode_xref_stream after decompression: [ws] = the W array, [index] = the Index array (or [0, Size]) *)
Definition sxref_stream_gen (pinned : bool) (fuel_of : bytes -> nat) (index ws : list Z) (content : bytes) : M N :=
  request (8 * N.of_nat (length index)) ;;; request (8 * N.of_nat (length ws)) ;;;     (* parse_integer_array: with_capacity(array.len()) *)
  if (N.of_nat (length ws) <? 3) then fail
  else
    w0 <- idx ws 0 ;; w1 <- idx ws 1 ;; w2 <- idx ws 2 ;;                            (* field_widths[0..2] *)
    if ((w0 <? 0) || (w1 <? 0) || (w2 <? 0))%Z then fail
    else if negb pinned && ((w0 =? 0) && (w1 =? 0) && (w2 =? 0))%Z then fail
    else
      let widest := blen content + 1 in
      let cap (w : Z) := if pinned then as_usize w else N.min (as_usize w) widest in
      request_chosen (cap w0) ;;; request_chosen (cap w1) ;;; request_chosen (cap w2) ;;;   (* vec![0_u8; ..] *)
      sxsections pinned fuel_of index (cap w0) (cap w1) (cap w2) content 0.

Definition sxref_stream := sxref_stream_gen false ROW_FUEL.
Definition sxref_stream_pinned (fuel : nat) := sxref_stream_gen true (fun _ => fuel).

(* ---------------- Reader::search_substring / get_xref_start ---------------- *)
(* fn search_substring(buffer, pattern, start_pos): the scan loop, then on a match at [res] the RECURSIVE call
   search_substring(buffer, pattern, res + 1).or(Some(res)): the recursion depth is the number of occurrences of the
   pattern after start_pos.  [fuel] bounds the scan steps of one activation and the number of activations. *)
Fixpoint scan (fuel : nat) (buffer pattern : list byte) (seek index : N) : M (option N) :=
  (* while seek_pos < buffer.len() && index < pattern.len() *)
  match fuel with
  | O => out_of_fuel
  | S f =>
    if (seek <? blen buffer) && (index <? blen pattern) then
      tick 1 ;;;
      b <- idx buffer seek ;;                                  (* buffer[seek_pos] *)
      p <- idx pattern index ;;                                (* pattern[index] *)
      st <- (if byte_eqb b p then i <- usize_add index 1 ;; ret (seek, i)
             else if 0 <? index then s <- ck_sub seek index ;; ret (s, 0)      (* seek_pos -= index *)
             else ret (seek, index)) ;;
      s1 <- usize_add (fst st) 1 ;;                            (* seek_pos += 1 *)
      if snd st =? blen pattern then r <- ck_sub s1 (snd st) ;; ret (Some r)   (* let res = seek_pos - index *)
      else scan f buffer pattern s1 (snd st)
    else ret None
  end.

Fixpoint ssearch (depth_fuel : nat) (scan_fuel : nat) (buffer pattern : list byte) (start : N) : M (option N) :=
  match depth_fuel with
  | O => out_of_fuel
  | S d =>
    r <- scan scan_fuel buffer pattern start 0 ;;
    match r with
    | None => ret None
    | Some res =>
      n <- usize_add res 1 ;;
      r' <- deeper (ssearch d scan_fuel buffer pattern n) ;;
      ret (match r' with Some x => Some x | None => Some res end)
    end
  end.

(* Reader::get_xref_start(buffer): the last "%%EOF" of the last 512 bytes, then the last "startxref" from 25 bytes before
   it; `buffer.len() - cmp::min(buffer.len(), 512)`, `eof_pos - 25` (guarded by `eof_pos > 25`) and `&buffer[xref_pos..]`
   (guarded by `xref_pos <= buffer.len()`) are the sites.  The fuels: one activation per byte of the window. *)
Definition K_EOF : bytes := Eval cbv in bs "%%EOF".
Definition K_STARTXREF : bytes := Eval cbv in bs "startxref".
Definition XREF_WINDOW : N := 512.
Definition XREF_BACK : N := 25.
Definition SCAN_FUEL (buffer pattern : bytes) : nat := S (N.to_nat ((blen buffer + 1) * (blen pattern + 1))).
Definition sget_xref_start (buffer : bytes) : M N :=
  let len := blen buffer in
  seek_pos <- ck_sub len (N.min len XREF_WINDOW) ;;
  r <- ssearch (S (N.to_nat XREF_WINDOW)) (SCAN_FUEL buffer K_EOF) buffer K_EOF seek_pos ;;
  match r with
  | None => fail
  | Some eof_pos =>
    if XREF_BACK <? eof_pos then
      start <- ck_sub eof_pos XREF_BACK ;;
      r2 <- ssearch (S (N.to_nat (XREF_WINDOW + XREF_BACK))) (SCAN_FUEL buffer K_STARTXREF) buffer K_STARTXREF start ;;
      match r2 with
      | None => fail
      | Some xref_pos =>
        if xref_pos <=? len then (_ <- slice_from buffer xref_pos ;; ret xref_pos) else fail
      end
    else fail
  end.
