(* QueryV0.v -- the walkers and panic sites of the UNREPAIRED tree (before de22aab, bcaf31f, a720232, 88fe34a,
   89b7063, 8ad6800, e154731), kept to state what was wrong: Props/C13.v proves the refutations on these
   definitions with 3-4 object witnesses; every witness was replayed on the unrepaired crate in an isolated
   worker (notes/C13.md).  Definitions only.  Everything not redefined here was unchanged by the repairs. *)
From LV Require Import Base.Bytes Base.Sx Model.Obj Model.DocQ Model.PageTree Model.Utf Model.Query
  Gen.Consts Gen.QueryC.
From LV Require Model.Toc.

Definition ISIZE_MAX : N := 9223372036854775807.
Definition PAGE_ENTRY_BYTES : N := 12.          (* size_of::<(u32, (u32, u16))>() *)

(* ---- size_hint: `.sum()` with overflow checks, no clamp; collect(): Vec::with_capacity ---- *)
Fixpoint sum_v0 (m : objmap) (l : list obj) (acc : N) : out N :=
  match l with
  | [] => Ok acc
  | k :: l' => let s := (acc + hint_of_kid m k)%N in
               if (USIZE_MAX <? s)%N then Panic POverflow else sum_v0 m l' s
  end.
(* (nb_pages, Some(nb_pages)): the same unclamped sum was promised as lower AND upper bound *)
Definition size_hint_v0 (m : objmap) (kids : list obj) (stack : list (list obj)) : out N :=
  sum_v0 m (kids ++ concat stack) 0%N.

(* the upper bound promised before the first next() on a document *)
Definition hint_upper_v0 (d : doc) : out N := size_hint_v0 (d_objects d) (root_kids d) [].

(* outcome of get_pages and the number of elements requested from the allocator *)
Definition get_pages_v0 (d : doc) : out (list (N * oid)) * N :=
  let m := d_objects d in
  match iter_next (length m) m (root_kids d) [] with
  | (None, _) => (Ok [], 0%N)
  | (Some _, (_, ks, st)) =>
    match size_hint_v0 m ks st with
    | Ok lower =>
      let cap := N.max 4 (sat_add lower 1) in
      if (ISIZE_MAX <? cap * PAGE_ENTRY_BYTES)%N then (Panic PCapacity, cap)       (* capacity overflow *)
      else (Ok (get_pages d), cap)          (* a request the allocator refuses aborts the process *)
    | Panic p => (Panic p, 0%N)
    | Err => (Err, 0%N)
    | OutOfFuel => (OutOfFuel, 0%N)
    end
  end.

(* ---- build_outline_result: obj_array[0], obj_array[1] ---- *)
Definition bor_direct_v0 (dst title : obj) (nm : nmap) : nmap * out (option outline) :=
  match dst with
  | OArr (a0 :: a1 :: _) => (nm, Ok (Some (ODest (title, a0, a1))))
  | OArr _ => (nm, Panic PIndex)
  | _ => bor_direct dst title nm
  end.

Definition build_outline_result_v0 (m : objmap) (dst title : obj) (nm : nmap) : nmap * out (option outline) :=
  match dst with
  | ORef i g => match get_object m (i, g) with
                | Some o => bor_direct_v0 o title nm
                | None => (nm, Err)
                end
  | _ => bor_direct_v0 dst title nm
  end.

Definition get_outline_v0 (m : objmap) (node : dict) (nm : nmap) : nmap * out (option outline) :=
  match get_dict_in_dict m node Q_A with
  | None =>
    match dict_get node Q_Dest, dict_get node Q_Title with
    | Some dst, Some title => build_outline_result_v0 m dst title nm
    | _, _ => (nm, Err)
    end
  | Some action =>
    match dict_get action Q_S with
    | Some (OName command) =>
      if bytes_eqb command Q_GoTo || bytes_eqb command Q_GoToR then
        match dict_get node Q_Title with
        | Some (ORef i g) =>
          match dict_get action Q_D, get_object m (i, g) with
          | Some d, Some t => build_outline_result_v0 m d t nm
          | _, _ => (nm, Err)
          end
        | Some (OStr s h) =>
          match dict_get action Q_D with
          | Some d => build_outline_result_v0 m d (OStr s h) nm
          | None => (nm, Err)
          end
        | _ => (nm, Err)
        end
      else (nm, Err)
    | _ => (nm, Err)
    end
  end.

(* ---- get_outlines: no budget, no depth limit ---- *)
Definition olres0 := (nmap * out (list outline))%type.

Fixpoint ol_walk_v0 (fuel : nat) (m : objmap) (node : dict) (nm : nmap) : olres0 :=
  match fuel with
  | O => (nm, OutOfFuel)
  | S f =>
    let '(nm1, r) := get_outline_v0 m node nm in
    match r with
    | OutOfFuel => (nm1, OutOfFuel)
    | Panic p => (nm1, Panic p)
    | _ =>
      let item := match r with Ok (Some o) => [o] | _ => [] end in
      let sub : olres0 :=
        match dict_get node Q_First with
        | None => (nm1, Ok [])
        | Some first =>
          let fd := match first with
                    | ODict fd => Some fd
                    | ORef i g => match get_object m (i, g) with Some (ODict fd) => Some fd | _ => None end
                    | _ => None
                    end in
          match fd with
          | None => (nm1, Err)
          | Some fd =>
            match ol_walk_v0 f m fd nm1 with
            | (nm2, Ok []) => (nm2, Ok [])
            | (nm2, Ok subs) => (nm2, Ok [OSub subs])
            | e => e
            end
          end
        end in
      match sub with
      | (nm2, Ok s) =>
        match get_dict_in_dict m node Q_Next with
        | Some n =>
          match ol_walk_v0 f m n nm2 with
          | (nm3, Ok r') => (nm3, Ok (item ++ s ++ r'))
          | e => e
          end
        | None => (nm2, Ok (item ++ s))
        end
      | e => e
      end
    end
  end.

(* ---- get_named_destinations: unwraps, indexing, unbounded Kids recursion ---- *)
Definition nd_entry_v0 (nm : nmap) (key : obj) (arr : list obj) : out nmap :=
  match arr with
  | a0 :: a1 :: _ =>
    match key with
    | OStr s _ => Ok (nm_insert nm s (key, a0, a1))
    | _ => Panic PUnwrap                                   (* key.as_str().unwrap() *)
    end
  | _ => Panic PIndex                                      (* val[0] / val[1] *)
  end.

Definition nd_from_dict_v0 (nm : nmap) (key : obj) (dd : dict) : out nmap :=
  match dict_get dd Q_D with
  | None => Panic PUnwrap                                  (* dict.get(b"D").as_ref().unwrap() *)
  | Some (OArr v) => nd_entry_v0 nm key v
  | Some _ => Err
  end.

Fixpoint nd_names_v0 (m : objmap) (l : list obj) (nm : nmap) : nmap * out unit :=
  match l with
  | key :: val :: l' =>
    let step : out nmap :=
      match val with
      | ORef i g =>
        match get_dictionary m (i, g) with
        | Some dd => nd_from_dict_v0 nm key dd
        | None => match get_object m (i, g) with
                  | Some (OArr v) => nd_entry_v0 nm key v
                  | _ => Ok nm
                  end
        end
      | ODict dd => nd_from_dict_v0 nm key dd
      | _ => Ok nm
      end in
    match step with
    | Ok nm' => nd_names_v0 m l' nm'
    | Err => (nm, Err)
    | Panic p => (nm, Panic p)
    | OutOfFuel => (nm, OutOfFuel)
    end
  | _ => (nm, Ok tt)
  end.

Fixpoint nd_kids_v0 (rec : dict -> nmap -> nmap * out unit) (m : objmap) (l : list obj) (nm : nmap) : nmap * out unit :=
  match l with
  | [] => (nm, Ok tt)
  | ORef i g :: l' =>
    match get_dictionary m (i, g) with
    | Some kd => match rec kd nm with
                 | (nm', Ok _) => nd_kids_v0 rec m l' nm'
                 | r => r
                 end
    | None => nd_kids_v0 rec m l' nm
    end
  | _ :: l' => nd_kids_v0 rec m l' nm
  end.

Fixpoint nd_walk_v0 (fuel : nat) (m : objmap) (tree : dict) (nm : nmap) : nmap * out unit :=
  match fuel with
  | O => (nm, OutOfFuel)
  | S f =>
    let after_kids :=
      match dict_get tree K_Kids with
      | Some (OArr l) => nd_kids_v0 (nd_walk_v0 f m) m l nm
      | Some _ => (nm, Err)
      | None => (nm, Ok tt)
      end in
    match after_kids with
    | (nm1, Ok _) =>
      match dict_get tree Q_Names with
      | Some (OArr l) => nd_names_v0 m l nm1
      | Some _ => (nm1, Err)
      | None => (nm1, Ok tt)
      end
    | r => r
    end
  end.

(* ---- get_outlines(None, None) and get_toc on the unrepaired walkers ---- *)
Definition outline_start (d : doc) : option (dict * option dict) :=
  let m := d_objects d in
  match catalog d with
  | None => None
  | Some cat =>
    match get_dict_in_dict m cat Q_Outlines with
    | None => None
    | Some od => Some (match get_dict_in_dict m od Q_First with Some f => f | None => od end, named_tree m cat)
    end
  end.

Definition get_outlines_v0 (fuel : nat) (d : doc) : olres0 :=
  let m := d_objects d in
  match outline_start d with
  | None => ([], Err)
  | Some (dict_node, tree) =>
    let '(nm, r) := match tree with Some t => nd_walk_v0 fuel m t [] | None => ([], Ok tt) end in
    match r with
    | Ok _ => ol_walk_v0 fuel m dict_node nm
    | Err => (nm, Err)
    | Panic p => (nm, Panic p)
    | OutOfFuel => (nm, OutOfFuel)
    end
  end.

Definition get_toc_v0 (fuel : nat) (d : doc) : out (list Toc.toc_entry * N) :=
  obind' (snd (get_outlines_v0 fuel d)) (fun outs =>
    match setup_all outs [] 1 with
    | None => Err
    | Some ids => obind' (fst (get_pages_v0 d)) (fun pages => Ok (Toc.toc_rows pages ids))
    end).

(* ---- get_page_images: array[0] on the ColorSpace array ---- *)
Definition image_of_v0 (m : objmap) (xvalue : obj) : out (option image) :=
  match xvalue with
  | ORef i g =>
    match get_object m (i, g) with
    | Some (OStream sd _) =>
      match dict_get sd Q_Subtype, dict_get sd Q_Width, dict_get sd Q_Height, dict_get sd Q_ColorSpace with
      | Some (OName st), Some (OInt _), Some (OInt _), Some (OArr []) =>
        if bytes_eqb st Q_Image then Panic PIndex else of_opt (image_of m xvalue)
      | _, _, _, _ => of_opt (image_of m xvalue)
      end
    | _ => of_opt (image_of m xvalue)
    end
  | _ => of_opt (image_of m xvalue)
  end.

Fixpoint images_of_v0 (m : objmap) (xs : dict) : out (list image) :=
  match xs with
  | [] => Ok []
  | (_, v) :: xs' =>
    obind' (image_of_v0 m v) (fun oi =>
      obind' (images_of_v0 m xs') (fun r => Ok (match oi with Some im => im :: r | None => r end)))
  end.

Definition get_page_images_v0 (m : objmap) (pid : oid) : out (list image) :=
  match get_dictionary m pid with
  | None => Ok []
  | Some page =>
    match get_dict_in_dict m page Q_Resources with
    | None => Err
    | Some rs => match get_dict_in_dict m rs Q_XObject with
                 | None => Err
                 | Some xs => images_of_v0 m xs
                 end
    end
  end.
