(* SaveState.v -- what a save does to the Document it is called on (src/writer.rs), and therefore
   what a FAILED save leaves behind (property C19, resave clause).

   Document::save_internal (not IncrementalDocument's) begins, before anything is written, with
     self.max_id = self.objects.keys().next_back().map_or(self.max_id, |id| self.max_id.max(id.0));
   (/repo 19ab1a6): max_id is raised to the largest object number [raise_max_id].  This happens in EVERY
   save, also one that fails at the first byte, and is idempotent.
   After that save_internal mutates the document at exactly one point:
     * cross-reference TABLE : `write_trailer` starts with `self.trailer.set("Size", max_id + 1)`; it is
       reached after the header, the binary mark, every object and the xref table have been written;
     * cross-reference STREAM: `write_cross_reference_stream` starts with `self.max_id += 1` and then
       sets Type, Size, W, Index, (removes Filter), Length in `self.trailer`; it is reached after the
       header, the binary mark and every object have been written.
   Everything written before that point (`pre`) does not read the trailer; everything after it
   (`post`) is written from the mutated document.  IncrementalDocument::save_internal calls the
   same two functions on `new_document`.

   The byte content of `pre`/`post` is a parameter here (Model/Save.v gives it); this file models
   the STATE: (max_id, trailer) before and after.  Definitions only. *)
From LV Require Import Base.Bytes Model.Obj Model.Sink.

Definition K_Size := Eval cbv in bs "Size".
Definition K_W := Eval cbv in bs "W".
Definition K_Index := Eval cbv in bs "Index".
Definition K_XRef := Eval cbv in bs "XRef".

Record sstate := { s_max_id : N; s_trailer : dict }.

Inductive xmode := XTable | XStream.

(* write_trailer: self.trailer.set("Size", i64::from(self.max_id + 1)) *)
Definition mutate_table (st : sstate) : sstate :=
  {| s_max_id := s_max_id st;
     s_trailer := dict_set (s_trailer st) K_Size (OInt (Z.of_N (s_max_id st + 1))) |}.

(* Writer::create_xref_steam, the part that decides Index and Length: the loop
     for obj_id in 1..xref.size + 1 { if section.is_empty() { section = new(obj_id) }
        if let Some(entry) = xref.get(obj_id) { section.add_entry(entry) }
        else if !section.is_empty() { sections.push(section); section = new(obj_id) } }
     if !section.is_empty() { sections.push(section) }
   over the ids that have an xref entry.  [cur] = (starting id, number of entries) of the open section;
   the result lists (start, count) per section, in order. *)
Fixpoint xref_sections (fuel : nat) (present : N -> bool) (obj_id : N) (cur : N * N) : list (N * N) :=
  match fuel with
  | O => if (snd cur =? 0)%N then [] else [cur]
  | S f =>
    let cur := if (snd cur =? 0)%N then (obj_id, 0%N) else cur in
    if present obj_id then xref_sections f present (obj_id + 1) (fst cur, snd cur + 1)%N
    else if (snd cur =? 0)%N then xref_sections f present (obj_id + 1) cur
         else cur :: xref_sections f present (obj_id + 1) (obj_id, 0%N)
  end.

Definition index_of (secs : list (N * N)) : obj :=
  OArr (flat_map (fun s => [OInt (Z.of_N (fst s)); OInt (Z.of_N (snd s))]) secs).
Definition entries_of (secs : list (N * N)) : N := fold_right (fun s a => snd s + a)%N 0%N secs.

(* write_cross_reference_stream up to (not including) the write of the stream object.
   [ids] = the object numbers written by this save (each got `xref.insert(id, Normal{..})`);
   xref.size = old max_id + 1 = the new max_id, which is also the stream's own object number. *)
Definition mutate_stream (ids : list N) (st : sstate) : sstate :=
  let m := (s_max_id st + 1)%N in                                       (* self.max_id += 1 *)
  let present := fun i => existsb (N.eqb i) ids || (i =? m)%N in          (* xref.insert(new_obj_id_for_crs, ..) *)
  let secs := xref_sections (N.to_nat m) present 1 (0, 0)%N in
  let t := s_trailer st in
  let t := dict_set t K_Type (OName K_XRef) in
  let t := dict_set t K_Size (OInt (Z.of_N (m + 1))) in
  let t := dict_set t K_W (OArr [OInt 1; OInt 4; OInt 2]) in
  let t := dict_set t K_Index (index_of secs) in
  let t := dict_swap_remove t K_Filter in                               (* filter == None *)
  let t := dict_set t K_Length (OInt (Z.of_N (7 * entries_of secs))) in (* 1 + 4 + 2 bytes per entry *)
  {| s_max_id := m; s_trailer := t |}.

(* [top] = Some (largest object number in self.objects) for Document::save_internal; None for
   IncrementalDocument::save_internal, which has no such statement (and when objects is empty) *)
Definition raise_max_id (top : option N) (st : sstate) : sstate :=
  match top with
  | None => st
  | Some t => {| s_max_id := N.max (s_max_id st) t; s_trailer := s_trailer st |}
  end.

Definition mutate (mode : xmode) (ids : list N) (st : sstate) : sstate :=
  match mode with XTable => mutate_table st | XStream => mutate_stream ids st end.

(* one save: the raise, the calls before the mutation point, the mutation, the calls after it *)
Definition save_with (wa : script -> bytes -> wres * bytes * script)
           (mode : xmode) (ids : list N) (top : option N) (pre post : list bytes) (st : sstate) (s : script)
  : wres * bytes * sstate :=
  let st0 := raise_max_id top st in
  let '(r1, d1, c1) := run_cw wa pre {| cw_inner := s; cw_count := 0 |} in
  match r1 with
  | WErr e => (WErr e, d1, st0)
  | WOk =>
    let '(r2, d2, _) := run_cw wa post c1 in (r2, d1 ++ d2, mutate mode ids st0)
  end.

(* ---- IncrementalDocument::save_internal (src/writer.rs) ----
   struct IncrementalDocument { bytes_documents: Vec<u8>, prev_documents: Document, pub new_document: Document }.
   save_internal reads `bytes_documents` and `prev_documents` through the `&self` getters get_prev_documents_bytes() /
   get_prev_documents() only (the latter for reference_table.cross_reference_type, which decides the format [mode]:
   it is the PREVIOUS document's, not a parameter of the save), so neither can change; `new_document` is mutated at
   the same single point as in the plain save (`self.new_document.write_trailer(..)` resp.
   `self.new_document.write_cross_reference_stream(..)`).  There is NO raise of max_id to the largest object number
   here (that statement exists in Document::save_internal only): [top = None], [raise_max_id None st = st].
   The state: the previous bytes and (max_id, trailer) of new_document. *)
Record istate := { is_prev : bytes; is_new : sstate }.

(* one incremental save.
     let prev_document_bytes = self.get_prev_documents_bytes();
     target.inner.write_all(prev_document_bytes)?;                        -- [cw_write_all_after]: around the counter;
     target.bytes_written += prev_document_bytes.len() - header_offset;      an error returns at once, nothing else happened
     ... Xref::new(self.new_document.max_id + 1, prev type) ...
   [pre]  = `writeln!(target)?` when the previous bytes do not end in '\n', the "%PDF-" line, the binary mark, the objects
            of new_document, and in the table format the cross-reference table (Writer::write_xref), each under `?`;
   then the mutation (write_trailer: Size / write_cross_reference_stream: max_id += 1, Type Size W Index, Filter, Length);
   [post] = "trailer\n" + dictionary resp. the cross-reference stream object, then the startxref lines.
   Result: what save_to returns, the bytes the sink holds, the IncrementalDocument afterwards. *)
Definition save_inc_with (wa : script -> bytes -> wres * bytes * script)
           (mode : xmode) (ids : list N) (pre post : list bytes) (st : istate) (s : script)
  : wres * bytes * istate :=
  let prev := is_prev st in
  let '(r0, d0, c0) := cw_write_all_after wa {| cw_inner := s; cw_count := 0 |} prev in
  match r0 with
  | WErr e => (WErr e, d0, st)
  | WOk =>
    let '(r1, d1, c1) := run_cw wa pre c0 in
    match r1 with
    | WErr e => (WErr e, d0 ++ d1, st)
    | WOk =>
      let '(r2, d2, _) := run_cw wa post c1 in
      (r2, d0 ++ d1 ++ d2, {| is_prev := prev; is_new := mutate mode ids (is_new st) |})
    end
  end.
