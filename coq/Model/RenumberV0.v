(* RenumberV0.v -- renumber_objects_with as it is on the PINNED tree (before the C10 `fix:` commits),
   branch for branch.  Kept so that the refutations of C10 on the unchanged code stay
   machine-checked (Props/C10.v, `..._v0_refuted`); validated against the pinned crate by the same
   harness before the repairs were committed (notes/C10.md).  Differences to Model/Renumber.v:
   - bookmarks are renamed one (old, new) pair at a time, in sequence (update_bookmark_pages);
   - the page-order pass gives page k the NUMBER of the k-th smallest page id but keeps its own
     generation, and does not skip a page that page_iter yields twice;
   - `new_id += 1` / `new_id - 1` on u32 (checked => Panic).
   Definitions only. *)
From LV Require Import Base.Bytes Base.Sx Model.Obj Model.DocQ Model.PageTree Model.Traverse Model.Renumber.

(* for (old, new) in pages.iter().zip(page_order) {
     if let Some(object) = self.objects.remove(&old.1) {
        objects.insert((new.1 .0, old.1 .1), object); replace.insert(old.1, (new.1 .0, old.1 .1)); }
     if old.1 != new.1 { self.renumber_bookmarks(&old.1, &(new.1 .0, old.1 .1)); } } *)
Fixpoint page_moves_v0 (pairs : list (oid * oid)) (m collected : objmap) (r : rmap) (roots : list N) (t : bmtable)
  : option (objmap * objmap * rmap * bmtable) :=
  match pairs with
  | [] => Some (m, collected, r, t)
  | (old, new) :: ps =>
    let nid := (fst new, snd old) in
    let '(m1, c1, r1) :=
      match lookup m old with
      | Some o => (remove m old, insert collected nid o, (old, nid) :: r)
      | None => (m, collected, r)
      end in
    match (if oid_eqb old new then Some t else renumber_bookmarks old nid roots t) with
    | None => None
    | Some t1 => page_moves_v0 ps m1 c1 r1 roots t1
    end
  end.

Inductive pass_v0 := P0 (d : rdoc) | P0StackOverflow | P0OutOfFuel.

Definition page_order_pass_v0 (d : rdoc) : pass_v0 :=
  let pages := page_iter (base d) in
  let numbered := number_from 1 pages in
  let page_order := sort_by_id numbered in
  if needs_ordering_from 1 page_order then
    let pairs := combine pages (map snd page_order) in
    match page_moves_v0 pairs (d_objects (base d)) [] [] (bookmarks d) (bm_table d) with
    | None => P0StackOverflow
    | Some (m1, collected, r, t') =>
      let m2 := insert_all collected m1 in
      match traverse_objects (rename_of r) (trav_fuel (d_trailer (base d)) m2) (d_trailer (base d)) m2 with
      | Some (tr', m3, _) =>
        P0 {| base := with_objects (base d) tr' m3 (d_max_id (base d));
              max_bookmark_id := max_bookmark_id d; bookmarks := bookmarks d; bm_table := t' |}
      | None => P0OutOfFuel
      end
    end
  else P0 d.

(* for id in ids { if id.0 != new_id { replace.insert(id, (new_id, id.1)) }  new_id += 1 } *)
Fixpoint dense_replace_v0 (ids : list oid) (new_id : N) : option (rmap * N) :=
  match ids with
  | [] => Some ([], new_id)
  | id :: ids' =>
    if (new_id <? U32_MAX)%N then
      match dense_replace_v0 ids' (new_id + 1) with
      | None => None
      | Some (r, l) => Some (if (fst id =? new_id)%N then r else (id, (new_id, snd id)) :: r, l)
      end
    else None                                   (* attempt to add with overflow *)
  end.

(* for (old, new) in &replace { remove/collect; if old != new { self.renumber_bookmarks(old, new) } } *)
Fixpoint dense_moves_v0 (r : rmap) (m collected : objmap) (roots : list N) (t : bmtable)
  : option (objmap * objmap * bmtable) :=
  match r with
  | [] => Some (m, collected, t)
  | (old, new) :: r' =>
    let '(m1, c1) := match lookup m old with
                     | Some o => (remove m old, insert collected new o)
                     | None => (m, collected)
                     end in
    match (if oid_eqb old new then Some t else renumber_bookmarks old new roots t) with
    | None => None
    | Some t1 => dense_moves_v0 r' m1 c1 roots t1
    end
  end.

Definition dense_pass_v0 (start : N) (d : rdoc) : outcome :=
  let m := d_objects (base d) in
  match dense_replace_v0 (map fst m) start with
  | None => Panic
  | Some (r, new_id) =>
    match dense_moves_v0 r m [] (bookmarks d) (bm_table d) with
    | None => StackOverflow
    | Some (m1, collected, t') =>
      let m2 := insert_all collected m1 in
      match traverse_objects (rename_of r) (trav_fuel (d_trailer (base d)) m2) (d_trailer (base d)) m2 with
      | Some (tr', m3, _) =>
        if (new_id =? 0)%N then Panic                 (* attempt to subtract with overflow *)
        else Done {| base := with_objects (base d) tr' m3 (new_id - 1);
                     max_bookmark_id := max_bookmark_id d; bookmarks := bookmarks d; bm_table := t' |}
      | None => OutOfFuel
      end
    end
  end.

Definition renumber_objects_with_v0 (start : N) (d : rdoc) : outcome :=
  match page_order_pass_v0 d with
  | P0 d1 => dense_pass_v0 start d1
  | P0StackOverflow => StackOverflow
  | P0OutOfFuel => OutOfFuel
  end.
