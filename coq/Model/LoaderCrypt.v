(* LoaderCrypt.v -- Model/LoaderEnc.v's reader with the decrypt attempt instantiated by property C05's model of the
   standard security handler (Model/Crypto/Handler.v).  The last lines of Reader::read (src/reader.rs):

       let mut document = self.document;
       if document.authenticate_password("").is_ok() {
           document.decrypt("")?;
       }
       Ok(document)

   authenticate_password (src/document.rs): Err(NotEncrypted) unless is_encrypted(); PasswordAlgorithm::try_from;
   sanitize_password; authenticate_owner_password(..).or(authenticate_user_password(..)) -- `or` evaluates both.
   Any Err (no encryption dictionary, a damaged one, the empty password is neither the user nor the owner password)
   leaves the document as it was read: STILL ENCRYPTED, with its Encrypt entry; the caller decrypts it later with
   Document::decrypt(password).  On Ok, Document::decrypt("") runs: its error (a ciphertext that does not decrypt:
   DecryptionError::Padding ..) is the error of the whole load; on success the document comes back decrypted, without
   the Encrypt entry and without the encryption dictionary object, object streams expanded by decrypt_raw's own pass,
   which consults the cross-reference table of the file ([xr_of]: the Compressed entries).
   The empty password is the same byte string before and after preparation (PDFDocEncoding / SASLprep of "").
   Definitions only; separate from LoaderEnc.v so that property C01's files do not depend on the cryptographic
   development. *)
From LV Require Import Base.Bytes Model.Obj Model.Xref Model.Loader Model.LoaderExt Model.LoaderEnc
  Model.Crypto.Handler.

Local Open Scope N_scope.

(* Document::authenticate_password, the password already prepared (Handler.sanitize_password keeps the revision test) *)
Definition authenticate_password (P : prims) (d : doc) (pw : bytes) : res unit :=
  if negb (is_encrypted d) then Err E_NotEncrypted
  else
    rlet a := palg_of_doc d in
    rlet pw' := sanitize_password a pw in
    match auth_owner P a d pw', auth_user P a d pw' with
    | Panic, _ => Panic
    | _, Panic => Panic
    | Ok _, _ => Ok tt
    | Err _, r => r
    end.

(* Document.reference_table as decrypt_raw's object-stream pass reads it: object number -> container of a Compressed
   entry *)
Definition xr_of (x : xmap) (n : N) : option N :=
  match xget x n with Some (XCompressed c _) => Some c | _ => None end.

(* what Document::load_* answers *)
Inductive cres :=
| CLoad (r : lres)            (* the reader's own answer; [LOk d t] also when d was decrypted on the way *)
| CDecryptErr (e : err)       (* document.decrypt("")? : the load fails with the error of the decryption *)
| CDecryptPanic.

Definition after_crypt (P : prims) (x : xmap) (d : doc) (t : xtype) : cres :=
  match authenticate_password P d [] with
  | Ok _ =>
    match doc_decrypt_x P (xr_of x) d [] with
    | DOk d' _ => CLoad (LOk d' t)
    | DErr e => CDecryptErr e
    | DErrMid e => CDecryptErr e
    | DPanic => CDecryptPanic
    end
  | Err _ => CLoad (LOk d t)
  | Panic => CDecryptPanic
  end.

(* Document::load_mem / load / load_from.  Stream::decompress is the [p_decompress] of the primitives (the reader and
   decrypt_raw call the same function); [can_decompress]: the instance covers the filters of this dictionary *)
Definition load_crypt (P : prims) (can_decompress : dict -> bool) : bytes -> cres :=
  load_encx (p_decompress P) can_decompress cres CLoad (after_crypt P).
