(* RenumberV1.v -- the dense pass of renumber_objects_with as it was BEFORE the repair of the finding
   C10/dangling-in-range (/repo up to 19ab1a6): a reference or bookmark target that names no object is
   left as it is, so that its number can be given to another object.  Kept so that the refutation stays
   machine-checked (Props/C10.v, C10_dangling_v1_refuted); it is the text Model/Renumber.v had, validated
   against the crate by the correspondence runs of rounds 1 and 2.  Definitions only. *)
From LV Require Import Base.Bytes Base.Sx Model.Obj Model.DocQ Model.PageTree Model.Traverse Model.Renumber.

Definition dense_pass_v1 (start : N) (d : rdoc) : outcome :=
  let m := d_objects (base d) in
  let ids := map fst m in                                  (* keys().collect(); sort_unstable(): already sorted *)
  match dense_replace ids (Some start) (if (start =? 0)%N then 0 else start - 1)%N with
  | None => Panic
  | Some (r, last) =>
    let '(m1, collected) := dense_moves r m [] in
    let m2 := insert_all collected m1 in
    let f := rename_of r in
    let t' := renumber_bookmarks_with f (bm_table d) in
    match traverse_objects f (trav_fuel (d_trailer (base d)) m2) (d_trailer (base d)) m2 with
    | Some (tr', m3, _) =>
      Done {| base := with_objects (base d) tr' m3 last;
              max_bookmark_id := max_bookmark_id d; bookmarks := bookmarks d; bm_table := t' |}
    | None => OutOfFuel
    end
  end.

Definition renumber_objects_with_v1 (start : N) (d : rdoc) : outcome :=
  match page_order_pass d with
  | Some d1 => dense_pass_v1 start d1
  | None => OutOfFuel
  end.
