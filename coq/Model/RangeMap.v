(* RangeMap.v -- model of rangemap 1.x RangeInclusiveMap<u32, V> as lopdf uses it
   (insert, get, get_key_value).  rangemap is third-party code: per DESIGN.md 10 it is modelled
   by its documented contract, not transcribed.  The crate keeps the map maximally coalesced at
   all times (insert overwrites what it overlaps, splits a stored range it cuts, and merges
   with touching ranges of EQUAL value), so what a lookup can observe is exactly
     - the pointwise function  key -> option value  (last insert covering the key wins), and
     - for get_key_value, the stored range containing the key = the maximal run of consecutive
       keys carrying an equal value.
   The representation is the insert history, most recent first.  [rm_run_start] computes the
   first key of the maximal run from the finitely many places where the pointwise function can
   change (the starts, and the ends plus one, of the inserted ranges).
   Tied to the crate by correspondence through lopdf (ToUnicode CMaps with adversarial
   overlap / adjacency / ordering), not proved against the crate's B-tree code.
   insert panics when hi < lo; lopdf's callers exclude that (from_sections checks it, put_char
   uses lo = hi), so it is not modelled.  Definitions only. *)
From LV Require Import Base.Bytes.

Section RangeMap.
  Context {V : Type}.
  Variable veqb : V -> V -> bool.

  Definition rmap := list (N * N * V).

  Definition rm_empty : rmap := [].

  Definition rm_insert (m : rmap) (lo hi : N) (v : V) : rmap := (lo, hi, v) :: m.

  (* RangeInclusiveMap::get *)
  Fixpoint rm_value (m : rmap) (k : N) : option V :=
    match m with
    | [] => None
    | (lo, hi, v) :: m' => if (lo <=? k)%N && (k <=? hi)%N then Some v else rm_value m' k
    end.

  Definition opt_veqb (a b : option V) : bool :=
    match a, b with
    | Some x, Some y => veqb x y
    | None, None => true
    | _, _ => false
    end.

  (* the pointwise function changes between b-1 and b (or b is the least key) *)
  Definition rm_is_break (m : rmap) (b : N) : bool :=
    (b =? 0)%N || negb (opt_veqb (rm_value m (b - 1)) (rm_value m b)).

  Definition rm_candidates (m : rmap) : list N :=
    0%N :: flat_map (fun e => [fst (fst e); snd (fst e) + 1])%N m.

  Definition rm_run_start (m : rmap) (k : N) : N :=
    fold_left N.max (filter (fun b => (b <=? k)%N && rm_is_break m b) (rm_candidates m)) 0%N.

  (* RangeInclusiveMap::get_key_value, reduced to what lopdf reads: range.start() and the value *)
  Definition rm_get_key_value (m : rmap) (k : N) : option (N * V) :=
    match rm_value m k with
    | Some v => Some (rm_run_start m k, v)
    | None => None
    end.
End RangeMap.
