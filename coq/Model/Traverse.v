(* Traverse.v -- Document::traverse_objects of src/document.rs, for reference-rewriting actions.

   Rust:
     fn traverse_object(object, action, refs) {
       action(object);
       match object { Array => each item; Dictionary => each value; Stream => each dict value;
                      Reference(id) => if !refs.contains(id) { refs.push(id) }   _ => {} } }
     let mut refs = vec![];  traverse_dictionary(&mut self.trailer, &action, &mut refs);
     let mut index = 0;
     while index < refs.len() {
       if let Some(object) = self.objects.get_mut(&refs[index]) { traverse_object(object, &action, &mut refs) }
       index += 1 }
     refs

   The action is applied BEFORE the match, so the id that is recorded (and later followed, in the
   map as it is at that moment) is the id the action has written.  Both actions used by
   renumbering are "if the object is a Reference(id) and id is a key of `replace`, overwrite id";
   the model therefore takes the action as a function [f : oid -> oid] on reference ids.  Since the
   repair of C10/dangling-in-range the action of the dense pass also overwrites a reference whose
   target does not exist with Object::Null: the [_o] versions at the end of this file take the action
   as [f : oid -> option oid] ([None] = the object becomes Null; the match that follows then falls
   into `_ => {}`, nothing is recorded).  (Any other action that changes the shape of an object is
   not modelled here; Model/Edit.v has its own for delete_object.)  [refs] is a Vec used as a set:
   linear `contains`, push at the end.  The while loop becomes recursion on explicit fuel with an
   out-of-fuel value [None]; Proofs/RenumberProofs.v shows [trav_fuel] always suffices.
   Definitions only. *)
From LV Require Import Base.Bytes Base.Sx Model.Obj.

Definition mem_oid (x : oid) (l : list oid) : bool := existsb (oid_eqb x) l.

(* if !refs.contains(id) { refs.push(id) } *)
Definition push_ref (refs : list oid) (id : oid) : list oid :=
  if mem_oid id refs then refs else refs ++ [id].

Definition mk_ref (id : oid) : obj := ORef (fst id) (snd id).

Fixpoint trav_obj (f : oid -> oid) (o : obj) (refs : list oid) {struct o} : obj * list oid :=
  match o with
  | OArr l =>
    let '(l', r') :=
      (fix go (l : list obj) (refs : list oid) {struct l} : list obj * list oid :=
         match l with
         | [] => ([], refs)
         | x :: l0 =>
           let '(x', r1) := trav_obj f x refs in
           let '(l1, r2) := go l0 r1 in (x' :: l1, r2)
         end) l refs in
    (OArr l', r')
  | ODict d =>
    let '(d', r') :=
      (fix go (d : list (bytes * obj)) (refs : list oid) {struct d} : list (bytes * obj) * list oid :=
         match d with
         | [] => ([], refs)
         | (k, v) :: d0 =>
           let '(v', r1) := trav_obj f v refs in
           let '(d1, r2) := go d0 r1 in ((k, v') :: d1, r2)
         end) d refs in
    (ODict d', r')
  | OStream d c =>
    let '(d', r') :=
      (fix go (d : list (bytes * obj)) (refs : list oid) {struct d} : list (bytes * obj) * list oid :=
         match d with
         | [] => ([], refs)
         | (k, v) :: d0 =>
           let '(v', r1) := trav_obj f v refs in
           let '(d1, r2) := go d0 r1 in ((k, v') :: d1, r2)
         end) d refs in
    (OStream d' c, r')
  | ORef i g => let id' := f (i, g) in (mk_ref id', push_ref refs id')
  | _ => (o, refs)
  end.

(* traverse_dictionary (used for the trailer) *)
Fixpoint trav_dict (f : oid -> oid) (d : dict) (refs : list oid) : dict * list oid :=
  match d with
  | [] => ([], refs)
  | (k, v) :: d0 =>
    let '(v', r1) := trav_obj f v refs in
    let '(d1, r2) := trav_dict f d0 r1 in ((k, v') :: d1, r2)
  end.

(* BTreeMap::get_mut followed by assignment: replace the value of an existing key in place *)
Fixpoint update (m : objmap) (id : oid) (o : obj) : objmap :=
  match m with
  | [] => []
  | (i, o') :: m' => if oid_eqb i id then (i, o) :: m' else (i, o') :: update m' id o
  end.

Fixpoint trav_loop (f : oid -> oid) (fuel : nat) (m : objmap) (refs : list oid) (index : nat)
  : option (objmap * list oid) :=
  match fuel with
  | O => None
  | S k =>
    match nth_error refs index with
    | None => Some (m, refs)
    | Some id =>
      match lookup m id with
      | Some o => let '(o', refs') := trav_obj f o refs in trav_loop f k (update m id o') refs' (S index)
      | None => trav_loop f k m refs (S index)
      end
    end
  end.

Definition traverse_objects (f : oid -> oid) (fuel : nat) (tr : dict) (m : objmap)
  : option (dict * objmap * list oid) :=
  let '(tr', refs) := trav_dict f tr [] in
  match trav_loop f fuel m refs 0 with
  | Some (m', refs') => Some (tr', m', refs')
  | None => None
  end.

(* number of reference occurrences: the fuel bound *)
Fixpoint nrefs (o : obj) : nat :=
  match o with
  | OArr l => fold_right (fun x acc => nrefs x + acc) 0 l
  | ODict d => fold_right (fun kv acc => nrefs (snd kv) + acc) 0 d
  | OStream d _ => fold_right (fun kv acc => nrefs (snd kv) + acc) 0 d
  | ORef _ _ => 1
  | _ => 0
  end.
Definition nrefs_dict (d : dict) : nat := fold_right (fun kv acc => nrefs (snd kv) + acc) 0 d.
Definition nrefs_map (m : objmap) : nat := fold_right (fun io acc => nrefs (snd io) + acc) 0 m.

Definition trav_fuel (tr : dict) (m : objmap) : nat := S (nrefs_dict tr + nrefs_map m).

(* ---------- the same traversal for an action that may replace a reference by Object::Null ----------
   action = |object| if let Reference(id) = object { match f(id) { Some(new) => *id = new, None => *object = Null } } *)
Fixpoint trav_obj_o (f : oid -> option oid) (o : obj) (refs : list oid) {struct o} : obj * list oid :=
  match o with
  | OArr l =>
    let '(l', r') :=
      (fix go (l : list obj) (refs : list oid) {struct l} : list obj * list oid :=
         match l with
         | [] => ([], refs)
         | x :: l0 =>
           let '(x', r1) := trav_obj_o f x refs in
           let '(l1, r2) := go l0 r1 in (x' :: l1, r2)
         end) l refs in
    (OArr l', r')
  | ODict d =>
    let '(d', r') :=
      (fix go (d : list (bytes * obj)) (refs : list oid) {struct d} : list (bytes * obj) * list oid :=
         match d with
         | [] => ([], refs)
         | (k, v) :: d0 =>
           let '(v', r1) := trav_obj_o f v refs in
           let '(d1, r2) := go d0 r1 in ((k, v') :: d1, r2)
         end) d refs in
    (ODict d', r')
  | OStream d c =>
    let '(d', r') :=
      (fix go (d : list (bytes * obj)) (refs : list oid) {struct d} : list (bytes * obj) * list oid :=
         match d with
         | [] => ([], refs)
         | (k, v) :: d0 =>
           let '(v', r1) := trav_obj_o f v refs in
           let '(d1, r2) := go d0 r1 in ((k, v') :: d1, r2)
         end) d refs in
    (OStream d' c, r')
  | ORef i g =>
    match f (i, g) with
    | Some id' => (mk_ref id', push_ref refs id')
    | None => (ONull, refs)
    end
  | _ => (o, refs)
  end.

Fixpoint trav_dict_o (f : oid -> option oid) (d : dict) (refs : list oid) : dict * list oid :=
  match d with
  | [] => ([], refs)
  | (k, v) :: d0 =>
    let '(v', r1) := trav_obj_o f v refs in
    let '(d1, r2) := trav_dict_o f d0 r1 in ((k, v') :: d1, r2)
  end.

Fixpoint trav_loop_o (f : oid -> option oid) (fuel : nat) (m : objmap) (refs : list oid) (index : nat)
  : option (objmap * list oid) :=
  match fuel with
  | O => None
  | S k =>
    match nth_error refs index with
    | None => Some (m, refs)
    | Some id =>
      match lookup m id with
      | Some o => let '(o', refs') := trav_obj_o f o refs in trav_loop_o f k (update m id o') refs' (S index)
      | None => trav_loop_o f k m refs (S index)
      end
    end
  end.

Definition traverse_objects_o (f : oid -> option oid) (fuel : nat) (tr : dict) (m : objmap)
  : option (dict * objmap * list oid) :=
  let '(tr', refs) := trav_dict_o f tr [] in
  match trav_loop_o f fuel m refs 0 with
  | Some (m', refs') => Some (tr', m', refs')
  | None => None
  end.
