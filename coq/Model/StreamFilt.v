(* StreamFilt.v -- the filter plumbing of src/object.rs (Stream::{filters, decompressed_content,
   get_plain_content, compress, decompress, set_content, set_plain_content, decompress_zlib,
   decompress_lzw, decompress_predictor}) and Document::{compress, decompress} of src/processor.rs,
   after the repairs c3c22fe (DecodeParms array) and fcb7fe1 (compress drops stale DecodeParms).
   Definitions only.

   flate2 and weezl are third-party code: they appear as the Section variables
     inflate  : what ZlibDecoder::read_to_end leaves in the output vector (errors are swallowed by lopdf,
                so partial output counts),
     lzw e    : what weezl's decode_all writes (e = early change / "tiff size switch"), errors swallowed,
     deflate  : ZlibEncoder at Compression::best.
   Theorems state the laws they need as hypotheses; the runner instantiates them from the case. *)
From LV Require Import Base.Bytes Model.Obj Gen.Filters Model.A85 Model.Png.
From LV Require Model.AsciiHex.

Record stream := { s_dict : dict; s_content : bytes }.

Definition get_int (p : dict) (k : bytes) (default : Z) : Z :=
  match dict_get p k with Some (OInt z) => z | _ => default end.

(* Stream::filters *)
Fixpoint names_of (l : list obj) : res (list bytes) :=
  match l with
  | [] => Ok []
  | OName n :: l' => match names_of l' with Ok r => Ok (n :: r) | e => e end
  | _ :: _ => Err EType
  end.

Definition filters (d : dict) : res (list bytes) :=
  match dict_get d K_Filter with
  | None => Err EDictKey
  | Some (OName n) => Ok [n]
  | Some (OArr l) => names_of l
  | Some _ => Err EType
  end.

(* the parameters of the filter at position [index] *)
Definition params_for (d : dict) (index : nat) : option dict :=
  match dict_get d K_DecodeParms_ with
  | Some (OArr l) => match nth_error l index with Some (ODict p) => Some p | _ => None end
  | Some (ODict p) => Some p
  | _ => None
  end.

(* Stream::decompress_predictor *)
Definition decompress_predictor (data : bytes) (params : option dict) : res bytes :=
  match params with
  | None => Ok data
  | Some p =>
    let predictor := get_int p K_Predictor PRED_DEFAULT in
    if (PRED_LO <=? predictor)%Z && (predictor <=? PRED_HI)%Z then
      let pixels_per_row := Z.to_N (Z.max COLUMNS_MIN (get_int p K_COLUMNS COLUMNS_DEFAULT)) in
      let colors := Z.to_N (Z.max COLORS_MIN (get_int p K_COLORS COLORS_DEFAULT)) in
      let bits := Z.to_N (Z.max BITS_MIN (get_int p K_BITS BITS_DEFAULT)) in
      if (USIZE_MAX <? colors * bits)%N then Err EIoOther    (* colors.checked_mul(bits) fails: InvalidInput *)
      else decode_frame data (colors * bits / 8)%N pixels_per_row
    else Ok data
  end.

Definition early_change (params : option dict) : bool :=
  match params with
  | Some p => match dict_get p K_EarlyChange with
              | Some (OInt v) => negb (v =? 0)%Z
              | _ => EARLY_CHANGE_DEFAULT
              end
  | None => EARLY_CHANGE_DEFAULT
  end.

Section Oracles.
  Variable inflate : bytes -> bytes.
  Variable lzw : bool -> bytes -> bytes.
  Variable deflate : bytes -> bytes.

  (* decompress_zlib: the decoder is not even called on empty input *)
  Definition decompress_zlib (input : bytes) (params : option dict) : res bytes :=
    decompress_predictor (match input with [] => [] | _ => inflate input end) params.

  Definition decompress_lzw (input : bytes) (params : option dict) : res bytes :=
    decompress_predictor (lzw (early_change params) input) params.

  Definition decode_one (filter : bytes) (params : option dict) (input : bytes) : res bytes :=
    if bytes_eqb filter F_FLATE then decompress_zlib input params
    else if bytes_eqb filter F_LZW then decompress_lzw input params
    else if bytes_eqb filter F_A85 then A85.decode input
    else if AHX_ENABLED && bytes_eqb filter F_AHX then AsciiHex.decode input    (* since the repair of C02-asciihex *)
    else Err EUnimpl.

  (* the loop of decompressed_content: [output] starts empty, so an empty filter list yields [] *)
  Fixpoint decode_loop (d : dict) (fs : list bytes) (index : nat) (input output : bytes) : res bytes :=
    match fs with
    | [] => Ok output
    | f :: fs' =>
      match decode_one f (params_for d index) input with
      | Ok o => decode_loop d fs' (S index) o o
      | e => e
      end
    end.

  Definition decompressed_content (s : stream) : res bytes :=
    match filters (s_dict s) with
    | Ok fs => decode_loop (s_dict s) fs O (s_content s) []
    | Err e => Err e
    | Panic => Panic
    | Fuel => Fuel
    end.

  Definition get_plain_content (s : stream) : res bytes :=
    match filters (s_dict s) with
    | Ok (_ :: _) => decompressed_content s
    | _ => Ok (s_content s)
    end.

  Definition len_obj (c : bytes) : obj := OInt (Z.of_nat (length c)).

  Definition set_content (s : stream) (c : bytes) : stream :=
    {| s_dict := dict_set (s_dict s) K_Length (len_obj c); s_content := c |}.

  Definition set_plain_content (s : stream) (c : bytes) : stream :=
    {| s_dict := dict_set (dict_swap_remove (dict_swap_remove (s_dict s) K_DecodeParms_) K_Filter)
                          K_Length (len_obj c);
       s_content := c |}.

  Definition compress (s : stream) : stream :=
    if dict_has (s_dict s) K_Filter then s
    else
      let compressed := deflate (s_content s) in
      if (N.of_nat (length compressed) + COMPRESS_SLACK <? N.of_nat (length (s_content s)))%N then
        set_content {| s_dict := dict_swap_remove (dict_set (s_dict s) K_Filter (OName COMPRESS_FILTER)) K_DecodeParms_;
                       s_content := s_content s |} compressed
      else s.

  Definition decompress (s : stream) : res stream :=
    match decompressed_content s with
    | Ok data =>
      Ok (set_content {| s_dict := dict_swap_remove (dict_swap_remove (s_dict s) K_DecodeParms_) K_Filter;
                         s_content := s_content s |} data)
    | Err e => Err e
    | Panic => Panic
    | Fuel => Fuel
    end.

  (* Document::compress / decompress: every stream object; compression only where allowed; errors ignored.
     [nocomp] lists the ids whose stream has allows_compression = false. *)
  Definition doc_compress (nocomp : list oid) (m : objmap) : objmap :=
    map (fun io : oid * obj =>
           match snd io with
           | OStream d c =>
             if existsb (oid_eqb (fst io)) nocomp then io
             else let s := compress {| s_dict := d; s_content := c |} in (fst io, OStream (s_dict s) (s_content s))
           | _ => io
           end) m.

  (* a panic inside one stream aborts the whole call *)
  Fixpoint doc_decompress (m : objmap) : res objmap :=
    match m with
    | [] => Ok []
    | io :: m' =>
      let keep (x : oid * obj) := rbind (doc_decompress m') (fun r => Ok (x :: r)) in
      match snd io with
      | OStream d c =>
        match decompress {| s_dict := d; s_content := c |} with
        | Ok s => keep (fst io, OStream (s_dict s) (s_content s))
        | Err _ => keep io
        | Panic => Panic
        | Fuel => Fuel
        end
      | _ => keep io
      end
    end.
End Oracles.
