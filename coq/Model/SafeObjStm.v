(* SafeObjStm.v -- C04 layer over ObjectStream::new (src/object_stream.rs); what the members ARE is c02's Model/ObjStm.v.
   Sites: `first_offset + chunk[1]? as usize` (usize + u32), `numbers[..len]` with len = numbers.len() / 2 * 2,
   `chunk[0]`, `chunk[1]` on chunks(2) of an even-length slice, `&stream.content[offset..]` behind `offset >= len`,
   `n.checked_mul(2)` (checked).  Cost: every pair of the index whose offset lies inside the content starts a
   parser::direct_object run over the REST of the content, and keeps what it parsed: the work and the memory of one
   object stream are the sum of those rests.  Definitions only. *)
From LV Require Import Base.Bytes Model.Safe.
Local Open Scope N_scope.

(* offset of one member: first_offset is at most content.len() (content.get(..first_offset) succeeded), the second
   number of the pair is a u32 *)
Definition sobjstm_offset (first off : N) : M N := usize_add first off.

(* the pairs of the index: `numbers[..len]` then chunks of exactly two *)
Definition sobjstm_even (numbers : N) : M N :=
  let len := numbers / 2 * 2 in
  if len <=? numbers then ret len else panic RIndex.

(* bytes handed to parser::direct_object by one pair; 0 when the pair is skipped ("out-of-bounds offset") *)
Definition member_rest (len first off : N) : N :=
  let o := first + off in if len <=? o then 0 else len - o.

(* one ObjectStream::new: the offsets of the index pairs (those whose two numbers parsed) *)
Definition sobjstm_step (len first : N) (acc : M N) (off : N) : M N :=
  a <- acc ;; o <- sobjstm_offset first off ;;
  let r := member_rest len first off in
  request r ;;; tick r ;;; ret (a + r).
Definition sobjstm_work (len first : N) (offs : list N) : M N := fold_left (sobjstm_step len first) offs (ret 0).

(* known finding C04-objstm-shared-offsets: an index in which the offsets do not increase (members share bytes) *)
Fixpoint increasing_from (lo : option N) (offs : list N) : bool :=
  match offs with
  | [] => true
  | o :: t => match lo with Some l => (l <? o) | None => true end && increasing_from (Some o) t
  end.
Definition KnownSharedOffsets (offs : list N) : bool := negb (increasing_from None offs).
