(* SafeObjStm.v -- C04 layer over ObjectStream::new (src/object_stream.rs); what the members ARE is c02's Model/ObjStm.v.
   Sites: `first_offset + chunk[1]? as usize` (usize + u32), `numbers[..len]` with len = numbers.len() / 2 * 2,
   `chunk[0]`, `chunk[1]` on chunks(2) of an even-length slice, `&stream.content[offset..]` behind `offset >= len`,
   `n.checked_mul(2)` (checked), `len - rest.len()` in parser::direct_object_len (rest is a suffix of the input),
   `spent.fetch_add(..)` (an atomic: wraps, cannot panic), `content.len().saturating_mul(MAX_MEMBER_OVERLAP)`.
   Cost: every pair of the index whose offset lies inside the content starts a parser::direct_object run over the REST of
   the content and keeps what it parsed.  Since the repair of C04-objstm-shared-offsets each run is charged -- the bytes its
   object spans, or the whole rest when no object starts there: what the parser can have read and what is kept of it --
   and no run is started once the charges exceed MAX_MEMBER_OVERLAP * |content|: the work and the memory of one object
   stream are linear in its content.  Before, they were the sum of the rests (pairs * |content|).  Definitions only. *)
From LV Require Import Base.Bytes Model.Safe Gen.ObjStmC.
Local Open Scope N_scope.

(* offset of one member: first_offset is at most content.len() (content.get(..first_offset) succeeded), the second
   number of the pair is a u32 *)
Definition sobjstm_offset (first off : N) : M N := usize_add first off.

(* the pairs of the index: `numbers[..len]` then chunks of exactly two *)
Definition sobjstm_even (numbers : N) : M N :=
  let len := numbers / 2 * 2 in
  if len <=? numbers then ret len else panic RIndex.

(* bytes handed to parser::direct_object by one pair; 0 when the pair is skipped ("out-of-bounds offset") *)
Definition member_rest (len first off : N) : N :=
  let o := first + off in if len <=? o then 0 else len - o.

(* a pair as the cost sees it: (offset number, what parser::direct_object_len answers there: the span of the object, or
   anything at all when there is none -- the closure then charges the rest).  Whatever the parser does, the charge is at
   most the rest: N.min *)
Definition member_charge (len first : N) (ou : N * N) : N := N.min (snd ou) (member_rest len first (fst ou)).

(* content.len().saturating_mul(MAX_MEMBER_OVERLAP) *)
Definition sobjstm_limit (len : N) : N := N.min (len * MAX_MEMBER_OVERLAP) USIZE_MAX.

(* one pair of the index (both numbers parsed); the state is `spent` *)
Definition sobjstm_step (len first : N) (acc : M N) (ou : N * N) : M N :=
  spent <- acc ;; o <- sobjstm_offset first (fst ou) ;;
  if len <=? o then ret spent                                  (* "out-of-bounds offset" *)
  else if sobjstm_limit len <? spent then ret spent            (* over the limit: no parser run *)
  else let u := member_charge len first ou in
       request u ;;; tick u ;;; ret (spent + u).
Definition sobjstm_work (len first : N) (ous : list (N * N)) : M N := fold_left (sobjstm_step len first) ous (ret 0).

(* the code before the repair (every pair runs): the sum of the rests *)
Definition total_rest (len first : N) (offs : list N) : N := fold_left (fun a off => a + member_rest len first off) offs 0.
