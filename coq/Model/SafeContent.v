(* SafeContent.v -- C04 layer over Content::decode and the object parser (src/parser/mod.rs).
   The grammar itself is Model/Parser.v (nom combinators: no arithmetic, no indexing of lopdf's own; nom is
   third-party and assumed total).  lopdf's own panic sites in this area are
     * image_data_stream: `as usize` of W / H / BPC, `num_colors * bpc`, `width * ..`, `+ 7`, `height * stride`
       (unchecked in the pinned tree, checked_* since 173c5e9), `take(length)` and `content.to_vec()`;
     * the recursion of _direct_objects_at / array / dictionary_at / nested_literal_string, whose depth the file
       chooses (bounded since 61b571d, by MAX_NESTING since ce95661; the bound MAX_BRACKET on literal strings was already there).
   Definitions only. *)
From LV Require Import Base.Bytes Model.Obj Model.Parser Gen.Lex Model.Safe.
Local Open Scope N_scope.

(* the data size of an inline image: [nc] = number of colour components (1, 3, 4) *)
Definition sinline_len (nc : N) (w h bpc : Z) : M N :=
  match opt_mul USIZE_MAX nc (Safe.as_usize bpc) with
  | None => fail
  | Some bits_per_pixel =>
    match opt_mul USIZE_MAX (Safe.as_usize w) bits_per_pixel with
    | None => fail
    | Some bits_per_row =>
      match opt_add USIZE_MAX bits_per_row 7 with
      | None => fail
      | Some b7 =>
        match opt_mul USIZE_MAX (Safe.as_usize h) (b7 / 8) with
        | None => fail
        | Some len => ret len
        end
      end
    end
  end.

(* take(length) on the rest of the content stream, then content.to_vec() *)
Definition sinline_data (nc : N) (w h bpc : Z) (rest : bytes) : M N :=
  len <- sinline_len nc w h bpc ;;
  if N.of_nat (length rest) <? len then fail          (* take: Incomplete -> EndOfInput error *)
  else request len ;;; tick len ;;; ret len.

(* the pinned tree: `let stride = (width * (num_colors * bpc) + 7) / 8; let length = height * stride;` *)
Definition sinline_len_pinned (nc : N) (w h bpc : Z) : M N :=
  cb <- Safe.usize_mul nc (Safe.as_usize bpc) ;;
  wb <- Safe.usize_mul (Safe.as_usize w) cb ;;
  b7 <- Safe.usize_add wb 7 ;;
  Safe.usize_mul (Safe.as_usize h) (b7 / 8).

(* recursion depth of the object parser: one level per container below the top value, at most MAX_NESTING of them,
   and under every value a literal string nests at most MAX_BRACKET parentheses *)
Definition PARSER_DEPTH_BOUND : N := MAX_NESTING + MAX_BRACKET + 2.
