(* XrefMerge.v -- the revision-merge core of the loader: src/xref.rs (Xref, Xref::merge, max_id) and
   Reader::read of src/reader.rs (the Prev loop with `already_seen`, merge_xref_stream for the XRefStm
   key of every trailer of the chain, the Size correction, loading the objects of all Normal entries,
   expanding object streams "add, never replace", and never a second generation of a number).

   Byte-level decoding of one cross-reference section is NOT modelled here (Model/Xref.v, property
   C02).  A file is given by its LAYOUT: which section parser::xref_and_trailer finds at which
   offset (raw entries as written + trailer), which indirect object parser::indirect_object finds at
   which offset, and what ObjectStream::new makes of an object stream.  All offsets are relative to
   the header (Reader::read slices the buffer at the first "%PDF-").
   Definitions only. *)
From LV Require Import Base.Bytes Base.Sx Model.Obj Model.Save.

(* ---------- src/xref.rs ----------
   XrefEntry (xentry), BTreeMap<u32, XrefEntry> (xmap), get (xget) and insert (xinsert) are shared
   with the writer side: Model/Save.v. *)
(* entry(id).or_insert(e) *)
Definition xt_or_insert (m : xmap) (id : N) (e : xentry) : xmap :=
  match xget m id with Some _ => m | None => xinsert m id e end.

Record xref := { xr_stream : bool;      (* cross_reference_type = CrossReferenceStream *)
                 xr_entries : xmap;
                 xr_size : N }.

(* Xref::merge: for (id, entry) in other.entries { self.entries.entry(id).or_insert(entry) } *)
Definition xt_merge (a b : xmap) : xmap :=
  fold_left (fun m kv => xt_or_insert m (fst kv) (snd kv)) b a.
Definition xmerge (a b : xref) : xref :=
  {| xr_stream := xr_stream a; xr_entries := xt_merge (xr_entries a) (xr_entries b); xr_size := xr_size a |}.

(* Xref::max_id: the largest key, 0 for an empty table *)
Definition xt_max_id (m : xmap) : N := fold_left (fun acc kv => N.max acc (fst kv)) m 0%N.

(* ---------- what is written in one cross-reference section ---------- *)
Inductive rawent :=
| RFree (gen : N)              (* "0000000000 ggggg f" / type 0 *)
| RNormal (off gen : N)        (* "oooooooooo ggggg n" / type 1 *)
| RComp (container idx : N).   (* type 2, cross-reference streams only *)

(* What the two decoders keep (src/parser/mod.rs `xref`: only `n` lines whose generation fits u16
   are inserted; src/parser_aux.rs decode_xref_stream: type 0 is read and dropped, type 1 and 2 are
   inserted, generation and index `as u16`).  FREE ENTRIES LEAVE NO TRACE in the table. *)
Definition keep_entry (stream : bool) (m : xmap) (kv : N * rawent) : xmap :=
  match snd kv with
  | RFree _ => m
  | RNormal off g =>
    if stream then xinsert m (fst kv) (XNormal off (g mod 65536))
    else if (g <? 65536)%N then xinsert m (fst kv) (XNormal off g) else m
  | RComp c i => if stream then xinsert m (fst kv) (XCompressed c (i mod 65536)) else m
  end.
Definition parse_entries (stream : bool) (raw : list (N * rawent)) : xmap :=
  fold_left (keep_entry stream) raw [].

Record section := { s_stream : bool; s_size : N; s_raw : list (N * rawent); s_trailer : dict }.

(* an indirect object found at an offset: the id WRITTEN there, the object, and -- when it is an
   object stream -- what ObjectStream::new returns for it (None = Err) *)
Record placed := { p_id : oid; p_obj : obj; p_members : option objmap }.

Record layout := { l_buflen : Z;              (* length of the buffer after slicing at the header *)
                   l_startxref : Z;           (* Reader::get_xref_start *)
                   l_secs : list (Z * section);
                   l_objs : list (N * placed) }.

Fixpoint assocZ {A} (l : list (Z * A)) (k : Z) : option A :=
  match l with
  | [] => None
  | (k', v) :: l' => if (k' =? k)%Z then Some v else assocZ l' k
  end.
Fixpoint assocN {A} (l : list (N * A)) (k : N) : option A :=
  match l with
  | [] => None
  | (k', v) :: l' => if (k' =? k)%N then Some v else assocN l' k
  end.

(* parser::xref_and_trailer at an offset *)
Definition sec_xref (s : section) : xref :=
  {| xr_stream := s_stream s; xr_entries := parse_entries (s_stream s) (s_raw s); xr_size := s_size s |}.
Definition sec_at (L : layout) (off : Z) : option (xref * dict) :=
  match assocZ (l_secs L) off with
  | Some s => Some (sec_xref s, s_trailer s)
  | None => None
  end.

(* ---------- Reader::read ---------- *)
Inductive lerr := EStart | EPrevStart | EStreamStart | EInvalidTrailer | EInvalidXref.
Inductive lres (A : Type) := LOk (a : A) | LErr (e : lerr) | LOutOfFuel.
Arguments LOk {A} a.
Arguments LErr {A} e.
Arguments LOutOfFuel {A}.

Definition K_XRefStm := Eval cbv in bs "XRefStm".
Definition K_ObjStm := Eval cbv in bs "ObjStm".

Definition zmem (p : Z) (l : list Z) : bool := existsb (Z.eqb p) l.

(* Reader::merge_xref_stream (commit "fix: ... XRefStm ..."): [start] is the value of the XRefStm key of a
   trailer.  The entries of the cross-reference stream found there are merged into the table of the section
   that trailer belongs to (insert-if-absent, so after that section's own entries). *)
Definition merge_stm (L : layout) (x : xref) (start : option obj) : lres xref :=
  match start with
  | Some (OInt q) =>
    if (q <? 0)%Z || (l_buflen L <? q)%Z then LErr EStreamStart
    else
      match sec_at L q with
      | None => LErr EInvalidTrailer
      | Some (sx, _) => LOk (xmerge x sx)
      end
  | _ => LOk x
  end.

(* The Prev loop.  [tr] is the trailer of the NEWEST section throughout.  Every iteration first
   merges the cross-reference stream named by the XRefStm key of [tr] (the key is removed, so this
   happens in the first iteration only: BEFORE the section named by Prev is merged), then reads the
   section named by Prev, merges the cross-reference stream its own trailer names by XRefStm into
   it, and merges the result.  Without a Prev the loop body never runs and the XRefStm key of the
   newest trailer stays where it is, unread.  One unit of fuel per section read through Prev. *)
Fixpoint prev_loop (fuel : nat) (L : layout) (x : xref) (tr : dict) (seen : list Z) (prev : option obj)
  : lres (xref * dict) :=
  match prev with
  | Some (OInt p) =>
    if zmem p seen then LOk (x, tr)
    else
      match fuel with
      | O => LOutOfFuel
      | S f =>
        if (p <? 0)%Z || (l_buflen L <? p)%Z then LErr EPrevStart
        else
          match merge_stm L x (dict_get tr K_XRefStm) with
          | LOk x1 =>
            match sec_at L p with
            | None => LErr EInvalidTrailer
            | Some (px, ptr) =>
              match merge_stm L px (dict_get ptr K_XRefStm) with
              | LOk px1 => prev_loop f L (xmerge x1 px1) (dict_swap_remove tr K_XRefStm) (p :: seen) (dict_get ptr K_Prev)
              | LErr e => LErr e
              | LOutOfFuel => LOutOfFuel
              end
            end
          | LErr e => LErr e
          | LOutOfFuel => LOutOfFuel
          end
      end
  | _ => LOk (x, tr)
  end.

(* the table, trailer and max_id the document ends up with *)
Record merged := { m_xref : xref; m_trailer : dict; m_max_id : N; m_start : N }.

Definition read_xref (fuel : nat) (L : layout) : lres merged :=
  if (l_startxref L <? 0)%Z || (l_buflen L <? l_startxref L)%Z then LErr EStart
  else
    match sec_at L (l_startxref L) with
    | None => LErr EInvalidTrailer
    | Some (x0, tr0) =>
      match prev_loop fuel L x0 (dict_swap_remove tr0 K_Prev) [] (dict_get tr0 K_Prev) with
      | LOk (x, tr) =>
        let count := (xt_max_id (xr_entries x) + 1)%N in
        if (4294967296 <=? count)%N then LErr EInvalidXref      (* checked_add *)
        else LOk {| m_xref := {| xr_stream := xr_stream x; xr_entries := xr_entries x; xr_size := count |};
                    m_trailer := tr; m_max_id := (count - 1)%N; m_start := Z.to_N (l_startxref L) |}
      | LErr e => LErr e
      | LOutOfFuel => LOutOfFuel
      end
    end.

(* ---------- objects ---------- *)
Definition is_objstm (o : obj) : bool :=
  match o with OStream d _ => has_type d K_ObjStm | _ => false end.

(* or_insert on the objects map *)
Definition or_insert (m : objmap) (id : oid) (o : obj) : objmap :=
  match lookup m id with Some _ => m | None => insert m id o end.

(* the closure `entries_filter_map` run over the table in key order.  Result: the objects read from
   Normal entries and the object-stream blocks, each tagged with the KEY of the container's entry.
   With rayon the blocks arrive in any order and are then sorted by that key (reader.rs, commit
   f28e935), which is the order produced here; the permutation argument is Model/Sched.v (C08). *)
Definition load_entry (L : layout) (encrypted : bool) (acc : objmap * list (N * objmap)) (kv : N * xentry)
  : objmap * list (N * objmap) :=
  match snd kv with
  | XNormal off _ =>
    if (l_buflen L <? Z.of_N off)%Z then acc
    else
      match assocN (l_objs L) off with
      | None => acc
      | Some p =>
        if is_objstm (p_obj p) && negb encrypted then
          match p_members p with
          | None => acc                                   (* ObjectStream::new(..).ok()? *)
          | Some ms => (insert (fst acc) (p_id p) (p_obj p), snd acc ++ [(fst kv, ms)])
          end
        else (insert (fst acc) (p_id p) (p_obj p), snd acc)
      end
  | _ => acc
  end.

(* commit 44beb46: the merged table names this block as the container of the member *)
Definition named_by (t : xmap) (k : N) (io : oid * obj) : bool :=
  match xget t (fst (fst io)) with
  | Some (XCompressed c _) => (c =? k)%N
  | _ => false
  end.

Definition or_insert_all (m : objmap) (l : list (oid * obj)) : objmap :=
  fold_left (fun m io => or_insert m (fst io) (snd io)) l m.

(* pass B since commit "fix: ... generation ...": a member is added only when no object of its NUMBER is
   present yet, under whatever generation: objects.range((n, 0)..=(n, u16::MAX)).next().is_none() *)
Definition has_number (m : objmap) (n : N) : bool := existsb (fun io => (fst (fst io) =? n)%N) m.
Definition add_new_number (m : objmap) (id : oid) (o : obj) : objmap :=
  if has_number m (fst id) then m else insert m id o.
Definition add_new_numbers (m : objmap) (l : list (oid * obj)) : objmap :=
  fold_left (fun m io => add_new_number m (fst io) (snd io)) l m.

Definition load_objects (L : layout) (encrypted : bool) (t : xmap) : objmap :=
  let r := fold_left (load_entry L encrypted) t ([], []) in
  (* pass A: members the table places in exactly this container, blocks in key order *)
  let a := fold_left (fun m b => or_insert_all m (filter (named_by t (fst b)) (snd b))) (snd r) (fst r) in
  (* pass B, "only add entries, but never replace entries": the remaining members, same order, and only
     object numbers that are not present yet *)
  fold_left (fun m b => add_new_numbers m (filter (fun io => negb (named_by t (fst b) io)) (snd b))) (snd r) a.

Record loaded := { ld_xref : xref; ld_trailer : dict; ld_max_id : N; ld_start : N; ld_objects : objmap }.

Definition load_abs (fuel : nat) (L : layout) : lres loaded :=
  match read_xref fuel L with
  | LOk m =>
    LOk {| ld_xref := m_xref m; ld_trailer := m_trailer m; ld_max_id := m_max_id m; ld_start := m_start m;
           ld_objects := load_objects L (dict_has (m_trailer m) K_Encrypt) (xr_entries (m_xref m)) |}
  | LErr e => LErr e
  | LOutOfFuel => LOutOfFuel
  end.

(* enough fuel for every layout: each iteration reads a section at a not yet seen offset *)
Definition load_fuel (L : layout) : nat := S (length (l_secs L)).
