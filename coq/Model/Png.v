(* Png.v -- src/filters/png.rs: paeth_predict, decode_row, decode_frame (after the Average repair f51f21b
   and the geometry repairs 686bd3f, 22cc8e0).  Definitions only.

   decode_row(filter, bpp, previous, current) works in place, left to right:
     let bpp = bpp.min(len);
     None  : nothing
     Sub   : for i in bpp..len  cur[i] += cur[i-bpp]
     Up    : for i in 0..len    cur[i] += prev[i]
     Avg   : for i in 0..bpp    cur[i] += prev[i]/2
             for i in bpp..len  cur[i] += ((cur[i-bpp] as i16 + prev[i] as i16) / 2) as u8
     Paeth : for i in 0..bpp    cur[i] += paeth(0, prev[i], 0)
             for i in bpp..len  cur[i] += paeth(cur[i-bpp], prev[i], prev[i-bpp])
   (all additions wrapping).  The model walks the row once, carrying the already decoded bytes and the
   already passed bytes of the previous row in reverse, so that "bpp positions back" is [nth (bpp-1)];
   positions before the first pixel read as 0, which is what the separate 0..bpp loops compute
   (prev[i]/2 = (0+prev[i])/2, Sub leaves the byte alone = adds 0).  For bpp = 0 (only reachable by
   calling decode_row directly) cur[i-0] is the byte itself before the update and prev[i-0] = prev[i].
   previous[i] is an index panic when the previous row is shorter than the current one. *)
From LV Require Import Base.Bytes Gen.Filters Model.A85.

Inductive ftype := FNone | FSub | FUp | FAvg | FPaeth.

(* TryFrom<u8> for FilterType *)
Definition ftype_of_N (n : N) : option ftype :=
  if (n =? PNG_NONE)%N then Some FNone
  else if (n =? PNG_SUB)%N then Some FSub
  else if (n =? PNG_UP)%N then Some FUp
  else if (n =? PNG_AVG)%N then Some FAvg
  else if (n =? PNG_PAETH)%N then Some FPaeth
  else None.

Definition zb (b : byte) : Z := Z.of_N (N_of_byte b).

(* paeth_predict: i16 arithmetic; every intermediate lies in [-510, 510] so i16 never overflows *)
Definition paeth (left above upperleft : byte) : byte :=
  let initial_estimate := (zb left + zb above - zb upperleft)%Z in
  let dist_left := Z.abs (initial_estimate - zb left) in
  let dist_above := Z.abs (initial_estimate - zb above) in
  let dist_upperleft := Z.abs (initial_estimate - zb upperleft) in
  if (dist_left <=? dist_above)%Z && (dist_left <=? dist_upperleft)%Z then left
  else if (dist_above <=? dist_upperleft)%Z then above
  else upperleft.

(* u8::wrapping_add *)
Definition badd (x y : byte) : byte := byte_of_N (N_of_byte x + N_of_byte y).

(* ((left as i16 + above as i16) / 2) as u8 *)
Definition avg (left above : byte) : byte := byte_of_N ((N_of_byte left + N_of_byte above) / 2).

Definition recon (t : ftype) (x left above upperleft : byte) : byte :=
  match t with
  | FNone => x
  | FSub => badd x left
  | FUp => badd x above
  | FAvg => badd x (avg left above)
  | FPaeth => badd x (paeth left above upperleft)
  end.

Fixpoint row_go (t : ftype) (bpp : nat) (rdone rprev prev cur : bytes) : bytes :=
  match cur with
  | [] => []
  | x :: cur' =>
    let above := hd x00 prev in
    let left := match bpp with O => x | S k => nth k rdone x00 end in
    let upperleft := match bpp with O => above | S k => nth k rprev x00 end in
    let y := recon t x left above upperleft in
    y :: row_go t bpp (y :: rdone) (above :: rprev) (tl prev) cur'
  end.

Definition needs_prev (t : ftype) : bool :=
  match t with FNone | FSub => false | _ => true end.

Definition decode_row (t : ftype) (bpp : N) (prev cur : bytes) : res bytes :=
  if needs_prev t && (length prev <? length cur)%nat then Panic
  else Ok (row_go t (N.to_nat (N.min bpp (N.of_nat (length cur)))) [] [] prev cur).

Definition USIZE_MAX : N := 18446744073709551615.

(* decode_frame (after 686bd3f / 22cc8e0): bytes_per_row = bpp.checked_mul(ppr) or an InvalidInput error;
   the two row buffers have min(bytes_per_row, content.len()) bytes, so a row longer than the data makes
   read_exact fail with UnexpectedEof exactly as a short last row does;
   while pos < len { filter byte; read_exact(row) (UnexpectedEof when short); decode_row; append; swap }.
   [prev] = None stands for the initial all-zero row, materialised only when a row is really decoded (then
   bytes_per_row <= content.len(), so the buffers have bytes_per_row bytes). *)
Fixpoint frame_go (fuel : nat) (bpp bpr : N) (prev : option bytes) (content : bytes) : res bytes :=
  match content with
  | [] => Ok []
  | f :: rest =>
    match fuel with
    | O => Fuel
    | S fuel' =>
      match ftype_of_N (N_of_byte f) with
      | None => Err EIoData
      | Some t =>
        if (N.of_nat (length rest) <? bpr)%N then Err EIoEof
        else
          let n := N.to_nat bpr in
          let p := match prev with Some p => p | None => repeat x00 n end in
          match decode_row t bpp p (firstn n rest) with
          | Ok row => emit row (frame_go fuel' bpp bpr (Some row) (skipn n rest))
          | Err e => Err e
          | Panic => Panic
          | Fuel => Fuel
          end
      end
    end
  end.

Definition decode_frame (content : bytes) (bpp ppr : N) : res bytes :=
  let bpr := (bpp * ppr)%N in
  if (USIZE_MAX <? bpr)%N then Err EIoOther                (* checked_mul fails: InvalidInput *)
  else frame_go (length content) bpp bpr None content.
