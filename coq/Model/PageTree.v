(* PageTree.v -- PageTreeIter of src/document.rs (page_iter / get_pages).
   The Rust iterator state is (kids: Option<&[Object]>, stack: Vec<&[Object]>, iter_limit).
   One call of next():
     loop {
       while let Some((kid, rest)) = kids.split_first() {
         if iter_limit == 0 { return None }  iter_limit -= 1;  kids = rest;
         if kid is a reference to a dictionary with a type name:
            "Page"  => return Some(kid_id)
            "Pages" => if stack.len() < LIMIT { if !rest.is_empty() { stack.push(rest) }; kids = Kids of kid }
            _ => {}
       }
       if let Some(k) = stack.pop() { kids = Some(k) } else { return None }
     }
   Popping does not consume iter_limit and yields nothing, so the model merges the pops into
   [pop_nonempty] and recurses structurally on iter_limit; when iter_limit is 0 the Rust code
   returns None in the inner loop or runs out of stack, i.e. yields nothing more either way. *)
From LV Require Import Base.Bytes Base.Sx Model.Obj Model.DocQ Gen.Consts.

Inductive node_kind := NPage | NPages | NOther.

Definition node_type (m : objmap) (id : oid) : node_kind :=
  match get_dictionary m id with
  | Some d => match get_type d with
              | Some t => if bytes_eqb t K_Page then NPage
                          else if bytes_eqb t K_Pages then NPages else NOther
              | None => NOther
              end
  | None => NOther
  end.

(* PageTreeIter::kids: None is represented by [] (both mean "nothing to iterate") *)
Definition kids_of (m : objmap) (id : oid) : list obj :=
  match get_dictionary m id with
  | Some d => match get_deref m d K_Kids with Some (OArr l) => l | _ => [] end
  | None => []
  end.

Fixpoint pop_nonempty (kids : list obj) (stack : list (list obj)) {struct stack}
  : option (obj * list obj * list (list obj)) :=
  match kids with
  | k :: rest => Some (k, rest, stack)
  | [] => match stack with
          | [] => None
          | s :: st => pop_nonempty s st
          end
  end.

Definition push_rest (rest : list obj) (st : list (list obj)) : list (list obj) :=
  match rest with [] => st | _ => rest :: st end.

Fixpoint iter (limit : nat) (m : objmap) (kids : list obj) (stack : list (list obj)) : list oid :=
  match limit with
  | O => []
  | S l =>
    match pop_nonempty kids stack with
    | None => []
    | Some (kid, rest, st) =>
      match kid with
      | ORef i g =>
        match node_type m (i, g) with
        | NPage => (i, g) :: iter l m rest st
        | NPages => if (N.of_nat (length st) <? PAGE_TREE_DEPTH_LIMIT)%N
                    then iter l m (kids_of m (i, g)) (push_rest rest st)
                    else iter l m rest st
        | NOther => iter l m rest st
        end
      | _ => iter l m rest st
      end
    end
  end.

(* PageTreeIter::new + collect *)
Definition page_iter (d : doc) : list oid :=
  match catalog d with
  | Some cat =>
    match dict_get cat K_Pages with
    | Some (ORef i g) => iter (length (d_objects d)) (d_objects d) (kids_of (d_objects d) (i, g)) []
    | _ => []
    end
  | None => []
  end.

(* Document::get_pages: BTreeMap<u32, ObjectId> numbered from 1 *)
Fixpoint number_from (n : N) (l : list oid) : list (N * oid) :=
  match l with [] => [] | x :: l' => (n, x) :: number_from (n + 1) l' end.
Definition get_pages (d : doc) : list (N * oid) := number_from 1 (page_iter d).
