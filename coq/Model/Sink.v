(* Sink.v -- the output side of saving (property C19): src/writer.rs `CountingWrite` and the
   `?`-chained sequence of `write_all` calls that `Document::save_internal` /
   `IncrementalDocument::save_internal` perform, run against an arbitrary `std::io::Write` sink.

   What is lopdf code here (modelled branch for branch):
     * `CountingWrite::write_all`  : `self.bytes_written += buffer.len()` FIRST, then delegates to
                                     `self.inner.write_all(buffer)`                      [cw_write_all]
     * `CountingWrite::write`      : delegates, adds the ACCEPTED count on `Ok`          [cw_write]
       (no caller: every write site in src/writer.rs, src/xref.rs goes through `write_all`,
        directly or via `write!`/`writeln!` -> `Write::write_fmt` -> `write_all`)
     * the save pipeline           : a sequence of `write_all` buffers, each followed by `?`  [run_cw]
       The buffers themselves (`calls`) are a parameter: how `write!` splits its output into
       `write_all` calls is Rust-std detail, so everything is stated for ANY list of buffers.
   What is Rust std (trusted base item 7, transcribed from library/std/src/io/mod.rs):
     * `Write::write_all` default : `while !buf.is_empty() { match self.write(buf) { Ok(0) => return
       Err(WriteZero), Ok(n) => buf = &buf[n..], Err(e) if e.is_interrupted() => {}, Err(e) => return
       Err(e) } } Ok(())`                                                                [write_all]
   What is the environment:
     * a sink is a SCRIPT: the list of answers it gives to successive `write` calls; once the
       script is used up the sink is healthy (accepts every buffer whole).  Every terminating run
       against any sink whatsoever consumes finitely many answers, so scripts lose no generality.
     * a second reading of the same scripts, used for the correspondence [qwrite_all]: answers are
       attached to POSITIONS of the delivered stream (`Accept k` = "the next k bytes are accepted,
       in however many calls that takes"), which makes the behaviour independent of the call
       boundaries the implementation happens to use.

   Definitions only; proofs are in Proofs/SinkProofs.v. *)
From LV Require Import Base.Bytes.

(* classes of std::io::ErrorKind a sink may fail with.  `Interrupted` is not among them: an error
   of that kind is by definition the transient answer below. *)
Inductive ekind :=
| EOther | EBrokenPipe | EPermissionDenied | EWouldBlock | ETimedOut | EWriteZero
| EUnexpectedEof | EOutOfMemory | EInvalidData | EStorageFull
| EIsADirectory | EFileTooLarge.   (* what File::create on a directory / a write past RLIMIT_FSIZE give (Model/SinkBuf.v) *)

(* one answer of the sink to one `write(buf)` call with a non-empty buffer *)
Inductive resp :=
| Accept (k : N)      (* Ok(min k |buf|): a short write when k < |buf|; Ok(0) when k = 0 *)
| Interrupted         (* Err(kind = Interrupted) *)
| Zero                (* Ok(0) *)
| Fail (e : ekind).   (* Err(kind = e) *)

Definition script := list resp.

Inductive wres := WOk | WErr (e : ekind).

(* how many bytes `Accept k` takes from a buffer *)
Definition take_n (k : N) (buf : bytes) : nat := N.to_nat (N.min k (N.of_nat (length buf))).

(* std::io::Write::write_all against a scripted sink.
   Result: Ok/Err, the bytes the sink accepted during this call, the unused rest of the script. *)
Fixpoint write_all (s : script) (buf : bytes) {struct s} : wres * bytes * script :=
  match buf with
  | [] => (WOk, [], s)                                  (* while !buf.is_empty() *)
  | _ :: _ =>
    match s with
    | [] => (WOk, buf, [])                              (* script over: healthy sink *)
    | Accept k :: s' =>
      match take_n k buf with
      | O => (WErr EWriteZero, [], s')                  (* Ok(0) => Err(WriteZero) *)
      | S _ as n =>                                     (* Ok(n) => buf = &buf[n..] *)
        let '(r, d, s'') := write_all s' (skipn n buf) in (r, firstn n buf ++ d, s'')
      end
    | Interrupted :: s' => write_all s' buf             (* Err(e) if e.is_interrupted() => {} *)
    | Zero :: s' => (WErr EWriteZero, [], s')
    | Fail e :: s' => (WErr e, [], s')                  (* Err(e) => return Err(e) *)
    end
  end.

(* the same scripts read positionally (see header) *)
Fixpoint qwrite_all (s : script) (buf : bytes) {struct s} : wres * bytes * script :=
  match buf with
  | [] => (WOk, [], s)
  | _ :: _ =>
    match s with
    | [] => (WOk, buf, [])
    | Accept k :: s' =>
      if (k =? 0)%N then (WErr EWriteZero, [], s')
      else if (k <=? N.of_nat (length buf))%N then
        let n := N.to_nat k in
        let '(r, d, s'') := qwrite_all s' (skipn n buf) in (r, firstn n buf ++ d, s'')
      else (WOk, buf, Accept (k - N.of_nat (length buf)) :: s')
    | Interrupted :: s' => qwrite_all s' buf
    | Zero :: s' => (WErr EWriteZero, [], s')
    | Fail e :: s' => (WErr e, [], s')
    end
  end.

(* position of the first "%PDF-" in a byte string, 0 if there is none (slice::windows(5).position(..).unwrap_or(0)) *)
Definition PDF_HDR : bytes := Eval cbv in bs "%PDF-".
Fixpoint header_offset_from (b : bytes) (i : nat) : option nat :=
  match b with
  | [] => None
  | _ :: b' => if prefixb PDF_HDR b then Some i else header_offset_from b' (S i)
  end.
Definition header_offset (b : bytes) : nat :=
  match header_offset_from b 0 with Some i => i | None => O end.

(* ---- CountingWrite<W> { inner, bytes_written } ---- *)
Record cw := { cw_inner : script; cw_count : N }.

Section Pipeline.
  (* the inner sink's write_all: [write_all] or [qwrite_all] *)
  Variable wa : script -> bytes -> wres * bytes * script.

  (* CountingWrite::write_all *)
  Definition cw_write_all (c : cw) (buf : bytes) : wres * bytes * cw :=
    let cnt := (cw_count c + N.of_nat (length buf))%N in   (* self.bytes_written += buffer.len(); *)
    let '(r, d, s') := wa (cw_inner c) buf in                (* self.inner.write_all(buffer)      *)
    (r, d, {| cw_inner := s'; cw_count := cnt |}).

  (* write_all(b1)?; write_all(b2)?; ... ; Ok(()) *)
  Fixpoint run_cw (calls : list bytes) (c : cw) : wres * bytes * cw :=
    match calls with
    | [] => (WOk, [], c)
    | b :: rest =>
      let '(r, d, c') := cw_write_all c b in
      match r with
      | WOk => let '(r', d', c'') := run_cw rest c' in (r', d ++ d', c'')
      | WErr e => (WErr e, d, c')
      end
    end.

  (* IncrementalDocument::save_internal starts with
       target.inner.write_all(prev_document_bytes)?;
       let header_offset = prev.windows(5).position(|w| w == b"%PDF-").unwrap_or(0);
       target.bytes_written += prev_document_bytes.len() - header_offset;
     i.e. it bypasses CountingWrite, counts AFTER the write succeeded, and counts from the file
     header (offsets in a PDF are relative to the first "%PDF-"); then the same pipeline *)
  Definition cw_write_all_after (c : cw) (buf : bytes) : wres * bytes * cw :=
    let '(r, d, s') := wa (cw_inner c) buf in
    (r, d, {| cw_inner := s';
              cw_count := match r with
                          | WOk => cw_count c + N.of_nat (length buf - header_offset buf)
                          | WErr _ => cw_count c
                          end%N |}).
  Definition run_inc (prev : bytes) (calls : list bytes) (s : script) : wres * bytes * N :=
    let '(r, d, c) := cw_write_all_after {| cw_inner := s; cw_count := 0 |} prev in
    match r with
    | WOk => let '(r', d', c') := run_cw calls c in (r', d ++ d', cw_count c')
    | WErr e => (WErr e, d, cw_count c)
    end.

  (* what the caller of save_to observes: result, bytes the sink holds; plus the private counter *)
  Definition run (calls : list bytes) (s : script) : wres * bytes * N :=
    let '(r, d, c) := run_cw calls {| cw_inner := s; cw_count := 0 |} in (r, d, cw_count c).
End Pipeline.

(* `file.bytes_written` as read by the code before its i-th write_all (write_indirect_object reads
   it for the object's xref offset, save_internal for startxref): defined whenever the i-th call
   is reached, i.e. when the first i calls all returned Ok. *)
Definition counter_before (calls : list bytes) (s : script) (i : nat) : option N :=
  match run write_all (firstn i calls) s with
  | (WOk, _, n) => Some n
  | (WErr _, _, _) => None
  end.

(* CountingWrite::write (one call; counts what was accepted).  Not used by the save path; kept
   because the property's anchor names it and because replacing one write_all by write is the
   classic way to break the property (see SinkProofs.write_instead_of_write_all_breaks). *)
Inductive wr1 := W1Ok (n : nat) | W1Interrupted | W1Err (e : ekind).
Definition sink_write (s : script) (buf : bytes) : wr1 * bytes * script :=
  match s with
  | [] => (W1Ok (length buf), buf, [])
  | Accept k :: s' => (W1Ok (take_n k buf), firstn (take_n k buf) buf, s')
  | Interrupted :: s' => (W1Interrupted, [], s')
  | Zero :: s' => (W1Ok 0, [], s')
  | Fail e :: s' => (W1Err e, [], s')
  end.
Definition cw_write (c : cw) (buf : bytes) : wr1 * bytes * cw :=
  let '(r, d, s') := sink_write (cw_inner c) buf in
  (r, d, {| cw_inner := s';
            cw_count := match r with W1Ok n => cw_count c + N.of_nat n | _ => cw_count c end%N |}).

(* ---- vocabulary of the theorems ---- *)
Definition soft (r : resp) : Prop :=
  match r with Accept k => k <> 0%N | Interrupted => True | Zero => False | Fail _ => False end.
Definition no_hard (s : script) : Prop := Forall soft s.
(* the error a hard answer turns into *)
Definition hard_kind (r : resp) : option ekind :=
  match r with
  | Accept k => if (k =? 0)%N then Some EWriteZero else None
  | Interrupted => None
  | Zero => Some EWriteZero
  | Fail e => Some e
  end.
(* bytes a soft script accepts when read positionally *)
Fixpoint quota (s : script) : N :=
  match s with
  | [] => 0
  | Accept k :: s' => k + quota s'
  | _ :: s' => quota s'
  end.

(* cut a byte string into buffers of the given sizes (cyclically; sizes 0 give empty buffers);
   used by the runner to present the same output under arbitrary chunkings *)
Fixpoint chunk_by (fuel : nat) (sizes all : list nat) (b : bytes) : list bytes :=
  match fuel with
  | O => [b]
  | S f =>
    match b with
    | [] => []
    | _ =>
      match sizes with
      | [] => match all with [] => [b] | n :: rest => firstn n b :: chunk_by f rest all (skipn n b) end
      | n :: rest => firstn n b :: chunk_by f rest all (skipn n b)
      end
    end
  end.
