(* Loader.v -- src/reader.rs: Reader::read, get_xref_start, search_substring, read_object, and the
   file-level parsers of src/parser/mod.rs: header, binary_mark, xref_start, stream, object,
   _indirect_object, the second alternative of xref_and_trailer.  Definitions only.
   The cross-reference table parser, the trailer parser and decode_xref_stream are Model/Xref.v
   (C02); direct objects are Model/Parser.v.

   Scope.  Everything a file written by Model/Save.v exercises, plus the error paths reached by
   damaged files, is modelled branch for branch.  Four features are NOT modelled; the loader then
   answers [LUnmodelled] (the correspondence check skips such cases and counts them):
     - a stream whose Length is an indirect reference (Reader::get_object during parsing and the
       zero-length-stream pass, which is a no-op in every modelled case: see [load]),
     - object streams (ObjectStream::new; Model/ObjStm.v is C02's),
     - a cross-reference stream with a Filter (Stream::decompress),
     - an Encrypt entry in the trailer (authenticate_password / decrypt). *)
From LV Require Import Base.Bytes Base.Sx Model.Obj Model.Writer Model.Parser Model.Xref Model.Utf Gen.Lex.

Local Open Scope N_scope.

Inductive lerr :=
| LeHeader          (* Error::Parse(InvalidFileHeader) *)
| LeXrefStart       (* Error::Xref(Start) *)
| LePrevStart       (* Error::Xref(PrevStart) *)
| LeStreamStart     (* Error::Xref(StreamStart) *)
| LeTrailer         (* Error::Parse(InvalidTrailer) *)
| LeInvalidXref     (* Error::Parse(InvalidXref) *)
| LeIo.             (* Error::IO *)

Inductive lstep (A : Type) := SOk (a : A) | SErr (e : lerr) | SPanic | SOut | SUnm.
Arguments SOk {A} a.
Arguments SErr {A} e.
Arguments SPanic {A}.
Arguments SOut {A}.
Arguments SUnm {A}.

Definition blen (s : bytes) : N := N.of_nat (length s).

(* &buffer[n..] for n <= len (callers check the bound first; the guard keeps the extracted
   model from building a huge unary number) *)
Definition from (n : N) (s : bytes) : bytes := if blen s <? n then [] else drop (N.to_nat n) s.

(* ---------- header, binary mark ---------- *)
(* self.buffer.windows(5).position(|w| w == b"%PDF-").unwrap_or(0) *)
Fixpoint find_sub (pat s : bytes) (pos : N) : option N :=
  match s with
  | [] => None
  | _ :: t => if prefixb pat s then Some pos else find_sub pat t (pos + 1)
  end.
Definition pdf_offset (s : bytes) : N := match find_sub (bs "%PDF-") s 0 with Some p => p | None => 0 end.

Definition not_eol_byte (c : byte) : bool := negb (is_comment_end c).

(* delimited(tag(t), take_while(not CR/LF), pair(eol, many0_count(comment))) ; the trailing
   many0_count cannot fail (a comment always consumes input) and its remainder is dropped *)
Definition line_after (t : bytes) (s : bytes) : option bytes :=
  match ptag t s with
  | POk _ r => let '(v, r1) := take_while not_eol_byte r in
               match eol r1 with POk _ _ => Some v | _ => None end
  | _ => None
  end.

(* parser::header: the version must be UTF-8 (str::from_utf8) *)
Definition header (s : bytes) : option bytes :=
  match line_after (bs "%PDF-") s with
  | Some v => match utf8_decode v with Some _ => Some v | None => None end
  | None => None
  end.

Definition default_binary_mark : bytes := [xbb; xad; xc0; xde].

(* line 2: the text after the first LF of the buffer *)
Fixpoint after_first_lf (s : bytes) : option bytes :=
  match s with
  | [] => None
  | c :: t => if byte_eqb c x0a then Some t else after_first_lf t
  end.
Definition read_binary_mark (s : bytes) : bytes :=
  match after_first_lf s with
  | Some l2 =>
    match line_after [x25] l2 with
    | Some m => if forallb (fun b => 128 <=? N_of_byte b) m then m else default_binary_mark
    | None => default_binary_mark
    end
  | None => default_binary_mark
  end.

(* ---------- get_xref_start ---------- *)
(* Reader::search_substring(buffer, pattern, start_pos): the loop finds the first occurrence at or
   after start_pos by naive search (a mismatch after a partial match restarts one byte after the
   start of the partial match), then recurses from the byte after it and prefers the later
   result: the LAST occurrence at or after start_pos. *)
Fixpoint search_last_aux (s : bytes) (pos : N) (pat : bytes) (best : option N) : option N :=
  match s with
  | [] => best
  | _ :: t => search_last_aux t (pos + 1) pat (if prefixb pat s then Some pos else best)
  end.
Definition search_substring (buf pat : bytes) (start : N) : option N :=
  search_last_aux (from start buf) start pat None.

Definition skip_spaces (s : bytes) : bytes := skip_while (fun c => byte_eqb c x20) s.

(* parser::xref_start = "startxref" eol trim_spaces(integer) (eol, "%%EOF", space) *)
Definition xref_start_p (s : bytes) : option Z :=
  match ptag (bs "startxref") s with
  | POk _ r1 =>
    match eol r1 with
    | POk _ r2 =>
      match integer (skip_spaces r2) with
      | POk z r3 =>
        match eol (skip_spaces r3) with
        | POk _ r4 => match ptag (bs "%%EOF") r4 with POk _ _ => Some z | _ => None end
        | _ => None
        end
      | _ => None
      end
    | _ => None
    end
  | _ => None
  end.

(* None = Error::Xref(Start).  The value is `startxref as usize`: a negative one is above any length. *)
Definition get_xref_start (buf : bytes) : option N :=
  let len := blen buf in
  let seek_pos := len - N.min len 512 in
  match search_substring buf (bs "%%EOF") seek_pos with
  | Some eof_pos =>
    if 25 <? eof_pos then
      match search_substring buf (bs "startxref") (eof_pos - 25) with
      | Some xref_pos =>
        match xref_start_p (from xref_pos buf) with
        | Some z => if (z <? 0)%Z then None else if len <? Z.to_N z then None else Some (Z.to_N z)
        | None => None
        end
      | None => None
      end
    else None
  | None => None
  end.

(* ---------- indirect objects ---------- *)
Inductive ires := IOk (id : oid) (o : obj) | IErr | IPanic | IOut | IUnm.

Definition is_space_tab (c : byte) : bool := byte_eqb c x20 || byte_eqb c x09.

(* take(n) on a slice: Error when fewer bytes remain *)
Definition take_N (n : N) (s : bytes) : option (bytes * bytes) :=
  if blen s <? n then None else take_n (N.to_nat n) s.

(* parser::stream.  PErr: the alternative does not apply (alt goes on with _direct_objects);
   PFail: negative Length (nom Failure). *)
Inductive sres := StOk (o : obj) (rest : bytes) | StErr | StFail | StPanic | StOut | StUnm.

Definition stream_p (fuel : nat) (s : bytes) : sres :=
  match dictionary fuel s with
  | POk d r =>
    match ptag (bs "stream") (space r) with
    | POk _ r2 =>
      match eol (skip_while is_space_tab r2) with
      | POk _ r4 =>
        match dict_get d K_Length with
        | Some (ORef _ _) => StUnm
        | Some (OInt len) =>
          if (len <? 0)%Z then StFail
          else
            match take_N (Z.to_N len) r4 with
            | Some (data, r5) =>
              let r6 := match eol r5 with POk _ r => r | _ => r5 end in
              match ptag (bs "endstream") r6 with
              | POk _ r7 => StOk (stream_new d data) r7
              | _ => StErr
              end
            | None => StErr
            end
        | _ => StOk (OStream d []) r4          (* Stream::with_position: content stays empty *)
        end
      | _ => StErr
      end
    | _ => StErr
    end
  | PErr => StErr
  | PFail => StFail
  | PPanic => StPanic
  | POut => StOut
  end.

(* parser::_indirect_object on input [s]; [expected] = expected_id.  IErr stands for both
   Error::IndirectObject and Error::ObjectIdMismatch (every caller modelled here discards the
   error or maps it to another one).  The trailing (space, opt("endobj"), space) cannot fail. *)
Definition indirect_object (s : bytes) (expected : option oid) : ires :=
  let fuel := fuel_for s in
  match object_id (space s) with
  | POk id r =>
    match ptag (bs "obj") r with
    | POk _ r1 =>
      let r2 := space r1 in
      if match expected with Some e => negb (oid_eqb e id) | None => false end then IErr
      else
        match stream_p fuel r2 with
        | StOk o _ => IOk id o
        | StErr =>
          match direct_objects fuel r2 with
          | POk o _ => IOk id o
          | PErr | PFail => IErr
          | PPanic => IPanic
          | POut => IOut
          end
        | StFail => IErr
        | StPanic => IPanic
        | StOut => IOut
        | StUnm => IUnm
        end
    | _ => IErr
    end
  | _ => IErr
  end.

(* ---------- xref_and_trailer ---------- *)
Definition of_xres {A} (r : xres A) : lstep A :=
  match r with
  | XOk a => SOk a
  | XErr XeInvalidTrailer => SErr LeTrailer
  | XErr XeInvalidXref => SErr LeInvalidXref
  | XErr XeIo => SErr LeIo
  | XErr XeDecompress => SUnm
  | XPanic => SPanic
  | XOut => SOut
  | XNoMatch => SErr LeTrailer
  end.

(* parser::xref_and_trailer on &buffer[start..] *)
Definition xref_and_trailer (buf : bytes) (start : N) : lstep (xref * dict) :=
  let s := from start buf in
  match xref_and_trailer_table s with
  | XNoMatch =>
    match indirect_object s None with
    | IOk _ (OStream d c) => if dict_has d K_Filter then SUnm else of_xres (decode_xref_plain d c)
    | IOk _ _ => SErr LeInvalidXref
    | IErr => SErr LeTrailer
    | IPanic => SPanic
    | IOut => SOut
    | IUnm => SUnm
    end
  | r => of_xres r
  end.

(* Reader::merge_xref_stream(xref, start): when [start] is an integer, the cross-reference section at that
   offset is merged into [xref] (entries already present win); anything else is ignored *)
Definition merge_xref_stream (buf : bytes) (x : xref) (start : option obj) : lstep xref :=
  match start with
  | Some (OInt q) =>
    if (q <? 0)%Z || (blen buf <? Z.to_N q) then SErr LeStreamStart
    else
      match xref_and_trailer buf (Z.to_N q) with
      | SOk (sx, _) => SOk (xref_merge x sx)
      | SErr e => SErr e
      | SPanic => SPanic
      | SOut => SOut
      | SUnm => SUnm
      end
  | _ => SOk x
  end.

(* the loop over Prev; [seen] = already_seen.  Every iteration adds a new value in 0..len to
   [seen], so fuel = len + 2 is never exhausted.  Order inside one iteration (since /repo 4ad1a1a):
   bounds of prev; the XRefStm of the newest trailer (removed on the way, so it is there in the first
   iteration only) is merged into xref; the Prev section is read; the XRefStm of the Prev section's own
   trailer is merged into that section; the section is merged into xref. *)
Fixpoint prev_loop (fuel : nat) (buf : bytes) (x : xref) (t : dict) (prev : option obj) (seen : list Z)
  : lstep (xref * dict) :=
  match prev with
  | Some (OInt p) =>
    if existsb (Z.eqb p) seen then SOk (x, t)
    else
      match fuel with
      | O => SOut
      | S f =>
        if (p <? 0)%Z || (blen buf <? Z.to_N p) then SErr LePrevStart
        else
          match merge_xref_stream buf x (dict_get t K_XRefStm) with
          | SOk x1 =>
            let t1 := dict_swap_remove t K_XRefStm in
            match xref_and_trailer buf (Z.to_N p) with
            | SOk (px, pt) =>
              match merge_xref_stream buf px (dict_get pt K_XRefStm) with
              | SOk px1 => prev_loop f buf (xref_merge x1 px1) t1 (dict_get pt K_Prev) (p :: seen)
              | SErr e => SErr e
              | SPanic => SPanic
              | SOut => SOut
              | SUnm => SUnm
              end
            | SErr e => SErr e
            | SPanic => SPanic
            | SOut => SOut
            | SUnm => SUnm
            end
          | SErr e => SErr e
          | SPanic => SPanic
          | SOut => SOut
          | SUnm => SUnm
          end
      end
  | _ => SOk (x, t)
  end.

(* ---------- the objects ---------- *)
Definition K_ObjStm := Eval cbv in bs "ObjStm".
Definition K_Encrypt := Eval cbv in bs "Encrypt".

(* entries_filter_map over reference_table.entries, collected into a BTreeMap (a later entry with
   the same parsed identifier replaces an earlier one).  None = an unmodelled feature was met. *)
Fixpoint read_entries (buf : bytes) (es : xmap) (acc : objmap) : lstep objmap :=
  match es with
  | [] => SOk acc
  | (_, XNormal off _) :: es' =>
    if blen buf <? off then read_entries buf es' acc                 (* Error::InvalidOffset *)
    else
      match indirect_object (from off buf) None with
      | IOk id (OStream d c) =>
        if has_type d K_ObjStm then SUnm else read_entries buf es' (insert acc id (OStream d c))
      | IOk id o => read_entries buf es' (insert acc id o)
      | IErr => read_entries buf es' acc                              (* "Object load error", entry dropped *)
      | IPanic => SPanic
      | IOut => SOut
      | IUnm => SUnm
      end
  | _ :: es' => read_entries buf es' acc
  end.

Inductive lres :=
| LOk (d : doc) (t : xtype)
| LErr (e : lerr)
| LPanic
| LOut
| LUnmodelled.

(* Reader::read.  After the objects are read the code looks at the streams whose content is
   empty (read_stream_content): a stream parsed with its Length has no start position (error,
   ignored) and a stream parsed without a usable Length has, in every modelled case, a Length
   that is absent or not an integer (error, ignored): the pass changes nothing here. *)
Definition load (buf0 : bytes) : lres :=
  let buf := from (pdf_offset buf0) buf0 in
  match header buf with
  | None => LErr LeHeader
  | Some version =>
    let mark := read_binary_mark buf in
    match get_xref_start buf with
    | None => LErr LeXrefStart
    | Some xs =>
      match xref_and_trailer buf xs with
      | SOk (x0, t0) =>
        match prev_loop (S (S (length buf))) buf x0 (dict_swap_remove t0 K_Prev) (dict_get t0 K_Prev) [] with
        | SOk (x, t) =>
          (* xref.max_id().checked_add(1) in u32 *)
          if u32_max <=? xref_max_id x then LErr LeInvalidXref
          else if dict_has t K_Encrypt then LUnmodelled
          else
            match read_entries buf (x_entries x) [] with
            | SOk objs =>
              LOk {| d_version := version; d_binary_mark := mark; d_trailer := t;
                     d_objects := objs; d_max_id := xref_max_id x |} (x_type x)
            | SErr e => LErr e
            | SPanic => LPanic
            | SOut => LOut
            | SUnm => LUnmodelled
            end
        | SErr e => LErr e
        | SPanic => LPanic
        | SOut => LOut
        | SUnm => LUnmodelled
        end
      | SErr e => LErr e
      | SPanic => LPanic
      | SOut => LOut
      | SUnm => LUnmodelled
      end
    end
  end.
