(* TextString.v -- model of src/common_data_structures/mod.rs: text_string, decode_text_string.
   Written from the Rust source, branch for branch.  Definitions only.

   [text_string] / [decode_text_string] model the code in the CURRENT tree (after the two `fix:`
   commits recorded in notes/C16.md); [text_string_pinned] / [decode_text_string_pinned] keep the
   model of the pinned tree, against which the refutations C16_text_string_rt_refuted and
   C16_utf8_marked_refuted are stated. *)
From LV Require Import Base.Bytes Model.Utf Model.Obj Model.OneByte Gen.Tables.
Local Open Scope N_scope.

(* s[2..].chunks(2).map(|c| if c.len() == 1 { from_be_bytes([c[0], 0]) } else { from_be_bytes(c) }) *)
Fixpoint units_of_be (bs : bytes) : list N :=
  match bs with
  | [] => []
  | [a] => [be_unit a x00]
  | a :: b :: r => be_unit a b :: units_of_be r
  end.

(* ---------------- pinned tree (before the two fix: commits) ---------------- *)

Definition text_string_pinned (s : ustring) : obj :=
  if is_ascii s then OStr (utf8_encode s) false
  else OStr (encode_utf16_be s) true.

Definition decode_text_string_pinned (o : obj) : res ustring :=
  match o with
  | OStr s _ =>
    if prefixb DEC_MARK_UTF16 s then
      match utf16_decode (units_of_be (drop 2 s)) with
      | Some t => Ok t
      | None => Err ETextStringDecode
      end
    else if prefixb DEC_MARK_UTF8 s then
      match utf8_decode s with
      | Some t => Ok t
      | None => Err ETextStringDecode
      end
    else bytes_to_string TEXT_STRING_ENCODING s
  | _ => Err EObjectType
  end.

(* ---------------- current tree ---------------- *)

Definition opt_N_eqb (a b : option N) : bool :=
  match a, b with
  | Some x, Some y => x =? y
  | None, None => true
  | _, _ => false
  end.

(* text.bytes().all(|b| b.is_ascii() && PDF_DOC_ENCODING[b as usize] == Some(u16::from(b))) *)
Definition self_encoded (b : byte) : bool :=
  (N_of_byte b <? 128) && opt_N_eqb (cell TEXT_STRING_SELF_TABLE b) (Some (N_of_byte b)).

Definition text_string (s : ustring) : obj :=
  if forallb self_encoded (utf8_encode s) then OStr (utf8_encode s) false
  else OStr (encode_utf16_be s) true.

Definition decode_text_string (o : obj) : res ustring :=
  match o with
  | OStr s _ =>
    if prefixb DEC_MARK_UTF16 s then
      match utf16_decode (units_of_be (drop DEC_SKIP_UTF16 s)) with
      | Some t => Ok t
      | None => Err ETextStringDecode
      end
    else if prefixb DEC_MARK_UTF8 s then
      match utf8_decode (drop DEC_SKIP_UTF8 s) with
      | Some t => Ok t
      | None => Err ETextStringDecode
      end
    else bytes_to_string TEXT_STRING_ENCODING s
  | _ => Err EObjectType
  end.
