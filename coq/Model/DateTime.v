(* Model/DateTime.v -- src/datetime.rs, at the level where lopdf has logic:

     civil fields + UTC offset  --(format string of the backend, convert_utc_offset)-->  bytes
     bytes --(datetime_string: drop D : ')--> text --(parse cascade of the backend)--> fields + offset

   The format strings, the parse patterns and their ORDER, the byte pair of convert_utc_offset and
   the strip set of datetime_string are regenerated from the Rust source (Gen/DateFmt.v).  What the
   three third-party engines do with one directive is modelled here from their sources
   (chrono 0.4.45 format/{formatting,parse,scan}.rs, jiff 0.2.37 fmt/strtime/{printer,parse}.rs and
   fmt/offset.rs, time 0.3.55 formatting/mod.rs, parsing/{component,parsed}.rs) for exactly the
   directives lopdf uses; any other directive makes the model answer None ("not modelled"), which
   the correspondence check turns into an alarm.  Instant <-> civil-field arithmetic is the
   backends' own; the only place it enters is jiff's Timestamp range (a Zoned cannot hold instants
   outside it) and the rendering of results as Unix seconds for the comparison with the harness.

   Domain of the model: ASCII input (datetime_string answers None on a byte >= 128; Rust would go
   on with valid UTF-8).  Offsets are seconds east of UTC (Z).  Definitions only. *)
From LV Require Import Base.Bytes Gen.DateFmt.
Local Open Scope Z_scope.

Record civil := mkCivil { cy : Z; cmo : Z; cd : Z; ch : Z; cmi : Z; cs : Z }.

Definition obind {A B} (o : option A) (f : A -> option B) : option B :=
  match o with Some a => f a | None => None end.
Notation "'do' x <- o ; k" := (obind o (fun x => k)) (at level 200, x pattern, o at level 100, k at level 200).

(* ---------- bytes and digits ---------- *)
Definition bval (b : byte) : Z := Z.of_N (N_of_byte b).
Definition dg (d : Z) : byte := byte_of_N (Z.to_N (48 + d)).
Definition digit_val (b : byte) : option Z :=
  let n := bval b in if (48 <=? n) && (n <=? 57) then Some (n - 48) else None.
Definition is_b (k : Z) (b : byte) : bool := bval b =? k.

(* zero-padded decimal of the width every engine uses for the field; outside the width the
   engines differ (sign, more digits) and the model is silent *)
Definition pad2 (n : Z) : option bytes :=
  if (0 <=? n) && (n <=? 99) then Some [dg (n / 10); dg (n mod 10)] else None.
Definition pad4 (n : Z) : option bytes :=
  if (0 <=? n) && (n <=? 9999) then Some [dg (n / 1000); dg (n / 100 mod 10); dg (n / 10 mod 10); dg (n mod 10)]
  else None.

(* ---------- format descriptions ---------- *)
Inductive comp := CYear | CMonth | CDay | CHour | CMinute | CSecond.
Inductive item :=
| ILit (b : byte)
| INum (c : comp)
| IOff (hash : bool) (colons : nat)     (* strftime %z %:z %#z *)
| ITOffHour (mandatory : bool)          (* time [offset_hour] / [offset_hour sign:mandatory] *)
| ITOffMin.                             (* time [offset_minute] *)

(* strftime syntax shared by chrono and jiff, restricted to % [#] :* letter *)
Definition dir_item (h : bool) (c : nat) (b : byte) : option item :=
  let plain := negb h && Nat.eqb c 0 in
  if is_b 89 b then (if plain then Some (INum CYear) else None)         (* Y *)
  else if is_b 109 b then (if plain then Some (INum CMonth) else None)  (* m *)
  else if is_b 100 b then (if plain then Some (INum CDay) else None)    (* d *)
  else if is_b 72 b then (if plain then Some (INum CHour) else None)    (* H *)
  else if is_b 77 b then (if plain then Some (INum CMinute) else None)  (* M *)
  else if is_b 83 b then (if plain then Some (INum CSecond) else None)  (* S *)
  else if is_b 122 b then                                               (* z *)
    (if h then (if Nat.eqb c 0 then Some (IOff true 0) else None)
     else if Nat.leb c 1 then Some (IOff false c) else None)
  else None.

Inductive smode := MText | MPct (hash : bool) (colons : nat).
Fixpoint strf_go (m : smode) (fmt : bytes) : option (list item) :=
  match fmt with
  | [] => match m with MText => Some [] | MPct _ _ => None end
  | b :: r =>
    match m with
    | MText => if is_b 37 b then strf_go (MPct false 0) r
               else if bval b <? 128 then option_map (cons (ILit b)) (strf_go MText r) else None
    | MPct h c =>
      if is_b 35 b then (if h || negb (Nat.eqb c 0) then None else strf_go (MPct true 0) r)
      else if is_b 58 b then strf_go (MPct h (S c)) r
      else match dir_item h c b with
           | Some it => option_map (cons it) (strf_go MText r)
           | None => None
           end
    end
  end.
Definition strf_items (fmt : bytes) : option (list item) := strf_go MText fmt.

(* time's format description, version 1 syntax, restricted to literals and the components below
   written exactly so (single spaces) *)
Definition T_year := Eval cbv in bs "year".
Definition T_month := Eval cbv in bs "month".
Definition T_day := Eval cbv in bs "day".
Definition T_hour := Eval cbv in bs "hour".
Definition T_minute := Eval cbv in bs "minute".
Definition T_second := Eval cbv in bs "second".
Definition T_offset_hour := Eval cbv in bs "offset_hour".
Definition T_offset_hour_m := Eval cbv in bs "offset_hour sign:mandatory".
Definition T_offset_minute := Eval cbv in bs "offset_minute".

Definition td_comp (name : bytes) : option item :=
  if bytes_eqb name T_year then Some (INum CYear)
  else if bytes_eqb name T_month then Some (INum CMonth)
  else if bytes_eqb name T_day then Some (INum CDay)
  else if bytes_eqb name T_hour then Some (INum CHour)
  else if bytes_eqb name T_minute then Some (INum CMinute)
  else if bytes_eqb name T_second then Some (INum CSecond)
  else if bytes_eqb name T_offset_hour then Some (ITOffHour false)
  else if bytes_eqb name T_offset_hour_m then Some (ITOffHour true)
  else if bytes_eqb name T_offset_minute then Some (ITOffMin)
  else None.

(* [acc] = None outside brackets, Some reversed-name inside *)
Fixpoint td_go (acc : option bytes) (fmt : bytes) : option (list item) :=
  match fmt with
  | [] => match acc with None => Some [] | Some _ => None end
  | b :: r =>
    match acc with
    | None => if is_b 91 b then td_go (Some []) r
              else if is_b 93 b || is_b 92 b || (128 <=? bval b) then None
              else option_map (cons (ILit b)) (td_go None r)
    | Some a => if is_b 93 b then
                  match td_comp (rev a) with
                  | Some it => option_map (cons it) (td_go None r)
                  | None => None
                  end
                else if is_b 91 b then None
                else td_go (Some (b :: a)) r
    end
  end.
Definition td_items (fmt : bytes) : option (list item) := td_go None fmt.

(* ---------- formatting ---------- *)
Definition cget (c : comp) (f : civil) : Z :=
  match c with CYear => cy f | CMonth => cmo f | CDay => cd f | CHour => ch f | CMinute => cmi f | CSecond => cs f end.
Definition num_fmt (c : comp) (f : civil) : option bytes :=
  match c with CYear => pad4 (cy f) | _ => pad2 (cget c f) end.
Definition sign_byte (off : Z) : byte := if off <? 0 then x2d else x2b.
Definition colon_opt (c : bool) : bytes := if c then [x3a] else [].

(* chrono OffsetFormat{precision: Minutes}: the seconds are ROUNDED to the nearest minute *)
Definition chrono_off (colon : bool) (off : Z) : option bytes :=
  let mins := (Z.abs off + 30) / 60 in
  do hh <- pad2 (mins / 60); do mm <- pad2 (mins mod 60);
  Some (sign_byte off :: hh ++ colon_opt colon ++ mm).
(* jiff write_offset(colon, minute = true, second = false): seconds are printed when non-zero *)
Definition jiff_off (colon : bool) (off : Z) : option bytes :=
  let a := Z.abs off in
  do hh <- pad2 (a / 3600); do mm <- pad2 (a / 60 mod 60); do ss <- pad2 (a mod 60);
  Some (sign_byte off :: hh ++ colon_opt colon ++ mm ++ (if a mod 60 =? 0 then [] else colon_opt colon ++ ss)).
(* time: the sign is that of the whole offset; hours and minutes are truncated *)
Definition time_off_hour (mandatory : bool) (off : Z) : option bytes :=
  do hh <- pad2 (Z.abs off / 3600);
  Some ((if off <? 0 then [x2d] else if mandatory then [x2b] else []) ++ hh).
Definition time_off_min (off : Z) : option bytes := pad2 (Z.abs off / 60 mod 60).

Definition chrono_fmt_item (it : item) (f : civil) (off : Z) : option bytes :=
  match it with
  | ILit b => Some [b]
  | INum c => num_fmt c f
  | IOff false O => chrono_off false off
  | IOff false (S O) => chrono_off true off
  | _ => None
  end.
Definition jiff_fmt_item (it : item) (f : civil) (off : Z) : option bytes :=
  match it with
  | ILit b => Some [b]
  | INum c => num_fmt c f
  | IOff false O => jiff_off false off
  | IOff false (S O) => jiff_off true off
  | _ => None
  end.
Definition time_fmt_item (it : item) (f : civil) (off : Z) : option bytes :=
  match it with
  | ILit b => Some [b]
  | INum c => num_fmt c f
  | ITOffHour m => time_off_hour m off
  | ITOffMin => time_off_min off
  | IOff _ _ => None
  end.

Fixpoint fmt_items (sem : item -> civil -> Z -> option bytes) (its : list item) (f : civil) (off : Z) : option bytes :=
  match its with
  | [] => Some []
  | it :: r => do a <- sem it f off; do b <- fmt_items sem r f off; Some (a ++ b)
  end.

(* convert_utc_offset: the LAST byte equal to CUO_FROM becomes CUO_TO *)
Fixpoint replace_first (x y : byte) (s : bytes) : bytes :=
  match s with
  | [] => []
  | b :: r => if byte_eqb b x then y :: r else b :: replace_first x y r
  end.
Definition convert_utc_offset (s : bytes) : bytes := rev (replace_first CUO_FROM CUO_TO (rev s)).

(* the five conversions into Object *)
Definition fmt_chrono (f : civil) (off : Z) : option bytes :=    (* From<DateTime<Local>> *)
  do its <- strf_items CHRONO_FMT_LOCAL; do s <- fmt_items chrono_fmt_item its f off; Some (convert_utc_offset s).
Definition fmt_chrono_utc (f : civil) : option bytes :=          (* From<DateTime<Utc>> *)
  do its <- strf_items CHRONO_FMT_UTC; fmt_items chrono_fmt_item its f 0.
Definition fmt_jiff (f : civil) (off : Z) : option bytes :=      (* From<Zoned> *)
  do its <- strf_items JIFF_FMT_ZONED; do s <- fmt_items jiff_fmt_item its f off; Some (convert_utc_offset s).
Definition fmt_jiff_utc (f : civil) : option bytes :=            (* From<Timestamp> *)
  do its <- strf_items JIFF_FMT_TS; fmt_items jiff_fmt_item its f 0.
Definition fmt_time (f : civil) (off : Z) : option bytes :=      (* From<OffsetDateTime> *)
  do its <- td_items TIME_FMT; fmt_items time_fmt_item its f off.

(* ---------- datetime_string ---------- *)
Definition datetime_string (s : bytes) : option bytes :=
  let r := filter (fun b => negb (byte_in b DATE_STRIP)) s in
  if forallb (fun b => bval b <? 128) r then Some r else None.

(* ---------- scanning ---------- *)
Inductive key := KY | KMo | KD | KH | KMi | KS | KOff | KTOH | KTNeg | KTOM.
Definition key_eqb (a b : key) : bool :=
  match a, b with
  | KY, KY | KMo, KMo | KD, KD | KH, KH | KMi, KMi | KS, KS | KOff, KOff | KTOH, KTOH | KTNeg, KTNeg | KTOM, KTOM => true
  | _, _ => false
  end.
Definition parsed := list (key * Z).
Fixpoint pget (k : key) (P : parsed) : option Z :=
  match P with [] => None | (k', v) :: r => if key_eqb k k' then Some v else pget k r end.
Definition pset (k : key) (v : Z) (P : parsed) : parsed := (k, v) :: P.
Definition ckey (c : comp) : key :=
  match c with CYear => KY | CMonth => KMo | CDay => KD | CHour => KH | CMinute => KMi | CSecond => KS end.

Fixpoint take_digits (max : nat) (s : bytes) : list Z * bytes :=
  match max, s with
  | S m, b :: r => match digit_val b with
                   | Some d => let '(ds, r') := take_digits m r in (d :: ds, r')
                   | None => ([], s)
                   end
  | _, _ => ([], s)
  end.
Definition dval (ds : list Z) : Z := fold_left (fun a d => a * 10 + d) ds 0.
Fixpoint skip (p : byte -> bool) (s : bytes) : bytes :=
  match s with b :: r => if p b then skip p r else s | [] => [] end.
(* char::is_whitespace restricted to ASCII: U+0009..U+000D and space *)
Definition ws_char (b : byte) : bool := let n := bval b in ((9 <=? n) && (n <=? 13)) || (n =? 32).
(* u8::is_ascii_whitespace: the same without U+000B *)
Definition ws_ascii (b : byte) : bool := let n := bval b in (n =? 9) || (n =? 10) || (n =? 12) || (n =? 13) || (n =? 32).
Definition in_range (lo hi v : Z) : bool := (lo <=? v) && (v <=? hi).
Definition two_digits (s : bytes) : option (Z * bytes) :=
  match s with
  | a :: b :: r => match digit_val a, digit_val b with Some x, Some y => Some (x * 10 + y, r) | _, _ => None end
  | _ => None
  end.

(* ---------- calendar facts every backend checks ---------- *)
Definition leap (y : Z) : bool := (y mod 4 =? 0) && (negb (y mod 100 =? 0) || (y mod 400 =? 0)).
Definition dim (y m : Z) : Z :=
  if m =? 2 then (if leap y then 29 else 28)
  else if (m =? 4) || (m =? 6) || (m =? 9) || (m =? 11) then 30 else 31.
Definition date_ok (y m d : Z) : bool := in_range 1 12 m && in_range 1 (dim y m) d.

(* days from 1970-01-01 in the proleptic Gregorian calendar (the closed form the backends use) *)
Definition days_from_civil (y m d : Z) : Z :=
  let y' := if m <=? 2 then y - 1 else y in
  let era := y' / 400 in
  let yoe := y' - era * 400 in
  let mp := (m + 9) mod 12 in
  let doy := (153 * mp + 2) / 5 + d - 1 in
  let doe := yoe * 365 + yoe / 4 - yoe / 100 + doy in
  era * 146097 + doe - 719468.
Definition instant (f : civil) (off : Z) : Z :=
  days_from_civil (cy f) (cmo f) (cd f) * 86400 + ch f * 3600 + cmi f * 60 + cs f - off.

(* ---------- chrono: format/parse.rs, format/scan.rs, format/parsed.rs ---------- *)
Definition I64_MAX : Z := 9223372036854775807.
(* scan::number(s, 1, max) *)
Definition chrono_number (max : nat) (s : bytes) : option (Z * bytes) :=
  match take_digits max s with
  | ([], _) => None
  | (ds, r) => if dval ds <=? I64_MAX then Some (dval ds, r) else None
  end.
Definition chrono_num (signed : bool) (w : nat) (s0 : bytes) : option (Z * bytes) :=
  let s := skip ws_char s0 in
  match s with
  | b :: r =>
    if signed && is_b 45 b then (do vr <- chrono_number (length r) r; Some (- fst vr, snd vr))
    else if signed && is_b 43 b then chrono_number (length r) r
    else chrono_number w s
  | [] => None
  end.
(* scan::timezone_offset(s, colon_or_space, allow_zulu, allow_missing_minutes, true), ASCII part *)
Definition chrono_tz (zulu missing : bool) (s : bytes) : option (Z * bytes) :=
  match s with
  | [] => None
  | b :: r =>
    if zulu && (is_b 90 b || is_b 122 b) then Some (0, r)
    else
      do neg <- (if is_b 43 b then Some false else if is_b 45 b then Some true else None);
      do hr <- two_digits r;
      let r3 := skip (fun c => is_b 58 c || ws_char c) (snd hr) in
      do mr <- match r3 with
               | m1 :: m2 :: r4 =>
                 match digit_val m1, digit_val m2 with
                 | Some c, Some d => if c <=? 5 then Some (c * 10 + d, r4) else None
                 | _, _ => None
                 end
               | [_] => None
               | [] => if missing then Some (0, []) else None
               end;
      let secs := fst hr * 3600 + fst mr * 60 in
      Some (if neg : bool then - secs else secs, snd mr)
  end.
(* (width, signed, lo, hi) of Parsed::set_* *)
Definition chrono_spec (c : comp) : nat * bool * Z * Z :=
  match c with
  | CYear => (4%nat, true, - 2147483648, 2147483647)
  | CMonth => (2%nat, false, 1, 12)
  | CDay => (2%nat, false, 1, 31)
  | CHour => (2%nat, false, 0, 23)
  | CMinute => (2%nat, false, 0, 59)
  | CSecond => (2%nat, false, 0, 60)
  end.
Definition lit_sem (b : byte) (s : bytes) (P : parsed) : option (bytes * parsed) :=
  match s with c :: r => if byte_eqb c b then Some (r, P) else None | [] => None end.
Definition chrono_sem (it : item) (s : bytes) (P : parsed) : option (bytes * parsed) :=
  match it with
  | ILit b => lit_sem b s P
  | INum c =>
    let '(w, signed, lo, hi) := chrono_spec c in
    do vr <- chrono_num signed w s;
    if in_range lo hi (fst vr) then Some (snd vr, pset (ckey c) (fst vr) P) else None
  | IOff h _ =>
    do orr <- chrono_tz h h (skip ws_char s); Some (snd orr, pset KOff (fst orr) P)
  | _ => None
  end.

(* kinds of cascade step (codes of Gen/DateFmt.v):
   0 = date-time with offset      (DateTime::parse_from_str / Zoned::strptime / OffsetDateTime::parse)
   1 = civil date-time read as UT (jiff DateTime::strptime + in_tz("UTC") / PrimitiveDateTime + assume_utc)
   2 = date only, midnight UT     (NaiveDate + from_date / Date::strptime + in_tz("GMT") / Date + midnight) *)
Definition CHRONO_MIN_YEAR : Z := - 262143.
Definition CHRONO_MAX_YEAR : Z := 262142.
Definition chrono_date (P : parsed) : option (Z * Z * Z) :=
  do y <- pget KY P; do m <- pget KMo P; do d <- pget KD P;
  if in_range CHRONO_MIN_YEAR CHRONO_MAX_YEAR y && date_ok y m d then Some (y, m, d) else None.
Definition chrono_resolve (kind : N) (P : parsed) : option (civil * Z) :=
  match kind with
  | 0%N =>
    do off <- pget KOff P; do ymd <- chrono_date P; do h <- pget KH P; do mi <- pget KMi P;
    (* second 60 becomes 59 plus a leap-second nanosecond count: the observable second is 59 *)
    let s := match pget KS P with Some v => if v =? 60 then 59 else v | None => 0 end in
    if in_range (- 86399) 86399 off then
      let '(y, m, d) := ymd in Some (mkCivil y m d h mi s, off)
    else None
  | 2%N => do ymd <- chrono_date P; let '(y, m, d) := ymd in Some (mkCivil y m d 0 0 0, 0)
  | _ => None
  end.

(* ---------- jiff: fmt/strtime/parse.rs, fmt/offset.rs ---------- *)
Definition jiff_number (w : nat) (s0 : bytes) : option (Z * bytes) :=
  let s := skip ws_ascii s0 in
  match take_digits w s with
  | ([], _) => None
  | (ds, r) => Some (dval ds, r)
  end.
(* offset::Parser{zulu: false, require_minute, subminute, colon: Absent} *)
Definition jiff_tz (s : bytes) : option (Z * bytes) :=
  match s with
  | [] => None
  | b :: r =>
    do neg <- (if is_b 43 b then Some false else if is_b 45 b then Some true else None);
    do hr <- two_digits r;
    if negb (in_range 0 25 (fst hr)) then None else
    match snd hr with
    | c :: _ => if is_b 58 c then None else
      do mr <- two_digits (snd hr);
      if negb (in_range 0 59 (fst mr)) then None else
      let '(sec, r5) := match two_digits (snd mr) with Some (v, r') => (Some v, r') | None => (None, snd mr) end in
      match sec with
      | Some v =>
        if negb (in_range 0 59 v) then None
        else match r5 with
             | c' :: _ => if is_b 46 c' || is_b 44 c' then None
                          else let t := fst hr * 3600 + fst mr * 60 + v in Some (if neg : bool then - t else t, r5)
             | [] => let t := fst hr * 3600 + fst mr * 60 + v in Some (if neg : bool then - t else t, r5)
             end
      | None => let t := fst hr * 3600 + fst mr * 60 in Some (if neg : bool then - t else t, r5)
      end
    | [] => None
    end
  end.
Definition jiff_spec (c : comp) : nat * Z * Z :=
  match c with
  | CYear => (4%nat, - 9999, 9999)
  | CMonth => (2%nat, 1, 12)
  | CDay => (2%nat, 1, 31)
  | CHour => (2%nat, 0, 23)
  | CMinute => (2%nat, 0, 59)
  | CSecond => (2%nat, 0, 59)
  end.
Definition jiff_sem (it : item) (s : bytes) (P : parsed) : option (bytes * parsed) :=
  match it with
  | ILit b => if ws_ascii b then Some (skip ws_ascii s, P) else lit_sem b s P
  | INum c =>
    match s with [] => None | _ =>
    let '(w, lo, hi) := jiff_spec c in
    (* %Y: an optional sign BEFORE the blanks parse_number skips *)
    let '(sg, s1) := match c, s with
                     | CYear, b :: r => if is_b 45 b then (- 1, r) else if is_b 43 b then (1, r) else (1, s)
                     | _, _ => (1, s)
                     end in
    do vr <- jiff_number w s1;
    let v := match c with CSecond => if fst vr =? 60 then 59 else fst vr | _ => sg * fst vr end in
    if in_range lo hi v then Some (snd vr, pset (ckey c) v P) else None
    end
  | IOff _ O => do orr <- jiff_tz s; Some (snd orr, pset KOff (fst orr) P)
  | _ => None
  end.
Definition JIFF_TS_MIN : Z := - 377705023201.
Definition JIFF_TS_MAX : Z := 253402207200.
Definition jiff_civil (P : parsed) (date_only : bool) : option civil :=
  do y <- pget KY P; do m <- pget KMo P; do d <- pget KD P;
  if negb (date_ok y m d) then None else
  if date_only then Some (mkCivil y m d 0 0 0) else
  match pget KH P with
  | Some h => Some (mkCivil y m d h (match pget KMi P with Some v => v | None => 0 end)
                            (match pget KS P with Some v => v | None => 0 end))
  | None => match pget KMi P, pget KS P with None, None => Some (mkCivil y m d 0 0 0) | _, _ => None end
  end.
Definition jiff_zoned_ok (f : civil) (off : Z) : bool := in_range JIFF_TS_MIN JIFF_TS_MAX (instant f off).
Definition jiff_resolve (kind : N) (P : parsed) : option (civil * Z) :=
  match kind with
  | 0%N => do off <- pget KOff P; do f <- jiff_civil P false; if jiff_zoned_ok f off then Some (f, off) else None
  | 1%N => do f <- jiff_civil P false; if jiff_zoned_ok f 0 then Some (f, 0) else None
  | 2%N => do f <- jiff_civil P true; if jiff_zoned_ok f 0 then Some (f, 0) else None
  | _ => None
  end.

(* ---------- time: parsing/component.rs, parsing/parsed.rs ---------- *)
Fixpoint exactly (n : nat) (s : bytes) : option (list Z * bytes) :=
  match n with
  | O => Some ([], s)
  | S m => match s with
           | b :: r => match digit_val b with
                       | Some d => do xr <- exactly m r; Some (d :: fst xr, snd xr)
                       | None => None
                       end
           | [] => None
           end
  end.
Definition opt_sign (s : bytes) : option bool * bytes :=
  match s with
  | b :: r => if is_b 45 b then (Some true, r) else if is_b 43 b then (Some false, r) else (None, s)
  | [] => (None, s)
  end.
Definition time_sem (it : item) (s : bytes) (P : parsed) : option (bytes * parsed) :=
  match it with
  | ILit b => lit_sem b s P
  | INum CYear =>
    let '(sg, s1) := opt_sign s in
    do xr <- exactly 4 s1;
    let v := match sg with Some true => - dval (fst xr) | _ => dval (fst xr) end in
    Some (snd xr, pset KY v P)
  | INum c =>
    do xr <- exactly 2 s;
    let v := dval (fst xr) in
    let ok := match c with
              | CMonth => in_range 1 12 v | CDay => in_range 1 31 v | CHour => in_range 0 23 v
              | CMinute => in_range 0 59 v | _ => in_range 0 60 v
              end in
    if ok then Some (snd xr, pset (ckey c) v P) else None
  | ITOffHour mand =>
    let '(sg, s1) := opt_sign s in
    do xr <- exactly 2 s1;
    let h := dval (fst xr) in
    match sg with
    | None => if mand then None else if in_range 0 25 h then Some (snd xr, pset KTOH h (pset KTNeg 0 P)) else None
    | Some neg => if in_range 0 25 h then Some (snd xr, pset KTOH h (pset KTNeg (if neg then 1 else 0) P)) else None
    end
  | ITOffMin =>
    do xr <- exactly 2 s;
    let m := dval (fst xr) in if in_range 0 59 m then Some (snd xr, pset KTOM m P) else None
  | IOff _ _ => None
  end.
Definition time_date (P : parsed) : option (Z * Z * Z) :=
  do y <- pget KY P; do m <- pget KMo P; do d <- pget KD P;
  if date_ok y m d then Some (y, m, d) else None.
Definition time_hms (P : parsed) : option (Z * Z * Z) :=
  do h <- pget KH P;
  match pget KMi P, pget KS P with
  | None, None => Some (h, 0, 0)
  | Some m, None => Some (h, m, 0)
  | Some m, Some s => if s <=? 59 then Some (h, m, s) else None
  | None, Some _ => None
  end.
Definition time_resolve (kind : N) (P : parsed) : option (civil * Z) :=
  match kind with
  | 0%N =>
    do ymd <- time_date P; do hms <- time_hms P; do oh <- pget KTOH P;
    let om := match pget KTOM P with Some v => v | None => 0 end in
    let t := oh * 3600 + om * 60 in
    let off := match pget KTNeg P with Some 1 => - t | _ => t end in
    let '(y, m, d) := ymd in let '(h, mi, s) := hms in Some (mkCivil y m d h mi s, off)
  | 1%N =>
    do ymd <- time_date P; do hms <- time_hms P;
    let '(y, m, d) := ymd in let '(h, mi, s) := hms in Some (mkCivil y m d h mi s, 0)
  | 2%N => do ymd <- time_date P; let '(y, m, d) := ymd in Some (mkCivil y m d 0 0 0, 0)
  | _ => None
  end.

(* ---------- running a pattern, a cascade ---------- *)
Fixpoint run_items (sem : item -> bytes -> parsed -> option (bytes * parsed)) (its : list item)
         (s : bytes) (P : parsed) : option (bytes * parsed) :=
  match its with
  | [] => Some (s, P)
  | it :: r => do sp <- sem it s P; run_items sem r (fst sp) (snd sp)
  end.
(* one step: every engine requires the whole input to be consumed *)
Definition run_step (compile : bytes -> option (list item))
           (sem : item -> bytes -> parsed -> option (bytes * parsed))
           (resolve : N -> parsed -> option (civil * Z)) (step : N * bytes) (s : bytes) : option (civil * Z) :=
  do its <- compile (snd step);
  do sp <- run_items sem its s [];
  match fst sp with [] => resolve (fst step) (snd sp) | _ :: _ => None end.
(* a.or_else(b).or_else(c)...: the first step that succeeds *)
Fixpoint cascade (run : N * bytes -> bytes -> option (civil * Z)) (steps : list (N * bytes)) (s : bytes) : option (civil * Z) :=
  match steps with
  | [] => None
  | st :: r => match run st s with Some v => Some v | None => cascade run r s end
  end.

Definition parse_chrono_with (steps : list (N * bytes)) : bytes -> option (civil * Z) :=
  cascade (run_step strf_items chrono_sem chrono_resolve) steps.
Definition parse_jiff_with (steps : list (N * bytes)) : bytes -> option (civil * Z) :=
  cascade (run_step strf_items jiff_sem jiff_resolve) steps.
Definition parse_time_with (steps : list (N * bytes)) : bytes -> option (civil * Z) :=
  cascade (run_step td_items time_sem time_resolve) steps.

(* TryFrom<DateTime> for chrono::DateTime<Local> | jiff::Zoned | time::OffsetDateTime.
   chrono converts to Local: the instant is kept, the offset is not (observable: the instant). *)
Definition parse_chrono : bytes -> option (civil * Z) := parse_chrono_with CHRONO_PARSE.
Definition parse_jiff : bytes -> option (civil * Z) := parse_jiff_with JIFF_PARSE.
Definition parse_time : bytes -> option (civil * Z) := parse_time_with TIME_PARSE.

(* Object::as_datetime().try_into() on the bytes of a string object *)
Definition read_chrono (s : bytes) : option (civil * Z) := do t <- datetime_string s; parse_chrono t.
Definition read_jiff (s : bytes) : option (civil * Z) := do t <- datetime_string s; parse_jiff t.
Definition read_time (s : bytes) : option (civil * Z) := do t <- datetime_string s; parse_time t.

(* ---------- which (civil, offset) pairs the source TYPES can hold (domain of From<...>) ---------- *)
Definition civil_ok (f : civil) : bool :=
  date_ok (cy f) (cmo f) (cd f) && in_range 0 23 (ch f) && in_range 0 59 (cmi f) && in_range 0 59 (cs f).
Definition rep_chrono (f : civil) (off : Z) : bool :=
  civil_ok f && in_range CHRONO_MIN_YEAR CHRONO_MAX_YEAR (cy f) && in_range (- 86399) 86399 off.
Definition rep_jiff (f : civil) (off : Z) : bool :=
  civil_ok f && in_range (- 9999) 9999 (cy f) && in_range (- 93599) 93599 off && jiff_zoned_ok f off.
Definition rep_time (f : civil) (off : Z) : bool :=
  civil_ok f && in_range (- 9999) 9999 (cy f) && in_range (- 93599) 93599 off.
