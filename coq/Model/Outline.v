(* Outline.v -- src/bookmarks.rs (Bookmark, Document::add_bookmark, outline_child, build_outline)
   and Document::adjust_zero_pages / recursive_fix_pages of src/document.rs.
   Definitions only.

   Representation choices
   * a Rust [String] is the list of its Unicode scalar values ([ustring]); [is_scalar] is the
     type invariant of [char] (theorems assume it, the Rust type enforces it);
   * [bookmark_table : HashMap<u32, Bookmark>] and [processed : HashMap<ObjectId, Dictionary>] are
     only ever accessed by key ([get], [get_mut], [insert]) and, for [processed], drained into the
     [BTreeMap] of objects, so iteration order cannot be observed; they are association lists
     ([tbl_set]: replace in place or append; [pm_put]: newest first, shadowing);
   * every object id created here has generation 0, so [processed] is keyed by the object number;
   * u32 arithmetic: [maxid] only grows, so "some [+= 1] overflowed" (a panic: the harness is built
     with overflow checks) is equivalent to "the final value is >= 2^32" and is tested once at the
     end of [build_outline]; [max_bookmark_id] is not range-checked (it would take 2^32 calls);
   * the recursion of [outline_child] / [recursive_fix_pages] follows the [children] vectors of the
     table (no structural argument): explicit fuel, [OFuel] when it runs out. *)
From LV Require Import Base.Bytes Base.Sx Model.Obj Model.DocQ.

Inductive outcome (A : Type) := OOk (a : A) | OPanic | OFuel.
Arguments OOk {A} a.
Arguments OPanic {A}.
Arguments OFuel {A}.

(* ---------- strings ---------- *)
Definition ustring := list N.
Definition is_scalar (c : N) : bool := (c <? 55296)%N || ((57344 <=? c)%N && (c <? 1114112)%N).
Definition is_ascii (s : ustring) : bool := forallb (fun c => (c <? 128)%N) s.

(* char::encode_utf16 *)
Definition utf16_units (c : N) : list N :=
  if (c <? 65536)%N then [c]
  else [55296 + (c - 65536) / 1024; 56320 + (c - 65536) mod 1024]%N.
(* u16::to_be_bytes *)
Definition be_bytes (u : N) : bytes := [byte_of_N (u / 256); byte_of_N (u mod 256)].

(* the [title_bytes] expression of outline_child *)
Definition title_bytes (s : ustring) : bytes :=
  if is_ascii s then map byte_of_N s
  else xfe :: xff :: flat_map (fun c => flat_map be_bytes (utf16_units c)) s.

(* ---------- Bookmark / Document fields ---------- *)
Record bookmark := {
  bm_children : list N;
  bm_title : ustring;
  bm_format : N;
  bm_color : bytes * bytes * bytes;     (* the three f32 as printed by Display (DESIGN 3) *)
  bm_page : oid;
  bm_id : N;
}.

(* Bookmark::new *)
Definition new_bookmark (title : ustring) (color : bytes * bytes * bytes) (format : N) (page : oid) : bookmark :=
  {| bm_children := []; bm_title := title; bm_format := format; bm_color := color; bm_page := page; bm_id := 0 |}.

Definition btable := list (N * bookmark).
Fixpoint tbl_get (t : btable) (k : N) : option bookmark :=
  match t with
  | [] => None
  | (k', v) :: t' => if (k' =? k)%N then Some v else tbl_get t' k
  end.
Fixpoint tbl_set (t : btable) (k : N) (v : bookmark) : btable :=
  match t with
  | [] => [(k, v)]
  | (k', v') :: t' => if (k' =? k)%N then (k', v) :: t' else (k', v') :: tbl_set t' k v
  end.

Record bdoc := {
  base : doc;
  max_bookmark_id : N;
  bookmarks : list N;
  bookmark_table : btable;
}.

Definition with_table (b : bdoc) (t : btable) : bdoc :=
  {| base := base b; max_bookmark_id := max_bookmark_id b; bookmarks := bookmarks b; bookmark_table := t |}.
Definition with_base (b : bdoc) (d : doc) : bdoc :=
  {| base := d; max_bookmark_id := max_bookmark_id b; bookmarks := bookmarks b; bookmark_table := bookmark_table b |}.

Definition set_id (bm : bookmark) (id : N) : bookmark :=
  {| bm_children := bm_children bm; bm_title := bm_title bm; bm_format := bm_format bm;
     bm_color := bm_color bm; bm_page := bm_page bm; bm_id := id |}.
Definition push_child (bm : bookmark) (c : N) : bookmark :=
  {| bm_children := bm_children bm ++ [c]; bm_title := bm_title bm; bm_format := bm_format bm;
     bm_color := bm_color bm; bm_page := bm_page bm; bm_id := bm_id bm |}.
Definition set_page (bm : bookmark) (p : oid) : bookmark :=
  {| bm_children := bm_children bm; bm_title := bm_title bm; bm_format := bm_format bm;
     bm_color := bm_color bm; bm_page := p; bm_id := bm_id bm |}.

(* Document::add_bookmark.  An unknown parent id leaves the bookmark in the table but reachable
   from nowhere (an orphan). *)
Definition add_bookmark (b : bdoc) (bm : bookmark) (parent : option N) : bdoc * N :=
  let id := (max_bookmark_id b + 1)%N in
  let bm := set_id bm id in
  let '(roots, tbl) :=
    match parent with
    | Some p => match tbl_get (bookmark_table b) p with
                | Some pb => (bookmarks b, tbl_set (bookmark_table b) p (push_child pb id))
                | None => (bookmarks b, bookmark_table b)
                end
    | None => (bookmarks b ++ [id], bookmark_table b)
    end in
  ({| base := base b; max_bookmark_id := id; bookmarks := roots; bookmark_table := tbl_set tbl id bm |}, id).

(* ---------- names ---------- *)
Definition K_Title := Eval cbv in bs "Title".
Definition K_A := Eval cbv in bs "A".
Definition K_F := Eval cbv in bs "F".
Definition K_C := Eval cbv in bs "C".
Definition K_D := Eval cbv in bs "D".
Definition K_S := Eval cbv in bs "S".
Definition K_Fit := Eval cbv in bs "Fit".
Definition K_GoTo := Eval cbv in bs "GoTo".
Definition K_Prev := Eval cbv in bs "Prev".
Definition K_Next := Eval cbv in bs "Next".
Definition K_First := Eval cbv in bs "First".
Definition K_Last := Eval cbv in bs "Last".
Definition K_Outlines := Eval cbv in bs "Outlines".

(* ---------- processed map ---------- *)
Definition pmap := list (N * dict).
Fixpoint pm_get (pm : pmap) (k : N) : option dict :=
  match pm with
  | [] => None
  | (k', v) :: pm' => if (k' =? k)%N then Some v else pm_get pm' k
  end.
Definition pm_put (pm : pmap) (k : N) (v : dict) : pmap := (k, v) :: pm.

(* ---------- outline_child ---------- *)
(* the [info] dictionary: dictionary!{ "D" => [page, /Fit], "S" => "GoTo" } *)
Definition info_dict (page : oid) : dict :=
  dict_set (dict_set [] K_D (OArr [ORef (fst page) (snd page); OName K_Fit])) K_S (OName K_GoTo).

(* [child] after the five unconditional [set]s *)
Definition child_base (pid : N) (bm : bookmark) (info_id : N) : dict :=
  let '(c0, c1, c2) := bm_color bm in
  dict_set (dict_set (dict_set (dict_set (dict_set []
    K_Parent (ORef pid 0))
    K_Title (OStr (title_bytes (bm_title bm)) false))
    K_A (ORef info_id 0))
    K_F (OInt (Z.of_N (bm_format bm))))
    K_C (OArr [OReal c0; OReal c1; OReal c2]).

Definition oc_result := (option N * option N * N * pmap)%type.   (* first, last, maxid, processed *)

Definition set_opt (d : dict) (k : bytes) (o : option N) : dict :=
  match o with Some n => dict_set d k (ORef n 0) | None => d end.

(* `if first.is_none() { first = Some(id) } else if let Some(x) = last { processed[x].Next = id; child.Prev = x }` *)
Definition link_prev (first last : option N) (id : N) (child : dict) (pm : pmap)
  : outcome (option N * dict * pmap) :=
  match first with
  | None => OOk (Some id, child, pm)
  | Some _ =>
    match last with
    | Some x =>
      match pm_get pm x with
      | None => OPanic                                 (* processed.get_mut(&x).unwrap() *)
      | Some dx => OOk (first, dict_set child K_Prev (ORef x 0),
                        pm_put pm x (dict_set dx K_Next (ORef id 0)))
      end
    | None => OOk (first, child, pm)
    end
  end.

(* `if !bookmark.children.is_empty() { recurse; set First, Last, Count }`; [rec] is the recursive
   call of outline_child; returns the child dictionary, the new maxid and the processed map *)
Definition with_children (rec : N -> list N -> N -> pmap -> outcome oc_result)
           (id info_id : N) (children : list N) (child1 : dict) (pm1 : pmap) : outcome (dict * N * pmap) :=
  match children with
  | [] => OOk (child1, info_id, pm1)
  | ch =>
    match rec id ch info_id pm1 with
    | OOk (cf, cl, mx, pm2) =>
      OOk (dict_set (set_opt (set_opt child1 K_First cf) K_Last cl)
                    K_Count (OInt (Z.of_nat (length ch))), mx, pm2)
    | OPanic => OPanic
    | OFuel => OFuel
    end
  end.

(* the [for i in parent.1] loop *)
Fixpoint outline_loop (rec : N -> list N -> N -> pmap -> outcome oc_result)
         (tbl : btable) (pid : N) (ids : list N)
         (first last : option N) (maxid : N) (pm : pmap) : outcome oc_result :=
  match ids with
  | [] => OOk (first, last, maxid, pm)
  | i :: rest =>
    let id := (maxid + 1)%N in
    let info_id := (maxid + 2)%N in
    match tbl_get tbl i with
    | None => OPanic                                   (* bookmark_table.get(i).unwrap() *)
    | Some bm =>
      match link_prev first last id (child_base pid bm info_id) pm with
      | OPanic => OPanic
      | OFuel => OFuel
      | OOk (first', child1, pm1) =>
        match with_children rec id info_id (bm_children bm) child1 pm1 with
        | OPanic => OPanic
        | OFuel => OFuel
        | OOk (child2, mx, pm2) =>
          outline_loop rec tbl pid rest first' (Some id) mx
                       (pm_put (pm_put pm2 id child2) info_id (info_dict (bm_page bm)))
        end
      end
    end
  end.

Fixpoint outline_child (fuel : nat) (tbl : btable) (pid : N) (ids : list N) (maxid : N) (pm : pmap)
  : outcome oc_result :=
  match fuel with
  | O => OFuel
  | S f => outline_loop (outline_child f tbl) tbl pid ids None None maxid pm
  end.

(* for (obj_id, obj) in processed.drain() { objects.insert(obj_id, obj.into()) }
   oldest entry first, so that a newer (shadowing) entry wins, as in the HashMap *)
Definition install (pm : pmap) (objs : objmap) : objmap :=
  fold_right (fun kv o => insert o (fst kv, 0%N) (ODict (snd kv))) objs pm.

Definition U32_LIMIT : N := 4294967296.

Definition set_objects (d : doc) (objs : objmap) (mx : N) : doc :=
  {| d_version := d_version d; d_binary_mark := d_binary_mark d; d_trailer := d_trailer d;
     d_objects := objs; d_max_id := mx |}.

Definition build_outline (fuel : nat) (b : bdoc) : outcome (option oid * bdoc) :=
  match bookmarks b with
  | [] => OOk (None, b)
  | roots =>
    let id := (d_max_id (base b) + 1)%N in
    match outline_child fuel (bookmark_table b) id roots id [] with
    | OPanic => OPanic
    | OFuel => OFuel
    | OOk (first, last, maxid, pm) =>
      if (U32_LIMIT <=? maxid)%N then OPanic           (* some [maxid += 1] overflowed u32 *)
      else
        let outline := dict_set (set_opt (set_opt [] K_First first) K_Last last)
                                K_Count (OInt (Z.of_nat (length roots))) in
        let objs := insert (install pm (d_objects (base b))) (id, 0%N) (ODict outline) in
        OOk (Some (id, 0%N), with_base b (set_objects (base b) objs maxid))
    end
  end.

(* The Rust recursion has no fuel; on a table produced by add_bookmark the depth is at most the
   number of bookmarks (Proofs: fuel sufficiency). *)
Definition default_fuel (b : bdoc) : nat := S (length (bookmark_table b)).

(* ---------- adjust_zero_pages ---------- *)
Definition nonempty {A} (l : list A) : bool := match l with [] => false | _ => true end.

Fixpoint fix_pages (fuel : nat) (tbl : btable) (ids : list N) (first : bool) : outcome (oid * btable) :=
  match fuel with
  | O => OFuel
  | S f =>
    (fix loop (ids : list N) (tbl : btable) : outcome (oid * btable) :=
       match ids with
       | [] => OOk ((0, 0)%N, tbl)
       | id :: rest =>
         match tbl_get tbl id with
         | None => OOk ((0, 0)%N, tbl)
         | Some bm =>
           let children := bm_children bm in
           let r1 : outcome (oid * btable) :=
             if (fst (bm_page bm) =? 0)%N && nonempty children then
               match fix_pages f tbl children false with
               | OOk (objectid, tbl1) =>
                 match tbl_get tbl1 id with
                 | None => OPanic                      (* bookmark_table.get_mut(id).unwrap() *)
                 | Some bm1 => OOk (objectid, tbl_set tbl1 id (set_page bm1 objectid))
                 end
               | OPanic => OPanic
               | OFuel => OFuel
               end
             else OOk (bm_page bm, tbl) in
           match r1 with
           | OPanic => OPanic
           | OFuel => OFuel
           | OOk (page, tbl1) =>
             if negb first && negb (fst page =? 0)%N then OOk (page, tbl1)
             else if first && nonempty children then
               match fix_pages f tbl1 children first with
               | OOk (_, tbl2) => loop rest tbl2
               | OPanic => OPanic
               | OFuel => OFuel
               end
             else loop rest tbl1
           end
         end
       end) ids tbl
  end.

Definition adjust_zero_pages (fuel : nat) (b : bdoc) : outcome bdoc :=
  match fix_pages fuel (bookmark_table b) (bookmarks b) true with
  | OOk (_, tbl) => OOk (with_table b tbl)
  | OPanic => OPanic
  | OFuel => OFuel
  end.

(* ---------- attaching the outline to the catalog (README merge example) ----------
     if let Ok(Object::Dictionary(dict)) = document.get_object_mut(catalog_id) {
         dict.set("Outlines", Object::Reference(n)); }
   get_object_mut follows references and returns the last object of the chain. *)
Definition get_object_mut_id (m : objmap) (id : oid) : option (oid * obj) :=
  match lookup m id with
  | None => None
  | Some o => match dereference m o with
              | Some (Some rid, o') => Some (rid, o')
              | Some (None, o') => Some (id, o')
              | None => None
              end
  end.

Definition attach (d : doc) (catalog_id : oid) (n : oid) : doc :=
  match get_object_mut_id (d_objects d) catalog_id with
  | Some (rid, ODict cat) =>
    set_objects d (insert (d_objects d) rid (ODict (dict_set cat K_Outlines (ORef (fst n) (snd n))))) (d_max_id d)
  | _ => d
  end.

(* the harness takes the catalog id from trailer.Root like the README (catalog_object.0) *)
Definition root_id (d : doc) : option oid :=
  match dict_get (d_trailer d) K_Root with Some (ORef i g) => Some (i, g) | _ => None end.

(* ---------- the whole producer pipeline of a case ---------- *)
Record bop := { op_title : ustring; op_format : N; op_color : bytes * bytes * bytes; op_page : oid;
                op_parent : option N }.

Definition add_op (b : bdoc) (o : bop) : bdoc :=
  fst (add_bookmark b (new_bookmark (op_title o) (op_color o) (op_format o) (op_page o)) (op_parent o)).
Definition add_all (b : bdoc) (ops : list bop) : bdoc := fold_left add_op ops b.

Definition fresh_bdoc (d : doc) : bdoc :=
  {| base := d; max_bookmark_id := 0; bookmarks := []; bookmark_table := [] |}.
