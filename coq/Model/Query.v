(* Query.v -- the read-only queries of src/document.rs, src/outlines.rs, src/destinations.rs, src/toc.rs
   and Dictionary::get_font_encoding (src/object.rs) on ARBITRARY object graphs, as the code is after the
   repairs de22aab (size_hint), bcaf31f (Dest array), a720232 (get_outlines budget/depth), 88fe34a + 89b7063
   (get_named_destinations unwraps / indexing), 8ad6800 (name tree budget/depth), e154731 (ColorSpace).
   Definitions only.

   Outcome monad: [Ok v | Err | Panic r | OutOfFuel].  Loops and recursions whose termination is not
   structural in the Rust code (the dereference loop, the Contents loop, collect_resources, the outline and
   name-tree walkers) take explicit fuel and return [OutOfFuel] when it runs out; the budgets, limits and
   visited sets of the Rust code are modelled AS TESTS (a counter compared with the limit), never as the
   recursion measure, so that dropping a test in the code is a divergence of the model, not a type error.
   Functions that are compositions of total accessors return [option] ([None] = some lopdf::Error).
   After the repairs the modelled functions contain no indexing, unwrap, unchecked arithmetic or cast of a
   graph-chosen value; the panic sites of the unrepaired code are in Model/QueryV0.v.

   Error values are one class ([Err]); messages are not modelled.  Recursion depth: the walkers carry the
   Rust [depth] argument; every other recursion is either a loop in Rust or bounded by object nesting. *)
From LV Require Import Base.Bytes Base.Sx Model.Obj Model.DocQ Model.PageTree Model.Utf
  Gen.Consts Gen.QueryC Gen.Tables.
From LV Require Model.Toc.

Inductive preason := PIndex | PUnwrap | POverflow | PCapacity | PUnimpl.

Inductive out (A : Type) := Ok (a : A) | Err | Panic (r : preason) | OutOfFuel.
Arguments Ok {A} a.
Arguments Err {A}.
Arguments Panic {A} r.
Arguments OutOfFuel {A}.

Definition of_opt {A} (o : option A) : out A := match o with Some a => Ok a | None => Err end.

Definition obind' {A B} (o : out A) (f : A -> out B) : out B :=
  match o with Ok a => f a | Err => Err | Panic r => Panic r | OutOfFuel => OutOfFuel end.

(* ---- keys ---- *)
Definition Q_Contents := Eval cbv in bs "Contents".
Definition Q_Resources := Eval cbv in bs "Resources".
Definition Q_Font := Eval cbv in bs "Font".
Definition Q_Annots := Eval cbv in bs "Annots".
Definition Q_XObject := Eval cbv in bs "XObject".
Definition Q_Subtype := Eval cbv in bs "Subtype".
Definition Q_Image := Eval cbv in bs "Image".
Definition Q_Width := Eval cbv in bs "Width".
Definition Q_Height := Eval cbv in bs "Height".
Definition Q_ColorSpace := Eval cbv in bs "ColorSpace".
Definition Q_BitsPerComponent := Eval cbv in bs "BitsPerComponent".
Definition Q_Outlines := Eval cbv in bs "Outlines".
Definition Q_First := Eval cbv in bs "First".
Definition Q_Next := Eval cbv in bs "Next".
Definition Q_Dest := Eval cbv in bs "Dest".
Definition Q_Dests := Eval cbv in bs "Dests".
Definition Q_Names := Eval cbv in bs "Names".
Definition Q_Title := Eval cbv in bs "Title".
Definition Q_A := Eval cbv in bs "A".
Definition Q_S := Eval cbv in bs "S".
Definition Q_D := Eval cbv in bs "D".
Definition Q_GoTo := Eval cbv in bs "GoTo".
Definition Q_GoToR := Eval cbv in bs "GoToR".
Definition Q_Encoding := Eval cbv in bs "Encoding".
Definition Q_ToUnicode := Eval cbv in bs "ToUnicode".
Definition Q_Identity_H := Eval cbv in bs "Identity-H".
Definition Q_Identity_V := Eval cbv in bs "Identity-V".

Definition USIZE_MAX : N := 18446744073709551615.

(* ====================================================================================== *)
(* 1. dereference as the loop it is (DocQ.dereference recurses on the limit instead)        *)
(* ====================================================================================== *)

(* while let Ok(ref_id) = object.as_reference() { id = Some(ref_id); object = objects.get(ref_id)?;
     nb_deref += 1; if nb_deref > DEREF_LIMIT { return Err(ReferenceLimit) } }  *)
Fixpoint deref_loop (fuel : nat) (m : objmap) (nb : N) (last : option oid) (o : obj)
  : out (option oid * obj) :=
  match fuel with
  | O => OutOfFuel
  | S f =>
    match o with
    | ORef i g =>
      match lookup m (i, g) with
      | None => Err
      | Some o' => if (DEREF_LIMIT <? nb + 1)%N then Err else deref_loop f m (nb + 1)%N (Some (i, g)) o'
      end
    | _ => Ok (last, o)
    end
  end.

Definition fuel_deref : nat := N.to_nat DEREF_LIMIT + 2.

Definition q_dereference (m : objmap) (o : obj) : out (option oid * obj) :=
  deref_loop fuel_deref m 0 None o.

Definition q_get_object (m : objmap) (id : oid) : out obj :=
  match lookup m id with
  | None => Err
  | Some o => obind' (q_dereference m o) (fun r => Ok (snd r))
  end.

Definition q_get_dictionary (m : objmap) (id : oid) : out dict :=
  obind' (q_get_object m id) (fun o => match o with ODict d => Ok d | _ => Err end).

Definition q_catalog (d : doc) : out dict :=
  match dict_get (d_trailer d) K_Root with
  | Some (ORef i g) => q_get_dictionary (d_objects d) (i, g)
  | _ => Err
  end.

(* Document::get_dict_in_dict *)
Definition get_dict_in_dict (m : objmap) (node : dict) (k : bytes) : option dict :=
  match dict_get node k with
  | Some (ORef i g) => get_dictionary m (i, g)
  | Some (ODict d) => Some d
  | _ => None
  end.

(* ====================================================================================== *)
(* 2. pages: size_hint, the allocation request of collect, get_pages                       *)
(* ====================================================================================== *)

Definition sat_add (a b : N) : N := N.min (a + b) USIZE_MAX.

(* the closure of size_hint applied to one kid *)
Definition hint_of_kid (m : objmap) (kid : obj) : N :=
  match kid with
  | ORef i g =>
    match get_dictionary m (i, g) with
    | Some d =>
      match get_type d with
      | Some t =>
        if bytes_eqb t K_Pages then
          match get_deref m d K_Count with
          | Some (OInt c) => Z.to_N (Z.max 0 c)          (* max(0, count) as usize *)
          | _ => 0%N                                      (* unwrap_or(0) *)
          end
        else 1%N
      | None => 1%N
      end
    | None => 1%N
    end
  | _ => 1%N
  end.

(* PageTreeIter::size_hint on the state (kids, stack, iter_limit): (lower, Some(upper)) with
   lower = the saturating fold of the Count estimates clamped to iter_limit, upper = iter_limit (ab38d4c) *)
Definition size_hint (m : objmap) (limit : nat) (kids : list obj) (stack : list (list obj)) : N * N :=
  (N.min (fold_left (fun acc k => sat_add acc (hint_of_kid m k)) (kids ++ concat stack) 0%N) (N.of_nat limit),
   N.of_nat limit).

(* one call of next(): the yielded id (if any) and the state afterwards; same structure as PageTree.iter *)
Fixpoint iter_next (limit : nat) (m : objmap) (kids : list obj) (stack : list (list obj))
  : option oid * (nat * list obj * list (list obj)) :=
  match limit with
  | O => (* `if self.iter_limit == 0 { return None }` sits after split_first: the kid is not consumed *)
    match pop_nonempty kids stack with
    | Some (k, rest, st) => (None, (O, k :: rest, st))
    | None => (None, (O, [], []))
    end
  | S l =>
    match pop_nonempty kids stack with
    | None => (None, (limit, [], []))
    | Some (kid, rest, st) =>
      match kid with
      | ORef i g =>
        match node_type m (i, g) with
        | NPage => (Some (i, g), (l, rest, st))
        | NPages => if (N.of_nat (length st) <? PAGE_TREE_DEPTH_LIMIT)%N
                    then iter_next l m (kids_of m (i, g)) (push_rest rest st)
                    else iter_next l m rest st
        | NOther => iter_next l m rest st
        end
      | _ => iter_next l m rest st
      end
    end
  end.

Definition root_kids (d : doc) : list obj :=
  match catalog d with
  | Some cat =>
    match dict_get cat K_Pages with
    | Some (ORef i g) => kids_of (d_objects d) (i, g)
    | _ => []
    end
  | None => []
  end.

(* (size_hint before, first next(), size_hint after): what the "hint" group of the harness observes *)
Definition hint_probe (d : doc) : (N * N) * option oid * (N * N) :=
  let m := d_objects d in
  let n := length m in
  let ks := root_kids d in
  let '(y, (l', ks', st')) := iter_next n m ks [] in
  (size_hint m n ks [], y, size_hint m l' ks' st').

(* Vec::from_iter (SpecFromIterNested): first next(); if Some: with_capacity(max(4, lower.saturating_add(1)))
   with lower = the size_hint taken after that first next().  Elements requested, 0 when nothing is yielded.
   Later growth requests (extend_desugared: reserve(lower + 1) when full) use the same clamped hint. *)
Definition get_pages_alloc (d : doc) : N :=
  let '(_, y, h1) := hint_probe d in
  match y with
  | None => 0%N
  | Some _ => N.max 4 (sat_add (fst h1) 1)
  end.

(* ====================================================================================== *)
(* 3. get_page_contents / get_page_content                                                 *)
(* ====================================================================================== *)

Fixpoint refs_of (l : list obj) : list oid :=
  match l with
  | [] => []
  | ORef i g :: l' => (i, g) :: refs_of l'
  | _ :: l' => refs_of l'
  end.

(* the `loop` of get_page_contents; nb = nb_deref *)
Fixpoint contents_loop (fuel : nat) (m : objmap) (nb : N) (c : obj) : out (list oid) :=
  match fuel with
  | O => OutOfFuel
  | S f =>
    match c with
    | ORef i g =>
      match lookup m (i, g) with
      | None => Ok [(i, g)]
      | Some (OStream _ _) => Ok [(i, g)]
      | Some o => if (nb + 1 <? DEREF_LIMIT)%N then contents_loop f m (nb + 1)%N o else Ok []
      end
    | OArr arr => Ok (refs_of arr)
    | _ => Ok []
    end
  end.

Definition fuel_contents : nat := N.to_nat DEREF_LIMIT + 1.

Definition get_page_contents (fuel : nat) (m : objmap) (pid : oid) : out (list oid) :=
  match get_dictionary m pid with
  | None => Ok []
  | Some page =>
    match dict_get page Q_Contents with
    | None => Ok []
    | Some c => contents_loop fuel m 0 c
    end
  end.

Section Content.
  (* Stream::decompressed_content on (dict, content): Some data | None (an Err).  Filter decoding is the
     ground of C04/C09; here it is any function that returns. *)
  Variable decomp : dict -> bytes -> option bytes.

  Fixpoint concat_streams (m : objmap) (ids : list oid) : bytes :=
    match ids with
    | [] => []
    | id :: ids' =>
      match get_object m id with
      | Some (OStream sd c) =>
        (match decomp sd c with Some data => data | None => c end) ++ concat_streams m ids'
      | _ => concat_streams m ids'
      end
    end.

  Definition get_page_content (fuel : nat) (m : objmap) (pid : oid) : out bytes :=
    obind' (get_page_contents fuel m pid) (fun ids => Ok (concat_streams m ids)).
End Content.

(* ====================================================================================== *)
(* 4. get_page_resources (visited set), get_page_fonts, annotations, images               *)
(* ====================================================================================== *)

Definition oid_mem (id : oid) (l : list oid) : bool := existsb (oid_eqb id) l.

Fixpoint collect_resources (fuel : nat) (m : objmap) (node : dict) (ids seen : list oid) : out (list oid) :=
  match fuel with
  | O => OutOfFuel
  | S f =>
    let ids' := match dict_get node Q_Resources with Some (ORef i g) => ids ++ [(i, g)] | _ => ids end in
    match dict_get node K_Parent with
    | Some (ORef i g) =>
      if oid_mem (i, g) seen then Err                               (* Error::ReferenceCycle *)
      else match get_dictionary m (i, g) with
           | None => Err
           | Some pd => collect_resources f m pd ids' ((i, g) :: seen)
           end
    | _ => Ok ids'
    end
  end.

Definition fuel_resources (m : objmap) : nat := length m + 2.

Definition get_page_resources (fuel : nat) (m : objmap) (pid : oid) : out (option dict * list oid) :=
  match get_dictionary m pid with
  | None => Ok (None, [])
  | Some page =>
    let rd := match dict_get page Q_Resources with Some (ODict d) => Some d | _ => None end in
    obind' (collect_resources fuel m page [] []) (fun ids => Ok (rd, ids))
  end.

(* BTreeMap<Vec<u8>, _>: sorted by key, byte-lexicographic *)
Fixpoint bytes_ltb (a b : bytes) : bool :=
  match a, b with
  | _, [] => false
  | [], _ :: _ => true
  | x :: a', y :: b' => (N_of_byte x <? N_of_byte y)%N || (byte_eqb x y && bytes_ltb a' b')
  end.

(* insert only when the key is absent (`if !fonts.contains_key(name)`), keeping the list sorted *)
Fixpoint bt_insert_new {A} (l : list (bytes * A)) (k : bytes) (v : A) : list (bytes * A) :=
  match l with
  | [] => [(k, v)]
  | (k', v') :: l' =>
    if bytes_eqb k' k then l
    else if bytes_ltb k k' then (k, v) :: l
    else (k', v') :: bt_insert_new l' k v
  end.

Definition font_value (m : objmap) (v : obj) : option dict :=
  match v with
  | ORef i g => get_dictionary m (i, g)
  | ODict d => Some d
  | _ => None
  end.

Definition collect_fonts (m : objmap) (resources : dict) (fonts : list (bytes * dict)) : list (bytes * dict) :=
  let fd := match dict_get resources Q_Font with
            | Some (ORef i g) => match get_object m (i, g) with Some (ODict d) => Some d | _ => None end
            | Some (ODict d) => Some d
            | _ => None
            end in
  match fd with
  | None => fonts
  | Some fd =>
    fold_left (fun acc kv => match font_value m (snd kv) with
                             | Some f => bt_insert_new acc (fst kv) f
                             | None => acc
                             end) fd fonts
  end.

Definition get_page_fonts (fuel : nat) (m : objmap) (pid : oid) : out (list (bytes * dict)) :=
  obind' (get_page_resources fuel m pid) (fun r =>
    let fonts0 := match fst r with Some rd => collect_fonts m rd [] | None => [] end in
    Ok (fold_left (fun acc rid => match get_dictionary m rid with
                                  | Some rs => collect_fonts m rs acc
                                  | None => acc
                                  end) (snd r) fonts0)).

Fixpoint annots_of (m : objmap) (a : list obj) : list dict :=
  match a with
  | [] => []
  | ORef i g :: a' => match get_dictionary m (i, g) with
                      | Some d => d :: annots_of m a'
                      | None => annots_of m a'
                      end
  | _ :: a' => annots_of m a'
  end.

Definition get_page_annotations (m : objmap) (pid : oid) : option (list dict) :=
  match get_dictionary m pid with
  | None => Some []
  | Some page =>
    match dict_get page Q_Annots with
    | Some (ORef i g) => match get_object m (i, g) with Some (OArr a) => Some (annots_of m a) | _ => None end
    | Some (OArr a) => Some (annots_of m a)
    | _ => Some []
    end
  end.

Record image := { im_id : oid; im_width : Z; im_height : Z; im_cs : option ustring; im_bpc : option Z;
                  im_filters : list ustring }.

Fixpoint names_lossy (l : list obj) : option (list ustring) :=
  match l with
  | [] => Some []
  | OName n :: l' => match names_lossy l' with Some r => Some (Toc.utf8_lossy n :: r) | None => None end
  | _ :: _ => None
  end.

(* None = the `continue` of a non-image is [Some None]; an Err is [None] *)
Definition image_of (m : objmap) (xvalue : obj) : option (option image) :=
  match xvalue with
  | ORef i g =>
    match get_object m (i, g) with
    | Some (OStream sd _) =>
      match dict_get sd Q_Subtype with
      | Some (OName st) =>
        if negb (bytes_eqb st Q_Image) then Some None
        else
          match dict_get sd Q_Width, dict_get sd Q_Height with
          | Some (OInt w), Some (OInt h) =>
            let cs : option (option ustring) :=
              match dict_get sd Q_ColorSpace with
              | Some (OArr []) => None                                  (* Error::InvalidStream (e154731) *)
              | Some (OArr (OName n :: _)) => Some (Some (Toc.utf8_lossy n))
              | Some (OArr (_ :: _)) => None                            (* as_name()? *)
              | Some (OName n) => Some (Some (Toc.utf8_lossy n))
              | _ => Some None
              end in
            let bpc : option (option Z) :=
              match dict_get sd Q_BitsPerComponent with
              | Some (OInt b) => Some (Some b)
              | Some _ => None
              | None => Some None
              end in
            let fl : option (list ustring) :=
              match dict_get sd K_Filter with
              | Some (OArr a) => names_lossy a
              | Some (OName n) => Some [Toc.utf8_lossy n]
              | _ => Some []
              end in
            match cs, bpc, fl with
            | Some cs, Some bpc, Some fl =>
              Some (Some {| im_id := (i, g); im_width := w; im_height := h; im_cs := cs; im_bpc := bpc;
                            im_filters := fl |})
            | _, _, _ => None
            end
          | _, _ => None
          end
      | _ => None
      end
    | _ => None
    end
  | _ => None
  end.

Fixpoint images_of (m : objmap) (xs : dict) : option (list image) :=
  match xs with
  | [] => Some []
  | (_, v) :: xs' =>
    match image_of m v with
    | None => None
    | Some oi => match images_of m xs' with
                 | None => None
                 | Some r => Some (match oi with Some im => im :: r | None => r end)
                 end
    end
  end.

Definition get_page_images (m : objmap) (pid : oid) : option (list image) :=
  match get_dictionary m pid with
  | None => Some []
  | Some page =>
    match get_dict_in_dict m page Q_Resources with
    | None => None
    | Some rs => match get_dict_in_dict m rs Q_XObject with
                 | None => None
                 | Some xs => images_of m xs
                 end
    end
  end.

(* ====================================================================================== *)
(* 5. named destinations (budget + depth), outlines (budget + depth), table of contents    *)
(* ====================================================================================== *)

(* Destination = Dictionary with Title, Page, Type (in that order); only title()/page() are public *)
Definition dest := (obj * obj * obj)%type.
Definition nmap := list (bytes * dest).

(* IndexMap::insert *)
Fixpoint nm_insert (nm : nmap) (k : bytes) (v : dest) : nmap :=
  match nm with
  | [] => [(k, v)]
  | (k', v') :: nm' => if bytes_eqb k' k then (k', v) :: nm' else (k', v') :: nm_insert nm' k v
  end.
Fixpoint nm_get (nm : nmap) (k : bytes) : option dest :=
  match nm with
  | [] => None
  | (k', v) :: nm' => if bytes_eqb k' k then Some v else nm_get nm' k
  end.

(* Destination::from_array(key, array) then key.as_str()? and insert *)
Definition nd_entry (nm : nmap) (key : obj) (arr : list obj) : option nmap :=
  match arr with
  | a0 :: a1 :: _ =>
    match key with
    | OStr s _ => Some (nm_insert nm s (key, a0, a1))
    | _ => None
    end
  | _ => None
  end.

Definition nd_from_dict (nm : nmap) (key : obj) (dd : dict) : option nmap :=
  match dict_get dd Q_D with
  | Some (OArr v) => nd_entry nm key v
  | _ => None
  end.

(* the `loop` over the Names array: key, value, key, value ...; a trailing key is ignored *)
Fixpoint nd_names (m : objmap) (l : list obj) (nm : nmap) : nmap * bool (* true = Ok, false = Err *) :=
  match l with
  | key :: val :: l' =>
    let step : option nmap :=
      match val with
      | ORef i g =>
        match get_dictionary m (i, g) with
        | Some dd => nd_from_dict nm key dd
        | None => match get_object m (i, g) with
                  | Some (OArr v) => nd_entry nm key v
                  | _ => Some nm
                  end
        end
      | ODict dd => nd_from_dict nm key dd
      | _ => Some nm
      end in
    match step with
    | Some nm' => nd_names m l' nm'
    | None => (nm, false)
    end
  | _ => (nm, true)
  end.

(* state threaded through the walk: the destination map is filled in place, so what was inserted before
   an error stays observable: every result carries the map *)
Definition ndres := (nmap * out nat)%type.     (* map, Ok remaining-budget | Err | .. *)

(* for kid in kids { if let Ok(kid) = kid.as_reference().and_then(get_dictionary) { budget/depth test; recurse? } } *)
Fixpoint nd_kids (rec : dict -> nmap -> nat -> ndres) (m : objmap) (depth : N) (l : list obj) (nm : nmap) (budget : nat)
  : ndres :=
  match l with
  | [] => (nm, Ok budget)
  | kid :: l' =>
    match kid with
    | ORef i g =>
      match get_dictionary m (i, g) with
      | Some kd =>
        match budget with
        | O => (nm, Err)
        | S b =>
          if (NAME_TREE_DEPTH_LIMIT <=? depth)%N then (nm, Err)
          else match rec kd nm b with
               | (nm', Ok b') => nd_kids rec m depth l' nm' b'
               | r => r
               end
        end
      | None => nd_kids rec m depth l' nm budget
      end
    | _ => nd_kids rec m depth l' nm budget
    end
  end.

(* the Kids part of one call of get_named_destinations_limited *)
Definition nd_after_kids (rec : dict -> nmap -> nat -> ndres) (m : objmap) (tree : dict) (nm : nmap) (budget : nat)
    (depth : N) : ndres :=
  match dict_get tree K_Kids with
  | Some (OArr l) => nd_kids rec m depth l nm budget
  | Some _ => (nm, Err)
  | None => (nm, Ok budget)
  end.

(* one call: Kids, then Names *)
Definition nd_node (rec : dict -> nmap -> nat -> ndres) (m : objmap) (tree : dict) (nm : nmap) (budget : nat)
    (depth : N) : ndres :=
  match nd_after_kids rec m tree nm budget depth with
  | (nm1, Ok b1) =>
    match dict_get tree Q_Names with
    | Some (OArr l) => let '(nm2, okb) := nd_names m l nm1 in (nm2, if okb then Ok b1 else Err)
    | Some _ => (nm1, Err)
    | None => (nm1, Ok b1)
    end
  | r => r
  end.

Fixpoint nd_walk (fuel : nat) (m : objmap) (tree : dict) (nm : nmap) (budget : nat) (depth : N) : ndres :=
  match fuel with
  | O => (nm, OutOfFuel)
  | S f => nd_node (fun kd nm' b => nd_walk f m kd nm' b (depth + 1)%N) m tree nm budget depth
  end.

Definition fuel_nd (m : objmap) : nat := length m + 1.

(* Document::get_named_destinations(tree, &mut map) on an initially given map *)
Definition get_named_destinations (fuel : nat) (m : objmap) (tree : dict) (nm : nmap) : nmap * out unit :=
  let '(nm', r) := nd_walk fuel m tree nm (length m) 0 in
  (nm', obind' r (fun _ => Ok tt)).

Inductive outline :=
| ODest (d : dest)
| OSub (l : list outline).

(* build_outline_result on a destination that is not a reference *)
Definition bor_direct (dst title : obj) (nm : nmap) : nmap * out (option outline) :=
  match dst with
  | OArr (a0 :: a1 :: _) => (nm, Ok (Some (ODest (title, a0, a1))))
  | OArr _ => (nm, Err)                                       (* Error::InvalidOutline (bcaf31f) *)
  | OStr key _ =>
    match nm_get nm key with
    | Some (_, p, ty) => (nm_insert nm key (title, p, ty), Ok (Some (ODest (title, p, ty))))
    | None => (nm, Ok None)
    end
  | ORef _ _ => (nm, OutOfFuel)      (* would recurse again; unreachable: get_object never returns a reference *)
  | _ => (nm, Err)
  end.

Definition build_outline_result (m : objmap) (dst title : obj) (nm : nmap) : nmap * out (option outline) :=
  match dst with
  | ORef i g => match get_object m (i, g) with
                | Some o => bor_direct o title nm
                | None => (nm, Err)
                end
  | _ => bor_direct dst title nm
  end.

Definition get_outline (m : objmap) (node : dict) (nm : nmap) : nmap * out (option outline) :=
  match get_dict_in_dict m node Q_A with
  | None =>
    match dict_get node Q_Dest, dict_get node Q_Title with
    | Some dst, Some title => build_outline_result m dst title nm
    | _, _ => (nm, Err)
    end
  | Some action =>
    match dict_get action Q_S with
    | Some (OName command) =>
      if bytes_eqb command Q_GoTo || bytes_eqb command Q_GoToR then
        match dict_get node Q_Title with
        | Some (ORef i g) =>
          match dict_get action Q_D, get_object m (i, g) with
          | Some d, Some t => build_outline_result m d t nm
          | _, _ => (nm, Err)
          end
        | Some (OStr s h) =>
          match dict_get action Q_D with
          | Some d => build_outline_result m d (OStr s h) nm
          | None => (nm, Err)
          end
        | _ => (nm, Err)
        end
      else (nm, Err)
    | _ => (nm, Err)
    end
  end.

(* result of the outline walk: the destination map (mutated in place), then outlines and remaining budget *)
Definition olres := (nmap * out (list outline * nat))%type.

(* the recursive call get_outlines_limited(Some(first), Some([]), .., depth + 1) up to its loop:
   [rec] is the walk itself; budget = *ref_budget *)
Definition ol_first (rec : dict -> nmap -> nat -> N -> olres) (m : objmap) (nm1 : nmap) (budget : nat) (depth : N)
    (first : obj) : olres :=
  match first with
  | ODict fd => rec fd nm1 budget (depth + 1)%N
  | ORef i g =>
    match budget with
    | O => (nm1, Err)
    | S b => match get_object m (i, g) with
             | Some (ODict fd) => rec fd nm1 b (depth + 1)%N
             | _ => (nm1, Err)
             end
    end
  | _ => (nm1, Err)
  end.

(* `if let Ok(first) = node.get(b"First") { depth test; recursive call; push SubOutlines if non-empty }` *)
Definition ol_sub (rec : dict -> nmap -> nat -> N -> olres) (m : objmap) (node : dict) (nm1 : nmap) (budget : nat)
    (depth : N) : olres :=
  match dict_get node Q_First with
  | None => (nm1, Ok ([], budget))
  | Some first =>
    if (OUTLINE_DEPTH_LIMIT <=? depth)%N then (nm1, Err)
    else
      match ol_first rec m nm1 budget depth first with
      | (nm2, Ok ([], b2)) => (nm2, Ok ([], b2))
      | (nm2, Ok (subs, b2)) => (nm2, Ok ([OSub subs], b2))
      | e => e
      end
  end.

(* one turn of the `loop` of get_outlines_limited after get_outline: the First recursion, the Next step
   (on Next [rec] is the next turn of the loop); [item] is what `if let Ok(Some(outline))` pushed *)
Definition ol_tail (rec : dict -> nmap -> nat -> N -> olres) (m : objmap) (node : dict) (nm1 : nmap)
    (item : list outline) (budget : nat) (depth : N) : olres :=
  match ol_sub rec m node nm1 budget depth with
  | (nm2, Ok (s, b2)) =>
    match dict_get node Q_Next with
    | Some (ORef i g) =>
      match b2 with
      | O => (nm2, Err)
      | S b3 =>
        match get_dictionary m (i, g) with
        | Some n =>
          match rec n nm2 b3 depth with
          | (nm3, Ok (r', b4)) => (nm3, Ok (item ++ s ++ r', b4))
          | e => e
          end
        | None => (nm2, Ok (item ++ s, b3))
        end
      end
    | Some (ODict n) =>
      match rec n nm2 b2 depth with
      | (nm3, Ok (r', b4)) => (nm3, Ok (item ++ s ++ r', b4))
      | e => e
      end
    | _ => (nm2, Ok (item ++ s, b2))
    end
  | e => e
  end.

(* the `loop` of get_outlines_limited started at dictionary [node] *)
Fixpoint ol_walk (fuel : nat) (m : objmap) (node : dict) (nm : nmap) (budget : nat) (depth : N) : olres :=
  match fuel with
  | O => (nm, OutOfFuel)
  | S f =>
    let '(nm1, r) := get_outline m node nm in
    match r with
    | OutOfFuel => (nm1, OutOfFuel)
    | Panic p => (nm1, Panic p)
    | Ok (Some o) => ol_tail (ol_walk f m) m node nm1 [o] budget depth      (* `if let Ok(Some(outline))` *)
    | _ => ol_tail (ol_walk f m) m node nm1 [] budget depth
    end
  end.

(* nesting height of a dictionary: how many direct dictionaries can be entered one inside the other *)
Fixpoint oheight (o : obj) : nat :=
  match o with
  | OArr l => S ((fix go (l : list obj) : nat := match l with [] => O | x :: l' => Nat.max (oheight x) (go l') end) l)
  | ODict d => S ((fix go (d : list (bytes * obj)) : nat :=
                     match d with [] => O | kv :: d' => Nat.max (oheight (snd kv)) (go d') end) d)
  | OStream d _ => S ((fix go (d : list (bytes * obj)) : nat :=
                         match d with [] => O | kv :: d' => Nat.max (oheight (snd kv)) (go d') end) d)
  | _ => O
  end.
Definition dheight (d : dict) : nat := oheight (ODict d).
Fixpoint hmax (m : objmap) : nat :=
  match m with [] => O | io :: m' => Nat.max (oheight (snd io)) (hmax m') end.

Definition named_tree (m : objmap) (cat : dict) : option dict :=
  match get_dict_in_dict m cat Q_Dests with
  | Some t => Some t
  | None => match get_dict_in_dict m cat Q_Names with
            | Some names => get_dict_in_dict m names Q_Dests
            | None => None
            end
  end.

Definition fuel_outlines (m : objmap) : nat := (length m + 1) * (hmax m + 1) + 1.

(* Document::get_outlines(None, None, &mut IndexMap::new()); fuel is shared by the two walkers *)
Definition get_outlines (fuel : nat) (d : doc) : nmap * out (list outline) :=
  let m := d_objects d in
  match catalog d with
  | None => ([], Err)
  | Some cat =>
    match get_dict_in_dict m cat Q_Outlines with
    | None => ([], Err)
    | Some od =>
      let dict_node := match get_dict_in_dict m od Q_First with Some f => f | None => od end in
      let '(nm, r) := match named_tree m cat with
                      | Some tree => get_named_destinations fuel m tree []
                      | None => ([], Ok tt)
                      end in
      match r with
      | Ok _ =>
        let '(nm', r') := ol_walk fuel m dict_node nm (length m) 0 in
        (nm', obind' r' (fun x => Ok (fst x)))
      | Err => (nm, Err)
      | Panic p => (nm, Panic p)
      | OutOfFuel => (nm, OutOfFuel)
      end
    end
  end.

Definition fuel_toc (m : objmap) : nat := Nat.max (fuel_outlines m) (fuel_nd m).

(* setup_outline_page_ids: Destination => title()?.as_str()?, page()?.as_reference()? *)
Fixpoint setup_one (o : outline) (acc : Toc.page_ids) (level : N) : option Toc.page_ids :=
  match o with
  | ODest (OStr s _, ORef i g, _) => Some (Toc.ix_insert acc s ((i, g), level))
  | ODest _ => None
  | OSub l =>
    (fix go (l : list outline) (acc : Toc.page_ids) : option Toc.page_ids :=
       match l with
       | [] => Some acc
       | o :: l' => match setup_one o acc (level + 1) with Some a => go l' a | None => None end
       end) l acc
  end.
Fixpoint setup_all (l : list outline) (acc : Toc.page_ids) (level : N) : option Toc.page_ids :=
  match l with
  | [] => Some acc
  | o :: l' => match setup_one o acc level with Some a => setup_all l' a level | None => None end
  end.

Definition get_toc (fuel : nat) (d : doc) : out (list Toc.toc_entry * N) :=
  obind' (snd (get_outlines fuel d)) (fun outs =>
    match setup_all outs [] 1 with
    | None => Err
    | Some ids => Ok (Toc.toc_rows (get_pages d) ids)
    end).

(* ====================================================================================== *)
(* 6. Dictionary::get_font_encoding up to the hand-over to the ToUnicode CMap parser       *)
(* ====================================================================================== *)

Inductive enc_class :=
| EOneByte (t : list (option N))
| ESimple (name : bytes)
| EToUnicode (sd : dict) (content : bytes).     (* get_encoding_from_to_unicode_cmap(stream): C09/C15 ground *)

Fixpoint assoc_table (k : bytes) (l : list (bytes * list (option N))) : option (list (option N)) :=
  match l with
  | [] => None
  | (k', v) :: l' => if bytes_eqb k' k then Some v else assoc_table k l'
  end.

Definition get_font_encoding (m : objmap) (font : dict) : option enc_class :=
  if negb (has_type font Q_Font) then None
  else
    match dict_get font Q_Encoding with
    | Some (OName n) =>
      match assoc_table n FONT_ENCODINGS with
      | Some t => Some (EOneByte t)
      | None =>
        if bytes_eqb n Q_Identity_H || bytes_eqb n Q_Identity_V then
          match get_deref m font Q_ToUnicode with
          | Some (OStream sd c) => Some (EToUnicode sd c)
          | _ => None
          end
        else Some (ESimple n)
      end
    | _ =>
      match get_deref m font Q_ToUnicode with
      | Some (OStream sd c) => Some (EToUnicode sd c)
      | _ => Some (EOneByte FALLBACK_ENCODING)
      end
    end.

(* ====================================================================================== *)
(* 7. extract_text / extract_text_chunks: the graph part (page lookup, fonts, encodings, content);
      Content::decode + the Tf/Tj/TJ loop + decode_text are the ground of C14/C15/C16 and appear as a
      function that returns.                                                               *)
(* ====================================================================================== *)
Section Text.
  Variable decomp : dict -> bytes -> option bytes.
  (* the text loop over the decoded content with the page's encodings: Some chunks | None (Err) *)
  Variable text_of : list (bytes * enc_class) -> bytes -> option (list (option ustring)).

  Definition page_encodings (m : objmap) (fonts : list (bytes * dict)) : list (bytes * enc_class) * nat :=
    fold_right (fun nf acc => match get_font_encoding m (snd nf) with
                              | Some e => ((fst nf, e) :: fst acc, snd acc)
                              | None => (fst acc, S (snd acc))          (* an Err chunk is collected *)
                              end) ([], O) fonts.

  (* extract_text_chunks_from_page: Err | Ok (number of encoding errors, chunks); pages.get(&page_number) *)
  Definition text_chunks_from_page (fuel : nat) (d : doc) (page_number : N) : out (nat * list (option ustring)) :=
    let m := d_objects d in
    match find (fun p => (fst p =? page_number)%N) (get_pages d) with
    | None => Err                                                       (* PageNumberNotFound *)
    | Some p =>
      let pid := snd p in
      obind' (get_page_fonts fuel m pid) (fun fonts =>
        let '(encs, nerr) := page_encodings m fonts in
        obind' (get_page_content decomp fuel m pid) (fun content =>
          match text_of encs content with
          | Some chunks => Ok (nerr, chunks)
          | None => Err
          end))
    end.

  Definition fuel_text (m : objmap) : nat := Nat.max fuel_contents (fuel_resources m).

  (* extract_text_chunks: one entry per requested page: its chunks, or one Err *)
  Definition extract_text_chunks (fuel : nat) (d : doc) (page_numbers : list N) : list (out (nat * list (option ustring))) :=
    map (text_chunks_from_page fuel d) page_numbers.
End Text.
