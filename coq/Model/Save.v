(* Save.v -- the save pipeline of src/writer.rs (Document::save_internal, write_xref,
   write_trailer, write_cross_reference_stream, create_xref_steam, write_binary_mark) and the
   cross-reference data of src/xref.rs (Xref, XrefEntry, XrefSection and their writers).
   Definitions only.  Written from the Rust source, branch for branch; the object-level writer
   is Model/Writer.v (write_indirect_object).

   STABLE INTERFACE (used by C03 / C19 / C07):
     xref_type            := XTable | XStream            (Document.reference_table.cross_reference_type)
     save x d : save_out  -- so_status (SaveOk | SaveInvalidMark | SavePanic), so_bytes (every byte
                             handed to the sink, also on failure), so_doc (the document afterwards:
                             save_internal mutates max_id, trailer and, for XStream, max_id again)
                             = save_core x (raise_max_id d): since /repo 'fix: save raises max_id to the
                             largest object number' the first statement of save_internal is
                             max_id := max(max_id, last key of objects); save_core is the rest (the whole
                             function before that repair)
     save_table  d : list byte := so_bytes (save XTable d)
     save_stream d : list byte := so_bytes (save XStream d)
     save_body d          -- header, binary mark and the indirect objects, with the byte counter
                             and the xref map:  (bytes, xref_start, xmap)
   The sink is a plain byte vector here; chunking and sink failures are Model/Sink.v (C19). *)
From LV Require Import Base.Bytes Base.Sx Model.Obj Model.Writer Gen.Lex Gen.SaveFmt.

Local Open Scope N_scope.

(* ---------- src/xref.rs ---------- *)
Inductive xref_type := XTable | XStream.

Inductive xentry :=
| XFree
| XUnusable
| XNormal (offset gen : N)            (* u32, u16 *)
| XCompressed (container index : N).  (* u32, u16 *)

(* Xref.entries : BTreeMap<u32, XrefEntry>; association list sorted by id *)
Definition xmap := list (N * xentry).

Fixpoint xget (x : xmap) (id : N) : option xentry :=
  match x with
  | [] => None
  | (i, e) :: x' => if i =? id then Some e else xget x' id
  end.

(* BTreeMap::insert: replace, or insert in key order *)
Fixpoint xinsert (x : xmap) (id : N) (e : xentry) : xmap :=
  match x with
  | [] => [(id, e)]
  | (i, e') :: x' =>
    if i =? id then (i, e) :: x'
    else if id <? i then (id, e) :: (i, e') :: x'
    else (i, e') :: xinsert x' id e
  end.

Definition u32_mod : N := 4294967296.
Definition u32_top : N := 4294967295.

(* Display of an unsigned integer padded with zeros to [w] digits: "{:>0w}" (never truncates) *)
Definition pad0 (w : nat) (s : bytes) : bytes := repeat x30 (w - length s) ++ s.

(* XrefEntry::write_xref_entry: writeln!(file, "{:>010} {:>05} n ", offset, generation) etc.
   The widths, the separators and the kind letters are read from the source (Gen/SaveFmt.v). *)
Definition xentry_line (a b : N) (kind : byte) : bytes :=
  pad0 XREF_ENTRY_W1 (N_dec a) ++ XREF_ENTRY_SEP1 ++ pad0 XREF_ENTRY_W2 (N_dec b) ++ XREF_ENTRY_SEP2 ++
  kind :: XREF_ENTRY_TAIL.
Definition write_xref_entry (e : xentry) : bytes :=
  match e with
  | XNormal off g => xentry_line off g XREF_KIND_NORMAL
  | XCompressed _ _ => xentry_line 0 XREF_FREE_GEN_UNUSABLE XREF_KIND_FREE
  | XFree => xentry_line 0 0 XREF_KIND_FREE
  | XUnusable => xentry_line 0 XREF_FREE_GEN_UNUSABLE XREF_KIND_FREE
  end.

(* XrefSection { starting_id, entries } *)
Definition xsection := (N * list xentry)%type.

(* XrefSection::write_xref_section: nothing for an empty section *)
Definition write_xref_section (s : xsection) : bytes :=
  match snd s with
  | [] => []
  | es => N_dec (fst s) ++ x20 :: N_dec (N.of_nat (length es)) ++ x0a :: flat_map write_xref_entry es
  end.

(* The sectioning loop shared by Writer::write_xref and Writer::create_xref_steam:
     for obj_id in first..  { if section.is_empty() { section = new(obj_id) }
                              if let Some(e) = xref.get(obj_id) { section.add(conv e) }
                              else if !section.is_empty() { finish section; section = new(obj_id) } }
     if !section.is_empty() { finish section }
   [n] = number of ids still to visit, [id] the current one, ([start],[cur]) the open section.
   write_xref writes each finished section at once and create_xref_steam collects them; the
   produced bytes depend only on the list of finished sections, which is what is returned. *)
Fixpoint sections_loop (n : nat) (id : N) (x : xmap) (conv : xentry -> xentry)
         (start : N) (cur : list xentry) : list xsection :=
  match n with
  | O => match cur with [] => [] | _ => [(start, cur)] end
  | S n' =>
    let start := match cur with [] => id | _ => start end in
    match xget x id with
    | Some e => sections_loop n' (id + 1) x conv start (cur ++ [conv e])
    | None =>
      match cur with
      | [] => sections_loop n' (id + 1) x conv id []
      | _ => (start, cur) :: sections_loop n' (id + 1) x conv id []
      end
    end
  end.

(* write_xref: entry 0 first; a Compressed entry is written as an unusable free one *)
Definition table_conv (e : xentry) : xentry :=
  match e with XCompressed _ _ => XUnusable | _ => e end.
Definition table_sections (x : xmap) (size : N) : list xsection :=
  sections_loop (N.to_nat (size - 1)) 1 x table_conv 0 [XUnusable].     (* for obj_id in 1..xref.size *)
Definition write_xref (x : xmap) (size : N) : bytes :=
  bs "xref" ++ x0a :: flat_map write_xref_section (table_sections x size).

(* ---------- cross-reference stream ---------- *)
(* big-endian bytes of the low [w] bytes of n *)
Fixpoint be_bytes (w : nat) (n : N) : bytes :=
  match w with
  | O => []
  | S w' => be_bytes w' (n / 256) ++ [byte_of_N n]
  end.

(* one entry of the stream; Free carries the object number in field 2 *)
Definition xstream_entry (obj_id : N) (e : xentry) : bytes :=
  match e with
  | XFree => x00 :: be_bytes XS_W2 obj_id ++ be_bytes XS_W3 0
  | XUnusable => x00 :: be_bytes XS_W2 obj_id ++ be_bytes XS_W3 65535
  | XNormal off g => x01 :: be_bytes XS_W2 off ++ be_bytes XS_W3 g
  | XCompressed c i => x02 :: be_bytes XS_W2 c ++ be_bytes XS_W3 i
  end.

Fixpoint xstream_entries (obj_id : N) (es : list xentry) : bytes :=
  match es with
  | [] => []
  | e :: es' => xstream_entry obj_id e ++ xstream_entries (obj_id + 1) es'
  end.

(* create_xref_steam with XRefStreamFilter::None: for obj_id in 1..xref.size + 1, no entry 0 *)
Definition stream_sections (x : xmap) (size : N) : list xsection :=
  sections_loop (N.to_nat size) 1 x (fun e => e) 0 [].
Definition xstream_content (secs : list xsection) : bytes :=
  flat_map (fun s => xstream_entries (fst s) (snd s)) secs.
Definition xstream_index (secs : list xsection) : obj :=
  OArr (flat_map (fun s => [OInt (Z.of_N (fst s)); OInt (Z.of_nat (length (snd s)))]) secs).

Definition K_Size := Eval cbv in bs "Size".
Definition K_W := Eval cbv in bs "W".
Definition K_Index := Eval cbv in bs "Index".
Definition K_XRef := Eval cbv in bs "XRef".
Definition K_Prev := Eval cbv in bs "Prev".
Definition K_Encrypt := Eval cbv in bs "Encrypt".

(* ---------- Document::save_internal ---------- *)
Definition binary_mark_ok (m : bytes) : bool := forallb (fun b => 128 <=? N_of_byte b) m.

(* the skip rule: object.type_name() is one of SKIP_TYPES *)
Definition type_name (o : obj) : option bytes :=
  match o with
  | ODict d => get_type d
  | OStream d _ => get_type d
  | _ => None
  end.
Definition skipped (o : obj) : bool :=
  match type_name o with
  | Some n => existsb (bytes_eqb n) SKIP_TYPES
  | None => false
  end.

Definition blen (s : bytes) : N := N.of_nat (length s).

(* the loop over self.objects; [pos] = CountingWrite.bytes_written before the object.
   Returns the bytes written by the loop, the counter after it, and the xref map. *)
Fixpoint write_objects (pos : N) (objs : objmap) (x : xmap) : bytes * N * xmap :=
  match objs with
  | [] => ([], pos, x)
  | ((id, gen), o) :: rest =>
    if skipped o then write_objects pos rest x
    else
      let b := write_indirect_object id gen o in
      let '(bs', pos', x') :=
        write_objects (pos + blen b) rest (xinsert x id (XNormal (pos mod u32_mod) gen)) in
      (b ++ bs', pos', x')
  end.

Definition header_bytes (d : doc) : bytes := bs "%PDF-" ++ d_version d ++ [x0a].
Definition mark_bytes (d : doc) : bytes := x25 :: d_binary_mark d ++ [x0a].

(* header + binary mark + objects: (bytes, xref_start, xref map) *)
Definition save_body (d : doc) : bytes * N * xmap :=
  let h := header_bytes d ++ mark_bytes d in
  let '(ob, pos, x) := write_objects (blen h) (d_objects d) [] in
  (h ++ ob, pos, x).

(* "\nstartxref\n{}\n%%EOF" *)
Definition startxref_bytes (xref_start : N) : bytes :=
  x0a :: bs "startxref" ++ x0a :: N_dec xref_start ++ x0a :: bs "%%EOF".

Definition with_trailer (d : doc) (t : dict) (m : N) : doc :=
  {| d_version := d_version d; d_binary_mark := d_binary_mark d; d_trailer := t;
     d_objects := d_objects d; d_max_id := m |}.

(* write_trailer: trailer.set("Size", max_id + 1); "trailer\n" + dictionary *)
Definition trailer_table (d : doc) : dict := dict_set (d_trailer d) K_Size (OInt (Z.of_N (d_max_id d + 1))).
Definition trailer_bytes (t : dict) : bytes := bs "trailer" ++ x0a :: write_dictionary t.

(* write_cross_reference_stream: the trailer after all its updates, the stream content and the
   final xref map; [xref_start] already truncated to u32 by the caller *)
Definition xs_W : obj := OArr [OInt (Z.of_nat XS_W1); OInt (Z.of_nat XS_W2); OInt (Z.of_nat XS_W3)].
Definition xstream_parts (d : doc) (x : xmap) (xref_start32 : N) : dict * bytes * xmap :=
  let size := d_max_id d + 1 in                       (* xref.size, fixed before max_id moves *)
  let new_id := d_max_id d + 1 in                     (* self.max_id += 1 *)
  let x1 := xinsert x new_id (XNormal xref_start32 0) in
  let t1 := dict_set (d_trailer d) K_Type (OName K_XRef) in
  let t2 := dict_set t1 K_Size (OInt (Z.of_N (new_id + 1))) in
  let t3 := dict_set t2 K_W xs_W in
  let secs := stream_sections x1 size in
  let content := xstream_content secs in
  let t4 := dict_set t3 K_Index (xstream_index secs) in
  let t5 := dict_swap_remove t4 K_Filter in           (* filter == None: trailer.remove(b"Filter") *)
  let t6 := dict_set t5 K_Length (OInt (Z.of_nat (length content))) in
  (t6, content, x1).

Inductive save_status := SaveOk | SaveInvalidMark | SavePanic.
Record save_out := { so_status : save_status; so_bytes : bytes; so_doc : doc }.

Definition save_core (xt : xref_type) (d : doc) : save_out :=
  (* Xref::new(self.max_id + 1, ..): u32 addition, overflow checks on *)
  if u32_top <=? d_max_id d then {| so_status := SavePanic; so_bytes := []; so_doc := d |}
  else if negb (binary_mark_ok (d_binary_mark d)) then
    (* the header line has been written when write_binary_mark returns InvalidData *)
    {| so_status := SaveInvalidMark; so_bytes := header_bytes d; so_doc := d |}
  else
    let '(body, xref_start, x) := save_body d in
    match xt with
    | XTable =>
      let t := trailer_table d in
      {| so_status := SaveOk;
         so_bytes := body ++ write_xref x (d_max_id d + 1) ++ trailer_bytes t ++ startxref_bytes xref_start;
         so_doc := with_trailer d t (d_max_id d) |}
    | XStream =>
      (* trailer Size needs max_id + 2 in u32 *)
      if u32_top <=? d_max_id d + 1 then {| so_status := SavePanic; so_bytes := body; so_doc := d |}
      else
        let '(t, content, _) := xstream_parts d x (xref_start mod u32_mod) in
        {| so_status := SaveOk;
           so_bytes := body ++ write_indirect_object (d_max_id d + 1) 0 (OStream t content) ++
                       startxref_bytes xref_start;
           so_doc := with_trailer d t (d_max_id d + 1) |}
    end.

(* self.max_id = self.objects.keys().next_back().map_or(self.max_id, |id| self.max_id.max(id.0)):
   the objects are a BTreeMap ordered by (number, generation), the last key carries the largest number *)
Definition last_object_number (objs : objmap) : N := fold_left (fun a io => N.max a (fst (fst io))) objs 0.
Definition raise_max_id (d : doc) : doc :=
  with_trailer d (d_trailer d) (N.max (d_max_id d) (last_object_number (d_objects d))).

Definition save (xt : xref_type) (d : doc) : save_out := save_core xt (raise_max_id d).

Definition save_table (d : doc) : bytes := so_bytes (save XTable d).
Definition save_stream (d : doc) : bytes := so_bytes (save XStream d).
