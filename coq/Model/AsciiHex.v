(* AsciiHex.v -- Stream::decode_asciihex of src/object.rs (added by the repair of C02-asciihex), branch for branch.
   Definitions only.

   Rust:
     let mut output = Vec::with_capacity(input.len() / 2);
     let mut high: Option<u8> = None;
     for &ch in input {
       let digit = match ch {
         b'0'..=b'9' => ch - b'0',  b'a'..=b'f' => ch - b'a' + 10,  b'A'..=b'F' => ch - b'A' + 10,
         b'>' => break,
         _ if ch.is_ascii_whitespace() || ch == b'\0' => continue,
         _ => return Err(io::Error::new(InvalidData, ..).into()),
       };
       match high.take() { Some(h) => output.push(h << 4 | digit), None => high = Some(digit) }
     }
     if let Some(h) = high { output.push(h << 4) }
     Ok(output)
   No arithmetic can overflow: digit <= 15, h <= 15, h << 4 <= 240. *)
From LV Require Import Base.Bytes Gen.Filters Model.A85.

Local Open Scope N_scope.

Definition hex_digit (ch : byte) : option N :=
  let v := N_of_byte ch in
  if (48 <=? v) && (v <=? 57) then Some (v - 48)
  else if (97 <=? v) && (v <=? 102) then Some (v - 97 + 10)
  else if (65 <=? v) && (v <=? 70) then Some (v - 65 + 10)
  else None.

(* what is pushed after the loop *)
Definition flush (high : option N) : bytes :=
  match high with Some h => [byte_of_N (h * 16)] | None => [] end.

Fixpoint loop (input : bytes) (high : option N) : res bytes :=
  match input with
  | [] => Ok (flush high)
  | ch :: rest =>
    match hex_digit ch with
    | Some d =>
      match high with
      | Some h => emit [byte_of_N (h * 16 + d)] (loop rest None)
      | None => loop rest (Some d)
      end
    | None =>
      if byte_eqb ch AHX_EOD then Ok (flush high)
      else if is_ascii_ws ch || byte_eqb ch AHX_WS_EXTRA then loop rest high
      else Err EIoData
    end
  end.

Definition decode (input : bytes) : res bytes := loop input None.
