(* CMap.v -- model of src/encodings/cmap.rs (ToUnicodeCMap: from_sections, put, put_char, get,
   get_or_replacement_char), of the UnicodeMapEncoding branch of Encoding::bytes_to_string
   (src/encodings/mod.rs) and of the encoding choice of Dictionary::get_font_encoding
   (src/object.rs), written from the Rust source branch for branch.

   Two generations are kept side by side:
     *_v0   the code as pinned (before the fix: commits of this property): the offset of a code
            is taken from the start of the STORED range (get_key_value), `+=` on u16 and array
            indexing can panic, the final UTF-16BE decoding sniffs a byte-order mark.
            Kept only so that the refutations in Props/C15.v stay checkable statements.
     (no suffix) the code as repaired: every stored value remembers the first code of its own
            definition, the last unit is added with wrapping_add, a short array yields None, the
            decoding is decode_without_bom_handling.
   u32 / u16 values are N; wrapping operations are written out (mod 2^32, mod 2^16).
   encoding_rs is third party: its UTF-16BE decoder (replacement of unpaired surrogates, BOM
   sniffing of Encoding::decode) is modelled from its documentation (WHATWG Encoding) and tied
   by correspondence.  Definitions only. *)
From LV Require Import Base.Bytes Model.RangeMap Gen.CMapC.

Definition two16 : N := 65536.
Definition two32 : N := 4294967296.

(* src/cmap_section.rs *)
Inductive csection :=
| CsRange (l : list (N * N * N))                         (* (begin, end, code_len) *)
| BfChar (l : list ((N * N) * list N))                   (* ((code, code_len), dst) *)
| BfRange (l : list ((N * N * N) * list (list N))).      (* ((start, end, code_len), dst_vec) *)

Inductive target :=
| HexString (v : list N)
| UTF16CodePoint (offset : N)
| ArrayOfHexStrings (vs : list (list N)).

(* derived PartialEq of BfRangeTarget *)
Fixpoint listN_eqb (a b : list N) : bool :=
  match a, b with
  | [], [] => true
  | x :: a', y :: b' => (x =? y)%N && listN_eqb a' b'
  | _, _ => false
  end.
Fixpoint listlistN_eqb (a b : list (list N)) : bool :=
  match a, b with
  | [], [] => true
  | x :: a', y :: b' => listN_eqb x y && listlistN_eqb a' b'
  | _, _ => false
  end.
Definition target_eqb (a b : target) : bool :=
  match a, b with
  | HexString x, HexString y => listN_eqb x y
  | UTF16CodePoint x, UTF16CodePoint y => (x =? y)%N
  | ArrayOfHexStrings x, ArrayOfHexStrings y => listlistN_eqb x y
  | _, _ => false
  end.

Definition wrapping_sub32 (a b : N) : N := ((a + two32) - b) mod two32.   (* a, b < 2^32 *)
Definition wrapping_add32 (a b : N) : N := (a + b) mod two32.
Definition as_u16 (a : N) : N := a mod two16.

(* Vec indexing by an N without going through nat *)
Fixpoint nth_N {A} (l : list A) (i : N) : option A :=
  match l with
  | [] => None
  | x :: l' => if (i =? 0)%N then Some x else nth_N l' (i - 1)
  end.

(* the four maps, indexed by code_len - 1 *)
Record maps (V : Type) := mkMaps { m1 : rmap (V:=V); m2 : rmap (V:=V); m3 : rmap (V:=V); m4 : rmap (V:=V) }.
Arguments mkMaps {V}. Arguments m1 {V}. Arguments m2 {V}. Arguments m3 {V}. Arguments m4 {V}.

Definition maps_new {V} : maps V := mkMaps [] [] [] [].

Definition bad_len (len : N) : bool := (4 <? len)%N || (len =? 0)%N.

Definition sel {V} (cm : maps V) (len : N) : rmap :=
  match len with
  | 1 => m1 cm | 2 => m2 cm | 3 => m3 cm | _ => m4 cm
  end%N.
Definition upd {V} (cm : maps V) (len : N) (m : rmap) : maps V :=
  match len with
  | 1 => mkMaps m (m2 cm) (m3 cm) (m4 cm)
  | 2 => mkMaps (m1 cm) m (m3 cm) (m4 cm)
  | 3 => mkMaps (m1 cm) (m2 cm) m (m4 cm)
  | _ => mkMaps (m1 cm) (m2 cm) (m3 cm) m
  end%N.

(* the target choice of from_sections / put_char (unchanged by the repairs) *)
Definition char_target (code : N) (dst : list N) : target :=
  match dst with
  | [d] => UTF16CodePoint (wrapping_sub32 d code)
  | _ => HexString dst
  end.

Inductive range_choice := RcTarget (t : target) | RcInvalid.
Definition range_target (start : N) (dst_vec : list (list N)) : range_choice :=
  match dst_vec with
  | [] => RcInvalid
  | [[d]] => RcTarget (UTF16CodePoint (wrapping_sub32 d start))
  | [v] => RcTarget (HexString v)
  | _ => RcTarget (ArrayOfHexStrings dst_vec)
  end.

Inductive fsres (C : Type) := FsOk (cm : C) | FsInvalidCodeRange.
Arguments FsOk {C}. Arguments FsInvalidCodeRange {C}.

Definition add_last (v : list N) (d : N) (f : N -> N -> N) : list N :=
  match rev v with
  | [] => []
  | l :: r => rev r ++ [f l d]
  end.

(* ================= repaired code ================= *)

(* struct StoredTarget { first_code, target } *)
Record stored := mkStored { first_code : N; tgt : target }.

Definition cmap := maps stored.

Definition put (cm : cmap) (lo hi len : N) (t : target) : cmap :=
  if bad_len len then cm
  else
    let fc := match t with UTF16CodePoint _ => 0%N | _ => lo end in
    upd cm len (rm_insert (sel cm len) lo hi (mkStored fc t)).

Definition put_char (cm : cmap) (code len : N) (dst : list N) : cmap :=
  put cm code code len (char_target code dst).

Fixpoint put_chars (cm : cmap) (l : list ((N * N) * list N)) : cmap :=
  match l with
  | [] => cm
  | ((code, len), dst) :: l' => put_chars (put_char cm code len dst) l'
  end.

Fixpoint put_ranges (cm : cmap) (l : list ((N * N * N) * list (list N))) : fsres cmap :=
  match l with
  | [] => FsOk cm
  | ((start, end_, len), dst_vec) :: l' =>
    if (end_ <? start)%N then FsInvalidCodeRange
    else match range_target start dst_vec with
         | RcInvalid => FsInvalidCodeRange
         | RcTarget t => put_ranges (put cm start end_ len t) l'
         end
  end.

Fixpoint from_sections_aux (cm : cmap) (secs : list csection) : fsres cmap :=
  match secs with
  | [] => FsOk cm
  | CsRange _ :: r => from_sections_aux cm r
  | BfChar l :: r => from_sections_aux (put_chars cm l) r
  | BfRange l :: r =>
    match put_ranges cm l with
    | FsOk cm' => from_sections_aux cm' r
    | FsInvalidCodeRange => FsInvalidCodeRange
    end
  end.

Definition from_sections (secs : list csection) : fsres cmap := from_sections_aux maps_new secs.

Definition get (cm : cmap) (code len : N) : option (list N) :=
  if bad_len len then None
  else match rm_value (sel cm len) code with
       | None => None
       | Some st =>
         let off := (code - first_code st)%N in
         match tgt st with
         | HexString v => Some (add_last v off (fun l d => (l + as_u16 d) mod two16)%N)
         | UTF16CodePoint o => Some [as_u16 (wrapping_add32 code o)]
         | ArrayOfHexStrings vs => nth_N vs off
         end
       end.

Definition REPLACEMENT_CHAR : N := CMAP_REPLACEMENT_CHAR.   (* ToUnicodeCMap::REPLACEMENT_CHAR, re-read from the source *)

Definition get_or_replacement_char (cm : cmap) (code len : N) : list N :=
  match get cm code len with Some v => v | None => [REPLACEMENT_CHAR] end.

(* the loop of bytes_to_string: [n] = bytes_in_considered_code, [code] = considered_source_code;
   result = output_bytes (UTF-16 units) *)
Fixpoint units_loop (cm : cmap) (bs : bytes) (n code : N) : list N :=
  match bs with
  | [] => if (0 <? n)%N then get_or_replacement_char cm code n else []
  | b :: bs' =>
    let flush := if (n =? 4)%N then get_or_replacement_char cm code 4 else [] in
    let n0 := if (n =? 4)%N then 0%N else n in
    let c0 := if (n =? 4)%N then 0%N else code in
    let n1 := (n0 + 1)%N in
    let c1 := (c0 * 256 + N_of_byte b)%N in
    flush ++ match get cm c1 n1 with
             | Some v => v ++ units_loop cm bs' 0 0
             | None => units_loop cm bs' n1 c1
             end
  end.

Definition units_of_text (cm : cmap) (bs : bytes) : list N := units_loop cm bs 0 0.

(* flat_map(|it| [(it / 256) as u8, (it % 256) as u8]) *)
Definition be_bytes (units : list N) : list N :=
  flat_map (fun it => [(it / 256) mod 256; it mod 256])%N units.

(* encoding_rs UTF-16BE decode_without_bom_handling, to scalar values (the chars of the String) *)
Definition U_FFFD : N := 65533.   (* the decoder's own replacement character *)
Definition is_high (u : N) : bool := (55296 <=? u)%N && (u <=? 56319)%N.     (* D800..DBFF *)
Definition is_low (u : N) : bool := (56320 <=? u)%N && (u <=? 57343)%N.      (* DC00..DFFF *)
Definition pair_cp (h l : N) : N := (65536 + (h - 55296) * 1024 + (l - 56320))%N.

Fixpoint utf16_units_decode (us : list N) : list N :=
  match us with
  | [] => []
  | u :: r =>
    if is_high u then
      match r with
      | l :: r' => if is_low l then pair_cp u l :: utf16_units_decode r'
                   else U_FFFD :: utf16_units_decode r
      | [] => [U_FFFD]
      end
    else if is_low u then U_FFFD :: utf16_units_decode r
    else u :: utf16_units_decode r
  end.

(* bytes -> units, a trailing odd byte is malformed *)
Fixpoint be_units (bs : list N) : list N * bool :=
  match bs with
  | [] => ([], false)
  | [_] => ([], true)
  | h :: l :: r => let '(us, odd) := be_units r in ((h * 256 + l)%N :: us, odd)
  end.

Definition utf16be_decode (bs : list N) : list N :=
  let '(us, odd) := be_units bs in
  utf16_units_decode us ++ (if odd then [U_FFFD] else []).

Definition bytes_to_string (cm : cmap) (bs : bytes) : list N :=
  utf16be_decode (be_bytes (units_of_text cm bs)).

(* Dictionary::get_font_encoding, reduced to the decision the property is about: which fonts get
   their ToUnicode stream as encoding.  [enc] = value of /Encoding when it is a name. *)
Inductive enc_choice := EcOneByte | EcToUnicode | EcSimple.
Definition K_StandardEncoding := Eval cbv in bs "StandardEncoding".
Definition K_MacRomanEncoding := Eval cbv in bs "MacRomanEncoding".
Definition K_MacExpertEncoding := Eval cbv in bs "MacExpertEncoding".
Definition K_WinAnsiEncoding := Eval cbv in bs "WinAnsiEncoding".
Definition K_PDFDocEncoding := Eval cbv in bs "PDFDocEncoding".
Definition K_IdentityH := Eval cbv in bs "Identity-H".
Definition K_IdentityV := Eval cbv in bs "Identity-V".
Definition font_encoding_choice (enc : option bytes) : enc_choice :=
  match enc with
  | None => EcToUnicode       (* the ToUnicode stream exists in every case of this property *)
  | Some n =>
    if bytes_eqb n K_StandardEncoding || bytes_eqb n K_MacRomanEncoding || bytes_eqb n K_MacExpertEncoding
       || bytes_eqb n K_WinAnsiEncoding || bytes_eqb n K_PDFDocEncoding then EcOneByte
    else if bytes_eqb n K_IdentityH || bytes_eqb n K_IdentityV then EcToUnicode
    else EcSimple
  end.

(* ================= pinned code (before the repairs) ================= *)

Definition cmap_v0 := maps target.

Definition put_v0 (cm : cmap_v0) (lo hi len : N) (t : target) : cmap_v0 :=
  if bad_len len then cm else upd cm len (rm_insert (sel cm len) lo hi t).

Fixpoint put_chars_v0 (cm : cmap_v0) (l : list ((N * N) * list N)) : cmap_v0 :=
  match l with
  | [] => cm
  | ((code, len), dst) :: l' => put_chars_v0 (put_v0 cm code code len (char_target code dst)) l'
  end.

Fixpoint put_ranges_v0 (cm : cmap_v0) (l : list ((N * N * N) * list (list N))) : fsres cmap_v0 :=
  match l with
  | [] => FsOk cm
  | ((start, end_, len), dst_vec) :: l' =>
    if (end_ <? start)%N then FsInvalidCodeRange
    else match range_target start dst_vec with
         | RcInvalid => FsInvalidCodeRange
         | RcTarget t => put_ranges_v0 (put_v0 cm start end_ len t) l'
         end
  end.

Fixpoint from_sections_aux_v0 (cm : cmap_v0) (secs : list csection) : fsres cmap_v0 :=
  match secs with
  | [] => FsOk cm
  | CsRange _ :: r => from_sections_aux_v0 cm r
  | BfChar l :: r => from_sections_aux_v0 (put_chars_v0 cm l) r
  | BfRange l :: r =>
    match put_ranges_v0 cm l with
    | FsOk cm' => from_sections_aux_v0 cm' r
    | FsInvalidCodeRange => FsInvalidCodeRange
    end
  end.

Definition from_sections_v0 (secs : list csection) : fsres cmap_v0 := from_sections_aux_v0 maps_new secs.

(* get can panic in the pinned code (overflow checks on): `+=` on the last u16, index out of
   bounds, unwrap of last_mut on an empty target *)
Inductive gres := GNone | GSome (v : list N) | GPanic.

Definition get_v0 (cm : cmap_v0) (code len : N) : gres :=
  if bad_len len then GNone
  else match rm_get_key_value target_eqb (sel cm len) code with
       | None => GNone
       | Some (start, t) =>
         let off := (code - start)%N in
         match t with
         | HexString v =>
           match rev v with
           | [] => GPanic
           | l :: r => if (l + as_u16 off <? two16)%N then GSome (rev r ++ [l + as_u16 off])%N else GPanic
           end
         | UTF16CodePoint o => GSome [as_u16 (wrapping_add32 code o)]
         | ArrayOfHexStrings vs => match nth_N vs off with Some v => GSome v | None => GPanic end
         end
       end.

(* Encoding::decode of encoding_rs: BOM sniffing first.  A UTF-8 mark hands the rest to the UTF-8
   decoder, which is not modelled: explicit outcome. *)
Inductive sres := SOk (cps : list N) | SPanic | SUnmodelledUtf8.

Fixpoint swap_pairs (bs : list N) : list N :=
  match bs with
  | h :: l :: r => l :: h :: swap_pairs r
  | r => r
  end.

Definition decode_sniff (bs : list N) : sres :=
  match bs with
  | 239 :: 187 :: 191 :: _ => SUnmodelledUtf8
  | 254 :: 255 :: r => SOk (utf16be_decode r)
  | 255 :: 254 :: r => SOk (utf16be_decode (swap_pairs r))
  | _ => SOk (utf16be_decode bs)
  end%N.

Definition gorc_v0 (cm : cmap_v0) (code len : N) : option (list N) :=
  match get_v0 cm code len with GSome v => Some v | GNone => Some [REPLACEMENT_CHAR] | GPanic => None end.

(* None = panic *)
Fixpoint units_loop_v0 (cm : cmap_v0) (bs : bytes) (n code : N) (out : list N) : option (list N) :=
  match bs with
  | [] => if (0 <? n)%N then option_map (app out) (gorc_v0 cm code n) else Some out
  | b :: bs' =>
    match (if (n =? 4)%N then gorc_v0 cm code 4 else Some []) with
    | None => None
    | Some flush =>
      let n0 := if (n =? 4)%N then 0%N else n in
      let c0 := if (n =? 4)%N then 0%N else code in
      let n1 := (n0 + 1)%N in
      let c1 := (c0 * 256 + N_of_byte b)%N in
      match get_v0 cm c1 n1 with
      | GPanic => None
      | GSome v => units_loop_v0 cm bs' 0 0 (out ++ flush ++ v)
      | GNone => units_loop_v0 cm bs' n1 c1 (out ++ flush)
      end
    end
  end.

Definition bytes_to_string_v0 (cm : cmap_v0) (bs : bytes) : sres :=
  match units_loop_v0 cm bs 0 0 [] with
  | None => SPanic
  | Some us => decode_sniff (be_bytes us)
  end.
