(* SinkBuf.v -- `Document::save(path)` / `IncrementalDocument::save(path)` (property C19, the
   "BufWriter::into_inner surfaces the final flush error" mechanism):

     pub fn save<P: AsRef<Path>>(&mut self, path: P) -> Result<File> {
         let mut file = BufWriter::new(File::create(path)?);
         self.save_internal(&mut file)?;
         Ok(file.into_inner()?)
     }

   What is lopdf code here: the three lines above (both `save` functions are this text), on top of
   the `?`-chained `CountingWrite::write_all` sequence of Model/Sink.v.
   What is Rust std (trusted base item 7; library/std/src/io/buffered/bufwriter.rs as documented):
     * `BufWriter::new`        : `buf = Vec::with_capacity(8192)` (DEFAULT_BUF_SIZE), empty.   [cap]
     * `BufWriter::flush_buf`  : `while !guard.done() { match inner.write(guard.remaining()) {
                                   Ok(0) => return Err(WriteZero), Ok(n) => guard.consume(n),
                                   Err(e) if e.is_interrupted() => {}, Err(e) => return Err(e) } } Ok(())`;
                                 BufGuard's Drop removes the written part from `buf`, also on the error
                                 paths.  This is the loop of `Write::write_all` (Sink.write_all) run on
                                 the buffer, keeping what was not written.                  [flush_buf]
     * `BufWriter::write_all`  : `if buf.len() < spare_capacity { append; Ok } else write_all_cold`;
       `write_all_cold`        : `if buf.len() > spare_capacity { flush_buf()? }
                                  if buf.len() >= capacity { inner.write_all(buf) } else { append; Ok }`
                                                                                          [bw_write_all]
     * `BufWriter::into_inner` : `match self.flush_buf() { Err(e) => Err(IntoInnerError(self, e)),
                                  Ok(()) => Ok(inner) }`; `From<IntoInnerError<_>> for io::Error`
                                 returns e, and the BufWriter carried by the error value is dropped.
     * `Drop for BufWriter`    : `if !self.panicked { let _r = self.flush_buf(); }` -- one more flush
                                 attempt whose error is DISCARDED.  Reached on both error paths
                                 (`save_internal(..)?` and `into_inner()?`), never on the Ok path
                                 (`into_inner` takes the parts without dropping).             [bw_drop]
     * `File::create(path)?`   : the environment either refuses (error kind e, nothing is written) or
                                 hands out a file = a sink script, as in Sink.v.        [create : option ekind]
   The inner sink's `write_all` loop is a parameter `wa` (Sink.write_all = call-driven reading,
   Sink.qwrite_all = positional reading, which is how a real file behaves: the device accepts the
   next k bytes however the writes are cut).

   Definitions only; proofs are in Proofs/SinkBufProofs.v. *)
From LV Require Import Base.Bytes Model.Obj Model.Sink Model.SaveState.

(* BufWriter<W> { buf, inner }; `panicked` is only set while an inner write is on the stack *)
Record bufw := { bw_buf : bytes; bw_inner : script }.

Section BufWriter.
  Variable wa : script -> bytes -> wres * bytes * script.
  Variable cap : nat.

  (* flush_buf: result, bytes that reached the file, what stays in `buf`, rest of the script *)
  Definition flush_buf (s : script) (buf : bytes) : wres * bytes * bytes * script :=
    let '(r, d, s') := wa s buf in (r, d, skipn (length d) buf, s').

  Definition bw_flush (b : bufw) : wres * bytes * bufw :=
    let '(r, d, rem, s') := flush_buf (bw_inner b) (bw_buf b) in (r, d, {| bw_buf := rem; bw_inner := s' |}).

  Definition spare (b : bufw) : nat := cap - length (bw_buf b).

  (* BufWriter::write_all; result, bytes that reached the file during the call, new state *)
  Definition bw_write_all (b : bufw) (buf : bytes) : wres * bytes * bufw :=
    if (length buf <? spare b)%nat then
      (WOk, [], {| bw_buf := bw_buf b ++ buf; bw_inner := bw_inner b |})
    else
      (* write_all_cold *)
      let '(r1, d1, b1) := if (spare b <? length buf)%nat then bw_flush b else (WOk, [], b) in
      match r1 with
      | WErr e => (WErr e, d1, b1)                                        (* self.flush_buf()?; *)
      | WOk =>
        if (cap <=? length buf)%nat then
          let '(r, d, s') := wa (bw_inner b1) buf in                      (* self.get_mut().write_all(buf) *)
          (r, d1 ++ d, {| bw_buf := bw_buf b1; bw_inner := s' |})
        else (WOk, d1, {| bw_buf := bw_buf b1 ++ buf; bw_inner := bw_inner b1 |})
      end.

  (* Drop: flush once more, the result is thrown away *)
  Definition bw_drop (b : bufw) : bytes * script :=
    let '(_, d, _, s') := flush_buf (bw_inner b) (bw_buf b) in (d, s').

  (* CountingWrite { inner: &mut BufWriter<File>, bytes_written } *)
  Record cwb := { cwb_inner : bufw; cwb_count : N }.

  Definition cwb_write_all (c : cwb) (buf : bytes) : wres * bytes * cwb :=
    let cnt := (cwb_count c + N.of_nat (length buf))%N in
    let '(r, d, b') := bw_write_all (cwb_inner c) buf in
    (r, d, {| cwb_inner := b'; cwb_count := cnt |}).

  (* write_all(b1)?; write_all(b2)?; ...; Ok(()) *)
  Fixpoint run_cwb (calls : list bytes) (c : cwb) : wres * bytes * cwb :=
    match calls with
    | [] => (WOk, [], c)
    | b :: rest =>
      let '(r, d, c') := cwb_write_all c b in
      match r with
      | WOk => let '(r', d', c'') := run_cwb rest c' in (r', d ++ d', c'')
      | WErr e => (WErr e, d, c')
      end
    end.

  (* the tail of `save` after save_internal returned r with the BufWriter in state b, d delivered so far *)
  Definition finish_path (r : wres) (d : bytes) (b : bufw) : wres * bytes * script :=
    match r with
    | WErr e =>                                       (* `?`: the BufWriter is dropped *)
      let '(d2, s2) := bw_drop b in (WErr e, d ++ d2, s2)
    | WOk =>                                          (* file.into_inner()? *)
      let '(r2, d2, b2) := bw_flush b in
      match r2 with
      | WOk => (WOk, d ++ d2, bw_inner b2)
      | WErr e => let '(d3, s3) := bw_drop b2 in (WErr e, d ++ d2 ++ d3, s3)
      end
    end.

  (* Document::save(path): result, content of the file afterwards, unused rest of the file's script.
     [create] = Some e: File::create fails with kind e. *)
  Definition save_path (calls : list bytes) (create : option ekind) (s : script) : wres * bytes * script :=
    match create with
    | Some e => (WErr e, [], s)
    | None =>
      let '(r, d, c) := run_cwb calls {| cwb_inner := {| bw_buf := []; bw_inner := s |}; cwb_count := 0 |} in
      finish_path r d (cwb_inner c)
    end.

  (* IncrementalDocument::save(path): save_internal begins with
       target.inner.write_all(prev_document_bytes)?; target.bytes_written += prev_document_bytes.len();
     where target.inner is the BufWriter: the same pipeline with the previous bytes as first call
     (the counter is not observable from here, cf. SinkProofs.run_inc_is_run) *)
  Definition save_path_inc (prev : bytes) (calls : list bytes) (create : option ekind) (s : script) :=
    save_path (prev :: calls) create s.

  (* with the document state (Model/SaveState.v): the mutation happens when save_internal REACHES
     the mutation point, i.e. when every call before it returned Ok -- which with a BufWriter in
     between says nothing about what the file holds at that moment *)
  Definition save_path_with (mode : xmode) (ids : list N) (top : option N) (pre post : list bytes) (st : sstate)
             (create : option ekind) (s : script) : wres * bytes * sstate :=
    match create with
    | Some e => (WErr e, [], st)                     (* save_internal is not entered: no raise of max_id either *)
    | None =>
      let st0 := raise_max_id top st in
      let '(r1, d1, c1) := run_cwb pre {| cwb_inner := {| bw_buf := []; bw_inner := s |}; cwb_count := 0 |} in
      match r1 with
      | WErr e => let '(r, f, _) := finish_path (WErr e) d1 (cwb_inner c1) in (r, f, st0)
      | WOk =>
        let '(r2, d2, c2) := run_cwb post c1 in
        let '(r, f, _) := finish_path r2 (d1 ++ d2) (cwb_inner c2) in (r, f, mutate mode ids st0)
      end
    end.
End BufWriter.

(* std::io::DEFAULT_BUF_SIZE = 8 * 1024: the capacity `BufWriter::new` asks for (the theorems hold for
   every capacity, so nothing depends on Vec::with_capacity giving exactly this) *)
Definition DEFAULT_BUF_SIZE : nat := N.to_nat 8192.

(* the seeded defect this model exists for: the BufWriter is dropped instead of `into_inner()?`
     let file = File::create(path)?; self.save_internal(&mut BufWriter::new(&file))?; Ok(file)
   -- kept to show that the theorem separates the two (SinkBufProofs.dropped_bufwriter_breaks) *)
Definition save_path_dropped (wa : script -> bytes -> wres * bytes * script) (cap : nat)
           (calls : list bytes) (s : script) : wres * bytes * script :=
  let '(r, d, c) := run_cwb wa cap calls {| cwb_inner := {| bw_buf := []; bw_inner := s |}; cwb_count := 0 |} in
  let '(d2, s2) := bw_drop wa (cwb_inner c) in (r, d ++ d2, s2).
