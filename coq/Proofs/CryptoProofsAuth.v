(* CryptoProofsAuth.v -- C05: the two hypotheses of the document-level round trip are theorems.  On the document
   Document::encrypt produced from the state EncryptionState::try_from(version) made,
     - the user password and the owner password authenticate (authenticate_raw_password = Ok), and
     - EncryptionState::decode recovers the state that encrypted (key, crypt filters, StmF, StrF, EFF,
       EncryptMetadata: [st_equiv]),
   for every revision: V1 / V2 (40..128 bits) / V4 with MD5 returning 16 bytes (a theorem for the Gallina MD5), R5 / V5
   with AES invertible (a theorem for the Gallina AES) and the SHA-2 output sizes (theorems for the Gallina SHA-2:
   Proofs/CryptoProofsSHA.v).  Hence [document_rt_*]: Document::decrypt after Document::encrypt returns Ok and
   leaves the plain document, with no hypothesis on authentication.

   How: the encryption dictionary EncryptionState::encode writes is read back entry by entry
   (PasswordAlgorithm::try_from(&Document), get_crypt_filters, the StmF / StrF / EFF look-ups of decode) -- proved here on
   Handler.v directly --; that Algorithms 6 / 7 (R2-4) and 2.A with 11 / 12 / 13 (R5/6) accept what Algorithms 3 / 4 / 5
   and 8 / 9 / 10 made and yield the key is transported from property C06: lopdf's algorithms equal the standard's
   (IsoProofs.v: alg6_refines, alg7_refines, open_key_r4_refines, alg11/12_refines, alg2A_refines, try_from_version_eq),
   and the standard is consistent with itself (IsoProofsAuth.v: RC4 chain 19..0 undoes 1..19, padding idempotent;
   IsoProofsDoc6.v: OE / UE unwrap, Perms valid).  The statements below mention Handler.v only.

   What stays conditional, and is cryptographic rather than logical:
     - R2-4, owner password: it must not ALSO pass the user check (Algorithm 6) with a different padded form -- then
       lopdf, like the standard, takes it for the user password and derives the key from it;
     - R5/6, user password: it must not ALSO pass the owner check (Algorithm 12) with a different truncated form;
     - a password that is neither is rejected: [reject_leaves_unchanged] (conditional on authentication failing). *)
From LV Require Import Base.Bytes Base.Sx Model.Obj Model.DocQ Gen.Crypto
  Model.Crypto.Word Model.Crypto.RC4 Model.Crypto.PKCS5 Model.Crypto.Handler
  Spec.Crypto.Iso Spec.Crypto.IsoConcrete
  Proofs.CryptoProofs Proofs.CryptoProofsFilter Proofs.CryptoProofsObject Proofs.CryptoProofsDoc
  Proofs.IsoProofs Proofs.IsoProofsData Proofs.IsoProofsObj Proofs.IsoProofsFilter Proofs.IsoProofsAuth
  Proofs.IsoProofsDoc Proofs.IsoProofsRT Proofs.IsoProofsDoc2 Proofs.IsoProofsPerms Proofs.IsoProofsDoc6 Proofs.IsoProofsDoc7.
Local Open Scope N_scope.

(* ---------- the crypt filter map read back from the CF dictionary encode writes ---------- *)
Definition ins_cfm (m : cfmap) (nf : bytes * cfm) : cfmap := bt_insert m (fst nf) (snd nf).

Lemma gcf_enc_entries cfs : forall m, fold_left gcf_step (map enc_cf_entry cfs) m = fold_left ins_cfm cfs m.
Proof.
  induction cfs as [|[n f] cfs IH]; intro m; [reflexivity|].
  cbn [map fold_left]. rewrite <- IH. f_equal. unfold gcf_step, enc_cf_entry, ins_cfm. cbn [fst snd]. destruct f; reflexivity.
Qed.

Lemma bt_get_notin (cfs : cfmap) q : ~ In q (map fst cfs) -> bt_get cfs q = None.
Proof.
  induction cfs as [|[k f] cfs IH]; intro H; [reflexivity|]. cbn [bt_get].
  destruct (bytes_eqb k q) eqn:E; [apply bytes_eqb_eq in E; exfalso; apply H; left; exact E|].
  apply IH. intro Hin. apply H. right. exact Hin.
Qed.

(* BTreeMap::insert in the order of the dictionary: with one entry per name, the look-ups of the list itself *)
Lemma bt_get_fold_ins cfs : NoDup (map fst cfs) -> forall m q,
  bt_get (fold_left ins_cfm cfs m) q = match bt_get cfs q with Some c => Some c | None => bt_get m q end.
Proof.
  induction cfs as [|[k f] cfs IH]; intros ND m q; [reflexivity|].
  cbn [map fst] in ND. inversion ND as [|? ? Hn ND']; subst.
  cbn [fold_left bt_get]. rewrite (IH ND'). unfold ins_cfm. cbn [fst snd]. rewrite bt_get_insert.
  destruct (bytes_eqb k q) eqn:E; [|reflexivity].
  apply bytes_eqb_eq in E. subst q. rewrite (bt_get_notin cfs k Hn). reflexivity.
Qed.

Lemma get_crypt_filters_encode D e cfs : get_encrypted D = Some e -> NoDup (map fst cfs) ->
  dict_get e K_CF = Some (ODict (map enc_cf_entry cfs)) ->
  forall n, bt_get (get_crypt_filters D) n = bt_get cfs n.
Proof.
  intros H1 ND H2 n. unfold get_crypt_filters. rewrite H1, H2.
  change (bt_get (fold_left gcf_step (map enc_cf_entry cfs) []) n = bt_get cfs n).
  rewrite gcf_enc_entries, (bt_get_fold_ins cfs ND). destruct (bt_get cfs n); reflexivity.
Qed.

(* ---------- PasswordAlgorithm::try_from(&Document) on the dictionary EncryptionState::encode writes ---------- *)
Definition palg_of_st (st : estate) : palg :=
  {| pa_encrypt_metadata := (if (4 <=? es_version st)%Z then es_encrypt_metadata st else true);
     pa_length := (if (es_version st =? 5)%Z then None else es_key_length st);
     pa_version := es_version st; pa_revision := es_revision st;
     pa_O := es_O st; pa_OE := (if (5 <=? es_revision st)%Z then es_OE st else []);
     pa_U := es_U st; pa_UE := (if (5 <=? es_revision st)%Z then es_UE st else []);
     pa_perms := perms_of_Z (p_value_i64 (es_perms st));
     pa_perms_enc := (if (5 <=? es_revision st)%Z then es_perms_enc st else []) |}.

Ltac enc_spine := repeat (cbn [dict_set]; keq; cbv iota).
Ltac zc := cbn [rbind Z.eqb Pos.eqb Z.leb Z.ltb Z.compare Pos.compare Pos.compare_cont orb andb negb opt_str Z.of_N Z.to_N].

(* V 2: the Length written is read back and passes the range test *)
Definition st_len_ok (st : estate) : Prop :=
  forall kl, es_key_length st = Some kl -> key_length_ok kl.

Theorem palg_of_encode_r4 st : st_shape_r4 st -> st_len_ok st ->
  length (es_O st) = 32%nat -> length (es_U st) = 32%nat ->
  palg_of_dict (encode st) = Ok (palg_of_st st).
Proof.
  intros Hs HL HO HU. destruct st as [V R KL em cfs key stmf strf eff O OE U UE perms pe].
  unfold st_shape_r4, st_len_ok in *. cbn [es_version es_revision es_key_length es_O es_U] in *.
  unfold palg_of_st, encode.
  cbn [es_version es_revision es_key_length es_encrypt_metadata es_crypt_filters es_key es_stmf es_strf es_eff es_O es_OE es_U
       es_UE es_perms es_perms_enc] in *.
  destruct Hs as [(-> & -> & ->)|[(-> & -> & kl & ->)|(-> & -> & ->)]].
  - cbn [Z.leb Z.eqb Z.compare Pos.compare Pos.compare_cont andb]. enc_spine. unfold palg_of_dict. dg. zc.
    rewrite !(len_is_true _ 32) by assumption. reflexivity.
  - destruct (key_length_checks kl (HL kl eq_refl)) as [C1 C2].
    cbn [Z.leb Z.eqb Z.compare Pos.compare Pos.compare_cont andb]. enc_spine. unfold palg_of_dict. dg. rewrite C1. zc.
    rewrite N2Z.id, C2. zc. rewrite !(len_is_true _ 32) by assumption. reflexivity.
  - cbn [Z.leb Z.eqb Z.compare Pos.compare Pos.compare_cont andb].
    match goal with |- context [fold_left ?g cfs []] => set (filters := fold_left g cfs []) end. destruct eff as [e|]; enc_spine; unfold palg_of_dict; dg; zc;
      rewrite !(len_is_true _ 32) by assumption; destruct em; reflexivity.
Qed.

(* ---------- the other entries EncryptionState::decode reads ---------- *)
Lemma encode_filter st : dict_get (encode st) K_Filter = Some (OName N_Standard).
Proof.
  destruct st as [V R KL em cfs key stmf strf eff O OE U UE perms pe]. unfold encode.
  cbn [es_version es_revision es_key_length es_encrypt_metadata es_crypt_filters es_key es_stmf es_strf es_eff es_O es_OE es_U
       es_UE es_perms es_perms_enc].
  destruct KL, eff, (4 <=? V)%Z, (4 <=? R)%Z, (5 <=? R)%Z;
    repeat (rewrite dget_set_other by (cbv; discriminate)); apply dget_set_same.
Qed.

(* V 4 / R 4 and V 5 / R 5, 6: crypt filters, StmF, StrF, EFF *)
Definition shape_v45 (st : estate) : Prop :=
  (es_version st = 4%Z /\ es_revision st = 4%Z /\ es_key_length st = Some 128) \/
  (es_version st = 5%Z /\ (es_revision st = 5%Z \/ es_revision st = 6%Z) /\ es_key_length st = None).

Lemma encode_entries st : shape_v45 st -> NoDup (map fst (es_crypt_filters st)) ->
  dict_get (encode st) K_CF = Some (ODict (map enc_cf_entry (es_crypt_filters st))) /\
  dict_get (encode st) K_StmF = Some (OName (es_stmf st)) /\
  dict_get (encode st) K_StrF = Some (OName (es_strf st)) /\
  dict_get (encode st) K_EFF = option_map OName (es_eff st).
Proof.
  intros Hs ND. destruct st as [V R KL em cfs key stmf strf eff O OE U UE perms pe].
  unfold shape_v45 in Hs. unfold encode.
  cbn [es_version es_revision es_key_length es_encrypt_metadata es_crypt_filters es_key es_stmf es_strf es_eff es_O es_OE es_U
       es_UE es_perms es_perms_enc] in *.
  destruct Hs as [(-> & -> & ->)|(-> & [-> | ->] & ->)];
    cbn [Z.leb Z.compare Pos.compare Pos.compare_cont andb];
    rewrite (encode_cf_fold cfs ND []) by (intros k _ []); cbn [app];
    destruct eff as [e|]; enc_spine; cbn [option_map]; repeat split; dg; reflexivity.
Qed.

(* ---------- what Document::encrypt leaves for the reader ---------- *)
Lemma doc_encrypt_facts P st d ivs d1 : doc_encrypt P st d ivs = DOk d1 tt ->
  get_encrypted d1 = Some (encode st) /\ file_id_0 d1 = file_id_0 d.
Proof.
  unfold doc_encrypt. destruct (is_encrypted d); [discriminate|].
  destruct (Handler.encrypt_objects P st (d_objects d) ivs) as [[m' ivs']| |]; try discriminate.
  destruct (d_max_id d =? u32_max); [discriminate|]. intro H. inversion H as [Hd1]. clear H. split.
  - change (ORef (d_max_id d + 1) 0) with (ORef (fst (d_max_id d + 1, 0)) (snd (d_max_id d + 1, 0))).
    apply get_encrypted_after.
  - unfold file_id_0. cbn [d_trailer]. rewrite dget_set_other by (cbv; discriminate). reflexivity.
Qed.

(* Document::decrypt = decrypt_raw once the dictionary is read and the revision is one of 2..6 *)
Lemma doc_decrypt_eq P xr D a pw : get_encrypted D <> None -> palg_of_doc D = Ok a ->
  (2 <= pa_revision a <= 6)%Z -> doc_decrypt_x P xr D pw = doc_decrypt_raw_x P xr D pw.
Proof.
  intros He Ha HR. unfold doc_decrypt_x, is_encrypted. destruct (get_encrypted D); [|contradiction]. cbn [negb].
  rewrite Ha. unfold sanitize_password.
  destruct (Z.leb_spec 2 (pa_revision a)); [|lia]. destruct (Z.leb_spec (pa_revision a) 6); [|lia]. reflexivity.
Qed.

(* ================= revisions 2-4 ================= *)
Section R4.
Variable P : prims.
Hypothesis md5_len : forall m, length (p_md5 P m) = 16%nat.
Let I := iprims_of P.

Section Opens.
Variables (D : doc) (a : palg) (R : Z) (L : N) (O U : bytes) (Pz : Z) (em : bool) (id0 pw k : bytes).
Hypothesis Hge : get_encrypted D <> None.
Hypothesis Hpa : palg_of_doc D = Ok a.
Hypothesis M : matches_r4 a R L O U Pz em.
Hypothesis Hid : file_id_0 D = Ok id0.
Hypothesis HU : length U = 32%nat.
Hypothesis Hopen :
  match alg6 I R L O U Pz id0 em pw with Some k0 => Some k0 | None => alg7 I R L O U Pz id0 em pw end = Some k.

Lemma rev24_of_matches : rev_2_4 a = true.
Proof.
  unfold rev_2_4. rewrite (m_R _ _ _ _ _ _ _ M). pose proof (m_R_range _ _ _ _ _ _ _ M) as HR.
  destruct (Z.leb_spec 2 R); [|lia]. destruct (Z.leb_spec R 4); [|lia]. reflexivity.
Qed.

Lemma auth_r4_ok : authenticate_raw_password P D pw = Ok tt.
Proof.
  unfold authenticate_raw_password, is_encrypted. destruct (get_encrypted D); [|contradiction]. cbn [negb].
  rewrite Hpa. cbn [rbind]. unfold auth_owner, auth_user. rewrite rev24_of_matches.
  rewrite (alg7_refines P md5_len _ _ _ _ _ _ _ D id0 pw M Hid HU), (alg6_refines P md5_len _ _ _ _ _ _ _ D id0 pw M Hid HU).
  fold I. destruct (alg6 I R L O U Pz id0 em pw); [destruct (alg7 I R L O U Pz id0 em pw); reflexivity|].
  rewrite Hopen. reflexivity.
Qed.

Lemma fek_r4_ok : compute_fek P a D pw = Ok k.
Proof. exact (open_key_r4_refines P md5_len _ _ _ _ _ _ _ D id0 pw k M Hid HU Hopen). Qed.
End Opens.

(* EncryptionState::decode on the dictionary encode wrote, given the key *)
Lemma decode_encode_r4 D st pw :
  get_encrypted D = Some (encode st) -> lst_ok st -> st_len_ok st ->
  length (es_O st) = 32%nat -> length (es_U st) = 32%nat ->
  compute_fek P (palg_of_st st) D pw = Ok (es_key st) ->
  exists st', decode P D pw = Ok st' /\ st_equiv st st'.
Proof.
  intros Hge LO HL HO HU Hk. pose proof (lo_shape _ LO) as Hs.
  unfold decode. rewrite Hge, encode_filter, bytes_eqb_refl. cbn [negb].
  rewrite palg_of_doc_eq, Hge, (palg_of_encode_r4 st Hs HL HO HU). cbn [rbind]. rewrite Hk. cbn [rbind].
  eexists. split; [reflexivity|].
  unfold st_equiv. cbn [es_key es_crypt_filters es_stmf es_strf es_encrypt_metadata es_eff palg_of_st pa_version pa_encrypt_metadata].
  unfold st_shape_r4 in Hs. destruct Hs as [(EV & _)|[(EV & _)|(EV & ER & EL)]]; rewrite EV;
    cbn [Z.ltb Z.eqb Z.leb Z.compare Pos.compare Pos.compare_cont Pos.eqb orb].
  - destruct (lo_v3 _ LO) as (A & B & C & E & F); [rewrite EV; reflexivity|]. rewrite A, B, C, E, F. repeat split; reflexivity.
  - destruct (lo_v3 _ LO) as (A & B & C & E & F); [rewrite EV; reflexivity|]. rewrite A, B, C, E, F. repeat split; reflexivity.
  - destruct (encode_entries st (or_introl (conj EV (conj ER EL))) (lo_nodup _ LO)) as (C1 & C2 & C3 & C4).
    rewrite C2, C3, C4. repeat split; try reflexivity.
    + intro n. symmetry. apply (get_crypt_filters_encode D _ _ Hge (lo_nodup _ LO) C1).
    + destruct (es_eff st); reflexivity.
Qed.
End R4.

(* what Document::decrypt leaves: the plain document -- every object with Stream::set_content's Length bookkeeping
   ([norm_objs]: the objects themselves when Length is right, C05_document_objects_exact), after decrypt_raw's
   object-stream pass ([opened_objects]: nothing to do without streams of Type ObjStm), the trailer without Encrypt, the
   encryption dictionary object removed; max_id keeps add_object's increment *)
Definition plain_doc (P : prims) (xr : N -> option N) (st : estate) (d : doc) : doc :=
  {| d_version := d_version d; d_binary_mark := d_binary_mark d; d_trailer := d_trailer d;
     d_objects := opened_objects P xr (norm_objs st (d_objects d)) (d_max_id d + 1, 0) (encode st);
     d_max_id := d_max_id d + 1 |}.

(* ... which IS the document (max_id apart) when every stream carries its own Length and the object streams, if any,
   are expanded (a loaded document) *)
Lemma plain_doc_exact P xr st d :
  max_id_ok d -> Forall (fun io => lengths_ok st (snd io)) (d_objects d) -> expanded P xr (d_objects d) ->
  plain_doc P xr st d =
  {| d_version := d_version d; d_binary_mark := d_binary_mark d; d_trailer := d_trailer d;
     d_objects := d_objects d; d_max_id := d_max_id d + 1 |}.
Proof.
  intros Hmax HL Hex. unfold plain_doc. rewrite (norm_objs_id st _ HL).
  rewrite opened_objects_expanded; [reflexivity| |exact Hex].
  intro Hin. apply Hmax in Hin. cbn [fst] in Hin. lia.
Qed.

(* the password enters Algorithms 2-7 through its padded form only *)
Section PadExt.
Variable P : prims.
Lemma compute_fek_r4_pad a d x y : pad_pw x = pad_pw y -> compute_fek_r4 P a d x = compute_fek_r4 P a d y.
Proof. intro H. unfold compute_fek_r4. rewrite H. reflexivity. Qed.
Lemma auth_user_r4_pad a d x y : pad_pw x = pad_pw y -> auth_user_r4 P a d x = auth_user_r4 P a d y.
Proof. intro H. unfold auth_user_r4, user_value_r2, user_value_r3. rewrite (compute_fek_r4_pad a d x y H). reflexivity. Qed.
Lemma recover_user_r4_pad a x y : pad_pw x = pad_pw y -> recover_user_r4 P a x = recover_user_r4 P a y.
Proof. intro H. unfold recover_user_r4, owner_hash. rewrite H. reflexivity. Qed.

Lemma doc_decrypt_raw_pad xr D a x y : palg_of_doc D = Ok a -> rev_2_4 a = true -> pad_pw x = pad_pw y ->
  doc_decrypt_raw_x P xr D x = doc_decrypt_raw_x P xr D y.
Proof.
  intros Ha HR H.
  assert (E1 : authenticate_raw_password P D x = authenticate_raw_password P D y).
  { unfold authenticate_raw_password. destruct (negb (is_encrypted D)); [reflexivity|]. rewrite Ha. cbn [rbind].
    unfold auth_owner, auth_user, auth_owner_r4. rewrite HR.
    rewrite (recover_user_r4_pad a x y H), (auth_user_r4_pad a D x y H). reflexivity. }
  assert (E2 : decode P D x = decode P D y).
  { unfold decode. destruct (get_encrypted D) as [e|]; [|reflexivity].
    destruct (dict_get e K_Filter) as [[| | | |f| | | | |]|]; try reflexivity.
    destruct (negb (bytes_eqb f N_Standard)); [reflexivity|]. rewrite Ha. cbn [rbind].
    unfold compute_fek. rewrite HR.
    rewrite (recover_user_r4_pad a x y H), (auth_user_r4_pad a D x y H), (compute_fek_r4_pad a D x y H). reflexivity. }
  unfold doc_decrypt_raw_x. rewrite E1, E2. reflexivity.
Qed.
End PadExt.

Section DocR4.
Variable P : prims.
Hypothesis md5_len : forall m, length (p_md5 P m) = 16%nat.
Hypothesis HA : aes_ok P.
Variable xr : N -> option N.       (* the Compressed entries of Document.reference_table: see Handler.objstm_scan *)
Let I := iprims_of P.
Variables (d : doc) (id0 : bytes) (v : eversion) (rnd ivs : list bytes) (st : estate) (d1 : doc).
Hypothesis Hid : file_id_0 d = Ok id0.
Hypothesis Hv : version_ok v.
Hypothesis Hmax : max_id_ok d.
Hypothesis Htr : dict_get (d_trailer d) K_Encrypt = None.
Hypothesis Htry : try_from_version P d v rnd = Ok st.
Hypothesis Henc : doc_encrypt P st d ivs = DOk d1 tt.

Lemma st_is4 : st = st_of_version P id0 v rnd.
Proof. rewrite (try_from_version_eq P md5_len d id0 Hid v rnd Hv) in Htry. inversion Htry. reflexivity. Qed.

(* the revision, key length, EncryptMetadata and owner password (an empty one = none: the user password) of a version *)
Definition vR (v : eversion) : Z := match v with EV1 _ _ _ => 2 | EV2 _ _ _ _ => 3 | _ => 4 end%Z.
Definition vL (v : eversion) : N := match v with EV1 _ _ _ => 40 | EV2 _ _ kl _ => kl | _ => 128 end.
Definition vem (v : eversion) : bool := match v with EV4 em _ _ _ _ _ _ => em | _ => true end.
Definition vowner (v : eversion) : bytes := match v_owner v with [] => v_user v | _ :: _ => v_owner v end.

(* the state try_from made, against the standard's parameters *)
Lemma st_facts4 :
    matches_r4 (palg_of_st st) (vR v) (vL v) (es_O st) (es_U st) (p_value_i64 (es_perms st)) (vem v) /\
    es_O st = make_O P (vR v) (vL v) (Some (vowner v)) (v_user v) /\
    es_U st = make_U P (vR v) (vL v) (es_O st) (p_value_i64 (es_perms st)) id0 (vem v) (v_user v) (Handler.draw rnd 0) /\
    es_key st = alg2 I (vR v) (vL v) (es_O st) (p_value_i64 (es_perms st)) id0 (vem v) (v_user v) /\
    st_len_ok st.
Proof.
  rewrite st_is4. clear Htry Henc.
  destruct v as [owner user perms|owner user kl perms|em cfs stmf strf owner user perms| |]; cbn [version_ok] in Hv; try contradiction;
    unfold vowner, st_len_ok; cbn [vR vL vem v_owner v_user];
    cbn [st_of_version st_r4 palg_of_st pa_revision pa_length pa_O pa_U pa_perms pa_encrypt_metadata es_version
         es_revision es_key_length es_O es_U es_perms es_encrypt_metadata es_key Z.leb Z.eqb Z.compare Pos.compare
         Pos.compare_cont Pos.eqb].
  - destruct (perms_roundtrip perms Hv) as [E1 E2].
    split; [|split; [reflexivity|split; [reflexivity|split; [reflexivity|intros kl0 H; discriminate H]]]].
    constructor; cbn [pa_revision pa_length pa_O pa_U pa_perms pa_encrypt_metadata Z.eqb]; try reflexivity; try assumption; try lia;
      try (intro H; discriminate H).
  - destruct Hv as [Hp HL]. destruct (perms_roundtrip perms Hp) as [E1 E2].
    split; [|split; [reflexivity|split; [reflexivity|split; [reflexivity|intros kl' H; inversion H; subst kl'; exact HL]]]].
    constructor; cbn [pa_revision pa_length pa_O pa_U pa_perms pa_encrypt_metadata Z.eqb]; try reflexivity; try assumption; try lia;
      try (intros _; exact (proj1 HL)).
  - destruct Hv as [Hp _]. destruct (perms_roundtrip perms Hp) as [E1 E2].
    split; [|split; [reflexivity|split; [reflexivity|split; [reflexivity|
             intros kl' H; inversion H; subst kl'; split; [lia|reflexivity]]]]].
    constructor; cbn [pa_revision pa_length pa_O pa_U pa_perms pa_encrypt_metadata Z.eqb]; try reflexivity; try assumption; try lia;
      try (intros _; lia).
Qed.

Lemma vR_range : (2 <= vR v <= 4)%Z.
Proof. destruct v; cbn [vR]; lia. Qed.

(* whatever password the standard's opening procedure accepts and yields the key for *)
Lemma rt_r4_open pw :
  match alg6 I (vR v) (vL v) (es_O st) (es_U st) (p_value_i64 (es_perms st)) id0 (vem v) pw with
  | Some k0 => Some k0
  | None => alg7 I (vR v) (vL v) (es_O st) (es_U st) (p_value_i64 (es_perms st)) id0 (vem v) pw
  end = Some (es_key st) ->
  exists st', doc_decrypt_x P xr d1 pw = DOk (plain_doc P xr st d) st' /\ st_equiv st st'.
Proof.
  intro Hopen.
  destruct st_facts4 as (M & EO & EU & EK & HLok).
  destruct (doc_encrypt_facts P st d ivs d1 Henc) as [Hge Hfid]. rewrite Hid in Hfid.
  assert (LO : lst_ok st) by (rewrite st_is4; apply (st_of_version_ok P md5_len id0 v rnd Hv)).
  assert (HO : length (es_O st) = 32%nat) by (rewrite EO; apply (alg3_length P)).
  assert (HU : length (es_U st) = 32%nat) by (rewrite EU; apply (make_U_length P md5_len)).
  assert (Hne : get_encrypted d1 <> None) by (rewrite Hge; discriminate).
  assert (Hpa : palg_of_doc d1 = Ok (palg_of_st st)).
  { rewrite palg_of_doc_eq, Hge. apply palg_of_encode_r4; try assumption. exact (lo_shape _ LO). }
  pose proof (auth_r4_ok P md5_len d1 _ _ _ _ _ _ _ id0 pw (es_key st) Hne Hpa M Hfid HU Hopen) as Hauth.
  pose proof (fek_r4_ok P md5_len d1 _ _ _ _ _ _ _ id0 pw (es_key st) M Hfid HU Hopen) as Hfek.
  destruct (decode_encode_r4 P d1 st pw Hge LO HLok HO HU Hfek) as (st' & Hdec & Heq).
  exists st'. split; [|exact Heq].
  rewrite (doc_decrypt_eq P xr d1 _ pw Hne Hpa).
  - exact (doc_rt_gen P xr st d ivs d1 pw st' HA Hmax Htr Henc Hauth Hdec Heq).
  - rewrite (m_R _ _ _ _ _ _ _ M). pose proof vR_range. lia.
Qed.

(* the user password *)
Theorem document_rt_user_r4 :
  exists st', doc_decrypt_x P xr d1 (v_user v) = DOk (plain_doc P xr st d) st' /\ st_equiv st st'.
Proof.
  apply rt_r4_open. destruct st_facts4 as (M & EO & EU & EK & _). rewrite EK, EU, EO.
  apply (open_key_user_r4 P md5_len). exact vR_range.
Qed.

(* the encrypted document as the reader sees it *)
Lemma read4 : get_encrypted d1 <> None /\ file_id_0 d1 = Ok id0 /\ palg_of_doc d1 = Ok (palg_of_st st) /\
              length (es_U st) = 32%nat /\ rev_2_4 (palg_of_st st) = true.
Proof.
  destruct st_facts4 as (M & EO & EU & EK & HLok).
  destruct (doc_encrypt_facts P st d ivs d1 Henc) as [Hge Hfid]. rewrite Hid in Hfid.
  assert (LO : lst_ok st) by (rewrite st_is4; apply (st_of_version_ok P md5_len id0 v rnd Hv)).
  assert (HO : length (es_O st) = 32%nat) by (rewrite EO; apply (alg3_length P)).
  assert (HU : length (es_U st) = 32%nat) by (rewrite EU; apply (make_U_length P md5_len)).
  split; [rewrite Hge; discriminate|]. split; [exact Hfid|]. split; [|split; [exact HU|]].
  2:{ unfold rev_2_4. rewrite (m_R _ _ _ _ _ _ _ M). destruct v; reflexivity. }
  rewrite palg_of_doc_eq, Hge. apply palg_of_encode_r4; try assumption. exact (lo_shape _ LO).
Qed.

(* the owner password (non-empty: an empty one means there is none).  Either it has the padded form of the user
   password (equal passwords, or equal in their first 32 bytes), or it does not also pass the user check: a password
   that does is taken for the user password by lopdf as by the standard, and that the key derived from it is the same
   is cryptographic, not logical *)
Theorem document_rt_owner_r4 :
  v_owner v <> [] ->
  pad_pw (v_owner v) = pad_pw (v_user v) \/ authenticate_raw_user_password P d1 (v_owner v) <> Ok tt ->
  exists st', doc_decrypt_x P xr d1 (v_owner v) = DOk (plain_doc P xr st d) st' /\ st_equiv st st'.
Proof.
  intros Hne Hcase. destruct read4 as (Hge & Hfid & Hpa & HU & H24).
  destruct st_facts4 as (M & EO & EU & EK & _).
  assert (HR6 : (2 <= pa_revision (palg_of_st st) <= 6)%Z) by (rewrite (m_R _ _ _ _ _ _ _ M); pose proof vR_range; lia).
  destruct Hcase as [Hpad|Hnu].
  - destruct document_rt_user_r4 as (st' & H & Heq). exists st'. split; [|exact Heq]. rewrite <- H.
    rewrite !(doc_decrypt_eq P xr d1 _ _ Hge Hpa HR6). exact (doc_decrypt_raw_pad P xr d1 _ _ _ Hpa H24 Hpad).
  - apply rt_r4_open.
    assert (H6 : alg6 I (vR v) (vL v) (es_O st) (es_U st) (p_value_i64 (es_perms st)) id0 (vem v) (v_owner v) = None).
    { destruct (alg6 I (vR v) (vL v) (es_O st) (es_U st) (p_value_i64 (es_perms st)) id0 (vem v) (v_owner v)) eqn:E6; [|reflexivity].
      exfalso. apply Hnu. unfold authenticate_raw_user_password, is_encrypted.
      destruct (get_encrypted d1); [|contradiction]. cbn [negb]. rewrite Hpa. cbn [rbind]. unfold auth_user. rewrite H24.
      rewrite (alg6_refines P md5_len _ _ _ _ _ _ _ d1 id0 (v_owner v) M Hfid HU). fold I. rewrite E6. reflexivity. }
    revert H6. rewrite EK, EU, EO.
    assert (Eo : vowner v = v_owner v) by (unfold vowner; destruct (v_owner v); [contradiction|reflexivity]).
    rewrite Eo. intro H6. apply (open_key_owner_r4 P md5_len); [exact vR_range|exact H6].
Qed.
End DocR4.

(* ================= revisions 5 and 6 ================= *)
Theorem palg_of_encode_r6 st : st_shape_r6 st ->
  length (es_O st) = 48%nat -> length (es_U st) = 48%nat -> length (es_OE st) = 32%nat -> length (es_UE st) = 32%nat ->
  length (es_perms_enc st) = 16%nat ->
  palg_of_dict (encode st) = Ok (palg_of_st st).
Proof.
  intros Hs HO HU HOE HUE HPe. destruct st as [V R KL em cfs key stmf strf eff O OE U UE perms pe].
  unfold st_shape_r6 in Hs. cbn [es_version es_revision es_key_length es_O es_U es_OE es_UE es_perms_enc] in *.
  unfold palg_of_st, encode.
  cbn [es_version es_revision es_key_length es_encrypt_metadata es_crypt_filters es_key es_stmf es_strf es_eff es_O es_OE es_U
       es_UE es_perms es_perms_enc] in *.
  destruct Hs as (-> & [-> | ->] & ->);
    cbn [Z.leb Z.eqb Z.compare Pos.compare Pos.compare_cont andb];
    match goal with |- context [fold_left ?g cfs []] => set (filters := fold_left g cfs []) end;
    destruct eff as [e|]; enc_spine; unfold palg_of_dict; dg; zc;
    rewrite ?(len_is_true O 48), ?(len_is_true U 48), ?(len_is_true OE 32), ?(len_is_true UE 32), ?(len_is_true pe 16) by assumption;
    destruct em; reflexivity.
Qed.

(* the password enters Algorithms 2.A, 11, 12 through its first 127 bytes only *)
Lemma doc_decrypt_raw_trunc P xr D a x y : palg_of_doc D = Ok a -> rev_2_4 a = false -> trunc_pw x = trunc_pw y ->
  doc_decrypt_raw_x P xr D x = doc_decrypt_raw_x P xr D y.
Proof.
  intros Ha HR H.
  assert (E1 : authenticate_raw_password P D x = authenticate_raw_password P D y).
  { unfold authenticate_raw_password. destruct (negb (is_encrypted D)); [reflexivity|]. rewrite Ha. cbn [rbind].
    unfold auth_owner, auth_user, auth_owner_r6, auth_user_r6. rewrite HR. cbv zeta. rewrite H. reflexivity. }
  assert (E2 : decode P D x = decode P D y).
  { unfold decode. destruct (get_encrypted D) as [e|]; [|reflexivity].
    destruct (dict_get e K_Filter) as [[| | | |f| | | | |]|]; try reflexivity.
    destruct (negb (bytes_eqb f N_Standard)); [reflexivity|]. rewrite Ha. cbn [rbind].
    unfold compute_fek, compute_fek_r6. rewrite HR. cbv zeta. rewrite H. reflexivity. }
  unfold doc_decrypt_raw_x. rewrite E1, E2. reflexivity.
Qed.

Section R6.
Variable P : prims.
Hypothesis HA : aes_ok P.
Hypothesis sha256_len : forall m, length (p_sha256 P m) = 32%nat.
Hypothesis sha384_len : forall m, length (p_sha384 P m) = 48%nat.
Hypothesis sha512_len : forall m, length (p_sha512 P m) = 64%nat.
Variable xr : N -> option N.
Let I := iprims_of P.
Variables (d : doc) (v : eversion) (rnd ivs : list bytes) (st : estate) (d1 : doc).
Hypothesis Hv : version_ok6 v.
Hypothesis Hmax : max_id_ok d.
Hypothesis Htr : dict_get (d_trailer d) K_Encrypt = None.
Hypothesis Htry : try_from_version P d v rnd = Ok st.
Hypothesis Henc : doc_encrypt P st d ivs = DOk d1 tt.

Lemma st_is6' : st = st_of_version6 P v rnd.
Proof. rewrite (try_from_version_eq6 P d v rnd Hv) in Htry. inversion Htry. reflexivity. Qed.

Definition vR6 (v : eversion) : Z := match v with ER5 _ _ _ _ _ _ _ _ => 5 | _ => 6 end%Z.
Definition vfek (v : eversion) : bytes :=
  match v with ER5 _ _ k _ _ _ _ _ | EV5 _ _ k _ _ _ _ _ => k | _ => [] end.
Definition vem6 (v : eversion) : bool :=
  match v with ER5 em _ _ _ _ _ _ _ | EV5 em _ _ _ _ _ _ _ => em | _ => true end.

Let Pz := p_value_i64 (es_perms st).
Let U8 := alg8 I (vR6 v) (vfek v) (v_user v) (Handler.draw rnd 0).
Let O9 := alg9 I (vR6 v) (vfek v) (v_owner v) (fst U8) (Handler.draw rnd 1).

Lemma st_facts6 :
  es_revision st = vR6 v /\ es_version st = 5%Z /\ es_key st = vfek v /\ length (vfek v) = 32%nat /\
  conforming_P Pz = true /\ perms_of_Z Pz = es_perms st /\ es_encrypt_metadata st = vem6 v /\
  es_U st = fst U8 /\ es_UE st = snd U8 /\ es_O st = fst O9 /\ es_OE st = snd O9 /\
  es_perms_enc st = alg10 I Pz (vem6 v) (vfek v) (Handler.draw rnd 2).
Proof.
  unfold Pz, U8, O9. rewrite st_is6'. clear Htry Henc.
  destruct v as [| | |em cfs fek stmf strf owner user perms|em cfs fek stmf strf owner user perms]; cbn [version_ok6] in Hv; try contradiction;
    destruct Hv as (Hp & Hf & _); destruct (perms_roundtrip perms Hp) as [E1 E2];
    cbn [st_of_version6 st_r6 es_revision es_version es_key es_perms es_encrypt_metadata es_U es_UE es_O es_OE es_perms_enc
         vR6 vfek vem6 v_user v_owner];
    repeat (split; [first [reflexivity | assumption]|]); reflexivity.
Qed.

Lemma read6 :
  get_encrypted d1 = Some (encode st) /\ palg_of_doc d1 = Ok (palg_of_st st) /\ lst_ok6 st /\
  matches_r6 (palg_of_st st) (vR6 v) (es_O st) (es_U st) (es_OE st) (es_UE st) (es_perms_enc st) Pz (vem6 v) /\
  rev_2_4 (palg_of_st st) = false /\ rev_5_6 (palg_of_st st) = true.
Proof.
  destruct st_facts6 as (ER & EV & EK & Hf & HC & HPr & Eem & EU & EUE & EO & EOE & EPe).
  destruct (doc_encrypt_facts P st d ivs d1 Henc) as [Hge _].
  assert (LO : lst_ok6 st) by (rewrite st_is6'; apply st_of_version6_ok; exact Hv).
  destruct (made_lengths P HA sha256_len sha384_len sha512_len (vR6 v) (vfek v) (v_user v) (v_owner v)
              (Handler.draw rnd 0) (Handler.draw rnd 1) (Handler.draw rnd 2) Pz (vem6 v) Hf HC) as (L1 & L2 & L3 & L4 & L5).
  fold I in L1, L2, L3, L4, L5. fold U8 in L1, L2, L3, L4. fold O9 in L2, L4.
  rewrite <- EU in L1. rewrite <- EO in L2. rewrite <- EUE in L3. rewrite <- EOE in L4. rewrite <- EPe in L5.
  assert (E5 : (5 <=? es_revision st)%Z = true) by (rewrite ER; destruct v; reflexivity).
  split; [exact Hge|]. split.
  { rewrite palg_of_doc_eq, Hge. apply palg_of_encode_r6; try assumption. exact (l6_shape _ LO). }
  split; [exact LO|]. split.
  { constructor; cbn [palg_of_st pa_revision pa_O pa_U pa_OE pa_UE pa_perms_enc pa_perms pa_encrypt_metadata];
      rewrite ?E5, ?EV; try reflexivity; try assumption; try (rewrite <- Eem; reflexivity). }
  unfold rev_2_4, rev_5_6. cbn [palg_of_st pa_revision]. rewrite ER. destruct v; split; reflexivity.
Qed.

(* EncryptionState::decode on the dictionary encode wrote, given the key *)
Lemma decode_encode_r6 pw :
  compute_fek P (palg_of_st st) d1 pw = Ok (es_key st) ->
  exists st', decode P d1 pw = Ok st' /\ st_equiv st st'.
Proof.
  intro Hk. destruct read6 as (Hge & Hpa & LO & _). destruct (l6_shape _ LO) as (EV & ER & EL).
  unfold decode. rewrite Hge, encode_filter, bytes_eqb_refl. cbn [negb]. rewrite Hpa. cbn [rbind]. rewrite Hk. cbn [rbind].
  eexists. split; [reflexivity|].
  unfold st_equiv. cbn [es_key es_crypt_filters es_stmf es_strf es_encrypt_metadata es_eff palg_of_st pa_version pa_encrypt_metadata].
  rewrite EV. cbn [Z.ltb Z.eqb Z.leb Z.compare Pos.compare Pos.compare_cont Pos.eqb orb].
  destruct (encode_entries st (or_intror (conj EV (conj ER EL))) (l6_nodup _ LO)) as (C1 & C2 & C3 & C4).
  rewrite C2, C3, C4. repeat split; try reflexivity.
  - intro n. symmetry. apply (get_crypt_filters_encode d1 _ _ Hge (l6_nodup _ LO) C1).
  - destruct (es_eff st); reflexivity.
Qed.

(* whatever password Algorithm 2.A retrieves the key for *)
Lemma rt_r6_open pw :
  alg2A I (vR6 v) (es_O st) (es_U st) (es_OE st) (es_UE st) (es_perms_enc st) Pz pw = Some (es_key st) ->
  exists st', doc_decrypt_x P xr d1 pw = DOk (plain_doc P xr st d) st' /\ st_equiv st st'.
Proof.
  intro Hopen. destruct read6 as (Hge & Hpa & LO & M & R1 & R2).
  destruct st_facts6 as (ER & EV & EK & Hf & HC & HPr & Eem & EU & EUE & EO & EOE & EPe).
  assert (H8 : nth 8 (p_aes_dec P (es_key st) (es_perms_enc st)) x00 = (if vem6 v then "T"%byte else "F"%byte)).
  { rewrite EK, EPe. apply (alg13_alg10 P HA Pz (vem6 v) (vfek v) (Handler.draw rnd 2) HC Hf). }
  assert (Hfek : compute_fek P (palg_of_st st) d1 pw = Ok (es_key st)).
  { unfold compute_fek. rewrite R1, R2. exact (alg2A_refines P _ _ _ _ _ _ _ _ _ pw (es_key st) M Hopen H8). }
  assert (Hauth : authenticate_raw_password P d1 pw = Ok tt).
  { unfold authenticate_raw_password, is_encrypted. rewrite Hge. cbn [negb]. rewrite Hpa. cbn [rbind].
    unfold auth_owner, auth_user. rewrite R1, R2.
    rewrite (alg12_refines P (palg_of_st st) (vR6 v) pw (m6_R _ _ _ _ _ _ _ _ _ M)),
            (alg11_refines P (palg_of_st st) (vR6 v) pw (m6_R _ _ _ _ _ _ _ _ _ M)).
    cbn [palg_of_st pa_O pa_U]. unfold alg2A in Hopen. fold I.
    destruct (alg12 I (vR6 v) (es_O st) (es_U st) pw); [destruct (alg11 I (vR6 v) (es_U st) pw); reflexivity|].
    destruct (alg11 I (vR6 v) (es_U st) pw); [reflexivity|discriminate]. }
  destruct (decode_encode_r6 pw Hfek) as (st' & Hdec & Heq).
  exists st'. split; [|exact Heq].
  assert (Hne : get_encrypted d1 <> None) by (rewrite Hge; discriminate).
  rewrite (doc_decrypt_eq P xr d1 _ pw Hne Hpa).
  - exact (doc_rt_gen P xr st d ivs d1 pw st' HA Hmax Htr Henc Hauth Hdec Heq).
  - cbn [palg_of_st pa_revision]. rewrite ER. destruct v; cbn [vR6]; lia.
Qed.

(* the owner password (the empty string when none was given: Algorithm 9 has no "use the user password") *)
Theorem document_rt_owner_r6 :
  exists st', doc_decrypt_x P xr d1 (v_owner v) = DOk (plain_doc P xr st d) st' /\ st_equiv st st'.
Proof.
  apply rt_r6_open. destruct st_facts6 as (ER & EV & EK & Hf & HC & HPr & Eem & EU & EUE & EO & EOE & EPe).
  rewrite EK, EPe, EO, EOE, EU, EUE. unfold O9, U8.
  apply (open_owner_r6 P HA sha256_len sha384_len sha512_len); assumption.
Qed.

(* the user password.  Either it has the truncated form of the owner password (equal passwords, or equal in their
   first 127 bytes), or it does not also pass the owner check (Algorithm 12): a password that does is taken for the
   owner password by lopdf as by the standard, and that OE then unwraps to the same key is cryptographic *)
Theorem document_rt_user_r6 :
  trunc_pw (v_user v) = trunc_pw (v_owner v) \/ authenticate_raw_owner_password P d1 (v_user v) <> Ok tt ->
  exists st', doc_decrypt_x P xr d1 (v_user v) = DOk (plain_doc P xr st d) st' /\ st_equiv st st'.
Proof.
  intro Hcase. destruct read6 as (Hge & Hpa & LO & M & R1 & R2).
  destruct st_facts6 as (ER & EV & EK & Hf & HC & HPr & Eem & EU & EUE & EO & EOE & EPe).
  assert (Hne : get_encrypted d1 <> None) by (rewrite Hge; discriminate).
  assert (HR6 : (2 <= pa_revision (palg_of_st st) <= 6)%Z).
  { cbn [palg_of_st pa_revision]. rewrite ER. destruct v; cbn [vR6]; lia. }
  destruct Hcase as [Htr'|Hno].
  - destruct document_rt_owner_r6 as (st' & H & Heq). exists st'. split; [|exact Heq]. rewrite <- H.
    rewrite !(doc_decrypt_eq P xr d1 _ _ Hne Hpa HR6). exact (doc_decrypt_raw_trunc P xr d1 _ _ _ Hpa R1 Htr').
  - apply rt_r6_open.
    assert (H12 : alg12 I (vR6 v) (es_O st) (es_U st) (v_user v) = false).
    { destruct (alg12 I (vR6 v) (es_O st) (es_U st) (v_user v)) eqn:E12; [|reflexivity].
      exfalso. apply Hno. unfold authenticate_raw_owner_password, is_encrypted. rewrite Hge. cbn [negb]. rewrite Hpa. cbn [rbind].
      unfold auth_owner. rewrite R1, R2.
      rewrite (alg12_refines P (palg_of_st st) (vR6 v) (v_user v) (m6_R _ _ _ _ _ _ _ _ _ M)).
      cbn [palg_of_st pa_O pa_U]. fold I. rewrite E12. reflexivity. }
    revert H12. rewrite EK, EPe, EO, EOE, EU, EUE. unfold O9, U8. intro H12.
    apply (open_user_r6 P HA sha256_len sha384_len sha512_len); assumption.
Qed.
End R6.

(* ================= every revision ================= *)
(* try_from(V1 / V2 / V4) needs the first file identifier (Algorithm 2): where it answers Ok, there is one *)
Lemma try_from_has_id P d v rnd st : version_ok v -> try_from_version P d v rnd = Ok st -> exists id0, file_id_0 d = Ok id0.
Proof.
  intros Hv H. destruct (file_id_0 d) as [id0|e|] eqn:E; [exists id0; reflexivity| |]; exfalso;
    destruct v as [owner user perms|owner user kl perms|em cfs stmf strf owner user perms| |]; cbn [version_ok] in Hv; try contradiction;
    cbn [try_from_version] in H; unfold try_from_r4 in H;
    match type of H with rbind ?r _ = _ => destruct r as [o| |]; cbn [rbind] in H; try discriminate H end;
    unfold user_value_r2, user_value_r3, compute_fek_r4 in H; rewrite E in H;
    cbn [with_O pa_revision palg0 Z.eqb Pos.eqb rbind] in H; discriminate H.
Qed.

(* the versions the property quantifies over: V1; V2 with 40..128 bits; V4 with crypt filters; R5; V5 -- with lopdf's
   Permissions (flag bits only), one entry per crypt filter name (BTreeMap), Identity not redefined, StmF / StrF naming
   defined filters, no AES-256 filter under the 128-bit key of V4, a 32-byte key for R5 / V5 *)
Definition version_in_domain (v : eversion) : Prop := version_ok v \/ version_ok6 v.

(* "the user password or the owner password", with the two cryptographic side conditions spelled out *)
Definition right_password (P : prims) (d1 : doc) (v : eversion) (pw : bytes) : Prop :=
  match v with
  | ER5 _ _ _ _ _ _ _ _ | EV5 _ _ _ _ _ _ _ _ =>
    pw = v_owner v \/
    (pw = v_user v /\
     (trunc_pw (v_user v) = trunc_pw (v_owner v) \/ authenticate_raw_owner_password P d1 (v_user v) <> Ok tt))
  | _ =>
    pw = v_user v \/
    (pw = v_owner v /\ v_owner v <> [] /\
     (pad_pw (v_owner v) = pad_pw (v_user v) \/ authenticate_raw_user_password P d1 (v_owner v) <> Ok tt))
  end.

Theorem document_rt P :
  (forall m, length (p_md5 P m) = 16%nat) -> aes_ok P ->
  (forall m, length (p_sha256 P m) = 32%nat) -> (forall m, length (p_sha384 P m) = 48%nat) ->
  (forall m, length (p_sha512 P m) = 64%nat) ->
  forall xr d v rnd ivs st d1 pw,
  version_in_domain v -> max_id_ok d -> dict_get (d_trailer d) K_Encrypt = None ->
  try_from_version P d v rnd = Ok st -> doc_encrypt P st d ivs = DOk d1 tt ->
  right_password P d1 v pw ->
  exists st', doc_decrypt_x P xr d1 pw = DOk (plain_doc P xr st d) st' /\ st_equiv st st'.
Proof.
  intros md5_len HA s256 s384 s512 xr d v rnd ivs st d1 pw [Hv|Hv] Hmax Htr Htry Henc Hpw.
  - destruct (try_from_has_id P d v rnd st Hv Htry) as [id0 Hid].
    assert (Hpw' : pw = v_user v \/
              (pw = v_owner v /\ v_owner v <> [] /\
               (pad_pw (v_owner v) = pad_pw (v_user v) \/ authenticate_raw_user_password P d1 (v_owner v) <> Ok tt))).
    { destruct v; cbn [version_ok] in Hv; try contradiction; exact Hpw. }
    destruct Hpw' as [->|(-> & Hne & Hc)].
    + exact (document_rt_user_r4 P md5_len HA xr d id0 v rnd ivs st d1 Hid Hv Hmax Htr Htry Henc).
    + exact (document_rt_owner_r4 P md5_len HA xr d id0 v rnd ivs st d1 Hid Hv Hmax Htr Htry Henc Hne Hc).
  - assert (Hpw' : pw = v_owner v \/
              (pw = v_user v /\
               (trunc_pw (v_user v) = trunc_pw (v_owner v) \/ authenticate_raw_owner_password P d1 (v_user v) <> Ok tt))).
    { destruct v; cbn [version_ok6] in Hv; try contradiction; exact Hpw. }
    destruct Hpw' as [->|(-> & Hc)].
    + exact (document_rt_owner_r6 P HA s256 s384 s512 xr d v rnd ivs st d1 Hv Hmax Htr Htry Henc).
    + exact (document_rt_user_r6 P HA s256 s384 s512 xr d v rnd ivs st d1 Hv Hmax Htr Htry Henc Hc).
Qed.
