(* EditProofsCount.v -- C11, part 7 (partial I_count): the Count bookkeeping of delete_pages.
   [count_loop] walks the Parent chain of the deleted page; on a chain of pairwise different dictionary objects it
   terminates within |objects| + 1 rounds (never the "hang" outcome), decrements the integer Count of EVERY ancestor by
   exactly one (checked i64 subtraction: a Count of i64::MIN is the panic outcome and is excluded), leaves ancestors
   without an integer Count alone, and changes nothing else.  delete_pages([n]) is delete_object(page n) followed by
   exactly that.
   MISSING for the full I_count ("every Pages node's Count = number of leaves below it, page list = old list minus the
   deleted numbers"): the tree-level composition -- that delete_object reaches every node of a well-formed page tree (so
   the page's reference leaves its parent's Kids) and that [represents] (C12) is preserved; decided on the implementation
   by the harness ([tree_wf] before and after every delete_pages). *)
From LV Require Import Base.Bytes Model.Obj Model.DocQ Model.PageTree Model.Traverse Model.Edit
  Proofs.RenumberProofsMap Proofs.EditProofs.
From LV Require Proofs.FilterProofsDict.

(* one ancestor: its id, its dictionary, its Count when that is an integer *)
Definition anc := (oid * dict * option Z)%type.
Definition anc_id (a : anc) : oid := fst (fst a).

Definition count_of (d : dict) : option Z := match dict_get d K_Count with Some (OInt c) => Some c | _ => None end.

(* the chain the loop follows from [r] in the map [m] *)
Inductive anc_chain (m : objmap) : option oid -> list anc -> Prop :=
| ac_none : anc_chain m None []
| ac_stop id : (forall d, lookup m id <> Some (ODict d)) -> anc_chain m (Some id) []
| ac_cons id d rest :
    lookup m id = Some (ODict d) -> count_of d <> Some I64_MIN ->
    anc_chain m (as_ref (dict_get d K_Parent)) rest ->
    anc_chain m (Some id) ((id, d, count_of d) :: rest).

Definition dec_one (m : objmap) (a : anc) : objmap :=
  match a with
  | (id, d, Some c) => update m id (ODict (dict_set d K_Count (OInt (c - 1))))
  | (_, _, None) => m
  end.
Definition dec_all (m : objmap) (l : list anc) : objmap := fold_left dec_one l m.

Lemma lookup_dec_one_other m a x : x <> anc_id a -> lookup (dec_one m a) x = lookup m x.
Proof.
  destruct a as [[id d] [c|]]; cbn [dec_one anc_id fst]; intro H; [|reflexivity].
  rewrite lookup_update. replace (oid_eqb id x) with false; [reflexivity|]. symmetry. apply oid_eqb_neq. congruence.
Qed.

Lemma count_of_some d c : count_of d = Some c -> dict_get d K_Count = Some (OInt c).
Proof. unfold count_of. destruct (dict_get d K_Count) as [[| |z| | | | | | |]|]; try discriminate. intro H; inversion H; reflexivity. Qed.

Lemma parent_after_count d c : dict_get (dict_set d K_Count (OInt c)) K_Parent = dict_get d K_Parent.
Proof. apply FilterProofsDict.dict_get_set_other. intro H; discriminate H. Qed.

(* the loop on a chain of pairwise different ancestors; [m1] may differ from [m] at dictionaries that are not on the
   rest of the chain (the ancestors already rewritten) *)
Definition agrees_off (m m1 : objmap) (l : list anc) : Prop :=
  forall x, lookup m1 x = lookup m x \/ ((exists d, lookup m x = Some (ODict d)) /\ ~ In x (map anc_id l)).

Lemma count_loop_chain_gen m : forall r l, anc_chain m r l ->
  forall m1 fuel, agrees_off m m1 l -> NoDup (map anc_id l) -> (length l < fuel)%nat ->
    count_loop fuel m1 r = (dec_all m1 l, LOk).
Proof.
  intros r l C. induction C as [|id Hn|id d rest L Hc C IH]; intros m1 fuel A ND Hf.
  - destruct fuel; reflexivity.
  - destruct fuel as [|k]; [cbn in Hf; lia|]. cbn [count_loop dec_all fold_left].
    destruct (A id) as [E|[[d0 E0] _]]; [|exfalso; exact (Hn d0 E0)].
    rewrite E. destruct (lookup m id) as [[| | | | | | |d0| |]|] eqn:E1; try reflexivity.
    exfalso. exact (Hn d0 eq_refl).
  - destruct fuel as [|k]; [cbn in Hf; lia|]. cbn [count_loop dec_all fold_left].
    cbn [map anc_id fst] in ND. inversion ND as [|? ? Hnin ND']; subst.
    destruct (A id) as [E|[_ Hx]]; [|exfalso; apply Hx; left; reflexivity].
    rewrite E, L.
    assert (Next : forall m2, (forall x, x <> id -> lookup m2 x = lookup m1 x) ->
              count_loop k m2 (as_ref (dict_get d K_Parent)) = (dec_all m2 rest, LOk)).
    { intros m2 H2. apply IH; [|exact ND' | cbn [length] in Hf; lia].
      intro x. destruct (oid_eq_dec x id) as [->|Hne].
      - right. split; [exists d; exact L | exact Hnin].
      - rewrite H2 by exact Hne. destruct (A x) as [Ex|[Hd Hx]]; [left; exact Ex|].
        right. split; [exact Hd|]. intro Hin. apply Hx. right. exact Hin. }
    unfold count_of at 1. destruct (dict_get d K_Count) as [[| |c| | | | | | |]|] eqn:Ec;
      try (cbn [dec_one]; apply Next; intros; reflexivity).
    assert (Hmin : (c =? I64_MIN)%Z = false).
    { apply Z.eqb_neq. intro E1. apply Hc. unfold count_of. rewrite Ec, E1. reflexivity. }
    rewrite Hmin. cbn [dec_one]. rewrite parent_after_count. apply Next.
    intros x Hx. rewrite lookup_update. replace (oid_eqb id x) with false; [reflexivity|].
    symmetry. apply oid_eqb_neq. congruence.
Qed.

Theorem count_loop_chain m r l fuel :
  anc_chain m r l -> NoDup (map anc_id l) -> (length l < fuel)%nat ->
  count_loop fuel m r = (dec_all m l, LOk).
Proof. intros C ND Hf. apply (count_loop_chain_gen m r l C); [intro x; left; reflexivity | exact ND | exact Hf]. Qed.

(* the fuel delete_pages gives the loop (|objects| + 1) always suffices for such a chain *)
Lemma anc_chain_ids m r l : anc_chain m r l -> incl (map anc_id l) (map fst m).
Proof.
  induction 1 as [|id Hn|id d rest L Hc C IH]; cbn [map anc_id fst]; intros x Hx; try destruct Hx.
  - subst x. eapply lookup_has. exact L.
  - apply IH. exact H.
Qed.

Lemma anc_chain_fuel m r l : anc_chain m r l -> NoDup (map anc_id l) -> (length l < S (length m))%nat.
Proof.
  intros C ND. pose proof (NoDup_incl_length ND (anc_chain_ids m r l C)) as H. rewrite !map_length in H. lia.
Qed.

(* what dec_all does: each ancestor with an integer Count has it decremented by one, everything else is untouched *)
Lemma dec_all_other l : forall m x, ~ In x (map anc_id l) -> lookup (dec_all m l) x = lookup m x.
Proof.
  induction l as [|a l IH]; intros m x H; cbn [dec_all fold_left]; [reflexivity|].
  fold (dec_all (dec_one m a) l). rewrite IH by (intro Hin; apply H; right; exact Hin).
  apply lookup_dec_one_other. intro E. apply H. left. symmetry. exact E.
Qed.

Lemma dec_all_member l : forall m id d c, NoDup (map anc_id l) -> In (id, d, c) l -> lookup m id = Some (ODict d) ->
  lookup (dec_all m l) id =
  Some (ODict (match c with Some z => dict_set d K_Count (OInt (z - 1)) | None => d end)).
Proof.
  induction l as [|a l IH]; intros m id d c ND Hin L; [destruct Hin|].
  cbn [map] in ND. inversion ND as [|? ? Hn ND']; subst. cbn [dec_all fold_left]. fold (dec_all (dec_one m a) l).
  destruct Hin as [->|Hin].
  - rewrite dec_all_other by exact Hn. destruct c as [z|]; cbn [dec_one]; [|exact L].
    rewrite lookup_update, oid_eqb_refl, L. reflexivity.
  - apply IH; [exact ND' | exact Hin|].
    rewrite lookup_dec_one_other; [exact L|]. intro E. apply Hn. rewrite <- E.
    apply in_map_iff. exists (id, d, c). split; [reflexivity | exact Hin].
Qed.

(* ---------- delete_pages of one page number ---------- *)
Theorem delete_pages_one d n pid d1 pd l :
  assoc_N (get_pages d) n = Some pid ->
  delete_object d pid = Some (d1, Some (ODict pd)) ->
  anc_chain (d_objects d1) (as_ref (dict_get pd K_Parent)) l -> NoDup (map anc_id l) ->
  delete_pages d [n] = (with_objs d1 (dec_all (d_objects d1) l), LOk).
Proof.
  intros Ea Ed C ND. unfold delete_pages. cbn [delete_pages_loop]. rewrite Ea, Ed.
  rewrite (count_loop_chain (d_objects d1) _ l _ C ND (anc_chain_fuel _ _ _ C ND)). reflexivity.
Qed.

(* ---------- a concrete instance (non-vacuity): page 1 of Proofs/EditProofsEx.v's document ---------- *)
From LV Require Import Proofs.EditProofsEx.

Lemma count_example :
  exists d1 pd l,
    assoc_N (get_pages ex_doc) 1 = Some (3, 0)%N /\
    delete_object ex_doc (3, 0)%N = Some (d1, Some (ODict pd)) /\
    anc_chain (d_objects d1) (as_ref (dict_get pd K_Parent)) l /\ NoDup (map anc_id l) /\
    map anc_id l = [(2, 0)%N] /\
    page_iter (fst (delete_pages ex_doc [1%N])) = [(4, 0)%N] /\
    option_map (fun o => match o with ODict nd => dict_get nd K_Count | _ => None end)
               (lookup (d_objects (fst (delete_pages ex_doc [1%N]))) (2, 0)%N) = Some (Some (OInt 1)).
Proof.
  eexists. eexists. eexists.
  split; [vm_compute; reflexivity|].
  split; [vm_compute; reflexivity|].
  split.
  { cbn [dict_get bytes_eqb K_Parent K_Type K_Contents as_ref]. 
    eapply (ac_cons _ (2, 0)%N); [vm_compute; reflexivity | vm_compute; discriminate|].
    vm_compute. apply ac_none. }
  split; [cbn; repeat constructor; intros []|].
  split; [reflexivity|].
  split; vm_compute; reflexivity.
Qed.
