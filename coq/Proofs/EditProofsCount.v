(* EditProofsCount.v -- C11, part 7 (partial I_count): the Count bookkeeping of delete_pages.
   [count_loop] walks the Parent chain of the deleted page; on a chain of pairwise different dictionary objects it
   terminates within |objects| + 1 rounds (never the "hang" outcome), decrements the integer Count of EVERY ancestor by
   exactly one (checked i64 subtraction: a Count of i64::MIN is the panic outcome and is excluded), leaves ancestors
   without an integer Count alone, and changes nothing else.  delete_pages([n]) is delete_object(page n) followed by
   exactly that.
   MISSING for the full I_count ("every Pages node's Count = number of leaves below it, page list = old list minus the
   deleted numbers"): the tree-level composition -- that delete_object reaches every node of a well-formed page tree (so
   the page's reference leaves its parent's Kids) and that [represents] (C12) is preserved; decided on the implementation
   by the harness ([tree_wf] before and after every delete_pages). *)
From LV Require Import Base.Bytes Model.Obj Model.DocQ Model.PageTree Model.Traverse Model.Edit Gen.Consts
  Proofs.RenumberProofsMap Proofs.EditProofs Proofs.EditProofsRes Proofs.EditProofsContent.
From LV Require Proofs.FilterProofsDict.

(* one ancestor: its id, its dictionary, its Count when that is an integer (possibly an indirect object) *)
Definition anc := (oid * dict * option Z)%type.
Definition anc_id (a : anc) : oid := fst (fst a).

(* the Count entry when it is an integer in the dictionary itself *)
Definition count_of (d : dict) : option Z := match dict_get d K_Count with Some (OInt c) => Some c | _ => None end.
Definition count_direct (d : dict) : Prop := forall i g, dict_get d K_Count <> Some (ORef i g).

Lemma read_count_direct m d : count_direct d -> read_count m d = count_of d.
Proof.
  unfold count_direct, read_count, count_of. intro H. destruct (dict_get d K_Count) as [c|]; [|reflexivity].
  destruct c as [| | | | | | | | |i g]; try (rewrite dereference_nonref by exact I; reflexivity).
  exfalso. exact (H i g eq_refl).
Qed.

(* the chain the loop follows from [r] in the map [m]; the Count of an ancestor is read through references ([read_count]) *)
Inductive ref_chain (m : objmap) : option oid -> list anc -> Prop :=
| rc_none : ref_chain m None []
| rc_stop id : (forall d, lookup m id <> Some (ODict d)) -> ref_chain m (Some id) []
| rc_cons id d rest :
    lookup m id = Some (ODict d) -> read_count m d <> Some I64_MIN ->
    ref_chain m (as_ref (dict_get d K_Parent)) rest ->
    ref_chain m (Some id) ((id, d, read_count m d) :: rest).

Definition dec_one (m : objmap) (a : anc) : objmap :=
  match a with
  | (id, d, Some c) => update m id (ODict (dict_set d K_Count (OInt (c - 1))))
  | (_, _, None) => m
  end.
Definition dec_all (m : objmap) (l : list anc) : objmap := fold_left dec_one l m.

Lemma lookup_dec_one_other m a x : x <> anc_id a -> lookup (dec_one m a) x = lookup m x.
Proof.
  destruct a as [[id d] [c|]]; cbn [dec_one anc_id fst]; intro H; [|reflexivity].
  rewrite lookup_update. replace (oid_eqb id x) with false; [reflexivity|]. symmetry. apply oid_eqb_neq. congruence.
Qed.

Lemma count_of_some d c : count_of d = Some c -> dict_get d K_Count = Some (OInt c).
Proof. unfold count_of. destruct (dict_get d K_Count) as [[| |z| | | | | | |]|]; try discriminate. intro H; inversion H; reflexivity. Qed.

Lemma parent_after_count d c : dict_get (dict_set d K_Count (OInt c)) K_Parent = dict_get d K_Parent.
Proof. apply FilterProofsDict.dict_get_set_other. intro H; discriminate H. Qed.

(* the loop on a chain of pairwise different ancestors; [m1] may differ from [m] at dictionaries -- still dictionaries in m1 --
   that are not on the rest of the chain (the ancestors already rewritten) *)
Definition agrees_off (m m1 : objmap) (l : list anc) : Prop :=
  forall x, lookup m1 x = lookup m x \/
            ((exists d, lookup m x = Some (ODict d)) /\ (exists d1, lookup m1 x = Some (ODict d1)) /\ ~ In x (map anc_id l)).

(* a reference chain that ends at an integer meets no dictionary object: it reads the same in both maps *)
Definition int_result (x : option (option oid * obj)) : option Z := match x with Some (_, OInt n) => Some n | _ => None end.

Lemma deref_aux_int_agrees m m1 l : agrees_off m m1 l ->
  forall f last o, int_result (deref_aux m1 f last o) = int_result (deref_aux m f last o).
Proof.
  intro A. induction f as [|f IH]; intros last o; destruct o as [| | | | | | | | |i g]; cbn [deref_aux]; try reflexivity.
  - destruct (A (i, g)) as [E|[[d E] [[d1 E1] _]]]; [rewrite E; reflexivity|]. rewrite E, E1. reflexivity.
  - destruct (A (i, g)) as [E|[[d E] [[d1 E1] _]]].
    + rewrite E. destruct (lookup m (i, g)); [apply IH | reflexivity].
    + rewrite E, E1, !deref_aux_dict. reflexivity.
Qed.

Lemma read_count_agrees m m1 l d : agrees_off m m1 l -> read_count m1 d = read_count m d.
Proof.
  intro A. unfold read_count. destruct (dict_get d K_Count) as [c|]; [|reflexivity].
  pose proof (deref_aux_int_agrees m m1 l A (N.to_nat DEREF_LIMIT) None c) as H. unfold dereference, int_result in *.
  destruct (deref_aux m1 _ None c) as [[r1 y1]|]; destruct (deref_aux m _ None c) as [[r y]|].
  - destruct y1; destruct y; try reflexivity; try discriminate; exact H.
  - destruct y1; try reflexivity; discriminate.
  - destruct y; try reflexivity; discriminate.
  - reflexivity.
Qed.

Lemma count_loop_chain_gen m : forall r l, ref_chain m r l ->
  forall m1 fuel, agrees_off m m1 l -> NoDup (map anc_id l) -> (length l < fuel)%nat ->
    count_loop fuel m1 r = (dec_all m1 l, LOk).
Proof.
  intros r l C. induction C as [|id Hn|id d rest L Hc C IH]; intros m1 fuel A ND Hf.
  - destruct fuel; reflexivity.
  - destruct fuel as [|k]; [cbn in Hf; lia|]. cbn [count_loop dec_all fold_left].
    destruct (A id) as [E|[[d0 E0] _]]; [|exfalso; exact (Hn d0 E0)].
    rewrite E. destruct (lookup m id) as [[| | | | | | |d0| |]|] eqn:E1; try reflexivity.
    exfalso. exact (Hn d0 eq_refl).
  - destruct fuel as [|k]; [cbn in Hf; lia|]. cbn [count_loop dec_all fold_left].
    cbn [map anc_id fst] in ND. inversion ND as [|? ? Hnin ND']; subst.
    destruct (A id) as [E|[_ [_ Hx]]]; [|exfalso; apply Hx; left; reflexivity].
    rewrite E, L.
    assert (Next : forall m2, (forall x, x <> id -> lookup m2 x = lookup m1 x) -> (exists d2, lookup m2 id = Some (ODict d2)) ->
              count_loop k m2 (as_ref (dict_get d K_Parent)) = (dec_all m2 rest, LOk)).
    { intros m2 H2 H2d. apply IH; [|exact ND' | cbn [length] in Hf; lia].
      intro x. destruct (oid_eq_dec x id) as [->|Hne].
      - right. split; [exists d; exact L | split; [exact H2d | exact Hnin]].
      - rewrite H2 by exact Hne. destruct (A x) as [Ex|[Hd [Hd1 Hx]]]; [left; exact Ex|].
        right. split; [exact Hd|]. split; [exact Hd1|]. intro Hin. apply Hx. right. exact Hin. }
    rewrite (read_count_agrees m m1 _ d A).
    destruct (read_count m d) as [c|] eqn:Ec.
    + assert (Hmin : (c =? I64_MIN)%Z = false).
      { apply Z.eqb_neq. intro E1. apply Hc. rewrite E1. reflexivity. }
      rewrite Hmin. cbn [dec_one]. rewrite parent_after_count. apply Next.
      * intros x Hx. rewrite lookup_update. replace (oid_eqb id x) with false; [reflexivity|].
        symmetry. apply oid_eqb_neq. congruence.
      * eexists. rewrite lookup_update, oid_eqb_refl, E, L. reflexivity.
    + cbn [dec_one]. apply Next; [intros; reflexivity | exists d; rewrite E; exact L].
Qed.

Theorem count_loop_ref_chain m r l fuel :
  ref_chain m r l -> NoDup (map anc_id l) -> (length l < fuel)%nat ->
  count_loop fuel m r = (dec_all m l, LOk).
Proof. intros C ND Hf. apply (count_loop_chain_gen m r l C); [intro x; left; reflexivity | exact ND | exact Hf]. Qed.

(* ---- ancestors whose Count is in the dictionary itself (the layout of Spec/PageTreeEdit.v; the tree-level proofs) ---- *)
Inductive anc_chain (m : objmap) : option oid -> list anc -> Prop :=
| ac_none : anc_chain m None []
| ac_stop id : (forall d, lookup m id <> Some (ODict d)) -> anc_chain m (Some id) []
| ac_cons id d rest :
    lookup m id = Some (ODict d) -> count_direct d -> count_of d <> Some I64_MIN ->
    anc_chain m (as_ref (dict_get d K_Parent)) rest ->
    anc_chain m (Some id) ((id, d, count_of d) :: rest).

Lemma anc_chain_ref_chain m r l : anc_chain m r l -> ref_chain m r l.
Proof.
  induction 1 as [|id Hn|id d rest L Hd Hc C IH]; [constructor | constructor; exact Hn|].
  rewrite <- (read_count_direct m d Hd). constructor; [exact L | rewrite (read_count_direct m d Hd); exact Hc | exact IH].
Qed.

Theorem count_loop_chain m r l fuel :
  anc_chain m r l -> NoDup (map anc_id l) -> (length l < fuel)%nat ->
  count_loop fuel m r = (dec_all m l, LOk).
Proof. intros C. apply count_loop_ref_chain. apply anc_chain_ref_chain. exact C. Qed.

(* the fuel delete_pages gives the loop (|objects| + 1) always suffices for such a chain *)
Lemma ref_chain_ids m r l : ref_chain m r l -> incl (map anc_id l) (map fst m).
Proof.
  induction 1 as [|id Hn|id d rest L Hc C IH]; cbn [map anc_id fst]; intros x Hx; try destruct Hx.
  - subst x. eapply lookup_has. exact L.
  - apply IH. exact H.
Qed.

Lemma ref_chain_fuel m r l : ref_chain m r l -> NoDup (map anc_id l) -> (length l < S (length m))%nat.
Proof.
  intros C ND. pose proof (NoDup_incl_length ND (ref_chain_ids m r l C)) as H. rewrite !map_length in H. lia.
Qed.

Lemma anc_chain_fuel m r l : anc_chain m r l -> NoDup (map anc_id l) -> (length l < S (length m))%nat.
Proof. intro C. apply ref_chain_fuel with r. apply anc_chain_ref_chain. exact C. Qed.

(* what dec_all does: each ancestor with an integer Count has it decremented by one, everything else is untouched *)
Lemma dec_all_other l : forall m x, ~ In x (map anc_id l) -> lookup (dec_all m l) x = lookup m x.
Proof.
  induction l as [|a l IH]; intros m x H; cbn [dec_all fold_left]; [reflexivity|].
  fold (dec_all (dec_one m a) l). rewrite IH by (intro Hin; apply H; right; exact Hin).
  apply lookup_dec_one_other. intro E. apply H. left. symmetry. exact E.
Qed.

Lemma dec_all_member l : forall m id d c, NoDup (map anc_id l) -> In (id, d, c) l -> lookup m id = Some (ODict d) ->
  lookup (dec_all m l) id =
  Some (ODict (match c with Some z => dict_set d K_Count (OInt (z - 1)) | None => d end)).
Proof.
  induction l as [|a l IH]; intros m id d c ND Hin L; [destruct Hin|].
  cbn [map] in ND. inversion ND as [|? ? Hn ND']; subst. cbn [dec_all fold_left]. fold (dec_all (dec_one m a) l).
  destruct Hin as [->|Hin].
  - rewrite dec_all_other by exact Hn. destruct c as [z|]; cbn [dec_one]; [|exact L].
    rewrite lookup_update, oid_eqb_refl, L. reflexivity.
  - apply IH; [exact ND' | exact Hin|].
    rewrite lookup_dec_one_other; [exact L|]. intro E. apply Hn. rewrite <- E.
    apply in_map_iff. exists (id, d, c). split; [reflexivity | exact Hin].
Qed.

(* ---------- delete_pages of one page number ---------- *)
(* [page]: the object stored under the page id -- the page dictionary, or a reference object that leads to it *)
Theorem delete_pages_one d n pid d1 page rp pd l :
  assoc_N (get_pages d) n = Some pid ->
  delete_object d pid = Some (d1, Some page) ->
  dereference (d_objects d1) page = Some (rp, ODict pd) ->
  ref_chain (d_objects d1) (as_ref (dict_get pd K_Parent)) l -> NoDup (map anc_id l) ->
  delete_pages d [n] = (with_objs d1 (dec_all (d_objects d1) l), LOk).
Proof.
  intros Ea Ed Dp C ND. unfold delete_pages. cbn [delete_pages_loop]. rewrite Ea, Ed, Dp.
  rewrite (count_loop_ref_chain (d_objects d1) _ l _ C ND (ref_chain_fuel _ _ _ C ND)). reflexivity.
Qed.

(* ---------- a concrete instance (non-vacuity): page 1 of Proofs/EditProofsEx.v's document ---------- *)
From LV Require Import Proofs.EditProofsEx.

Lemma count_example :
  exists d1 pd l,
    assoc_N (get_pages ex_doc) 1 = Some (3, 0)%N /\
    delete_object ex_doc (3, 0)%N = Some (d1, Some (ODict pd)) /\
    ref_chain (d_objects d1) (as_ref (dict_get pd K_Parent)) l /\ NoDup (map anc_id l) /\
    map anc_id l = [(2, 0)%N] /\
    page_iter (fst (delete_pages ex_doc [1%N])) = [(4, 0)%N] /\
    option_map (fun o => match o with ODict nd => dict_get nd K_Count | _ => None end)
               (lookup (d_objects (fst (delete_pages ex_doc [1%N]))) (2, 0)%N) = Some (Some (OInt 1)).
Proof.
  eexists. eexists. eexists.
  split; [vm_compute; reflexivity|].
  split; [vm_compute; reflexivity|].
  split.
  { cbn [dict_get bytes_eqb K_Parent K_Type K_Contents as_ref].
    eapply (rc_cons _ (2, 0)%N); [vm_compute; reflexivity | vm_compute; discriminate|].
    vm_compute. apply rc_none. }
  split; [cbn; repeat constructor; intros []|].
  split; [reflexivity|].
  split; vm_compute; reflexivity.
Qed.

(* ---------- the two repaired shapes (ISO 32000-1 7.3.10: any value may be an indirect object) ---------- *)
From LV Require Import Model.EditV0.

(* what the Count entry of the Pages node 2 leads to, and the page list *)
Definition count_at (d : doc) : option Z :=
  match lookup (d_objects d) (2, 0)%N with Some (ODict nd) => read_count (d_objects d) nd | _ => None end.

(* C11-count-indirect: the Count of the Pages node 2 is the indirect object 9 *)
Definition ex_doc_cind : doc :=
  {| d_version := d_version ex_doc; d_binary_mark := []; d_trailer := d_trailer ex_doc;
     d_objects :=
       [((1, 0), ODict [(K_Type, OName K_Catalog); (K_Pages, ORef 2 0)]);
        ((2, 0), ODict [(K_Type, OName K_Pages); (K_Kids, OArr [ORef 3 0; ORef 4 0]); (K_Count, ORef 9 0)]);
        ((3, 0), ODict [(K_Type, OName K_Page); (K_Parent, ORef 2 0)]);
        ((4, 0), ODict [(K_Type, OName K_Page); (K_Parent, ORef 2 0)]);
        ((9, 0), OInt 2)]%N;
     d_max_id := 9 |}.

(* C11-page-reference-object: page 3 is the reference object 3 0 obj 8 0 R, the page dictionary is object 8 *)
Definition ex_doc_pref : doc :=
  {| d_version := d_version ex_doc; d_binary_mark := []; d_trailer := d_trailer ex_doc;
     d_objects :=
       [((1, 0), ODict [(K_Type, OName K_Catalog); (K_Pages, ORef 2 0)]);
        ((2, 0), ODict [(K_Type, OName K_Pages); (K_Kids, OArr [ORef 3 0; ORef 4 0]); (K_Count, OInt 2)]);
        ((3, 0), ORef 8 0);
        ((4, 0), ODict [(K_Type, OName K_Page); (K_Parent, ORef 2 0)]);
        ((8, 0), ODict [(K_Type, OName K_Page); (K_Parent, ORef 2 0)])]%N;
     d_max_id := 8 |}.

(* before the repairs: one page is left, the Count still says 2 *)
Theorem count_indirect_v0_witness :
  page_iter ex_doc_cind = [(3, 0); (4, 0)]%N /\ count_at ex_doc_cind = Some 2%Z /\
  exists d', delete_pages_v0 ex_doc_cind [1%N] = (d', LOk) /\ page_iter d' = [(4, 0)%N] /\ count_at d' = Some 2%Z.
Proof. split; [vm_compute; reflexivity|]. split; [vm_compute; reflexivity|]. eexists. repeat split; vm_compute; reflexivity. Qed.

Theorem page_reference_v0_witness :
  page_iter ex_doc_pref = [(3, 0); (4, 0)]%N /\ count_at ex_doc_pref = Some 2%Z /\
  exists d', delete_pages_v0 ex_doc_pref [1%N] = (d', LOk) /\ page_iter d' = [(4, 0)%N] /\ count_at d' = Some 2%Z.
Proof. split; [vm_compute; reflexivity|]. split; [vm_compute; reflexivity|]. eexists. repeat split; vm_compute; reflexivity. Qed.

(* the repaired code on the same documents: the Count is the number of pages left (an indirect Count entry becomes the number) *)
Theorem count_repaired_examples :
  (exists d', delete_pages ex_doc_cind [1%N] = (d', LOk) /\ page_iter d' = [(4, 0)%N] /\ count_at d' = Some 1%Z /\
              lookup (d_objects d') (2, 0)%N =
                Some (ODict [(K_Type, OName K_Pages); (K_Kids, OArr [ORef 4 0]); (K_Count, OInt 1)])) /\
  (exists d', delete_pages ex_doc_pref [1%N] = (d', LOk) /\ page_iter d' = [(4, 0)%N] /\ count_at d' = Some 1%Z).
Proof. split; eexists; repeat split; vm_compute; reflexivity. Qed.

(* the two repaired shapes at once: page 3 is the reference object 3 0 obj 8 0 R (the page dictionary is object 8), and the
   Count of the Pages node 2 is the indirect object 9.  Before the repairs (Model/EditV0.v) the Count stayed 2 with one page
   left; now the entry becomes the direct integer 1 *)
Definition K_Pages' := Eval cbv in bs "Pages".
Definition ex_doc_refs : doc :=
  {| d_version := d_version ex_doc; d_binary_mark := []; d_trailer := d_trailer ex_doc;
     d_objects :=
       [((1, 0), ODict [(K_Type, OName K_Catalog); (K_Pages, ORef 2 0)]);
        ((2, 0), ODict [(K_Type, OName K_Pages); (K_Kids, OArr [ORef 3 0; ORef 4 0]); (K_Count, ORef 9 0)]);
        ((3, 0), ORef 8 0);
        ((4, 0), ODict [(K_Type, OName K_Page); (K_Parent, ORef 2 0)]);
        ((8, 0), ODict [(K_Type, OName K_Page); (K_Parent, ORef 2 0)]);
        ((9, 0), OInt 2)]%N;
     d_max_id := 9 |}.

Lemma count_refs_example :
  page_iter ex_doc_refs = [(3, 0); (4, 0)]%N /\
  exists d1 pd l,
    delete_object ex_doc_refs (3, 0)%N = Some (d1, Some (ORef 8 0)) /\
    dereference (d_objects d1) (ORef 8 0) = Some (Some (8, 0)%N, ODict pd) /\
    ref_chain (d_objects d1) (as_ref (dict_get pd K_Parent)) l /\ map anc_id l = [(2, 0)%N] /\ map snd l = [Some 2%Z] /\
    page_iter (fst (delete_pages ex_doc_refs [1%N])) = [(4, 0)%N] /\
    option_map (fun o => match o with ODict nd => dict_get nd K_Count | _ => None end)
               (lookup (d_objects (fst (delete_pages ex_doc_refs [1%N]))) (2, 0)%N) = Some (Some (OInt 1)).
Proof.
  split; [vm_compute; reflexivity|].
  eexists. eexists. eexists.
  split; [vm_compute; reflexivity|].
  split; [vm_compute; reflexivity|].
  split.
  { cbn [dict_get bytes_eqb K_Parent K_Type as_ref].
    eapply (rc_cons _ (2, 0)%N); [vm_compute; reflexivity | vm_compute; discriminate|].
    vm_compute. apply rc_none. }
  split; [reflexivity|]. split; [vm_compute; reflexivity|].
  split; vm_compute; reflexivity.
Qed.
