(* SinkSaveProofs.v -- C19 instantiated at the save model of Model/Save.v (property C01's model of
   the bytes): the theorems of SinkProofs hold for ANY list of write_all buffers, in particular for
   every way of cutting `so_bytes (save xt d)` into calls.  No axioms. *)
From LV Require Import Base.Bytes Model.Obj Model.Sink Model.SaveState Proofs.SinkProofs Proofs.SaveStateProofs.
From LV Require Model.Save.

Local Open Scope N_scope.

Section AtSave.
  Variable xt : Save.xref_type.
  Variable d : doc.
  Let out := Save.so_bytes (Save.save xt d).

  (* whatever buffers the implementation's write!/write_all sites cut the output into *)
  Variable calls : list bytes.
  Hypothesis calls_ok : concat calls = out.

  Theorem save_chunking_irrelevant s :
    no_hard s -> run write_all calls s = (WOk, out, N.of_nat (length out)).
  Proof. intro H. rewrite <- calls_ok. apply chunking_irrelevant. exact H. Qed.

  Theorem save_ok_iff_complete s :
    let '(r, dl, _) := run write_all calls s in
    dl = firstn (length dl) out /\ (r = WOk <-> dl = out).
  Proof. rewrite <- calls_ok. apply ok_iff_complete. Qed.

  Theorem save_failure_at_position sf h rest e :
    no_hard sf -> hard_kind h = Some e ->
    rd (run qwrite_all calls (sf ++ h :: rest)) =
    if (quota sf <? N.of_nat (length out)) then (WErr e, firstn (N.to_nat (quota sf)) out) else (WOk, out).
  Proof. intros H1 H2. rewrite <- calls_ok. apply positional_failure_at; assumption. Qed.

  Theorem save_offsets_exact s i n :
    counter_before calls s i = Some n ->
    n = N.of_nat (length (concat (firstn i calls))) /\
    exists rest, out = concat (firstn i calls) ++ rest.
  Proof.
    intro H. destruct (counter_exact _ _ _ _ H) as [Hn _]. split; [exact Hn|].
    exists (concat (skipn i calls)). rewrite <- calls_ok, <- concat_app, firstn_skipn. reflexivity.
  Qed.
End AtSave.

(* the state model of SaveState.v agrees with the document Save.save returns *)
Definition state_of (d : doc) : sstate := {| s_max_id := d_max_id d; s_trailer := d_trailer d |}.

(* Save.raise_max_id (the first statement of save_internal since /repo 19ab1a6) is SaveState.raise_max_id *)
Definition top_of (d : doc) : option N := Some (Save.last_object_number (d_objects d)).
Lemma state_of_raise d : state_of (Save.raise_max_id d) = raise_max_id (top_of d) (state_of d).
Proof. reflexivity. Qed.

Lemma save_core_table_state d :
  Save.so_status (Save.save_core Save.XTable d) = Save.SaveOk ->
  state_of (Save.so_doc (Save.save_core Save.XTable d)) = mutate_table (state_of d).
Proof.
  unfold Save.save_core. destruct (Save.u32_top <=? d_max_id d); [discriminate|].
  destruct (negb (Save.binary_mark_ok (d_binary_mark d))); [discriminate|].
  destruct (Save.save_body d) as [[body xs] x]. intros _. reflexivity.
Qed.

Lemma save_table_state d :
  Save.so_status (Save.save Save.XTable d) = Save.SaveOk ->
  state_of (Save.so_doc (Save.save Save.XTable d)) = mutate_table (raise_max_id (top_of d) (state_of d)).
Proof. unfold Save.save. intro H. rewrite (save_core_table_state _ H), state_of_raise. reflexivity. Qed.

Lemma save_core_stream_max_id d ids :
  Save.so_status (Save.save_core Save.XStream d) = Save.SaveOk ->
  s_max_id (state_of (Save.so_doc (Save.save_core Save.XStream d))) = s_max_id (mutate_stream ids (state_of d)).
Proof.
  unfold Save.save_core. destruct (Save.u32_top <=? d_max_id d); [discriminate|].
  destruct (negb (Save.binary_mark_ok (d_binary_mark d))); [discriminate|].
  destruct (Save.save_body d) as [[body xs] x].
  destruct (Save.u32_top <=? d_max_id d + 1); [discriminate|].
  destruct (Save.xstream_parts d x (xs mod Save.u32_mod)) as [[t c] x']. intros _. reflexivity.
Qed.

Lemma save_stream_max_id d ids :
  Save.so_status (Save.save Save.XStream d) = Save.SaveOk ->
  s_max_id (state_of (Save.so_doc (Save.save Save.XStream d))) =
  s_max_id (mutate_stream ids (raise_max_id (top_of d) (state_of d))).
Proof. unfold Save.save. intro H. rewrite (save_core_stream_max_id _ ids H), state_of_raise. reflexivity. Qed.
