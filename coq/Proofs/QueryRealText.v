(* QueryRealText.v -- C13 composed with C04 / C09 / C15 / C16, part 3: the text stage of extract_text(_chunks).
   Model/Query.v takes "Content::decode + the Tf / Tj / TJ / ET loop + decode_text" as [text_of], any function that
   returns.  [text_of_real] is that stage from lopdf's models, every component able to answer Panic / OutOfFuel:
     * Dictionary::get_encoding_from_to_unicode_cmap = Stream::get_plain_content (the real filter chain of
       QueryRealFilt.v / QueryReal.v) then ToUnicodeCMap::parse (Model/CMapParser.v [cmap_stream], its fuel: C15 /
       Proofs/CMapParserProofs.v [cmap_stream_fuel]; then lopdf's own [from_sections], Model/CMap.v);
     * Content::decode = Model/Parser.v [decode_content] (C14's grammar model; DecPanic / DecOut excluded by
       C04_content_no_panic / C04_content_terminates, fuel |content| + 2);
     * the operation loop and collect_text written from src/parser_aux.rs (same shape as Model/TextExtract.v, but over
       encodings that CARRY the parsed CMap);
     * Document::decode_text: the one-byte tables ([OneByte.bytes_to_string], whose `expect` is a Panic of the value
       model) and the ToUnicode loop ([CMap.bytes_to_string]), each with C04's site-explicit model beside it
       ([SafeText.sbytes_to_string]: table index + expect; [SafeText.scmap_text]: `(code_len - 1)`, the index into the
       four maps, `code - first_code`, the u8 counter, `code * 256 + byte`).
   [text_of_real_returns]: on every content and every list of encodings get_font_encoding can hand over, the stage
   answers a value or an error.
   Third-party code left as functions (= assumed to return): flate2 / weezl ([inflate], [lzw]); encoding_rs' UTF_16BE.decode
   for the two UniGB encodings ([utf16be_bom]); nom on a CMap whose CIDSystemInfo dictionary needs the object parser
   ([other_sections]: the corner Model/CMapParser.v answers PUnmodelled for; what it returns goes through the real
   [from_sections]).  encoding_rs' decode_without_bom_handling is the Gallina [CMap.utf16be_decode]. *)
From LV Require Import Base.Bytes Model.Obj Model.DocQ Model.PageTree Model.Utf Model.Query Gen.Consts Gen.Tables
  Proofs.QueryProofs Proofs.QueryProofsWalk Proofs.QueryReal.
From LV Require Model.A85 Model.StreamFilt Model.Writer Model.Parser Model.OneByte Model.TextExtract Model.RangeMap
  Model.CMap Model.CMapParser Model.Safe Model.SafeText
  Proofs.QueryRealFilt Proofs.SafeLemmas Proofs.SafeTextProofs Proofs.SafeContentProofs Proofs.SafeParserFuel
  Proofs.CMapParserProofs Proofs.TextProofsUtf.
From Coq Require Import Lia ZArith List.
Import ListNotations.

(* ---------------------------------------------------------------------------------------------- *)
(* 1. C04's text models never answer SFuel (they have no fuel: structural recursion)                 *)
(* ---------------------------------------------------------------------------------------------- *)

Lemma term_ret {A} (a : A) : Safe.terminates (Safe.ret a). Proof. cbv [Safe.terminates Safe.outcome Safe.ret fst]. discriminate. Qed.
Lemma term_fail {A} : Safe.terminates (@Safe.fail A). Proof. cbv [Safe.terminates Safe.outcome Safe.fail fst]. discriminate. Qed.
Lemma term_panic {A} r : Safe.terminates (@Safe.panic A r). Proof. cbv [Safe.terminates Safe.outcome Safe.panic fst]. discriminate. Qed.
Lemma term_tick n : Safe.terminates (Safe.tick n). Proof. cbv [Safe.terminates Safe.outcome Safe.tick fst]. discriminate. Qed.
Lemma term_request n : Safe.terminates (Safe.request n). Proof. cbv [Safe.terminates Safe.outcome Safe.request fst]. discriminate. Qed.
Lemma term_ck_sub a b : Safe.terminates (Safe.ck_sub a b).
Proof. unfold Safe.ck_sub. destruct (N.leb b a); [apply term_ret | apply term_panic]. Qed.
Lemma term_ck_add m a b : Safe.terminates (Safe.ck_add m a b).
Proof. unfold Safe.ck_add. destruct (N.leb _ _); [apply term_ret | apply term_panic]. Qed.
Lemma term_ck_mul m a b : Safe.terminates (Safe.ck_mul m a b).
Proof. unfold Safe.ck_mul. destruct (N.leb _ _); [apply term_ret | apply term_panic]. Qed.
Lemma term_idx {A} (l : list A) i : Safe.terminates (Safe.idx l i).
Proof. unfold Safe.idx. destruct (nth_error _ _); [apply term_ret | apply term_panic]. Qed.
Lemma term_unwrap {A} (o : option A) : Safe.terminates (Safe.unwrap o).
Proof. destruct o; [apply term_ret | apply term_panic]. Qed.

Ltac term :=
  repeat match goal with
  | |- Safe.terminates (Safe.bind _ _) => apply SafeLemmas.terminates_bind; [|intros ? _]
  | |- Safe.terminates (Safe.ret _) => apply term_ret
  | |- Safe.terminates Safe.fail => apply term_fail
  | |- Safe.terminates (Safe.tick _) => apply term_tick
  | |- Safe.terminates (Safe.request _) => apply term_request
  | |- Safe.terminates (Safe.ck_sub _ _) => apply term_ck_sub
  | |- Safe.terminates (Safe.ck_add _ _ _) => apply term_ck_add
  | |- Safe.terminates (Safe.ck_mul _ _ _) => apply term_ck_mul
  | |- Safe.terminates (Safe.idx _ _) => apply term_idx
  | |- Safe.terminates (Safe.unwrap _) => apply term_unwrap
  | |- Safe.terminates (match ?x with _ => _ end) => destruct x
  end.

Lemma sbytes_to_units_term t bs : Safe.terminates (SafeText.sbytes_to_units t bs).
Proof.
  induction bs as [|b bs IH]; cbn [SafeText.sbytes_to_units]; [apply term_ret|].
  apply SafeLemmas.terminates_bind; [apply term_idx|]. intros c _.
  apply SafeLemmas.terminates_bind; [exact IH|]. intros r _. apply term_ret.
Qed.

Lemma sbytes_to_string_term t bs : Safe.terminates (SafeText.sbytes_to_string t bs).
Proof.
  unfold SafeText.sbytes_to_string.
  apply SafeLemmas.terminates_bind; [apply term_tick|]. intros _ _.
  apply SafeLemmas.terminates_bind; [apply sbytes_to_units_term|]. intros us _. term.
Qed.

Lemma sget_term cm code len : Safe.terminates (SafeText.sget cm code len).
Proof. unfold SafeText.sget, SafeText.ssel. term. Qed.

Lemma sgorc_term cm code len : Safe.terminates (SafeText.sgorc cm code len).
Proof. unfold SafeText.sgorc. apply SafeLemmas.terminates_bind; [apply sget_term|]. intros g _. term. Qed.

Lemma sunits_loop_term cm bs : forall n code outlen, Safe.terminates (SafeText.sunits_loop cm bs n code outlen).
Proof.
  induction bs as [|b bs IH]; intros n code outlen; cbn [SafeText.sunits_loop].
  - destruct (N.ltb 0 n); [|apply term_ret].
    apply SafeLemmas.terminates_bind; [apply sgorc_term|]. intros v _. term.
  - apply SafeLemmas.terminates_bind; [apply term_tick|]. intros _ _.
    apply SafeLemmas.terminates_bind.
    { destruct (N.eqb n 4); [|apply term_ret].
      apply SafeLemmas.terminates_bind; [apply sgorc_term|]. intros v _. term. }
    intros [[n0 c0] o0] _.
    apply SafeLemmas.terminates_bind; [apply term_ck_add|]. intros n1 _.
    apply SafeLemmas.terminates_bind; [apply term_ck_mul|]. intros c256 _.
    apply SafeLemmas.terminates_bind; [apply term_ck_add|]. intros c1 _.
    apply SafeLemmas.terminates_bind; [apply sget_term|]. intros g _.
    destruct g as [v|]; [|apply IH].
    apply SafeLemmas.terminates_bind; [apply term_request|]. intros _ _. apply IH.
Qed.

Lemma scmap_text_term cm bs : Safe.terminates (SafeText.scmap_text cm bs).
Proof.
  unfold SafeText.scmap_text. apply SafeLemmas.terminates_bind; [apply sunits_loop_term|]. intros u _. term.
Qed.

(* ---------------------------------------------------------------------------------------------- *)
(* 2. the stage                                                                                      *)
(* ---------------------------------------------------------------------------------------------- *)

(* what C04's cost model of a call says about its panic sites (and fuel) *)
Definition text_site_check {A} (m : Safe.M A) : out unit :=
  match Safe.outcome m with
  | Safe.SPanic Safe.ROverflow => Panic POverflow
  | Safe.SPanic Safe.RIndex => Panic PIndex
  | Safe.SPanic Safe.RUnwrap => Panic PUnwrap
  | Safe.SPanic Safe.RCapacity => Panic PCapacity
  | Safe.SFuel => OutOfFuel
  | _ => Ok tt
  end.

Lemma text_site_check_ok {A} (m : Safe.M A) : Safe.no_panic m -> Safe.terminates m -> text_site_check m = Ok tt.
Proof.
  unfold Safe.no_panic, Safe.terminates, text_site_check.
  destruct (Safe.outcome m); cbn [Safe.is_panic]; intros; try reflexivity; congruence.
Qed.

(* enum Encoding with its payload *)
Inductive renc := ROne (t : list (option N)) | RSimple (n : bytes) | RCMap (cm : CMap.cmap).

Record tstate := { cur_enc : option renc; cur_text : ustring; rchunks : list (option ustring) }.

Section Loop.
  (* Document::decode_text *)
  Variable dec : renc -> bytes -> out ustring.

  (* collect_text: the text is extended in place, the status is the Result *)
  Fixpoint collect_obj (r : renc) (o : obj) (text : ustring) : ustring * out unit :=
    match o with
    | OStr b _ =>
      match dec r b with
      | Ok s => (text ++ s, Ok tt)
      | Err => (text, Err)
      | Panic p => (text, Panic p)
      | OutOfFuel => (text, OutOfFuel)
      end
    | OArr arr =>
      let '(t, e) :=
        (fix go (l : list obj) (text : ustring) : ustring * out unit :=
           match l with
           | [] => (text, Ok tt)
           | x :: l' =>
             let '(t1, e1) := collect_obj r x text in
             match e1 with Ok _ => go l' t1 | _ => (t1, e1) end
           end) arr text in
      match e with Ok _ => (t ++ [32%N], Ok tt) | _ => (t, e) end
    | OInt i => if (i <? TJ_SPACE_THRESHOLD)%Z then (text ++ [32%N], Ok tt) else (text, Ok tt)
    | _ => (text, Ok tt)
    end.

  Fixpoint collect_text (r : renc) (operands : list obj) (text : ustring) : ustring * out unit :=
    match operands with
    | [] => (text, Ok tt)
    | x :: l' =>
      let '(t1, e1) := collect_obj r x text in
      match e1 with Ok _ => collect_text r l' t1 | _ => (t1, e1) end
    end.

  (* one iteration of `for operation in &content.operations`; Err = the `?` in the Tf arm *)
  Definition step (encs : list (bytes * renc)) (s : tstate) (o : Writer.operation) : out tstate :=
    let operator := Writer.op_operator o in
    let operands := Writer.op_operands o in
    if bytes_eqb operator TextExtract.K_Tf then
      match operands with
      | [] => Err
      | f :: _ =>
        let '(enc, chunks1) :=
          match f with
          | OName font => (OneByte.assoc_bytes font encs, rchunks s)
          | _ => (None, None :: rchunks s)
          end in
        match cur_text s with
        | [] => Ok {| cur_enc := enc; cur_text := []; rchunks := chunks1 |}
        | t => Ok {| cur_enc := enc; cur_text := []; rchunks := Some t :: chunks1 |}
        end
      end
    else if bytes_eqb operator TextExtract.K_Tj || bytes_eqb operator TextExtract.K_TJ then
      match cur_enc s with
      | Some r =>
        match collect_text r operands (cur_text s) with
        | (t, Ok _) => Ok {| cur_enc := cur_enc s; cur_text := t; rchunks := rchunks s |}
        | (t, Err) => Ok {| cur_enc := cur_enc s; cur_text := t; rchunks := None :: rchunks s |}
        | (_, Panic p) => Panic p
        | (_, OutOfFuel) => OutOfFuel
        end
      | None => Ok s
      end
    else if bytes_eqb operator TextExtract.K_ET then
      if TextExtract.ends_with_nl (cur_text s) then Ok s
      else Ok {| cur_enc := cur_enc s; cur_text := cur_text s ++ [10%N]; rchunks := rchunks s |}
    else Ok s.

  Fixpoint run_ops (encs : list (bytes * renc)) (s : tstate) (ops : list Writer.operation) : out tstate :=
    match ops with
    | [] => Ok s
    | o :: ops' => obind' (step encs s o) (fun s' => run_ops encs s' ops')
    end.
End Loop.

Section RealText.
  Variable inflate : bytes -> bytes.            (* flate2 *)
  Variable lzw : bool -> bytes -> bytes.        (* weezl *)
  Variable utf16be_bom : bytes -> ustring.      (* encoding_rs: UTF_16BE.decode(bytes).0 *)
  (* nom on a CMap text for which Model/CMapParser.v answers PUnmodelled: the sections, or a parse error *)
  Variable other_sections : bytes -> option (list CMap.csection).

  (* Stream::get_plain_content *)
  Definition get_plain_real (sd : dict) (c : bytes) : out bytes :=
    match StreamFilt.filters sd with
    | A85.Ok (_ :: _) => decomp_real inflate lzw sd c
    | _ => Ok c
    end.

  (* ToUnicodeCMap::parse: the nom grammar, then lopdf's from_sections *)
  Definition sections_real (content : bytes) : out (list CMap.csection) :=
    match CMapParser.cmap_stream content with
    | CMapParser.POk secs _ => Ok secs
    | CMapParser.PErr | CMapParser.PFail => Err
    | CMapParser.PUnmodelled => of_opt (other_sections content)
    | CMapParser.POutOfFuel => OutOfFuel
    end.

  Definition parse_real (content : bytes) : out CMap.cmap :=
    obind' (sections_real content) (fun secs =>
      match CMap.from_sections secs with
      | CMap.FsOk cm => Ok cm
      | CMap.FsInvalidCodeRange => Err
      end).

  (* the hand-over of get_font_encoding completed: get_encoding_from_to_unicode_cmap *)
  Definition resolve_enc (e : enc_class) : out renc :=
    match e with
    | EOneByte t => Ok (ROne t)
    | ESimple n => Ok (RSimple n)
    | EToUnicode sd c => obind' (get_plain_real sd c) (fun content => obind' (parse_real content) (fun cm => Ok (RCMap cm)))
    end.

  (* filter_map over the fonts: an Err is collected as an error chunk; (encodings, number of error chunks) *)
  Fixpoint resolve_all (encs : list (bytes * enc_class)) : out (list (bytes * renc) * nat) :=
    match encs with
    | [] => Ok ([], O)
    | ne :: l =>
      match resolve_enc (snd ne) with
      | Ok r => obind' (resolve_all l) (fun acc => Ok ((fst ne, r) :: fst acc, snd acc))
      | Err => obind' (resolve_all l) (fun acc => Ok (fst acc, S (snd acc)))
      | Panic p => Panic p
      | OutOfFuel => OutOfFuel
      end
    end.

  (* Encoding::bytes_to_string; a path the value model does not cover counts as a panic, so that nothing hides there *)
  Definition decode_text_real (r : renc) (b : bytes) : out ustring :=
    match r with
    | ROne t =>
      obind' (text_site_check (SafeText.sbytes_to_string t b)) (fun _ =>
        match OneByte.bytes_to_string t b with
        | OneByte.Ok s => Ok s
        | OneByte.Err _ => Err
        | OneByte.Panic => Panic PUnwrap
        | OneByte.Unmodelled => Panic PUnimpl
        end)
    | RSimple n => if OneByte.is_unigb n then Ok (utf16be_bom b) else Err
    | RCMap cm => obind' (text_site_check (SafeText.scmap_text cm b)) (fun _ => Ok (CMap.bytes_to_string cm b))
    end.

  (* Content::decode, the loop, the final chunk.  (In Rust the encodings are resolved before get_page_content is
     called; get_page_content cannot fail, so the order is not observable in the outcome class.) *)
  Definition text_of_real (encs : list (bytes * enc_class)) (content : bytes) : out (list (option ustring)) :=
    obind' (resolve_all encs) (fun re =>
      match Parser.decode_content content with
      | Parser.DecOk ops =>
        obind' (run_ops decode_text_real (fst re) {| cur_enc := None; cur_text := []; rchunks := repeat None (snd re) |} ops)
          (fun s => Ok (rev (match cur_text s with [] => rchunks s | t => Some t :: rchunks s end)))
      | Parser.DecErr => Err
      | Parser.DecPanic => Panic PIndex
      | Parser.DecOut => OutOfFuel
      end).

  (* ---------------- proofs ---------------- *)

  Definition renc_ok (r : renc) : Prop :=
    match r with
    | ROne t => SafeTextProofs.table_ok t
    | RSimple _ => True
    | RCMap cm => SafeText.cmap_ok cm
    end.

  Lemma shipped_table_ok t : shipped_table t -> SafeTextProofs.table_ok t.
  Proof.
    intros [[n Hin]| ->]; [|exact SafeTextProofs.fallback_table_ok].
    pose proof SafeTextProofs.font_tables_ok as H. rewrite Forall_forall in H. exact (H _ Hin).
  Qed.

  Lemma get_plain_real_returns sd c : returns (get_plain_real sd c).
  Proof.
    unfold get_plain_real. destruct (StreamFilt.filters sd) as [[|f fs]| | |]; try exact I. apply decomp_real_returns.
  Qed.

  Lemma parse_real_returns content :
    returns (parse_real content) /\ forall cm, parse_real content = Ok cm -> SafeText.cmap_ok cm.
  Proof.
    unfold parse_real, sections_real. pose proof (CMapParserProofs.cmap_stream_fuel content) as HF.
    assert (K : forall secs, returns (match CMap.from_sections secs with CMap.FsOk cm => Ok cm | CMap.FsInvalidCodeRange => Err end) /\
                forall cm, match CMap.from_sections secs with CMap.FsOk cm => Ok cm | CMap.FsInvalidCodeRange => Err end = Ok cm ->
                           SafeText.cmap_ok cm).
    { intro secs. destruct (CMap.from_sections secs) as [cm0|] eqn:E; split; try exact I; intros cm H; [|discriminate].
      injection H as <-. eapply SafeTextProofs.from_sections_ok. exact E. }
    destruct (CMapParser.cmap_stream content) as [secs rest| | | |]; cbn [obind'].
    - apply K.
    - split; [exact I | discriminate].
    - split; [exact I | discriminate].
    - destruct (other_sections content) as [secs|]; cbn [of_opt obind']; [apply K | split; [exact I | discriminate]].
    - congruence.
  Qed.

  Lemma resolve_enc_ok e : enc_shipped (@pair bytes enc_class [] e) ->
    returns (resolve_enc e) /\ forall r, resolve_enc e = Ok r -> renc_ok r.
  Proof.
    unfold enc_shipped. cbn [snd]. destruct e as [t|n|sd c]; cbn [resolve_enc]; intro Hs.
    - split; [exact I|]. intros r H. injection H as <-. apply shipped_table_ok. exact Hs.
    - split; [exact I|]. intros r H. injection H as <-. exact I.
    - pose proof (get_plain_real_returns sd c) as H1.
      destruct (get_plain_real sd c) as [content| | |]; cbn [returns obind'] in *; try contradiction;
        [|split; [exact I | discriminate]].
      destruct (parse_real_returns content) as [H2 H3].
      destruct (parse_real content) as [cm| | |]; cbn [returns obind'] in *; try contradiction;
        [|split; [exact I | discriminate]].
      split; [exact I|]. intros r H. injection H as <-. apply H3. reflexivity.
  Qed.

  Lemma resolve_all_ok encs : Forall enc_shipped encs ->
    returns (resolve_all encs) /\ forall re, resolve_all encs = Ok re -> Forall (fun nr => renc_ok (snd nr)) (fst re).
  Proof.
    induction 1 as [|[name e] encs He _ IH]; cbn [resolve_all].
    - split; [exact I|]. intros re H. injection H as <-. constructor.
    - cbn [snd fst]. destruct (resolve_enc_ok e He) as [H1 H2]. destruct IH as [I1 I2].
      destruct (resolve_enc e) as [r| | |]; cbn [returns] in H1; try contradiction.
      + destruct (resolve_all encs) as [acc| | |]; cbn [returns obind'] in *; try contradiction;
          [|split; [exact I | discriminate]].
        split; [exact I|]. intros re H. injection H as <-. cbn [fst]. constructor; [apply H2; reflexivity | apply I2; reflexivity].
      + destruct (resolve_all encs) as [acc| | |]; cbn [returns obind'] in *; try contradiction;
          [|split; [exact I | discriminate]].
        split; [exact I|]. intros re H. injection H as <-. cbn [fst]. apply I2. reflexivity.
  Qed.

  Lemma decode_text_real_returns r b : renc_ok r -> returns (decode_text_real r b).
  Proof.
    destruct r as [t|n|cm]; cbn [renc_ok decode_text_real]; intro Hok.
    - rewrite text_site_check_ok by (apply SafeTextProofs.sbytes_to_string_no_panic, Hok || apply sbytes_to_string_term).
      cbn [obind']. unfold OneByte.bytes_to_string.
      rewrite (TextProofsUtf.utf16_decode_bmp _ (SafeTextProofs.units_no_surrogate t b Hok)). exact I.
    - destruct (OneByte.is_unigb n); exact I.
    - rewrite text_site_check_ok by (apply SafeTextProofs.scmap_text_no_panic, Hok || apply scmap_text_term). exact I.
  Qed.

  (* collect_text: the status is whatever decode_text answered *)
  Lemma collect_obj_returns r : renc_ok r -> forall o text, returns (snd (collect_obj decode_text_real r o text)).
  Proof.
    intro Hok. fix IH 1. intros o text. destruct o as [|b|z|rr|n|s h|l|d|d c|i g]; cbn [collect_obj snd]; try exact I.
    - destruct (z <? TJ_SPACE_THRESHOLD)%Z; exact I.
    - pose proof (decode_text_real_returns r s Hok) as H. destruct (decode_text_real r s); cbn [returns snd] in *; try exact I; contradiction.
    - match goal with |- returns (snd (let '(t, e) := ?g l text in _)) =>
        assert (G : forall l text, returns (snd (g l text))) end.
      { clear l text. induction l as [|x l IHl]; intro text; [exact I|].
        pose proof (IH x text) as Hx. destruct (collect_obj decode_text_real r x text) as [t1 e1]. cbn [snd] in Hx.
        destruct e1; cbn [returns snd] in *; try contradiction; [apply IHl | exact I]. }
      specialize (G l text). destruct (_ l text) as [t e]. cbn [snd] in G.
      destruct e; cbn [returns snd] in *; try exact I; contradiction.
  Qed.

  Lemma collect_text_returns r : renc_ok r -> forall ops text, returns (snd (collect_text decode_text_real r ops text)).
  Proof.
    intro Hok. induction ops as [|x ops IH]; intro text; cbn [collect_text]; [exact I|].
    pose proof (collect_obj_returns r Hok x text) as Hx. destruct (collect_obj decode_text_real r x text) as [t1 e1].
    cbn [snd] in Hx. destruct e1; cbn [returns snd] in *; try contradiction; [apply IH | exact I].
  Qed.

  Definition state_ok (s : tstate) : Prop := forall r, cur_enc s = Some r -> renc_ok r.

  Lemma assoc_bytes_ok font (encs : list (bytes * renc)) r :
    Forall (fun nr => renc_ok (snd nr)) encs -> OneByte.assoc_bytes font encs = Some r -> renc_ok r.
  Proof.
    induction 1 as [|[k v] encs Hv _ IH]; cbn [OneByte.assoc_bytes]; [discriminate|].
    destruct (bytes_eqb k font); [|exact IH]. intro H. injection H as <-. exact Hv.
  Qed.

  Lemma step_ok encs s o : Forall (fun nr => renc_ok (snd nr)) encs -> state_ok s ->
    returns (step decode_text_real encs s o) /\ forall s', step decode_text_real encs s o = Ok s' -> state_ok s'.
  Proof.
    intros He Hs. unfold step. cbv zeta.
    destruct (bytes_eqb (Writer.op_operator o) TextExtract.K_Tf).
    - destruct (Writer.op_operands o) as [|f rest]; [split; [exact I | discriminate]|].
      assert (K : forall enc chunks1, (forall r, enc = Some r -> renc_ok r) ->
        returns (match cur_text s with
                 | [] => Ok {| cur_enc := enc; cur_text := []; rchunks := chunks1 |}
                 | n :: l => Ok {| cur_enc := enc; cur_text := []; rchunks := Some (n :: l) :: chunks1 |} end) /\
        forall s', match cur_text s with
                 | [] => Ok {| cur_enc := enc; cur_text := []; rchunks := chunks1 |}
                 | n :: l => Ok {| cur_enc := enc; cur_text := []; rchunks := Some (n :: l) :: chunks1 |} end = Ok s' -> state_ok s').
      { intros enc chunks1 Henc. destruct (cur_text s); (split; [exact I|]); intros s' H; injection H as <-; exact Henc. }
      destruct f; try (apply K; intros rr0 HH0; discriminate).
      apply K. intros rr0 HH0. eapply assoc_bytes_ok; eassumption.
    - destruct (_ || _).
      + destruct (cur_enc s) as [r|] eqn:Er; [|split; [exact I|]; intros s' H; injection H as <-; exact Hs].
        pose proof (collect_text_returns r (Hs r Er) (Writer.op_operands o) (cur_text s)) as Hc.
        destruct (collect_text decode_text_real r (Writer.op_operands o) (cur_text s)) as [t e]. cbn [snd] in Hc.
        destruct e; cbn [returns] in Hc; try contradiction; (split; [exact I|]); intros s' H; injection H as <-;
          unfold state_ok; cbn [cur_enc]; intros r' Hr'; injection Hr' as <-; exact (Hs r Er).
      + destruct (bytes_eqb _ TextExtract.K_ET); [|split; [exact I|]; intros s' H; injection H as <-; exact Hs].
        destruct (TextExtract.ends_with_nl _); (split; [exact I|]); intros s' H; injection H as <-; exact Hs.
  Qed.

  Lemma run_ops_returns encs : Forall (fun nr => renc_ok (snd nr)) encs ->
    forall ops s, state_ok s -> returns (run_ops decode_text_real encs s ops).
  Proof.
    intro He. induction ops as [|o ops IH]; intros s Hs; cbn [run_ops]; [exact I|].
    destruct (step_ok encs s o He Hs) as [H1 H2].
    destruct (step decode_text_real encs s o) as [s'| | |]; cbn [returns obind'] in *; try exact I; try contradiction.
    apply IH. apply H2. reflexivity.
  Qed.

  (* the text stage answers a value or an error on every content, for every list of encodings get_font_encoding hands over *)
  Theorem text_of_real_returns encs content : Forall enc_shipped encs -> returns (text_of_real encs content).
  Proof.
    intro Hs. unfold text_of_real. destruct (resolve_all_ok encs Hs) as [H1 H2].
    destruct (resolve_all encs) as [re| | |]; cbn [returns obind'] in *; try exact I; try contradiction.
    pose proof (SafeContentProofs.decode_content_no_panic content) as HP.
    pose proof (SafeParserFuel.decode_content_fuel content) as HF.
    destruct (Parser.decode_content content) as [ops| | |]; try exact I; try congruence.
    pose proof (run_ops_returns (fst re) (H2 re eq_refl) ops
                  {| cur_enc := None; cur_text := []; rchunks := repeat None (snd re) |}) as HR.
    destruct (run_ops _ _ _ _); cbn [returns obind'] in *; try exact I; apply HR; intros rr0 HH0; discriminate.
  Qed.

  (* extract_text_chunks with the real filter stage and the real text stage: every entry is a value or an error *)
  Theorem extract_text_chunks_total_real d ns fuel :
    fuel_text (d_objects d) <= fuel ->
    Forall returns (extract_text_chunks_x (decomp_real inflate lzw) text_of_real fuel d ns) /\
    extract_text_chunks_x (decomp_real inflate lzw) text_of_real fuel d ns =
      extract_text_chunks (forget_d (decomp_real inflate lzw)) (forget_t text_of_real) fuel d ns.
  Proof.
    intro H. split.
    - apply extract_text_chunks_x_total; [apply decomp_real_returns | exact text_of_real_returns | exact H].
    - apply extract_text_chunks_x_eq; [apply decomp_real_returns | exact text_of_real_returns].
  Qed.
End RealText.

(* ---------------------------------------------------------------------------------------------- *)
(* 3. extract_text: the fragments of all pages in order, `?` on each                                 *)
(* ---------------------------------------------------------------------------------------------- *)

(* flat_map: Ok(text_chunks) => text_chunks (the encoding errors of the page are Err chunks), Err(err) => vec![Err(err)] *)
Definition page_fragments (o : out (nat * list (option ustring))) : out (list (option ustring)) :=
  match o with
  | Ok (nerr, chunks) => Ok (repeat None nerr ++ chunks)
  | Err => Ok [None]
  | Panic p => Panic p
  | OutOfFuel => OutOfFuel
  end.

Fixpoint all_fragments (pages : list (out (nat * list (option ustring)))) : out (list (option ustring)) :=
  match pages with
  | [] => Ok []
  | o :: r => obind' (page_fragments o) (fun f => obind' (all_fragments r) (fun fr => Ok (f ++ fr)))
  end.

(* for fragment in fragments { text.push_str(&fragment?) } *)
Fixpoint concat_fragments (l : list (option ustring)) (acc : ustring) : out ustring :=
  match l with
  | [] => Ok acc
  | Some t :: l' => concat_fragments l' (acc ++ t)
  | None :: _ => Err
  end.

Definition extract_text_x (dx : dict -> bytes -> out bytes)
    (tx : list (bytes * enc_class) -> bytes -> out (list (option ustring)))
    (fuel : nat) (d : doc) (page_numbers : list N) : out ustring :=
  obind' (all_fragments (extract_text_chunks_x dx tx fuel d page_numbers)) (fun l => concat_fragments l []).

Lemma all_fragments_returns pages : Forall returns pages -> returns (all_fragments pages).
Proof.
  induction 1 as [|o r Ho _ IH]; cbn [all_fragments]; [exact I|].
  destruct o as [[nerr chunks]| | |]; cbn [returns page_fragments obind'] in *; try contradiction;
    destruct (all_fragments r); cbn [returns obind'] in *; try exact I; contradiction.
Qed.

Lemma concat_fragments_returns l : forall acc, returns (concat_fragments l acc).
Proof. induction l as [|[t|] l IH]; intro acc; cbn [concat_fragments]; [exact I | apply IH | exact I]. Qed.

Theorem extract_text_total_real inflate lzw utf16be_bom other_sections d ns fuel :
  fuel_text (d_objects d) <= fuel ->
  returns (extract_text_x (decomp_real inflate lzw) (text_of_real inflate lzw utf16be_bom other_sections) fuel d ns).
Proof.
  intro H. unfold extract_text_x.
  pose proof (all_fragments_returns _ (proj1 (extract_text_chunks_total_real inflate lzw utf16be_bom other_sections d ns fuel H))) as HA.
  destruct (all_fragments _) as [l| | |]; cbn [returns obind'] in *; try exact I; try contradiction.
  apply concat_fragments_returns.
Qed.

(* ---- non-vacuity: one page, a WinAnsi font and an Identity-H font with a ToUnicode CMap behind ASCIIHex ---- *)
Definition ex_cmap_text : bytes := Eval cbv in bs
  "/CIDInit /ProcSet findresource begin 12 dict begin begincmap /CMapType 2 def 1 begincodespacerange <00> <ff> endcodespacerange 1 beginbfrange <41> <43> <0061> endbfrange endcmap CMapName currentdict /CMap defineresource pop end end".
Definition ex_real_content : bytes := Eval cbv in bs "BT /F1 12 Tf (Hi) Tj /F2 9 Tf <4142> Tj [(C) -200 (z)] TJ ET".
Definition ex_real_doc : doc :=
  {| d_version := bs "1.5"; d_binary_mark := [];
     d_trailer := [(bs "Root", ORef 1 0)];
     d_objects := [((1, 0)%N, ODict [(bs "Type", OName (bs "Catalog")); (bs "Pages", ORef 2 0)]);
                   ((2, 0)%N, ODict [(bs "Type", OName (bs "Pages")); (bs "Kids", OArr [ORef 3 0]); (bs "Count", OInt 1)]);
                   ((3, 0)%N, ODict [(bs "Type", OName (bs "Page")); (bs "Parent", ORef 2 0);
                                   (Q_Resources, ODict [(Q_Font, ODict [(bs "F1", ORef 4 0); (bs "F2", ORef 6 0)])]);
                                   (Q_Contents, ORef 5 0)]);
                   ((4, 0)%N, ODict [(bs "Type", OName Q_Font); (Q_Encoding, OName (bs "WinAnsiEncoding"))]);
                   ((5, 0)%N, OStream [] ex_real_content);
                   ((6, 0)%N, ODict [(bs "Type", OName Q_Font); (Q_Encoding, OName Q_Identity_H); (Q_ToUnicode, ORef 7 0)]);
                   ((7, 0)%N, OStream [] ex_cmap_text)];
     d_max_id := 7 |}.

Definition ex_real_result : list (out (nat * list (option ustring))) :=
  Eval vm_compute in
    extract_text_chunks_x (decomp_real (fun _ => []) (fun _ _ => []))
      (text_of_real (fun _ => []) (fun _ _ => []) (fun _ => []) (fun _ => None))
      (fuel_text (d_objects ex_real_doc)) ex_real_doc [1%N; 2%N].

(* "Hi" through WinAnsi; <41 42>, (C) through the CMap (a b c), the TJ gap, an unmapped code (U+FFFD), ET's newline;
   page 2 does not exist *)
Lemma example_real_text :
  extract_text_chunks_x (decomp_real (fun _ => []) (fun _ _ => []))
      (text_of_real (fun _ => []) (fun _ _ => []) (fun _ => []) (fun _ => None))
      (fuel_text (d_objects ex_real_doc)) ex_real_doc [1%N; 2%N]
  = [Ok (O, [Some [72; 105]; Some [97; 98; 99; 32; 65533; 32; 10]]%N); Err].
Proof. vm_compute. reflexivity. Qed.

Lemma example_real_extract_text :
  extract_text_x (decomp_real (fun _ => []) (fun _ _ => []))
      (text_of_real (fun _ => []) (fun _ _ => []) (fun _ => []) (fun _ => None))
      (fuel_text (d_objects ex_real_doc)) ex_real_doc [1%N]
  = Ok [72; 105; 97; 98; 99; 32; 65533; 32; 10]%N /\
  extract_text_x (decomp_real (fun _ => []) (fun _ _ => []))
      (text_of_real (fun _ => []) (fun _ _ => []) (fun _ => []) (fun _ => None))
      (fuel_text (d_objects ex_real_doc)) ex_real_doc [1%N; 2%N] = Err.
Proof. split; vm_compute; reflexivity. Qed.
