(* LoadProofs.v -- the loader model (Model/Loader.v) reads back what the save model wrote.
   Part 1: an indirect object written by write_indirect_object parses back to its normal form,
   whatever follows it (per-object round trip, streams included). *)
From LV Require Import Base.Bytes Base.Sx Model.Obj Model.Writer Model.Parser Model.Save Model.Xref Model.Loader
  Model.Utf Gen.Lex Proofs.LexProofs Proofs.RealProofs Proofs.ObjectRtProofs Proofs.SaveProofs Spec.SaveSpec.

Local Open Scope N_scope.

(* ---------- small list facts ---------- *)
Lemma drop_app_length {A} (a b : list A) : drop (length a) (a ++ b) = b.
Proof. induction a as [|x a IH]; [reflexivity | exact IH]. Qed.

Lemma from_app pre rest : from (Loader.blen pre) (pre ++ rest) = rest.
Proof.
  unfold from, Loader.blen. rewrite app_length.
  replace (N.of_nat (length pre + length rest) <? N.of_nat (length pre)) with false
    by (symmetry; apply N.ltb_ge; lia).
  rewrite Nat2N.id. apply drop_app_length.
Qed.

Lemma prefixb_app t r : prefixb t (t ++ r) = true.
Proof. apply prefixb_spec. exists r. reflexivity. Qed.

Lemma ptag_app t r : ptag t (t ++ r) = POk tt r.
Proof. unfold ptag. rewrite prefixb_app, drop_app_length. reflexivity. Qed.

Lemma take_n_app (a b : bytes) : take_n (length a) (a ++ b) = Some (a, b).
Proof. induction a as [|x a IH]; [reflexivity|]. cbn [length take_n app]. rewrite IH. reflexivity. Qed.

Lemma take_N_app (a b : bytes) : take_N (Z.to_N (Z.of_nat (length a))) (a ++ b) = Some (a, b).
Proof.
  unfold take_N, Loader.blen. rewrite app_length.
  replace (Z.to_N (Z.of_nat (length a))) with (N.of_nat (length a)) by lia.
  replace (N.of_nat (length a + length b) <? N.of_nat (length a)) with false by (symmetry; apply N.ltb_ge; lia).
  rewrite Nat2N.id. apply take_n_app.
Qed.

Lemma space_lf s : space (x0a :: s) = space s.
Proof. reflexivity. Qed.

(* ---------- dictionaries ---------- *)
Lemma dict_get_norm d k : dict_get (norm_dict d) k = option_map norm_obj (dict_get d k).
Proof.
  induction d as [|[k' v] d IH]; [reflexivity|]. cbn [norm_dict map dict_get fst snd].
  destruct (bytes_eqb k' k); [reflexivity | exact IH].
Qed.

Lemma dict_set_same d k v : dict_get d k = Some v -> dict_set d k v = d.
Proof.
  induction d as [|[k' v'] d IH]; cbn [dict_get dict_set]; [discriminate|].
  destruct (bytes_eqb k' k); intro H; [inversion H; reflexivity | rewrite IH by exact H; reflexivity].
Qed.

(* ---------- first bytes ---------- *)
Lemma digit_not_lt c : is_dec_digit c = true -> byte_eqb c x3c = false.
Proof.
  intro H. pose proof (byte_forallb_spec (fun c => negb (is_dec_digit c) || negb (byte_eqb c x3c)) eq_refl c) as K.
  cbv beta in K. rewrite H in K. cbn [negb orb] in K. apply negb_true_iff in K. exact K.
Qed.

Lemma hex_hi_not_lt b : byte_eqb (hex_upper (N_of_byte b / 16)) x3c = false.
Proof.
  pose proof (byte_forallb_spec (fun b => negb (byte_eqb (hex_upper (N_of_byte b / 16)) x3c)) eq_refl b) as K.
  cbv beta in K. apply negb_true_iff in K. exact K.
Qed.

Lemma dictionary_not_dict f c s : byte_eqb c x3c = false -> dictionary (S f) (c :: s) = PErr.
Proof.
  intro H. unfold dictionary. destruct (depth_ok MAX_DEPTH); [|reflexivity]. apply dict_err. exact H.
Qed.

Lemma dictionary_hex f c2 s : byte_eqb c2 x3c = false -> dictionary (S f) (x3c :: c2 :: s) = PErr.
Proof.
  intro H. unfold dictionary. destruct (depth_ok MAX_DEPTH); [|reflexivity].
  unfold dictionary_p. destruct c2; try reflexivity. discriminate H.
Qed.

(* a written direct object that is not a dictionary is not taken for one *)
Lemma dictionary_other o f tail :
  obj_wf o -> (forall d, o <> ODict d) -> dictionary (S f) (write_object o ++ tail) = PErr.
Proof.
  intros Hw Hnd. destruct Hw as [|b|z Hz|r Hr|n|s h|l Hl|d Hn Hd|i g Hi Hg].
  - reflexivity.
  - destruct b; reflexivity.
  - cbn [write_object]. rewrite Z_dec_text.
    destruct (real_text_lead (z <? 0)%Z (N_dec (Z.abs_N z)) [] (N_dec_nonempty _) (N_dec_digits _))
      as [c [t [E [Hc|Hc]]]]; rewrite E; cbn [app]; apply dictionary_not_dict;
      [subst c; reflexivity | apply digit_not_lt; exact Hc].
  - cbn [write_object]. destruct (write_real_head r Hr) as [c [t [E [Hc|Hc]]]]; rewrite E; cbn [app];
      apply dictionary_not_dict; [subst c; reflexivity | apply digit_not_lt; exact Hc].
  - reflexivity.
  - destruct h; [|reflexivity]. cbn [write_object]. unfold write_hex.
    destruct s as [|b s']; cbn [flat_map app]; [reflexivity|].
    unfold hex2_upper at 1. cbn [app]. apply dictionary_hex. apply hex_hi_not_lt.
  - reflexivity.
  - exfalso. apply (Hnd d). reflexivity.
  - cbn [write_object]. destruct (N_dec_cons i) as [c [t [E Hc]]]. rewrite E. cbn [app].
    apply dictionary_not_dict. apply digit_not_lt. exact Hc.
Qed.

(* ---------- the header "id gen obj" ---------- *)
Lemma wio_eq id g o :
  write_indirect_object id g o =
  N_dec id ++ x20 :: N_dec g ++ x20 :: bs "obj" ++ x0a :: sp_if (need_separator o) ++ write_object o ++
  sp_if (need_end_separator o) ++ x0a :: bs "endobj" ++ [x0a].
Proof. reflexivity. Qed.

Lemma indirect_head id g tail :
  id <= u32_max -> g <= u16_max ->
  object_id (space (N_dec id ++ x20 :: N_dec g ++ x20 :: bs "obj" ++ tail)) = POk (id, g) (bs "obj" ++ tail).
Proof.
  intros Hi Hg.
  rewrite space_tok by (apply digits_tok; [apply N_dec_nonempty | apply N_dec_digits]).
  unfold object_id.
  rewrite (unsigned_int_rt u32_max id _ Hi) by reflexivity. cbn [pbind].
  rewrite space_sp, space_tok by (apply digits_tok; [apply N_dec_nonempty | apply N_dec_digits]).
  rewrite (unsigned_int_rt u16_max g _ Hg) by reflexivity. cbn [pbind].
  rewrite space_sp. rewrite space_tok by reflexivity. reflexivity.
Qed.

Lemma skip_st_lf s : skip_while is_space_tab (x0a :: s) = x0a :: s.
Proof. reflexivity. Qed.

Lemma space_sp_if b s : space (sp_if b ++ s) = space s.
Proof. destruct b; reflexivity. Qed.

(* what follows a top-level object: optional space, "\nendobj\n" *)
Lemma follow_end o post :
  follow_ok true o (sp_if (need_end_separator o) ++ x0a :: bs "endobj" ++ x0a :: post).
Proof.
  destruct o; cbn [follow_ok]; try exact I.
  - reflexivity.
  - reflexivity.
  - split; [reflexivity | intros _; reflexivity].
  - split; [reflexivity | intros _; reflexivity].
  - reflexivity.
Qed.

Lemma write_stream_eq d c :
  write_object (OStream d c) = write_object (ODict d) ++ bs "stream" ++ x0a :: c ++ x0a :: bs "endstream".
Proof.
  rewrite write_dict_eq. cbn [write_object].
  replace ((fix wd (d0 : list (bytes * obj)) : bytes :=
              match d0 with
              | [] => []
              | (k, v) :: d' => write_name k ++ sp_if (need_separator v) ++ write_object v ++ wd d'
              end) d) with (write_dict_body d).
  2:{ induction d as [|[k v] d IH]; [reflexivity|]. cbn [write_dict_body]. rewrite IH. reflexivity. }
  cbn [app]. rewrite <- !app_assoc. reflexivity.
Qed.

(* ---------- per-object round trip ---------- *)
Theorem indirect_object_rt id g o post :
  id <= u32_max -> g <= u16_max -> top_wf o -> (nest o <= MAX_DEPTH)%nat ->
  indirect_object (write_indirect_object id g o ++ post) None = IOk (id, g) (norm_obj o).
Proof.
  intros Hi Hg Hw Hn.
  set (rest := sp_if (need_end_separator o) ++ x0a :: bs "endobj" ++ x0a :: post).
  assert (Es : write_indirect_object id g o ++ post =
               N_dec id ++ x20 :: N_dec g ++ x20 :: bs "obj" ++ x0a :: sp_if (need_separator o) ++ write_object o ++ rest).
  { rewrite wio_eq. unfold rest. repeat (rewrite <- app_assoc; cbn [app]). reflexivity. }
  unfold indirect_object.
  set (fuel := fuel_for (write_indirect_object id g o ++ post)).
  assert (Hfuel : (length (write_object o ++ rest) + 2 <= fuel)%nat).
  { unfold fuel, fuel_for. rewrite Es. repeat (rewrite app_length; cbn [length]). lia. }
  rewrite Es. rewrite indirect_head by assumption. rewrite ptag_app.
  rewrite space_lf, space_sp_if.
  destruct fuel as [|fuel]; [lia|].
  destruct o as [| b | z | r | n | s h | l | d | d c | i' g'].
  9:{ (* stream *)
    destruct Hw as [Hwd Hlen].
    rewrite space_tok by (rewrite write_stream_eq, write_dict_eq; reflexivity).
    unfold stream_p. rewrite write_stream_eq. rewrite <- app_assoc.
    rewrite (dictionary_entry_rt d _ (S fuel) Hwd).
    2:{ rewrite write_stream_eq, <- app_assoc in Hfuel. lia. }
    2:{ exact Hn. }
    rewrite <- !app_assoc. rewrite space_tok by reflexivity. rewrite ptag_app.
    cbn [app]. rewrite skip_st_lf. cbn [eol]. rewrite dict_get_norm, Hlen. cbn [option_map norm_obj].
    replace (Z.of_nat (length c) <? 0)%Z with false by (symmetry; apply Z.ltb_ge; lia).
    rewrite <- app_assoc. rewrite take_N_app. cbn [app eol].
    rewrite ptag_app. unfold stream_new.
    rewrite dict_set_same by (rewrite dict_get_norm, Hlen; reflexivity).
    reflexivity. }
  8:{ (* dictionary: the stream alternative stops at the missing keyword *)
    cbn [top_wf] in Hw.
    rewrite space_tok by (rewrite write_dict_eq; reflexivity).
    unfold stream_p.
    rewrite (dictionary_entry_rt d rest (S fuel) Hw) by (try exact Hn; lia).
    unfold rest at 1. rewrite space_sp_if, space_lf. rewrite space_tok by reflexivity.
    change (ptag (bs "stream") (bs "endobj" ++ x0a :: post)) with (@PErr unit).
    rewrite (direct_objects_rt (ODict d) rest (S fuel) Hw (follow_end _ post)) by (try exact Hn; lia).
    reflexivity. }
  all: cbn [top_wf] in Hw.
  all: destruct (write_object_lead _ Hw) as [c0 [t0 [E0 Hl0]]].
  all: rewrite space_tok by (rewrite E0; cbn [app]; apply obj_lead_tok; exact Hl0).
  all: unfold stream_p; rewrite dictionary_other by (try exact Hw; intros d0; discriminate).
  all: rewrite (direct_objects_rt _ rest (S fuel) Hw (follow_end _ post)) by (try exact Hn; lia).
  all: reflexivity.
Qed.

(* ---------- composed with offsets_exact: every object is found at its recorded offset ---------- *)
Theorem object_at_recorded_offset xt d id g o :
  so_status (save xt d) = SaveOk -> small_file xt d ->
  NoDup (obj_numbers (d_objects d)) -> In ((id, g), o) (d_objects d) -> skipped o = false ->
  id <= u32_max -> g <= u16_max -> top_wf o -> (nest o <= MAX_DEPTH)%nat ->
  exists off,
    Save.xget (xmap_of d) id = Some (Save.XNormal off g) /\
    off <= Loader.blen (so_bytes (save xt d)) /\
    indirect_object (from off (so_bytes (save xt d))) None = IOk (id, g) (norm_obj o).
Proof.
  intros Hok Hsmall Hnd Hin Hsk Hi Hg Hw Hn.
  destruct (offsets_complete d id g o Hnd Hin Hsk) as [pre [post [Hb Hx]]].
  destruct (save_ok_shape xt d Hok) as [mid [Hs _]].
  assert (Ebytes : so_bytes (save xt d) =
                   pre ++ write_indirect_object id g o ++ (post ++ mid ++ startxref_bytes (Save.blen (body_of d)))).
  { rewrite Hs, Hb. rewrite <- !app_assoc. reflexivity. }
  assert (Hpre : Save.blen pre < u32_mod).
  { unfold small_file in Hsmall. rewrite Ebytes in Hsmall. unfold Save.blen in *. rewrite app_length in Hsmall. lia. }
  exists (Save.blen pre). rewrite N.mod_small in Hx by exact Hpre. split; [exact Hx|]. split.
  - rewrite Ebytes. unfold Loader.blen, Save.blen. rewrite app_length. lia.
  - rewrite Ebytes. change (Save.blen pre) with (Loader.blen pre). rewrite from_app.
    apply indirect_object_rt; assumption.
Qed.
