(* StrictHistorySaveProofs.v -- C03, part 11: the history theorem about the WRITER MODEL.
   A history is what c07's [lopdf_history] (Proofs/C07BytesHistory.v) describes: a file written by
   Document::save (either cross-reference format), then any number of IncrementalDocument::save, each one made
   from the bytes of the previous file and from the document, the xref_start and the cross-reference type the
   LOADER returned for those bytes.  [shist] carries the same data explicitly (so that the expected result of
   the strict reader can be computed from it); [sh_ok] has exactly the premises of the two constructors of
   [lopdf_history] ([sh_ok_history], [history_sh]: the two notions describe the same files).

   The shape of every update -- the file layout, Prev = the previous startxref, max_id not below any number
   listed before -- is DERIVED here from the model ([sh_layout]): Prev from c07's domain of an update
   (which [create_from] + any modelled edits establish: [history_update_ok]), max_id from what the loader
   returned for the previous file (d_max_id = the largest key of the merged table, which holds every number
   any older section lists).  Then StrictHistoryProofs.strict_load_hist applies. *)
From LV Require Import Base.Bytes Base.Sx Model.Obj Model.DocQ Model.Writer Model.Parser Model.Save Model.Xref Model.Loader
  Model.Incremental Model.Utf Gen.Lex Gen.SaveFmt Gen.Inc Proofs.IncrementalProofs Proofs.LexProofs Proofs.RealProofs
  Proofs.ObjectRtProofs Proofs.SaveProofs Proofs.FilterProofsDict Spec.SaveSpec Proofs.LoadProofs Proofs.LoadProofsFile
  Proofs.LoadProofsXref Proofs.LoadProofsTable Proofs.LoadProofsAgain Proofs.LoadProofsStream Proofs.LoadProofsFull
  Proofs.StrictReaderProofs Proofs.SaveStrictProofs Proofs.StrictFileProofs Proofs.StrictTilingProofs
  Proofs.StrictLoadProofs Proofs.StrictRevisionProofs Proofs.StrictIncrementalProofs Proofs.StrictSaveProofs
  Proofs.C07Bytes Proofs.C07BytesTable Proofs.C07BytesStream Proofs.C07BytesHistory Proofs.StrictHistoryProofs.
From LV Require Spec.StrictReader.
From Coq Require Import ZifyBool ZifyN ZifyNat.

Local Open Scope N_scope.

(* ====================================================================================== *)
(* histories as data                                                                       *)
(* ====================================================================================== *)
Inductive shist :=
| SBase (fmt : xref_type) (d : doc)            (* Document::save of d in format fmt *)
| SUpd (sh : shist) (s : incdoc).              (* IncrementalDocument::save of s, made from the file of sh *)

Fixpoint sh_fmt (sh : shist) : xref_type := match sh with SBase fmt _ => fmt | SUpd sh' _ => sh_fmt sh' end.
Definition sh_bytes (sh : shist) : bytes :=
  match sh with SBase fmt d => so_bytes (save fmt d) | SUpd _ s => io_bytes (inc_save s) end.
Definition sh_start (sh : shist) : N :=
  match sh with SBase _ d => Save.blen (body_of d) | SUpd _ s => io_start (inc_save s) end.
(* what c07's loader theorem says the file loads to *)
Fixpoint sh_objs (sh : shist) : objmap :=
  match sh with
  | SBase fmt d => d_objects (reloaded fmt d)
  | SUpd sh' s => step_objs (sh_fmt sh') (sh_objs sh') (xd_doc (i_new s))
                            (Save.blen (sh_bytes sh' ++ inc_lines (xd_doc (i_new s))))
  end.
Fixpoint sh_updates (sh : shist) : N := match sh with SBase _ _ => 0 | SUpd sh' _ => sh_updates sh' + 1 end.

(* the premises of lopdf_history's constructors *)
Fixpoint sh_ok (sh : shist) : Prop :=
  match sh with
  | SBase fmt d =>
    savable d /\ known_deep d = false /\ small_file fmt d /\ dict_get (d_trailer d) K_XRefStm = None
  | SUpd sh' s =>
    sh_ok sh' /\
    exists pd,
      load (sh_bytes sh') = LOk pd (xtype_of (sh_fmt sh')) /\
      i_bytes s = sh_bytes sh' /\
      i_prev s = {| xd_doc := pd; xd_start := sh_start sh'; xd_type := sh_fmt sh' |} /\
      upd_dom (sh_start sh') (xd_doc (i_new s)) /\
      d_max_id pd <= d_max_id (xd_doc (i_new s)) /\
      Save.blen (io_bytes (inc_save s)) < u32_mod /\
      Forall (fun io : oid * obj => In (fst io) (map fst (d_objects pd)) \/ ~ In (fst (fst io)) (obj_numbers (d_objects pd)))
             (d_objects (xd_doc (i_new s)))
  end.

Theorem sh_ok_history : forall sh, sh_ok sh -> lopdf_history (sh_bytes sh) (sh_start sh) (sh_fmt sh) (sh_objs sh).
Proof.
  induction sh as [fmt d|sh IH s]; cbn [sh_ok].
  - intros [S [K [Hs Hstm]]]. apply hist_save; assumption.
  - intros [Hok [pd [Hload [Hb [Hprev [Hu [Hmx [Hlen Hids]]]]]]]].
    apply (hist_update (sh_bytes sh) (sh_start sh) (sh_fmt sh) (sh_objs sh) pd s (IH Hok) Hload Hb Hprev Hu Hmx Hlen Hids).
Qed.

Theorem history_sh F xs fmt objs :
  lopdf_history F xs fmt objs ->
  exists sh, sh_ok sh /\ sh_bytes sh = F /\ sh_start sh = xs /\ sh_fmt sh = fmt /\ sh_objs sh = objs.
Proof.
  induction 1 as [fmt d S K Hs Hstm | F xs fmt objs pd s H [sh [Hok [E1 [E2 [E3 E4]]]]] Hload Hb Hprev Hu Hmx Hlen Hids].
  - exists (SBase fmt d). cbn [sh_ok sh_bytes sh_start sh_fmt sh_objs].
    split; [exact (conj S (conj K (conj Hs Hstm)))|]. split; [reflexivity|]. split; [reflexivity|]. split; reflexivity.
  - exists (SUpd sh s). subst F xs fmt objs. cbn [sh_ok sh_bytes sh_start sh_fmt sh_objs].
    split; [|split; [reflexivity|]; split; [reflexivity|]; split; reflexivity]. split; [exact Hok|]. exists pd.
    exact (conj Hload (conj Hb (conj Hprev (conj Hu (conj Hmx (conj Hlen Hids)))))).
Qed.

(* ====================================================================================== *)
(* the layout of a history and the strict reader's domain, derived                          *)
(* ====================================================================================== *)
Fixpoint sh_hist (sh : shist) : hist :=
  match sh with
  | SBase fmt d => HBase fmt (raise_max_id d)
  | SUpd sh' s => HUpd (sh_hist sh') (sh_fmt sh') (xd_doc (i_new s))
  end.

(* the two rules of ISO 32000-1 7.5.2 the writer leaves to the caller (first header), and the version
   printed in the repeated header line (new_from_prev sets "1.4") *)
Fixpoint sh_strict (sh : shist) : Prop :=
  match sh with
  | SBase _ d => SR.version_ok (d_version d) = true /\ (4 <= length (d_binary_mark d))%nat
  | SUpd sh' s => sh_strict sh' /\ forallb SR.not_eol (d_version (xd_doc (i_new s))) = true
  end.

Lemma sh_hist_x sh : h_x (sh_hist sh) = sh_fmt sh.
Proof. destruct sh; reflexivity. Qed.

(* keys of the loader's merged table *)
Lemma xinsert_keys : forall (m : Xref.xmap) k e j, j = k \/ In j (map fst m) -> In j (map fst (Xref.xinsert m k e)).
Proof.
  induction m as [|[a ea] m IH]; intros k e j H; cbn [Xref.xinsert].
  - destruct H as [->|[]]. left. reflexivity.
  - destruct (a =? k) eqn:E1.
    + apply N.eqb_eq in E1. subst a. cbn [map fst] in *. destruct H as [->|[H|H]]; [left; reflexivity | left; exact H | right; exact H].
    + destruct (k <? a).
      * cbn [map fst] in *. destruct H as [->|H]; [left; reflexivity | right; exact H].
      * cbn [map fst] in *. destruct H as [->|[H|H]]; [right; apply IH; left; reflexivity | left; exact H | right; apply IH; right; exact H].
Qed.

Lemma fold_xins_keys : forall (l m : Xref.xmap) j, In j (map fst l) \/ In j (map fst m) -> In j (map fst (fold_left xins l m)).
Proof.
  induction l as [|[k e] l IH]; intros m j H; cbn [fold_left].
  - destruct H as [[]|H]. exact H.
  - apply IH. cbn [map fst] in H. destruct H as [[<-|H]|H].
    + right. unfold xins. cbn [fst snd]. apply xinsert_keys. left. reflexivity.
    + left. exact H.
    + right. unfold xins. cbn [fst snd]. apply xinsert_keys. right. exact H.
Qed.

Lemma conv_map_fst (x : Save.xmap) : map fst (conv_map x) = map fst x.
Proof. unfold conv_map. rewrite map_map. reflexivity. Qed.
Lemma xuse_map_fst (x : Save.xmap) : map fst (map xuse_of x) = map fst x.
Proof. rewrite map_map. reflexivity. Qed.

(* every number listed by the newest section is 0 or a key of [conv_map] of the writer's map *)
Definition keys_in (ks : list N) (entries : Xref.xmap) : Prop := Forall (fun k => k = 0 \/ In k (map fst entries)) ks.

Lemma rev_keys_in fmt nd pos0 len post :
  keys_in (map fst (SR.r_entries (rev_of fmt nd pos0 len post)))
          (match fmt with XTable => conv_map (rev_xmap nd pos0) | XStream => conv_map (str_map nd pos0) end).
Proof.
  unfold keys_in. destruct fmt; cbn [rev_of SR.r_entries tab_rev str_rev]; unfold tab_entries, str_entries; cbn [map fst].
  - constructor; [left; reflexivity|]. rewrite xuse_map_fst, conv_map_fst. apply Forall_forall. intros k Hk. right. exact Hk.
  - rewrite xuse_map_fst, conv_map_fst. apply Forall_forall. intros k Hk. right. exact Hk.
Qed.

Lemma keys_in_mono ks e e' : (forall k, In k (map fst e) -> In k (map fst e')) -> keys_in ks e -> keys_in ks e'.
Proof. intros H K. eapply Forall_impl; [|exact K]. intros k [->|Hk]; [left; reflexivity | right; apply H; exact Hk]. Qed.

Lemma keys_in_le ks entries B : keys_in ks entries -> xmap_max entries <= B -> Forall (fun k => k <= B) ks.
Proof.
  intros K HB. eapply Forall_impl; [|exact K]. intros k [->|Hk]; [lia|].
  apply in_map_iff in Hk as [ke [<- Hin]]. pose proof (xmap_max_ge entries ke Hin). lia.
Qed.

Lemma savable_core_raise d : savable d -> savable_core (raise_max_id d).
Proof. intro S. rewrite <- (written_savable d S). apply savable_written. exact S. Qed.

(* THE DERIVATION: layout, domain, and the loader's invariant with the key bound, along the history *)
Theorem sh_layout : forall sh, sh_ok sh -> sh_strict sh ->
  h_bytes (sh_hist sh) = sh_bytes sh /\ h_start (sh_hist sh) = sh_start sh /\ h_dom (sh_hist sh) /\
  exists v m entries t objs,
    good_file (sh_bytes sh) v m (sh_start sh) (xtype_of (sh_fmt sh)) entries t objs /\
    keys_in (h_keys (sh_hist sh)) entries.
Proof.
  induction sh as [fmt d|sh IH s]; cbn [sh_ok sh_strict sh_hist sh_bytes sh_start sh_fmt].
  - intros [S [K [Hs Hstm]]] [Hv Hm4].
    pose proof (savable_core_raise d S) as Sc.
    assert (Hs' : small_file_core fmt (raise_max_id d)) by exact Hs.
    destruct (save_core_rev_shape fmt (raise_max_id d) Sc Hs') as [Eshape Estart].
    split; [|split; [|split]].
    + cbn [h_bytes]. unfold seg_bytes. unfold save. rewrite Eshape. reflexivity.
    + unfold h_start, h_pos. cbn [h_pre0 h_doc]. fold (hm_len (raise_max_id d)). rewrite Estart. reflexivity.
    + cbn [h_dom]. constructor; assumption.
    + unfold h_keys, h_revs. cbn [h_list flat_map]. rewrite app_nil_r. unfold h_rev. cbn [h_x h_doc].
      destruct fmt.
      * do 5 eexists. split; [apply (saved_table_good (raise_max_id d) Sc K Hs' Hstm)|]. apply (rev_keys_in XTable).
      * do 5 eexists. split; [apply (saved_stream_good (raise_max_id d) Sc K Hs' Hstm)|]. apply (rev_keys_in XStream).
  - intros [Hok [pd [Hload [Hb [Hprev [Hu [Hmx [Hlen Hids]]]]]]]] [Hst Hvn].
    destruct (IH Hok Hst) as [Eb [Es [Hd [v [m [entries [t [objs [G Kin]]]]]]]]].
    set (nd := xd_doc (i_new s)) in *. set (F := sh_bytes sh) in *. set (fmt := sh_fmt sh) in *.
    rewrite (good_file_loads _ _ _ _ _ _ _ _ G) in Hload. inversion Hload as [Epd]. clear Hload.
    assert (Emax : d_max_id pd = xmap_max entries) by (rewrite <- Epd; reflexivity).
    assert (Eobjs : d_objects pd = objs) by (rewrite <- Epd; reflexivity).
    rewrite Eobjs in Hids. rewrite Emax in Hmx.
    assert (Hty : xd_type (i_prev s) = fmt) by (rewrite Hprev; reflexivity).
    destruct (good_file_offset _ _ _ _ _ _ _ _ G) as [Hoff [Hsep _]].
    pose proof (inc_save_shape_gen fmt s) as Hshape. cbv zeta in Hshape. rewrite Hb in Hshape. fold nd in Hshape.
    destruct (Hshape Hoff Hsep Hty (ud_rev _ _ Hu) (ud_mark _ _ Hu) Hlen) as [_ [Ebytes Estart]]. clear Hshape.
    split; [|split; [|split]].
    + cbn [h_bytes]. unfold seg_bytes. rewrite Eb. symmetry. exact Ebytes.
    + unfold h_start, h_pos. cbn [h_pre0 h_doc]. rewrite Eb. symmetry. exact Estart.
    + cbn [h_dom]. split; [exact Hd|]. split; [exact (ud_rev _ _ Hu)|]. split; [exact (ud_mark _ _ Hu)|]. split; [exact Hvn|].
      split; [rewrite Es; exact (ud_prev _ _ Hu)|]. apply (keys_in_le _ entries); assumption.
    + rewrite h_keys_cons. unfold h_rev. cbn [h_x h_doc]. unfold h_pos, h_len. cbn [h_pre0]. rewrite Eb. fold F.
      destruct fmt eqn:Efmt.
      * destruct (inc_table_good_nums F v m _ _ entries t objs s G Hb Hty Hu Hlen Hids) as [_ G'].
        do 5 eexists. split; [exact G'|]. apply Forall_app. split.
        -- eapply keys_in_mono; [|apply (rev_keys_in XTable)]. intros k Hk. apply fold_xins_keys. left. exact Hk.
        -- eapply keys_in_mono; [|exact Kin]. intros k Hk. apply fold_xins_keys. right. exact Hk.
      * destruct (inc_stream_good_nums F v m _ _ entries t objs s G Hb Hty Hu Hlen Hids Hmx) as [_ G'].
        do 5 eexists. split; [exact G'|]. apply Forall_app. split.
        -- eapply keys_in_mono; [|apply (rev_keys_in XStream)]. intros k Hk. apply fold_xins_keys. left. exact Hk.
        -- eapply keys_in_mono; [|exact Kin]. intros k Hk. apply fold_xins_keys. right. exact Hk.
Qed.

Lemma sh_len sh : sh_ok sh -> Save.blen (sh_bytes sh) < u32_mod.
Proof. destruct sh as [fmt d|sh s]; cbn [sh_ok sh_bytes]; [intros [_ [_ [H _]]]; exact H | intros [_ [pd [_ [_ [_ [_ [_ [H _]]]]]]]]; exact H]. Qed.

(* ====================================================================================== *)
(* MAIN: the strict reader on every file of a history                                      *)
(* ====================================================================================== *)
Definition sdoc_of_history (sh : shist) : SR.sdoc := sdoc_hist (sh_hist sh).

Theorem strict_load_history sh :
  sh_ok sh -> sh_strict sh -> SR.strict_load (sh_bytes sh) = SR.SOk (sdoc_of_history sh).
Proof.
  intros Hok Hst. destruct (sh_layout sh Hok Hst) as [Eb [_ [Hd _]]]. rewrite <- Eb.
  apply strict_load_hist; [exact Hd|]. unfold h_len. rewrite Eb. apply sh_len. exact Hok.
Qed.

(* the same for c07's inductive definition: every lopdf_history is the file of such a history *)
Theorem strict_load_lopdf_history F xs fmt objs :
  lopdf_history F xs fmt objs ->
  exists sh, sh_bytes sh = F /\ sh_start sh = xs /\ sh_fmt sh = fmt /\ sh_objs sh = objs /\ sh_ok sh /\
             (sh_strict sh -> SR.strict_load F = SR.SOk (sdoc_of_history sh)).
Proof.
  intro H. destruct (history_sh F xs fmt objs H) as [sh [Hok [E1 [E2 [E3 E4]]]]]. exists sh.
  repeat (split; [assumption|]). intro Hst. rewrite <- E1. apply strict_load_history; assumption.
Qed.

(* ---------- the update made through the modelled API is a step of a history ---------- *)
Lemma inc_version_not_eol : forallb SR.not_eol INC_VERSION = true.
Proof. reflexivity. Qed.

Theorem history_update_step sh pd edits :
  sh_ok sh ->
  load (sh_bytes sh) = LOk pd (xtype_of (sh_fmt sh)) ->                (* Document::load_mem on the newest file *)
  let s := fold_left apply_edit edits
             (create_from (sh_bytes sh) {| xd_doc := pd; xd_start := sh_start sh; xd_type := sh_fmt sh |}) in
  let nd := xd_doc (i_new s) in
  rev_dom nd -> known_deep nd = false ->
  Save.blen (io_bytes (inc_save s)) < u32_mod ->
  Forall (fun io : oid * obj => In (fst io) (map fst (d_objects pd)) \/ ~ In (fst (fst io)) (obj_numbers (d_objects pd))) (d_objects nd) ->
  io_status (inc_save s) = IncOk /\ sh_ok (SUpd sh s) /\ (sh_strict sh -> sh_strict (SUpd sh s)).
Proof.
  intros Hok Hload s nd Hr K Hlen Hids.
  pose proof (sh_ok_history sh Hok) as H.
  destruct (history_good _ _ _ _ H) as [v [m [entries [t G]]]].
  pose proof Hload as Hload'. rewrite (good_file_loads _ _ _ _ _ _ _ _ G) in Hload'. inversion Hload' as [Epd].
  destruct (created_frame (sh_bytes sh) {| xd_doc := pd; xd_start := sh_start sh; xd_type := sh_fmt sh |} edits) as (H1 & H2 & _ & _ & H5).
  fold s in H1, H2, H5. fold nd in H5. cbn [xd_doc] in H5.
  assert (Hu : upd_dom (sh_start sh) nd).
  { apply (created_upd_dom (sh_bytes sh) v m (sh_start sh) _ entries t (sh_objs sh) pd (sh_fmt sh) edits G); [rewrite <- Epd; reflexivity | exact Hr | exact K]. }
  split; [apply (history_update_ok _ _ _ _ pd s H H1 H2 Hu Hlen)|]. split.
  - cbn [sh_ok]. split; [exact Hok|]. exists pd.
    exact (conj Hload (conj H1 (conj H2 (conj Hu (conj H5 (conj Hlen Hids)))))).
  - intro Hst. cbn [sh_strict]. split; [exact Hst|].
    destruct (fold_edits_head edits (create_from (sh_bytes sh) {| xd_doc := pd; xd_start := sh_start sh; xd_type := sh_fmt sh |})) as [_ [Hver _]].
    fold s in Hver. fold nd in Hver. change (forallb SR.not_eol (d_version nd) = true). rewrite Hver. apply inc_version_not_eol.
Qed.

(* ====================================================================================== *)
(* field by field; every byte accounted for                                                *)
(* ====================================================================================== *)
Fixpoint sh_first (sh : shist) : doc := match sh with SBase _ d => d | SUpd sh' _ => sh_first sh' end.

Lemma sh_hist_base : forall sh, d_version (h_base (sh_hist sh)) = d_version (sh_first sh).
Proof. induction sh as [fmt d|sh IH s]; [reflexivity | exact IH]. Qed.

Lemma sh_hist_count : forall sh, h_count (sh_hist sh) = sh_updates sh + 1.
Proof. induction sh as [fmt d|sh IH s]; cbn [sh_hist h_count sh_updates]; [reflexivity | rewrite IH; reflexivity]. Qed.

Theorem strict_load_history_fields sh :
  sh_ok sh -> sh_strict sh ->
  exists r, SR.strict_load (sh_bytes sh) = SR.SOk r /\
    SR.s_version r = d_version (sh_first sh) /\                       (* the version of the FIRST header *)
    SR.s_revisions r = sh_updates sh + 1 /\
    SR.s_stream r = is_stream (sh_fmt sh) /\
    SR.s_startxref r = sh_start sh /\
    SR.s_objects r = omerge_list (h_list h_merge_item (sh_hist sh)) [] [] /\
    (match sh with
     | SBase _ _ => dict_get (SR.s_trailer r) K_Prev = None
     | SUpd sh' s =>
       dict_get (SR.s_trailer r) K_Prev = Some (OInt (Z.of_N (sh_start sh'))) /\        (* Prev = the previous startxref *)
       firstn (length (sh_bytes sh')) (sh_bytes sh) = sh_bytes sh'                     (* the previous file, verbatim *)
     end) /\
    chain 0 (effective (0, 0) (SR.s_spans r)) (SR.lenN (sh_bytes sh)).
Proof.
  intros Hok Hst. exists (sdoc_of_history sh). pose proof (strict_load_history sh Hok Hst) as Hload.
  destruct (sh_layout sh Hok Hst) as [Eb [Es [Hd _]]].
  split; [exact Hload|]. unfold sdoc_of_history, sdoc_hist. cbn [SR.s_version SR.s_revisions SR.s_stream SR.s_startxref SR.s_objects SR.s_trailer].
  split; [apply sh_hist_base|]. split; [apply sh_hist_count|]. split; [rewrite sh_hist_x; reflexivity|]. split; [exact Es|].
  split; [reflexivity|]. split.
  - destruct sh as [fmt d|sh s]; cbn [sh_hist].
    + pose proof (h_chain_ok _ Hd) as Hc. unfold h_revs in Hc. cbn [sh_hist h_list chain_ok] in Hc. exact Hc.
    + cbn [sh_ok sh_strict] in Hok, Hst. destruct Hok as [Hok' [pd [_ [Hb _]]]]. destruct Hst as [Hst' _].
      destruct (sh_layout sh Hok' Hst') as [_ [Es' _]]. split.
      * pose proof (h_chain_ok _ Hd) as Hc. unfold h_revs in Hc. cbn [sh_hist] in Hc.
        assert (E : h_list h_rev (HUpd (sh_hist sh) (sh_fmt sh) (xd_doc (i_new s))) =
                    h_rev (HUpd (sh_hist sh) (sh_fmt sh) (xd_doc (i_new s))) :: h_rev (sh_hist sh) ::
                    match sh_hist sh with HBase _ _ => [] | HUpd h' _ _ => h_list h_rev h' end) by (destruct (sh_hist sh); reflexivity).
        rewrite E in Hc. destruct Hc as [Hp _]. rewrite h_rev_x, Es' in Hp. exact Hp.
      * cbn [sh_bytes]. rewrite <- Hb. apply inc_save_prefix.
  - pose proof (strict_load_sound _ _ Hload) as [_ [_ [_ [_ [_ [_ Hc]]]]]]. exact Hc.
Qed.

Theorem all_bytes_accounted_history sh :
  sh_ok sh -> sh_strict sh ->
  let file := sh_bytes sh in
  let spans := effective (0, 0) (SR.s_spans (sdoc_of_history sh)) in
  chain 0 spans (SR.lenN file) /\
  (forall p, p < SR.lenN file -> exists a b, In (a, b) spans /\ a <= p < b) /\
  (forall i j a b a' b', (i < j)%nat -> nth_error spans i = Some (a, b) -> nth_error spans j = Some (a', b') -> b <= a') /\
  (* revision by revision: filler, objects, section, marker are consecutive from the end of the previous
     file to the end of this one; the listed spans are these, oldest revision first, + the repetition of a
     cross-reference stream's own span + the empty final span *)
  SR.s_spans (sdoc_of_history sh) = tiling (h_geos (sh_hist sh)) ++ [(SR.lenN file, SR.lenN file)] /\
  Forall (fun g => chain (g_a g) (block_once g) (g_q g)) (h_geos (sh_hist sh)) /\
  geos_ok (h_geos (sh_hist sh)) /\ g_below (h_geos (sh_hist sh)) = SR.lenN file.
Proof.
  intros Hok Hst file spans.
  pose proof (strict_load_sound file _ (strict_load_history sh Hok Hst)) as [_ [_ [_ [_ [_ [_ Hc]]]]]].
  fold spans in Hc. destruct (sh_layout sh Hok Hst) as [Eb _].
  assert (El : h_len (sh_hist sh) = SR.lenN file) by (unfold h_len, file; rewrite Eb; reflexivity).
  split; [exact Hc|]. split; [|split; [|split; [|split; [|split]]]].
  - intros p Hp. apply (chain_cover _ _ _ Hc p). lia.
  - apply (chain_disjoint _ _ _ Hc).
  - unfold sdoc_of_history, sdoc_hist. cbn [SR.s_spans]. rewrite El. reflexivity.
  - pose proof (h_geos_ok (sh_hist sh)) as Hg. revert Hg. generalize (h_geos (sh_hist sh)).
    induction l as [|g l IHl]; intro Hg; [constructor|]. destruct Hg as [Hg [_ Hl]].
    constructor; [apply block_once_chain; exact Hg | apply IHl; exact Hl].
  - apply h_geos_ok.
  - rewrite <- El. destruct (sh_hist sh); reflexivity.
Qed.

(* per identifier: the object the NEWEST revision listing that number has under it (h_merge_item h = the numbers
   the revision's cross-reference section lists, and the normal forms of its objects) *)
Theorem history_newest_wins sh n g :
  sh_ok sh -> sh_strict sh ->
  lookup (SR.s_objects (sdoc_of_history sh)) (n, g) =
  match newest_listing (h_list h_merge_item (sh_hist sh)) n with
  | Some objs => lookup objs (n, g)
  | None => None
  end.
Proof. intros Hok Hst. destruct (sh_layout sh Hok Hst) as [_ [_ [Hd _]]]. apply sdoc_hist_lookup. exact Hd. Qed.

Print Assumptions sh_ok_history.
Print Assumptions history_sh.
Print Assumptions sh_layout.
Print Assumptions strict_load_history.
Print Assumptions history_update_step.
Print Assumptions strict_load_history_fields.
Print Assumptions all_bytes_accounted_history.
Print Assumptions history_newest_wins.
