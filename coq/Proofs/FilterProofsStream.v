(* FilterProofsStream.v -- Model/StreamFilt.v against Spec/StreamSpec.v: Length bookkeeping, compression,
   DecodeParms plumbing, predictor geometry, and the decoding of every reference-encoded filter chain.
   flate2 / weezl appear only as the oracle functions [inflate], [lzw], [deflate]; every law assumed about them
   is written out in the statement that needs it. *)
From LV Require Import Base.Bytes Model.Obj Gen.Filters Model.A85 Model.Png Model.StreamFilt Model.FiltersPinned
  Spec.A85Spec Spec.PngSpec Spec.StreamSpec
  Proofs.FilterProofsPng Proofs.FilterProofsA85 Proofs.FilterProofsDict.
From Coq Require Import Lia ZArith List.
Import ListNotations.

Ltac Zify.zify_post_hook ::= Z.div_mod_to_equations.

(* ---------- the names read from the source are the names of the standard ---------- *)

Lemma names_agree :
  K_Filter = P_Filter /\ K_DecodeParms_ = P_DecodeParms /\ K_Length = P_Length /\
  F_FLATE = N_FlateDecode /\ F_LZW = N_LZWDecode /\ F_A85 = N_ASCII85Decode /\ COMPRESS_FILTER = N_FlateDecode /\
  K_Predictor = P_Predictor /\ K_COLUMNS = P_Columns /\ K_COLORS = P_Colors /\ K_BITS = P_BitsPerComponent /\
  K_EarlyChange = P_EarlyChange /\
  (PRED_DEFAULT = 1 /\ PRED_LO = 10 /\ PRED_HI = 15 /\ COLUMNS_DEFAULT = 1 /\ COLORS_DEFAULT = 1 /\ BITS_DEFAULT = 8)%Z /\
  EARLY_CHANGE_DEFAULT = true.
Proof. repeat split; reflexivity. Qed.

Lemma key_ne_FL : P_Filter <> P_Length. Proof. intro H; cbv in H; discriminate H. Qed.
Lemma key_ne_DL : P_DecodeParms <> P_Length. Proof. intro H; cbv in H; discriminate H. Qed.
Lemma key_ne_FD : P_Filter <> P_DecodeParms. Proof. intro H; cbv in H; discriminate H. Qed.
Lemma key_ne_DF : P_DecodeParms <> P_Filter. Proof. intro H; cbv in H; discriminate H. Qed.

(* ---------- Length ---------- *)

Definition length_ok (s : stream) : Prop :=
  dict_get (s_dict s) P_Length = Some (OInt (Z.of_nat (length (s_content s)))).

Definition unfiltered (s : stream) : Prop :=
  dict_get (s_dict s) P_Filter = None /\ dict_get (s_dict s) P_DecodeParms = None.

(* ---------- DecodeParms and Filter plumbing ---------- *)

Theorem params_for_spec d i : params_for d i = spec_params (dict_get d P_DecodeParms) i.
Proof.
  unfold params_for, spec_params. change K_DecodeParms_ with P_DecodeParms.
  destruct (dict_get d P_DecodeParms) as [[]|]; reflexivity.
Qed.

Lemma names_of_names names : names_of (map OName names) = Ok names.
Proof. induction names as [|n names IH]; cbn [map names_of]; [reflexivity | rewrite IH; reflexivity]. Qed.

Theorem filters_spec d o names :
  dict_get d P_Filter = Some o -> filter_entry names o -> filters d = Ok names.
Proof.
  unfold filters. change K_Filter with P_Filter. intros -> [-> | (n & -> & ->)]; [apply names_of_names | reflexivity].
Qed.

Lemma early_change_spec p e : early_fit p e -> early_change p = e.
Proof.
  unfold early_fit, early_change. change K_EarlyChange with P_EarlyChange. change EARLY_CHANGE_DEFAULT with true.
  destruct p as [d|]; [|congruence].
  destruct (dict_get d P_EarlyChange) as [[| |z| | | | | | |]|]; try tauto; try congruence.
  destruct z as [|[]|]; try tauto; intros ->; reflexivity.
Qed.

Lemma get_int_parm p k z : get_int p k z = int_parm (Some p) k z.
Proof. reflexivity. Qed.

(* ---------- predictor geometry ---------- *)

Lemma geometry pp : legal_pp pp ->
  (0 < bytes_per_pixel pp)%nat /\
  bytes_per_row pp = (bytes_per_pixel pp * Z.to_nat (pp_columns pp))%nat /\
  (Z.to_N (Z.max COLORS_MIN (pp_colors pp)) * Z.to_N (Z.max BITS_MIN (pp_bits pp)) / 8)%N = N.of_nat (bytes_per_pixel pp) /\
  (Z.to_N (Z.max COLORS_MIN (pp_colors pp)) * Z.to_N (Z.max BITS_MIN (pp_bits pp)) <= USIZE_MAX)%N /\
  Z.to_N (Z.max COLUMNS_MIN (pp_columns pp)) = N.of_nat (Z.to_nat (pp_columns pp)) /\
  (N.of_nat (bytes_per_row pp) <= USIZE_MAX)%N.
Proof.
  unfold legal_pp, bytes_per_pixel, bytes_per_row, COLORS_MIN, BITS_MIN, COLUMNS_MIN, USIZE_MAX.
  destruct pp as [pr w c b]. cbn [pp_predictor pp_columns pp_colors pp_bits].
  intros (_ & Hw & Hc & Hb & Hpix & Hlim).
  assert (Hcw : (c <= c * w)%Z) by nia.
  assert (Hm : (0 <= c * w)%Z) by nia.
  destruct Hb as [-> | ->].
  - change (Z.to_N (Z.max 8 8)) with 8%N.
    replace (c * 8 * w)%Z with (c * w * 8)%Z in * by ring.
    set (m := (c * w)%Z) in *.
    assert (E1 : ((c * 8 + 7) / 8 = c)%Z) by lia.
    assert (E2 : ((m * 8 + 7) / 8 = m)%Z) by lia.
    rewrite E1, E2. rewrite Z.max_r by lia. unfold m. rewrite Z2Nat.inj_mul by lia.
    repeat split; try lia.
  - change (Z.to_N (Z.max 8 16)) with 16%N.
    replace (c * 16 * w)%Z with (c * w * 2 * 8)%Z in * by ring.
    set (m := (c * w)%Z) in *.
    assert (E1 : ((c * 16 + 7) / 8 = c * 2)%Z) by lia.
    assert (E2 : ((m * 2 * 8 + 7) / 8 = m * 2)%Z) by lia.
    rewrite E1, E2. rewrite Z.max_r by lia.
    replace (m * 2)%Z with (c * 2 * w)%Z by (unfold m; ring).
    rewrite (Z2Nat.inj_mul (c * 2) w) by lia.
    repeat split; try lia.
Qed.

(* Predictor 10..15 with any Columns, Colors and BitsPerComponent 8 | 16: the decoder is handed the geometry
   of the standard *)
Theorem predictor_params p pp data :
  legal_pp pp -> parms_describe (Some p) pp ->
  decompress_predictor data (Some p) =
  decode_frame data (N.of_nat (bytes_per_pixel pp)) (N.of_nat (Z.to_nat (pp_columns pp))).
Proof.
  intros L (D1 & D2 & D3 & D4). destruct (geometry pp L) as (_ & _ & G1 & G2 & G3 & _).
  unfold decompress_predictor. rewrite !get_int_parm.
  change K_Predictor with P_Predictor. change PRED_DEFAULT with 1%Z.
  change K_COLUMNS with P_Columns. change COLUMNS_DEFAULT with 1%Z.
  change K_COLORS with P_Colors. change COLORS_DEFAULT with 1%Z.
  change K_BITS with P_BitsPerComponent. change BITS_DEFAULT with 8%Z.
  rewrite D1, D2, D3, D4. destruct L as (L1 & _).
  replace ((PRED_LO <=? pp_predictor pp)%Z && (pp_predictor pp <=? PRED_HI)%Z) with true
    by (symmetry; apply andb_true_iff; unfold PRED_LO, PRED_HI; split; apply Z.leb_le; lia).
  cbv zeta. replace (USIZE_MAX <? _)%N with false by (symmetry; apply N.ltb_ge; exact G2).
  rewrite G1, G3. reflexivity.
Qed.

Theorem predictor_absent p data :
  int_parm p P_Predictor 1 = 1%Z -> decompress_predictor data p = Ok data.
Proof.
  destruct p as [p|]; [|reflexivity]. unfold decompress_predictor. rewrite get_int_parm.
  change K_Predictor with P_Predictor. change PRED_DEFAULT with 1%Z. intros ->. reflexivity.
Qed.

Lemma undo_prediction pr p data payload :
  predicted pr data payload -> parms_fit pr p -> decompress_predictor payload p = Ok data.
Proof.
  destruct pr as [r|]; cbn [predicted parms_fit].
  - intros (L & -> & HR & HT & HV & ->) D.
    destruct p as [p|].
    { rewrite (predictor_params p (pr_parms r)) by assumption.
      destruct (geometry _ L) as (G0 & G1 & _ & _ & _ & G5). rewrite G1 in *.
      apply decode_frame_encode_frame; assumption. }
    destruct D as (D1 & _). cbn [int_parm] in D1. destruct L as (L1 & _). lia.
  - intros -> D. apply predictor_absent. exact D.
Qed.

Section Oracles.
  Variable inflate : bytes -> bytes.
  Variable lzw : bool -> bytes -> bytes.
  Variable deflate : bytes -> bytes.

  Lemma set_content_spec s c :
    s_content (set_content s c) = c /\ length_ok (set_content s c) /\
    (forall k, k <> P_Length -> dict_get (s_dict (set_content s c)) k = dict_get (s_dict s) k) /\
    (dict_wf (s_dict s) -> dict_wf (s_dict (set_content s c))).
  Proof.
    unfold length_ok, set_content. cbn [s_dict s_content]. change K_Length with P_Length. repeat split.
    - apply dict_get_set_same.
    - intros k H. apply dict_get_set_other. exact H.
    - apply dict_set_wf.
  Qed.

  Lemma removed_both d : dict_wf d ->
    let d' := dict_swap_remove (dict_swap_remove d P_DecodeParms) P_Filter in
    dict_wf d' /\ dict_get d' P_Filter = None /\ dict_get d' P_DecodeParms = None /\
    (forall k, k <> P_Filter -> k <> P_DecodeParms -> dict_get d' k = dict_get d k).
  Proof.
    intro W. cbv zeta. pose proof (swap_remove_wf d P_DecodeParms W) as W1.
    pose proof (swap_remove_wf _ P_Filter W1) as W2. repeat split.
    - exact W2.
    - apply dict_get_swap_remove_same. exact W1.
    - rewrite dict_get_swap_remove_other by (exact W1 || exact key_ne_DF).
      apply dict_get_swap_remove_same. exact W.
    - intros k H1 H2. rewrite dict_get_swap_remove_other by assumption.
      apply dict_get_swap_remove_other; assumption.
  Qed.

  Lemma set_plain_content_spec s c :
    s_content (set_plain_content s c) = c /\ length_ok (set_plain_content s c) /\
    (dict_wf (s_dict s) ->
       unfiltered (set_plain_content s c) /\ dict_wf (s_dict (set_plain_content s c)) /\
       forall k, k <> P_Length -> k <> P_Filter -> k <> P_DecodeParms ->
                 dict_get (s_dict (set_plain_content s c)) k = dict_get (s_dict s) k).
  Proof.
    unfold length_ok, unfiltered, set_plain_content. cbn [s_dict s_content].
    change K_Length with P_Length. change K_DecodeParms_ with P_DecodeParms. change K_Filter with P_Filter.
    split; [reflexivity|]. split; [apply dict_get_set_same|].
    intro W. destruct (removed_both _ W) as (W' & HF & HD & HO). cbv zeta in *.
    repeat split.
    - rewrite dict_get_set_other by exact key_ne_FL. exact HF.
    - rewrite dict_get_set_other by exact key_ne_DL. exact HD.
    - apply dict_set_wf. exact W'.
    - intros k H1 H2 H3. rewrite dict_get_set_other by exact H1. apply HO; assumption.
  Qed.

  (* ---------- get_plain_content of a stream without filter ---------- *)

  Lemma filters_absent d : dict_get d P_Filter = None -> filters d = Err EDictKey.
  Proof. unfold filters. change K_Filter with P_Filter. intros ->. reflexivity. Qed.

  Lemma plain_unfiltered s : dict_get (s_dict s) P_Filter = None -> get_plain_content inflate lzw s = Ok (s_content s).
  Proof. intro H. unfold get_plain_content. rewrite filters_absent by exact H. reflexivity. Qed.

  (* ---------- compress ---------- *)

  Definition compressed_form (s : stream) : stream :=
    set_content {| s_dict := dict_swap_remove (dict_set (s_dict s) K_Filter (OName COMPRESS_FILTER)) K_DecodeParms_;
                   s_content := s_content s |} (deflate (s_content s)).

  Lemma compress_cases s :
    compress deflate s = s \/
    (dict_get (s_dict s) P_Filter = None /\
     (length (deflate (s_content s)) + 19 < length (s_content s))%nat /\
     compress deflate s = compressed_form s).
  Proof.
    unfold compress, compressed_form, dict_has. change K_Filter with P_Filter.
    destruct (dict_get (s_dict s) P_Filter) eqn:E; [left; reflexivity|].
    destruct (N.ltb_spec (N.of_nat (length (deflate (s_content s))) + COMPRESS_SLACK) (N.of_nat (length (s_content s))))
      as [H|H]; [right | left; reflexivity].
    unfold COMPRESS_SLACK in H. repeat split. lia.
  Qed.

  Theorem compress_never_longer s :
    (length (s_content (compress deflate s)) <= length (s_content s))%nat.
  Proof.
    destruct (compress_cases s) as [-> | (_ & H & ->)]; [apply le_n|].
    unfold compressed_form. cbn [set_content s_content]. lia.
  Qed.

  Theorem compress_length s : compress deflate s = s \/ length_ok (compress deflate s).
  Proof.
    destruct (compress_cases s) as [H | (_ & _ & ->)]; [left; exact H | right].
    apply set_content_spec.
  Qed.

  (* the stream that compress builds decodes with the FlateDecode filter and no parameters *)
  Lemma compressed_form_plain s :
    dict_wf (s_dict s) ->
    get_plain_content inflate lzw (compressed_form s) =
    Ok (match deflate (s_content s) with [] => [] | _ => inflate (deflate (s_content s)) end).
  Proof.
    intro W. unfold compressed_form.
    set (d1 := dict_swap_remove (dict_set (s_dict s) K_Filter (OName COMPRESS_FILTER)) K_DecodeParms_).
    assert (W0 : dict_wf (dict_set (s_dict s) K_Filter (OName COMPRESS_FILTER))) by (apply dict_set_wf; exact W).
    assert (HF : dict_get d1 P_Filter = Some (OName COMPRESS_FILTER)).
    { unfold d1. change K_DecodeParms_ with P_DecodeParms. change K_Filter with P_Filter in *.
      rewrite dict_get_swap_remove_other by (exact W0 || exact key_ne_FD). apply dict_get_set_same. }
    assert (HD : dict_get d1 P_DecodeParms = None).
    { unfold d1. change K_DecodeParms_ with P_DecodeParms. apply dict_get_swap_remove_same. exact W0. }
    unfold set_content. cbn [s_dict s_content]. change K_Length with P_Length.
    set (d2 := dict_set d1 P_Length _).
    assert (HF2 : dict_get d2 K_Filter = Some (OName COMPRESS_FILTER)).
    { unfold d2. change K_Filter with P_Filter. rewrite dict_get_set_other by exact key_ne_FL. exact HF. }
    assert (HD2 : dict_get d2 K_DecodeParms_ = None).
    { unfold d2. change K_DecodeParms_ with P_DecodeParms. rewrite dict_get_set_other by exact key_ne_DL. exact HD. }
    unfold get_plain_content, decompressed_content, filters. cbn [s_dict s_content]. rewrite HF2.
    cbn [decode_loop]. unfold params_for. rewrite HD2.
    unfold decode_one. change (bytes_eqb COMPRESS_FILTER F_FLATE) with true. cbv iota.
    unfold decompress_zlib, decompress_predictor. reflexivity.
  Qed.

  (* Compressing and decoding again returns the original bytes.  The only facts about flate2 that are used:
     its decoder inverts its encoder ON THE CONTENT OF THIS STREAM, and a zlib stream is never empty. *)
  Theorem compress_lossless s :
    dict_wf (s_dict s) ->
    inflate (deflate (s_content s)) = s_content s -> deflate (s_content s) <> [] ->
    get_plain_content inflate lzw (compress deflate s) = get_plain_content inflate lzw s.
  Proof.
    intros W HI HE. destruct (compress_cases s) as [-> | (HF & _ & ->)]; [reflexivity|].
    rewrite compressed_form_plain by exact W. rewrite plain_unfiltered by exact HF.
    destruct (deflate (s_content s)); [congruence|]. rewrite HI. reflexivity.
  Qed.

  Corollary compress_unfiltered_lossless s :
    dict_wf (s_dict s) -> dict_get (s_dict s) P_Filter = None ->
    inflate (deflate (s_content s)) = s_content s -> deflate (s_content s) <> [] ->
    get_plain_content inflate lzw (compress deflate s) = Ok (s_content s).
  Proof. intros W HF HI HE. rewrite compress_lossless by assumption. apply plain_unfiltered. exact HF. Qed.

  (* ---------- decompress ---------- *)

  Theorem decompress_spec s s' :
    decompress inflate lzw s = Ok s' ->
    decompressed_content inflate lzw s = Ok (s_content s') /\ length_ok s' /\
    (dict_wf (s_dict s) -> unfiltered s' /\ get_plain_content inflate lzw s' = Ok (s_content s')).
  Proof.
    unfold decompress. destruct (decompressed_content inflate lzw s) as [data| | |] eqn:E; try discriminate.
    intro H. inversion H; subst s'; clear H.
    set (s1 := {| s_dict := _; s_content := s_content s |}).
    destruct (set_content_spec s1 data) as (HC & HL & HO & _).
    rewrite HC. split; [reflexivity|]. split; [exact HL|].
    intro W. change K_DecodeParms_ with P_DecodeParms in *. change K_Filter with P_Filter in *.
    destruct (removed_both _ W) as (_ & HF & HD & _). cbv zeta in *.
    assert (U : unfiltered (set_content s1 data)).
    { split; rewrite HO by (exact key_ne_FL || exact key_ne_DL); assumption. }
    split; [exact U|]. rewrite plain_unfiltered by apply U. rewrite HC. reflexivity.
  Qed.

  (* ---------- one stage, then every chain ---------- *)

  Lemma name_dispatch :
    bytes_eqb N_FlateDecode F_FLATE = true /\
    bytes_eqb N_LZWDecode F_FLATE = false /\ bytes_eqb N_LZWDecode F_LZW = true /\
    bytes_eqb N_ASCII85Decode F_FLATE = false /\ bytes_eqb N_ASCII85Decode F_LZW = false /\
    bytes_eqb N_ASCII85Decode F_A85 = true.
  Proof. repeat split; reflexivity. Qed.

  Theorem stage_decodes st p data enc :
    encodes_stage inflate lzw st data enc -> stage_parms_ok st p ->
    decode_one inflate lzw (stage_name st) p enc = Ok data.
  Proof using inflate lzw.
    clear deflate.
    destruct name_dispatch as (E1 & E2 & E3 & E4 & E5 & E6).
    destruct st as [|pr|early pr]; cbn [encodes_stage stage_parms_ok stage_name]; unfold decode_one.
    - intros H _. rewrite E4, E5, E6. apply a85_agrees. exact H.
    - intros (payload & HP & HN & HI) D. rewrite E1. unfold decompress_zlib.
      destruct enc as [|x enc]; [congruence|]. rewrite HI. apply (undo_prediction pr); assumption.
    - intros (payload & HP & HI) (D & HE). rewrite E2, E3. unfold decompress_lzw.
      rewrite (early_change_spec p early HE), HI. apply (undo_prediction pr); assumption.
  Qed.

  Lemma decode_loop_chain d : forall stages plain enc index out,
    encodes_chain inflate lzw stages plain enc ->
    (forall i st, nth_error stages i = Some st -> stage_parms_ok st (params_for d (index + i))) ->
    decode_loop inflate lzw d (map stage_name stages) index enc out =
    Ok (match stages with [] => out | _ => plain end).
  Proof using inflate lzw.
    clear deflate.
    induction stages as [|st sts IH]; intros plain enc index out HC HP; [reflexivity|].
    inversion HC as [|? ? ? mid ? HC' HS]; subst.
    cbn [map decode_loop].
    rewrite (stage_decodes st _ mid enc HS).
    - rewrite (IH plain mid (S index) mid HC').
      + destruct sts; [inversion HC'; reflexivity | reflexivity].
      + intros i st' Hi. replace (S index + i) with (index + S i) by lia. apply HP. exact Hi.
    - specialize (HP 0 st eq_refl). rewrite Nat.add_0_r in HP. exact HP.
  Qed.

  (* For every stream whose filter chain consists of FlateDecode, LZWDecode and ASCII85Decode (ANY length, not
     only 1..3) with legal parameters given in either form, the decoded content is the data the reference
     encoders started from. *)
  Theorem chain_decodes stages d content plain fo :
    stages <> [] ->
    dict_get d P_Filter = Some fo -> filter_entry (map stage_name stages) fo ->
    (forall i st, nth_error stages i = Some st -> stage_parms_ok st (spec_params (dict_get d P_DecodeParms) i)) ->
    encodes_chain inflate lzw stages plain content ->
    decompressed_content inflate lzw {| s_dict := d; s_content := content |} = Ok plain /\
    get_plain_content inflate lzw {| s_dict := d; s_content := content |} = Ok plain.
  Proof using inflate lzw.
    clear deflate.
    intros HN HF HE HP HC.
    assert (D : decompressed_content inflate lzw {| s_dict := d; s_content := content |} = Ok plain).
    { unfold decompressed_content. cbn [s_dict s_content]. rewrite (filters_spec d fo _ HF HE).
      rewrite (decode_loop_chain d stages plain content 0 [] HC).
      - destruct stages; [congruence | reflexivity].
      - intros i st Hi. rewrite params_for_spec. apply HP. exact Hi. }
    split; [exact D|].
    unfold get_plain_content. cbn [s_dict]. rewrite (filters_spec d fo _ HF HE).
    destruct stages; [congruence|]. cbn [map]. exact D.
  Qed.
End Oracles.

(* ---------- the fuel of the model never runs out; an empty filter list ---------- *)

Lemma emit_fuel pre r : emit pre r = Fuel -> r = Fuel.
Proof. destruct r; cbn [emit]; congruence. Qed.

Lemma finish_no_fuel buf cnt : finish buf cnt <> Fuel.
Proof. unfold finish. destruct cnt; [discriminate|]. destruct (pad _ _); discriminate. Qed.

Lemma a85_loop_no_fuel : forall input buf cnt, loop input buf cnt <> Fuel.
Proof.
  induction input as [|ch input IH]; intros buf cnt; cbn [loop]; [apply finish_no_fuel|].
  destruct (byte_eqb ch A85_Z).
  - destruct cnt; [|discriminate]. intro H. apply emit_fuel in H. exact (IH _ _ H).
  - destruct (is_skipped ch); [apply IH|].
    destruct (negb (in_digit_range ch)); [apply finish_no_fuel|].
    destruct (accum _ _); [|discriminate].
    destruct (Nat.eqb _ _); [|apply IH]. intro H. apply emit_fuel in H. exact (IH _ _ H).
Qed.

Lemma decode_row_no_fuel t bpp prev cur : decode_row t bpp prev cur <> Fuel /\ forall e, decode_row t bpp prev cur <> Err e.
Proof. unfold decode_row. destruct (_ && _); split; try discriminate; intro; discriminate. Qed.

Lemma frame_go_no_fuel bpp bpr : forall fuel prev content,
  length content <= fuel -> frame_go fuel bpp bpr prev content <> Fuel.
Proof.
  induction fuel as [|fuel IH]; intros prev content Hl; destruct content as [|f rest]; cbn [frame_go]; try discriminate.
  - cbn [length] in Hl. lia.
  - cbn [length] in Hl.
    destruct (ftype_of_N _); [|discriminate]. destruct (N.ltb _ _); [discriminate|].
    destruct (decode_row_no_fuel f0 bpp (match prev with Some p => p | None => repeat x00 (N.to_nat bpr) end)
                                 (firstn (N.to_nat bpr) rest)) as [H1 H2].
    destruct (decode_row _ _ _ _) as [row|e| |]; try discriminate; [|congruence].
    intro H. apply emit_fuel in H. revert H. apply IH.
    rewrite skipn_length. lia.
Qed.

Theorem decode_frame_no_fuel content bpp ppr : decode_frame content bpp ppr <> Fuel.
Proof. unfold decode_frame. destruct (N.ltb _ _); [discriminate|]. apply frame_go_no_fuel. apply le_n. Qed.

Lemma decompress_predictor_no_fuel data p : decompress_predictor data p <> Fuel.
Proof.
  unfold decompress_predictor. destruct p; [|discriminate].
  destruct (_ && _); [|discriminate]. cbv zeta. destruct (N.ltb _ _); [discriminate|]. apply decode_frame_no_fuel.
Qed.

Lemma filters_no_fuel d : filters d <> Fuel /\ filters d <> Panic.
Proof.
  assert (N : forall l, names_of l <> Fuel /\ names_of l <> Panic).
  { induction l as [|o l [I1 I2]]; cbn [names_of]; [split; discriminate|].
    destruct o; try (split; discriminate). destruct (names_of l); split; congruence. }
  unfold filters. destruct (dict_get d K_Filter) as [[]|]; try (split; discriminate). apply N.
Qed.

(* ASCIIHexDecode (Model/AsciiHex.v, added with the repair of C02-asciihex) is structurally recursive *)
Lemma ahx_loop_no_fuel input : forall high, AsciiHex.loop input high <> Fuel.
Proof.
  induction input as [|ch rest IH]; intro high; cbn [AsciiHex.loop]; [discriminate|].
  destruct (AsciiHex.hex_digit ch).
  - destruct high; [|apply IH]. specialize (IH None). destruct (AsciiHex.loop rest None); cbn [emit]; congruence.
  - destruct (byte_eqb ch AHX_EOD); [discriminate|]. destruct (_ || _); [apply IH | discriminate].
Qed.

Theorem decompressed_content_no_fuel inflate lzw s : decompressed_content inflate lzw s <> Fuel.
Proof.
  assert (L : forall d fs index input output, decode_loop inflate lzw d fs index input output <> Fuel).
  { intros d. induction fs as [|f fs IH]; intros index input output; cbn [decode_loop]; [discriminate|].
    assert (decode_one inflate lzw f (params_for d index) input <> Fuel) as H1.
    { unfold decode_one. destruct (bytes_eqb f F_FLATE); [apply decompress_predictor_no_fuel|].
      destruct (bytes_eqb f F_LZW); [apply decompress_predictor_no_fuel|].
      destruct (bytes_eqb f F_A85); [apply a85_loop_no_fuel |].
      destruct (AHX_ENABLED && bytes_eqb f F_AHX); [apply ahx_loop_no_fuel | discriminate]. }
    destruct (decode_one _ _ _ _ _); try congruence; apply IH. }
  unfold decompressed_content. destruct (filters_no_fuel (s_dict s)) as [F1 F2].
  destruct (filters (s_dict s)); try congruence; apply L.
Qed.

(* a Filter entry that is an empty array: the plain content is the content itself *)
Theorem plain_empty_filters inflate lzw s :
  dict_get (s_dict s) P_Filter = Some (OArr []) -> get_plain_content inflate lzw s = Ok (s_content s).
Proof. intro H. unfold get_plain_content, filters. change K_Filter with P_Filter. rewrite H. reflexivity. Qed.

(* ---------- the pinned behaviour ---------- *)

(* f51f21b: Average filter, one byte per pixel, row [8; 19] over [10; 20] *)
Lemma avg_pinned_refuted :
  exists prior raw, length prior = length raw /\
    decode_row_v0 FAvg 1 prior (encode_row 3 1 prior raw) = Ok [x08; x17] /\ raw = [x08; x13].
Proof. exists [x0a; x14], [x08; x13]. repeat split; vm_compute; reflexivity. Qed.

Lemma avg_witness_repaired : decode_row FAvg 1 [x0a; x14] (encode_row 3 1 [x0a; x14] [x08; x13]) = Ok [x08; x13].
Proof. vm_compute. reflexivity. Qed.

(* a concrete legal stream: ASCII85 around Flate with Predictor 12, Columns 2, parameters as a parallel array *)
Definition ex_pp : pred_parms := {| pp_predictor := 12; pp_columns := 2; pp_colors := 1; pp_bits := 8 |}.
Definition ex_rows : list bytes := [[x01; x02]; [x03; x05]].
Definition ex_pred : prediction := {| pr_parms := ex_pp; pr_types := [2; 3]%N; pr_rows := ex_rows |}.
Definition ex_payload : bytes := Eval cbv in encode_frame [2; 3]%N 1 2 ex_rows.
Definition ex_zlib : bytes := [x78; x9c].       (* stands for a zlib stream; the oracle below maps it to the payload *)
Definition ex_inflate (enc : bytes) : bytes := if bytes_eqb enc ex_zlib then ex_payload else [].
Definition ex_lzw (e : bool) (enc : bytes) : bytes := [].
Definition ex_parm_dict : dict := [(P_Predictor, OInt 12); (P_Columns, OInt 2)].
Definition ex_content_flate : bytes := ex_zlib.
Definition ex_content : bytes := Eval cbv in A85Spec.encode ex_zlib ++ EOD.
Definition ex_stages : list stage := [SA85; SFlate (Some ex_pred)].
Definition ex_dict_array : dict :=
  [(P_Filter, OArr [OName N_ASCII85Decode; OName N_FlateDecode]); (P_DecodeParms, OArr [ONull; ODict ex_parm_dict])].
Definition ex_dict_single : dict := [(P_Filter, OName N_FlateDecode); (P_DecodeParms, ODict ex_parm_dict)].

Lemma ex_legal : legal_pp ex_pp.
Proof. unfold legal_pp, ex_pp. cbn. lia. Qed.

Lemma ex_predicted : predicted (Some ex_pred) (concat ex_rows) ex_payload.
Proof.
  cbn [predicted ex_pred pr_parms pr_types pr_rows]. split; [exact ex_legal|]. split; [reflexivity|].
  split; [repeat constructor|]. split; [reflexivity|]. split; [repeat constructor; unfold valid_type; lia|].
  reflexivity.
Qed.

Lemma ex_chain : encodes_chain ex_inflate ex_lzw ex_stages (concat ex_rows) ex_content.
Proof.
  apply (EC_cons _ _ SA85 _ _ ex_zlib).
  - apply (EC_cons _ _ _ [] _ (concat ex_rows)); [constructor|].
    exists ex_payload. split; [exact ex_predicted|]. split; [discriminate | reflexivity].
  - exists (A85Spec.encode ex_zlib), []. split; reflexivity.
Qed.

Lemma ex_parms_array i st : nth_error ex_stages i = Some st ->
  stage_parms_ok st (spec_params (dict_get ex_dict_array P_DecodeParms) i).
Proof.
  destruct i as [|[|i]]; cbn [nth_error ex_stages]; intro H; inversion H; subst; cbn.
  - exact I.
  - repeat split.
  - destruct i; discriminate.
Qed.

Lemma ex_array_hyps :
  ex_stages <> [] /\
  dict_get ex_dict_array P_Filter = Some (OArr (map OName (map stage_name ex_stages))) /\
  (forall i st, nth_error ex_stages i = Some st -> stage_parms_ok st (spec_params (dict_get ex_dict_array P_DecodeParms) i)) /\
  encodes_chain ex_inflate ex_lzw ex_stages (concat ex_rows) ex_content /\
  concat ex_rows = [x01; x02; x03; x05].
Proof. split; [discriminate|]. split; [reflexivity|]. split; [exact ex_parms_array|]. split; [exact ex_chain | reflexivity]. Qed.

Lemma ex_single_hyps :
  dict_get ex_dict_single P_Filter = Some (OName N_FlateDecode) /\
  stage_parms_ok (SFlate (Some ex_pred)) (spec_params (dict_get ex_dict_single P_DecodeParms) 0) /\
  encodes_chain ex_inflate ex_lzw [SFlate (Some ex_pred)] (concat ex_rows) ex_zlib.
Proof.
  split; [reflexivity|]. split; [cbn; repeat split|].
  apply (EC_cons _ _ _ [] _ (concat ex_rows)); [constructor|].
  exists ex_payload. split; [exact ex_predicted|]. split; [discriminate | reflexivity].
Qed.

(* c3c22fe: with the parameters in the array form the pinned code skipped the predictor and returned the
   still-predicted bytes (type byte + filtered row, twice) *)
Lemma parms_array_pinned_refuted :
  decompressed_content_v0 ex_inflate ex_lzw {| s_dict := ex_dict_array; s_content := ex_content |} = Ok ex_payload /\
  ex_payload <> concat ex_rows.
Proof. split; [vm_compute; reflexivity | vm_compute; discriminate]. Qed.

(* fcb7fe1: 25 zero bytes with a leftover DecodeParms << /Predictor 12 /Columns 4 >> and no Filter; a toy codec
   that satisfies the two laws of compress_lossless on this content *)
Definition stale_content : bytes := repeat x00 25.
Definition stale_stream : stream :=
  {| s_dict := [(P_DecodeParms, ODict [(P_Predictor, OInt 12); (P_Columns, OInt 4)])]; s_content := stale_content |}.
Definition toy_deflate (x : bytes) : bytes := [x78].
Definition toy_inflate (x : bytes) : bytes := stale_content.

Lemma compress_pinned_refuted :
  dict_wf (s_dict stale_stream) /\ dict_get (s_dict stale_stream) P_Filter = None /\
  toy_inflate (toy_deflate (s_content stale_stream)) = s_content stale_stream /\
  toy_deflate (s_content stale_stream) <> [] /\
  decompressed_content_v0 toy_inflate ex_lzw (compress_v0 toy_deflate stale_stream) = Ok (repeat x00 20) /\
  repeat x00 20 <> s_content stale_stream.
Proof.
  split; [repeat constructor; intros []|]. split; [reflexivity|]. split; [reflexivity|]. split; [discriminate|].
  split; [vm_compute; reflexivity | vm_compute; discriminate].
Qed.

Lemma compress_witness_repaired :
  get_plain_content toy_inflate ex_lzw (compress toy_deflate stale_stream) = Ok (s_content stale_stream) /\
  compress toy_deflate stale_stream <> stale_stream.
Proof. split; [vm_compute; reflexivity | vm_compute; discriminate]. Qed.
