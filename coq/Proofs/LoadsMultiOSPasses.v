(* LoadsMultiOSPasses.v -- C02, files of ref_write_multi with object streams in two or more parts, step 2 of notes/C02.md
   Round 6: LoadsObjStmFile.GenFile from entry_specG on, restated for ANY buffer and the MERGED table.
   Section Tail takes as hypotheses exactly what the invariant of the parts has to deliver when no part remains
   (the table facts HXn / Hall_p / Hall_c / Hall_m: every type-1 entry of the merged table names a current plain object, a
   container or a cross-reference stream at the byte where its text starts; every current object has its entry; every
   member is named by the type-2 entry of its container -- the writer half of the last one is
   LoadsMultiObjStm.multi_members_named) and proves what the reader's three passes (LoadsLoopProofs.v) deliver:
     entry_specT   what parser::_indirect_object / ObjectStream::new make of every entry in use (LoadsMultiOSAt.v);
     M1T_lookup    pass A/B of the object streams: every member a container delivers is named by the merged table;
     deferred_okT  a stream whose Length is a member of an object stream OF ANY PART gets its data in the last pass;
     loaded_plainT / loaded_memberT / loaded_contT / loaded_xT / loaded_onlyT   exactly the current objects;
     tail_loads    Reader::read (load_ext_frame_chain) on a chain of sections whose merge is that table.
   No layout of the file is used: the object streams may sit in any part. *)
From LV Require Import Base.Bytes Base.Sx Model.Obj Model.Writer Model.Parser Model.Xref Model.ObjStm Model.Loader Model.Utf Gen.Lex
  Spec.XrefSpec Spec.RefWriter Proofs.LexProofs Proofs.LoadProofs Proofs.LoadProofsFile Proofs.XrefProofs
  Proofs.XrefTableProofs Proofs.ObjectRtProofs Proofs.SpellingProofs Proofs.SpellingObjProofs Proofs.SpellingFileProofs
  Proofs.LoadsFrameProofs Proofs.LoadsTableProofs Proofs.FilterProofsDict.
From LV Require Proofs.LoadProofsStream.
From LV Require Import Model.LoaderExt Proofs.LoaderExtProofs Proofs.LengthRefProofs.
From LV Require Import Proofs.LoadsFilterProofs Proofs.LoadsStreamProofs Proofs.LoadsRefLenProofs Proofs.LoadsLoopProofs.
From LV Require Import Proofs.ObjStmSpellProofs Proofs.ObjStmFilterProofs Proofs.LoadsObjStmProofs Proofs.ObjStmPredProofs.
From LV Require Model.Png Spec.StreamCodecSpec Model.StreamFilt Gen.SaveFmt.
From LV Require Import Proofs.LoadsObjStmFile.
From LV Require Proofs.LoadsMultiMixed.
From Coq Require Import Lia.
Local Open Scope N_scope.
From LV Require Import Proofs.LoadsMultiOSAt.
From LV Require Proofs.LoadsMultiXSec.

Lemma nodup_filter_keys (f : oid * obj -> bool) : forall l : list (oid * obj),
  NoDup (map (fun io : oid * obj => fst (fst io)) l) -> NoDup (map (fun io : oid * obj => fst (fst io)) (filter f l)).
Proof.
  induction l as [|io l IH]; intro K; [constructor|]. cbn [map filter] in *. inversion K as [|? ? K1 K2]; subst.
  destruct (f io); [|apply IH; exact K2]. cbn [map]. constructor; [|apply IH; exact K2].
  intro Hin. apply K1. apply in_map_iff in Hin as [io' [E Hin]]. apply filter_In in Hin as [Hin _]. apply in_map_iff. exists io'. split; assumption.
Qed.

Section Tail.
  Variable a : adoc.
  Variable osl : list ostm.            (* the object streams of the file, whichever part holds them *)
  Variable yl_of : N -> istyle.        (* the indirect-object style of a top-level object *)
  Variable xt : list top.              (* the cross-reference streams of all parts, as top-level objects *)
  Variable buf : bytes.                (* the file from %PDF- on *)
  Variable X : xmap.                   (* the MERGED table *)

  Definition compT : list N := flat_map os_members osl.
  Definition iscT (n : N) : bool := mem_N n compT.
  Definition ptopsT : list top :=
    map (fun io : oid * obj => (fst io, snd io, yl_of (fst (fst io)))) (filter (fun io => negb (iscT (fst (fst io)))) (a_objs a)).
  Definition cidsT : list N := map os_id osl.
  Definition find_contT (n : N) : option ostm := find (fun s => os_id s =? n) osl.
  Definition find_topT (n : N) : option top := find (fun tp => top_num tp =? n) ptopsT.

  (* where an object stands: the entry names the byte where its text starts *)
  Definition stands (tp : top) (off : N) : Prop := exists pre post, buf = pre ++ top_text tp ++ post /\ off = blen pre.

  (* ---------- the domain ---------- *)
  Hypothesis Hnd : NoDup (nums a).
  Hypothesis Hcnd : NoDup compT.
  Hypothesis Hcids : NoDup cidsT.
  Hypothesis Hptops : Forall (top_ok2 a) ptopsT.
  Hypothesis Hp32 : forall tp, In tp ptopsT -> top_num tp <= u32_max.
  Hypothesis Hcont : Forall (cont_ok a) osl.
  Hypothesis Hc32 : forall s, In s osl -> os_id s <= u32_max /\ Forall (fun m => m <= u32_max) (os_members s).
  Hypothesis Hxt : forall tp, In tp xt -> top_ok tp /\ top_num tp <= u32_max.
  Hypothesis Hdisj_pc : forall tp, In tp ptopsT -> ~ In (top_num tp) cidsT.
  Hypothesis Hdisj_xc : forall tp, In tp xt -> ~ In (top_num tp) cidsT.
  Hypothesis Hdisj_xp : forall tp tp', In tp xt -> In tp' ptopsT -> top_num tp <> top_num tp'.
  (* ---------- what the merged table says (the invariant of the parts, when no part remains) ---------- *)
  Hypothesis HXfun : forall n e, In (n, e) X -> xget X n = Some e.
  Hypothesis HXnd : NoDup (map fst X).
  (* every type-1 entry names a current plain object, a container or a cross-reference stream, at the byte where it starts *)
  Hypothesis HXn : forall n off g, In (n, XNormal off g) X ->
    exists tp : top, fst (fst tp) = (n, g) /\ stands tp off /\
      (In tp ptopsT \/ (exists s, In s osl /\ cont_top (a_objs a) s tp) \/ In tp xt).
  (* every current object has its entry *)
  Hypothesis Hall_p : forall tp, In tp ptopsT -> exists off, In (top_num tp, XNormal off (snd (fst (fst tp)))) X /\ stands tp off.
  Hypothesis Hall_c : forall s, In s osl -> exists tp off, cont_top (a_objs a) s tp /\ In (os_id s, XNormal off 0) X /\ stands tp off.
  (* every member is named by the type-2 entry of its container (LoadsMultiObjStm.multi_members_named) *)
  Hypothesis Hall_m : forall s n, In s osl -> In n (os_members s) -> exists k, In (n, XCompressed (os_id s) k) X.

  Definition memfT (n : N) : option objmap :=
    match find_contT n with Some s => Some (members_val (a_objs a) s (itemsof a s)) | None => None end.
  Definition objfT (n g : N) : obj :=
    match find_contT n with
    | Some s => cont_loaded a s
    | None => match xget X n with
              | Some (XNormal off _) => match indirect_x buf X (from off buf) None with IxOk _ o _ => o | _ => ONull end
              | _ => ONull
              end
    end.
  Definition posfT (n g : N) : option N :=
    match xget X n with
    | Some (XNormal off _) => match indirect_x buf X (from off buf) None with IxOk _ _ pos => pos | _ => None end
    | _ => None
    end.
  Definition fullT (id : oid) : obj := match find_topT (fst id) with Some tp => loaded_top tp | None => ONull end.

  Lemma mem_N_InT n l : mem_N n l = true <-> In n l.
  Proof. apply LoadsMultiMixed.mem_N_In. Qed.

  Lemma find_contT_in s : In s osl -> find_contT (os_id s) = Some s.
  Proof.
    intro Hs. unfold find_contT. destruct (find (fun s0 => os_id s0 =? os_id s) osl) as [s'|] eqn:Ef.
    - apply find_some in Ef as [H1 H2]. apply N.eqb_eq in H2. f_equal.
      apply (unique_by_key os_id osl); [exact Hcids|exact H1|exact Hs|exact H2].
    - pose proof (find_none _ _ Ef s Hs) as K. cbv beta in K. rewrite N.eqb_refl in K. discriminate K.
  Qed.
  Lemma find_contT_some n s : find_contT n = Some s -> In s osl /\ os_id s = n.
  Proof. unfold find_contT. intro H. apply find_some in H as [H1 H2]. apply N.eqb_eq in H2. split; assumption. Qed.
  Lemma find_contT_none n : ~ In n cidsT -> find_contT n = None.
  Proof.
    intro H. destruct (find_contT n) as [s|] eqn:E; [|reflexivity]. exfalso. apply find_contT_some in E as [H1 H2].
    apply H. rewrite <- H2. unfold cidsT. apply in_map. exact H1.
  Qed.

  Lemma ptops_nd : NoDup (map top_num ptopsT).
  Proof.
    unfold ptopsT. rewrite map_map. unfold top_num. cbn [fst]. apply nodup_filter_keys. exact Hnd.
  Qed.

  Lemma find_topT_in tp : In tp ptopsT -> find_topT (top_num tp) = Some tp.
  Proof.
    intro H. unfold find_topT. destruct (find (fun tp0 => top_num tp0 =? top_num tp) ptopsT) as [tp'|] eqn:Ef.
    - apply find_some in Ef as [H1 H2]. apply N.eqb_eq in H2. f_equal. apply (unique_by_key top_num ptopsT); [exact ptops_nd|exact H1|exact H|exact H2].
    - exfalso. pose proof (find_none _ _ Ef tp H) as K. cbv beta in K. rewrite N.eqb_refl in K. discriminate K.
  Qed.

  Lemma ptop_not_member tp : In tp ptopsT -> iscT (top_num tp) = false.
  Proof.
    unfold ptopsT. intro H. apply in_map_iff in H as [io [<- H]]. apply filter_In in H as [_ H]. unfold top_num. cbn [fst]. cbv beta in H.
    apply negb_true_iff in H. exact H.
  Qed.

  Lemma ptop_of_obj li lg o : In ((li, lg), o) (a_objs a) -> iscT li = false -> In ((li, lg), o, yl_of li) ptopsT.
  Proof.
    intros H E. unfold ptopsT. apply in_map_iff. exists ((li, lg), o). split; [reflexivity|]. apply filter_In. split; [exact H|]. cbn [fst]. rewrite E. reflexivity.
  Qed.

  Lemma comp_InT n : iscT n = true -> exists s, In s osl /\ In n (os_members s).
  Proof. unfold iscT, compT. intro H. apply mem_N_InT in H. apply in_flat_map in H. exact H. Qed.

  Lemma member_xget s n : In s osl -> In n (os_members s) -> exists k, xget X n = Some (XCompressed (os_id s) k).
  Proof. intros Hs Hn. destruct (Hall_m s n Hs Hn) as [k Hk]. exists k. apply HXfun. exact Hk. Qed.

  (* the two look-ups plain_at asks for, from the table facts *)
  Lemma len_plainT li lg len : In ((li, lg), OInt len) (a_objs a) -> iscT li = false ->
    exists offl rest, xget X li = Some (XNormal offl lg) /\ offl <= blen buf /\
      from offl buf = w_indirect li lg (OInt len) (yl_of li) ++ rest /\ li <= u32_max /\ lg <= u16_max /\ in_i64 len = true.
  Proof.
    intros Hin Ec. pose proof (ptop_of_obj li lg (OInt len) Hin Ec) as Htl. set (tl := ((li, lg), OInt len, yl_of li)) in *.
    destruct (Hall_p tl Htl) as [off [He [pre [post [Hb Ho]]]]].
    pose proof (proj1 (Forall_forall _ _) Hptops tl Htl) as Hk. unfold tl, top_ok2 in Hk. cbn [fst snd] in Hk. destruct Hk as [_ [Hlg [Hlw _]]].
    exists off, (gap_bytes (i_gap (yl_of li)) ++ post). split; [apply HXfun; exact He|].
    split; [rewrite Ho, Hb; unfold blen; rewrite !app_length; lia|].
    split; [rewrite Ho, Hb, from_app; unfold top_text, tl; cbn [fst snd]; rewrite <- app_assoc; reflexivity|].
    split; [exact (Hp32 tl Htl)|]. split; [exact Hlg|exact Hlw].
  Qed.

  Lemma len_compT li lg len : In ((li, lg), OInt len) (a_objs a) -> iscT li = true -> exists c k, xget X li = Some (XCompressed c k).
  Proof. intros _ Ec. destruct (comp_InT li Ec) as [s [Hs Hm]]. destruct (member_xget s li Hs Hm) as [k Hk]. exists (os_id s), k. exact Hk. Qed.

  Lemma members_ndT s : In s osl -> NoDup (os_members s).
  Proof. intro Hs. apply (NoDup_flat_in os_members osl s Hcnd Hs). Qed.

  Lemma cont_buildT s : In s osl -> os_build (a_objs a) (os_members s) (os_items s) true = Some (itemsof a s).
  Proof. intro Hs. destruct (Hall_c s Hs) as [tp [off [Hc _]]]. exact (cont_top_build a s tp Hc). Qed.

  Lemma cont_top_fun s tp tp' : cont_top (a_objs a) s tp -> cont_top (a_objs a) s tp' -> tp = tp'.
  Proof. intros [o [H1 ->]] [o' [H2 ->]]. rewrite H1 in H2. inversion H2. reflexivity. Qed.

  (* ---------- what the first pass finds at one object ---------- *)
  Lemma plain_hereT tp off : In tp ptopsT -> stands tp off ->
    exists post pos, from off buf = top_text tp ++ post /\ off <= blen buf /\
      indirect_x buf X (top_text tp ++ post) None = IxOk (fst (fst tp)) (first_top_by iscT tp) pos /\
      no_objstm (first_top_by iscT tp) /\ match first_top_by iscT tp with OStream _ _ => True | _ => pos = None end /\
      ((pos = None /\ first_top_by iscT tp = loaded_top tp) \/
       exists d c li lg start rest, snd (fst tp) = OStream d c /\ dict_get d K_Length = Some (ORef li lg) /\ iscT li = true /\
         In ((li, lg), OInt (Z.of_nat (length c))) (a_objs a) /\
         pos = Some start /\ start <= blen buf /\ from start buf = c ++ rest).
  Proof.
    intros Hp [pre [post [Hb Ho]]].
    destruct (plain_at a iscT yl_of buf X pre tp post (proj1 (Forall_forall _ _) Hptops tp Hp) (Hp32 tp Hp) Hb len_plainT len_compT)
      as [pos K].
    exists post, pos. split; [rewrite Ho, Hb; apply from_app|]. split; [rewrite Ho, Hb; unfold blen; rewrite !app_length; lia|exact K].
  Qed.

  Lemma cont_hereT s tp off : In s osl -> cont_top (a_objs a) s tp -> stands tp off ->
    exists post, from off buf = top_text tp ++ post /\ off <= blen buf /\ fst (fst tp) = (os_id s, 0) /\
      indirect_x buf X (top_text tp ++ post) None =
        IxOk (os_id s, 0) (OStream (D s (itemsof a s) (cstsG s)) (fst (enc s (itemsof a s)))) None /\
      has_type (D s (itemsof a s) (cstsG s)) K_ObjStm = true /\
      exists d' k, objstm_new decompress_ref (D s (itemsof a s) (cstsG s)) (fst (enc s (itemsof a s))) =
                   ((d', payload s (itemsof a s) ++ repeat x20 k), OsOk (members_val (a_objs a) s (itemsof a s))).
  Proof.
    intros Hs Hc [pre [post [Hb Ho]]]. destruct (Hc32 s Hs) as [H1 H2].
    destruct (cont_at a s buf X tp post Hc (proj1 (Forall_forall _ _) Hcont s Hs) (members_ndT s Hs) H1 H2) as [Q0 [Q1 [Q2 Q3]]].
    exists post. split; [rewrite Ho, Hb; apply from_app|]. split; [rewrite Ho, Hb; unfold blen; rewrite !app_length; lia|].
    split; [exact Q0|]. split; [exact Q1|]. split; [exact Q2|exact Q3].
  Qed.

  Lemma x_hereT tp off : In tp xt -> stands tp off ->
    exists post, from off buf = top_text tp ++ post /\ off <= blen buf /\
      indirect_x buf X (top_text tp ++ post) None = IxOk (fst (fst tp)) (loaded_top tp) None /\ no_objstm (loaded_top tp).
  Proof.
    intros Hx [pre [post [Hb Ho]]]. destruct (Hxt tp Hx) as [H1 H2].
    destruct (LoadsMultiXSec.indirect_x_top buf X tp post H1 H2) as [P1 P2].
    exists post. split; [rewrite Ho, Hb; apply from_app|]. split; [rewrite Ho, Hb; unfold blen; rewrite !app_length; lia|]. split; assumption.
  Qed.

  (* THE ENTRIES IN USE of the merged table *)
  Lemma entry_specT n off g : In (n, XNormal off g) X ->
    entry_spec decompress_ref can_ref buf X objfT posfT memfT n off g.
  Proof.
    intro H. pose proof (HXfun _ _ H) as Hx. destruct (HXn n off g H) as [tp [Ek [Hst [Hp|[[s [Hs Hc]]|Hxx]]]]].
    - destruct (plain_hereT tp off Hp Hst) as [post [pos [Fr [Fb [P1 [P2 [P3 _]]]]]]].
      assert (Hn : top_num tp = n) by exact (f_equal fst Ek).
      assert (Hfc : find_contT n = None) by (apply find_contT_none; rewrite <- Hn; apply Hdisj_pc; exact Hp).
      rewrite Ek in P1. unfold entry_spec. split; [exact Fb|]. unfold memfT, objfT, posfT. rewrite Hfc, Hx, Fr, P1.
      split; [reflexivity|]. split; [exact P2|exact P3].
    - destruct (cont_hereT s tp off Hs Hc Hst) as [post [Fr [Fb [Q0 [Q1 [Q2 [d' [kp Q3]]]]]]]].
      rewrite Ek in Q0. inversion Q0; subst n g.
      unfold entry_spec. split; [exact Fb|]. unfold memfT, objfT, posfT. rewrite (find_contT_in s Hs), Hx, Fr, Q1.
      exists (D s (itemsof a s) (cstsG s)), (fst (enc s (itemsof a s))), d', (payload s (itemsof a s) ++ repeat x20 kp).
      split; [reflexivity|]. split; [exact Q2|]. split; [unfold filters_modelled, can_ref; apply orb_true_r|]. split; [exact Q3|].
      unfold cont_loaded. rewrite Q3. reflexivity.
    - destruct (x_hereT tp off Hxx Hst) as [post [Fr [Fb [P1 P2]]]].
      assert (Hn : top_num tp = n) by exact (f_equal fst Ek).
      assert (Hfc : find_contT n = None) by (apply find_contT_none; rewrite <- Hn; apply Hdisj_xc; exact Hxx).
      rewrite Ek in P1. unfold entry_spec. split; [exact Fb|]. unfold memfT, objfT, posfT. rewrite Hfc, Hx, Fr, P1.
      split; [reflexivity|]. split; [exact P2|]. destruct (loaded_top tp); try reflexivity; exact I.
  Qed.

  (* ---------- the result of the three passes on the merged table ---------- *)
  Definition M0T : objmap := fold_left (ins objfT) X [].
  Definition OSTMT : list (N * objmap) := flat_map (ostm_of memfT) X.
  Definition M1T : objmap := merge_object_streams X M0T OSTMT.
  Definition PT : posmap := fold_left (pstep posfT) X [].
  Definition ZST : list oid := flat_map (zero_of objfT memfT) X.
  Definition OBJST : objmap := zero_pass buf M1T PT ZST.

  Lemma M0T_lookup id : lookup M0T id = if hit (xget X) X id then Some (objfT (fst id) (snd id)) else None.
  Proof. unfold M0T. rewrite (lookup_fold_ins objfT (xget X) X [] id HXfun). reflexivity. Qed.

  Lemma PT_lookup id : pos_get PT id = if hit (xget X) X id then posfT (fst id) (snd id) else None.
  Proof. unfold PT. rewrite (pos_get_fold posfT (xget X) X [] id HXfun). reflexivity. Qed.

  Lemma hitT_true n g : hit (xget X) X (n, g) = true -> exists off, In (n, XNormal off g) X.
  Proof.
    unfold hit. cbn [fst snd]. intro H. apply andb_true_iff in H as [H1 H2].
    apply key_some_In in H1 as [v Hv]. rewrite (HXfun _ _ Hv) in H2.
    destruct v as [| |off g'|c i]; try discriminate H2. apply N.eqb_eq in H2. subst g'. exists off. exact Hv.
  Qed.

  Lemma hitT_entry n off g : In (n, XNormal off g) X -> hit (xget X) X (n, g) = true.
  Proof. intro H. unfold hit. cbn [fst snd]. rewrite (xget_some_key _ _ _ H), (HXfun _ _ H). cbn [andb]. apply N.eqb_refl. Qed.

  Lemma hitT_member s n g : In s osl -> In n (os_members s) -> hit (xget X) X (n, g) = false.
  Proof. intros Hs Hn. destruct (member_xget s n Hs Hn) as [k Hk]. unfold hit. cbn [fst snd]. rewrite Hk. apply andb_false_r. Qed.

  Lemma OSTMT_in k mems : In (k, mems) OSTMT <-> exists off g, In (k, XNormal off g) X /\ memfT k = Some mems.
  Proof.
    unfold OSTMT. rewrite in_flat_map. split.
    - intros [[k0 e] [H1 H2]]. unfold ostm_of in H2. cbn [fst snd] in H2. destruct e as [| |off g|c i]; try contradiction.
      destruct (memfT k0) as [m|] eqn:Em; [|contradiction]. destruct H2 as [H2|[]]. inversion H2; subst. exists off, g. split; assumption.
    - intros [off [g [H1 H2]]]. exists (k, XNormal off g). split; [exact H1|]. unfold ostm_of. cbn [fst snd]. rewrite H2. left. reflexivity.
  Qed.

  Lemma memfT_some k mems : memfT k = Some mems -> exists s, In s osl /\ os_id s = k /\ mems = members_val (a_objs a) s (itemsof a s).
  Proof.
    unfold memfT. destruct (find_contT k) as [s|] eqn:E; [|discriminate]. intro H. inversion H; subst.
    apply find_contT_some in E as [H1 H2]. exists s. auto.
  Qed.

  (* every member a container delivers is one the MERGED table places in that container *)
  Lemma OSTMT_named k mems io : In (k, mems) OSTMT -> In io mems -> is_named X k (fst io) = true.
  Proof.
    intros H Hio. apply OSTMT_in in H as [off [g [_ Hm]]]. apply memfT_some in Hm as [s [Hs [Ek ->]]].
    destruct io as [id o]. unfold members_val in Hio. apply fold_items_In in Hio as [[]|[it [Hit ->]]].
    assert (Hn : In (oi_num it) (os_members s)).
    { rewrite <- (os_build_nums _ _ _ _ _ (cont_buildT s Hs)). apply in_map. exact Hit. }
    destruct (member_xget s _ Hs Hn) as [i Hx]. unfold is_named. cbn [fst]. rewrite Hx, Ek. apply N.eqb_refl.
  Qed.

  Lemma M1T_lookup i : lookup M1T i = match lookup M0T i with Some v => Some v | None => find_member OSTMT i end.
  Proof. unfold M1T. apply merge_all_named. exact OSTMT_named. Qed.

  Lemma member_uniqueT s s' n : In s osl -> In s' osl -> In n (os_members s) -> In n (os_members s') -> s = s'.
  Proof. intros. apply (flat_map_unique os_members osl s s' n Hcnd); assumption. Qed.

  Lemma mvalsT_lookup s id : In s osl ->
    lookup (members_val (a_objs a) s (itemsof a s)) id =
    if (snd id =? 0) && mem_N (fst id) (os_members s) then Some (member_val (a_objs a) s (fst id)) else None.
  Proof. intro Hs. apply members_val_lookup; [apply cont_buildT; exact Hs|apply members_ndT; exact Hs]. Qed.

  Lemma cont_entryT s : In s osl -> exists off, In (os_id s, XNormal off 0) X.
  Proof. intro Hs. destruct (Hall_c s Hs) as [tp [off [_ [H _]]]]. exists off. exact H. Qed.

  Lemma find_memberT_of s n : In s osl -> In n (os_members s) -> find_member OSTMT (n, 0) = Some (member_val (a_objs a) s n).
  Proof.
    intros Hs Hn. apply find_member_some.
    - intros k mems H. apply OSTMT_in in H as [off [g [_ Hm]]]. apply memfT_some in Hm as [s' [Hs' [_ ->]]].
      rewrite (mvalsT_lookup s' (n, 0) Hs'). cbn [fst snd]. rewrite N.eqb_refl. cbn [andb].
      destruct (mem_N n (os_members s')) eqn:E; [left|right; reflexivity].
      apply mem_N_InT in E. rewrite (member_uniqueT s' s n Hs' Hs E Hn). reflexivity.
    - destruct (cont_entryT s Hs) as [off He]. exists (os_id s), (members_val (a_objs a) s (itemsof a s)). split.
      + apply OSTMT_in. exists off, 0. split; [exact He|]. unfold memfT. rewrite (find_contT_in s Hs). reflexivity.
      + rewrite (mvalsT_lookup s (n, 0) Hs). cbn [fst snd]. rewrite N.eqb_refl. cbn [andb].
        replace (mem_N n (os_members s)) with true by (symmetry; apply mem_N_InT; exact Hn). reflexivity.
  Qed.

  Lemma find_memberT_is i v : find_member OSTMT i = Some v ->
    exists s, In s osl /\ snd i = 0 /\ In (fst i) (os_members s) /\ v = member_val (a_objs a) s (fst i).
  Proof.
    intro H. apply find_member_inv in H as [k [mems [Hk Hl]]]. apply OSTMT_in in Hk as [off [g [_ Hm]]].
    apply memfT_some in Hm as [s [Hs [_ ->]]]. rewrite (mvalsT_lookup s i Hs) in Hl.
    destruct ((snd i =? 0) && mem_N (fst i) (os_members s)) eqn:E; [|discriminate Hl].
    apply andb_true_iff in E as [E1 E2]. apply N.eqb_eq in E1. apply mem_N_InT in E2. inversion Hl; subst. exists s. auto.
  Qed.

  (* a plain top-level object: its entry, what the first pass leaves, and whether its body was read *)
  Lemma top_entryT tp : In tp ptopsT ->
    exists off, In (top_num tp, XNormal off (snd (fst (fst tp)))) X /\
      objfT (top_num tp) (snd (fst (fst tp))) = first_top_by iscT tp /\ memfT (top_num tp) = None /\
      ((posfT (top_num tp) (snd (fst (fst tp))) = None /\ first_top_by iscT tp = loaded_top tp) \/
       exists d c li lg start rest, snd (fst tp) = OStream d c /\ dict_get d K_Length = Some (ORef li lg) /\ iscT li = true /\
         In ((li, lg), OInt (Z.of_nat (length c))) (a_objs a) /\
         posfT (top_num tp) (snd (fst (fst tp))) = Some start /\ start <= blen buf /\ from start buf = c ++ rest /\
         first_top_by iscT tp = OStream (denote_dict d (dict_sts (i_obj (snd tp)))) []).
  Proof.
    intro Hp. destruct (Hall_p tp Hp) as [off [He Hst]]. exists off. split; [exact He|].
    pose proof (HXfun _ _ He) as Hx.
    assert (Hfc : find_contT (top_num tp) = None) by (apply find_contT_none; apply Hdisj_pc; exact Hp).
    destruct (plain_hereT tp off Hp Hst) as [post [pos [Fr [_ [P1 [_ [_ P4]]]]]]].
    split; [unfold objfT; rewrite Hfc, Hx, Fr, P1; reflexivity|]. split; [unfold memfT; rewrite Hfc; reflexivity|].
    assert (Epos : posfT (top_num tp) (snd (fst (fst tp))) = pos) by (unfold posfT; rewrite Hx, Fr, P1; reflexivity).
    rewrite Epos. destruct P4 as [P4|[d [c [li [lg [start [rest [Q1 [Q2 [Q3 [Q4 [Q5 [Q6 Q7]]]]]]]]]]]]]; [left; exact P4|right].
    exists d, c, li, lg, start, rest. repeat (split; [assumption|]).
    unfold first_top_by, deferred_by. rewrite Q1, Q2, Q3. reflexivity.
  Qed.

  (* only a plain top-level object is ever left without its body *)
  Lemma pos_some_topT n off g start : In (n, XNormal off g) X -> posfT n g = Some start ->
    exists tp, In tp ptopsT /\ top_num tp = n /\ snd (fst (fst tp)) = g.
  Proof.
    intros H Hp. pose proof (HXfun _ _ H) as Hx. destruct (HXn n off g H) as [tp [Ek [Hst [Hpt|[[s [Hs Hc]]|Hxx]]]]].
    - exists tp. split; [exact Hpt|]. split; [exact (f_equal fst Ek)|exact (f_equal snd Ek)].
    - exfalso. destruct (cont_hereT s tp off Hs Hc Hst) as [post [Fr [_ [_ [Q1 _]]]]].
      unfold posfT in Hp. rewrite Hx, Fr, Q1 in Hp. discriminate Hp.
    - exfalso. destruct (x_hereT tp off Hxx Hst) as [post [Fr [_ [P1 _]]]].
      unfold posfT in Hp. rewrite Hx, Fr, P1 in Hp. discriminate Hp.
  Qed.

  (* an integer object kept in an object stream -- of whichever part -- is delivered as a member *)
  Lemma member_intT li lg z : iscT li = true -> In ((li, lg), OInt z) (a_objs a) ->
    lg = 0 /\ exists s, In s osl /\ In li (os_members s) /\ member_val (a_objs a) s li = OInt z.
  Proof.
    intros Hc Hin. destruct (comp_InT li Hc) as [s [Hs Hm]].
    destruct (os_build_find _ _ _ _ _ (cont_buildT s Hs) li Hm) as [o Ef].
    pose proof (find_obj_unique (a_objs a) li lg (OInt z) Hnd Hin) as Ef'. rewrite Ef in Ef'. inversion Ef'; subst.
    split; [reflexivity|]. exists s. split; [exact Hs|]. split; [exact Hm|].
    unfold member_val.
    destruct (member_val_denote (a_objs a) (os_members s) (os_items s) li) as [g' [o' [y' [A [_ C]]]]].
    - intros m Hmm. destruct (os_build_find _ _ _ _ _ (cont_buildT s Hs) m Hmm) as [o' Eo']. eauto.
    - exact Hm.
    - rewrite C. rewrite Ef in A. inversion A; subst. reflexivity.
  Qed.

  Lemma deferred_okT : deferred_ok buf fullT M1T PT.
  Proof.
    intros [n g] start Hp. rewrite PT_lookup in Hp. destruct (hit (xget X) X (n, g)) eqn:Eh; [|discriminate Hp]. cbn [fst snd] in Hp.
    destruct (hitT_true n g Eh) as [off Hent].
    destruct (pos_some_topT n off g start Hent Hp) as [tp [Hpt [En Eg]]]. subst n g.
    destruct (top_entryT tp Hpt) as [off' [_ [Eobj [_ [[K _]|[d [c [li [lg [start' [rest [Q1 [Q2 [Q3 [Q4 [Q5 [Q6 [Q7 Q8]]]]]]]]]]]]]]]]]];
      [rewrite K in Hp; discriminate Hp|].
    rewrite Q5 in Hp. inversion Hp; subst start'. clear Hp.
    destruct (member_intT li lg _ Q3 Q4) as [-> [s [Hs [Hm Hv]]]].
    exists (denote_dict d (dict_sts (i_obj (snd tp)))), li, 0, c, rest.
    split; [rewrite M1T_lookup, M0T_lookup, Eh; cbn [fst snd]; rewrite Eobj, Q8; reflexivity|].
    split; [apply dict_get_denote_ref; exact Q2|].
    split; [rewrite M1T_lookup, M0T_lookup, (hitT_member s li 0 Hs Hm), (find_memberT_of s li Hs Hm), Hv; reflexivity|].
    split; [exact Q6|]. split; [exact Q7|].
    unfold fullT. cbn [fst]. rewrite (find_topT_in tp Hpt). unfold loaded_top. rewrite Q1. reflexivity.
  Qed.

  Lemma ZST_nodup : NoDup ZST.
  Proof. apply zero_of_nodup. exact HXnd. Qed.

  Lemma ZST_streams id : In id ZST -> exists d c, lookup M1T id = Some (OStream d c).
  Proof.
    unfold ZST. intro H. apply in_flat_map in H as [[k e] [H1 H2]]. unfold zero_of in H2. cbn [fst snd] in H2.
    destruct e as [| |off g|c i]; try contradiction. destruct (memfT k); [contradiction|].
    destruct (objfT k g) as [| | | | | | | |d c|] eqn:Eo; try contradiction. destruct c; [|contradiction]. destruct H2 as [<-|[]].
    exists d, []. rewrite M1T_lookup, M0T_lookup, (hitT_entry _ _ _ H1). cbn [fst snd]. rewrite Eo. reflexivity.
  Qed.

  Lemma ZST_all id start : pos_get PT id = Some start -> In id ZST.
  Proof.
    destruct id as [n g]. intro Hp. rewrite PT_lookup in Hp. destruct (hit (xget X) X (n, g)) eqn:Eh; [|discriminate Hp]. cbn [fst snd] in Hp.
    destruct (hitT_true n g Eh) as [off Hent].
    destruct (pos_some_topT n off g start Hent Hp) as [tp [Hpt [En Eg]]]. subst n g.
    destruct (top_entryT tp Hpt) as [off' [Hent' [Eobj [Em [[K _]|[d [c [li [lg [start' [rest [_ [_ [_ [_ [_ [_ [_ Q8]]]]]]]]]]]]]]]]]];
      [rewrite K in Hp; discriminate Hp|].
    unfold ZST. apply in_flat_map. exists (top_num tp, XNormal off' (snd (fst (fst tp)))). split; [exact Hent'|].
    unfold zero_of. cbn [fst snd]. rewrite Em, Eobj, Q8. left. reflexivity.
  Qed.

  Lemma OBJST_lookup i : lookup OBJST i = match pos_get PT i with Some _ => Some (fullT i) | None => lookup M1T i end.
  Proof. unfold OBJST. apply zero_pass_lookup; [exact deferred_okT|exact ZST_nodup|exact ZST_streams|exact ZST_all]. Qed.

  (* ---------- what is loaded ---------- *)
  Lemma loaded_plainT tp : In tp ptopsT -> lookup OBJST (fst (fst tp)) = Some (loaded_top tp).
  Proof.
    intro Hp. destruct (top_entryT tp Hp) as [off [Hent [Eobj [_ Hc]]]].
    replace (fst (fst tp)) with (top_num tp, snd (fst (fst tp))) by (destruct tp as [[[? ?] ?] ?]; reflexivity).
    rewrite OBJST_lookup, PT_lookup, (hitT_entry _ _ _ Hent). cbn [fst snd].
    destruct Hc as [[K1 K2]|[d [c [li [lg [start [rest [Q1 [_ [_ [_ [Q5 _]]]]]]]]]]]].
    - rewrite K1, M1T_lookup, M0T_lookup, (hitT_entry _ _ _ Hent). cbn [fst snd]. rewrite Eobj, K2. reflexivity.
    - rewrite Q5. unfold fullT. cbn [fst]. rewrite (find_topT_in tp Hp). reflexivity.
  Qed.

  Lemma no_pos_otherT n g : (forall tp, In tp ptopsT -> top_num tp = n -> False) -> pos_get PT (n, g) = None.
  Proof.
    intro Hno. rewrite PT_lookup. destruct (hit (xget X) X (n, g)) eqn:Eh; [|reflexivity]. cbn [fst snd].
    destruct (hitT_true n g Eh) as [off Hent]. destruct (posfT n g) as [start|] eqn:Ep; [|reflexivity].
    exfalso. destruct (pos_some_topT n off g start Hent Ep) as [tp [Hpt [En _]]]. exact (Hno tp Hpt En).
  Qed.

  Lemma loaded_memberT s n : In s osl -> In n (os_members s) -> lookup OBJST (n, 0) = Some (member_val (a_objs a) s n).
  Proof.
    intros Hs Hn. rewrite OBJST_lookup, no_pos_otherT.
    - rewrite M1T_lookup, M0T_lookup, (hitT_member s n 0 Hs Hn). apply find_memberT_of; assumption.
    - intros tp Hpt En. pose proof (ptop_not_member tp Hpt) as K. rewrite En in K.
      assert (K' : iscT n = true) by (unfold iscT, compT; apply mem_N_InT; apply in_flat_map; exists s; split; assumption). congruence.
  Qed.

  Lemma loaded_contT s : In s osl ->
    exists d' k, lookup OBJST (os_id s, 0) = Some (OStream d' (payload s (itemsof a s) ++ repeat x20 k)).
  Proof.
    intro Hs. destruct (Hall_c s Hs) as [tp [off [Hc [He Hst]]]].
    destruct (cont_hereT s tp off Hs Hc Hst) as [post [_ [_ [_ [_ [_ [d2 [kp Q3]]]]]]]].
    exists d2, kp. rewrite OBJST_lookup, no_pos_otherT.
    - rewrite M1T_lookup, M0T_lookup, (hitT_entry _ _ _ He). cbn [fst snd]. unfold objfT.
      rewrite (find_contT_in s Hs). unfold cont_loaded. rewrite Q3. reflexivity.
    - intros tp' Hpt En. apply (Hdisj_pc tp' Hpt). rewrite En. unfold cidsT. apply in_map. exact Hs.
  Qed.

  (* a cross-reference stream that is still listed (file-structure object) *)
  Lemma loaded_xT tp off : In tp xt -> In (top_num tp, XNormal off (snd (fst (fst tp)))) X -> stands tp off ->
    lookup OBJST (fst (fst tp)) = Some (loaded_top tp).
  Proof.
    intros Hx He Hst. destruct (x_hereT tp off Hx Hst) as [post [Fr [_ [P1 _]]]].
    replace (fst (fst tp)) with (top_num tp, snd (fst (fst tp))) by (destruct tp as [[[? ?] ?] ?]; reflexivity).
    rewrite OBJST_lookup, no_pos_otherT.
    - rewrite M1T_lookup, M0T_lookup, (hitT_entry _ _ _ He). cbn [fst snd]. unfold objfT.
      rewrite (find_contT_none _ (Hdisj_xc tp Hx)), (HXfun _ _ He), Fr, P1. reflexivity.
    - intros tp' Hpt En. exact (Hdisj_xp tp tp' Hx Hpt (eq_sym En)).
  Qed.

  Lemma loaded_onlyT id o : lookup OBJST id = Some o ->
    (exists tp, In tp ptopsT /\ fst (fst tp) = id) \/
    (exists s n, In s osl /\ In n (os_members s) /\ id = (n, 0)) \/
    (exists s, In s osl /\ id = (os_id s, 0)) \/ (exists tp, In tp xt /\ fst (fst tp) = id).
  Proof.
    destruct id as [n g]. intro H. rewrite OBJST_lookup, PT_lookup in H.
    destruct (hit (xget X) X (n, g)) eqn:Eh.
    - destruct (hitT_true n g Eh) as [off He].
      destruct (HXn n off g He) as [tp [Ek [_ [Hpt|[[s [Hs [o' [_ E]]]]|Hxx]]]]].
      + left. exists tp. split; assumption.
      + right. right. left. exists s. split; [exact Hs|]. rewrite <- Ek, E. reflexivity.
      + right. right. right. exists tp. split; assumption.
    - rewrite M1T_lookup, M0T_lookup, Eh in H. apply find_memberT_is in H as [s [Hs [Eg [Hm _]]]]. cbn [fst snd] in *. subst g.
      right. left. exists s, n. auto.
  Qed.

  (* ---------- the whole file: Reader::read on a chain of sections whose merged table is [X] ---------- *)
  Definition tail_loaded (d : doc) : Prop :=
    (forall tp, In tp ptopsT -> lookup (d_objects d) (fst (fst tp)) = Some (loaded_top tp)) /\
    (forall s n, In s osl -> In n (os_members s) -> lookup (d_objects d) (n, 0) = Some (member_val (a_objs a) s n)) /\
    (forall s, In s osl -> exists d' k, lookup (d_objects d) (os_id s, 0) = Some (OStream d' (payload s (itemsof a s) ++ repeat x20 k))) /\
    (forall id o, lookup (d_objects d) id = Some o ->
       (exists tp, In tp ptopsT /\ fst (fst tp) = id) \/
       (exists s n, In s osl /\ In n (os_members s) /\ id = (n, 0)) \/
       (exists s, In s osl /\ id = (os_id s, 0)) \/ (exists tp, In tp xt /\ fst (fst tp) = id)).

  Theorem tail_loads junk version xs x0 t0 (rest : list csec) :
    pdf_offset (junk ++ buf) = blen junk -> Loader.header buf = Some version ->
    get_xref_start buf = Some xs -> xs <= blen buf ->
    xref_and_trailer_x decompress_ref can_ref buf xs = SOk (x0, t0) ->
    dict_get (dict_swap_remove t0 K_Prev) K_XRefStm = None ->
    dict_get t0 K_Prev = prev_of rest ->
    chain_ok decompress_ref can_ref buf xs rest ->
    x_entries (fold_left xref_merge (map (fun s : csec => fst (snd s)) rest) x0) = X ->
    dict_has (dict_swap_remove t0 K_Prev) K_Encrypt = false ->
    xref_max_id (fold_left xref_merge (map (fun s : csec => fst (snd s)) rest) x0) < u32_max ->
    exists d, load_ext decompress_ref can_ref (junk ++ buf) = LOk d (x_type x0) /\
      d_version d = version /\ d_trailer d = dict_swap_remove t0 K_Prev /\ tail_loaded d.
  Proof.
    intros H1 H2 H3 H4 H5 H6 H7 H8 H9 H10 H11. eexists. split.
    - apply (load_ext_frame_chain decompress_ref can_ref buf X objfT posfT memfT junk buf version xs x0 t0 rest);
        try assumption; try reflexivity. exact entry_specT.
    - cbn [d_version d_trailer d_objects]. split; [reflexivity|]. split; [reflexivity|].
      split; [exact loaded_plainT|]. split; [intros s n Hs Hn; apply loaded_memberT; assumption|].
      split; [exact loaded_contT|exact loaded_onlyT].
  Qed.
End Tail.
