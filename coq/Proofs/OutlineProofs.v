(* OutlineProofs.v -- C17, producer side: outline_child / build_outline refine the numbered forest.
   Main results: [outline_loop_ok] (loop invariant), [build_outline_ok]. *)
From LV Require Import Base.Bytes Model.Obj Model.DocQ Model.Outline Spec.OutlineSpec.

Local Open Scope N_scope.

(* ---------- dictionaries ---------- *)
Lemma bytes_eqb_sym a b : bytes_eqb a b = bytes_eqb b a.
Proof.
  destruct (bytes_eqb a b) eqn:E.
  - apply bytes_eqb_eq in E. subst. symmetry. apply bytes_eqb_refl.
  - destruct (bytes_eqb b a) eqn:E'; [|reflexivity]. apply bytes_eqb_eq in E'. subst. rewrite bytes_eqb_refl in E. discriminate.
Qed.

Lemma dict_get_set d k v k' :
  dict_get (dict_set d k v) k' = if bytes_eqb k k' then Some v else dict_get d k'.
Proof.
  induction d as [|[k0 v0] d IH]; cbn [dict_set dict_get].
  - reflexivity.
  - destruct (bytes_eqb k0 k) eqn:E0.
    + apply bytes_eqb_eq in E0. subst k0. cbn [dict_get]. destruct (bytes_eqb k k'); reflexivity.
    + cbn [dict_get]. destruct (bytes_eqb k0 k') eqn:E1.
      * apply bytes_eqb_eq in E1. subst k0. rewrite bytes_eqb_sym, E0. reflexivity.
      * exact IH.
Qed.

Lemma dict_get_set_opt d k o k' :
  dict_get (set_opt d k o) k' = if bytes_eqb k k' then match o with Some n => Some (ORef n 0) | None => dict_get d k' end
                                else dict_get d k'.
Proof.
  destruct o; cbn [set_opt].
  - apply dict_get_set.
  - destruct (bytes_eqb k k') eqn:E; reflexivity.
Qed.

(* ---------- processed map ---------- *)
Lemma pm_get_put pm k v k' : pm_get (pm_put pm k v) k' = if (k =? k') then Some v else pm_get pm k'.
Proof. reflexivity. Qed.

(* ---------- objects map ---------- *)
Lemma oid_eqb_refl a : oid_eqb a a = true.
Proof. apply oid_eqb_eq. reflexivity. Qed.

Lemma oid_eqb_neq a b : a <> b -> oid_eqb a b = false.
Proof. intro H. destruct (oid_eqb a b) eqn:E; [apply oid_eqb_eq in E; contradiction | reflexivity]. Qed.

Lemma oid_eqb_sym a b : oid_eqb a b = oid_eqb b a.
Proof.
  destruct (oid_eqb a b) eqn:E.
  - apply oid_eqb_eq in E. subst. symmetry. apply oid_eqb_refl.
  - destruct (oid_eqb b a) eqn:E'; [|reflexivity]. apply oid_eqb_eq in E'. subst. rewrite oid_eqb_refl in E. discriminate.
Qed.

Lemma lookup_insert m id o id' :
  lookup (insert m id o) id' = if oid_eqb id id' then Some o else lookup m id'.
Proof.
  induction m as [|[i o0] m IH]; cbn [insert lookup].
  - reflexivity.
  - destruct (oid_eqb i id) eqn:E0.
    + apply oid_eqb_eq in E0. subst i. cbn [lookup]. destruct (oid_eqb id id'); reflexivity.
    + destruct (oid_ltb id i).
      * cbn [lookup]. destruct (oid_eqb id id'); reflexivity.
      * cbn [lookup]. destruct (oid_eqb i id') eqn:E1.
        -- apply oid_eqb_eq in E1. subst i. rewrite oid_eqb_sym, E0. reflexivity.
        -- exact IH.
Qed.

Lemma lookup_install pm objs k g :
  lookup (install pm objs) (k, g) =
  if (g =? 0) then match pm_get pm k with Some d => Some (ODict d) | None => lookup objs (k, g) end
  else lookup objs (k, g).
Proof.
  induction pm as [|[k0 d0] pm IH]; cbn [install fold_right pm_get fst snd].
  - destruct (g =? 0); reflexivity.
  - fold (install pm objs). rewrite lookup_insert. unfold oid_eqb; cbn [fst snd].
    rewrite (N.eqb_sym 0 g).
    destruct (k0 =? k) eqn:E; cbn [andb].
    + rewrite IH. destruct (g =? 0); reflexivity.
    + exact IH.
Qed.

(* ---------- numbering ---------- *)
Fixpoint nseq (start : N) (len : nat) : list N :=
  match len with O => [] | S l => start :: nseq (start + 1) l end.

Lemma nseq_app s a b : nseq s (a + b) = nseq s a ++ nseq (s + N.of_nat a) b.
Proof.
  revert s; induction a as [|a IH]; intro s; cbn [nseq Nat.add app].
  - f_equal. lia.
  - f_equal. rewrite IH. f_equal. f_equal. lia.
Qed.

Lemma nseq_In s len k : In k (nseq s len) <-> s <= k < s + N.of_nat len.
Proof.
  revert s; induction len as [|l IH]; intro s; cbn [nseq In].
  - lia.
  - rewrite IH. lia.
Qed.

Lemma nseq_NoDup s len : NoDup (nseq s len).
Proof.
  revert s; induction len as [|l IH]; intro s; cbn [nseq]; constructor.
  - rewrite nseq_In. lia.
  - apply IH.
Qed.

Lemma numbered_max m f f' m' : numbered m f f' m' -> m' = m + 2 * N.of_nat (fsize f).
Proof.
  induction 1 as [m | m b d ks ks' m1 rest rest' m2 H1 IH1 H2 IH2].
  - cbn. lia.
  - unfold fsize in *. cbn [fold_right isize]. fold (fsize ks) in *. lia.
Qed.

(* the created object numbers are exactly m+1 .. m', in preorder *)
Lemma numbered_oids m f f' m' :
  numbered m f f' m' -> flat_map oids f' = nseq (m + 1) (2 * fsize f).
Proof.
  induction 1 as [m | m b d ks ks' m1 rest rest' m2 H1 IH1 H2 IH2].
  - reflexivity.
  - cbn [flat_map oids]. rewrite IH1, IH2.
    pose proof (numbered_max _ _ _ _ H1) as E1.
    unfold fsize in *. cbn [fold_right isize]. fold (fsize ks) in *. fold (fsize rest) in *.
    replace (2 * (S (fsize ks) + fsize rest))%nat with (S (S (2 * fsize ks + 2 * fsize rest)))%nat by lia.
    cbn [nseq app]. f_equal. f_equal; [lia|].
    rewrite nseq_app. f_equal; [f_equal; lia|]. f_equal. lia.
Qed.

Lemma numbered_range m f f' m' k :
  numbered m f f' m' -> In k (flat_map oids f') -> m < k <= m'.
Proof.
  intros H Hin. rewrite (numbered_oids _ _ _ _ H) in Hin. apply nseq_In in Hin.
  rewrite (numbered_max _ _ _ _ H). lia.
Qed.

Lemma numbered_le m f f' m' : numbered m f f' m' -> m <= m'.
Proof. intro H. rewrite (numbered_max _ _ _ _ H). lia. Qed.

Lemma numbered_length m f f' m' : numbered m f f' m' -> length f' = length f.
Proof. induction 1; cbn [length]; congruence. Qed.

Lemma numbered_head m f f' m' : numbered m f f' m' -> head_id f' = match f with [] => None | _ => Some (m + 1) end.
Proof. destruct 1; reflexivity. Qed.

(* every forest can be numbered *)
Lemma numbered_exists_size : forall n f m, (fsize f <= n)%nat -> exists f' m', numbered m f f' m'.
Proof.
  induction n as [|n IH]; intros f m Hn.
  - destruct f as [|[b d ks] rest]; [exists [], m; constructor|].
    unfold fsize in Hn; cbn in Hn; lia.
  - destruct f as [|[b d ks] rest]; [exists [], m; constructor|].
    unfold fsize in Hn; cbn [fold_right isize] in Hn. fold (fsize ks) in Hn. fold (fsize rest) in Hn.
    destruct (IH ks (m + 2)) as [ks' [m1 H1]]; [lia|].
    destruct (IH rest m1) as [rest' [m2 H2]]; [lia|].
    eexists _, _. econstructor; eassumption.
Qed.
Lemma numbered_exists f m : exists f' m', numbered m f f' m'.
Proof. apply (numbered_exists_size (fsize f)). lia. Qed.

(* ---------- frame for items_ok ---------- *)
Lemma items_ok_ext get get' p prev f :
  items_ok get p prev f -> (forall k, In k (flat_map oids f) -> get' k = get k) -> items_ok get' p prev f.
Proof.
  induction 1 as [|parent prev id info bd kids rest d a Hd Hi Ha Hao Hk IHk Hr IHr]; intro Hext.
  - constructor.
  - cbn [flat_map oids] in Hext.
    econstructor.
    + rewrite Hext; [exact Hd | left; reflexivity].
    + exact Hi.
    + rewrite Hext; [exact Ha | right; left; reflexivity].
    + exact Hao.
    + apply IHk. intros k Hk'. apply Hext. right. right. apply in_or_app. left. exact Hk'.
    + apply IHr. intros k Hk'. apply Hext. right. right. apply in_or_app. right. exact Hk'.
Qed.

(* ---------- the loop invariant of outline_child ---------- *)
Ltac keq :=
  repeat match goal with
         | |- context [bytes_eqb ?a ?b] =>
           let v := eval vm_compute in (bytes_eqb a b) in
           match v with
           | true => change (bytes_eqb a b) with true
           | false => change (bytes_eqb a b) with false
           end; cbv iota
         end.
Ltac dg := repeat (rewrite dict_get_set || rewrite dict_get_set_opt); keq.

Definition first_or (first h : option N) : option N := match first with Some _ => first | None => h end.
Definition last_or (l last : option N) : option N := match l with Some _ => l | None => last end.

Lemma child_base_ok pid bm info bd :
  bm_title bm = b_title bd -> bm_format bm = b_format bd ->
  item_ok (child_base pid bm info) pid None None info bd [].
Proof.
  intros Ht Hf. unfold child_base. destruct (bm_color bm) as [[c0 c1] c2].
  constructor; try reflexivity.
  - rewrite <- Ht. reflexivity.
  - rewrite <- Hf. reflexivity.
Qed.

Lemma link_prev_ok first last id child pm pid info bd m :
  item_ok child pid None None info bd [] ->
  (first = None <-> last = None) ->
  (forall x, last = Some x -> x <= m /\ exists dx, pm_get pm x = Some dx) ->
  exists child1 pm1,
    link_prev first last id child pm = OOk (first_or first (Some id), child1, pm1) /\
    item_ok child1 pid last None info bd [] /\
    (forall k, last <> Some k -> pm_get pm1 k = pm_get pm k) /\
    (forall x dx, last = Some x -> pm_get pm x = Some dx -> pm_get pm1 x = Some (dict_set dx K_Next (ORef id 0))).
Proof.
  intros Hb Hfl Hlast. unfold link_prev.
  destruct first as [f0|].
  - destruct last as [x|]; [|exfalso; destruct Hfl as [_ H]; specialize (H eq_refl); discriminate].
    destruct (Hlast x eq_refl) as [_ [dx Hdx]]. rewrite Hdx.
    eexists _, _. split; [reflexivity|]. split; [|split].
    + destruct Hb. constructor; dg; auto.
    + intros k Hk. rewrite pm_get_put. destruct (x =? k) eqn:E; [apply N.eqb_eq in E; congruence | reflexivity].
    + intros x0 dx0 E0 Hx0. inversion E0; subst x0. rewrite pm_get_put, N.eqb_refl. congruence.
  - destruct last as [x|]; [destruct Hfl as [H _]; specialize (H eq_refl); discriminate|].
    eexists _, _. split; [reflexivity|]. split; [exact Hb|]. split; [reflexivity|]. intros; discriminate.
Qed.

Lemma item_ok_set_next d pid prev info bd kids h :
  item_ok d pid prev None info bd kids -> item_ok (dict_set d K_Next (ORef h 0)) pid prev (Some h) info bd kids.
Proof. intros []. constructor; dg; auto. Qed.

Lemma item_ok_set_kids d pid prev info bd (kids : list otree) :
  kids <> [] ->
  item_ok d pid prev None info bd [] ->
  item_ok (dict_set (set_opt (set_opt d K_First (head_id kids)) K_Last (last_id kids)) K_Count
                    (OInt (Z.of_nat (length kids)))) pid prev None info bd kids.
Proof.
  intros Hne []. 
  assert (Hh : exists h, head_id kids = Some h) by (destruct kids; [congruence | eexists; reflexivity]).
  assert (Hl : exists l, last_id kids = Some l).
  { clear -Hne. induction kids as [|t [|t' r] IH]; [congruence | eexists; reflexivity |].
    destruct IH as [l Hl]; [discriminate|]. exists l. exact Hl. }
  destruct Hh as [h Hh], Hl as [l Hl].
  constructor; dg; auto.
  - rewrite Hh. reflexivity.
  - rewrite Hl. reflexivity.
  - destruct kids; [congruence | reflexivity].
Qed.

Lemma fheight_cons t f : fheight (t :: f) = Nat.max (iheight t) (fheight f).
Proof. reflexivity. Qed.
Lemma iheight_node b d ks : iheight (INode b d ks) = S (fheight ks).
Proof. reflexivity. Qed.
Lemma iheight_pos t : (1 <= iheight t)%nat.
Proof. destruct t. rewrite iheight_node. lia. Qed.

Lemma last_or_none l : last_or l None = l.
Proof. destruct l; reflexivity. Qed.

Lemma last_id_cons t r : last_id (t :: r) = last_or (last_id r) (Some (o_id t)).
Proof. destruct r as [|t' r]; [reflexivity|]. change (last_id (t :: t' :: r)) with (last_id (t' :: r)).
  destruct (last_id (t' :: r)) eqn:E; [reflexivity|].
  exfalso. clear -E. revert t' E. induction r as [|t'' r IH]; intros t' E; [discriminate|]. apply (IH t''). exact E.
Qed.

Lemma outline_loop_ok tbl : forall m f f' m', numbered m f f' m' ->
  Forall (trepr tbl) f ->
  forall fuel, (fheight f <= S fuel)%nat ->
  forall pid first last pm,
    (first = None <-> last = None) ->
    (forall x, last = Some x -> x <= m /\ exists dx, pm_get pm x = Some dx) ->
  exists pm',
    outline_loop (outline_child fuel tbl) tbl pid (map iid f) first last m pm
      = OOk (first_or first (head_id f'), last_or (last_id f') last, m', pm') /\
    items_ok (pm_get pm') pid last f' /\
    (forall k, (k <= m \/ m' < k) -> last <> Some k -> pm_get pm' k = pm_get pm k) /\
    (forall x dx, last = Some x -> pm_get pm x = Some dx ->
        pm_get pm' x = Some (match head_id f' with Some h => dict_set dx K_Next (ORef h 0) | None => dx end)).
Proof.
  induction 1 as [m | m b d ks ks' m1 rest rest' m2 H1 IH1 H2 IH2];
    intros Htr fuel Hfuel pid first last pm Hfl Hlast.
  - exists pm. cbn [map outline_loop head_id last_id last_or]. split; [destruct first; reflexivity|].
    split; [constructor|]. split; [reflexivity|]. intros x dx _ Hx. exact Hx.
  - inversion Htr as [|t0 l0 Ht Hrest]; subst t0 l0.
    inversion Ht as [i d0 ks0 bm Hget Htitle Hfmt Hcol Hpage Hch Hks]; subst i d0 ks0.
    rewrite fheight_cons, iheight_node in Hfuel.
    pose proof (numbered_le _ _ _ _ H1) as Hle1. pose proof (numbered_le _ _ _ _ H2) as Hle2.
    cbn [map iid outline_loop]. rewrite Hget.
    destruct (link_prev_ok first last (m + 1) (child_base pid bm (m + 2)) pm pid (m + 2) d m
                (child_base_ok _ _ _ _ Htitle Hfmt) Hfl Hlast)
      as [child1 [pm1 [E1 [Hi1 [Hfr1 Hx1]]]]].
    rewrite E1.
    (* children *)
    assert (Hwc : exists child2 pm2,
               with_children (outline_child fuel tbl) (m + 1) (m + 2) (bm_children bm) child1 pm1
                 = OOk (child2, m1, pm2) /\
               item_ok child2 pid last None (m + 2) d ks' /\
               items_ok (pm_get pm2) (m + 1) None ks' /\
               (forall k, (k <= m + 2 \/ m1 < k) -> pm_get pm2 k = pm_get pm1 k)).
    { rewrite Hch. destruct ks as [|k0 ks0].
      - inversion H1; subst. exists child1, pm1. split; [reflexivity|]. split; [exact Hi1|].
        split; [constructor | reflexivity].
      - assert (Hf : (fheight (k0 :: ks0) <= fuel)%nat) by lia.
        destruct fuel as [|fuel0]; [rewrite fheight_cons in Hf; pose proof (iheight_pos k0); lia|].
        cbn [map with_children outline_child].
        destruct (IH1 Hks fuel0 Hf (m + 1) None None pm1) as [pm2 [E2 [Hio2 [Hfr2 _]]]];
          [split; reflexivity | intros; discriminate |].
        cbn [map] in E2. rewrite E2. cbn [first_or]. rewrite last_or_none.
        eexists _, pm2. split; [reflexivity|]. split; [|split].
        + replace (length (iid k0 :: map iid ks0)) with (length ks')
            by (rewrite (numbered_length _ _ _ _ H1); cbn [length]; rewrite map_length; reflexivity).
          apply item_ok_set_kids; [|exact Hi1]. inversion H1; discriminate.
        + exact Hio2.
        + intros k Hk. apply Hfr2; [exact Hk | discriminate]. }
    destruct Hwc as [child2 [pm2 [E2 [Hi2 [Hio2 Hfr2]]]]]. rewrite E2.
    set (pm3 := pm_put (pm_put pm2 (m + 1) child2) (m + 2) (info_dict (bm_page bm))).
    assert (Hf3 : (fheight rest <= S fuel)%nat) by lia.
    destruct (IH2 Hrest fuel Hf3 pid (first_or first (Some (m + 1))) (Some (m + 1)) pm3)
      as [pm' [E3 [Hio3 [Hfr3 Hx3]]]].
    { split; [destruct first; discriminate | discriminate]. }
    { intros x Hx. inversion Hx; subst x. split; [lia|]. exists child2. unfold pm3.
      rewrite !pm_get_put. replace (m + 2 =? m + 1) with false by (symmetry; apply N.eqb_neq; lia).
      rewrite N.eqb_refl. reflexivity. }
    exists pm'. rewrite E3.
    assert (Hpm3_id : pm_get pm3 (m + 1) = Some child2).
    { unfold pm3. rewrite !pm_get_put. replace (m + 2 =? m + 1) with false by (symmetry; apply N.eqb_neq; lia).
      rewrite N.eqb_refl. reflexivity. }
    assert (Hpm3_info : pm_get pm3 (m + 2) = Some (info_dict (bm_page bm))).
    { unfold pm3. rewrite !pm_get_put, N.eqb_refl. reflexivity. }
    assert (Hpm3_other : forall k, k <> m + 1 -> k <> m + 2 -> pm_get pm3 k = pm_get pm2 k).
    { intros k A B. unfold pm3. rewrite !pm_get_put.
      replace (m + 2 =? k) with false by (symmetry; apply N.eqb_neq; lia).
      replace (m + 1 =? k) with false by (symmetry; apply N.eqb_neq; lia). reflexivity. }
    split; [|split; [|split]].
    + replace (first_or (first_or first (Some (m + 1))) (head_id rest'))
        with (first_or first (head_id (ONode (m + 1) (m + 2) d ks' :: rest'))) by (destruct first; reflexivity).
      replace (last_or (last_id rest') (Some (m + 1)))
        with (last_or (last_id (ONode (m + 1) (m + 2) d ks' :: rest')) last)
        by (rewrite last_id_cons; cbn [o_id]; destruct (last_id rest'); reflexivity).
      reflexivity.
    + (* items_ok *)
      econstructor.
      * rewrite (Hx3 (m + 1) child2 eq_refl Hpm3_id). reflexivity.
      * destruct (head_id rest') as [h|]; cbn [oref option_map].
        -- apply item_ok_set_next. exact Hi2.
        -- exact Hi2.
      * rewrite Hfr3; [exact Hpm3_info | left; lia | intro E; inversion E; lia].
      * constructor; [reflexivity|]. rewrite Hpage. reflexivity.
      * eapply items_ok_ext; [exact Hio2|]. intros k Hk.
        pose proof (numbered_range _ _ _ _ k H1 Hk) as Hr.
        rewrite Hfr3; [|left; lia | intro E; inversion E; lia].
        apply Hpm3_other; lia.
      * exact Hio3.
    + intros k Hk Hne.
      rewrite Hfr3; [|lia | intro E; inversion E; lia].
      rewrite Hpm3_other by lia. rewrite Hfr2 by lia. apply Hfr1. exact Hne.
    + intros x dx Hx Hdx. cbn [head_id o_id].
      destruct (Hlast x Hx) as [Hxm _].
      rewrite Hfr3; [|lia | intro E; inversion E; lia].
      rewrite Hpm3_other by lia. rewrite Hfr2 by lia. apply (Hx1 x dx Hx Hdx).
Qed.

Definition get_of (objs : objmap) (n : N) : option dict :=
  match lookup objs (n, 0) with Some (ODict d) => Some d | _ => None end.

Lemma items_ok_get get p prev f k :
  items_ok get p prev f -> In k (flat_map oids f) -> exists d, get k = Some d.
Proof.
  induction 1 as [|parent prev id info bd kids rest d a Hd Hi Ha Hao Hk IHk Hr IHr]; cbn [flat_map oids]; intro Hin.
  - destruct Hin.
  - destruct Hin as [<-|[<-|Hin]]; [eauto | eauto |].
    apply in_app_or in Hin. destruct Hin; auto.
Qed.

Lemma fheight_pos t f : (1 <= fheight (t :: f))%nat.
Proof. rewrite fheight_cons. pose proof (iheight_pos t). lia. Qed.

Definition created (m0 n : N) (id : oid) : Prop := m0 < fst id <= n /\ snd id = 0.

Theorem build_outline_ok b f fuel :
  bookmarks b = map iid f -> f <> [] ->
  Forall (trepr (bookmark_table b)) f ->
  (fheight f <= fuel)%nat ->
  let m0 := d_max_id (base b) in
  let m' := m0 + 1 + 2 * N.of_nat (fsize f) in
  m' < U32_LIMIT ->
  exists f' b',
    numbered (m0 + 1) f f' m' /\
    build_outline fuel b = OOk (Some (m0 + 1, 0), b') /\
    d_max_id (base b') = m' /\
    d_trailer (base b') = d_trailer (base b) /\
    outline_ok (get_of (d_objects (base b'))) (m0 + 1) f' /\
    (forall id, ~ created m0 m' id -> lookup (d_objects (base b')) id = lookup (d_objects (base b)) id) /\
    (forall id, created m0 m' id -> exists d, lookup (d_objects (base b')) id = Some (ODict d)).
Proof.
  intros Hroots Hne Htr Hfuel m0 m' Hlim.
  destruct (numbered_exists f (m0 + 1)) as [f' [mx Hn]].
  pose proof (numbered_max _ _ _ _ Hn) as Hmx. fold m' in Hmx. subst mx.
  destruct f as [|t0 f0]; [congruence|].
  destruct fuel as [|fuel0]; [pose proof (fheight_pos t0 f0); lia|].
  destruct (outline_loop_ok (bookmark_table b) _ _ _ _ Hn Htr fuel0 ltac:(lia) (m0 + 1) None None [])
    as [pm' [E [Hio [Hfr _]]]]; [split; reflexivity | intros; discriminate |].
  cbn [first_or] in E. rewrite last_or_none in E.
  unfold build_outline. rewrite Hroots. cbn [map].
  change (iid t0 :: map iid f0) with (map iid (t0 :: f0)).
  cbn [outline_child]. fold m0. rewrite E.
  replace (U32_LIMIT <=? m') with false by (symmetry; apply N.leb_gt; exact Hlim).
  set (outline := dict_set _ K_Count _).
  set (objs' := insert _ _ _).
  exists f', (with_base b (set_objects (base b) objs' m')).
  split; [exact Hn|]. split; [reflexivity|]. split; [reflexivity|]. split; [reflexivity|].
  assert (Hlk : forall k g, lookup objs' (k, g) =
                 if oid_eqb (m0 + 1, 0) (k, g) then Some (ODict outline)
                 else if g =? 0 then match pm_get pm' k with Some d => Some (ODict d) | None => lookup (d_objects (base b)) (k, g) end
                      else lookup (d_objects (base b)) (k, g)).
  { intros k g. unfold objs'. rewrite lookup_insert, lookup_install. reflexivity. }
  assert (Hin : forall k, In k (flat_map oids f') <-> m0 + 1 < k <= m').
  { intro k. rewrite (numbered_oids _ _ _ _ Hn), nseq_In. unfold m'. lia. }
  cbn [base with_base d_objects set_objects].
  split; [|split].
  - (* outline_ok *)
    constructor.
    + eapply items_ok_ext; [exact Hio|]. intros k Hk.
      destruct (items_ok_get _ _ _ _ _ Hio Hk) as [dk Hdk].
      apply Hin in Hk. unfold get_of. rewrite Hlk.
      rewrite oid_eqb_neq by (intro X; inversion X; lia).
      rewrite N.eqb_refl, Hdk. reflexivity.
    + exists outline. split; [|].
      * unfold get_of. rewrite Hlk, oid_eqb_refl. reflexivity.
      * unfold outline. rewrite map_length, <- (numbered_length _ _ _ _ Hn).
        repeat split; dg; try reflexivity;
          destruct (last_id f'), (head_id f'); reflexivity.
  - intros [k g] Hnc. unfold created in Hnc; cbn [fst snd] in Hnc. rewrite Hlk.
    rewrite oid_eqb_neq by (intro X; inversion X; subst; unfold m' in Hnc; lia).
    destruct (g =? 0) eqn:G; [|reflexivity]. apply N.eqb_eq in G. subst g.
    rewrite Hfr; [reflexivity | | discriminate]. unfold m' in Hnc. lia.
  - intros [k g] [Hk Hg]; cbn [fst snd] in Hk, Hg. subst g. rewrite Hlk.
    destruct (oid_eqb (m0 + 1, 0) (k, 0)) eqn:E0; [eexists; reflexivity|].
    assert (k <> m0 + 1) by (intro; subst; rewrite oid_eqb_refl in E0; discriminate).
    rewrite N.eqb_refl.
    destruct (items_ok_get _ _ _ _ k Hio) as [dk Hdk]; [apply Hin; lia|].
    rewrite Hdk. eexists; reflexivity.
Qed.
