(* LoadsMultiAll.v -- C02: ONE statement for the files of ref_write_multi that are proved so far, object streams included:
   (a) every part a table or a cross-reference stream, mixed chains, no object streams (Proofs/LoadsMultiMixedFull.v), or
   (b) a file of one part with ANY object streams (Proofs/LoadsMultiObjStm.v multi_single: it is the single-section file of
       the part's style, so Proofs/LoadsFullProofs.v full applies).
   The conclusion is that of C02_full with the structural numbers of a file of several parts: the object-stream containers
   and the cross-reference streams of all parts. *)
From LV Require Import Base.Bytes Base.Sx Model.Obj Model.Writer Model.Parser Model.Xref Model.ObjStm Model.Loader Model.Utf Gen.Lex
  Spec.XrefSpec Spec.RefWriter Proofs.LoadsFrameProofs Proofs.LoadsTableProofs Proofs.LoadsStreamProofs Proofs.LoadsRefLenProofs.
From LV Require Import Model.LoaderExt Proofs.LoaderExtProofs Proofs.LoadsFilterProofs Proofs.LoadsFullProofs.
From LV Require Proofs.LoadsMultiMixedFull Proofs.LoadsMultiObjStm.
From Coq Require Import Lia.
Local Open Scope N_scope.

Definition multi_structural (st : fstyle) (parts : list mpart) : list N := map os_id (s_ostms st) ++ part_xids parts.

Definition multi_dom_all (st : fstyle) (parts : list mpart) (a : adoc) (file : bytes) : Prop :=
  LoadsMultiMixedFull.multi_dom_mixed decompress_ref can_ref st parts a file \/
  exists p, parts = [p] /\ mem_N 0 (mp_relist p) = false /\ full_dom (with_part st p true) a.

Lemma with_part_structural st p : structural_nums (with_part st p true) = multi_structural st [p].
Proof.
  unfold structural_nums, multi_structural, with_part. destruct (mp_sx p) as [[[[e1 s1] s2] e2] fe]. cbn [s_ostms s_xref part_xids flat_map].
  rewrite app_nil_r. reflexivity.
Qed.

Theorem loads_multi_all st parts a file :
  multi_dom_all st parts a file -> ref_write_multi st parts a = Some file ->
  exists d t, load_ext decompress_ref can_ref file = LOk d t /\ d_version d = a_version a /\
    (forall id, In (fst id) (multi_structural st parts) \/ same_opt (lookup (d_objects d) id) (lookup (content a) id)) /\
    (forall k, In k [bs "Type"; bs "W"; bs "Index"; bs "Length"; bs "Filter"; bs "DecodeParms"] \/
               same_opt (dict_get (d_trailer d) k)
                        (dict_get (a_trailer a ++ [(bs "Size", OInt (Z.of_N (1 + max_num (LoadsTableProofs.nums a ++ multi_structural st parts))))]) k)).
Proof.
  intros [Hd|[p [-> [H0 Hd]]]] Hw.
  - assert (Hos : s_ostms st = []) by (apply Hd).
    destruct (LoadsMultiMixedFull.loads_multi_mixed_full _ _ st parts a file Hd Hw) as [d [t [H1 [H2 [H3 H4]]]]].
    exists d, t. unfold multi_structural. rewrite Hos. cbn [map app]. split; [exact H1|]. split; [exact H2|]. split; [exact H3|exact H4].
  - pose proof (LoadsMultiObjStm.multi_single st p a file H0 Hw) as Hs.
    destruct (full (with_part st p true) a file Hd Hs) as [d [t [H1 [H2 [H3 H4]]]]].
    exists d, t. split; [exact H1|]. split; [exact H2|]. rewrite <- with_part_structural. split; [exact H3|exact H4].
Qed.

(* ---------- C02_full_all: every file the reference writer denotes (ref_write or ref_write_multi), in the proved domains ---------- *)
(* [written file a S]: the reference writer produces [file] for the abstract document [a] in some style of its space (single-section
   or several parts), inside the domain proved so far; [S] = the numbers of the file-structure objects of that style *)
Definition written (file : bytes) (a : adoc) (S : list N) : Prop :=
  (exists st, full_dom st a /\ ref_write st a = Some file /\ S = structural_nums st) \/
  (exists st parts, multi_dom_all st parts a file /\ ref_write_multi st parts a = Some file /\ S = multi_structural st parts).

Theorem full_all file a S :
  written file a S ->
  exists d t, load_ext decompress_ref can_ref file = LOk d t /\ d_version d = a_version a /\
    (forall id, In (fst id) S \/ same_opt (lookup (d_objects d) id) (lookup (content a) id)) /\
    (forall k, In k [bs "Type"; bs "W"; bs "Index"; bs "Length"; bs "Filter"; bs "DecodeParms"] \/
               same_opt (dict_get (d_trailer d) k)
                        (dict_get (a_trailer a ++ [(bs "Size", OInt (Z.of_N (1 + max_num (LoadsTableProofs.nums a ++ S))))]) k)).
Proof.
  intros [[st [Hd [Hw ->]]]|[st [parts [Hd [Hw ->]]]]].
  - destruct (full st a file Hd Hw) as [d [t [H1 [H2 [H3 H4]]]]]. exists d, t. split; [exact H1|]. split; [exact H2|]. split; [exact H3|exact H4].
  - exact (loads_multi_all st parts a file Hd Hw).
Qed.
