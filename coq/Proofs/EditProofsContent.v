(* EditProofsContent.v -- C11, part 4: I_content for add_page_contents (the code after the repair of C11-content-indirect) on
   EVERY page whose content is defined (Spec/AbstractDoc.v: Contents absent, a stream, or an array of streams, each possibly
   behind references; the page itself possibly behind reference objects): afterwards the abstract page shows its old content
   followed by the new one, and every other page (another dictionary) whose content is defined shows what it showed before.
   First: dereferencing in a map that differs from the old one at ONE non-reference object and may hold additional objects. *)
From LV Require Import Base.Bytes Model.Obj Model.DocQ Model.PageTree Model.Traverse Model.Edit Model.StreamFilt
  Gen.Consts Spec.RenumberSpec Spec.AbstractDoc Proofs.RenumberProofsMap Proofs.EditProofs Proofs.EditProofsRes.

Lemma deref_fuel_pos : exists k, N.to_nat DEREF_LIMIT = S k.
Proof. vm_compute. eexists. reflexivity. Qed.

Definition not_ref (o : obj) : Prop := match o with ORef _ _ => False | _ => True end.

Lemma dereference_nonref m o : not_ref o -> dereference m o = Some (None, o).
Proof. unfold dereference. destruct deref_fuel_pos as [k ->]. destruct o; cbn; tauto || reflexivity. Qed.

Lemma dereference_one_hop m i g o :
  lookup m (i, g) = Some o -> not_ref o -> dereference m (ORef i g) = Some (Some (i, g), o).
Proof.
  intros L NR. unfold dereference. destruct deref_fuel_pos as [k ->]. cbn [deref_aux]. rewrite L.
  destruct k; destruct o; cbn in *; tauto || reflexivity.
Qed.

Lemma get_dictionary_direct m id pd : lookup m id = Some (ODict pd) -> get_dictionary m id = Some pd.
Proof.
  intro L. unfold get_dictionary, get_object. rewrite L. rewrite dereference_nonref by exact I. reflexivity.
Qed.

Lemma get_object_mut_id_direct m id pd : lookup m id = Some (ODict pd) -> get_object_mut_id m id = Some id.
Proof.
  intro L. unfold get_object_mut_id. rewrite L. rewrite dereference_nonref by exact I. reflexivity.
Qed.

Lemma dict_get_set_same d k v : dict_get (dict_set d k v) k = Some v.
Proof.
  induction d as [|[k' v'] d IH]; cbn [dict_set dict_get].
  - rewrite bytes_eqb_refl. reflexivity.
  - destruct (bytes_eqb k' k) eqn:E; cbn [dict_get]; rewrite E; [reflexivity | exact IH].
Qed.

(* ---------- dereferencing when one non-reference object is replaced (and objects may be added) ---------- *)
Definition opt_is (r : option oid) (t : oid) : bool := match r with Some x => oid_eqb x t | None => false end.

Lemma opt_is_false r t : r <> Some t -> opt_is r t = false.
Proof.
  destruct r as [x|]; [|reflexivity]. intro H. cbn [opt_is]. apply oid_eqb_neq. congruence.
Qed.

Lemma opt_is_true r t : opt_is r t = true -> r = Some t.
Proof. destruct r as [x|]; cbn [opt_is]; [|discriminate]. intro H. apply oid_eqb_eq in H. congruence. Qed.

(* every object of m other than t is in m2 unchanged; t holds the non-reference ot in m and the non-reference ot' in m2 *)
Definition grows_at (m m2 : objmap) (t : oid) (ot ot' : obj) : Prop :=
  (forall x o, x <> t -> lookup m x = Some o -> lookup m2 x = Some o) /\
  lookup m t = Some ot /\ lookup m2 t = Some ot' /\ not_ref ot /\ not_ref ot'.

Lemma deref_aux_nonref m f last o : not_ref o -> deref_aux m f last o = Some (last, o).
Proof. destruct f; destruct o; cbn; tauto || reflexivity. Qed.

Lemma deref_aux_grows m m2 t ot ot' : grows_at m m2 t ot ot' ->
  forall f last o r y, last <> Some t -> deref_aux m f last o = Some (r, y) ->
    deref_aux m2 f last o = Some (r, if opt_is r t then ot' else y).
Proof.
  intros [Hx [Lt [Lt' [N N']]]]. induction f as [|f IH]; intros last o r y Hl H.
  - destruct o as [| | | | | | | | |i g]; cbn [deref_aux] in *;
      try (inversion H; subst; rewrite (opt_is_false _ _ Hl); reflexivity).
    destruct (lookup m (i, g)); discriminate.
  - destruct o as [| | | | | | | | |i g]; cbn [deref_aux] in *;
      try (inversion H; subst; rewrite (opt_is_false _ _ Hl); reflexivity).
    destruct (lookup m (i, g)) as [o1|] eqn:L; [|discriminate].
    destruct (oid_eqb (i, g) t) eqn:E.
    + apply oid_eqb_eq in E. subst t. rewrite Lt in L. inversion L; subst o1.
      rewrite (deref_aux_nonref m f _ ot N) in H. inversion H; subst.
      rewrite Lt', (deref_aux_nonref m2 f _ ot' N'). cbn [opt_is]. rewrite oid_eqb_refl. reflexivity.
    + apply oid_eqb_neq in E. rewrite (Hx _ _ E L). apply IH; [|exact H]. intro Q. inversion Q. congruence.
Qed.

Lemma dereference_grows m m2 t ot ot' o r y : grows_at m m2 t ot ot' ->
  dereference m o = Some (r, y) -> dereference m2 o = Some (r, if opt_is r t then ot' else y).
Proof. intros G H. unfold dereference in *. eapply deref_aux_grows; [exact G | discriminate | exact H]. Qed.

(* where a dereferencing ends is where its result is stored *)
Lemma dereference_ends m o r y : dereference m o = Some (Some r, y) -> lookup m r = Some y.
Proof.
  unfold dereference. intro H. destruct (deref_final _ _ _ _ _ _ H) as [[E _]|E]; [discriminate | exact E].
Qed.

Lemma grows_update m t ot ot' : lookup m t = Some ot -> not_ref ot -> not_ref ot' -> grows_at m (update m t ot') t ot ot'.
Proof.
  intros L N N'. split; [|split; [exact L|split; [|split; assumption]]].
  - intros x o Hx Lx. rewrite lookup_update. replace (oid_eqb t x) with false; [exact Lx|].
    symmetry. apply oid_eqb_neq. congruence.
  - rewrite lookup_update, oid_eqb_refl, L. reflexivity.
Qed.

Lemma grows_insert_update m nid v t ot ot' :
  lookup m nid = None -> lookup m t = Some ot -> not_ref ot -> not_ref ot' ->
  grows_at m (update (insert m nid v) t ot') t ot ot'.
Proof.
  intros Ln L N N'.
  assert (L1 : forall x o, lookup m x = Some o -> lookup (insert m nid v) x = Some o).
  { intros x o Lx. rewrite lookup_insert. replace (oid_eqb nid x) with false; [exact Lx|].
    symmetry. apply oid_eqb_neq. intro E. subst x. congruence. }
  split; [|split; [exact L|split; [|split; assumption]]].
  - intros x o Hx Lx. rewrite lookup_update. replace (oid_eqb t x) with false; [apply L1; exact Lx|].
    symmetry. apply oid_eqb_neq. congruence.
  - rewrite lookup_update, oid_eqb_refl, (L1 _ _ L). reflexivity.
Qed.

(* get_object / get_object_mut: the object read is the same unless the reading ends at t *)
Lemma get_object_grows m m2 t ot ot' q o : grows_at m m2 t ot ot' ->
  get_object m q = Some o ->
  get_object m2 q = Some (if opt_is (get_object_mut_id m q) t then ot' else o) /\
  get_object_mut_id m2 q = get_object_mut_id m q /\ get_object_mut_id m q <> None.
Proof.
  intros G H. pose proof G as [Hx [Lt [Lt' [N N']]]]. unfold get_object, get_object_mut_id in *.
  destruct (lookup m q) as [o0|] eqn:L; [|discriminate].
  destruct (oid_eqb q t) eqn:E.
  - apply oid_eqb_eq in E. subst q. rewrite Lt in L. inversion L; subst o0.
    rewrite Lt'. rewrite (dereference_nonref m ot N) in *. rewrite (dereference_nonref m2 ot' N').
    cbn [option_map snd] in *. cbn [opt_is]. rewrite oid_eqb_refl. repeat split; discriminate.
  - apply oid_eqb_neq in E. rewrite (Hx _ _ E L).
    destruct (dereference m o0) as [[r y]|] eqn:D; [|discriminate]. cbn [option_map snd] in H. inversion H; subst y.
    rewrite (dereference_grows m m2 t ot ot' o0 r o G D). cbn [option_map snd].
    destruct r as [r0|]; cbn [opt_is].
    + repeat split; discriminate.
    + replace (oid_eqb q t) with false by (symmetry; apply oid_eqb_neq; exact E). repeat split; discriminate.
Qed.

Lemma get_dictionary_target m page pd :
  get_dictionary m page = Some pd -> exists t, get_object_mut_id m page = Some t /\ lookup m t = Some (ODict pd).
Proof.
  unfold get_dictionary. destruct (get_object m page) as [[| | | | | | |pd0| |]|] eqn:G; try discriminate.
  intro H; inversion H; subst pd0.
  destruct (get_object_mut_id m page) as [t|] eqn:T.
  - exists t. split; [reflexivity|]. eapply get_object_mut_agrees; eassumption.
  - exfalso. unfold get_object, get_object_mut_id in *. destruct (lookup m page) as [o0|]; [|discriminate].
    destruct (dereference m o0) as [[[r|] y]|]; discriminate.
Qed.

(* the dictionary read through q is the same when the reading does not end at t, and is the new one when it does *)
Lemma get_dictionary_grows_other m m2 t ot ot' q qd : grows_at m m2 t ot ot' ->
  get_dictionary m q = Some qd -> get_object_mut_id m q <> Some t ->
  get_dictionary m2 q = Some qd /\ get_object_mut_id m2 q = get_object_mut_id m q.
Proof.
  intros G H Hn. unfold get_dictionary in *.
  destruct (get_object m q) as [o|] eqn:Go; [|discriminate].
  destruct (get_object_grows m m2 t ot ot' q o G Go) as [G2 [T2 _]].
  rewrite G2, (opt_is_false _ _ Hn). split; [exact H | exact T2].
Qed.

Lemma get_dictionary_grows_at m m2 t ot td' q qd : grows_at m m2 t ot (ODict td') ->
  get_dictionary m q = Some qd -> get_object_mut_id m q = Some t ->
  get_dictionary m2 q = Some td' /\ get_object_mut_id m2 q = Some t.
Proof.
  intros G H Ht. unfold get_dictionary in *.
  destruct (get_object m q) as [o|] eqn:Go; [|discriminate].
  destruct (get_object_grows m m2 t ot (ODict td') q o G Go) as [G2 [T2 _]].
  rewrite G2, T2, Ht. cbn [opt_is]. rewrite oid_eqb_refl. split; reflexivity.
Qed.

(* ---------- dereferencing in a map that only gained objects ---------- *)
Definition extends (m m1 : objmap) : Prop := forall x o, lookup m x = Some o -> lookup m1 x = Some o.

Lemma deref_aux_extends m m1 : extends m m1 ->
  forall f last o res, deref_aux m f last o = Some res -> deref_aux m1 f last o = Some res.
Proof.
  intro X. induction f as [|f IH]; intros last o res H; destruct o as [| | | | | | | | |i g]; cbn [deref_aux] in *; try exact H.
  - destruct (lookup m (i, g)); discriminate.
  - destruct (lookup m (i, g)) as [o1|] eqn:L; [|discriminate]. rewrite (X _ _ L). apply IH. exact H.
Qed.

Lemma get_object_extends m m1 q o : extends m m1 -> get_object m q = Some o ->
  get_object m1 q = Some o /\ get_object_mut_id m1 q = get_object_mut_id m q.
Proof.
  intros X H. unfold get_object, get_object_mut_id in *. destruct (lookup m q) as [o0|] eqn:L; [|discriminate].
  rewrite (X _ _ L). unfold dereference in *.
  destruct (deref_aux m (N.to_nat DEREF_LIMIT) None o0) as [res|] eqn:D; [|discriminate].
  rewrite (deref_aux_extends m m1 X _ _ _ _ D). split; [exact H | reflexivity].
Qed.

Lemma extends_insert_fresh m nid v : lookup m nid = None -> extends m (insert m nid v).
Proof.
  intros Ln x o Lx. rewrite lookup_insert. replace (oid_eqb nid x) with false; [exact Lx|].
  symmetry. apply oid_eqb_neq. intro E. subst x. congruence.
Qed.

Section Content.
  Variable decode : dict -> bytes -> bytes.

  Lemma stream_data_ref m i g sd c :
    lookup m (i, g) = Some (OStream sd c) -> stream_data decode m (ORef i g) = Some (decode sd c).
  Proof. intro L. unfold stream_data. rewrite (dereference_one_hop m i g _ L I). reflexivity. Qed.

  Lemma concat_streams_app m l1 l2 :
    concat_streams decode m (l1 ++ l2) =
    match concat_streams decode m l1, concat_streams decode m l2 with
    | Some a, Some b => Some (a ++ b)
    | _, _ => None
    end.
  Proof.
    induction l1 as [|x l1 IH]; cbn [app concat_streams].
    - destruct (concat_streams decode m l2); reflexivity.
    - rewrite IH. destruct (stream_data decode m x); [|reflexivity].
      destruct (concat_streams decode m l1); [|reflexivity].
      destruct (concat_streams decode m l2); [rewrite app_assoc|]; reflexivity.
  Qed.

  Definition new_dict (c : bytes) : dict := [(K_Length, len_obj c)].

  (* ---- case 1: the replaced object t is neither a stream nor an array (a page dictionary gets a new Contents entry):
     every defined stream, list of streams and page content is what it was ---- *)
  Section KeepsStreams.
    Variables (m m2 : objmap) (t : oid) (ot ot' : obj).
    Hypothesis G : grows_at m m2 t ot ot'.
    Hypothesis Hs : forall sd c, ot <> OStream sd c.
    Hypothesis Ha : forall l, ot <> OArr l.

    Lemma grows_lookup_t : lookup m t = Some ot.
    Proof. destruct G as [_ [L _]]. exact L. Qed.

    Lemma dereference_keeps_stream x r sd c :
      dereference m x = Some (r, OStream sd c) -> dereference m2 x = Some (r, OStream sd c).
    Proof.
      intro D. rewrite (dereference_grows m m2 t ot ot' x r _ G D).
      destruct (opt_is r t) eqn:E; [|reflexivity]. apply opt_is_true in E. subst r.
      apply dereference_ends in D. rewrite grows_lookup_t in D. inversion D. exfalso. eapply Hs; eassumption.
    Qed.

    Lemma dereference_keeps_array x r l :
      dereference m x = Some (r, OArr l) -> dereference m2 x = Some (r, OArr l).
    Proof.
      intro D. rewrite (dereference_grows m m2 t ot ot' x r _ G D).
      destruct (opt_is r t) eqn:E; [|reflexivity]. apply opt_is_true in E. subst r.
      apply dereference_ends in D. rewrite grows_lookup_t in D. inversion D. exfalso. eapply Ha; eassumption.
    Qed.

    Lemma stream_data_keeps x a : stream_data decode m x = Some a -> stream_data decode m2 x = Some a.
    Proof.
      unfold stream_data. destruct (dereference m x) as [[r [| | | | | | | |sd c|]]|] eqn:D; try discriminate.
      rewrite (dereference_keeps_stream x r sd c D). auto.
    Qed.

    Lemma concat_streams_keeps l : forall b, concat_streams decode m l = Some b -> concat_streams decode m2 l = Some b.
    Proof.
      induction l as [|x l IH]; intros b H; cbn [concat_streams] in *; [exact H|].
      destruct (stream_data decode m x) as [a|] eqn:Sx; [|discriminate].
      destruct (concat_streams decode m l) as [b0|]; [|discriminate].
      rewrite (stream_data_keeps x a Sx), (IH b0 eq_refl). exact H.
    Qed.

    (* what the Contents value c shows (the body of page_content) *)
    Lemma contents_keeps c b :
      match dereference m c with
      | Some (_, OStream sd b0) => Some (decode sd b0)
      | Some (_, OArr l) => concat_streams decode m l
      | _ => None
      end = Some b ->
      match dereference m2 c with
      | Some (_, OStream sd b0) => Some (decode sd b0)
      | Some (_, OArr l) => concat_streams decode m2 l
      | _ => None
      end = Some b.
    Proof.
      destruct (dereference m c) as [[r [| | | | | |l| |sd b0|]]|] eqn:D; try discriminate.
      - rewrite (dereference_keeps_array c r l D). apply concat_streams_keeps.
      - rewrite (dereference_keeps_stream c r sd b0 D). auto.
    Qed.

    Lemma page_content_keeps q b :
      get_object_mut_id m q <> Some t -> page_content decode m q = Some b -> page_content decode m2 q = Some b.
    Proof.
      intros Hq H. unfold page_content in *. destruct (get_dictionary m q) as [qd|] eqn:Gq; [|discriminate].
      destruct (get_dictionary_grows_other m m2 t ot ot' q qd G Gq Hq) as [-> _].
      destruct (dict_get qd S_Contents) as [c|]; [|exact H]. apply contents_keeps. exact H.
    Qed.
  End KeepsStreams.

  (* ---- case 2: the replaced object is a stream [sid], rewritten to (sd', c'); nothing is added ---- *)
  Section InPlace.
    Variables (m m2 : objmap) (sid : oid) (sd0 : dict) (c0 : bytes) (sd' : dict) (c' : bytes).
    Hypothesis G : grows_at m m2 sid (OStream sd0 c0) (OStream sd' c').

    Lemma inplace_lookup : lookup m sid = Some (OStream sd0 c0).
    Proof. destruct G as [_ [L _]]. exact L. Qed.

    Lemma leads_is m0 x r y : dereference m0 x = Some (r, y) -> leads_to_stream m0 sid x = opt_is r sid.
    Proof. intro D. unfold leads_to_stream. rewrite D. destruct r; reflexivity. Qed.

    Lemma stream_data_inplace x a :
      stream_data decode m x = Some a ->
      stream_data decode m2 x = Some (if leads_to_stream m sid x then decode sd' c' else a).
    Proof.
      unfold stream_data. destruct (dereference m x) as [[r [| | | | | | | |sd c|]]|] eqn:D; try discriminate.
      intro H. inversion H; subst a.
      rewrite (dereference_grows m m2 sid _ _ x r _ G D), (leads_is m x r _ D).
      destruct (opt_is r sid); reflexivity.
    Qed.

    (* what a list of content items shows when the stream [sid] decodes to [nd] and every other stream is as in [m] *)
    Fixpoint expect (nd : bytes) (l : list obj) : option bytes :=
      match l with
      | [] => Some []
      | x :: l' =>
        match (if leads_to_stream m sid x then Some nd else stream_data decode m x), expect nd l' with
        | Some a, Some b => Some (a ++ b)
        | _, _ => None
        end
      end.

    Lemma expect_unshown nd l : existsb (leads_to_stream m sid) l = false -> expect nd l = concat_streams decode m l.
    Proof.
      induction l as [|x l IH]; intro H; cbn [expect concat_streams existsb] in *; [reflexivity|].
      apply Bool.orb_false_iff in H. destruct H as [H1 H2]. rewrite H1, (IH H2). reflexivity.
    Qed.

    Lemma concat_streams_inplace l : forall b,
      concat_streams decode m l = Some b -> concat_streams decode m2 l = expect (decode sd' c') l.
    Proof.
      induction l as [|x l IH]; intros b H; cbn [concat_streams expect] in *; [reflexivity|].
      destruct (stream_data decode m x) as [a|] eqn:Sx; [|discriminate].
      destruct (concat_streams decode m l) as [b0|]; [|discriminate].
      rewrite (stream_data_inplace x a Sx), (IH b0 eq_refl).
      destruct (leads_to_stream m sid x); reflexivity.
    Qed.

    Lemma get_dictionary_inplace q qd : get_dictionary m q = Some qd -> get_dictionary m2 q = Some qd.
    Proof.
      intro H. eapply get_dictionary_grows_other; [exact G | exact H|].
      intro T. destruct (get_dictionary_target m q qd H) as [t [T' L]]. rewrite T in T'. inversion T'; subst t.
      rewrite inplace_lookup in L. discriminate.
    Qed.

    (* a page that does not show the stream keeps its (defined) content *)
    Lemma page_content_unshown q b :
      page_shows_stream m sid q = false -> page_content decode m q = Some b -> page_content decode m2 q = Some b.
    Proof.
      intros Hs H. unfold page_content, page_shows_stream in *. destruct (get_dictionary m q) as [qd|] eqn:Gq; [|discriminate].
      rewrite (get_dictionary_inplace q qd Gq). change S_Contents with K_Contents in *.
      destruct (dict_get qd K_Contents) as [c|]; [|exact H].
      destruct (dereference m c) as [[r y]|] eqn:D; [|discriminate].
      rewrite (dereference_grows m m2 sid _ _ c r y G D).
      destruct y as [| | | | | |l| |sd b0|]; try discriminate.
      - assert (E : opt_is r sid = false).
        { destruct (opt_is r sid) eqn:E; [|reflexivity]. apply opt_is_true in E. subst r.
          apply dereference_ends in D. rewrite inplace_lookup in D. discriminate. }
        assert (Hs' : existsb (leads_to_stream m sid) l = false) by (destruct r; exact Hs).
        rewrite E. rewrite (concat_streams_inplace l b H), (expect_unshown _ l Hs'). exact H.
      - destruct r as [r0|]; cbn [opt_is]; [rewrite Hs|]; exact H.
    Qed.

    (* a page whose content is an array: every item that leads to the stream shows the new data *)
    Lemma page_content_inplace_array q qd c r l b :
      get_dictionary m q = Some qd -> dict_get qd K_Contents = Some c -> dereference m c = Some (r, OArr l) ->
      page_content decode m q = Some b -> page_content decode m2 q = expect (decode sd' c') l.
    Proof.
      intros Gq Ec D H. unfold page_content in *. rewrite Gq in H. rewrite (get_dictionary_inplace q qd Gq).
      change S_Contents with K_Contents in *. rewrite Ec in *. rewrite D in H.
      rewrite (dereference_grows m m2 sid _ _ c r _ G D).
      assert (E : opt_is r sid = false).
      { destruct (opt_is r sid) eqn:E; [|reflexivity]. apply opt_is_true in E. subst r.
        apply dereference_ends in D. rewrite inplace_lookup in D. discriminate. }
      rewrite E. apply (concat_streams_inplace l b H).
    Qed.

    (* a page that shows exactly this stream shows exactly the new data *)
    Lemma page_content_single q qd c :
      get_dictionary m q = Some qd -> dict_get qd K_Contents = Some c -> single_stream m c = Some sid ->
      page_content decode m2 q = Some (decode sd' c').
    Proof.
      intros Gq Ec Hs. unfold page_content. rewrite (get_dictionary_inplace q qd Gq).
      change S_Contents with K_Contents. rewrite Ec.
      assert (One : forall x, stream_id_of m x = Some sid -> dereference m2 x = Some (Some sid, OStream sd' c')).
      { intros x Hx. unfold stream_id_of in Hx.
        destruct (dereference m x) as [[[r0|] [| | | | | | | |sd b0|]]|] eqn:D; try discriminate.
        inversion Hx; subst r0. rewrite (dereference_grows m m2 sid _ _ x _ _ G D). cbn [opt_is].
        rewrite oid_eqb_refl. reflexivity. }
      unfold single_stream in Hs.
      destruct (dereference m c) as [[r y]|] eqn:D; [|rewrite (One c Hs); reflexivity].
      destruct y as [| | | | | |l| | |]; try (rewrite (One c Hs); reflexivity).
      destruct l as [|x [|x2 l]]; try discriminate.
      rewrite (dereference_grows m m2 sid _ _ c r _ G D).
      assert (E : opt_is r sid = false).
      { destruct (opt_is r sid) eqn:E; [|reflexivity]. apply opt_is_true in E. subst r.
        apply dereference_ends in D. rewrite inplace_lookup in D. discriminate. }
      rewrite E. cbn [concat_streams]. unfold stream_data. rewrite (One x Hs), app_nil_r. reflexivity.
    Qed.
  End InPlace.

  (* ---- add_object followed by set_page_entry, on a page whose dictionary may be read through reference objects ---- *)
  Lemma add_then_set d page pd t v c :
    alloc_ok d -> (d_max_id d < Renumber.U32_MAX)%N ->
    get_dictionary (d_objects d) page = Some pd -> get_object_mut_id (d_objects d) page = Some t ->
    lookup (d_objects d) t = Some (ODict pd) ->
    let nid := ((d_max_id d + 1)%N, 0%N) in
    let m1 := insert (d_objects d) nid (new_stream c) in
    let d1 := with_objs (with_max d (d_max_id d + 1)) m1 in
    let m2 := update m1 t (ODict (dict_set pd K_Contents v)) in
    add_object d (new_stream c) = Some (d1, nid) /\
    set_page_entry (d_objects d1) page K_Contents v = Some m2 /\
    grows_at (d_objects d) m2 t (ODict pd) (ODict (dict_set pd K_Contents v)) /\
    lookup m2 nid = Some (new_stream c).
  Proof.
    intros A Hmax Gp Tp Lt nid m1 d1 m2. set (m := d_objects d) in *.
    assert (Ln : lookup m nid = None).
    { apply lookup_none. intro Hx. apply A in Hx. cbn [fst nid] in Hx. lia. }
    assert (Htn : t <> nid) by (intro E; subst t; congruence).
    pose proof (extends_insert_fresh m nid (new_stream c) Ln) as X. fold m1 in X.
    split; [|split; [|split]].
    - unfold add_object, new_object_id. apply N.ltb_lt in Hmax. rewrite Hmax. reflexivity.
    - unfold set_page_entry. change (d_objects d1) with m1.
      assert (Go : get_object m page = Some (ODict pd)).
      { unfold get_dictionary in Gp. destruct (get_object m page) as [[| | | | | | |pd0| |]|]; try discriminate. congruence. }
      destruct (get_object_extends m m1 page _ X Go) as [_ T1]. rewrite T1, Tp, (X _ _ Lt). reflexivity.
    - apply grows_insert_update; try exact I; assumption.
    - unfold m2. rewrite lookup_update. replace (oid_eqb t nid) with false by (symmetry; apply oid_eqb_neq; exact Htn).
      unfold m1. rewrite lookup_insert, oid_eqb_refl. reflexivity.
  Qed.

  (* I_content for add_page_contents: the page shows its old content followed by what the new stream decodes to; every other
     page (a page whose dictionary is another object) with a defined content shows what it showed; the trailer is unchanged *)
  Theorem add_page_contents_content d page c old :
    alloc_ok d -> (d_max_id d < Renumber.U32_MAX)%N ->
    page_content decode (d_objects d) page = Some old ->
    exists d',
      add_page_contents d page c = (d', OOk) /\
      page_content decode (d_objects d') page = Some (old ++ decode (new_dict c) c) /\
      (forall q b, get_object_mut_id (d_objects d) q <> get_object_mut_id (d_objects d) page ->
                   page_content decode (d_objects d) q = Some b -> page_content decode (d_objects d') q = Some b) /\
      d_trailer d' = d_trailer d.
  Proof.
    intros A Hmax H. set (m := d_objects d) in *.
    unfold page_content in H. destruct (get_dictionary m page) as [pd|] eqn:Gp; [|discriminate].
    destruct (get_dictionary_target m page pd Gp) as [t [Tp Lt]].
    set (v := OArr (current_content_list m pd ++ [ORef (d_max_id d + 1) 0])).
    destruct (add_then_set d page pd t v c A Hmax Gp Tp Lt) as [Ha [Hs [G Ln]]].
    cbv zeta in Ha, Hs, G, Ln. fold m in Ha, Hs, G, Ln.
    set (m2 := update (insert m ((d_max_id d + 1)%N, 0%N) (new_stream c)) t (ODict (dict_set pd K_Contents v))) in *.
    assert (Ns : forall sd c1, ODict pd <> OStream sd c1) by (intros; discriminate).
    assert (Na : forall l, ODict pd <> OArr l) by (intros; discriminate).
    eexists. split; [|split; [|split]].
    - unfold add_page_contents. fold m. rewrite Gp. cbv zeta. rewrite Ha. cbn [fst snd]. fold v. rewrite Hs. reflexivity.
    - cbn [d_objects with_objs]. unfold page_content.
      destruct (get_dictionary_grows_at m m2 t _ _ page pd G Gp Tp) as [-> _].
      change S_Contents with K_Contents in *. rewrite dict_get_set_same. unfold v at 1.
      rewrite dereference_nonref by exact I. rewrite concat_streams_app.
      assert (Ec : concat_streams decode m2 (current_content_list m pd) = Some old).
      { unfold current_content_list. destruct (dict_get pd K_Contents) as [c0|]; [|exact H].
        destruct (dereference m c0) as [[r [| | | | | |l| |sd b0|]]|] eqn:D; try discriminate.
        - apply (concat_streams_keeps m m2 t _ _ G Ns). exact H.
        - cbn [concat_streams].
          rewrite (stream_data_keeps m m2 t _ _ G Ns c0 (decode sd b0)) by (unfold stream_data; rewrite D; reflexivity).
          rewrite app_nil_r. exact H. }
      rewrite Ec. cbn [concat_streams].
      rewrite (stream_data_ref m2 (d_max_id d + 1)%N 0%N (new_dict c) c Ln), app_nil_r. reflexivity.
    - intros q b Hq Hb. cbn [d_objects with_objs]. apply (page_content_keeps m m2 t _ _ G Ns Na); [|exact Hb].
      fold m in Hq. rewrite Tp in Hq. exact Hq.
    - reflexivity.
  Qed.
End Content.
