(* EditProofsContent.v -- C11, part 4: add_page_contents on pages whose Contents is "plain" (absent, a reference
   that directly names a stream, or a direct array of such references -- the complement of the known-finding class
   C11-content-indirect, for pages that are direct dictionary objects): afterwards the abstract page
   (Spec/AbstractDoc.v) shows its old content followed by the new one, and every other plain page shows what it
   showed before. *)
From LV Require Import Base.Bytes Model.Obj Model.DocQ Model.PageTree Model.Traverse Model.Edit Model.StreamFilt
  Gen.Consts Spec.RenumberSpec Spec.AbstractDoc Proofs.RenumberProofsMap Proofs.EditProofs.

Lemma deref_fuel_pos : exists k, N.to_nat DEREF_LIMIT = S k.
Proof. vm_compute. eexists. reflexivity. Qed.

Definition not_ref (o : obj) : Prop := match o with ORef _ _ => False | _ => True end.

Lemma dereference_nonref m o : not_ref o -> dereference m o = Some (None, o).
Proof. unfold dereference. destruct deref_fuel_pos as [k ->]. destruct o; cbn; tauto || reflexivity. Qed.

Lemma dereference_one_hop m i g o :
  lookup m (i, g) = Some o -> not_ref o -> dereference m (ORef i g) = Some (Some (i, g), o).
Proof.
  intros L NR. unfold dereference. destruct deref_fuel_pos as [k ->]. cbn [deref_aux]. rewrite L.
  destruct k; destruct o; cbn in *; tauto || reflexivity.
Qed.

Lemma get_dictionary_direct m id pd : lookup m id = Some (ODict pd) -> get_dictionary m id = Some pd.
Proof.
  intro L. unfold get_dictionary, get_object. rewrite L. rewrite dereference_nonref by exact I. reflexivity.
Qed.

Lemma get_object_mut_id_direct m id pd : lookup m id = Some (ODict pd) -> get_object_mut_id m id = Some id.
Proof.
  intro L. unfold get_object_mut_id. rewrite L. rewrite dereference_nonref by exact I. reflexivity.
Qed.

Lemma dict_get_set_same d k v : dict_get (dict_set d k v) k = Some v.
Proof.
  induction d as [|[k' v'] d IH]; cbn [dict_set dict_get].
  - rewrite bytes_eqb_refl. reflexivity.
  - destruct (bytes_eqb k' k) eqn:E; cbn [dict_get]; rewrite E; [reflexivity | exact IH].
Qed.

(* ---------- plain contents ---------- *)
Definition stream_ref (m : objmap) (x : obj) : Prop :=
  exists i g sd c, x = ORef i g /\ lookup m (i, g) = Some (OStream sd c).

Definition plain_contents (m : objmap) (pd : dict) : Prop :=
  match dict_get pd K_Contents with
  | None => True
  | Some (OArr l) => Forall (stream_ref m) l
  | Some x => stream_ref m x
  end.

Section Content.
  Variable decode : dict -> bytes -> bytes.

  Lemma stream_data_ref m i g sd c :
    lookup m (i, g) = Some (OStream sd c) -> stream_data decode m (ORef i g) = Some (decode sd c).
  Proof. intro L. unfold stream_data. rewrite (dereference_one_hop m i g _ L I). reflexivity. Qed.

  Lemma concat_streams_app m l1 l2 :
    concat_streams decode m (l1 ++ l2) =
    match concat_streams decode m l1, concat_streams decode m l2 with
    | Some a, Some b => Some (a ++ b)
    | _, _ => None
    end.
  Proof.
    induction l1 as [|x l1 IH]; cbn [app concat_streams].
    - destruct (concat_streams decode m l2); reflexivity.
    - rewrite IH. destruct (stream_data decode m x); [|reflexivity].
      destruct (concat_streams decode m l1); [|reflexivity].
      destruct (concat_streams decode m l2); [rewrite app_assoc|]; reflexivity.
  Qed.

  (* two maps that agree on the streams a plain list names give the same concatenation, and it is defined *)
  Lemma concat_streams_agree m m' l :
    Forall (stream_ref m) l ->
    (forall i g sd c, lookup m (i, g) = Some (OStream sd c) -> lookup m' (i, g) = Some (OStream sd c)) ->
    concat_streams decode m' l = concat_streams decode m l /\ exists b, concat_streams decode m l = Some b.
  Proof.
    intros F A. induction F as [|x l [i [g [sd [c [-> L]]]]] F IH]; cbn [concat_streams].
    - split; [reflexivity | eexists; reflexivity].
    - destruct IH as [E [b Eb]]. rewrite (stream_data_ref m i g sd c L), (stream_data_ref m' i g sd c (A _ _ _ _ L)), E, Eb.
      split; [reflexivity | eexists; reflexivity].
  Qed.

  (* the abstract content of a direct-dictionary page with plain contents, in any map that agrees on its streams *)
  Lemma page_content_agree m m' page pd :
    lookup m page = Some (ODict pd) -> lookup m' page = Some (ODict pd) -> plain_contents m pd ->
    (forall i g sd c, lookup m (i, g) = Some (OStream sd c) -> lookup m' (i, g) = Some (OStream sd c)) ->
    page_content decode m' page = page_content decode m page /\ exists b, page_content decode m page = Some b.
  Proof.
    intros L L' P A. unfold page_content. rewrite (get_dictionary_direct m page pd L), (get_dictionary_direct m' page pd L').
    unfold plain_contents in P. destruct (dict_get pd S_Contents) as [x|] eqn:Ec;
      change S_Contents with K_Contents in Ec; rewrite Ec in P; [|split; [reflexivity | eexists; reflexivity]].
    destruct x as [| | | | | |l| | |i g]; try (destruct P as [i0 [g0 [sd [c [Ex _]]]]]; discriminate).
    - rewrite !dereference_nonref by exact I. apply concat_streams_agree; assumption.
    - destruct P as [i0 [g0 [sd [c [Ex Ls]]]]]. inversion Ex; subst i0 g0.
      rewrite (dereference_one_hop m i g _ Ls I), (dereference_one_hop m' i g _ (A _ _ _ _ Ls) I).
      split; [reflexivity | eexists; reflexivity].
  Qed.

  Definition new_dict (c : bytes) : dict := [(K_Length, len_obj c)].

  (* what add_page_contents reads as the current list *)
  Definition cur_list (pd : dict) : list obj :=
    match dict_get pd K_Contents with Some (ORef i g) => [ORef i g] | Some (OArr l) => l | _ => [] end.

  Lemma cur_list_plain m pd : plain_contents m pd -> Forall (stream_ref m) (cur_list pd).
  Proof.
    unfold cur_list, plain_contents. destruct (dict_get pd K_Contents) as [[| | | | | |l| | |i g]|]; intro P; try constructor; try exact P.
    constructor.
  Qed.

  Lemma page_content_cur m page pd :
    lookup m page = Some (ODict pd) -> plain_contents m pd ->
    page_content decode m page = concat_streams decode m (cur_list pd).
  Proof.
    intros L P. unfold page_content. rewrite (get_dictionary_direct m page pd L).
    unfold plain_contents in P. unfold cur_list. change S_Contents with K_Contents.
    destruct (dict_get pd K_Contents) as [x|]; [|reflexivity].
    destruct x as [| | | | | |l| | |i g]; try (destruct P as [i0 [g0 [sd [c [Ex _]]]]]; discriminate).
    - rewrite dereference_nonref by exact I. reflexivity.
    - destruct P as [i0 [g0 [sd [c [Ex Ls]]]]]. inversion Ex; subst i0 g0.
      rewrite (dereference_one_hop m i g _ Ls I). cbn [concat_streams].
      rewrite (stream_data_ref m i g sd c Ls), app_nil_r. reflexivity.
  Qed.

  Theorem add_page_contents_plain d page pd c :
    doc_wf d -> alloc_ok d -> (d_max_id d < Renumber.U32_MAX)%N ->
    lookup (d_objects d) page = Some (ODict pd) -> plain_contents (d_objects d) pd ->
    exists d' old,
      add_page_contents d page c = (d', OOk) /\
      page_content decode (d_objects d) page = Some old /\
      page_content decode (d_objects d') page = Some (old ++ decode (new_dict c) c) /\
      (forall q qd, q <> page -> lookup (d_objects d) q = Some (ODict qd) -> plain_contents (d_objects d) qd ->
                    page_content decode (d_objects d') q = page_content decode (d_objects d) q) /\
      d_trailer d' = d_trailer d.
  Proof.
    intros W A Hmax L P. remember (d_objects d) as m eqn:Em.
    set (nid := ((d_max_id d + 1)%N, 0%N)).
    assert (Hfresh : forall x, has_obj m x -> x <> nid).
    { intros x Hx E. subst x m. apply A in Hx. cbn [fst nid] in Hx. lia. }
    set (m1 := insert m nid (new_stream c)).
    set (d1 := with_objs (with_max d (d_max_id d + 1)) m1).
    assert (Hadd : add_object d (new_stream c) = Some (d1, nid)).
    { unfold add_object, new_object_id. apply N.ltb_lt in Hmax. rewrite Hmax. unfold d1, m1. rewrite Em. reflexivity. }
    assert (L1 : forall x, x <> nid -> lookup m1 x = lookup m x).
    { intros x Hx. unfold m1. rewrite lookup_insert. replace (oid_eqb nid x) with false; [reflexivity|].
      symmetry. apply oid_eqb_neq. congruence. }
    assert (Hpn : page <> nid) by (apply Hfresh; eapply lookup_has; exact L).
    set (newc := OArr (cur_list pd ++ [ORef (fst nid) (snd nid)])).
    set (pd' := dict_set pd K_Contents newc).
    set (m2 := update m1 page (ODict pd')).
    assert (Lp1 : lookup m1 page = Some (ODict pd)) by (rewrite L1 by exact Hpn; exact L).
    assert (Lp2 : lookup m2 page = Some (ODict pd')).
    { unfold m2. rewrite lookup_update, oid_eqb_refl, Lp1. reflexivity. }
    assert (L2 : forall x, x <> page -> x <> nid -> lookup m2 x = lookup m x).
    { intros x Hx Hn. unfold m2. rewrite lookup_update. replace (oid_eqb page x) with false; [apply L1; exact Hn|].
      symmetry. apply oid_eqb_neq. congruence. }
    assert (Ls : forall i g sd c0, lookup m (i, g) = Some (OStream sd c0) -> lookup m2 (i, g) = Some (OStream sd c0)).
    { intros i g sd c0 H. rewrite L2; [exact H| |].
      - intro E. rewrite E in H. congruence.
      - apply Hfresh. eapply lookup_has; exact H. }
    assert (Ln : lookup m2 nid = Some (new_stream c)).
    { unfold m2. rewrite lookup_update. replace (oid_eqb page nid) with false by (symmetry; apply oid_eqb_neq; exact Hpn).
      unfold m1. rewrite lookup_insert, oid_eqb_refl. reflexivity. }
    pose proof (cur_list_plain m pd P) as Hcur.
    destruct (concat_streams_agree m m2 (cur_list pd) Hcur Ls) as [Ecur [old Eold]].
    exists (with_objs d1 m2), old. split; [|split; [|split; [|split]]].
    - unfold add_page_contents. rewrite <- Em. rewrite (get_dictionary_direct m page pd L).
      fold (cur_list pd). rewrite Hadd. unfold set_page_entry.
      change (d_objects d1) with m1. rewrite (get_object_mut_id_direct m1 page pd Lp1), Lp1. reflexivity.
    - rewrite (page_content_cur m page pd L P). exact Eold.
    - change (d_objects (with_objs d1 m2)) with m2. unfold page_content.
      rewrite (get_dictionary_direct m2 page pd' Lp2). change S_Contents with K_Contents.
      unfold pd'. rewrite dict_get_set_same. unfold newc. rewrite dereference_nonref by exact I.
      rewrite concat_streams_app, Ecur, Eold. cbn [concat_streams].
      replace (ORef (fst nid) (snd nid)) with (ORef (d_max_id d + 1) 0) by reflexivity.
      rewrite (stream_data_ref m2 (d_max_id d + 1)%N 0%N (new_dict c) c Ln), app_nil_r. reflexivity.
    - intros q qd Hq Lq Pq. change (d_objects (with_objs d1 m2)) with m2.
      assert (Hqn : q <> nid) by (apply Hfresh; eapply lookup_has; exact Lq).
      apply (page_content_agree m m2 q qd Lq); [rewrite L2 by assumption; exact Lq | exact Pq | exact Ls].
    - reflexivity.
  Qed.
End Content.
