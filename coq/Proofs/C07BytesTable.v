(* C07BytesTable.v -- C07, byte level, part 2: the cross-reference TABLE format.
   One revision as the writer lays it out (objects, "xref" table, trailer, startxref) standing after ANY
   bytes pre0 and followed by ANY bytes is read by the loader's xref_and_trailer / indirect_object to explicit
   results; hence
     Theorem B  [saved_table_good]   a file written by save_core XTable is a good_file;
     Theorem C  [inc_table_good]     inc_save (table format) on a good_file gives a good_file whose objects are
                                     the new objects laid over the previous ones (Incremental.overlay);
   and with Theorem A (C07Bytes.good_file_loads): load (inc_save ...) = overlay. *)
From LV Require Import Base.Bytes Base.Sx Model.Obj Model.Writer Model.Parser Model.Save Model.Xref Model.Loader
  Model.Incremental Model.Utf Gen.Lex Gen.SaveFmt Gen.Inc Proofs.LexProofs Proofs.RealProofs Proofs.ObjectRtProofs
  Proofs.SaveProofs Proofs.FilterProofsDict Spec.SaveSpec Proofs.LoadProofs Proofs.LoadProofsFile Proofs.LoadProofsXref
  Proofs.LoadProofsTable Proofs.LoadProofsAgain Proofs.LoadProofsStream Proofs.StrictLoadProofs
  Proofs.StrictRevisionProofs Proofs.StrictIncrementalProofs Proofs.C07Bytes.

Local Open Scope N_scope.

(* ---------- small facts ---------- *)
Lemma conv_map_cons a l : conv_map (a :: l) = conv_entry a :: conv_map l.
Proof. reflexivity. Qed.
Lemma norm_objects_cons io l : norm_objects (io :: l) = (fst io, norm_obj (snd io)) :: norm_objects l.
Proof. reflexivity. Qed.

Lemma conv_map_keys (P : N -> Prop) (x : Save.xmap) :
  Forall (fun ke => P (fst ke)) x -> Forall (fun ke : N * Xref.xentry => P (fst ke)) (conv_map x).
Proof. induction 1 as [|ke x H _ IH]; [constructor|]. rewrite conv_map_cons. constructor; [exact H | exact IH]. Qed.

Lemma lblen_app a b : Loader.blen (a ++ b) = Loader.blen a + Loader.blen b.
Proof. unfold Loader.blen. rewrite app_length. lia. Qed.

(* the objects of a revision of the domain, outside the known class, are readable *)
Lemma rev_objs_ok nd : rev_dom nd -> known_deep nd = false -> Forall obj_ok (d_objects nd).
Proof.
  intros Hd K. pose proof (rd_objects nd Hd) as Ho. pose proof (rd_max_id nd Hd) as Hm.
  unfold known_deep in K. apply orb_false_iff in K as [K _].
  rewrite Forall_forall in *. intros io Hin. specialize (Ho io Hin). destruct Ho as [H1 [H2 [H3 H4]]].
  unfold obj_ok. split; [|split; [|split; [|split]]]; try assumption.
  - unfold u32_max, u32_mod in *. apply N.le_trans with (d_max_id nd); [exact H1|]. clear - Hm. lia.
  - assert (Hk : (MAX_DEPTH <? nest (snd io))%nat = false).
    { destruct (MAX_DEPTH <? nest (snd io))%nat eqn:E; [|reflexivity].
      assert (existsb (fun io => (MAX_DEPTH <? nest (snd io))%nat) (d_objects nd) = true)
        by (apply existsb_exists; exists io; split; assumption). congruence. }
    apply Nat.ltb_ge in Hk. exact Hk.
Qed.

(* ---------- the objects of a revision, each at its recorded offset, whatever follows ---------- *)
Lemma located_objs : forall objs pre tail,
  Forall obj_ok objs -> Loader.blen (pre ++ objs_bytes objs) < u32_mod ->
  Forall2 (obj_at (pre ++ objs_bytes objs ++ tail)) (conv_map (entries_of (Save.blen pre) objs)) (norm_objects objs).
Proof.
  induction objs as [|[[id g] o] rest IH]; intros pre tail Hok Hsmall; [constructor|].
  inversion Hok as [|? ? [Hid [Hg [Hw [Hn Hsk]]]] Hok']; subst. cbn [fst snd] in *.
  rewrite objs_bytes_cons in * by exact Hsk.
  cbn [entries_of]. rewrite Hsk. rewrite conv_map_cons, norm_objects_cons. unfold conv_entry at 1. cbn [fst snd].
  assert (Hpos : Save.blen pre mod u32_mod = Save.blen pre).
  { apply N.mod_small. unfold Loader.blen, Save.blen in *. rewrite app_length in Hsmall. lia. }
  rewrite Hpos. constructor.
  - exists (Save.blen pre), g. cbn [fst snd]. split; [reflexivity|]. split; [reflexivity|]. split; [|split].
    + unfold Loader.blen, Save.blen. rewrite app_length. lia.
    + change (Save.blen pre) with (Loader.blen pre). rewrite from_app. rewrite <- app_assoc.
      apply indirect_object_rt; assumption.
    + intros d c E. destruct o; cbn [norm_obj] in E; try discriminate E.
      * exfalso. unfold norm_real in E. destruct (strip_minus r) as [neg t].
        destruct (forallb is_dec_digit t); [destruct (REAL_POINT_DISPLAY_THRESHOLD <=? digits_val t)|]; discriminate E.
      * inversion E; subst. apply not_objstm with (c := c). exact Hsk.
  - replace (pre ++ (write_indirect_object id g o ++ objs_bytes rest) ++ tail)
      with ((pre ++ write_indirect_object id g o) ++ objs_bytes rest ++ tail)
      by (rewrite <- !app_assoc; reflexivity).
    replace (Save.blen pre + Save.blen (write_indirect_object id g o))
      with (Save.blen (pre ++ write_indirect_object id g o)) by apply blen_app.
    apply IH; [exact Hok'|]. rewrite <- app_assoc. exact Hsmall.
Qed.

(* ====================================================================================== *)
(* one TABLE revision in context                                                           *)
(* ====================================================================================== *)
Definition tab_file (pre0 : bytes) (nd : doc) : bytes :=
  pre0 ++ objs_bytes (d_objects nd) ++ tab_part nd (Save.blen pre0) ++ startxref_bytes (rev_start nd (Save.blen pre0)).

Definition tab_xref (nd : doc) (pos0 : N) : xref :=
  {| x_type := XTTable; x_entries := conv_map (rev_xmap nd pos0); x_size := i64_as_u32 (Z.of_N (d_max_id nd + 1)) |}.

Lemma rev_start_len pre0 nd : rev_start nd (Save.blen pre0) = Loader.blen (pre0 ++ objs_bytes (d_objects nd)).
Proof. unfold rev_start. rewrite lblen_app. reflexivity. Qed.

Lemma tab_part_long nd pos0 : (18 <= length (tab_part nd pos0))%nat.
Proof.
  unfold tab_part, trailer_bytes. repeat (rewrite app_length; cbn [length]).
  pose proof (write_xref_long (rev_xmap nd pos0) (d_max_id nd + 1)).
  pose proof (eq_refl : length (bs "trailer") = 7%nat).
  assert (4 <= length (write_dictionary (trailer_table nd)))%nat.
  { unfold write_dictionary. rewrite write_dict_eq. cbn [length]. rewrite app_length. cbn [length]. lia. }
  lia.
Qed.

Lemma tab_file_tail pre0 nd :
  Loader.blen (tab_file pre0 nd) < u32_mod -> (8 <= length pre0)%nat ->
  let front := pre0 ++ objs_bytes (d_objects nd) ++ tab_part nd (Save.blen pre0) in
  let xs' := rev_start nd (Save.blen pre0) in
  tab_file pre0 nd = front ++ startxref_bytes xs' /\
  xs' <= Loader.blen front /\ 25 < Loader.blen front /\ xs' < 10 ^ 14.
Proof.
  intros Hsmall Hpre front xs'. split; [|split; [|split]].
  - unfold tab_file, front. rewrite <- !app_assoc. reflexivity.
  - unfold xs', front. rewrite rev_start_len. unfold Loader.blen. rewrite !app_length. clear. lia.
  - unfold front, Loader.blen. rewrite !app_length. pose proof (tab_part_long nd (Save.blen pre0)). lia.
  - unfold xs'. rewrite rev_start_len. unfold tab_file, Loader.blen in *. rewrite !app_length in Hsmall. rewrite app_length.
    unfold u32_mod in *. change (10 ^ 14) with 100000000000000. lia.
Qed.

Lemma tab_file_section pre0 nd rest :
  rev_dom nd -> known_deep nd = false -> Loader.blen (tab_file pre0 nd) < u32_mod ->
  xref_and_trailer (tab_file pre0 nd ++ rest) (rev_start nd (Save.blen pre0)) =
  SOk (tab_xref nd (Save.blen pre0), norm_dict (trailer_table nd)).
Proof.
  intros Hd K Hsmall.
  set (pos0 := Save.blen pre0). set (objs := d_objects nd). set (t := trailer_table nd). set (size := d_max_id nd + 1).
  set (x := rev_xmap nd pos0). set (sx := startxref_bytes (rev_start nd pos0)).
  pose proof (rd_max_id nd Hd) as Hmax.
  assert (Hobjs : Forall obj_ok objs) by (apply rev_objs_ok; assumption).
  destruct (entries_of_props objs pos0 0 size Hobjs (rd_numbers nd Hd)) as [Hxi [Hxb Hxn]].
  { pose proof (rd_objects nd Hd) as Ho. eapply Forall_impl; [|exact Ho]. intros io [H1 _]. unfold size, oid in *. lia. }
  fold (rev_xmap nd pos0) in Hxi, Hxb, Hxn. fold x in Hxi, Hxb, Hxn. replace (0 + 1) with 1 in Hxi by lia.
  assert (Hwf : obj_wf (ODict t)) by (apply trailer_table_wf'; exact Hd).
  assert (Hnest : (nest (ODict t) <= MAX_DEPTH)%nat) by (apply trailer_table_nest; exact K).
  unfold xref_and_trailer. pose proof (rev_start_len pre0 nd) as Hrs. fold pos0 objs in Hrs. rewrite Hrs.
  assert (E : tab_file pre0 nd ++ rest = (pre0 ++ objs_bytes objs) ++ write_xref x size ++ trailer_bytes t ++ sx ++ rest).
  { unfold tab_file, tab_part. fold pos0 objs x size t sx. rewrite <- !app_assoc. reflexivity. }
  rewrite E, from_app. unfold xref_and_trailer_table.
  assert (Etr : trailer_bytes t ++ sx ++ rest = bs "trailer" ++ x0a :: write_dictionary t ++ sx ++ rest).
  { unfold trailer_bytes. repeat (rewrite <- app_assoc; cbn [app]). reflexivity. }
  rewrite Etr.
  rewrite xref_table_roundtrip; [| unfold size; lia | unfold size, two32, u32_mod in *; lia | exact Hxi | exact Hxb | exact Hxn].
  rewrite <- Etr. rewrite trailer_rt by assumption.
  rewrite dict_get_norm. unfold t, trailer_table. rewrite dict_get_set_same. cbn [option_map norm_obj].
  reflexivity.
Qed.

Lemma tab_file_objs pre0 nd rest :
  rev_dom nd -> known_deep nd = false -> Loader.blen (tab_file pre0 nd) < u32_mod ->
  Forall2 (obj_at (tab_file pre0 nd ++ rest)) (conv_map (rev_xmap nd (Save.blen pre0))) (norm_objects (d_objects nd)).
Proof.
  intros Hd K Hsmall. unfold tab_file. rewrite <- !app_assoc. unfold rev_xmap.
  apply located_objs; [apply rev_objs_ok; assumption|].
  unfold tab_file, Loader.blen in *. rewrite !app_length in Hsmall. rewrite app_length. lia.
Qed.

Lemma rev_xmap_sorted nd pos0 : rev_dom nd -> xincr 0 (conv_map (rev_xmap nd pos0)).
Proof. intro Hd. apply xincr_conv. eapply incr_weaken; [|apply rev_xmap_incr; exact Hd]. lia. Qed.

Lemma rev_xmap_keys nd pos0 : rev_dom nd -> Forall (fun ke : N * Xref.xentry => fst ke < u32_max) (conv_map (rev_xmap nd pos0)).
Proof.
  intro Hd. apply (conv_map_keys (fun k => k < u32_max)). pose proof (rd_max_id nd Hd) as Hm.
  eapply Forall_impl; [|apply (rev_xmap_bound nd pos0 Hd)]. intros a Ha. cbn beta in *. unfold u32_max, u32_mod in *. lia.
Qed.

(* ---------- the trailer that comes back ---------- *)
Lemma norm_trailer_get nd k : k <> Save.K_Size ->
  dict_get (norm_dict (trailer_table nd)) k = option_map norm_obj (dict_get (d_trailer nd) k).
Proof. intro H. rewrite dict_get_norm. unfold trailer_table. rewrite dict_get_set_other by exact H. reflexivity. Qed.

Lemma norm_trailer_wf nd : rev_dom nd -> dict_wf (norm_dict (trailer_table nd)).
Proof.
  intro Hd. apply norm_dict_wf. unfold trailer_table. apply dict_set_wf.
  destruct (wf_dict_inv _ (rd_trailer nd Hd)) as [H _]. exact H.
Qed.

(* ====================================================================================== *)
(* THEOREM B: a saved file (table format) is a good file                                   *)
(* ====================================================================================== *)
Theorem saved_table_good d :
  savable_core d -> known_deep d = false -> small_file_core XTable d ->
  dict_get (d_trailer d) K_XRefStm = None ->
  good_file (so_bytes (save_core XTable d)) (d_version d) (d_binary_mark d) (Save.blen (body_of d)) XTTable
            (conv_map (rev_xmap d (hm_len d))) (norm_dict (trailer_table d)) (norm_objects (d_objects d)).
Proof.
  intros S K Hsmall Hstm. pose proof (savable_rev_dom d S) as Hd.
  destruct (save_core_rev_shape XTable d S Hsmall) as [Hshape Hst]. cbn [part_of] in Hshape.
  set (pre0 := header_bytes d ++ mark_bytes d) in *.
  assert (Efile : so_bytes (save_core XTable d) = tab_file pre0 d).
  { rewrite Hshape. unfold tab_file, hm_len. fold pre0. rewrite <- ?app_assoc. reflexivity. }
  assert (Hsm : Loader.blen (tab_file pre0 d) < u32_mod).
  { unfold small_file_core in Hsmall. rewrite Efile in Hsmall. exact Hsmall. }
  assert (Hpre : (8 <= length pre0)%nat).
  { unfold pre0, header_bytes, mark_bytes. repeat (rewrite app_length; cbn [length]).
    pose proof (eq_refl : length (bs "%PDF-") = 5%nat). lia. }
  assert (Hpos : hm_len d = Save.blen pre0) by reflexivity.
  assert (Hprev : dict_get (norm_dict (trailer_table d)) Xref.K_Prev = None).
  { change Xref.K_Prev with Save.K_Prev. rewrite norm_trailer_get by discriminate.
    rewrite (dict_has_false_get _ _ (sv_no_prev d S)). reflexivity. }
  rewrite Efile, <- Hst, Hpos.
  destruct (tab_file_tail pre0 d Hsm Hpre) as [Et [H1 [H2 H3]]].
  constructor.
  - eexists. unfold tab_file, pre0, header_bytes, mark_bytes. repeat (rewrite <- app_assoc; cbn [app]). reflexivity.
  - apply (sv_version_eol d S).
  - apply (sv_version_utf8 d S).
  - apply (sv_mark d S).
  - eexists. split; [exact Et|]. repeat split; assumption.
  - exists (tab_xref d (Save.blen pre0)), (norm_dict (trailer_table d)), [].
    split; [reflexivity|]. split; [reflexivity|]. split; [apply swap_remove_absent_get; exact Hprev|].
    split; [rewrite norm_trailer_get by discriminate; rewrite Hstm; reflexivity|].
    intro rest. split; [apply tab_file_section; assumption|]. rewrite Hprev. apply clt_nil. intros p E. discriminate E.
  - rewrite norm_trailer_get by discriminate. rewrite Hstm. reflexivity.
  - unfold dict_has. change Loader.K_Encrypt with Save.K_Encrypt. rewrite norm_trailer_get by discriminate.
    rewrite (dict_has_false_get _ _ (sv_no_encrypt d S)). reflexivity.
  - apply rev_xmap_sorted. exact Hd.
  - apply rev_xmap_keys. exact Hd.
  - intro rest. apply tab_file_objs; assumption.
Qed.

(* ====================================================================================== *)
(* what inc_save appends, after ANY previous bytes that start with the header and end with %%EOF *)
(* ====================================================================================== *)
Lemma good_file_offset F v m xs xt entries t objs :
  good_file F v m xs xt entries t objs -> header_offset F = O /\ separator F = [x0a] /\ (8 <= length F)%nat.
Proof.
  intros G. destruct (gf_head _ _ _ _ _ _ _ _ G) as [body Eh]. destruct (gf_tail _ _ _ _ _ _ _ _ G) as [front [Et _]].
  split; [|split].
  - rewrite Eh. apply header_offset_pdf.
  - rewrite Et. destruct (startxref_ends xs) as [pre Hpre]. rewrite Hpre, app_assoc. apply separator_eof.
  - rewrite Eh. repeat (rewrite app_length; cbn [length]). pose proof (eq_refl : length (bs "%PDF-") = 5%nat). lia.
Qed.

Lemma inc_save_shape_gen x s :
  let F := i_bytes s in
  let nd := xd_doc (i_new s) in
  let pos0 := Save.blen (F ++ inc_lines nd) in
  header_offset F = O -> separator F = [x0a] -> xd_type (i_prev s) = x ->
  rev_dom nd -> binary_mark_ok (d_binary_mark nd) = true ->
  Save.blen (io_bytes (inc_save s)) < u32_mod ->
  io_status (inc_save s) = IncOk /\
  io_bytes (inc_save s) =
    (F ++ inc_lines nd) ++ objs_bytes (d_objects nd) ++ part_of x nd pos0 ++ startxref_bytes (rev_start nd pos0) /\
  io_start (inc_save s) = rev_start nd pos0.
Proof.
  intros F nd pos0 Hoff Hsep Ht Hr Hmk.
  pose proof (rd_max_id nd Hr) as Hmax.
  unfold inc_save. fold F nd.
  replace (u32_top <=? d_max_id nd) with false by (symmetry; apply N.leb_gt; unfold u32_top, u32_mod in *; lia).
  rewrite Hmk. cbn [negb]. unfold inc_head. fold F nd. rewrite Hsep.
  assert (Hstart : start_count F + Save.blen ([x0a] ++ header_bytes nd ++ mark_bytes nd) = pos0).
  { unfold start_count, pos0, inc_lines. rewrite Hoff. unfold Save.blen. repeat (rewrite ?app_length; cbn [length app]). lia. }
  rewrite Hstart. rewrite (write_objects_explicit (d_objects nd) pos0 (rd_numbers nd Hr)).
  fold (rev_start nd pos0). fold (rev_xmap nd pos0). rewrite Ht.
  destruct x; cbn [part_of io_bytes io_status io_start].
  - intros _. split; [reflexivity|]. split; [|reflexivity].
    unfold tab_part, inc_lines. repeat (rewrite <- app_assoc; cbn [app]). reflexivity.
  - replace (u32_top <=? d_max_id nd + 1) with false by (symmetry; apply N.leb_gt; unfold u32_top, u32_mod in *; lia).
    destruct (xstream_parts nd (rev_xmap nd pos0) (rev_start nd pos0 mod u32_mod)) as [[t c] x1] eqn:E.
    cbn [io_bytes io_status io_start]. intro Hlen.
    assert (Hn : rev_start nd pos0 < u32_mod).
    { unfold rev_start, pos0, inc_lines in *. unfold Save.blen in *.
      repeat (rewrite ?app_length in Hlen; cbn [length app] in Hlen). repeat (rewrite ?app_length; cbn [length app]). lia. }
    rewrite (xstream_parts_rev nd pos0 Hr Hn) in E. inversion E; subst t c x1.
    split; [reflexivity|]. split; [|reflexivity].
    unfold str_part, inc_lines. repeat (rewrite <- app_assoc; cbn [app]). reflexivity.
Qed.

(* the overlay of c07's model is the fold used by the invariant when nothing is skipped *)
Lemma written_norm objs : Forall (fun io : oid * obj => skipped (snd io) = false) objs ->
  Incremental.written (norm_objects objs) = norm_objects objs.
Proof.
  induction 1 as [|io objs H _ IH]; [reflexivity|]. rewrite norm_objects_cons. unfold Incremental.written.
  cbn [filter snd]. rewrite skipped_norm, H. cbn [negb]. fold (Incremental.written (norm_objects objs)). rewrite IH. reflexivity.
Qed.

Lemma overlay_eq objs nobjs : Forall (fun io : oid * obj => skipped (snd io) = false) nobjs ->
  Incremental.overlay objs (norm_objects nobjs) = overlay_objs objs (norm_objects nobjs).
Proof. intro H. unfold Incremental.overlay. rewrite written_norm by exact H. reflexivity. Qed.

Lemma gen_ok_norm entries objs : Forall (gen_ok entries) objs -> Forall (gen_ok entries) (norm_objects objs).
Proof. induction 1 as [|io objs H _ IH]; [constructor|]. rewrite norm_objects_cons. constructor; [exact H | exact IH]. Qed.

(* the domain of one update, as far as the loader is concerned *)
Record upd_dom (xs : N) (nd : doc) : Prop := {
  ud_rev : rev_dom nd;                                            (* c03's: numbers <= max_id, sorted, objects / trailer well formed *)
  ud_deep : known_deep nd = false;                                (* outside the known class C01-deep-nesting *)
  ud_mark : binary_mark_ok (d_binary_mark nd) = true;             (* otherwise inc_save returns InvalidData *)
  ud_prev : dict_get (d_trailer nd) Save.K_Prev = Some (OInt (Z.of_N xs));
  ud_no_stm : dict_get (d_trailer nd) K_XRefStm = None;           (* no hybrid-reference file *)
  ud_no_enc : dict_has (d_trailer nd) Save.K_Encrypt = false;
}.

Definition new_trailer (nd : doc) : dict := dict_swap_remove (norm_dict (trailer_table nd)) Xref.K_Prev.

(* ====================================================================================== *)
(* THEOREM C (table): one incremental save keeps the invariant                             *)
(* ====================================================================================== *)
Theorem inc_table_good F v m xs xt entries t objs s :
  good_file F v m xs xt entries t objs ->
  i_bytes s = F -> xd_type (i_prev s) = XTable ->
  let nd := xd_doc (i_new s) in
  upd_dom xs nd ->
  Save.blen (io_bytes (inc_save s)) < u32_mod ->
  Forall (gen_ok entries) (d_objects nd) ->
  io_status (inc_save s) = IncOk /\
  good_file (io_bytes (inc_save s)) v m (io_start (inc_save s)) XTTable
            (fold_left xins (conv_map (rev_xmap nd (Save.blen (F ++ inc_lines nd)))) entries)
            (new_trailer nd)
            (Incremental.overlay objs (norm_objects (d_objects nd))).
Proof.
  intros G Hb Ht nd [Hr K Hmk Hp Hstm Henc] Hlen Hgen.
  destruct (good_file_offset _ _ _ _ _ _ _ _ G) as [Hoff [Hsep HF8]].
  pose proof (inc_save_shape_gen XTable s) as Hshape. cbv zeta in Hshape. rewrite Hb in Hshape. fold nd in Hshape.
  destruct (Hshape Hoff Hsep Ht Hr Hmk Hlen) as [Hst [Hbytes Hstart]]. clear Hshape. cbn [part_of] in Hbytes.
  split; [exact Hst|]. rewrite Hstart.
  set (pre0 := F ++ inc_lines nd) in *.
  assert (Efile : io_bytes (inc_save s) = tab_file pre0 nd).
  { rewrite Hbytes. unfold tab_file. rewrite <- ?app_assoc. reflexivity. }
  assert (Hsm : Loader.blen (tab_file pre0 nd) < u32_mod) by (rewrite <- Efile; exact Hlen).
  assert (Hpre : (8 <= length pre0)%nat) by (unfold pre0; rewrite app_length; lia).
  destruct (tab_file_tail pre0 nd Hsm Hpre) as [Et [H1 [H2 H3]]].
  set (suffix := inc_lines nd ++ objs_bytes (d_objects nd) ++ tab_part nd (Save.blen pre0) ++
                 startxref_bytes (rev_start nd (Save.blen pre0))).
  assert (Esuf : tab_file pre0 nd = F ++ suffix).
  { unfold tab_file, pre0, suffix. rewrite <- !app_assoc. reflexivity. }
  rewrite Efile.
  rewrite overlay_eq by (pose proof (rd_objects nd Hr) as Ho; eapply Forall_impl; [|exact Ho]; intros io [_ [_ [_ H]]]; exact H).
  assert (Hwf : dict_wf (norm_dict (trailer_table nd))) by (apply norm_trailer_wf; exact Hr).
  rewrite Esuf.
  apply (good_extend F v m xs xt entries t objs suffix (pre0 ++ objs_bytes (d_objects nd) ++ tab_part nd (Save.blen pre0))
           (rev_start nd (Save.blen pre0)) (tab_xref nd (Save.blen pre0)) (norm_dict (trailer_table nd)) (norm_objects (d_objects nd)) G).
  - rewrite <- Esuf. exact Et.
  - exact H1.
  - exact H2.
  - exact H3.
  - rewrite rev_start_len. unfold pre0, Loader.blen. rewrite !app_length. lia.
  - intro rest. rewrite <- Esuf. apply tab_file_section; assumption.
  - change Xref.K_Prev with Save.K_Prev. rewrite norm_trailer_get by discriminate. rewrite Hp. reflexivity.
  - rewrite norm_trailer_get by discriminate. rewrite Hstm. reflexivity.
  - rewrite dict_get_swap_remove_other by (try exact Hwf; discriminate).
    rewrite norm_trailer_get by discriminate. rewrite Hstm. reflexivity.
  - unfold dict_has. rewrite dict_get_swap_remove_other by (try exact Hwf; discriminate).
    change Loader.K_Encrypt with Save.K_Encrypt. rewrite norm_trailer_get by discriminate.
    rewrite (dict_has_false_get _ _ Henc). reflexivity.
  - apply rev_xmap_sorted. exact Hr.
  - apply rev_xmap_keys. exact Hr.
  - intro rest. rewrite <- Esuf. apply tab_file_objs; assumption.
  - apply gen_ok_norm. exact Hgen.
Qed.

(* the same with the hypothesis on identifiers: every new identifier (number AND generation) is the identifier of
   a previous object, or its number does not occur in the previous table *)
Theorem inc_table_good_ids F v m xs xt entries t objs s :
  good_file F v m xs xt entries t objs ->
  i_bytes s = F -> xd_type (i_prev s) = XTable ->
  let nd := xd_doc (i_new s) in
  upd_dom xs nd ->
  Save.blen (io_bytes (inc_save s)) < u32_mod ->
  Forall (fun io : oid * obj => In (fst io) (map fst objs) \/ ~ In (fst (fst io)) (map fst entries)) (d_objects nd) ->
  io_status (inc_save s) = IncOk /\
  good_file (io_bytes (inc_save s)) v m (io_start (inc_save s)) XTTable
            (fold_left xins (conv_map (rev_xmap nd (Save.blen (F ++ inc_lines nd)))) entries)
            (new_trailer nd)
            (Incremental.overlay objs (norm_objects (d_objects nd))).
Proof.
  intros G Hb Ht nd Hu Hlen Hids. apply (inc_table_good F v m xs xt entries t objs s G Hb Ht Hu Hlen).
  pose proof (gf_objs _ _ _ _ _ _ _ _ G []) as H2. pose proof (gf_sorted _ _ _ _ _ _ _ _ G) as Hs.
  eapply Forall_impl; [|exact Hids]. intros io Hio. apply (ids_gen_ok _ entries objs io 0 H2 Hs Hio).
Qed.

(* load (inc_save ...) = overlay *)
Corollary inc_table_loads F v m xs xt entries t objs s :
  good_file F v m xs xt entries t objs ->
  i_bytes s = F -> xd_type (i_prev s) = XTable ->
  let nd := xd_doc (i_new s) in
  upd_dom xs nd ->
  Save.blen (io_bytes (inc_save s)) < u32_mod ->
  Forall (gen_ok entries) (d_objects nd) ->
  load (io_bytes (inc_save s)) =
  LOk {| d_version := v; d_binary_mark := m; d_trailer := new_trailer nd;
         d_objects := Incremental.overlay objs (norm_objects (d_objects nd));
         d_max_id := xmap_max (fold_left xins (conv_map (rev_xmap nd (Save.blen (F ++ inc_lines nd)))) entries) |} XTTable.
Proof.
  intros G Hb Ht nd Hu Hlen Hgen.
  destruct (inc_table_good F v m xs xt entries t objs s G Hb Ht Hu Hlen Hgen) as [_ G'].
  apply (good_file_loads _ _ _ _ _ _ _ _ G').
Qed.

Print Assumptions saved_table_good.
Print Assumptions inc_table_good_ids.
Print Assumptions inc_table_loads.
