(* CryptoProofsDoc.v -- C05 document level: Document::decrypt_raw after Document::encrypt restores the
   objects (with Stream::set_content's /Length bookkeeping), the trailer and removes the encryption
   dictionary, provided the password authenticates and [decode] recovers the state that encrypted
   (discharged per revision in CryptoProofsAuth.v); a failed authentication leaves the document
   unchanged. *)
From LV Require Import Base.Bytes Base.Sx Model.Obj Model.DocQ Model.Crypto.Word Model.Crypto.RC4 Model.Crypto.PKCS5
  Model.Crypto.Handler Proofs.CryptoProofs Proofs.CryptoProofsFilter Proofs.CryptoProofsObject.
Local Open Scope N_scope.

(* ---------- object map facts ---------- *)
Lemma oid_eqb_refl i : oid_eqb i i = true.
Proof. apply oid_eqb_eq. reflexivity. Qed.

Lemma oid_eqb_false a b : oid_eqb a b = false <-> a <> b.
Proof.
  split; intro H.
  - intro E. subst. rewrite oid_eqb_refl in H. discriminate.
  - destruct (oid_eqb a b) eqn:E; [apply oid_eqb_eq in E; contradiction | reflexivity].
Qed.

Lemma lookup_insert_same m id o : lookup (insert m id o) id = Some o.
Proof.
  induction m as [|[i x] m IH]; cbn [insert lookup].
  - rewrite oid_eqb_refl. reflexivity.
  - destruct (oid_eqb i id) eqn:E.
    + cbn [lookup]. rewrite E. reflexivity.
    + destruct (oid_ltb id i); cbn [lookup].
      * rewrite oid_eqb_refl. reflexivity.
      * rewrite E. exact IH.
Qed.

Lemma remove_insert_fresh m id o : ~ In id (map fst m) -> remove (insert m id o) id = m.
Proof.
  induction m as [|[i x] m IH]; cbn [insert remove map fst In]; intro H.
  - rewrite oid_eqb_refl. reflexivity.
  - destruct (oid_eqb i id) eqn:E; [apply oid_eqb_eq in E; exfalso; apply H; left; exact E|].
    destruct (oid_ltb id i); cbn [remove].
    + rewrite oid_eqb_refl. reflexivity.
    + rewrite E. rewrite IH by (intro Hin; apply H; right; exact Hin). reflexivity.
Qed.

(* ---------- the loops over the object map ---------- *)
Definition norm_objs (st : estate) (m : objmap) : objmap := map (fun io => (fst io, norm_len st (snd io))) m.

Lemma encrypt_objects_keys P st m ivs m' ivs' :
  encrypt_objects P st m ivs = Ok (m', ivs') -> map fst m' = map fst m.
Proof.
  revert ivs m' ivs'. induction m as [|[i o] m IH]; intros ivs m' ivs' H.
  - inversion H; subst. reflexivity.
  - cbn [encrypt_objects] in H. apply rbind_ok in H. destruct H as [[o' ivs1] [H1 H]].
    apply rbind_ok in H. destruct H as [[m1 ivs2] [H2 H]]. inversion H; subst. cbn [fst snd map].
    rewrite (IH _ _ _ H2). reflexivity.
Qed.

Lemma objects_rt P st skip m ivs m' ivs' :
  aes_ok P -> ~ In skip (map fst m) ->
  encrypt_objects P st m ivs = Ok (m', ivs') ->
  decrypt_objects P st (Some skip) m' = Ok (norm_objs st m).
Proof.
  intros HP. revert ivs m' ivs'. induction m as [|[i o] m IH]; intros ivs m' ivs' Hs H.
  - inversion H; subst. reflexivity.
  - cbn [encrypt_objects] in H. apply rbind_ok in H. destruct H as [[o' ivs1] [H1 H]].
    apply rbind_ok in H. destruct H as [[m1 ivs2] [H2 H]]. inversion H; subst. cbn [fst snd] in *.
    cbn [decrypt_objects norm_objs map fst snd].
    assert (E : oid_eqb i skip = false) by (apply oid_eqb_false; intro E; apply Hs; left; exact E).
    rewrite E. rewrite (object_rt P st i HP _ _ _ _ H1). cbn [rbind].
    rewrite (IH _ _ _ (fun Hin => Hs (or_intror Hin)) H2). reflexivity.
Qed.

Lemma decrypt_objects_equiv P a b skip m : st_equiv a b -> decrypt_objects P a skip m = decrypt_objects P b skip m.
Proof.
  intro HE. induction m as [|[i o] m IH]; [reflexivity|].
  cbn [decrypt_objects]. rewrite (decrypt_object_equiv P a b i HE o), IH. reflexivity.
Qed.

Lemma decrypt_objects_insert P st id x m :
  ~ In id (map fst m) ->
  decrypt_objects P st (Some id) (insert m id x) =
  rlet r := decrypt_objects P st (Some id) m in Ok (insert r id x).
Proof.
  induction m as [|[i o] m IH]; cbn [insert map fst In]; intro H.
  - cbn [decrypt_objects]. rewrite oid_eqb_refl. reflexivity.
  - assert (E : oid_eqb i id = false) by (apply oid_eqb_false; intro E; apply H; left; exact E).
    rewrite E. destruct (oid_ltb id i) eqn:L.
    + cbn [decrypt_objects]. rewrite oid_eqb_refl, E. cbn [rbind].
      destruct (decrypt_object P st i o) as [o'| |]; cbn [rbind]; try reflexivity.
      destruct (decrypt_objects P st (Some id) m) as [r| |]; cbn [rbind insert]; try reflexivity.
      rewrite E, L. reflexivity.
    + cbn [decrypt_objects]. rewrite E. destruct (decrypt_object P st i o) as [o'| |]; cbn [rbind]; try reflexivity.
      rewrite IH by (intro Hin; apply H; right; exact Hin).
      destruct (decrypt_objects P st (Some id) m) as [r| |]; cbn [rbind insert]; try reflexivity.
      rewrite E, L. reflexivity.
Qed.

(* ---------- trailer ---------- *)
Lemma dict_set_fresh d k v : dict_get d k = None -> dict_set d k v = d ++ [(k, v)].
Proof.
  induction d as [|[k0 v0] d IH]; cbn [dict_get dict_set app]; intro H; [reflexivity|].
  destruct (bytes_eqb k0 k); [discriminate|]. rewrite IH by exact H. reflexivity.
Qed.

Lemma swap_remove_set_fresh d k v : dict_get d k = None -> dict_swap_remove (dict_set d k v) k = d.
Proof.
  intro H. unfold dict_swap_remove, dict_has. rewrite dget_set_same.
  rewrite (dict_set_fresh d k v H). rewrite rev_app_distr. cbn [rev app].
  rewrite bytes_eqb_refl. apply removelast_last.
Qed.

(* ---------- get_encrypted after Document::encrypt ---------- *)
Lemma get_encrypted_after tr m id e v mark mx :
  get_encrypted {| d_version := v; d_binary_mark := mark;
                   d_trailer := dict_set tr K_Encrypt (ORef (fst id) (snd id));
                   d_objects := insert m id (ODict e); d_max_id := mx |} = Some e.
Proof.
  unfold get_encrypted. cbn [d_trailer d_objects]. rewrite dget_set_same.
  unfold get_dictionary, get_object. destruct id as [i g]. cbn [fst snd].
  rewrite lookup_insert_same. unfold dereference.
  destruct (N.to_nat Gen.Consts.DEREF_LIMIT); reflexivity.
Qed.

(* ---------- object streams ---------- *)
Definition is_objstm (o : obj) : bool := match o with OStream d _ => has_type d N_ObjStm | _ => false end.

Lemma namef_norm st x : namef (norm_len st x) = namef x.
Proof. destruct x; cbn [norm_len]; destruct (skip_object st _); reflexivity. Qed.

Lemma dict_get_norm st d k : dict_get (norm_dict st d) k = option_map (norm_len st) (dict_get d k).
Proof.
  induction d as [|[k0 x] d IH]; [reflexivity|]. cbn [norm_dict map fst snd dict_get].
  destruct (bytes_eqb k0 k); [reflexivity | exact IH].
Qed.

Lemma is_objstm_norm st o : is_objstm (norm_len st o) = is_objstm o.
Proof.
  destruct o as [|b|z|r|n|s h|l|d|d c|i g]; cbn [norm_len]; try (destruct (skip_object st _); reflexivity).
  destruct (skip_object st (OStream d c)); [reflexivity|].
  unfold set_content, is_objstm. apply has_type_view.
  rewrite dget_set_other by (cbv; discriminate). fold (norm_dict st d). rewrite dict_get_norm.
  destruct (dict_get d K_Type) as [y|]; [|reflexivity]. cbn [option_map]. rewrite namef_norm. reflexivity.
Qed.

Lemma has_objstm_norm st m : has_objstm (norm_objs st m) = has_objstm m.
Proof.
  unfold has_objstm, norm_objs. induction m as [|[i o] m IH]; [reflexivity|].
  cbn [map existsb fst snd]. rewrite IH. f_equal. apply (is_objstm_norm st o).
Qed.

Lemma has_objstm_insert_fresh m id e :
  ~ In id (map fst m) -> has_objstm (insert m id (ODict e)) = has_objstm m.
Proof.
  unfold has_objstm. induction m as [|[i o] m IH]; cbn [insert existsb snd map fst In]; intro H; [reflexivity|].
  assert (E : oid_eqb i id = false) by (apply oid_eqb_false; intro E; apply H; left; exact E).
  rewrite E. destruct (oid_ltb id i); cbn [existsb snd]; [reflexivity|].
  rewrite IH by (intro Hin; apply H; right; exact Hin). reflexivity.
Qed.

(* ---------- decrypt_raw's object-stream pass ---------- *)
Lemma objstm_scan_none P m : has_objstm m = false -> objstm_scan P m = (m, []).
Proof.
  unfold has_objstm. induction m as [|[i o] m IH]; cbn [existsb snd objstm_scan]; intro H; [reflexivity|].
  apply orb_false_iff in H. destruct H as [Ho Hm]. rewrite (IH Hm). cbn [fst snd].
  destruct o as [|b|z|r|n|s h|l|d|d c|i0 g]; try reflexivity. rewrite Ho. reflexivity.
Qed.

(* without a stream of Type ObjStm the pass does nothing *)
Lemma objstm_pass_none P xr m : has_objstm m = false -> objstm_pass P xr m = m.
Proof. intro H. unfold objstm_pass. rewrite (objstm_scan_none P m H). reflexivity. Qed.

Lemma objstm_scan_keys P m : map fst (fst (objstm_scan P m)) = map fst m.
Proof.
  induction m as [|[i o] m IH]; [reflexivity|]. cbn [objstm_scan].
  destruct o as [|b|z|r|n|s h|l|d|d c|i0 g]; cbn [fst map]; try (rewrite IH; reflexivity).
  destruct (has_type d N_ObjStm); cbn [fst map]; rewrite IH; reflexivity.
Qed.

(* the encryption dictionary object (a dictionary, not a stream) is left alone by the scan *)
Lemma objstm_scan_insert_dict P m id e : ~ In id (map fst m) ->
  objstm_scan P (insert m id (ODict e)) = (insert (fst (objstm_scan P m)) id (ODict e), snd (objstm_scan P m)).
Proof.
  induction m as [|[i o] m IH]; cbn [insert map fst In]; intro H; [reflexivity|].
  assert (E : oid_eqb i id = false) by (apply oid_eqb_false; intro E; apply H; left; exact E).
  rewrite E. destruct (oid_ltb id i) eqn:L.
  - cbn [objstm_scan fst snd].
    destruct o as [|b|z|r|n|s h|l|d|d c|i0 g]; cbn [fst snd insert]; rewrite ?E, ?L; try reflexivity.
    destruct (has_type d N_ObjStm); cbn [fst snd insert]; rewrite E, L; reflexivity.
  - cbn [objstm_scan]. rewrite IH by (intro Hin; apply H; right; exact Hin). cbn [fst snd].
    destruct o as [|b|z|r|n|s h|l|d|d c|i0 g]; cbn [fst snd insert]; rewrite ?E, ?L; try reflexivity.
    destruct (has_type d N_ObjStm); cbn [fst snd insert]; rewrite E, L; reflexivity.
Qed.

(* what decrypt_raw leaves in Document.objects: the object-stream pass runs while the encryption dictionary
   (object [id], content [e]) is still in the map -- a member of an object stream that carries this number is
   therefore not added --, then the dictionary object is removed *)
Definition opened_objects (P : prims) (xr : N -> option N) (m : objmap) (id : oid) (e : dict) : objmap :=
  remove (objstm_pass P xr (insert m id (ODict e))) id.

Lemma opened_objects_none P xr m id e : ~ In id (map fst m) -> has_objstm m = false -> opened_objects P xr m id e = m.
Proof.
  intros Hf Ho. unfold opened_objects. rewrite objstm_pass_none by (rewrite has_objstm_insert_fresh; assumption).
  apply remove_insert_fresh. exact Hf.
Qed.

(* ---------- a document whose object streams are already expanded (what the loader leaves) ---------- *)
(* every stream of Type ObjStm is one Stream::decompress has nothing to do on (the loader decompressed it in place:
   no Filter, decompress = Err), and every member it holds is accounted for in the object map the way the reader's
   own merge leaves it: a member the cross-reference table places in this stream is there under its id, of any other
   member the NUMBER is taken *)
Definition expanded (P : prims) (xr : N -> option N) (m : objmap) : Prop :=
  forall i d c, In (i, OStream d c) m -> has_type d N_ObjStm = true ->
    p_decompress P d c = None /\
    forall objs, ObjStm.objstm_plain d c = ObjStm.OsOk objs -> forall e : oid * obj, In e objs ->
      (xref_names xr (fst i) e = true -> lookup m (fst e) <> None) /\
      (xref_names xr (fst i) e = false -> has_number m (fst (fst e)) = true).

Lemma fold_or_insert_present (found : list (oid * obj)) : forall m, (forall e : oid * obj, In e found -> lookup m (fst e) <> None) ->
  fold_left or_insert found m = m.
Proof.
  induction found as [|e found IH]; intros m H; [reflexivity|]. cbn [fold_left].
  assert (E : or_insert m e = m).
  { unfold or_insert. destruct (lookup m (fst e)) eqn:L; [reflexivity|]. exfalso. apply (H e); [left; reflexivity|exact L]. }
  rewrite E. apply IH. intros e' He'. apply H. right. exact He'.
Qed.

Lemma fold_add_rest_present (found : list (oid * obj)) : forall m, (forall e : oid * obj, In e found -> has_number m (fst (fst e)) = true) ->
  fold_left add_rest found m = m.
Proof.
  induction found as [|e found IH]; intros m H; [reflexivity|]. cbn [fold_left].
  assert (E : add_rest m e = m) by (unfold add_rest; rewrite (H e (or_introl eq_refl)); reflexivity).
  rewrite E. apply IH. intros e' He'. apply H. right. exact He'.
Qed.

Definition block_ok (xr : N -> option N) (m0 : objmap) (b : N * objmap) : Prop :=
  forall e : oid * obj, In e (snd b) ->
    (xref_names xr (fst b) e = true -> lookup m0 (fst e) <> None) /\
    (xref_names xr (fst b) e = false -> has_number m0 (fst (fst e)) = true).

Lemma objstm_scan_expanded P xr m0 m : (forall x, In x m -> In x m0) -> expanded P xr m0 ->
  fst (objstm_scan P m) = m /\ Forall (block_ok xr m0) (snd (objstm_scan P m)).
Proof.
  intros Hin Hex. induction m as [|[i o] m IH]; [split; [reflexivity|constructor]|].
  destruct IH as [IH1 IH2]; [intros x Hx; apply Hin; right; exact Hx|].
  cbn [objstm_scan].
  destruct o as [|b|z|r|n|s h|l|d|d c|i0 g]; cbn [fst snd]; try (rewrite IH1; split; [reflexivity|exact IH2]).
  destruct (has_type d N_ObjStm) eqn:T; cbn [fst snd]; [|rewrite IH1; split; [reflexivity|exact IH2]].
  destruct (Hex i d c (Hin _ (or_introl eq_refl)) T) as [Hd Hm].
  unfold ObjStm.objstm_new. rewrite Hd. cbn [fst snd]. rewrite IH1. split; [reflexivity|].
  destruct (ObjStm.objstm_plain d c) as [objs|er] eqn:Ep; [|exact IH2].
  constructor; [|exact IH2]. intros e He. cbn [fst snd] in *. exact (Hm objs eq_refl e He).
Qed.

Lemma objstm_merge_present xr blocks m : Forall (block_ok xr m) blocks -> objstm_merge xr blocks m = m.
Proof.
  intro H. unfold objstm_merge.
  rewrite (fold_or_insert_present _ m).
  - apply fold_add_rest_present. intros e He. apply in_flat_map in He. destruct He as (b & Hb & He).
    apply filter_In in He. destruct He as [He Hn]. apply negb_true_iff in Hn.
    rewrite Forall_forall in H. exact (proj2 (H b Hb e He) Hn).
  - intros e He. apply in_flat_map in He. destruct He as (b & Hb & He).
    apply filter_In in He. destruct He as [He Hn].
    rewrite Forall_forall in H. exact (proj1 (H b Hb e He) Hn).
Qed.

(* on such a document the object-stream pass changes nothing *)
Lemma objstm_pass_expanded P xr m : expanded P xr m -> objstm_pass P xr m = m.
Proof.
  intro Hex. destruct (objstm_scan_expanded P xr m m (fun x H => H) Hex) as [H1 H2].
  unfold objstm_pass. rewrite H1. apply objstm_merge_present. exact H2.
Qed.

Lemma in_insert m id v x : In x (insert m id v) -> x = (id, v) \/ In x m.
Proof.
  induction m as [|[i o] m IH]; cbn [insert]; intro H.
  - destruct H as [H|[]]. left. symmetry. exact H.
  - destruct (oid_eqb i id) eqn:E.
    + destruct H as [H|H]; [left; apply oid_eqb_eq in E; subst i; symmetry; exact H|right; right; exact H].
    + destruct (oid_ltb id i).
      * destruct H as [H|H]; [left; symmetry; exact H|right; exact H].
      * destruct H as [H|H]; [right; left; exact H|]. destruct (IH H) as [H'|H']; [left; exact H'|right; right; exact H'].
Qed.

Lemma lookup_insert_mono m id v k : lookup m k <> None -> lookup (insert m id v) k <> None.
Proof.
  induction m as [|[i o] m IH]; cbn [insert lookup]; intro H; [contradiction|].
  destruct (oid_eqb i id) eqn:E.
  - cbn [lookup]. destruct (oid_eqb i k); [discriminate|exact H].
  - destruct (oid_ltb id i); cbn [lookup].
    + destruct (oid_eqb id k); [discriminate|]. exact H.
    + destruct (oid_eqb i k); [discriminate|]. exact (IH H).
Qed.

Lemma has_number_insert_mono m id v n : has_number m n = true -> has_number (insert m id v) n = true.
Proof.
  unfold has_number. induction m as [|[i o] m IH]; cbn [insert existsb fst]; intro H; [discriminate|].
  destruct (oid_eqb i id) eqn:E.
  - exact H.
  - destruct (oid_ltb id i); cbn [existsb fst].
    + rewrite H. apply orb_true_r.
    + apply orb_true_iff in H. destruct H as [H|H]; [rewrite H; reflexivity|rewrite (IH H); apply orb_true_r].
Qed.

Lemma expanded_insert_dict P xr m id e : expanded P xr m -> expanded P xr (insert m id (ODict e)).
Proof.
  intros Hex i d c Hin T. apply in_insert in Hin. destruct Hin as [Hin|Hin]; [discriminate Hin|].
  destruct (Hex i d c Hin T) as [Hd Hm]. split; [exact Hd|].
  intros objs Ho x Hx. destruct (Hm objs Ho x Hx) as [A B]. split.
  - intro Hn. apply lookup_insert_mono. exact (A Hn).
  - intro Hn. apply has_number_insert_mono. exact (B Hn).
Qed.

Lemma opened_objects_expanded P xr m id e : ~ In id (map fst m) -> expanded P xr m -> opened_objects P xr m id e = m.
Proof.
  intros Hf Hex. unfold opened_objects. rewrite objstm_pass_expanded by (apply expanded_insert_dict; exact Hex).
  apply remove_insert_fresh. exact Hf.
Qed.

(* ---------- the document-level round trip, given authentication and key recovery ---------- *)
(* ids of the document lie at or below max_id: the invariant add_object relies on *)
Definition max_id_ok (d : doc) : Prop := forall id, In id (map fst (d_objects d)) -> fst id <= d_max_id d.

Theorem doc_rt_gen P xr st d ivs d1 pw st' :
  aes_ok P ->
  max_id_ok d ->
  dict_get (d_trailer d) K_Encrypt = None ->
  doc_encrypt P st d ivs = DOk d1 tt ->
  authenticate_raw_password P d1 pw = Ok tt ->
  decode P d1 pw = Ok st' -> st_equiv st st' ->
  doc_decrypt_raw_x P xr d1 pw =
    DOk {| d_version := d_version d; d_binary_mark := d_binary_mark d; d_trailer := d_trailer d;
           d_objects := opened_objects P xr (norm_objs st (d_objects d)) (d_max_id d + 1, 0) (encode st);
           d_max_id := d_max_id d + 1 |} st'.
Proof.
  intros HP Hmax Htr He Ha Hd Heq.
  unfold doc_encrypt in He.
  destruct (is_encrypted d); [discriminate|].
  destruct (encrypt_objects P st (d_objects d) ivs) as [[m' ivs']| |] eqn:Eo; try discriminate.
  destruct (d_max_id d =? u32_max); [discriminate|].
  inversion He as [Hd1]. clear He. subst d1.
  set (id := (d_max_id d + 1, 0)) in *.
  change (ORef (d_max_id d + 1) 0) with (ORef (fst id) (snd id)) in *.
  assert (Hfresh : ~ In id (map fst (d_objects d))).
  { intro Hin. apply Hmax in Hin. subst id. cbn [fst] in Hin. lia. }
  assert (Hkeys : map fst m' = map fst (d_objects d)) by (eapply encrypt_objects_keys; exact Eo).
  assert (Hfresh' : ~ In id (map fst m')) by (rewrite Hkeys; exact Hfresh).
  unfold doc_decrypt_raw_x. unfold is_encrypted. rewrite get_encrypted_after. cbn [negb].
  rewrite Ha. cbn [d_trailer d_objects d_version d_binary_mark d_max_id].
  rewrite dget_set_same. rewrite Hd.
  change (fst id, snd id) with id.
  rewrite decrypt_objects_insert by exact Hfresh'.
  rewrite <- (decrypt_objects_equiv P st st' _ m' Heq).
  rewrite (objects_rt P st id _ _ _ _ HP Hfresh Eo). cbn [rbind].
  rewrite swap_remove_set_fresh by exact Htr. reflexivity.
Qed.

(* a document without object streams (has_objstm false): the objects themselves *)
Theorem doc_rt P st d ivs d1 pw st' :
  aes_ok P ->
  max_id_ok d ->
  dict_get (d_trailer d) K_Encrypt = None ->
  has_objstm (d_objects d) = false ->
  doc_encrypt P st d ivs = DOk d1 tt ->
  authenticate_raw_password P d1 pw = Ok tt ->
  decode P d1 pw = Ok st' -> st_equiv st st' ->
  doc_decrypt_raw P d1 pw =
    DOk {| d_version := d_version d; d_binary_mark := d_binary_mark d; d_trailer := d_trailer d;
           d_objects := norm_objs st (d_objects d); d_max_id := d_max_id d + 1 |} st'.
Proof.
  intros HP Hmax Htr Hos He Ha Hd Heq.
  unfold doc_decrypt_raw. rewrite (doc_rt_gen P (fun _ => None) st d ivs d1 pw st' HP Hmax Htr He Ha Hd Heq).
  rewrite opened_objects_none; [reflexivity| |rewrite has_objstm_norm; exact Hos].
  unfold norm_objs. rewrite map_map. cbn [fst]. intro Hin. apply Hmax in Hin. cbn [fst] in Hin. lia.
Qed.

(* with streams that carry their own /Length the objects come back exactly *)
Definition doc_lengths_ok (st : estate) (d : doc) : Prop := Forall (fun io => lengths_ok st (snd io)) (d_objects d).

Lemma norm_objs_id st m : Forall (fun io => lengths_ok st (snd io)) m -> norm_objs st m = m.
Proof.
  induction 1 as [|[i o] m Ho _ IH]; [reflexivity|]. cbn [norm_objs map fst snd] in *.
  rewrite norm_len_id by exact Ho. unfold norm_objs in IH. rewrite IH. reflexivity.
Qed.

(* ---------- frame: a password that does not authenticate leaves the document unchanged ---------- *)
Theorem reject_leaves_unchanged_x P xr d pw e :
  authenticate_raw_password P d pw = Err e -> doc_decrypt_raw_x P xr d pw = DErr e.
Proof.
  intro H. unfold doc_decrypt_raw_x.
  destruct (negb (is_encrypted d)) eqn:E.
  - unfold authenticate_raw_password in H. rewrite E in H. inversion H; subst. reflexivity.
  - rewrite H. reflexivity.
Qed.

Theorem reject_leaves_unchanged P d pw e :
  authenticate_raw_password P d pw = Err e -> doc_decrypt_raw P d pw = DErr e.
Proof. apply reject_leaves_unchanged_x. Qed.
