(* StrictReaderProofs.v -- what acceptance by the strict reader of Spec/StrictReader.v MEANS.
   These lemmas are about the specification alone (no model of lopdf is involved): they make the
   run-time verdict of ./check C03 ("the extracted strict reader accepts the bytes lopdf wrote")
   meaningful, because they say which facts about a file follow from acceptance. *)
From LV Require Import Base.Bytes Model.Obj Spec.StrictReader.

Local Open Scope N_scope.

(* ---------- small tools ---------- *)
Lemma strip_spec : forall kw s r, strip kw s = Some r -> s = kw ++ r.
Proof.
  induction kw as [|k kw IH]; intros s r H; cbn [strip] in H.
  - inversion H; reflexivity.
  - destruct s as [|c s]; [discriminate|].
    destruct (byte_eqb k c) eqn:E; [|discriminate].
    apply byte_eqb_eq in E. subst c. cbn. f_equal. apply IH. exact H.
Qed.

Lemma strip_app : forall kw r, strip kw (kw ++ r) = Some r.
Proof.
  induction kw as [|k kw IH]; intro r; cbn [strip app]; [reflexivity|].
  rewrite byte_eqb_refl. apply IH.
Qed.

Ltac sdestr H :=
  match type of H with
  | sbind ?e _ = SOk _ => let E := fresh "E" in destruct e eqn:E; cbn [sbind] in H; [|discriminate H]
  end.

Lemma of_opt_ok {A} r p (o : option A) a : of_opt r p o = SOk a -> o = Some a.
Proof. destruct o; cbn; intro H; inversion H; reflexivity. Qed.

(* ---------- 20-byte entries ---------- *)
Lemma fixed_digits_spec : forall k s acc v r,
  fixed_digits k s acc = Some (v, r) ->
  exists t, s = t ++ r /\ length t = k /\ forallb is_digit t = true.
Proof.
  induction k as [|k IH]; intros s acc v r H; cbn [fixed_digits] in H.
  - inversion H; subst. exists []. repeat split.
  - destruct s as [|c s]; [discriminate|].
    destruct (is_digit c) eqn:D; [|discriminate].
    destruct (IH _ _ _ _ H) as [t [-> [L F]]].
    exists (c :: t). cbn. rewrite D, F, L. repeat split.
Qed.

(* an accepted cross-reference entry is exactly 20 bytes: ten digits, space, five digits, space,
   n or f, and a two-byte end of line *)
Lemma p_entry_20 : forall s e r,
  p_entry s = Some (e, r) ->
  exists a g k e1 e2,
    s = a ++ x20 :: g ++ x20 :: k :: e1 :: e2 :: r /\
    length a = 10%nat /\ length g = 5%nat /\
    forallb is_digit a = true /\ forallb is_digit g = true /\
    (k = x6e \/ k = x66) /\
    ((e1 = x20 /\ (e2 = x0d \/ e2 = x0a)) \/ (e1 = x0d /\ e2 = x0a)).
Proof.
  intros s e r H. unfold p_entry in H.
  destruct (fixed_digits 10 s 0) as [[va ra]|] eqn:Ea; cbn [obnd] in H; [|discriminate].
  cbn [snd fst] in H.
  destruct ra as [|sp1 s1]; [discriminate|].
  destruct (byte_eqb sp1 x20) eqn:S1; [|discriminate]. apply byte_eqb_eq in S1. subst sp1.
  destruct (fixed_digits 5 s1 0) as [[vg rg]|] eqn:Eg; cbn [obnd] in H; [|discriminate].
  cbn [snd fst] in H.
  destruct rg as [|sp2 [|k [|e1 [|e2 r']]]]; try discriminate.
  destruct (byte_eqb sp2 x20 && _) eqn:C; [|discriminate].
  apply andb_true_iff in C as [S2 C]. apply byte_eqb_eq in S2. subst sp2.
  destruct (fixed_digits_spec _ _ _ _ _ Ea) as [a [-> [La Fa]]].
  destruct (fixed_digits_spec _ _ _ _ _ Eg) as [g [-> [Lg Fg]]].
  assert (Hk : (k = x6e \/ k = x66) /\ r' = r).
  { destruct (byte_eqb k x6e) eqn:K1.
    - apply byte_eqb_eq in K1. inversion H. auto.
    - destruct (byte_eqb k x66) eqn:K2; [|discriminate].
      apply byte_eqb_eq in K2. inversion H. auto. }
  destruct Hk as [Hk ->].
  exists a, g, k, e1, e2. repeat split; auto.
  apply orb_true_iff in C as [C|C]; apply andb_true_iff in C as [C1 C2].
  - left. apply byte_eqb_eq in C1. split; [exact C1|].
    apply orb_true_iff in C2 as [C2|C2]; apply byte_eqb_eq in C2; auto.
  - right. apply byte_eqb_eq in C1. apply byte_eqb_eq in C2. auto.
Qed.

Lemma p_entry_len : forall s e r, p_entry s = Some (e, r) -> exists t, s = t ++ r /\ length t = 20%nat.
Proof.
  intros s e r H. destruct (p_entry_20 _ _ _ H) as [a [g [k [e1 [e2 [-> [La [Lg _]]]]]]]].
  exists (a ++ x20 :: g ++ [x20; k; e1; e2]). split.
  - rewrite <- !app_assoc. cbn. rewrite <- !app_assoc. reflexivity.
  - rewrite !app_length. cbn [length]. rewrite app_length. cbn [length]. lia.
Qed.

(* a subsection "first count" is followed by exactly count entries of 20 bytes, numbered
   first, first+1, ... *)
Lemma p_entries_spec : forall k id s l r,
  p_entries k id s = Some (l, r) ->
  exists t, s = t ++ r /\ length t = (20 * k)%nat /\ length l = k /\
            map fst l = map (fun i => id + N.of_nat i) (seq 0 k).
Proof.
  induction k as [|k IH]; intros id s l r H; cbn [p_entries] in H.
  - inversion H; subst. exists []. repeat split.
  - destruct (p_entry s) as [[e r1]|] eqn:E; [|discriminate].
    destruct (p_entries k (id + 1) r1) as [[l' r']|] eqn:E2; [|discriminate].
    inversion H; subst.
    destruct (p_entry_len _ _ _ E) as [t1 [-> L1]].
    destruct (IH _ _ _ _ E2) as [t2 [-> [L2 [L3 M]]]].
    exists (t1 ++ t2). rewrite app_assoc. split; [reflexivity|].
    rewrite app_length. split; [lia|]. cbn [length map seq]. split; [lia|].
    cbn [fst]. f_equal; [lia|]. rewrite M. rewrite <- seq_shift, map_map.
    apply map_ext. intro i. lia.
Qed.

(* ---------- in-use entries point at "id gen obj" with the same id and gen ---------- *)
Definition entry_points_at_header (file : bytes) (ie : N * xent) : Prop :=
  match snd ie with
  | XUse off gen =>
    exists rest, p_objhdr (at_off file off) = Some (fst ie, gen, rest) /\ off < lenN file /\ gen <= 65535
  | XFree _ _ => True
  end.

Lemma read_at_sound : forall file revs id off gen l,
  read_at file (lenN file) revs id off gen = SOk l ->
  entry_points_at_header file (id, XUse off gen) /\ l_id l = id /\ l_gen l = gen /\ l_off l = off.
Proof.
  intros file revs id off gen l H. unfold read_at in H.
  destruct (65535 <? gen) eqn:G; [discriminate|].
  destruct (lenN file <=? off) eqn:O; [discriminate|].
  destruct (p_objhdr (at_off file off)) as [[[i' g'] s1]|] eqn:Hh; [|discriminate].
  destruct ((i' =? id) && (g' =? gen)) eqn:IG; [|discriminate].
  apply andb_true_iff in IG as [I1 G1]. apply N.eqb_eq in I1, G1. subst i' g'.
  sdestr H. inversion H; subst; cbn.
  apply N.ltb_ge in G. apply N.leb_gt in O.
  repeat split; auto. exists s1. repeat split; auto.
Qed.

Lemma read_entries_sound : forall file revs es ls,
  read_entries file (lenN file) revs es = SOk ls ->
  Forall (entry_points_at_header file) es.
Proof.
  induction es as [|[id e] es IH]; intros ls H; [constructor|].
  cbn [read_entries] in H. destruct e as [nx g|off gen].
  - constructor; [exact I | eapply IH; exact H].
  - sdestr H. sdestr H. constructor; [|eapply IH; reflexivity].
    apply (read_at_sound _ _ _ _ _ _ E).
Qed.

Lemma read_all_sound : forall file all revs locs,
  read_all file (lenN file) all revs = SOk locs ->
  Forall (fun r => Forall (entry_points_at_header file) (r_entries r)) revs.
Proof.
  induction revs as [|r revs IH]; intros locs H; [constructor|].
  cbn [read_all] in H. sdestr H. sdestr H. constructor.
  - eapply read_entries_sound; exact E.
  - eapply IH; reflexivity.
Qed.

(* ---------- Size exceeds every object number; no number twice in one section ---------- *)
Lemma ids_below_none : forall size es, ids_below size es = None -> Forall (fun ie => fst ie < size) es.
Proof.
  induction es as [|[id e] es IH]; intro H; [constructor|].
  cbn [ids_below] in H. destruct (id <? size) eqn:L; [|discriminate].
  apply N.ltb_lt in L. constructor; [exact L | apply IH; exact H].
Qed.

Lemma find_entry_none : forall es id, find_entry es id = None -> ~ In id (map fst es).
Proof.
  induction es as [|[i e] es IH]; intros id H; cbn; [tauto|].
  cbn [find_entry] in H. destruct (i =? id) eqn:E; [discriminate|].
  apply N.eqb_neq in E. intros [K|K]; [contradiction | exact (IH _ H K)].
Qed.

Lemma first_dup_none : forall es, first_dup es = None -> NoDup (map fst es).
Proof.
  induction es as [|[i e] es IH]; intro H; cbn; [constructor|].
  cbn [first_dup] in H. destruct (find_entry es i) eqn:F; [discriminate|].
  constructor; [apply find_entry_none; exact F | apply IH; exact H].
Qed.

Lemma check_revs_sound : forall n revs,
  check_revs n revs = SOk tt ->
  Forall (fun r => Forall (fun ie => fst ie < r_size r /\ fst ie < n) (r_entries r) /\
                   NoDup (map fst (r_entries r))) revs.
Proof.
  induction revs as [|r revs IH]; intro H; [constructor|].
  cbn [check_revs] in H.
  destruct (ids_below (r_size r) (r_entries r)) eqn:A; [discriminate|].
  destruct (ids_below n (r_entries r)) eqn:B; [discriminate|].
  destruct (first_dup (r_entries r)) eqn:C; [discriminate|].
  constructor; [|apply IH; exact H]. split; [|apply first_dup_none; exact C].
  pose proof (ids_below_none _ _ A) as HA. pose proof (ids_below_none _ _ B) as HB.
  rewrite Forall_forall in *. intros ie Hin. split; auto.
Qed.

(* ---------- tiling: every byte in exactly one span ---------- *)
(* [tiles cur prev l = SOk fin]: the non-empty spans of l, an immediate repetition counted once,
   are consecutive intervals [cur,b1) [b1,b2) ... [_,fin). *)
Inductive chain : N -> list spanT -> N -> Prop :=
| chain_nil : forall c, chain c [] c
| chain_cons : forall a b l fin, a < b -> chain b l fin -> chain a ((a, b) :: l) fin.

Lemma chain_le : forall c l fin, chain c l fin -> c <= fin.
Proof. induction 1; lia. Qed.

(* a chain covers every position once *)
Lemma chain_cover : forall c l fin, chain c l fin ->
  forall p, c <= p < fin -> exists a b, In (a, b) l /\ a <= p < b.
Proof.
  induction 1 as [c|a b l fin Hab Hc IH]; intros p Hp; [lia|].
  destruct (N.lt_ge_cases p b) as [L|G].
  - exists a, b. split; [left; reflexivity | lia].
  - destruct (IH p ltac:(lia)) as [a' [b' [Hin Hr]]]. exists a', b'. split; [right; exact Hin | exact Hr].
Qed.

Lemma chain_disjoint : forall c l fin, chain c l fin ->
  forall i j a b a' b', (i < j)%nat -> nth_error l i = Some (a, b) -> nth_error l j = Some (a', b') -> b <= a'.
Proof.
  induction 1 as [c|a0 b0 l fin Hab Hc IH]; intros i j a b a' b' Hij Hi Hj.
  - destruct i; discriminate.
  - destruct j as [|j]; [lia|]. destruct i as [|i].
    + cbn in Hi. inversion Hi; subst. cbn in Hj.
      clear -Hc Hj. revert j Hj. induction Hc as [c|a1 b1 l fin Hab1 Hc1 IH1]; intros j Hj.
      * destruct j; discriminate.
      * destruct j as [|j]; cbn in Hj.
        -- inversion Hj; subst. lia.
        -- specialize (IH1 _ Hj). lia.
    + cbn in Hi, Hj. eapply IH; [|exact Hi|exact Hj]. lia.
Qed.

(* the spans that [tiles] counts *)
Fixpoint effective (prev : spanT) (l : list spanT) : list spanT :=
  match l with
  | [] => []
  | (a, b) :: l' =>
    if a =? b then effective prev l'
    else if (a =? fst prev) && (b =? snd prev) then effective prev l'
    else (a, b) :: effective (a, b) l'
  end.

Lemma tiles_chain : forall l cur prev fin,
  tiles cur prev l = SOk fin -> chain cur (effective prev l) fin.
Proof.
  induction l as [|[a b] l IH]; intros cur prev fin H; cbn [tiles effective] in *.
  - inversion H; constructor.
  - destruct (a =? b) eqn:E1; [apply IH; assumption|].
    destruct (b <? a) eqn:E0; [discriminate|].
    destruct ((a =? fst prev) && (b =? snd prev)) eqn:E2; [apply IH; assumption|].
    destruct (a =? cur) eqn:E3.
    + apply N.eqb_eq in E3. subst a. apply N.eqb_neq in E1. apply N.ltb_ge in E0.
      constructor; [lia|]. apply IH; assumption.
    + destruct (cur <? a); discriminate.
Qed.

(* ---------- a stream's Length is the number of bytes taken between "stream" EOL and "endstream" ---------- *)
Lemma p_number_not_stream : forall s o r, p_number s = Some (o, r) -> forall d c, o <> OStream d c.
Proof.
  intros s o r H d c. unfold p_number in H.
  destruct (match s with
            | [] => ([], false, s)
            | c0 :: r0 => if byte_eqb c0 x2b then ([x2b], false, r0)
                          else if byte_eqb c0 x2d then ([x2d], true, r0) else ([], false, s)
            end) as [[sign neg] s1].
  destruct (span is_digit s1) as [ip s2].
  assert (Hint : forall o r,
            match ip with
            | [] => None
            | _ :: _ => if tok_end s2
                        then Some (OInt (if neg then (- Z.of_N (dec_val ip))%Z else Z.of_N (dec_val ip)), s2)
                        else None
            end = Some (o, r) -> o <> OStream d c).
  { intros o0 r0 K. destruct ip; [discriminate|]. destruct (tok_end s2); [|discriminate].
    inversion K. discriminate. }
  destruct s2 as [|c2 s3]; [eapply Hint; exact H|].
  destruct (byte_eqb c2 x2e); [|eapply Hint; exact H].
  destruct (span is_digit s3) as [fp s4].
  destruct ip, fp; try discriminate; destruct (tok_end s4); try discriminate; inversion H; discriminate.
Qed.

Lemma p_obj_not_stream : forall fuel s o r, p_obj fuel s = Some (o, r) -> forall d c, o <> OStream d c.
Proof.
  intros fuel s o r H d c. destruct fuel as [|f]; [discriminate|]. cbn [p_obj] in H.
  repeat match type of H with
  | context [match ?x with _ => _ end] => destruct x eqn:?; try discriminate H
  end;
  try (eapply p_number_not_stream; eassumption);
  inversion H; discriminate.
Qed.

Lemma take_n_spec : forall n s a r, take_n n s = Some (a, r) -> s = a ++ r /\ length a = n.
Proof.
  induction n as [|n IH]; intros s a r H; cbn [take_n] in H.
  - inversion H; subst. split; reflexivity.
  - destruct s as [|c s]; [discriminate|]. destruct (take_n n s) as [[a' r']|] eqn:E; [|discriminate].
    inversion H; subst. destruct (IH _ _ _ E) as [-> L]. split; cbn; [reflexivity | lia].
Qed.

(* whatever [p_objbody] returns as a stream carries exactly Length bytes of data *)
Lemma p_objbody_stream_length : forall resolve id s d data r,
  p_objbody resolve id s = SOk (OStream d data, r) ->
  length_value resolve d = Some (lenN data).
Proof.
  intros resolve id s d data r H. unfold p_objbody in H.
  sdestr H. destruct a as [o r0].
  apply of_opt_ok in E. unfold p_object in E.
  pose proof (p_obj_not_stream _ _ _ _ E) as NS.
  sdestr H. destruct a as [o' r7]. sdestr H. inversion H; subst o' r. clear H.
  destruct o; try (exfalso; inversion E0; subst; eapply NS; reflexivity).
  destruct (strip KW_stream (skip_ws r0 false)) as [r2|] eqn:St; [|inversion E0].
  sdestr E0. sdestr E0. sdestr E0. destruct a2 as [data' r4]. sdestr E0.
  inversion E0; subst. apply of_opt_ok in E3, E4.
  destruct (take_n_spec _ _ _ _ E4) as [_ L].
  rewrite E3. f_equal. unfold lenN. rewrite L. rewrite N2Nat.id. reflexivity.
Qed.

(* ---------- cross-reference streams: W, Index and the data length agree ---------- *)
Lemma p_xs_entries_len : forall w1 w2 w3 k id s l r,
  p_xs_entries w1 w2 w3 k id s = SOk (l, r) ->
  length l = k /\ map fst l = map (fun i => id + N.of_nat i) (seq 0 k).
Proof.
  induction k as [|k IH]; intros id s l r H; cbn [p_xs_entries] in H.
  - inversion H; subst. split; reflexivity.
  - destruct (p_xs_entry w1 w2 w3 s) as [[[e|] r1]|]; try discriminate.
    sdestr H. destruct a as [l' r']. inversion H; subst.
    destruct (IH _ _ _ _ E) as [L M]. cbn [length map seq fst]. split; [lia|].
    f_equal; [lia|]. rewrite M. rewrite <- seq_shift, map_map. apply map_ext. intro i. lia.
Qed.

Lemma p_xs_sections_len : forall w1 w2 w3 idx s l,
  p_xs_sections w1 w2 w3 idx s = SOk l -> N.of_nat (length l) = sum_counts idx.
Proof.
  induction idx as [|[first cnt] idx IH]; intros s l H; cbn [p_xs_sections] in H.
  - destruct s; inversion H. reflexivity.
  - sdestr H. destruct a as [es r]. sdestr H. inversion H; subst.
    destruct (p_xs_entries_len _ _ _ _ _ _ _ _ E) as [L _].
    rewrite app_length, Nat2N.inj_add, (IH _ _ E0). cbn [sum_counts fold_right snd fst] in *.
    rewrite L, N2Nat.id. reflexivity.
Qed.

(* acceptance of a cross-reference stream: Type XRef, no filter, three widths of at most 8,
   data length = (sum of the Index counts) * (sum of the widths), one entry per counted number *)
Lemma decode_xstream_consistent : forall x d data es,
  decode_xstream x d data = SOk es ->
  dict_get d N_Type = Some (OName N_XRef) /\ dict_get d N_Filter = None /\
  exists w1 w2 w3 idx,
    dict_get d N_W = Some (OArr [OInt (Z.of_N w1); OInt (Z.of_N w2); OInt (Z.of_N w3)]) /\
    w1 <= 8 /\ w2 <= 8 /\ w3 <= 8 /\
    lenN data = sum_counts idx * (w1 + w2 + w3) /\
    N.of_nat (length es) = sum_counts idx.
Proof.
  intros x d data es H. unfold decode_xstream in H.
  destruct (dict_get d N_Type) as [[| | | |t| | | | |]|] eqn:T; try discriminate.
  destruct (negb (bytes_eqb t N_XRef)) eqn:TX; [discriminate|].
  apply negb_false_iff, bytes_eqb_eq in TX. subst t.
  destruct (dict_get d N_Filter) eqn:F; [discriminate|].
  sdestr H. sdestr H. destruct a0 as [[w1 w2] w3]. sdestr H.
  destruct (negb (lenN data =? sum_counts a0 * (w1 + w2 + w3))) eqn:L; [discriminate|].
  apply negb_false_iff, N.eqb_eq in L.
  split; [reflexivity|]. split; [reflexivity|].
  exists w1, w2, w3, a0.
  apply of_opt_ok in E0.
  destruct (dict_get d N_W) as [[| | | | | |[|oa [|ob [|oc [|? ?]]]]| | |]|] eqn:W; try discriminate.
  unfold as_nat_obj in E0.
  destruct oa as [| |za| | | | | | |]; try discriminate. destruct (za <? 0)%Z eqn:Za; [discriminate|].
  destruct ob as [| |zb| | | | | | |]; try discriminate. destruct (zb <? 0)%Z eqn:Zb; [discriminate|].
  destruct oc as [| |zc| | | | | | |]; try discriminate. destruct (zc <? 0)%Z eqn:Zc; [discriminate|].
  destruct ((Z.to_N za <=? 8) && (Z.to_N zb <=? 8) && (Z.to_N zc <=? 8)) eqn:B; [|discriminate].
  inversion E0; subst. apply andb_true_iff in B as [B B3]. apply andb_true_iff in B as [B1 B2].
  apply N.leb_le in B1, B2, B3. apply Z.ltb_ge in Za, Zb, Zc.
  rewrite !Z2N.id by assumption.
  repeat split; auto.
  eapply p_xs_sections_len; exact H.
Qed.

(* ---------- the number after startxref ---------- *)
(* an accepted section starts, at exactly the offset named, with the keyword xref or with the
   "n g obj" header of a stream whose dictionary has /Type /XRef; and the startxref that follows
   the section names that same offset *)
Lemma read_section_target : forall file x r,
  read_section file (lenN file) x = SOk r ->
  r_x r = x /\ x < lenN file /\
  ((r_stream r = false /\ exists rest, strip KW_xref (at_off file x) = Some rest) \/
   (r_stream r = true /\ (exists id gen rest, p_objhdr (at_off file x) = Some (id, gen, rest)) /\
    dict_get (r_trailer r) N_Type = Some (OName N_XRef))).
Proof.
  intros file x r H. unfold read_section in H.
  destruct (lenN file <=? x) eqn:L; [discriminate|]. apply N.leb_gt in L.
  sdestr H. destruct a as [[[is_stream es] d] rest]. sdestr H. sdestr H.
  destruct (negb (fst a0 =? x)); [discriminate|]. inversion H; subst; cbn. clear H.
  split; [reflexivity|]. split; [exact L|].
  destruct (strip KW_xref (at_off file x)) as [rest'|] eqn:S.
  - sdestr E. destruct a1 as [[es' d'] r']. inversion E; subst. left. split; [reflexivity|]. eauto.
  - sdestr E. destruct a1 as [[id gen] s1]. sdestr E. destruct a1 as [o r'].
    destruct o; try discriminate. sdestr E. inversion E; subst.
    right. split; [reflexivity|]. apply of_opt_ok in E2. split; [eauto|].
    destruct (decode_xstream_consistent _ _ _ _ E4) as [T _]. exact T.
Qed.

Lemma read_chain_targets : forall fuel file x revs,
  read_chain fuel file (lenN file) x = SOk revs ->
  (exists newest older, revs = newest :: older /\ r_x newest = x) /\
  Forall (fun r =>
    r_x r < lenN file /\
    ((r_stream r = false /\ exists rest, strip KW_xref (at_off file (r_x r)) = Some rest) \/
     (r_stream r = true /\ (exists id gen rest, p_objhdr (at_off file (r_x r)) = Some (id, gen, rest)) /\
      dict_get (r_trailer r) N_Type = Some (OName N_XRef)))) revs.
Proof.
  induction fuel as [|f IH]; intros file x revs H; [discriminate|].
  cbn [read_chain] in H. sdestr H.
  destruct (read_section_target _ _ _ E) as [Rx [Lx Hx]].
  assert (Hr : r_x a < lenN file /\
    ((r_stream a = false /\ exists rest, strip KW_xref (at_off file (r_x a)) = Some rest) \/
     (r_stream a = true /\ (exists id gen rest, p_objhdr (at_off file (r_x a)) = Some (id, gen, rest)) /\
      dict_get (r_trailer a) N_Type = Some (OName N_XRef)))) by (rewrite Rx; auto).
  destruct (dict_get (r_trailer a) N_Prev) as [o|].
  - destruct o; try discriminate.
    destruct ((0 <=? z)%Z && (z <? Z.of_N x)%Z); [|discriminate].
    sdestr H. inversion H; subst. destruct (IH _ _ _ E0) as [_ F].
    split; [eauto|]. constructor; assumption.
  - inversion H; subst. split; [eauto|]. constructor; [assumption | constructor].
Qed.

(* ---------- header ---------- *)
Lemma p_header_spec : forall s v r,
  p_header s = SOk (v, r) ->
  exists m rest,
    s = KW_pdf ++ v ++ rest /\ version_ok v = true /\ forallb not_eol v = true /\
    (exists r1, p_eol rest = Some (x25 :: m ++ r1) /\ (exists r2, p_eol r1 = Some r2)) /\
    (4 <= length (filter is_high m))%nat.
Proof.
  intros s v r H. unfold p_header in H.
  sdestr H. apply of_opt_ok in E. apply strip_spec in E. subst s.
  destruct (span not_eol a) as [v' s2] eqn:Sp.
  destruct (negb (version_ok v')) eqn:V; [discriminate|]. apply negb_false_iff in V.
  sdestr H. destruct a0 as [|c s4]; [discriminate|].
  destruct (byte_eqb c x25) eqn:C; [|discriminate]. apply byte_eqb_eq in C. subst c.
  destruct (span not_eol s4) as [m s5] eqn:Sp2.
  destruct (4 <=? length (filter is_high m))%nat eqn:M; [|discriminate].
  sdestr H. inversion H; subst v' r. clear H.
  assert (span_spec : forall p s a r, span p s = (a, r) -> s = a ++ r /\ forallb p a = true).
  { clear. intro p. induction s as [|c s IH]; intros a r H; cbn [span] in H.
    - inversion H; subst. split; reflexivity.
    - destruct (p c) eqn:P.
      + destruct (span p s) as [a' r'] eqn:E. inversion H; subst.
        destruct (IH _ _ eq_refl) as [-> F]. cbn. rewrite P, F. split; reflexivity.
      + inversion H; subst. split; reflexivity. }
  destruct (span_spec _ _ _ _ Sp) as [-> Fv]. destruct (span_spec _ _ _ _ Sp2) as [-> _].
  apply of_opt_ok in E, E0.
  exists m, s2. repeat split; auto.
  - exists s5. split; [exact E | eauto].
  - apply Nat.leb_le in M. exact M.
Qed.

(* ---------- everything together ---------- *)
Definition starts_at_xref_or_xref_stream (file : bytes) (r : revision) : Prop :=
  r_x r < lenN file /\
  ((r_stream r = false /\ exists rest, strip KW_xref (at_off file (r_x r)) = Some rest) \/
   (r_stream r = true /\ (exists id gen rest, p_objhdr (at_off file (r_x r)) = Some (id, gen, rest)) /\
    dict_get (r_trailer r) N_Type = Some (OName N_XRef))).

Theorem strict_load_sound : forall file d,
  strict_load file = SOk d ->
  (* header and binary comment *)
  (exists m rest, file = KW_pdf ++ s_version d ++ rest /\ version_ok (s_version d) = true /\
                  (exists r1, p_eol rest = Some (x25 :: m ++ r1)) /\ (4 <= length (filter is_high m))%nat) /\
  (* startxref: the number at the end of the file is the offset of the newest section *)
  find_tail file = Some (s_startxref d) /\
  (exists newest older, s_revs d = newest :: older /\ r_x newest = s_startxref d /\
                        s_trailer d = r_trailer newest) /\
  (* every section (newest and those reached through Prev) starts with xref / an XRef stream *)
  Forall (starts_at_xref_or_xref_stream file) (s_revs d) /\
  (* in-use entries hold the exact offset of "id gen obj" with the same id and gen *)
  Forall (fun r => Forall (entry_points_at_header file) (r_entries r)) (s_revs d) /\
  (* Size exceeds every object number; no number twice in a section *)
  Forall (fun r => Forall (fun ie => fst ie < r_size r) (r_entries r) /\ NoDup (map fst (r_entries r))) (s_revs d) /\
  (* every byte is accounted for: the spans counted by the tiling are consecutive from 0 to |file| *)
  chain 0 (effective (0, 0) (s_spans d)) (lenN file).
Proof.
  intros file d H. unfold strict_load in H.
  sdestr H. destruct a as [ver after_header]. sdestr H. sdestr H.
  destruct a0 as [|newest older]; [discriminate|].
  match type of H with (if negb ?c then _ else _) = _ => destruct (negb c); [discriminate|] end.
  sdestr H. sdestr H.
  match type of H with sbind (tiles 0 (0, 0) ?sp) _ = _ => set (sorted := sp) in * end.
  sdestr H.
  destruct (negb (a2 =? lenN file)) eqn:Fin; [discriminate|].
  apply negb_false_iff, N.eqb_eq in Fin. subst a2.
  inversion H; subst d; cbn [s_version s_startxref s_revs s_trailer s_spans]. clear H.
  apply of_opt_ok in E0.
  destruct (p_header_spec _ _ _ E) as [m [rest [Hf [Hv [_ [[r1 [He _]] Hm]]]]]].
  destruct (read_chain_targets _ _ _ _ E1) as [[n' [o' [Hrev Hx]]] Htargets].
  inversion Hrev; subst n' o'.
  split; [exists m, rest; repeat split; eauto|].
  split; [exact E0|].
  split; [exists newest, older; repeat split; auto|].
  split; [exact Htargets|].
  split; [eapply read_all_sound; exact E3|].
  split.
  - destruct a0. pose proof (check_revs_sound _ _ E2) as C. eapply Forall_impl; [|exact C].
    intros r [A B]. split; [|exact B]. eapply Forall_impl; [|exact A]. intros ie [K _]. exact K.
  - apply tiles_chain. exact E4.
Qed.

(* ---------- stream Length, file level ---------- *)
Definition stream_length_ok (file : bytes) (revs : list revision) (l : located) : Prop :=
  forall d data, l_obj l = OStream d data -> length_value (resolve_len file revs) d = Some (lenN data).

Lemma read_at_stream_length : forall file revs id off gen l,
  read_at file (lenN file) revs id off gen = SOk l -> stream_length_ok file revs l.
Proof.
  intros file revs id off gen l H. unfold read_at in H.
  destruct (65535 <? gen); [discriminate|].
  destruct (lenN file <=? off); [discriminate|].
  destruct (p_objhdr (at_off file off)) as [[[i' g'] s1]|]; [|discriminate].
  destruct ((i' =? id) && (g' =? gen)); [|discriminate].
  sdestr H. inversion H; subst; cbn. intros d data Ho. destruct a as [o r]. cbn in Ho. subst o.
  eapply p_objbody_stream_length. exact E.
Qed.

Lemma read_entries_stream_length : forall file revs es ls,
  read_entries file (lenN file) revs es = SOk ls -> Forall (stream_length_ok file revs) ls.
Proof.
  induction es as [|[id e] es IH]; intros ls H; cbn [read_entries] in H.
  - inversion H; constructor.
  - destruct e as [nx g|off gen]; [eapply IH; exact H|].
    sdestr H. sdestr H. inversion H; subst. constructor.
    + eapply read_at_stream_length; exact E.
    + eapply IH; reflexivity.
Qed.

Lemma read_all_stream_length : forall file all revs locs,
  read_all file (lenN file) all revs = SOk locs -> Forall (Forall (stream_length_ok file all)) locs.
Proof.
  induction revs as [|r revs IH]; intros locs H; cbn [read_all] in H.
  - inversion H; constructor.
  - sdestr H. sdestr H. inversion H; subst. constructor.
    + eapply read_entries_stream_length; exact E.
    + eapply IH; reflexivity.
Qed.

Theorem strict_load_stream_lengths : forall file d,
  strict_load file = SOk d ->
  Forall (Forall (stream_length_ok file (s_revs d))) (s_located d).
Proof.
  intros file d H. unfold strict_load in H.
  sdestr H. destruct a as [ver after_header]. sdestr H. sdestr H.
  destruct a0 as [|newest older]; [discriminate|].
  match type of H with (if negb ?c then _ else _) = _ => destruct (negb c); [discriminate|] end.
  sdestr H. sdestr H. sdestr H.
  match type of H with (if ?c then _ else _) = _ => destruct c; [discriminate|] end.
  inversion H; subst d; cbn [s_revs s_located].
  eapply read_all_stream_length; exact E3.
Qed.
