(* CMapRenderProofs.v -- the printer / parser round trip of ToUnicode CMaps:

     cmap_stream (render lay secs) = POk secs []       for every layout and every well-formed section list

   [render] is the independent renderer of Spec/CMapRender.v (written from the syntax of the
   standard), [cmap_stream] the model of src/parser/cmap_parser.rs (Model/CMapParser.v).
   Method: explicit continuation.  Every lemma has the shape
        p (text_of x ++ rest) = POk x rest        provided   head_is <follow set> rest
   one lemma per kind of white space and per token, then per line, per section, then the file.
   The follow sets: after blanks the next byte is no blank ([nonblank]); after a line break it is
   no white space and no '%' ([solid]); after a number it is no digit.  The fuelled loops of the
   model (many0, separated_list1, the name body, the dictionary entries) are started by the model
   with the length of their input + 1, which is more than the number of items the text holds. *)
From LV Require Import Base.Bytes Model.CMap Model.CMapParser Spec.CMapRender Gen.CMapC.

Local Open Scope N_scope.

(* ---------- follow sets ---------- *)
Definition head_is (P : byte -> bool) (r : bytes) : Prop :=
  match r with [] => True | c :: _ => P c = true end.

Definition nonblank (c : byte) : bool := negb (is_sp c || is_tab c).
Definition solid (c : byte) : bool := negb (cmap_ws c || beq c x25).
Definition nondig (c : byte) : bool := negb (is_dig c).

Definition blank_closed (P : byte -> bool) : Prop := P x20 = true /\ P x09 = true.
Definition ws_closed (P : byte -> bool) : Prop :=
  P x20 = true /\ P x09 = true /\ P x0d = true /\ P x0a = true /\ P x25 = true.

Lemma head_blanks1 P g r : blank_closed P -> head_is P (blanks1 g ++ r).
Proof. intros [H1 H2]. destruct g as [[|] g]; cbn; assumption. Qed.

Lemma head_blanks P g r : blank_closed P -> head_is P r -> head_is P (blanks g ++ r).
Proof. intros [H1 H2] Hr. destruct g as [|[|] g]; cbn; assumption. Qed.

Lemma head_witem P w r : ws_closed P -> head_is P (witem_bytes w ++ r).
Proof. intros [H1 [H2 [H3 [H4 H5]]]]. destruct w as [[|]|[| |]|t [| |]]; cbn; assumption. Qed.

Lemma head_wbytes1 P g r : ws_closed P -> head_is P (wbytes1 g ++ r).
Proof. intro H. unfold wbytes1. rewrite <- app_assoc. apply head_witem; exact H. Qed.

Lemma head_wbytes P g r : ws_closed P -> head_is P r -> head_is P (wbytes g ++ r).
Proof.
  intros H Hr. destruct g as [|w g]; [exact Hr|]. cbn [wbytes flat_map]. rewrite <- app_assoc.
  apply head_witem; exact H.
Qed.

(* ---------- tag ---------- *)
Lemma strip_app t r : strip t (t ++ r) = Some r.
Proof. induction t as [|x t IH]; cbn [strip app]; [reflexivity|]. rewrite byte_eqb_refl. exact IH. Qed.

Lemma tag_app t k r : t = k -> tag t (k ++ r) = POk tt r.
Proof. intros ->. unfold tag. rewrite strip_app. reflexivity. Qed.

Lemma tag_cons b r : tag [b] (b :: r) = POk tt r.
Proof. exact (tag_app [b] [b] r eq_refl). Qed.

(* ---------- blanks ---------- *)
Lemma blank_is b : is_sp (blank_byte b) || is_tab (blank_byte b) = true.
Proof. destruct b; reflexivity. Qed.

Lemma space0_head r : head_is nonblank r -> space0 r = r.
Proof.
  destruct r as [|c r]; [reflexivity|]. cbn [head_is space0]. unfold nonblank.
  destruct (is_sp c || is_tab c); [discriminate|reflexivity].
Qed.

Lemma space0_app g r : head_is nonblank r -> space0 (blanks g ++ r) = r.
Proof.
  intro H. induction g as [|b g IH]; [exact (space0_head r H)|].
  cbn [blanks map app space0]. rewrite blank_is. exact IH.
Qed.

Lemma space1_app g r : head_is nonblank r -> space1 (blanks1 g ++ r) = POk tt r.
Proof.
  intro H. unfold blanks1. cbn [app space1]. rewrite blank_is. rewrite (space0_app (snd g) r H). reflexivity.
Qed.

(* ---------- white space with comments ---------- *)
Definition ws_pred (ws : byte -> bool) : Prop :=
  ws x20 = true /\ ws x09 = true /\ ws x0d = true /\ ws x0a = true /\ ws x25 = false.

Lemma cmap_ws_pred : ws_pred cmap_ws.
Proof. repeat split. Qed.
Lemma pdf_ws_pred : ws_pred pdf_ws.
Proof. repeat split. Qed.

Lemma skip_eol_pending ws e rest start :
  ws_pred ws -> skip_ws ws (eol_bytes e ++ rest) (Some start) = skip_ws ws rest None.
Proof.
  intros [_ [_ [_ [Hlf _]]]]. destruct e; cbn [eol_bytes app skip_ws].
  - change (is_cr x0d || is_lf x0d) with true. reflexivity.
  - change (is_cr x0a || is_lf x0a) with true. reflexivity.
  - change (is_cr x0d || is_lf x0d) with true. cbv iota. destruct rest; cbn [skip_ws]; rewrite Hlf; reflexivity.
Qed.

Lemma in_line_not_eol c : in_line c = true -> is_cr c || is_lf c = false.
Proof. unfold in_line, is_cr, is_lf, beq. destruct (byte_eqb c x0d || byte_eqb c x0a); [discriminate|reflexivity]. Qed.

Lemma skip_comment_body ws t e rest start :
  ws_pred ws -> skip_ws ws (filter in_line t ++ eol_bytes e ++ rest) (Some start) = skip_ws ws rest None.
Proof.
  intro H. induction t as [|c t IH]; cbn [filter app].
  - apply skip_eol_pending; exact H.
  - destruct (in_line c) eqn:E; [|exact IH]. cbn [app skip_ws]. rewrite (in_line_not_eol c E). exact IH.
Qed.

Lemma skip_witem ws w rest : ws_pred ws -> skip_ws ws (witem_bytes w ++ rest) None = skip_ws ws rest None.
Proof.
  intros H. pose proof H as [Hsp [Htab [Hcr [Hlf Hpc]]]].
  destruct w as [[|]|[| |]|t e]; cbn [witem_bytes blank_byte eol_bytes app skip_ws].
  - rewrite Hsp. reflexivity.
  - rewrite Htab. reflexivity.
  - rewrite Hcr. reflexivity.
  - rewrite Hlf. reflexivity.
  - rewrite Hcr. cbn [skip_ws]. rewrite Hlf. reflexivity.
  - rewrite Hpc. change (beq x25 x25) with true. cbv iota. rewrite <- app_assoc. apply skip_comment_body; exact H.
Qed.

Lemma skip_wbytes ws g rest : ws_pred ws -> skip_ws ws (wbytes g ++ rest) None = skip_ws ws rest None.
Proof.
  intro H. induction g as [|w g IH]; [reflexivity|].
  cbn [wbytes flat_map]. rewrite <- app_assoc. rewrite skip_witem by exact H. exact IH.
Qed.

Lemma skip_head ws r : head_is (fun c => negb (ws c || beq c x25)) r -> skip_ws ws r None = r.
Proof.
  destruct r as [|c r]; [reflexivity|]. cbn [head_is skip_ws].
  destruct (ws c); [discriminate|]. destruct (beq c x25); [discriminate|]. reflexivity.
Qed.

Lemma multispace0_app g r : head_is solid r -> multispace0 (wbytes g ++ r) = r.
Proof. intro H. unfold multispace0. rewrite skip_wbytes by exact cmap_ws_pred. apply skip_head. exact H. Qed.

Lemma witem_bytes_len w : (0 < length (witem_bytes w))%nat.
Proof. destruct w as [b|[| |]|t e]; cbn; lia. Qed.

Lemma wbytes1_eq g : wbytes1 g = wbytes (fst g :: snd g).
Proof. reflexivity. Qed.

Lemma multispace1_app g r : head_is solid r -> multispace1 (wbytes1 g ++ r) = POk tt r.
Proof.
  intro H. unfold multispace1. rewrite wbytes1_eq. rewrite (multispace0_app _ r H).
  assert (E : (length r <? length (wbytes (fst g :: snd g) ++ r))%nat = true).
  { apply Nat.ltb_lt. cbn [wbytes flat_map]. rewrite !app_length. pose proof (witem_bytes_len (fst g)). lia. }
  rewrite E. reflexivity.
Qed.

Lemma pdf_space_app g r : head_is (fun c => negb (pdf_ws c || beq c x25)) r -> pdf_space (wbytes g ++ r) = r.
Proof. intro H. unfold pdf_space. rewrite skip_wbytes by exact pdf_ws_pred. apply skip_head. exact H. Qed.

Lemma pdf_space1_app g r : head_is (fun c => negb (pdf_ws c || beq c x25)) r -> pdf_space (wbytes1 g ++ r) = r.
Proof. rewrite wbytes1_eq. apply pdf_space_app. Qed.

(* white space inside a string is white space *)
Definition w_of_s (s : sitem) : witem := match s with SBlank b => WBlank b | SEol e => WEol e end.
Lemma sbytes_wbytes g : sbytes g = wbytes (map w_of_s g).
Proof. unfold sbytes, wbytes. induction g as [|s g IH]; [reflexivity|]. cbn [flat_map map]. rewrite IH. destruct s; reflexivity. Qed.

(* ---------- numbers ---------- *)
Lemma dec_digit_dig d : d < 10 -> is_dig (dec_digit d) = true.
Proof.
  intro H. unfold is_dig, dec_digit. rewrite N_of_byte_of_N by lia.
  apply andb_true_iff. split; apply N.leb_le; lia.
Qed.

Lemma dec_go_dig : forall fuel n acc, forallb is_dig acc = true ->
  forallb is_dig (dec_go fuel n acc) = true /\ dec_go fuel n acc <> [].
Proof.
  induction fuel as [|f IH]; intros n acc Ha; cbn [dec_go].
  - split; [|discriminate]. cbn [forallb]. rewrite dec_digit_dig by (apply N.mod_lt; lia). exact Ha.
  - destruct (n <? 10) eqn:E.
    + apply N.ltb_lt in E. split; [|discriminate]. cbn [forallb]. rewrite dec_digit_dig by exact E. exact Ha.
    + apply IH. cbn [forallb]. rewrite dec_digit_dig by (apply N.mod_lt; lia). exact Ha.
Qed.

Lemma dec_dig n : forallb is_dig (dec n) = true /\ dec n <> [].
Proof. apply dec_go_dig. reflexivity. Qed.

Lemma head_dec P n r : (forall c, is_dig c = true -> P c = true) -> head_is P (dec n ++ r).
Proof.
  intro H. destruct (dec_dig n) as [H1 H2]. destruct (dec n) as [|c ds]; [congruence|].
  cbn [forallb] in H1. apply andb_true_iff in H1 as [H1 _]. cbn. apply H. exact H1.
Qed.

Lemma digit0_app ds r : forallb is_dig ds = true -> head_is nondig r -> digit0 (ds ++ r) = r.
Proof.
  intros Hd Hr. induction ds as [|c ds IH]; cbn [app].
  - destruct r as [|c r]; [reflexivity|]. cbn [digit0 head_is] in *. unfold nondig in Hr.
    destruct (is_dig c); [discriminate|reflexivity].
  - cbn [forallb] in Hd. apply andb_true_iff in Hd as [H1 H2]. cbn [digit0]. rewrite H1. apply IH; exact H2.
Qed.

Lemma digit1_app ds r : forallb is_dig ds = true -> ds <> [] -> head_is nondig r -> digit1 (ds ++ r) = POk tt r.
Proof.
  intros Hd Hn Hr. destruct ds as [|c ds]; [congruence|].
  cbn [forallb] in Hd. apply andb_true_iff in Hd as [H1 H2].
  cbn [app digit1]. rewrite H1. rewrite digit0_app by assumption. reflexivity.
Qed.

Lemma digit1_dec n r : head_is nondig r -> digit1 (dec n ++ r) = POk tt r.
Proof. intro H. destruct (dec_dig n) as [H1 H2]. apply digit1_app; assumption. Qed.

(* ---------- hexadecimal ---------- *)
Definition hexv_chk (k : N) : bool :=
  match hexv (hex_digit true k), hexv (hex_digit false k) with
  | Some a, Some b => (a =? k) && (b =? k)
  | _, _ => false
  end.
Lemma hexv_chk_all : below_nat 16 hexv_chk = true.
Proof. vm_compute. reflexivity. Qed.

Lemma hexv_hex_digit up d : d < 16 -> hexv (hex_digit up d) = Some d.
Proof.
  intro H. pose proof (below_nat_spec 16 _ hexv_chk_all d H) as E. unfold hexv_chk in E.
  destruct (hexv (hex_digit true d)) as [a|] eqn:Ea; [|discriminate].
  destruct (hexv (hex_digit false d)) as [b|] eqn:Eb; [|discriminate].
  apply andb_true_iff in E as [E1 E2]. apply N.eqb_eq in E1, E2. destruct up; [rewrite Ea|rewrite Eb]; congruence.
Qed.

Lemma hexv_solid_all : byte_forallb (fun c => match hexv c with Some _ => solid c && nonblank c | None => true end) = true.
Proof. vm_compute. reflexivity. Qed.
Lemma hexv_solid c d : hexv c = Some d -> solid c = true /\ nonblank c = true.
Proof.
  intro H. pose proof (byte_forallb_spec _ hexv_solid_all c) as E. cbv beta in E. rewrite H in E.
  apply andb_true_iff in E. exact E.
Qed.

Lemma hex_char_pair u1 u2 d r : d < 256 ->
  hex_char (hex_digit u1 (d / 16) :: hex_digit u2 (d mod 16) :: r) = POk d r.
Proof.
  intro H. unfold hex_char.
  rewrite hexv_hex_digit by (apply N.div_lt_upper_bound; lia).
  rewrite hexv_hex_digit by (apply N.mod_lt; lia).
  f_equal. pose proof (N.div_mod d 16). lia.
Qed.

Lemma hex_char_gt r : hex_char (x3e :: r) = PErr.
Proof. destruct r; reflexivity. Qed.

Lemma hex_chars_rt : forall ds c cnt r, Forall (fun d => d < 256) ds -> (length ds <= cnt)%nat ->
  hex_char r = PErr -> hex_chars cnt (hex_bytes c ds ++ r) = (ds, r).
Proof.
  induction ds as [|d ds IH]; intros c cnt r Hd Hl Hr.
  - cbn [hex_bytes app]. destruct cnt; cbn [hex_chars]; [reflexivity|]. rewrite Hr. reflexivity.
  - destruct cnt as [|cnt]; [cbn in Hl; lia|]. inversion Hd as [|? ? H1 H2]; subst.
    cbn [hex_bytes app hex_chars]. rewrite hex_char_pair by exact H1.
    rewrite IH; [reflexivity|exact H2|cbn in Hl; lia|exact Hr].
Qed.

Lemma be_digits_lt : forall k v, Forall (fun d => d < 256) (be_digits k v).
Proof.
  induction k as [|k IH]; intro v; cbn [be_digits]; [constructor|].
  apply Forall_app. split; [apply IH|]. constructor; [apply N.mod_lt; lia|constructor].
Qed.

Lemma be_digits_len : forall k v, length (be_digits k v) = k.
Proof. induction k as [|k IH]; intro v; cbn [be_digits]; [reflexivity|]. rewrite app_length, IH. cbn. lia. Qed.

Lemma code_of_be_digits : forall k v, v < 256 ^ N.of_nat k -> code_of_bytes (be_digits k v) = v.
Proof.
  unfold code_of_bytes. induction k as [|k IH]; intros v H.
  - cbn in H. cbn. lia.
  - cbn [be_digits]. rewrite fold_left_app. cbn [fold_left]. rewrite IH.
    + pose proof (N.div_mod v 256). lia.
    + rewrite Nat2N.inj_succ, N.pow_succ_r' in H. apply N.div_lt_upper_bound; lia.
Qed.

Lemma source_code_rt c len v rest :
  wf_code len v -> source_code (code_text c len v ++ rest) = POk (v, len) rest.
Proof.
  intros [[Hl1 Hl2] Hv]. unfold code_text. rewrite <- !app_assoc. cbn [app].
  unfold source_code. rewrite tag_cons. cbn [pbind].
  change (N.to_nat CMAP_SRC_MAX_BYTES) with 4%nat.
  rewrite hex_chars_rt; [|apply be_digits_lt|rewrite be_digits_len; lia|apply hex_char_gt].
  pose proof (be_digits_len (N.to_nat len) v) as Hlen.
  pose proof (code_of_be_digits (N.to_nat len) v) as Hcode. rewrite N2Nat.id in Hcode. specialize (Hcode Hv).
  destruct (be_digits (N.to_nat len) v) as [|d ds]; [cbn in Hlen; lia|].
  rewrite tag_cons. cbn [pbind]. rewrite Hcode, Hlen, N2Nat.id. reflexivity.
Qed.

Lemma head_code P c len v rest : P x3c = true -> head_is P (code_text c len v ++ rest).
Proof. intro H. exact H. Qed.

(* ---------- target strings ---------- *)
Lemma hex_u16_rt c u r : u < 65536 -> hex_u16 (hex_bytes c [u / 256; u mod 256] ++ r) = POk u r.
Proof.
  intro H. cbn [hex_bytes app]. unfold hex_u16.
  rewrite hex_char_pair by (apply N.div_lt_upper_bound; lia). cbn [pbind].
  rewrite hex_char_pair by (apply N.mod_lt; lia). cbn [pbind].
  f_equal. pose proof (N.div_mod u 256). lia.
Qed.

Lemma hex_u16_gt r : hex_u16 (x3e :: r) = PErr.
Proof. unfold hex_u16. rewrite hex_char_gt. reflexivity. Qed.

Lemma head_units y us rest : Forall (fun u => u < 65536) us -> head_is solid (units_text y us ++ x3e :: rest).
Proof.
  intro H. destruct us as [|u us]; [reflexivity|]. inversion H as [|? ? H1 _]; subst.
  cbn [units_text hex_bytes app head_is].
  refine (proj1 (hexv_solid _ (u / 256 / 16) _)). apply hexv_hex_digit.
  apply N.div_lt_upper_bound; [lia|]. apply N.div_lt_upper_bound; lia.
Qed.

Lemma target_units_rt : forall us y cnt rest, Forall (fun u => u < 65536) us -> (length us <= cnt)%nat ->
  target_units cnt (units_text y us ++ x3e :: rest) = (us, x3e :: rest).
Proof.
  induction us as [|u us IH]; intros y cnt rest Hu Hl.
  - cbn [units_text app]. destruct cnt; cbn [target_units]; [reflexivity|]. rewrite hex_u16_gt. reflexivity.
  - destruct cnt as [|cnt]; [cbn in Hl; lia|]. inversion Hu as [|? ? H1 H2]; subst.
    cbn [units_text]. rewrite <- !app_assoc. cbn [target_units].
    rewrite hex_u16_rt by exact H1. rewrite sbytes_wbytes.
    rewrite multispace0_app by (apply head_units; exact H2).
    rewrite IH; [reflexivity|exact H2|cbn in Hl; lia].
Qed.

Lemma target_string_rt y us rest : wf_target us -> target_string (target_text y us ++ rest) = POk us rest.
Proof.
  intros [Hn [Hl Hu]]. unfold target_text. rewrite <- !app_assoc. cbn [app].
  unfold target_string. rewrite tag_cons. cbn [pbind].
  change (N.to_nat CMAP_TARGET_MAX_UNITS) with 256%nat.
  rewrite target_units_rt by assumption.
  destruct us as [|u us]; [congruence|]. rewrite tag_cons. reflexivity.
Qed.

Lemma target_text_len y us : (0 < length (target_text y us))%nat.
Proof. unfold target_text. cbn [app length]. lia. Qed.

(* ---------- <lo> <hi> ---------- *)
Lemma nonblank_lt : nonblank x3c = true. Proof. reflexivity. Qed.
Lemma solid_lt : solid x3c = true. Proof. reflexivity. Qed.

Lemma code_range_pair_rt y lo hi len rest : wf_code len lo -> wf_code len hi ->
  code_range_pair (range_text y lo hi len ++ rest) = POk (lo, hi, len) rest.
Proof.
  intros H1 H2. unfold range_text. rewrite <- !app_assoc. unfold code_range_pair.
  rewrite source_code_rt by exact H1. cbn [pbind].
  rewrite space0_app by (apply head_code; reflexivity).
  rewrite source_code_rt by exact H2. cbn [pbind fst snd]. rewrite N.eqb_refl. reflexivity.
Qed.

Lemma head_range P y lo hi len rest : P x3c = true -> head_is P (range_text y lo hi len ++ rest).
Proof. intro H. exact H. Qed.

(* ---------- codespace and bfchar lines ---------- *)
Lemma cs_range_line_rt y x rest : wf_cs_line x -> head_is solid rest ->
  cs_range_line (cs_line_text y x ++ rest) = POk x rest.
Proof.
  destruct x as [[lo hi] len]. intros [H1 H2] Hr. unfold cs_line_text. rewrite <- !app_assoc.
  unfold cs_range_line. rewrite space0_head by (apply head_range; reflexivity).
  rewrite code_range_pair_rt by assumption. cbn [pbind].
  rewrite multispace1_app by exact Hr. reflexivity.
Qed.

Lemma bf_char_line_rt y x rest : wf_bfchar_line x -> head_is solid rest ->
  bf_char_line (bfchar_line_text y x ++ rest) = POk x rest.
Proof.
  destruct x as [[code len] dst]. intros [H1 H2] Hr. unfold bfchar_line_text. rewrite <- !app_assoc.
  unfold bf_char_line. rewrite space0_head by (apply head_code; reflexivity).
  rewrite source_code_rt by exact H1. cbn [pbind].
  rewrite space0_app by reflexivity.
  rewrite target_string_rt by exact H2. cbn [pbind].
  rewrite multispace1_app by exact Hr. reflexivity.
Qed.

(* ---------- array targets ---------- *)
Lemma target_string_bracket r : target_string (x5d :: r) = PErr.
Proof. reflexivity. Qed.
Lemma target_string_open r : target_string (x5b :: r) = PErr.
Proof. reflexivity. Qed.

Lemma target_list_rest_rt : forall dst ts fuel close rest, Forall wf_target dst -> (length dst < fuel)%nat ->
  target_list_rest fuel (more_targets ts dst ++ wbytes close ++ x5d :: rest) = POk dst (wbytes close ++ x5d :: rest).
Proof.
  induction dst as [|t dst IH]; intros ts fuel close rest Hw Hf; (destruct fuel as [|f]; [lia|]).
  - cbn [more_targets app target_list_rest]. rewrite multispace0_app by reflexivity.
    rewrite target_string_bracket. reflexivity.
  - inversion Hw as [|? ? H1 H2]; subst. cbn [more_targets]. rewrite <- !app_assoc. cbn [target_list_rest].
    rewrite multispace0_app by reflexivity.
    rewrite target_string_rt by exact H1.
    rewrite IH by (try exact H2; cbn [length] in Hf; lia). reflexivity.
Qed.

Lemma more_targets_len : forall dst ts r, (length dst <= length (more_targets ts dst ++ r))%nat.
Proof.
  induction dst as [|t dst IH]; intros ts r; [cbn; lia|].
  cbn [more_targets length]. rewrite <- !app_assoc.
  pose proof (IH (tl ts) r). pose proof (target_text_len (snd (hd tgt_default ts)) t).
  rewrite !app_length in *. lia.
Qed.

Lemma range_target_array_rt y dst rest : dst <> [] -> Forall wf_target dst ->
  range_target_array (array_text y dst ++ rest) = POk dst rest.
Proof.
  intros Hn Hw. destruct dst as [|t dst]; [congruence|]. inversion Hw as [|? ? H1 H2]; subst.
  unfold array_text. rewrite <- !app_assoc. cbn [app]. unfold range_target_array.
  rewrite tag_cons. cbn [pbind].
  rewrite multispace0_app by reflexivity.
  rewrite target_string_rt by exact H1. cbn [pbind].
  rewrite target_list_rest_rt by (try exact H2; pose proof (more_targets_len dst (tl (l_tgts y)) (wbytes (l_close y) ++ x5d :: rest)); lia).
  cbn [pbind]. rewrite multispace0_app by reflexivity. rewrite tag_cons. reflexivity.
Qed.

Lemma bf_range_line_rt y x rest : wf_bfrange_line x -> head_is solid rest ->
  bf_range_line (bfrange_line_text y x ++ rest) = POk x rest.
Proof.
  destruct x as [[[lo hi] len] dst]. intros [H1 [H2 [Hn Hw]]] Hr. unfold bfrange_line_text. rewrite <- !app_assoc.
  unfold bf_range_line. rewrite space0_head by (apply head_range; reflexivity).
  rewrite code_range_pair_rt by assumption. cbn [pbind]. cbv zeta.
  assert (Harr : forall r, target_string (space0 (blanks (l_gap2 y) ++ array_text y dst ++ r)) = PErr).
  { intro r. rewrite space0_app by (destruct dst; reflexivity). destruct dst; reflexivity. }
  assert (Harr2 : forall r, space0 (blanks (l_gap2 y) ++ array_text y dst ++ r) = array_text y dst ++ r).
  { intro r. apply space0_app. destruct dst; reflexivity. }
  destruct dst as [|t [|t2 dst]]; [congruence| |].
  - destruct (l_bracket y && (lo =? hi)).
    + rewrite Harr, Harr2. rewrite range_target_array_rt by assumption. cbn [pbind].
      rewrite multispace1_app by exact Hr. reflexivity.
    + inversion Hw as [|? ? Ht _]; subst. rewrite space0_app by reflexivity.
      rewrite target_string_rt by exact Ht. cbn [pbind].
      rewrite multispace1_app by exact Hr. reflexivity.
  - rewrite Harr, Harr2. rewrite range_target_array_rt by assumption. cbn [pbind].
    rewrite multispace1_app by exact Hr. reflexivity.
Qed.

(* ---------- repetitions ---------- *)
Section Items.
  Context {L A : Type} (dflt : L) (f : L -> A -> bytes) (wf : A -> Prop) (p : bytes -> pres A).
  Hypothesis p_rt : forall y x rest, wf x -> head_is solid rest -> p (f y x ++ rest) = POk x rest.
  Hypothesis f_head : forall y x rest, head_is solid (f y x ++ rest).
  Hypothesis f_len : forall y x, (0 < length (f y x))%nat.

  Lemma items_text_len : forall l ys r, (length l <= length (items_text dflt f ys l ++ r))%nat.
  Proof.
    induction l as [|x l IH]; intros ys r; [cbn; lia|].
    cbn [items_text length]. rewrite <- app_assoc, app_length.
    pose proof (IH (tl ys) r). pose proof (f_len (hd dflt ys) x). lia.
  Qed.

  Lemma head_items l ys rest : head_is solid rest -> head_is solid (items_text dflt f ys l ++ rest).
  Proof. intro H. destruct l as [|x l]; [exact H|]. cbn [items_text]. rewrite <- app_assoc. apply f_head. Qed.

  Lemma many0_items : forall l ys fuel rest, Forall wf l -> (length l < fuel)%nat -> head_is solid rest -> p rest = PErr ->
    many0 p fuel (items_text dflt f ys l ++ rest) = POk l rest.
  Proof.
    induction l as [|x l IH]; intros ys fuel rest Hw Hf Hr He; (destruct fuel as [|fu]; [lia|]).
    - cbn [items_text app many0]. rewrite He. reflexivity.
    - inversion Hw as [|? ? H1 H2]; subst. cbn [items_text]. rewrite <- app_assoc. cbn [many0].
      rewrite p_rt by (try exact H1; apply head_items; exact Hr).
      rewrite IH by (try assumption; cbn [length] in Hf; lia). reflexivity.
  Qed.

  Lemma many1_items l ys rest : l <> [] -> Forall wf l -> head_is solid rest -> p rest = PErr ->
    many1 p (items_text dflt f ys l ++ rest) = POk l rest.
  Proof.
    intros Hn Hw Hr He. destruct l as [|x l]; [congruence|]. inversion Hw as [|? ? H1 H2]; subst.
    cbn [items_text]. rewrite <- app_assoc. unfold many1.
    rewrite p_rt by (try exact H1; apply head_items; exact Hr). cbn [pbind].
    rewrite many0_items by (try assumption; pose proof (items_text_len l (tl ys) rest); lia). reflexivity.
  Qed.
End Items.

(* ---------- sections ---------- *)
Lemma nondig_blank : blank_closed nondig. Proof. split; reflexivity. Qed.
Lemma solid_of_dig c : is_dig c = true -> solid c = true.
Proof.
  intro H. pose proof (byte_forallb_spec (fun c => negb (is_dig c) || solid c) ltac:(vm_compute; reflexivity) c) as E.
  cbv beta in E. rewrite H in E. exact E.
Qed.

Section SectionOf.
  Context {A : Type} (kb ke : bytes) (f : line_lay -> A -> bytes) (wf : A -> Prop) (line : bytes -> pres A).
  Hypothesis line_rt : forall y x rest, wf x -> head_is solid rest -> line (f y x ++ rest) = POk x rest.
  Hypothesis f_head : forall y x rest, head_is solid (f y x ++ rest).
  Hypothesis f_len : forall y x, (0 < length (f y x))%nat.
  Hypothesis kb_head : forall r, head_is nonblank (kb ++ r).
  Hypothesis ke_head : forall r, head_is solid (ke ++ r).
  Hypothesis ke_stop : forall r, line (ke ++ r) = PErr.

  Lemma section_of_rt y l rest : l <> [] -> Forall wf l -> head_is solid rest ->
    section_of kb ke line (section_frame y kb ke f l ++ rest) = POk l rest.
  Proof.
    intros Hn Hw Hr. unfold section_frame. rewrite <- !app_assoc. unfold section_of.
    rewrite digit1_dec by (apply head_blanks1; exact nondig_blank). cbn [pbind].
    rewrite space1_app by apply kb_head. cbn [pbind].
    rewrite tag_app by reflexivity. cbn [pbind].
    rewrite multispace1_app by (apply (head_items line_default f f_head); apply ke_head). cbn [pbind].
    unfold lines_text.
    rewrite (many1_items line_default f wf line line_rt f_head f_len) by first [assumption | apply ke_head | apply ke_stop].
    cbn [pbind]. rewrite tag_app by reflexivity. cbn [pbind].
    rewrite multispace1_app by exact Hr. reflexivity.
  Qed.

  Lemma section_frame_head y l rest : head_is solid (section_frame y kb ke f l ++ rest).
  Proof. unfold section_frame. rewrite <- !app_assoc. apply head_dec. exact solid_of_dig. Qed.

  Lemma section_frame_len y l : (0 < length (section_frame y kb ke f l))%nat.
  Proof.
    unfold section_frame. rewrite app_length. destruct (dec_dig (N.of_nat (length l))) as [_ H].
    destruct (dec (N.of_nat (length l))); [congruence|]. cbn [length]. lia.
  Qed.

  (* a section of another kind: the begin keyword does not match *)
  Lemma section_of_other {B} tb te (ln : bytes -> pres B) y l rest :
    (forall r, tag tb (kb ++ r) = PErr) ->
    section_of tb te ln (section_frame y kb ke f l ++ rest) = PErr.
  Proof.
    intro Hm. unfold section_frame. rewrite <- !app_assoc. unfold section_of.
    rewrite digit1_dec by (apply head_blanks1; exact nondig_blank). cbn [pbind].
    rewrite space1_app by apply kb_head. cbn [pbind]. rewrite Hm. reflexivity.
  Qed.
End SectionOf.

Lemma cs_line_head y x rest : head_is solid (cs_line_text y x ++ rest).
Proof. destruct x as [[lo hi] len]. reflexivity. Qed.
Lemma bfchar_line_head y x rest : head_is solid (bfchar_line_text y x ++ rest).
Proof. destruct x as [[code len] dst]. reflexivity. Qed.
Lemma bfrange_line_head y x rest : head_is solid (bfrange_line_text y x ++ rest).
Proof. destruct x as [[[lo hi] len] dst]. reflexivity. Qed.
Lemma cs_line_len y x : (0 < length (cs_line_text y x))%nat.
Proof. destruct x as [[lo hi] len]. cbn. lia. Qed.
Lemma bfchar_line_len y x : (0 < length (bfchar_line_text y x))%nat.
Proof. destruct x as [[code len] dst]. cbn. lia. Qed.
Lemma bfrange_line_len y x : (0 < length (bfrange_line_text y x))%nat.
Proof. destruct x as [[[lo hi] len] dst]. cbn. lia. Qed.

Lemma cmap_section_rt y s rest : wf_section s -> head_is solid rest ->
  cmap_section (section_text y s ++ rest) = POk s rest.
Proof.
  intros Hw Hr. unfold cmap_section, alt, pmap. destruct s as [l|l|l]; destruct Hw as [Hn Hw]; cbn [section_text].
  - rewrite (section_of_rt K_begincodespacerange K_endcodespacerange cs_line_text wf_cs_line cs_range_line
               cs_range_line_rt cs_line_head cs_line_len) by (try assumption; intro; reflexivity).
    reflexivity.
  - rewrite (section_of_other K_beginbfchar K_endbfchar bfchar_line_text) by (intro; reflexivity). cbn [pbind].
    rewrite (section_of_rt K_beginbfchar K_endbfchar bfchar_line_text wf_bfchar_line bf_char_line
               bf_char_line_rt bfchar_line_head bfchar_line_len) by (try assumption; intro; reflexivity).
    reflexivity.
  - rewrite (section_of_other K_beginbfrange K_endbfrange bfrange_line_text) by (intro; reflexivity). cbn [pbind].
    rewrite (section_of_other K_beginbfrange K_endbfrange bfrange_line_text) by (intro; reflexivity). cbn [pbind].
    rewrite (section_of_rt K_beginbfrange K_endbfrange bfrange_line_text wf_bfrange_line bf_range_line
               bf_range_line_rt bfrange_line_head bfrange_line_len) by (try assumption; intro; reflexivity).
    reflexivity.
Qed.

Lemma section_text_head y s rest : head_is solid (section_text y s ++ rest).
Proof. destruct s; apply section_frame_head. Qed.
Lemma section_text_len y s : (0 < length (section_text y s))%nat.
Proof. destruct s; apply section_frame_len. Qed.

Lemma sections_rt ys secs rest : wf_sections secs -> head_is solid rest -> cmap_section rest = PErr ->
  cmap_codespace_and_mappings (sections_text ys secs ++ rest) = POk secs rest.
Proof.
  intros [Hn Hw] Hr He. unfold cmap_codespace_and_mappings, sections_text.
  exact (many1_items sec_default section_text wf_section cmap_section cmap_section_rt section_text_head section_text_len
           secs ys rest Hn Hw Hr He).
Qed.

(* ---------- names, strings and the integer of the CIDSystemInfo dictionary ---------- *)
Definition name_char (c : byte) : bool := is_regular c && negb (beq c x23).
Definition name_stop (c : byte) : bool := negb (is_regular c) && negb (beq c x23).

Lemma name_body_rt : forall w fuel r, forallb name_char w = true -> (length w < fuel)%nat -> head_is name_stop r ->
  name_body fuel (w ++ r) = POk tt r.
Proof.
  induction w as [|c w IH]; intros fuel r Hw Hf Hr; (destruct fuel as [|f]; [cbn in Hf; lia|]).
  - cbn [app name_body]. destruct r as [|c r]; [reflexivity|]. cbn [head_is] in Hr. unfold name_stop in Hr.
    apply andb_true_iff in Hr as [H1 H2]. destruct (beq c x23); [discriminate|]. destruct (is_regular c); [discriminate|].
    reflexivity.
  - cbn [forallb] in Hw. apply andb_true_iff in Hw as [H1 H2]. unfold name_char in H1. apply andb_true_iff in H1 as [H3 H4].
    cbn [app name_body]. destruct (beq c x23); [discriminate|]. rewrite H3.
    apply IH; [exact H2|cbn [length] in Hf; lia|exact Hr].
Qed.

Lemma name_rt w r : forallb name_char w = true -> head_is name_stop r -> name (x2f :: w ++ r) = POk tt r.
Proof.
  intros Hw Hr. unfold name. rewrite tag_cons. cbn [pbind].
  apply name_body_rt; [exact Hw|rewrite app_length; lia|exact Hr].
Qed.

Lemma name_stop_ws : ws_closed name_stop. Proof. repeat split. Qed.
Lemma name_stop_blank : blank_closed name_stop. Proof. split; reflexivity. Qed.

Definition str_char (c : byte) : bool := negb (beq c x29 || beq c x28 || beq c x5c).

Lemma plain_string_body_rt w r : forallb str_char w = true -> plain_string_body (w ++ x29 :: r) = POk tt r.
Proof.
  intro H. induction w as [|c w IH]; cbn [app plain_string_body].
  - change (beq x29 x29) with true. reflexivity.
  - cbn [forallb] in H. apply andb_true_iff in H as [H1 H2]. unfold str_char in H1.
    destruct (beq c x29); [discriminate|]. cbn [orb] in H1 |- *.
    destruct (beq c x28 || beq c x5c); [discriminate|]. exact (IH H2).
Qed.

Lemma simple_value_str w r : forallb str_char w = true -> simple_value (x28 :: w ++ x29 :: r) = POk tt (pdf_space r).
Proof.
  intro H. unfold simple_value. change (beq x28 x2f) with false. change (beq x28 x28) with true. cbv iota.
  rewrite plain_string_body_rt by exact H. reflexivity.
Qed.

Lemma digit0_head r : head_is nondig r -> digit0 r = r.
Proof. exact (digit0_app [] r eq_refl). Qed.

Lemma simple_value_zero g t : simple_value (x30 :: wbytes g ++ x3e :: t) = POk tt (x3e :: t).
Proof.
  set (s' := wbytes g ++ x3e :: t).
  assert (Hd : digit0 s' = s') by (apply digit0_head; apply head_wbytes; [repeat split|reflexivity]).
  assert (Hp : pdf_space s' = x3e :: t) by (apply pdf_space_app; reflexivity).
  assert (Hh : head_is (fun c => negb (beq c x2e)) s') by (apply head_wbytes; [repeat split|reflexivity]).
  assert (Hn : s' <> []) by (unfold s'; intro E; apply app_eq_nil in E as [_ E]; discriminate).
  unfold simple_value. change (beq x30 x2f) with false. change (beq x30 x28) with false. change (is_dig x30) with true.
  cbv iota zeta. rewrite Hd.
  replace (length (x30 :: s') - length s')%nat with 1%nat by (cbn [length]; lia).
  change (9 <? 1)%nat with false. cbv iota.
  destruct s' as [|d s0]; [congruence|]. cbn [head_is] in Hh. destruct (beq d x2e); [discriminate|].
  rewrite Hp. reflexivity.
Qed.

Lemma tag_cons2 a b r : tag [a; b] (a :: b :: r) = POk tt r.
Proof. exact (tag_app [a; b] [a; b] r eq_refl). Qed.

Definition W_Registry := Eval cbv in bs "Registry".
Definition W_Ordering := Eval cbv in bs "Ordering".
Definition W_Supplement := Eval cbv in bs "Supplement".
Definition W_Adobe := Eval cbv in bs "Adobe".
Definition W_UCS := Eval cbv in bs "UCS".
Definition W_AdobeIdentityUCS := Eval cbv in bs "Adobe-Identity-UCS".

Lemma dict_entries_step tail f s r r1 r2 :
  name s = POk tt r -> simple_value (pdf_space r) = POk tt r1 -> tail r1 = POk tt r2 ->
  dict_entries tail (S f) s = dict_entries tail f r2.
Proof. intros H1 H2 H3. cbn [dict_entries]. rewrite H1, H2, H3. reflexivity. Qed.

Notation pdf_solid := (fun c => negb (pdf_ws c || beq c x25)).

Lemma cid_dict_rt d1 d2 d3 d4 d5 b d6 rest :
  dictionary ([x3c; x3c] ++ wbytes d1 ++ K_Registry ++ wbytes d2 ++ K_Adobe ++ wbytes d3
                ++ K_Ordering ++ wbytes d4 ++ K_UCS ++ wbytes d5
                ++ K_Supplement ++ wbytes1 b ++ [x30] ++ wbytes d6 ++ [x3e; x3e] ++ rest) = POk tt rest.
Proof.
  unfold dictionary. rewrite tag_app by reflexivity. cbn [pbind].
  rewrite pdf_space_app by reflexivity.
  match goal with |- context [dict_entries _ ?fu _] => remember fu as fuel eqn:Hfuel end.
  assert (Hf : (4 <= fuel)%nat) by (subst fuel; rewrite !app_length; cbn [length]; lia). clear Hfuel.
  destruct fuel as [|[|[|[|f]]]]; try lia. clear Hf.
  set (E3 := K_Supplement ++ wbytes1 b ++ [x30] ++ wbytes d6 ++ [x3e; x3e] ++ rest).
  set (E2 := K_Ordering ++ wbytes d4 ++ K_UCS ++ wbytes d5 ++ E3).
  rewrite (dict_entries_step _ _ _ (wbytes d2 ++ K_Adobe ++ wbytes d3 ++ E2) E2 E2).
  2:{ change (K_Registry ++ ?X) with (x2f :: W_Registry ++ X). apply name_rt; [reflexivity|].
      apply head_wbytes; [exact name_stop_ws|reflexivity]. }
  2:{ rewrite pdf_space_app by reflexivity.
      change (K_Adobe ++ wbytes d3 ++ E2) with (x28 :: W_Adobe ++ x29 :: wbytes d3 ++ E2).
      rewrite simple_value_str by reflexivity. rewrite pdf_space_app by reflexivity. reflexivity. }
  2:{ reflexivity. }
  unfold E2.
  rewrite (dict_entries_step _ _ _ (wbytes d4 ++ K_UCS ++ wbytes d5 ++ E3) E3 E3).
  2:{ change (K_Ordering ++ ?X) with (x2f :: W_Ordering ++ X). apply name_rt; [reflexivity|].
      apply head_wbytes; [exact name_stop_ws|reflexivity]. }
  2:{ rewrite pdf_space_app by reflexivity.
      change (K_UCS ++ wbytes d5 ++ E3) with (x28 :: W_UCS ++ x29 :: wbytes d5 ++ E3).
      rewrite simple_value_str by reflexivity. rewrite pdf_space_app by reflexivity. reflexivity. }
  2:{ reflexivity. }
  unfold E3.
  rewrite (dict_entries_step _ _ _ (wbytes1 b ++ [x30] ++ wbytes d6 ++ [x3e; x3e] ++ rest) (x3e :: x3e :: rest) (x3e :: x3e :: rest)).
  2:{ change (K_Supplement ++ ?X) with (x2f :: W_Supplement ++ X). apply name_rt; [reflexivity|].
      apply head_wbytes1. exact name_stop_ws. }
  2:{ rewrite pdf_space1_app by reflexivity.
      change ([x30] ++ wbytes d6 ++ [x3e; x3e] ++ rest) with (x30 :: wbytes d6 ++ x3e :: x3e :: rest).
      apply simple_value_zero. }
  2:{ reflexivity. }
  cbn [dict_entries]. change (name (x3e :: x3e :: rest)) with (@PErr unit). cbn [pbind].
  apply tag_cons2.
Qed.

(* ---------- the metadata ---------- *)
Lemma cid_system_info_rt d0 d1 d2 d3 d4 d5 b d6 b4 b5 rest : head_is solid rest ->
  cid_system_info (K_CIDSystemInfo ++ wbytes d0 ++ [x3c; x3c] ++ wbytes d1 ++ K_Registry ++ wbytes d2 ++ K_Adobe ++ wbytes d3
                ++ K_Ordering ++ wbytes d4 ++ K_UCS ++ wbytes d5
                ++ K_Supplement ++ wbytes1 b ++ [x30] ++ wbytes d6 ++ [x3e; x3e] ++ wbytes1 b4 ++ K_def ++ wbytes1 b5 ++ rest)
  = POk tt rest.
Proof.
  intro Hr. unfold cid_system_info. rewrite tag_app by reflexivity. cbn [pbind].
  rewrite multispace0_app by reflexivity. unfold alt. rewrite cid_dict_rt. cbn [pbind].
  rewrite multispace1_app by reflexivity. cbn [pbind]. rewrite tag_app by reflexivity. cbn [pbind].
  apply multispace1_app. exact Hr.
Qed.

Lemma cmap_name_rt ga gb b rest : head_is solid rest ->
  cmap_name (K_CMapName ++ blanks ga ++ K_AdobeIdentityUCS ++ blanks1 gb ++ K_def ++ wbytes1 b ++ rest) = POk tt rest.
Proof.
  intro Hr. unfold cmap_name. rewrite tag_app by reflexivity. cbn [pbind].
  rewrite space0_app by reflexivity.
  change (K_AdobeIdentityUCS ++ ?X) with (x2f :: W_AdobeIdentityUCS ++ X).
  rewrite name_rt by (try reflexivity; apply head_blanks1; exact name_stop_blank). cbn [pbind].
  rewrite space1_app by reflexivity. cbn [pbind]. rewrite tag_app by reflexivity. cbn [pbind].
  apply multispace1_app. exact Hr.
Qed.

Lemma cmap_type_rt ga gb b rest : head_is solid rest ->
  cmap_type (K_CMapType ++ blanks1 ga ++ [x32] ++ blanks1 gb ++ K_def ++ wbytes1 b ++ rest) = POk tt rest.
Proof.
  intro Hr. unfold cmap_type. rewrite tag_app by reflexivity. cbn [pbind].
  rewrite space1_app by reflexivity. cbn [pbind].
  rewrite digit1_app by (try reflexivity; try discriminate; apply head_blanks1; exact nondig_blank). cbn [pbind].
  rewrite space1_app by reflexivity. cbn [pbind]. rewrite tag_app by reflexivity. cbn [pbind].
  apply multispace1_app. exact Hr.
Qed.

Lemma slash_not_dig c : is_dig c = true -> byte_eqb x2f c = false.
Proof.
  intro H. pose proof (byte_forallb_spec (fun c => negb (is_dig c) || negb (byte_eqb x2f c)) ltac:(vm_compute; reflexivity) c) as E.
  cbv beta in E. rewrite H in E. cbn [negb orb] in E. destruct (byte_eqb x2f c); [discriminate|reflexivity].
Qed.

Lemma tag_slash_dec t n r : tag (x2f :: t) (dec n ++ r) = PErr.
Proof.
  destruct (dec_dig n) as [H1 H2]. destruct (dec n) as [|c ds]; [congruence|].
  cbn [forallb] in H1. apply andb_true_iff in H1 as [H1 _].
  unfold tag. cbn [app strip]. rewrite (slash_not_dig c H1). reflexivity.
Qed.

Lemma metadata_item_dec n r : metadata_item (dec n ++ r) = PErr.
Proof.
  unfold metadata_item, alt, cid_system_info, cmap_name, cmap_type.
  unfold T_CIDSystemInfo, T_CMapName, T_CMapType. rewrite !tag_slash_dec. reflexivity.
Qed.

Lemma cmap_metadata_rt d0 d1 d2 d3 d4 d5 b d6 b4 b5 ga gb b6 gc gd b7 rest :
  head_is solid rest -> metadata_item rest = PErr ->
  cmap_metadata (K_CIDSystemInfo ++ wbytes d0 ++ [x3c; x3c] ++ wbytes d1 ++ K_Registry ++ wbytes d2 ++ K_Adobe ++ wbytes d3
                ++ K_Ordering ++ wbytes d4 ++ K_UCS ++ wbytes d5
                ++ K_Supplement ++ wbytes1 b ++ [x30] ++ wbytes d6 ++ [x3e; x3e] ++ wbytes1 b4 ++ K_def ++ wbytes1 b5
                ++ K_CMapName ++ blanks ga ++ K_AdobeIdentityUCS ++ blanks1 gb ++ K_def ++ wbytes1 b6
                ++ K_CMapType ++ blanks1 gc ++ [x32] ++ blanks1 gd ++ K_def ++ wbytes1 b7 ++ rest)
  = POk tt rest.
Proof.
  intros Hr He. unfold cmap_metadata.
  unfold metadata_item at 1. unfold alt. rewrite cid_system_info_rt by reflexivity. cbn [pbind].
  change (N.to_nat CMAP_META_MAX - 1)%nat with 3%nat. cbn [metadata_upto].
  unfold metadata_item at 1. unfold alt.
  change (cid_system_info (K_CMapName ++ ?X)) with (@PErr unit). cbv iota.
  rewrite cmap_name_rt by reflexivity.
  unfold metadata_item at 1. unfold alt.
  change (cid_system_info (K_CMapType ++ ?X)) with (@PErr unit). cbv iota.
  change (cmap_name (K_CMapType ++ ?X)) with (@PErr unit). cbv iota.
  rewrite cmap_type_rt by exact Hr.
  rewrite He. reflexivity.
Qed.

(* ---------- the frame ---------- *)
Lemma cidinit_procset_rt pre ga gb gc b rest : head_is solid rest ->
  cidinit_procset (wbytes pre ++ K_CIDInit ++ blanks ga ++ K_ProcSet ++ blanks1 gb ++ K_findresource
                     ++ blanks1 gc ++ K_begin ++ wbytes1 b ++ rest) = POk tt rest.
Proof.
  intro Hr. unfold cidinit_procset. rewrite multispace0_app by reflexivity.
  rewrite tag_app by reflexivity. cbn [pbind].
  rewrite space0_app by reflexivity. unfold alt. rewrite tag_app by reflexivity. cbn [pbind].
  rewrite space1_app by reflexivity. cbn [pbind]. rewrite tag_app by reflexivity. cbn [pbind].
  rewrite space1_app by reflexivity. cbn [pbind]. rewrite tag_app by reflexivity. cbn [pbind].
  apply multispace1_app. exact Hr.
Qed.

Lemma cmap_end_rt b8 ga gb gc gd b9 rest : head_is solid rest ->
  cmap_end (K_endcmap ++ wbytes1 b8 ++ K_CMapNameBare ++ blanks1 ga ++ K_currentdict ++ blanks1 gb ++ K_CMap
              ++ blanks1 gc ++ K_defineresource ++ blanks1 gd ++ K_pop ++ wbytes1 b9 ++ rest) = POk tt rest.
Proof.
  intro Hr. unfold cmap_end. rewrite tag_app by reflexivity. cbn [pbind].
  rewrite multispace1_app by reflexivity. cbn [pbind]. rewrite tag_app by reflexivity. cbn [pbind].
  rewrite space1_app by reflexivity. cbn [pbind]. rewrite tag_app by reflexivity. cbn [pbind].
  rewrite space1_app by reflexivity. cbn [pbind]. rewrite tag_app by reflexivity. cbn [pbind].
  rewrite space1_app by reflexivity. cbn [pbind]. rewrite tag_app by reflexivity. cbn [pbind].
  rewrite space1_app by reflexivity. cbn [pbind]. rewrite tag_app by reflexivity. cbn [pbind].
  apply multispace1_app. exact Hr.
Qed.

Lemma head_sections ys secs rest : secs <> [] -> head_is solid (sections_text ys secs ++ rest).
Proof.
  intro Hn. destruct secs as [|s secs]; [congruence|]. unfold sections_text. cbn [items_text].
  rewrite <- app_assoc. apply section_text_head.
Qed.

Lemma metadata_item_sections ys secs rest : secs <> [] -> metadata_item (sections_text ys secs ++ rest) = PErr.
Proof.
  intro Hn. destruct secs as [|s secs]; [congruence|]. unfold sections_text. cbn [items_text].
  rewrite <- app_assoc. destruct s; cbn [section_text]; unfold section_frame; rewrite <- !app_assoc; apply metadata_item_dec.
Qed.

(* ---------- the file ---------- *)
Theorem cmap_stream_render y secs : wf_sections secs -> cmap_stream (render y secs) = POk secs [].
Proof.
  intro Hw. pose proof Hw as [Hn _].
  unfold render, header_text, trailer_text, g0, g1, br, bs1, dw. rewrite <- !app_assoc.
  unfold cmap_stream.
  rewrite cidinit_procset_rt by (apply head_dec; exact solid_of_dig). cbn [pbind].
  unfold cmap_resource_dictionary.
  rewrite digit1_dec by (apply head_blanks1; exact nondig_blank). cbn [pbind].
  rewrite space1_app by reflexivity. cbn [pbind]. rewrite tag_app by reflexivity. cbn [pbind].
  rewrite space1_app by reflexivity. cbn [pbind]. rewrite tag_app by reflexivity. cbn [pbind].
  rewrite multispace1_app by reflexivity. cbn [pbind].
  unfold cmap_data. rewrite tag_app by reflexivity. cbn [pbind].
  rewrite multispace1_app by reflexivity. cbn [pbind].
  rewrite cmap_metadata_rt by (first [apply head_sections | apply metadata_item_sections]; exact Hn). cbn [pbind].
  rewrite sections_rt by (first [exact Hw | reflexivity]). cbn [pbind].
  rewrite cmap_end_rt by reflexivity. cbn [pbind].
  rewrite tag_app by reflexivity. cbn [pbind].
  rewrite multispace1_app by reflexivity. cbn [pbind].
  rewrite tag_app by reflexivity. cbn [pbind].
  rewrite <- (app_nil_r (wbytes (y_post y))). rewrite multispace0_app by exact I. reflexivity.
Qed.

(* ToUnicodeCMap::parse on a rendered CMap is from_sections on the rendered sections *)
Theorem cmap_parse_render y secs : wf_sections secs ->
  cmap_parse (render y secs) =
  match from_sections secs with FsOk cm => ParseOk cm | FsInvalidCodeRange => ParseErrRange end.
Proof. intro Hw. unfold cmap_parse. rewrite cmap_stream_render by exact Hw. reflexivity. Qed.
