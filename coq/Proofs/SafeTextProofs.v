(* SafeTextProofs.v -- C04 theorems for decode_text_string, the one-byte tables and the ToUnicode CMap. *)
From LV Require Import Base.Bytes Model.Utf Model.Obj Model.OneByte Model.TextString Model.RangeMap Model.CMap
     Gen.Tables Gen.CMapC Model.Safe Model.SafeText Proofs.SafeLemmas Proofs.TextProofsUtf.
Local Open Scope N_scope.

Ltac csimp := cbn [steps max_alloc max_depth outcome fail ret tick request panic out_of_fuel fst snd c_steps c_alloc c_depth c0] in *.
Ltac inv_ret H := unfold outcome, ret in H; cbn in H; injection H as H; subst.

(* ---------------- one-byte tables ---------------- *)

Definition table_ok (t : table) : Prop :=
  length t = 256%nat /\ Forall (fun c => match c with Some u => is_surrogate u = false | None => True end) t.

Definition table_okb (t : table) : bool :=
  Nat.eqb (length t) 256 && forallb (fun c => match c with Some u => negb (is_surrogate u) | None => true end) t.

Lemma table_okb_spec t : table_okb t = true -> table_ok t.
Proof.
  unfold table_okb, table_ok. intros H. apply andb_prop in H. destruct H as [Hl Hf].
  split; [apply Nat.eqb_eq; exact Hl|].
  rewrite forallb_forall in Hf. apply Forall_forall. intros c Hc. specialize (Hf c Hc).
  destruct c; [|exact I]. destruct (is_surrogate n); [discriminate|reflexivity].
Qed.

(* the finite obligations: every table lopdf ships has 256 cells and no surrogate code unit *)
Lemma text_string_table_ok : table_ok TEXT_STRING_ENCODING.
Proof. apply table_okb_spec. vm_compute. reflexivity. Qed.
Lemma font_tables_ok : Forall (fun e => table_ok (snd e)) FONT_ENCODINGS.
Proof.
  apply Forall_forall. intros e He.
  assert (H : forallb (fun e => table_okb (snd e)) FONT_ENCODINGS = true) by (vm_compute; reflexivity).
  rewrite forallb_forall in H. apply table_okb_spec. apply H. exact He.
Qed.
Lemma fallback_table_ok : table_ok FALLBACK_ENCODING.
Proof. apply table_okb_spec. vm_compute. reflexivity. Qed.

Lemma stable_cell_spec t b : length t = 256%nat -> stable_cell t b = ret (cell t b).
Proof.
  intros Hl. unfold stable_cell, idx, cell.
  pose proof (N_of_byte_lt b) as Hb.
  destruct (nth_error t (N.to_nat (N_of_byte b))) eqn:E.
  - rewrite (nth_error_nth _ _ None E). reflexivity.
  - apply nth_error_None in E. lia.
Qed.

Lemma cell_ok t b : table_ok t -> match cell t b with Some u => is_surrogate u = false | None => True end.
Proof.
  intros [Hl Hf]. unfold cell. rewrite Forall_forall in Hf.
  destruct (nth_in_or_default (N.to_nat (N_of_byte b)) t None) as [Hin | ->]; [apply Hf; exact Hin | exact I].
Qed.

Lemma sbytes_to_units_spec t bs : length t = 256%nat ->
  outcome (sbytes_to_units t bs) = SOk (bytes_to_units t bs)
  /\ steps (sbytes_to_units t bs) = 0 /\ max_alloc (sbytes_to_units t bs) = 0 /\ max_depth (sbytes_to_units t bs) = 0.
Proof.
  intros Hl. induction bs as [|b bs IH]; [repeat split|].
  cbn [sbytes_to_units]. rewrite (stable_cell_spec t b Hl).
  destruct IH as [Ho [Hs [Ha Hd]]].
  repeat split.
  - rewrite outcome_bind. cbn [outcome ret fst]. rewrite outcome_bind, Ho. cbn [outcome ret fst].
    unfold bytes_to_units. cbn [filter_map]. destruct (cell t b); reflexivity.
  - rewrite steps_bind. cbn [outcome ret fst]. rewrite steps_bind, Ho, Hs. csimp. lia.
  - rewrite alloc_bind. cbn [outcome ret fst]. rewrite alloc_bind, Ho, Ha. csimp. lia.
  - rewrite depth_bind. cbn [outcome ret fst]. rewrite depth_bind, Ho, Hd. csimp. lia.
Qed.

Lemma units_no_surrogate t bs : table_ok t -> Forall (fun u => is_surrogate u = false) (bytes_to_units t bs).
Proof.
  intros Ht. induction bs as [|b bs IH]; [constructor|].
  unfold bytes_to_units in *. cbn [filter_map]. pose proof (cell_ok t b Ht) as Hc.
  destruct (cell t b); [constructor; assumption|assumption].
Qed.

Lemma units_len t bs : nlen (bytes_to_units t bs) <= blen bs.
Proof.
  unfold nlen, blen, bytes_to_units. induction bs as [|b bs IH]; [cbn; lia|].
  cbn [filter_map length]. destruct (cell t b); cbn [length]; lia.
Qed.

Theorem sbytes_to_string_no_panic : forall t bs, table_ok t -> no_panic (sbytes_to_string t bs).
Proof.
  intros t bs Ht. unfold sbytes_to_string.
  apply no_panic_bind; [apply no_panic_tick|]. intros _ _.
  destruct (sbytes_to_units_spec t bs (proj1 Ht)) as [Ho _].
  apply no_panic_bind. { unfold no_panic. rewrite Ho. reflexivity. }
  intros us Hus. rewrite Ho in Hus. injection Hus as <-.
  apply no_panic_bind; [apply no_panic_request|]. intros _ _.
  rewrite (utf16_decode_bmp _ (units_no_surrogate t bs Ht)).
  apply no_panic_bind; [apply no_panic_ret|]. intros s _.
  apply no_panic_bind; [apply no_panic_request|]. intros _ _. apply no_panic_ret.
Qed.

Theorem sbytes_to_string_cost : forall t bs, table_ok t ->
  steps (sbytes_to_string t bs) <= blen bs /\ max_alloc (sbytes_to_string t bs) <= 3 * blen bs
  /\ max_depth (sbytes_to_string t bs) = 0.
Proof.
  intros t bs Ht. unfold sbytes_to_string.
  destruct (sbytes_to_units_spec t bs (proj1 Ht)) as [Ho [Hs [Ha Hd]]].
  pose proof (units_len t bs) as Hl.
  rewrite steps_bind, alloc_bind, depth_bind. csimp.
  rewrite steps_bind, alloc_bind, depth_bind. rewrite Ho, Hs, Ha, Hd.
  rewrite steps_bind, alloc_bind, depth_bind. csimp.
  rewrite (utf16_decode_bmp _ (units_no_surrogate t bs Ht)). cbn [unwrap].
  rewrite steps_bind, alloc_bind, depth_bind. csimp.
  rewrite steps_bind, alloc_bind, depth_bind. csimp.
  repeat split; lia.
Qed.

(* ---------------- decode_text_string ---------------- *)

Lemma prefixb_len p s : prefixb p s = true -> (length p <= length s)%nat.
Proof. intros H. apply prefixb_spec in H. destruct H as [r ->]. rewrite app_length. lia. Qed.

Theorem stext_string_no_panic : forall s, no_panic (stext_string s).
Proof.
  intros s. unfold stext_string.
  destruct (prefixb DEC_MARK_UTF16 s) eqn:E16.
  { apply prefixb_len in E16. change (length DEC_MARK_UTF16) with 2%nat in E16.
    rewrite slice_from_ok by (change DEC_SKIP_UTF16 with 2%nat; lia).
    apply no_panic_bind; [apply no_panic_ret|]. intros r _.
    apply no_panic_bind; [apply no_panic_tick|]. intros _ _.
    apply no_panic_bind; [apply no_panic_request|]. intros _ _.
    destruct (utf16_decode _); [|apply no_panic_fail].
    apply no_panic_bind; [apply no_panic_request|]. intros _ _. apply no_panic_ret. }
  destruct (prefixb DEC_MARK_UTF8 s) eqn:E8.
  { apply prefixb_len in E8. change (length DEC_MARK_UTF8) with 3%nat in E8.
    rewrite slice_from_ok by (change DEC_SKIP_UTF8 with 3%nat; lia).
    apply no_panic_bind; [apply no_panic_ret|]. intros r _.
    apply no_panic_bind; [apply no_panic_tick|]. intros _ _.
    apply no_panic_bind; [apply no_panic_request|]. intros _ _.
    destruct (utf8_decode _); [apply no_panic_ret|apply no_panic_fail]. }
  apply sbytes_to_string_no_panic. apply text_string_table_ok.
Qed.

Theorem stext_string_cost : forall s,
  steps (stext_string s) <= blen s /\ max_alloc (stext_string s) <= 3 * blen s + 1 /\ max_depth (stext_string s) = 0.
Proof.
  intros s. unfold stext_string.
  destruct (prefixb DEC_MARK_UTF16 s) eqn:E16.
  { apply prefixb_len in E16. change (length DEC_MARK_UTF16) with 2%nat in E16.
    rewrite slice_from_ok by (change DEC_SKIP_UTF16 with 2%nat; lia).
    assert (Hr : blen (skipn (N.to_nat (N.of_nat DEC_SKIP_UTF16)) s) <= blen s) by (unfold blen; rewrite skipn_length; lia).
    set (r := skipn _ s) in *.
    rewrite steps_bind, alloc_bind, depth_bind. csimp.
    rewrite steps_bind, alloc_bind, depth_bind. csimp.
    rewrite steps_bind, alloc_bind, depth_bind. csimp.
    destruct (utf16_decode _); csimp; [|repeat split; lia].
    rewrite steps_bind, alloc_bind, depth_bind. csimp. repeat split; lia. }
  destruct (prefixb DEC_MARK_UTF8 s) eqn:E8.
  { apply prefixb_len in E8. change (length DEC_MARK_UTF8) with 3%nat in E8.
    rewrite slice_from_ok by (change DEC_SKIP_UTF8 with 3%nat; lia).
    assert (Hr : blen (skipn (N.to_nat (N.of_nat DEC_SKIP_UTF8)) s) <= blen s) by (unfold blen; rewrite skipn_length; lia).
    set (r := skipn _ s) in *.
    rewrite steps_bind, alloc_bind, depth_bind. csimp.
    rewrite steps_bind, alloc_bind, depth_bind. csimp.
    rewrite steps_bind, alloc_bind, depth_bind. csimp.
    destruct (utf8_decode _); csimp; repeat split; lia. }
  destruct (sbytes_to_string_cost TEXT_STRING_ENCODING s text_string_table_ok) as [H1 [H2 H3]].
  repeat split; try assumption; lia.
Qed.

(* the pinned decode_text_string had no additional site; what the `expect` would do on a table with a surrogate: *)
Theorem sbytes_to_string_needs_table :
  exists t bs, length t = 256%nat /\ outcome (sbytes_to_string t bs) = SPanic RUnwrap.
Proof.
  exists (Some 55296 :: repeat None 255), [x00]. split; vm_compute; reflexivity.
Qed.

(* ---------------- ToUnicode CMap: get ---------------- *)

Lemma bad_len_cases len : bad_len len = false -> len = 1 \/ len = 2 \/ len = 3 \/ len = 4.
Proof.
  unfold bad_len. intros H. apply orb_false_elim in H. destruct H as [H1 H2].
  apply N.ltb_ge in H1. apply N.eqb_neq in H2. lia.
Qed.

Lemma ssel_spec cm len : bad_len len = false -> ssel cm len = ret (sel cm len).
Proof.
  intros H. destruct (bad_len_cases len H) as [ -> | [ -> | [ -> | -> ] ] ]; reflexivity.
Qed.

Lemma sel_ok cm len : cmap_ok cm -> rmap_ok (sel cm len).
Proof.
  intros [H1 [H2 [H3 H4]]]. unfold sel.
  destruct len as [|[[p|p|]|[p|p|]|]]; assumption.
Qed.

Lemma sel_width w cm len : cmap_width w cm -> rmap_width w (sel cm len).
Proof.
  intros [H1 [H2 [H3 H4]]]. unfold sel.
  destruct len as [|[[p|p|]|[p|p|]|]]; assumption.
Qed.

Lemma rm_value_in (m : rmap (V:=stored)) k st :
  rm_value m k = Some st -> exists lo hi, In (lo, hi, st) m /\ lo <= k <= hi.
Proof.
  induction m as [|[[lo hi] v] m IH]; [discriminate|].
  cbn [rm_value]. destruct ((lo <=? k) && (k <=? hi))%bool eqn:E.
  - intros H. injection H as <-. apply andb_prop in E. destruct E as [E1 E2].
    apply N.leb_le in E1. apply N.leb_le in E2. exists lo, hi. split; [left; reflexivity|lia].
  - intros H. destruct (IH H) as [lo' [hi' [Hin Hr]]]. exists lo', hi'. split; [right; exact Hin|exact Hr].
Qed.

(* the Safe get computes exactly Model/CMap.v's get, and never reaches a panic site *)
Theorem sget_spec : forall cm code len, cmap_ok cm -> outcome (sget cm code len) = SOk (get cm code len).
Proof.
  intros cm code len Hok. unfold sget, get.
  destruct (bad_len len) eqn:Eb; [reflexivity|].
  rewrite (ssel_spec cm len Eb).
  rewrite outcome_bind. cbn [outcome ret fst].
  destruct (rm_value (sel cm len) code) as [st|] eqn:Ev; [|reflexivity].
  destruct (rm_value_in _ _ _ Ev) as [lo [hi [Hin Hr]]].
  pose proof (sel_ok cm len Hok) as Hm. unfold rmap_ok in Hm. rewrite Forall_forall in Hm.
  specialize (Hm _ Hin). unfold entry_ok in Hm. cbn [fst snd] in Hm.
  assert (Hfc : first_code st <= code) by lia.
  destruct (tgt st) as [v|o|vs].
  - rewrite outcome_bind. cbn [outcome request fst]. unfold add_last.
    destruct (rev v) as [|l r]; [reflexivity|].
    rewrite (ck_sub_ok _ _ Hfc). rewrite outcome_bind. reflexivity.
  - rewrite outcome_bind. reflexivity.
  - rewrite (ck_sub_ok _ _ Hfc). rewrite outcome_bind. cbn [outcome ret fst].
    destruct (nth_N vs _); [rewrite outcome_bind|]; reflexivity.
Qed.

Theorem sget_no_panic : forall cm code len, cmap_ok cm -> no_panic (sget cm code len).
Proof. intros. unfold no_panic. rewrite sget_spec by assumption. reflexivity. Qed.

(* without the invariant the subtraction is a real site: a stored definition that starts after the code *)
Theorem sget_site_is_real :
  exists cm code len, outcome (sget cm code len) = SPanic ROverflow.
Proof.
  exists (mkMaps [(0, 255, mkStored 7 (HexString [65]))] [] [] []), 3, 1. vm_compute. reflexivity.
Qed.

(* from_sections only ever stores first_code = 0 or the start of the inserted range *)
Lemma upd_ok cm len m : cmap_ok cm -> rmap_ok m -> cmap_ok (upd cm len m).
Proof.
  intros [H1 [H2 [H3 H4]]] Hm. unfold upd, cmap_ok.
  destruct len as [|[[p|p|]|[p|p|]|]]; cbn [m1 m2 m3 m4]; repeat split; assumption.
Qed.

Lemma put_ok cm lo hi len t : cmap_ok cm -> cmap_ok (put cm lo hi len t).
Proof.
  intros Hok. unfold put. destruct (bad_len len); [exact Hok|].
  apply upd_ok; [exact Hok|]. unfold rm_insert. constructor; [|apply sel_ok; exact Hok].
  unfold entry_ok. cbn [fst snd first_code]. destruct t; lia.
Qed.

Lemma put_chars_ok l : forall cm, cmap_ok cm -> cmap_ok (put_chars cm l).
Proof.
  induction l as [|[[code len] dst] l IH]; intros cm Hok; [exact Hok|].
  cbn [put_chars]. apply IH. unfold put_char. apply put_ok. exact Hok.
Qed.

Lemma put_ranges_ok l : forall cm cm', cmap_ok cm -> put_ranges cm l = FsOk cm' -> cmap_ok cm'.
Proof.
  induction l as [|[[[s e] len] dst] l IH]; intros cm cm' Hok H.
  - cbn in H. injection H as <-. exact Hok.
  - cbn [put_ranges] in H. destruct (e <? s); [discriminate|].
    destruct (range_target s dst); [|discriminate].
    eapply IH; [|exact H]. apply put_ok. exact Hok.
Qed.

Lemma from_sections_aux_ok secs : forall cm cm', cmap_ok cm -> from_sections_aux cm secs = FsOk cm' -> cmap_ok cm'.
Proof.
  induction secs as [|sec secs IH]; intros cm cm' Hok H.
  - cbn in H. injection H as <-. exact Hok.
  - cbn [from_sections_aux] in H. destruct sec as [l|l|l].
    + eapply IH; eassumption.
    + eapply IH; [|exact H]. apply put_chars_ok. exact Hok.
    + destruct (put_ranges cm l) eqn:E; [|discriminate].
      eapply IH; [|exact H]. eapply put_ranges_ok; eassumption.
Qed.

Theorem from_sections_ok : forall secs cm, from_sections secs = FsOk cm -> cmap_ok cm.
Proof.
  intros secs cm H. eapply from_sections_aux_ok; [|exact H].
  unfold maps_new, cmap_ok, rmap_ok. cbn. repeat split; constructor.
Qed.

(* ---------------- ToUnicode CMap: text decoding ---------------- *)

Lemma sgorc_np cm code len : cmap_ok cm -> no_panic (sgorc cm code len).
Proof.
  intros Hok. unfold sgorc. apply no_panic_bind; [apply sget_no_panic; exact Hok|].
  intros g _. destruct g; [apply no_panic_ret|].
  apply no_panic_bind; [apply no_panic_request|]. intros _ _. apply no_panic_ret.
Qed.

Lemma pow256_le n : n <= 3 -> 256 ^ n <= 16777216.
Proof. intros H. change 16777216 with (256 ^ 3). apply N.pow_le_mono_r; lia. Qed.

Lemma sunits_loop_np cm bs : cmap_ok cm -> forall n code outlen,
  n <= 4 -> code < 256 ^ n -> no_panic (sunits_loop cm bs n code outlen).
Proof.
  intros Hok. induction bs as [|b bs IH]; intros n code outlen Hn Hc.
  - cbn [sunits_loop]. destruct (0 <? n); [|apply no_panic_ret].
    apply no_panic_bind; [apply sgorc_np; exact Hok|]. intros v _.
    apply no_panic_bind; [apply no_panic_request|]. intros _ _. apply no_panic_ret.
  - cbn [sunits_loop].
    apply no_panic_bind; [apply no_panic_tick|]. intros _ _.
    pose proof (N_of_byte_lt b) as Hb.
    (* the state after the flush: n0 <= 3 and c0 < 256 ^ n0 *)
    assert (Hst : forall st, outcome (if n =? 4
                                      then v <- sgorc cm code 4;; request (2 * (outlen + nlen v));;; ret (0, 0, outlen + nlen v)
                                      else ret (n, code, outlen)) = SOk st ->
                             fst (fst st) <= 3 /\ snd (fst st) < 256 ^ fst (fst st)).
    { intros st Hs. destruct (n =? 4) eqn:E4.
      - rewrite outcome_bind in Hs. destruct (outcome (sgorc cm code 4)); try discriminate.
        rewrite outcome_bind in Hs. cbn [outcome request fst] in Hs. inv_ret Hs. cbn. split; lia.
      - inv_ret Hs. cbn [fst snd]. apply N.eqb_neq in E4. split; [lia|exact Hc]. }
    apply no_panic_bind.
    { destruct (n =? 4); [|apply no_panic_ret].
      apply no_panic_bind; [apply sgorc_np; exact Hok|]. intros v _.
      apply no_panic_bind; [apply no_panic_request|]. intros _ _. apply no_panic_ret. }
    intros [[n0 c0'] o0] Hs. specialize (Hst _ Hs). cbn [fst snd] in Hst. destruct Hst as [Hn0 Hc0].
    pose proof (pow256_le n0 Hn0) as Hp.
    rewrite ck_add_ok by lia.
    apply no_panic_bind; [apply no_panic_ret|]. intros n1 Hn1. inv_ret Hn1.
    rewrite ck_mul_ok by (unfold U32_MAX; lia).
    apply no_panic_bind; [apply no_panic_ret|]. intros c256 H256. inv_ret H256.
    rewrite ck_add_ok by (unfold U32_MAX; lia).
    apply no_panic_bind; [apply no_panic_ret|]. intros c1 Hc1. inv_ret Hc1.
    apply no_panic_bind; [apply sget_no_panic; exact Hok|]. intros g _.
    destruct g as [v|].
    + apply no_panic_bind; [apply no_panic_request|]. intros _ _. apply IH; [lia|cbn; lia].
    + apply IH; [lia|]. rewrite N.add_1_r, N.pow_succ_r'. lia.
Qed.

Theorem scmap_text_no_panic : forall cm bs, cmap_ok cm -> no_panic (scmap_text cm bs).
Proof.
  intros cm bs Hok. unfold scmap_text.
  apply no_panic_bind; [apply sunits_loop_np; [exact Hok|lia|cbn; lia]|]. intros u _.
  apply no_panic_bind; [apply no_panic_request|]. intros _ _.
  apply no_panic_bind; [apply no_panic_request|]. intros _ _. apply no_panic_ret.
Qed.

(* the CMap decoder as a whole: parse result -> from_sections -> text.  Whatever the sections are. *)
Theorem cmap_decode_no_panic : forall secs cm bs, from_sections secs = FsOk cm -> no_panic (scmap_text cm bs).
Proof. intros. apply scmap_text_no_panic. eapply from_sections_ok; eassumption. Qed.
