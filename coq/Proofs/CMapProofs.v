(* CMapProofs.v -- get_eq_spec: the repaired ToUnicodeCMap model returns what the CMap defines. *)
From LV Require Import Base.Bytes Model.RangeMap Model.CMap Spec.CMapSpec Gen.CMapC.

Local Open Scope N_scope.

(* ---------- arithmetic ---------- *)

Lemma two32_split : two32 = two16 * two16.
Proof. reflexivity. Qed.

Lemma mod32_mod16 a : (a mod two32) mod two16 = a mod two16.
Proof.
  rewrite two32_split. rewrite N.mod_mul_r by (unfold two16; lia).
  rewrite (N.mul_comm two16), N.mod_add by (unfold two16; lia).
  apply N.mod_mod. unfold two16; lia.
Qed.

Lemma offset_trick d start code :
  start <= code -> start <= two32 ->
  as_u16 (wrapping_add32 code (wrapping_sub32 d start)) = (d + (code - start)) mod 65536.
Proof.
  intros H1 H2. unfold as_u16, wrapping_add32, wrapping_sub32.
  rewrite mod32_mod16.
  rewrite <- N.add_mod_idemp_r by (unfold two16; lia).
  rewrite mod32_mod16.
  rewrite N.add_mod_idemp_r by (unfold two16; lia).
  replace (code + (d + two32 - start)) with ((d + (code - start)) + two16 * two16) by (rewrite <- two32_split; lia).
  rewrite N.mod_add by (unfold two16; lia). reflexivity.
Qed.

(* ---------- lists ---------- *)

Lemma nth_N_nth_error {A} (l : list A) i : nth_N l i = nth_error l (N.to_nat i).
Proof.
  revert i; induction l as [|x l IH]; intro i; cbn [nth_N].
  - destruct (N.to_nat i); reflexivity.
  - destruct (N.eqb_spec i 0) as [->|Hne]; [reflexivity|].
    rewrite IH. replace (N.to_nat i) with (S (N.to_nat (i - 1))) by lia. reflexivity.
Qed.

Lemma add_last_bump v off :
  add_last v off (fun l d => (l + as_u16 d) mod two16) = bump_last v off.
Proof.
  destruct v as [|x v] using rev_ind; [reflexivity|].
  unfold add_last, bump_last. rewrite rev_app_distr. cbn [rev app].
  rewrite rev_involutive.
  destruct (v ++ [x]) eqn:E; [destruct v; discriminate|]. rewrite <- E.
  rewrite removelast_last, last_last.
  unfold as_u16. rewrite N.add_mod_idemp_r by (unfold two16; lia). reflexivity.
Qed.

(* ---------- the four maps ---------- *)

Lemma valid_cases len : bad_len len = false -> len = 1 \/ len = 2 \/ len = 3 \/ len = 4.
Proof.
  unfold bad_len. intro H. apply orb_false_iff in H as [H1 H2].
  apply N.ltb_ge in H1. apply N.eqb_neq in H2. lia.
Qed.

Lemma sel_upd_same {V} (cm : maps V) l m : bad_len l = false -> sel (upd cm l m) l = m.
Proof. intro H. destruct (valid_cases _ H) as [->|[->|[->| ->]]]; reflexivity. Qed.

Lemma sel_upd_other {V} (cm : maps V) l l' m :
  bad_len l = false -> bad_len l' = false -> l <> l' -> sel (upd cm l m) l' = sel cm l'.
Proof.
  intros H H' Hne.
  destruct (valid_cases _ H) as [->|[->|[->| ->]]]; destruct (valid_cases _ H') as [->|[->|[->| ->]]];
    try reflexivity; congruence.
Qed.

(* ---------- get after put ---------- *)

Definition eval_stored (st : stored) (code : N) : option (list N) :=
  let off := code - first_code st in
  match tgt st with
  | HexString v => Some (add_last v off (fun l d => (l + as_u16 d) mod two16))
  | UTF16CodePoint o => Some [as_u16 (wrapping_add32 code o)]
  | ArrayOfHexStrings vs => nth_N vs off
  end.

Lemma get_unfold cm code len :
  get cm code len =
  if bad_len len then None
  else match rm_value (sel cm len) code with None => None | Some st => eval_stored st code end.
Proof. reflexivity. Qed.

Definition first_code_for (t : target) (lo : N) : N :=
  match t with UTF16CodePoint _ => 0 | _ => lo end.

Lemma get_put cm lo hi len t code len' :
  get (put cm lo hi len t) code len' =
  if negb (bad_len len) && (len =? len') && (lo <=? code) && (code <=? hi)
  then eval_stored (mkStored (first_code_for t lo) t) code
  else get cm code len'.
Proof.
  unfold put. destruct (bad_len len) eqn:Hb; [reflexivity|]. cbn [negb andb].
  rewrite !get_unfold. destruct (bad_len len') eqn:Hb'.
  - destruct (N.eqb_spec len len') as [->|]; [congruence|reflexivity].
  - destruct (N.eqb_spec len len') as [<-|Hne].
    + rewrite sel_upd_same by exact Hb. unfold rm_insert. cbn [rm_value andb].
      destruct ((lo <=? code) && (code <=? hi)) eqn:E; [|reflexivity].
      unfold first_code_for. destruct t; reflexivity.
    + rewrite sel_upd_other by assumption. reflexivity.
Qed.

(* ---------- spec side ---------- *)

Lemma last_covering_snoc ds d len code :
  last_covering (ds ++ [d]) len code =
  if covers d len code then Some d else last_covering ds len code.
Proof.
  induction ds as [|x ds IH]; cbn [app last_covering].
  - destruct (covers d len code); reflexivity.
  - rewrite IH. destruct (covers d len code); reflexivity.
Qed.

Lemma last_covering_nil_defs len code : last_covering [] len code = None.
Proof. reflexivity. Qed.

Lemma cond_covers d len lo hi len' code :
  d_len d = len -> d_lo d = lo -> d_hi d = hi ->
  negb (bad_len len) && (len =? len') && (lo <=? code) && (code <=? hi) = covers d len' code.
Proof.
  intros <- <- <-. unfold covers, bad_len.
  destruct (N.eqb_spec (d_len d) len') as [->|Hne]; cbn [andb]; [|rewrite andb_false_r; reflexivity].
  destruct (N.ltb_spec 4 len'), (N.eqb_spec len' 0), (N.leb_spec 1 len'), (N.leb_spec len' 4);
    cbn [negb orb andb]; try reflexivity; lia.
Qed.

(* what the model stores for a definition evaluates to what the definition says *)
Lemma eval_range start dst_vec t code :
  range_target start dst_vec = RcTarget t -> start <= code -> start <= two32 ->
  forall hi len,
  eval_stored (mkStored (first_code_for t start) t) code = target_of (def_of_range ((start, hi, len), dst_vec)) code.
Proof.
  intros Ht Hc H32 hi len. unfold target_of, def_of_range. cbn [d_dst d_lo].
  destruct dst_vec as [|v [|w r]]; cbn [range_target] in Ht.
  - discriminate.
  - destruct v as [|d [|e v']]; cbn [range_target] in Ht; injection Ht as <-; unfold eval_stored; cbn [tgt first_code first_code_for].
    + rewrite add_last_bump. reflexivity.
    + rewrite offset_trick by assumption. reflexivity.
    + rewrite add_last_bump. reflexivity.
  - destruct v as [|d [|e v']]; cbn [range_target] in Ht; injection Ht as <-; unfold eval_stored;
      cbn [tgt first_code first_code_for]; apply nth_N_nth_error.
Qed.

Lemma eval_char c dst code :
  c <= code -> c <= two32 ->
  forall len,
  eval_stored (mkStored (first_code_for (char_target c dst) c) (char_target c dst)) code
  = target_of (def_of_char ((c, len), dst)) code.
Proof.
  intros Hc H32 len. unfold target_of, def_of_char. cbn [d_dst d_lo fst snd].
  destruct dst as [|d [|e v']]; unfold char_target, eval_stored; cbn [tgt first_code first_code_for].
  - rewrite add_last_bump. reflexivity.
  - rewrite offset_trick by assumption. reflexivity.
  - rewrite add_last_bump. reflexivity.
Qed.

(* ---------- the invariant ---------- *)

Definition agrees (cm : cmap) (ds : list sdef) : Prop :=
  forall len code,
    get cm code len = match last_covering ds len code with Some d => target_of d code | None => None end.

Lemma get_new code len : get maps_new code len = None.
Proof.
  rewrite get_unfold. destruct (bad_len len) eqn:E; [reflexivity|].
  destruct (valid_cases _ E) as [->|[->|[->| ->]]]; reflexivity.
Qed.

Lemma agrees_new : agrees maps_new [].
Proof. intros len code. rewrite get_new. reflexivity. Qed.

(* u32 typing of the codes that start a definition *)
Definition char_u32 (x : (N * N) * list N) : Prop := fst (fst x) <= two32.
Definition range_u32 (x : (N * N * N) * list (list N)) : Prop := fst (fst (fst x)) <= two32.
Definition section_u32 (s : csection) : Prop :=
  match s with
  | CsRange _ => True
  | BfChar l => Forall char_u32 l
  | BfRange l => Forall range_u32 l
  end.

Lemma agrees_put_chars l : forall cm ds,
  Forall char_u32 l -> agrees cm ds -> agrees (put_chars cm l) (ds ++ map def_of_char l).
Proof.
  induction l as [|[[c len] dst] l IH]; intros cm ds Hu Ha; cbn [put_chars map].
  - rewrite app_nil_r. exact Ha.
  - inversion Hu as [|? ? Hc Hl]; subst.
    replace (ds ++ def_of_char (c, len, dst) :: map def_of_char l)
      with ((ds ++ [def_of_char (c, len, dst)]) ++ map def_of_char l) by (rewrite <- app_assoc; reflexivity).
    apply IH; [exact Hl|].
    intros len' code. unfold put_char. rewrite get_put, last_covering_snoc.
    rewrite (cond_covers (def_of_char (c, len, dst)) len c c) by reflexivity.
    destruct (covers (def_of_char (c, len, dst)) len' code) eqn:E; [|apply Ha].
    unfold covers in E. cbn [def_of_char d_lo d_hi d_len fst snd] in E.
    repeat (apply andb_true_iff in E as [E ?]).
    apply eval_char; [apply N.leb_le; assumption | exact Hc].
Qed.

Lemma agrees_put_ranges l : forall cm cm' ds,
  Forall range_u32 l -> put_ranges cm l = FsOk cm' -> agrees cm ds ->
  agrees cm' (ds ++ map def_of_range l).
Proof.
  induction l as [|[[[lo hi] len] dst] l IH]; intros cm cm' ds Hu Hp Ha; cbn [put_ranges map] in *.
  - inversion Hp; subst. rewrite app_nil_r. exact Ha.
  - inversion Hu as [|? ? Hc Hl]; subst.
    destruct (hi <? lo) eqn:Hlt; [discriminate|].
    destruct (range_target lo dst) as [t|] eqn:Ht; [|discriminate].
    replace (ds ++ def_of_range (lo, hi, len, dst) :: map def_of_range l)
      with ((ds ++ [def_of_range (lo, hi, len, dst)]) ++ map def_of_range l) by (rewrite <- app_assoc; reflexivity).
    eapply IH; [exact Hl | exact Hp |].
    intros len' code. rewrite get_put, last_covering_snoc.
    rewrite (cond_covers (def_of_range (lo, hi, len, dst)) len lo hi) by reflexivity.
    destruct (covers (def_of_range (lo, hi, len, dst)) len' code) eqn:E; [|apply Ha].
    unfold covers in E. cbn [def_of_range d_lo d_hi d_len] in E.
    repeat (apply andb_true_iff in E as [E ?]).
    apply eval_range; [exact Ht | apply N.leb_le; assumption | exact Hc].
Qed.

Lemma agrees_from_sections_aux secs : forall cm cm' ds,
  Forall section_u32 secs -> from_sections_aux cm secs = FsOk cm' -> agrees cm ds ->
  agrees cm' (ds ++ defs_of secs).
Proof.
  induction secs as [|s secs IH]; intros cm cm' ds Hu Hf Ha; cbn [from_sections_aux] in Hf.
  - inversion Hf; subst. unfold defs_of. cbn [flat_map]. rewrite app_nil_r. exact Ha.
  - inversion Hu as [|? ? Hs Hr]; subst. unfold defs_of. cbn [flat_map]. fold (defs_of secs).
    rewrite app_assoc.
    destruct s as [l|l|l]; cbn [defs_of_section section_u32] in *.
    + rewrite app_nil_r. eapply IH; eassumption.
    + eapply IH; [exact Hr | exact Hf |]. apply agrees_put_chars; assumption.
    + destruct (put_ranges cm l) as [cm1|] eqn:Hp; [|discriminate].
      eapply IH; [exact Hr | exact Hf |]. eapply agrees_put_ranges; eassumption.
Qed.

Definition secs_u32 (secs : list csection) : Prop := Forall section_u32 secs.

Theorem get_eq_spec secs cm :
  secs_u32 secs -> from_sections secs = FsOk cm ->
  forall code len, get cm code len = lookup secs len code.
Proof.
  intros Hu Hf code len. unfold lookup.
  apply (agrees_from_sections_aux secs maps_new cm [] Hu Hf agrees_new).
Qed.

(* from_sections fails exactly on a backwards range or an empty target list *)
Definition range_ok (x : (N * N * N) * list (list N)) : bool :=
  let '((lo, hi, _), dst) := x in (lo <=? hi) && match dst with [] => false | _ => true end.
Definition section_ok (s : csection) : bool :=
  match s with BfRange l => forallb range_ok l | _ => true end.

Lemma put_ranges_ok l : forall cm, forallb range_ok l = true -> exists cm', put_ranges cm l = FsOk cm'.
Proof.
  induction l as [|[[[lo hi] len] dst] l IH]; intros cm H; cbn [put_ranges forallb] in *.
  - eauto.
  - apply andb_true_iff in H as [H1 H2]. unfold range_ok in H1. apply andb_true_iff in H1 as [Hle Hd].
    apply N.leb_le in Hle. destruct (N.ltb_spec hi lo); [lia|].
    destruct dst as [|v [|w r]]; [discriminate| |]; cbn [range_target].
    + destruct v as [|d [|e v']]; apply IH; exact H2.
    + destruct v as [|d [|e v']]; apply IH; exact H2.
Qed.

Lemma put_ranges_bad l : forall cm, forallb range_ok l = false -> put_ranges cm l = FsInvalidCodeRange.
Proof.
  induction l as [|[[[lo hi] len] dst] l IH]; intros cm H; cbn [put_ranges forallb] in *.
  - discriminate.
  - destruct (N.ltb_spec hi lo) as [Hlt|Hge]; [reflexivity|].
    destruct dst as [|v [|w r]]; cbn [range_target]; [reflexivity| |].
    + assert (E : range_ok (lo, hi, len, [v]) = true) by (unfold range_ok; apply andb_true_iff; split; [apply N.leb_le; lia|reflexivity]).
      rewrite E in H. cbn [andb] in H. destruct v as [|d [|e v']]; apply IH; exact H.
    + assert (E : range_ok (lo, hi, len, v :: w :: r) = true) by (unfold range_ok; apply andb_true_iff; split; [apply N.leb_le; lia|reflexivity]).
      rewrite E in H. cbn [andb] in H. destruct v as [|d [|e v']]; apply IH; exact H.
Qed.

Theorem from_sections_ok_iff secs :
  (exists cm, from_sections secs = FsOk cm) <-> forallb section_ok secs = true.
Proof.
  unfold from_sections. generalize (@maps_new stored).
  induction secs as [|s secs IH]; intro cm; cbn [from_sections_aux forallb].
  - split; eauto.
  - destruct s as [l|l|l]; cbn [section_ok andb].
    + apply IH.
    + apply IH.
    + destruct (forallb range_ok l) eqn:E; cbn [andb].
      * destruct (put_ranges_ok l cm E) as [cm' ->]. apply IH.
      * rewrite (put_ranges_bad l cm E). split; [intros [? ?]; discriminate | discriminate].
Qed.
