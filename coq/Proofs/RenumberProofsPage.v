(* RenumberProofsPage.v -- C10, part 6: the page-order pass of renumber_objects_with.  The pages
   (first occurrences, in page order) exchange their complete ids among themselves: the renaming is a
   permutation of the page ids and the identity elsewhere, hence one-to-one on ALL ids, the key set
   of the object map is unchanged, and the generic pass lemmas of RenumberProofs.v apply. *)
From Coq Require Import Sorting.Permutation.
From LV Require Import Base.Bytes Model.Obj Model.DocQ Model.PageTree Model.Traverse Model.Renumber
  Spec.RenumberSpec Proofs.PageTreeProofs Proofs.RenumberProofsMap Proofs.RenumberProofsTrav Proofs.RenumberProofs.

(* ---------- dedup_oids ---------- *)
Lemma dedup_oids_spec l : forall seen,
  NoDup (dedup_oids seen l) /\ forall x, In x (dedup_oids seen l) <-> In x l /\ ~ In x seen.
Proof.
  induction l as [|a l IH]; intro seen; cbn [dedup_oids].
  - split; [constructor | intro x; cbn; tauto].
  - destruct (mem_oid a seen) eqn:E.
    + apply mem_oid_In in E. destruct (IH seen) as [ND H]. split; [exact ND|].
      intro x. rewrite H. cbn [In]. split; [tauto|]. intros [[<-|Hx] Hn]; [contradiction | tauto].
    + apply mem_oid_nIn in E. destruct (IH (a :: seen)) as [ND H]. split.
      * constructor; [|exact ND]. intro Hin. apply H in Hin. destruct Hin as [_ Hn]. apply Hn. left; reflexivity.
      * intro x. cbn [In]. rewrite H. cbn [In]. split.
        -- intros [<-|[Hx Hn]]; [tauto | tauto].
        -- intros [[<-|Hx] Hn]; [left; reflexivity|].
           destruct (oid_eq_dec a x) as [->|Hne]; [left; reflexivity | right; tauto].
Qed.

(* ---------- the stable insertion sort is a permutation ---------- *)
Lemma ins_by_id_perm x l : Permutation (ins_by_id x l) (x :: l).
Proof.
  induction l as [|y l IH]; cbn [ins_by_id]; [apply Permutation_refl|].
  destruct (oid_leb (snd x) (snd y)); [apply Permutation_refl|].
  eapply Permutation_trans; [apply perm_skip; exact IH | apply perm_swap].
Qed.

Lemma sort_by_id_perm l : Permutation (sort_by_id l) l.
Proof.
  unfold sort_by_id. induction l as [|x l IH]; cbn [fold_right]; [constructor|].
  eapply Permutation_trans; [apply ins_by_id_perm | apply perm_skip; exact IH].
Qed.

Lemma number_from_snd l : forall n, map snd (number_from n l) = l.
Proof. induction l as [|x l IH]; intro n; cbn [number_from map snd]; [reflexivity | f_equal; apply IH]. Qed.

Lemma page_news_perm pages : Permutation (map snd (sort_by_id (number_from 1 pages))) pages.
Proof.
  eapply Permutation_trans; [apply Permutation_map; apply sort_by_id_perm|]. rewrite number_from_snd. apply Permutation_refl.
Qed.

Lemma combine_fst {A B} (l : list A) : forall (l' : list B), length l = length l' -> map fst (combine l l') = l.
Proof. induction l as [|a l IH]; intros [|b l'] H; cbn in *; try discriminate; [reflexivity | f_equal; apply IH; lia]. Qed.

Lemma combine_snd {A B} (l : list A) : forall (l' : list B), length l = length l' -> map snd (combine l l') = l'.
Proof. induction l as [|a l IH]; intros [|b l'] H; cbn in *; try discriminate; [reflexivity | f_equal; apply IH; lia]. Qed.

(* ---------- replace maps that permute their own keys ---------- *)
Lemma rlookup_none_notin r x : rlookup r x = None -> ~ In x (map fst r).
Proof.
  induction r as [|[a b] r IH]; cbn [rlookup map fst In]; [tauto|].
  destruct (oid_eqb a x) eqn:E; [discriminate|]. apply oid_eqb_neq in E. intros H [K|K]; [contradiction | exact (IH H K)].
Qed.

Lemma snd_nodup_inj (r : rmap) a b c : NoDup (map snd r) -> In (a, c) r -> In (b, c) r -> a = b.
Proof.
  induction r as [|[x y] r IH]; cbn [map snd In]; [tauto|]. intros ND Ha Hb. inversion ND as [|? ? Hn ND']; subst.
  destruct Ha as [Ha|Ha]; destruct Hb as [Hb|Hb].
  - congruence.
  - inversion Ha; subst. exfalso. apply Hn. apply in_map_iff. exists (b, c). auto.
  - inversion Hb; subst. exfalso. apply Hn. apply in_map_iff. exists (a, c). auto.
  - auto.
Qed.

Lemma rename_of_rev r x : NoDup (map fst r) -> rename_of (rev r) x = rename_of r x.
Proof.
  intro ND. unfold rename_of. destruct (rlookup r x) as [y|] eqn:E.
  - apply rlookup_some in E. rewrite (rlookup_in (rev r) x y); [reflexivity | | apply in_rev; rewrite rev_involutive; exact E].
    rewrite map_rev. apply NoDup_rev. exact ND.
  - apply rlookup_none_notin in E. rewrite rlookup_notin; [reflexivity|]. rewrite map_rev. intro H. apply in_rev in H. contradiction.
Qed.

Section Perm.
  Variable r : rmap.
  Hypothesis Hfst : NoDup (map fst r).
  Hypothesis Hsnd : NoDup (map snd r).
  Hypothesis Hclosed : forall x, In x (map snd r) -> In x (map fst r).

  Lemma perm_rename_inj a b : rename_of r a = rename_of r b -> a = b.
  Proof.
    unfold rename_of. destruct (rlookup r a) as [a'|] eqn:Ea; destruct (rlookup r b) as [b'|] eqn:Eb; intro E.
    - subst b'. apply rlookup_some in Ea, Eb. eapply snd_nodup_inj; eauto.
    - subst a'. apply rlookup_some in Ea. apply rlookup_none_notin in Eb. exfalso. apply Eb, Hclosed.
      apply in_map_iff. exists (a, b). auto.
    - subst b'. apply rlookup_some in Eb. apply rlookup_none_notin in Ea. exfalso. apply Ea, Hclosed.
      apply in_map_iff. exists (b, a). auto.
    - exact E.
  Qed.

  Lemma perm_rename_keys x : In (rename_of r x) (map fst r) <-> In x (map fst r).
  Proof.
    unfold rename_of. destruct (rlookup r x) as [y|] eqn:E.
    - apply rlookup_some in E. split; intros _.
      + apply in_map_iff. exists (x, y). auto.
      + apply Hclosed. apply in_map_iff. exists (x, y). auto.
    - tauto.
  Qed.

  Lemma perm_rename_fix x : ~ In x (map fst r) -> rename_of r x = x.
  Proof. intro H. unfold rename_of. rewrite rlookup_notin by exact H. reflexivity. Qed.
End Perm.

(* ---------- page_moves is dense_moves when every page has an object ---------- *)
Lemma page_moves_dense : forall pairs m c r0,
  sorted_keys m -> NoDup (map fst pairs) -> (forall old, In old (map fst pairs) -> has_obj m old) ->
  page_moves pairs m c r0 = (let '(m1, c1) := dense_moves pairs m c in (m1, c1, rev pairs ++ r0)).
Proof.
  induction pairs as [|[old new] ps IH]; intros m c r0 Sm ND Hh; cbn [page_moves dense_moves]; [reflexivity|].
  cbn [map fst] in ND, Hh. inversion ND as [|? ? Hn ND']; subst.
  destruct (has_lookup m old (Hh old (or_introl eq_refl))) as [o Ho]. rewrite Ho.
  rewrite IH; [| apply sorted_remove; exact Sm | exact ND' |].
  - destruct (dense_moves ps (remove m old) (insert c new o)) as [m1 c1]. cbn [rev]. rewrite <- app_assoc. reflexivity.
  - intros old' Hin. apply has_obj_lookup. rewrite lookup_remove by exact Sm.
    destruct (oid_eqb old old') eqn:E; [apply oid_eqb_eq in E; subst; contradiction|].
    apply has_obj_lookup. apply Hh. right; exact Hin.
Qed.

(* ---------- identity renaming ---------- *)
Lemma rename_id o : rename (fun x => x) o = o.
Proof.
  induction o as [|b|z|r|n|s h|l Hl|d Hd|d c Hd|i g] using obj_ind'; try reflexivity; cbn [rename].
  - f_equal. induction Hl as [|x l Hx Hl IH]; cbn [map]; [reflexivity | congruence].
  - f_equal. induction Hd as [|[k v] l Hx Hl IH]; cbn [map fst snd] in *; [reflexivity | congruence].
  - f_equal. induction Hd as [|[k v] l Hx Hl IH]; cbn [map fst snd] in *; [reflexivity | congruence].
Qed.

Lemma rename_dict_id d : rename_dict (fun x => x) d = d.
Proof. unfold rename_dict. induction d as [|[k v] d IH]; cbn [map fst snd]; [reflexivity|]. rewrite rename_id, IH. reflexivity. Qed.

Lemma renumber_bookmarks_id t : renumber_bookmarks_with (fun x => x) t = t.
Proof.
  unfold renumber_bookmarks_with. induction t as [|[k [cs p]] t IH]; cbn [map fst snd bm_children bm_page]; [reflexivity|].
  rewrite IH. reflexivity.
Qed.

Lemma option_map_id {A} (f : A -> A) (o : option A) : (forall x, f x = x) -> option_map f o = o.
Proof. intro H. destruct o; cbn; [rewrite H|]; reflexivity. Qed.

(* ---------- the page-order pass ---------- *)
Definition doc_tr (d : rdoc) := d_trailer (base d).
Definition doc_m (d : rdoc) := d_objects (base d).

(* what one pass guarantees, independently of how its renaming was chosen *)
Definition pass_iso (P : oid -> Prop) (d d' : rdoc) (rho : oid -> oid) : Prop :=
  inj_on P rho /\
  doc_tr d' = rename_dict rho (doc_tr d) /\
  (forall id, reach (doc_tr d) (doc_m d) id -> lookup (doc_m d') (rho id) = option_map (rename rho) (lookup (doc_m d) id)) /\
  (forall id, P id -> ~ reach (doc_tr d) (doc_m d) id -> lookup (doc_m d') (rho id) = lookup (doc_m d) id) /\
  (forall x, reach (doc_tr d') (doc_m d') x <-> exists id, reach (doc_tr d) (doc_m d) id /\ x = rho id) /\
  (forall x, has_obj (doc_m d') x <-> exists id, has_obj (doc_m d) id /\ x = rho id) /\
  sorted_keys (doc_m d') /\
  bm_table d' = renumber_bookmarks_with rho (bm_table d) /\
  bookmarks d' = bookmarks d /\ max_bookmark_id d' = max_bookmark_id d /\
  d_version (base d') = d_version (base d) /\ d_binary_mark (base d') = d_binary_mark (base d).

Theorem page_order_pass_spec d :
  sorted_keys (doc_m d) ->
  exists d1 rho,
    page_order_pass d = Some d1 /\
    pass_iso (fun _ => True) d d1 rho /\
    (forall x, ~ has_obj (doc_m d) x -> rho x = x) /\
    (forall x, has_obj (doc_m d) (rho x) <-> has_obj (doc_m d) x) /\
    map fst (doc_m d1) = map fst (doc_m d) /\
    d_max_id (base d1) = d_max_id (base d).
Proof.
  intro Sm. unfold page_order_pass.
  set (pages := dedup_oids [] (page_iter (base d))).
  set (news := map snd (sort_by_id (number_from 1 pages))).
  destruct (needs_ordering_from 1 (sort_by_id (number_from 1 pages))).
  2:{ exists d, (fun x => x). split; [reflexivity|]. split.
      - unfold pass_iso. split; [intros a b _ _ E; exact E|]. split; [symmetry; apply rename_dict_id|].
        split; [intros id _; symmetry; apply option_map_id; apply rename_id|]. split; [reflexivity|].
        split; [intro x; split; [intro H; exists x; auto | intros [id [H ->]]; exact H]|].
        split; [intro x; split; [intro H; exists x; auto | intros [id [H ->]]; exact H]|].
        split; [exact Sm|]. split; [symmetry; apply renumber_bookmarks_id|]. repeat split; reflexivity.
      - repeat split; auto. }
  fold news. set (pairs := combine pages news).
  destruct (dedup_oids_spec (page_iter (base d)) []) as [NDp Hp]. fold pages in NDp, Hp.
  assert (Perm : Permutation news pages) by apply page_news_perm.
  assert (Hlen : length pages = length news) by (symmetry; apply Permutation_length; exact Perm).
  assert (Ff : map fst pairs = pages) by (apply combine_fst; exact Hlen).
  assert (Fs : map snd pairs = news) by (apply combine_snd; exact Hlen).
  assert (NDn : NoDup news) by (eapply Permutation_NoDup; [apply Permutation_sym; exact Perm | exact NDp]).
  assert (Hhave : forall old, In old (map fst pairs) -> has_obj (doc_m d) old).
  { intros old Ho. rewrite Ff in Ho. apply Hp in Ho. destruct Ho as [Ho _].
    destruct (page_iter_total (base d)) as [_ Hall]. rewrite Forall_forall in Hall. specialize (Hall _ Ho).
    apply node_type_page_spec in Hall. destruct Hall as [pd [Hd _]]. eapply get_dictionary_in; exact Hd. }
  assert (NDf : NoDup (map fst pairs)) by (rewrite Ff; exact NDp).
  assert (NDs : NoDup (map snd pairs)) by (rewrite Fs; exact NDn).
  assert (Hcl : forall x, In x (map snd pairs) -> In x (map fst pairs)).
  { intros x Hx. rewrite Fs in Hx. rewrite Ff. eapply Permutation_in; eauto. }
  unfold doc_m in *. rewrite (page_moves_dense pairs (d_objects (base d)) [] [] Sm NDf Hhave). rewrite app_nil_r.
  set (h := rename_of pairs). set (g := rename_of (rev pairs)).
  assert (Egh : forall x, g x = h x) by (intro x; apply rename_of_rev; exact NDf).
  assert (Hinj_h : inj_on (fun _ => True) h) by (intros a b _ _ E; eapply perm_rename_inj; eauto).
  destruct (rekey_spec (d_objects (base d)) pairs (fun _ => True) Sm NDf Hhave (fun _ _ => I) Hinj_h) as [m1 [c1 [EM [S2 [Fw Bw]]]]].
  rewrite EM. cbv beta iota zeta. cbv zeta in S2, Fw, Bw. set (m2 := insert_all c1 m1) in *. fold h in Fw, Bw.
  fold g. set (tr := d_trailer (base d)).
  destruct (traverse_spec g tr m2 (trav_fuel tr m2) (le_n _)) as [m3 [refs [ET [_ [_ [K3 [In3 Out3]]]]]]].
  rewrite ET.
  assert (NDr : NoDup (map fst (rev pairs))) by (rewrite map_rev; apply NoDup_rev; exact NDf).
  assert (Hhave_r : forall old, In old (map fst (rev pairs)) -> has_obj (d_objects (base d)) old).
  { intros old Ho. apply Hhave. rewrite map_rev in Ho. apply in_rev in Ho. exact Ho. }
  assert (Hinj : inj_on (fun _ => True) g) by (intros a b _ _ E; rewrite !Egh in E; eapply perm_rename_inj; eauto).
  assert (Fw' : forall id, has_obj (d_objects (base d)) id -> lookup m2 (g id) = lookup (d_objects (base d)) id)
    by (intros id Hid; rewrite Egh; apply Fw; exact Hid).
  assert (Bw' : forall x, has_obj m2 x -> exists id, has_obj (d_objects (base d)) id /\ x = g id)
    by (intros x Hx; destruct (Bw x Hx) as [id [Hid ->]]; exists id; rewrite Egh; auto).
  assert (Gfix : forall x, ~ has_obj (d_objects (base d)) x -> g x = x).
  { intros x Hx. rewrite Egh. apply perm_rename_fix. intro K. apply Hx, Hhave, K. }
  assert (Gkeys : forall x, has_obj (d_objects (base d)) (g x) <-> has_obj (d_objects (base d)) x).
  { intro x. rewrite Egh. destruct (in_dec oid_eq_dec x (map fst pairs)) as [Hin|Hnin].
    - split; intros _; [apply Hhave; exact Hin | apply Hhave; apply perm_rename_keys; auto].
    - unfold h. rewrite perm_rename_fix by exact Hnin. tauto. }
  assert (Hbwd3 : forall x, has_obj m3 x <-> exists id, has_obj (d_objects (base d)) id /\ x = g id).
  { intro x. split.
    - apply (pass_has_bwd (d_objects (base d)) (rev pairs) m2 Bw' m3 K3).
    - intros [id [Hid ->]]. apply (pass_has_fwd (d_objects (base d)) (rev pairs) m2 Fw' m3 K3). exact Hid. }
  assert (S3 : sorted_keys m3) by (apply (pass_sorted m2 S2 m3 K3)).
  exists {| base := with_objects (base d) (rename_dict g tr) m3 (d_max_id (base d));
            max_bookmark_id := max_bookmark_id d; bookmarks := bookmarks d;
            bm_table := renumber_bookmarks_with g (bm_table d) |}, g.
  split; [reflexivity|]. split.
  - unfold pass_iso, doc_tr, doc_m.
    cbn [base d_trailer d_objects d_max_id with_objects bm_table bookmarks max_bookmark_id d_version d_binary_mark].
    split; [exact Hinj|]. split; [reflexivity|].
    split; [intros id Hid; eapply (pass_reachable tr (d_objects (base d)) (rev pairs) (fun _ => True)); eauto|].
    split; [intros id Pid Hid; eapply (pass_unreachable tr (d_objects (base d)) (rev pairs) (fun _ => True)); eauto|].
    split; [intro x; eapply (pass_reach tr (d_objects (base d)) (rev pairs) (fun _ => True)); eauto|].
    split; [exact Hbwd3|]. split; [exact S3|]. repeat split; reflexivity.
  - cbn [base d_objects d_max_id with_objects].
    split; [exact Gfix|]. split; [exact Gkeys|]. split; [|reflexivity].
    apply sorted_ext; [exact S3 | exact Sm|]. intro x. fold (has_obj m3 x). rewrite Hbwd3. split.
    + intros [id [Hid ->]]. apply Gkeys. exact Hid.
    + intro Hx. (* x is a key; g is a permutation of the pages, so x = g id for a key id *)
      destruct (in_dec oid_eq_dec x (map fst pairs)) as [Hin|Hnin].
      * rewrite Ff in Hin. assert (Hin' : In x news) by (eapply Permutation_in; [apply Permutation_sym; exact Perm | exact Hin]).
        rewrite <- Fs in Hin'. apply in_map_iff in Hin'. destruct Hin' as [[a b] [Eb Hab]]. cbn [snd] in Eb. subst b.
        exists a. split; [apply Hhave; apply in_map_iff; exists (a, x); auto|].
        rewrite Egh. unfold h, rename_of. rewrite (rlookup_in pairs a x NDf Hab). reflexivity.
      * exists x. split; [exact Hx|]. rewrite Egh. unfold h. rewrite perm_rename_fix by exact Hnin. reflexivity.
Qed.
