(* CMapTextProofs.v -- the property from the CMap TEXT: the round trip of Proofs/CMapRenderProofs.v
   composed with from_sections / get / bytes_to_string (Proofs/CMapProofs.v, CMapProofsText.v). *)
From LV Require Import Base.Bytes Model.RangeMap Model.CMap Model.CMapParser Spec.CMapSpec Spec.CMapRender Gen.CMapC
  Proofs.CMapProofs Proofs.CMapProofsText Proofs.CMapRenderProofs.

Local Open Scope N_scope.

(* a code of 1 to 4 bytes fits u32 *)
Lemma wf_code_u32 len v : wf_code len v -> v <= two32.
Proof.
  intros [[H1 H2] Hv]. unfold two32.
  assert (256 ^ len <= 256 ^ 4) by (apply N.pow_le_mono_r; lia).
  change (256 ^ 4) with 4294967296 in H. lia.
Qed.

Lemma wf_sections_u32 secs : wf_sections secs -> secs_u32 secs.
Proof.
  intros [_ Hw]. unfold secs_u32. eapply Forall_impl; [|exact Hw].
  intros [l|l|l] [_ Hl]; cbn [section_u32]; [exact I| |]; (eapply Forall_impl; [|exact Hl]).
  - intros [[code len] dst] [Hc _]. exact (wf_code_u32 len code Hc).
  - intros [[[lo hi] len] dst] [Hc _]. exact (wf_code_u32 len lo Hc).
Qed.

Lemma wf_forward_ok secs : wf_sections secs -> forward_sections secs -> forallb section_ok secs = true.
Proof.
  intros [_ Hw] Hf. apply forallb_forall. intros s Hs.
  pose proof (proj1 (Forall_forall _ _) Hw s Hs) as Hws. pose proof (proj1 (Forall_forall _ _) Hf s Hs) as Hfs.
  destruct s as [l|l|l]; cbn [section_ok]; try reflexivity.
  destruct Hws as [_ Hl]. cbn [forward_section] in Hfs. apply forallb_forall. intros x Hx.
  pose proof (proj1 (Forall_forall _ _) Hl x Hx) as H1. pose proof (proj1 (Forall_forall _ _) Hfs x Hx) as H2.
  destruct x as [[[lo hi] len] dst]. cbn [fst snd] in H2. destruct H1 as [_ [_ [Hn _]]].
  unfold range_ok. apply andb_true_iff. split; [apply N.leb_le; exact H2|]. destruct dst; [congruence|reflexivity].
Qed.

(* parsing the text gives the CMap of the sections *)
Theorem parse_render_cmap lay secs : wf_sections secs -> forward_sections secs ->
  exists cm, from_sections secs = FsOk cm /\ cmap_parse (render lay secs) = ParseOk cm.
Proof.
  intros Hw Hf. destruct (proj2 (from_sections_ok_iff secs) (wf_forward_ok secs Hw Hf)) as [cm Hcm].
  exists cm. split; [exact Hcm|]. rewrite cmap_parse_render by exact Hw. rewrite Hcm. reflexivity.
Qed.

(* a backwards range is reported as such, whatever the layout *)
Theorem parse_render_backwards lay secs : wf_sections secs -> ~ forward_sections secs ->
  cmap_parse (render lay secs) = ParseErrRange.
Proof.
  intros Hw Hnf. rewrite cmap_parse_render by exact Hw.
  destruct (from_sections secs) as [cm|] eqn:E; [|reflexivity]. exfalso. apply Hnf.
  pose proof (proj1 (from_sections_ok_iff secs) (ex_intro _ cm E)) as Hok.
  apply Forall_forall. intros s Hs. pose proof (proj1 (forallb_forall _ _) Hok s Hs) as H1.
  destruct s as [l|l|l]; cbn [forward_section]; try exact I. cbn [section_ok] in H1.
  apply Forall_forall. intros x Hx. pose proof (proj1 (forallb_forall _ _) H1 x Hx) as H2.
  destruct x as [[[lo hi] len] dst]. cbn [fst snd]. unfold range_ok in H2. apply andb_true_iff in H2 as [H2 _].
  apply N.leb_le. exact H2.
Qed.

(* the lookups of the parsed text are the spec's *)
Theorem get_of_text lay secs cm : wf_sections secs -> cmap_parse (render lay secs) = ParseOk cm ->
  forall code len, get cm code len = lookup secs len code.
Proof.
  intros Hw Hp. rewrite cmap_parse_render in Hp by exact Hw.
  destruct (from_sections secs) as [cm'|] eqn:E; [|discriminate]. inversion Hp; subst cm'.
  exact (get_eq_spec secs cm (wf_sections_u32 secs Hw) E).
Qed.

(* end to end *)
Theorem decodes_text lay secs (codes : list (bytes * list N * list N)) :
  wf_sections secs -> forward_sections secs -> Forall (defined_code secs) codes ->
  exists cm, cmap_parse (render lay secs) = ParseOk cm /\
             bytes_to_string cm (concat (map (fun x => fst (fst x)) codes)) = concat (map snd codes).
Proof.
  intros Hw Hf Hc. destruct (parse_render_cmap lay secs Hw Hf) as [cm [Hcm Hp]].
  exists cm. split; [exact Hp|].
  exact (decodes_as_defined secs cm codes (wf_sections_u32 secs Hw) Hcm Hc).
Qed.
