(* LoadsMultiXSec.v -- C02: ONE cross-reference STREAM section as Spec/RefWriter.v section_text writes it -- for ANY entry
   function, sub-sections, Size and extra dictionary entries (Prev) -- decoded at its offset in ANY buffer.  Generic
   restatement of Proofs/LoadsStreamProofs.v section StreamFile (which is tied to the single-section layout of ref_write):
   the section is one more top-level object ([xq_top], its text is [top_text]), xref_and_trailer_x on it returns the table
   its sub-sections denote and the dictionary as read back without Length / W / Index.  No filter on the stream here. *)
From LV Require Import Base.Bytes Base.Sx Model.Obj Model.Writer Model.Parser Model.Xref Model.Loader Model.Utf Gen.Lex
  Spec.XrefSpec Spec.RefWriter Proofs.LexProofs Proofs.LoadProofs Proofs.LoadProofsFile Proofs.XrefProofs
  Proofs.XrefTableProofs Proofs.ObjectRtProofs Proofs.SpellingProofs Proofs.SpellingObjProofs Proofs.SpellingFileProofs
  Proofs.LoadsFrameProofs Proofs.LoadsTableProofs Proofs.FilterProofsDict.
From LV Require Proofs.LoadProofsStream.
From LV Require Import Model.LoaderExt Proofs.LoaderExtProofs.
From LV Require Import Proofs.LoadsFilterProofs Proofs.LoadsStreamProofs.
From LV Require Model.Png Spec.StreamCodecSpec Model.StreamFilt.
From Coq Require Import Lia.
Local Open Scope N_scope.

(* one object at its place, read by Reader::read_object (Length direct: the table is not consulted) *)
Lemma indirect_x_top buf x tp post : top_ok tp -> fst (fst (fst tp)) <= u32_max ->
  indirect_x buf x (top_text tp ++ post) None = IxOk (fst (fst tp)) (loaded_top tp) None /\ no_objstm (loaded_top tp).
Proof.
  intros Hk Hi. destruct (indirect_top tp post Hk Hi) as [P1 P2]. split; [|exact P2].
  unfold indirect_x.
  match goal with |- indirect_with ?b ?s0 ?e ?l = _ => pose proof (indirect_with_agrees b s0 e l) as A end.
  rewrite P1 in A. destruct A as [pos [-> [->|[d0 [K Kn]]]]]; [reflexivity|]. exfalso.
  destruct tp as [[[i g] o] y]. unfold loaded_top in K. cbn [fst snd] in K.
  destruct o; cbn [denote] in K; try discriminate K.
  unfold stream_new in K. inversion K; subst. unfold no_length in Kn. rewrite FilterProofsDict.dict_get_set_same in Kn. exact Kn.
Qed.

Section XSec.
  Variable a : adoc.
  Variable x : xsstyle.
  Variable entry : N -> sentry.
  Variable secs : list (N * N).
  Variable size xpos : N.
  Variable prevl : list (bytes * obj).
  Variable dec : dict -> bytes -> option (dict * bytes).
  Variable can : dict -> bool.

  Definition xq_secs : xsections := plain_secs entry secs.
  Definition xq_ents : list sentry := flat_map snd xq_secs.
  Definition xq_w0 : nat := W0 (fst (fst (xs_w x))) xq_ents.
  Definition xq_w1 : nat := W1 (snd (fst (xs_w x))) xq_ents.
  Definition xq_w2 : nat := W2 (snd (xs_w x)) xq_ents.
  Definition xq_raw : bytes := enc_sections xq_w0 xq_w1 xq_w2 xq_secs.
  Definition xq_enc : bytes * dict := apply_filter (xs_filter x) (N.of_nat (xq_w0 + xq_w1 + xq_w2)) (xs_array x) xq_raw.
  Definition xq_idx : dict :=
    match secs with
    | [(0, c)] => if xs_omit_index x && (c =? size) then [] else [(bs "Index", index_array xq_secs)]
    | _ => [(bs "Index", index_array xq_secs)]
    end.
  Definition xq_d : dict :=
    [(bs "Type", OName (bs "XRef")); (RefWriter.K_Size, OInt (Z.of_N size));
     (bs "W", OArr [OInt (Z.of_nat xq_w0); OInt (Z.of_nat xq_w1); OInt (Z.of_nat xq_w2)])] ++
    xq_idx ++ a_trailer a ++ prevl ++ snd xq_enc ++ [(RefWriter.K_Length, OInt (Z.of_nat (length (fst xq_enc))))].
  Definition xq_top : top := ((xs_id x, 0), OStream xq_d (fst xq_enc), xs_istyle x).

  Lemma section_text_stream stp : s_xref stp = XStream x ->
    section_text stp a secs entry size xpos prevl = top_text xq_top ++ startxref_text stp xpos.
  Proof.
    intro H.
    transitivity (let '(data, fent) := xq_enc in
                  w_indirect (xs_id x) 0
                    (OStream ([(bs "Type", OName (bs "XRef")); (RefWriter.K_Size, OInt (Z.of_N size));
                               (bs "W", OArr [OInt (Z.of_nat xq_w0); OInt (Z.of_nat xq_w1); OInt (Z.of_nat xq_w2)])] ++
                              xq_idx ++ a_trailer a ++ prevl ++ fent ++ [(RefWriter.K_Length, OInt (Z.of_nat (length data)))]) data)
                    (xs_istyle x) ++ gap_bytes (i_gap (xs_istyle x)) ++ startxref_text stp xpos).
    - unfold section_text. rewrite H. unfold xq_enc, xq_idx, xq_raw, xq_w0, xq_w1, xq_w2, xq_ents, xq_secs.
      destruct (xs_w x) as [[w0 w1] w2]. reflexivity.
    - unfold top_text, xq_top, xq_d. cbn [fst snd]. destruct xq_enc as [dat fe]. cbn [fst snd]. rewrite <- app_assoc. reflexivity.
  Qed.

  (* ---------- the domain of the decoding ---------- *)
  Hypothesis Hfilt : xs_filter x = SfNone \/
                     (dec = decompress_ref /\ can = can_ref /\ N.of_nat (xq_w0 + xq_w1 + xq_w2) <= Png.USIZE_MAX /\
                      dict_get (a_trailer a) K_DecodeParms = None).
  Hypothesis Hs1 : secs_increasing 0 secs = true.
  Hypothesis Hs2 : forall f c, In (f, c) secs -> 1 <= c /\ f + c <= size.
  Hypothesis Hsz : size <= u32_max.
  Hypothesis Hrange : forall k, In k (keys_of secs) -> a_of (entry k) < two32 /\ b_of (entry k) < 65536 /\ entry_in_range (entry k).
  Hypothesis Hself : exists k, In k (keys_of secs) /\ 0 < a_of (entry k).
  Hypothesis Hxd : spell_wf (ODict xq_d) (i_obj (xs_istyle x)) /\ (nest (ODict xq_d) <= MAX_DEPTH)%nat.
  Hypothesis Htr : dict_get (a_trailer a) Xref.K_Index = None /\ dict_get (a_trailer a) K_Filter = None /\
                   dict_get (a_trailer a) K_Prev = None /\ dict_get (a_trailer a) K_Encrypt = None /\
                   dict_get (a_trailer a) K_XRefStm = None.
  Hypothesis Hprevl : prevl = [] \/ exists q, prevl = [(K_PrevW, OInt (Z.of_N q))].
  Hypothesis Hid : 1 <= xs_id x <= u32_max.

  Lemma xq_enc_none : xs_filter x = SfNone -> xq_enc = (xq_raw, []).
  Proof. intro Hf. unfold xq_enc. rewrite Hf. reflexivity. Qed.

  Lemma xq_fent_keys k : k <> K_Filter -> k <> K_DecodeParms -> dict_get (snd xq_enc) k = None.
  Proof. apply fent_keys. Qed.

  Lemma xq_ents_in e : In e xq_ents -> exists k, In k (keys_of secs) /\ e = entry k.
  Proof.
    unfold xq_ents, xq_secs, plain_secs. rewrite flat_map_concat_map, map_map. cbn [snd]. rewrite <- flat_map_concat_map.
    intro H. apply in_flat_map in H as [[f c] [H1 H2]]. apply in_map_iff in H2 as [k [<- Hk]].
    exists k. split; [|reflexivity]. unfold keys_of. apply in_flat_map. exists (f, c). split; [exact H1|exact Hk].
  Qed.

  Lemma xq_key_ent k : In k (keys_of secs) -> In (entry k) xq_ents.
  Proof.
    intro K. unfold xq_ents, xq_secs, plain_secs. rewrite flat_map_concat_map, map_map. cbn [snd]. rewrite <- flat_map_concat_map.
    unfold keys_of in K. apply in_flat_map in K as [[f c] [K1 K2]].
    apply in_flat_map. exists (f, c). split; [exact K1|]. apply in_map. exact K2.
  Qed.

  Lemma xq_widths_sum : (1 <= xq_w0 + xq_w1 + xq_w2)%nat.
  Proof.
    destruct Hself as [k [Hk Hpos]]. unfold xq_w0, xq_w1, xq_w2. apply (widths_pos _ _ _ xq_ents (entry k) (xq_key_ent k Hk) Hpos).
    - apply (Hrange k Hk).
    - intros e He. destruct (xq_ents_in e He) as [k' [Hk' ->]]. apply (Hrange k' Hk').
  Qed.

  Lemma xq_secs_ok : Forall (sec_ok xq_w0 xq_w1 xq_w2) xq_secs.
  Proof.
    assert (Hw : Forall (entry_ok xq_w0 xq_w1 xq_w2) xq_ents).
    { apply widths_ok. intros e He. destruct (xq_ents_in e He) as [k [Hk ->]]. destruct (Hrange k Hk) as [A [B _]]. auto. }
    rewrite Forall_forall in Hw.
    apply Forall_forall. intros [f es] Hin. unfold xq_secs, plain_secs in Hin. apply in_map_iff in Hin as [[f0 c] [E Hfc]].
    cbn [fst snd] in E. inversion E; subst f es. clear E.
    assert (Hkeys : forall k, In k (range_N f0 (N.to_nat c)) -> In k (keys_of secs)).
    { intros k Hk. unfold keys_of. apply in_flat_map. exists (f0, c). split; [exact Hfc|exact Hk]. }
    unfold sec_ok. cbn [fst snd]. split; [|split].
    - apply Forall_forall. intros e He. apply in_map_iff in He as [k [<- Hk]]. apply Hw, xq_key_ent, Hkeys, Hk.
    - apply Forall_forall. intros e He. apply in_map_iff in He as [k [<- Hk]]. apply (Hrange k (Hkeys k Hk)).
    - rewrite map_length, range_N_length, N2Nat.id. destruct (Hs2 _ _ Hfc) as [_ K]. unfold u32_max, two32 in *. lia.
  Qed.

  Definition xq_numb := map (fun k => (k, entry k)) (keys_of secs).
  Lemma xq_numbered_eq : numbered xq_secs = xq_numb. Proof. apply numbered_plain. Qed.
  Lemma xq_numb_nodup : NoDup (map fst xq_numb).
  Proof. unfold xq_numb. rewrite map_map. cbn [fst]. rewrite map_id. apply (keys_increasing secs 0 Hs1). Qed.

  (* ---------- the dictionary as written and as read back ---------- *)
  Notation data := (fst xq_enc).
  Definition xq_ysts := dict_sts (i_obj (xs_istyle x)).
  Definition xq_dd : dict := denote_dict xq_d xq_ysts.
  Definition xq_d1 : dict := dict_set xq_dd K_Length (OInt (Z.of_nat (length data))).
  Definition xq_x0 : xref := {| x_type := XTStream; x_entries := spec_map xq_numb; x_size := i64_as_u32 (Z.of_N size) |}.

  Lemma xq_d_wf : dict_wf xq_d.
  Proof. destruct Hxd as [Hw _]. apply spell_wf_dict in Hw. exact (proj1 Hw). Qed.
  Lemma xq_dd_wf : dict_wf xq_dd.
  Proof. unfold dict_wf, keys, xq_dd. rewrite denote_dict_keys. exact xq_d_wf. Qed.
  Lemma xq_d1_wf : dict_wf xq_d1. Proof. apply dict_set_wf, xq_dd_wf. Qed.

  Lemma xq_get_length : dict_get xq_d K_Length = Some (OInt (Z.of_nat (length data))).
  Proof.
    apply (dict_get_In xq_d _ _ xq_d_wf). unfold xq_d. apply in_or_app. right. apply in_or_app. right.
    apply in_or_app. right. apply in_or_app. right. apply in_or_app. right. left. reflexivity.
  Qed.
  Lemma xq_get_size : dict_get xq_d Xref.K_Size = Some (OInt (Z.of_N size)). Proof. reflexivity. Qed.
  Lemma xq_get_w : dict_get xq_d Xref.K_W = Some (OArr [OInt (Z.of_nat xq_w0); OInt (Z.of_nat xq_w1); OInt (Z.of_nat xq_w2)]).
  Proof. reflexivity. Qed.

  Lemma xq_dget_app (d e : dict) k :
    dict_get (d ++ e) k = match dict_get d k with Some v => Some v | None => dict_get e k end.
  Proof. induction d as [|[k0 v0] d IH]; cbn [app dict_get]; [reflexivity|]. destruct (bytes_eqb k0 k); [reflexivity|exact IH]. Qed.

  Lemma xq_idx_cases : xq_idx = [(bs "Index", index_array xq_secs)] \/ (xq_idx = [] /\ secs = [(0, size)]).
  Proof.
    unfold xq_idx. destruct secs as [|[f c] l]; [left; reflexivity|]. destruct l as [|p l]; [|destruct f; left; reflexivity].
    destruct f as [|f]; [|left; reflexivity].
    destruct (xs_omit_index x && (c =? size)) eqn:Eo; [|left; reflexivity].
    right. apply andb_true_iff in Eo as [_ Ec]. apply N.eqb_eq in Ec. subst c. split; reflexivity.
  Qed.

  (* a key that is none of Type Size W Index Length is looked up in the document's trailer, the extra entries, the filter entries *)
  Lemma xq_get_other' k :
    bytes_eqb (bs "Type") k = false -> bytes_eqb RefWriter.K_Size k = false -> bytes_eqb (bs "W") k = false ->
    dict_get xq_idx k = None -> bytes_eqb RefWriter.K_Length k = false ->
    dict_get xq_d k = match dict_get (a_trailer a) k with
                      | Some v => Some v
                      | None => match dict_get prevl k with Some v => Some v | None => dict_get (snd xq_enc) k end
                      end.
  Proof.
    intros E1 E2 E3 Hi E5. unfold xq_d. cbn [app dict_get]. rewrite E1, E2, E3. rewrite !xq_dget_app.
    rewrite Hi. destruct (dict_get (a_trailer a) k); [reflexivity|].
    destruct (dict_get prevl k); [reflexivity|]. destruct (dict_get (snd xq_enc) k); [reflexivity|]. cbn [dict_get]. rewrite E5. reflexivity.
  Qed.

  Lemma xq_idx_none k : bytes_eqb (bs "Index") k = false -> dict_get xq_idx k = None.
  Proof. intro E4. destruct xq_idx_cases as [->|[-> _]]; [cbn [dict_get]; rewrite E4; reflexivity|reflexivity]. Qed.

  Lemma xq_get_other k :
    bytes_eqb (bs "Type") k = false -> bytes_eqb RefWriter.K_Size k = false -> bytes_eqb (bs "W") k = false ->
    bytes_eqb (bs "Index") k = false -> bytes_eqb RefWriter.K_Length k = false ->
    bytes_eqb k K_Filter = false -> bytes_eqb k K_DecodeParms = false ->
    dict_get xq_d k = match dict_get (a_trailer a) k with Some v => Some v | None => dict_get prevl k end.
  Proof.
    intros E1 E2 E3 E4 E5 E6 E7. rewrite xq_get_other' by (try assumption; apply xq_idx_none; exact E4).
    rewrite xq_fent_keys; [destruct (dict_get (a_trailer a) k); [reflexivity|]; destruct (dict_get prevl k); reflexivity| |];
      intro K; subst k; rewrite bytes_eqb_refl in *; discriminate.
  Qed.

  Lemma xq_d1_get k : k <> K_Length -> dict_get xq_d1 k = dict_get xq_dd k.
  Proof. intro H. unfold xq_d1. apply dict_get_set_other. exact H. Qed.
  Lemma xq_d1_none k : k <> K_Length -> dict_get xq_d k = None -> dict_get xq_d1 k = None.
  Proof. intros H1 H2. rewrite (xq_d1_get k H1). apply dict_get_denote_none. exact H2. Qed.

  Lemma prevl_get k : bytes_eqb K_PrevW k = false -> dict_get prevl k = None.
  Proof. intro E. destruct Hprevl as [->|[q ->]]; [reflexivity|]. cbn [dict_get]. rewrite E. reflexivity. Qed.

  (* ---------- the section is one more top-level object ---------- *)
  Lemma xq_top_ok : top_ok xq_top.
  Proof.
    unfold top_ok, xq_top. split; [lia|]. split; [unfold u16_max; lia|]. destruct Hxd as [Hw Hn].
    split; [exact Hw|]. split; [exact Hn|]. split; [exact xq_get_length|]. reflexivity.
  Qed.

  Lemma xq_not_table post : xref_and_trailer_table (top_text xq_top ++ post) = XNoMatch.
  Proof.
    unfold top_text, xq_top. cbn [fst snd]. rewrite <- !app_assoc. destruct Hxd as [Hw _].
    rewrite (w_indirect_stream_text (xs_id x) 0 xq_d data (xs_istyle x) _ Hw). unfold head_text. cbv zeta.
    rewrite <- ?app_assoc. unfold xref_and_trailer_table. rewrite LoadProofsStream.xref_table_number. reflexivity.
  Qed.

  Lemma xq_decode (dx : dict) :
    dict_get dx Xref.K_Size = Some (OInt (Z.of_N size)) ->
    dict_get dx Xref.K_W = Some (OArr [OInt (Z.of_nat xq_w0); OInt (Z.of_nat xq_w1); OInt (Z.of_nat xq_w2)]) ->
    dict_get dx Xref.K_Index = dict_get xq_d1 Xref.K_Index ->
    decode_xref_plain dx xq_raw = XOk (xq_x0, LoadProofsStream.sr3 dx).
  Proof.
    intros HS HW HI.
    unfold xq_x0, LoadProofsStream.sr3. rewrite <- xq_numbered_eq.
    destruct xq_idx_cases as [Hi|[Hi Hsec]].
    - apply xref_stream_any_W_Index; [exact xq_widths_sum|exact xq_secs_ok|exact HS|exact HW|].
      rewrite HI. rewrite xq_d1_get by discriminate.
      pose proof (index_array_ints xq_secs) as Hp. destruct (index_array xq_secs) as [| | | | | |l| | |] eqn:Ei; try contradiction.
      apply dict_get_denote_arr; [|exact Hp].
      apply (dict_get_In xq_d _ _ xq_d_wf). unfold xq_d. rewrite Hi.
      apply in_or_app. right. apply in_or_app. left. left. reflexivity.
    - assert (Ex : xq_secs = [(0, map entry (range_N 0 (N.to_nat size)))]).
      { unfold xq_secs, plain_secs. rewrite Hsec. reflexivity. }
      assert (El : Z.of_nat (length (map entry (range_N 0 (N.to_nat size)))) = Z.of_N size).
      { rewrite map_length, range_N_length. apply N_nat_Z. }
      pose proof xq_secs_ok as Hok. unfold xq_raw. rewrite Ex in *. inversion Hok as [|? ? Hs0 _]; subst.
      rewrite <- El. rewrite <- El in HS.
      apply xref_stream_default_Index; [exact xq_widths_sum|exact Hs0|exact HS|exact HW|].
      rewrite HI. apply xq_d1_none; [discriminate|].
      rewrite xq_get_other' by (try reflexivity; rewrite Hi; reflexivity). destruct Htr as [Hx _]. rewrite Hx.
      rewrite prevl_get by reflexivity. apply xq_fent_keys; discriminate.
  Qed.

  Lemma xq_d1_size : dict_get xq_d1 Xref.K_Size = Some (OInt (Z.of_N size)).
  Proof. rewrite xq_d1_get by discriminate. apply dict_get_denote. exact xq_get_size. Qed.
  Lemma xq_d1_w : dict_get xq_d1 Xref.K_W = Some (OArr [OInt (Z.of_nat xq_w0); OInt (Z.of_nat xq_w1); OInt (Z.of_nat xq_w2)]).
  Proof. rewrite xq_d1_get by discriminate. apply dict_get_denote_arr; [exact xq_get_w|exact I]. Qed.

  (* ---------- what Stream::decompress leaves of the dictionary, and the dictionary the decoder sees ---------- *)
  Definition xq_d2 : dict :=
    dict_set (dict_swap_remove (dict_swap_remove xq_d1 K_DecodeParms) K_Filter) K_Length (OInt (Z.of_nat (length xq_raw))).
  Definition xq_dl : dict := match xs_filter x with SfNone => xq_d1 | _ => xq_d2 end.
  Definition xq_t : dict := LoadProofsStream.sr3 xq_dl.

  Lemma xq_d2_wf : dict_wf xq_d2.
  Proof. apply dict_set_wf. repeat apply swap_remove_wf. exact xq_d1_wf. Qed.
  Lemma xq_d2_get k : k <> K_Length -> k <> K_Filter -> k <> K_DecodeParms -> dict_get xq_d2 k = dict_get xq_d1 k.
  Proof.
    intros N1 N2 N3. unfold xq_d2. rewrite dict_get_set_other by exact N1.
    rewrite dict_get_swap_remove_other; [|apply swap_remove_wf; exact xq_d1_wf|exact N2].
    apply dict_get_swap_remove_other; [exact xq_d1_wf|exact N3].
  Qed.
  Lemma xq_dl_wf : dict_wf xq_dl.
  Proof. unfold xq_dl. destruct (xs_filter x); first [exact xq_d1_wf|exact xq_d2_wf]. Qed.
  Lemma xq_dl_get k : k <> K_Length -> k <> K_Filter -> k <> K_DecodeParms -> dict_get xq_dl k = dict_get xq_dd k.
  Proof.
    intros N1 N2 N3. unfold xq_dl. destruct (xs_filter x); try (rewrite xq_d2_get by assumption); apply xq_d1_get; exact N1.
  Qed.

  (* ending A: no filter (any decompress) *)
  Lemma xq_parse_plain pre post : xs_filter x = SfNone ->
    xref_and_trailer_x dec can (pre ++ top_text xq_top ++ post) (blen pre) = SOk (xq_x0, xq_t).
  Proof.
    intro Hf. unfold xref_and_trailer_x. rewrite from_app, xq_not_table.
    destruct (indirect_x_top (pre ++ top_text xq_top ++ post) [] xq_top post xq_top_ok (proj2 Hid)) as [P1 _].
    rewrite P1. change (loaded_top xq_top) with (OStream xq_d1 data). cbv iota.
    assert (Hnf : dict_has xq_d1 K_Filter = false).
    { unfold dict_has. rewrite xq_d1_none; [reflexivity|discriminate|].
      rewrite xq_get_other' by (try reflexivity; apply xq_idx_none; reflexivity). destruct Htr as [_ [Hx _]]. rewrite Hx.
      rewrite prevl_get by reflexivity. rewrite (xq_enc_none Hf). reflexivity. }
    unfold filters_modelled. rewrite Hnf. cbn [negb orb]. unfold decode_xref_stream. rewrite Hnf.
    replace data with xq_raw by (rewrite (xq_enc_none Hf); reflexivity).
    rewrite (xq_decode xq_d1 xq_d1_size xq_d1_w eq_refl). unfold xq_t, xq_dl. rewrite Hf. reflexivity.
  Qed.

  (* ending B: a filter chain, Stream::decompress = lopdf's plumbing on the Gallina decoders *)
  Lemma xq_d1_get_fent k :
    bytes_eqb (bs "Type") k = false -> bytes_eqb RefWriter.K_Size k = false -> bytes_eqb (bs "W") k = false ->
    bytes_eqb (bs "Index") k = false -> bytes_eqb RefWriter.K_Length k = false -> bytes_eqb K_PrevW k = false ->
    dict_get (a_trailer a) k = None -> dict_get xq_d1 k = dict_get (snd xq_enc) k.
  Proof.
    intros E1 E2 E3 E4 E5 E6 Ht.
    assert (Hk : k <> K_Length) by (intro K; subst k; rewrite bytes_eqb_refl in E5; discriminate E5).
    rewrite (xq_d1_get k Hk).
    assert (Hx : dict_get xq_d k = dict_get (snd xq_enc) k).
    { rewrite xq_get_other' by (try assumption; apply xq_idx_none; exact E4). rewrite Ht, (prevl_get k E6). reflexivity. }
    destruct (dict_get (snd xq_enc) k) as [v|] eqn:Ef.
    - unfold xq_dd. apply dict_get_denote_plain; [exact Hx|]. exact (fent_plain _ _ _ _ _ _ Ef).
    - unfold xq_dd. apply dict_get_denote_none. exact Hx.
  Qed.

  Lemma xq_raw_rows : xq_raw <> [] /\ length xq_raw = (length xq_ents * (xq_w0 + xq_w1 + xq_w2))%nat.
  Proof.
    assert (Hl : length xq_raw = (length xq_ents * (xq_w0 + xq_w1 + xq_w2))%nat) by (unfold xq_raw, xq_ents; apply enc_sections_length).
    split; [|exact Hl]. intro E. rewrite E in Hl. cbn [length] in Hl.
    pose proof xq_widths_sum as Hw. destruct Hself as [k [Hk _]]. pose proof (xq_key_ent k Hk) as Hx.
    destruct xq_ents as [|e0 es]; [contradiction|]. cbn [length] in Hl. nia.
  Qed.

  Lemma xq_parse_filt pre post : xs_filter x <> SfNone ->
    N.of_nat (xq_w0 + xq_w1 + xq_w2) <= Png.USIZE_MAX -> dict_get (a_trailer a) K_DecodeParms = None ->
    xref_and_trailer_x decompress_ref can_ref (pre ++ top_text xq_top ++ post) (blen pre) = SOk (xq_x0, xq_t).
  Proof.
    intros Hflt Hwmax Hdp. unfold xref_and_trailer_x. rewrite from_app, xq_not_table.
    destruct (indirect_x_top (pre ++ top_text xq_top ++ post) [] xq_top post xq_top_ok (proj2 Hid)) as [P1 _].
    rewrite P1. change (loaded_top xq_top) with (OStream xq_d1 data). cbv iota.
    unfold filters_modelled, can_ref. rewrite orb_true_r. unfold decode_xref_stream.
    assert (Hff : dict_has xq_d1 K_Filter = true).
    { unfold dict_has. rewrite xq_d1_get_fent; try reflexivity; [|apply Htr].
      assert (H : dict_get (snd xq_enc) K_Filter <> None) by (apply fent_has_filter; exact Hflt).
      destruct (dict_get (snd xq_enc) K_Filter); [reflexivity|contradiction]. }
    assert (Hdec : decompress_ref xq_d1 data = Some (xq_d2, xq_raw)).
    { destruct xq_raw_rows as [Hne Hl]. unfold xq_d2. apply decompress_ref_ok.
      apply (chain_decodes (xs_filter x) (xq_w0 + xq_w1 + xq_w2) (length xq_ents) (xs_array x) xq_raw xq_d1 Hflt); try assumption.
      - pose proof xq_widths_sum. lia.
      - apply xq_d1_get_fent; try reflexivity. apply Htr.
      - apply xq_d1_get_fent; try reflexivity. exact Hdp. }
    rewrite Hff, Hdec. rewrite (xq_decode xq_d2); [unfold xq_t, xq_dl; destruct (xs_filter x); [congruence|reflexivity..]| | |].
    - rewrite xq_d2_get by discriminate. exact xq_d1_size.
    - rewrite xq_d2_get by discriminate. exact xq_d1_w.
    - apply xq_d2_get; discriminate.
  Qed.

  (* THE SECTION, at its offset in any buffer *)
  Theorem xq_parse pre post :
    xref_and_trailer_x dec can (pre ++ top_text xq_top ++ post) (blen pre) = SOk (xq_x0, xq_t).
  Proof.
    pose proof Hfilt as Hfilt0. destruct Hfilt0 as [Hf|[Ed [Ec [Hw Hdp]]]]; [apply xq_parse_plain; exact Hf|].
    assert (Hd : xs_filter x = SfNone \/ xs_filter x <> SfNone).
    { generalize (xs_filter x). intros [| | | |]; [left; reflexivity|right; discriminate..]. }
    destruct Hd as [Ef|Ef]; [apply xq_parse_plain; exact Ef|]. rewrite Ed, Ec. apply xq_parse_filt; assumption.
  Qed.

  (* the trailer read back *)
  Definition xq_tkey (k : bytes) : bool :=
    bytes_eqb k Xref.K_Index || bytes_eqb k Xref.K_W || bytes_eqb k Obj.K_Length || bytes_eqb k K_Filter || bytes_eqb k K_DecodeParms.

  Lemma xq_t_get k : xq_tkey k = false -> dict_get xq_t k = dict_get xq_dd k.
  Proof.
    intro E. unfold xq_tkey in E. apply orb_false_iff in E as [E E5]. apply orb_false_iff in E as [E E4].
    unfold xq_t. rewrite (LoadProofsStream.sr3_get xq_dl k xq_dl_wf), E.
    apply orb_false_iff in E as [_ E3].
    apply xq_dl_get; intro K; subst k; rewrite bytes_eqb_refl in *; discriminate.
  Qed.

  Lemma xq_t_wf : dict_wf xq_t.
  Proof. apply LoadProofsStream.sr3_wf, xq_dl_wf. Qed.

  Lemma xq_t_prev : dict_get xq_t K_Prev = match prevl with [(_, v)] => Some v | _ => None end.
  Proof.
    rewrite xq_t_get by reflexivity. unfold xq_dd. destruct Htr as [_ [_ [Hp _]]].
    destruct Hprevl as [E|[q E]]; rewrite E.
    - apply dict_get_denote_none. rewrite xq_get_other by reflexivity. rewrite Hp, E. reflexivity.
    - apply dict_get_denote. rewrite xq_get_other by reflexivity. rewrite Hp, E. reflexivity.
  Qed.

  Lemma xq_t_none k : xq_tkey k = false ->
    bytes_eqb (bs "Type") k = false -> bytes_eqb RefWriter.K_Size k = false -> bytes_eqb (bs "W") k = false ->
    bytes_eqb (bs "Index") k = false -> bytes_eqb RefWriter.K_Length k = false -> bytes_eqb K_PrevW k = false ->
    dict_get (a_trailer a) k = None -> dict_get xq_t k = None.
  Proof.
    intros E0 E1 E2 E3 E4 E5 E6 Ht. rewrite xq_t_get by exact E0. apply dict_get_denote_none.
    unfold xq_tkey in E0. apply orb_false_iff in E0 as [E0 E8]. apply orb_false_iff in E0 as [_ E7].
    rewrite xq_get_other by assumption. rewrite Ht. apply prevl_get. exact E6.
  Qed.

  (* everything the multi-section development needs, in one statement *)
  Definition xq_facts : Prop :=
    top_ok xq_top /\
    (forall pre post, xref_and_trailer_x dec can (pre ++ top_text xq_top ++ post) (blen pre) = SOk (xq_x0, xq_t)) /\
    dict_get xq_t K_Prev = match prevl with [(_, v)] => Some v | _ => None end /\
    (forall k, xq_tkey k = false ->
               bytes_eqb (bs "Type") k = false -> bytes_eqb RefWriter.K_Size k = false -> bytes_eqb (bs "W") k = false ->
               bytes_eqb (bs "Index") k = false -> bytes_eqb RefWriter.K_Length k = false -> bytes_eqb K_PrevW k = false ->
               dict_get (a_trailer a) k = None -> dict_get xq_t k = None) /\
    dict_wf xq_t /\ NoDup (map fst xq_numb) /\
    (forall k, xq_tkey k = false -> dict_get xq_t k = dict_get xq_dd k) /\
    (forall k, bytes_eqb (bs "Type") k = false -> bytes_eqb RefWriter.K_Size k = false -> bytes_eqb (bs "W") k = false ->
               bytes_eqb (bs "Index") k = false -> bytes_eqb RefWriter.K_Length k = false ->
               bytes_eqb k K_Filter = false -> bytes_eqb k K_DecodeParms = false ->
               dict_get xq_d k = match dict_get (a_trailer a) k with Some v => Some v | None => dict_get prevl k end) /\
    dict_get xq_t Xref.K_Size = Some (OInt (Z.of_N size)).
  Lemma xq_all : xq_facts.
  Proof.
    split; [exact xq_top_ok|]. split; [exact xq_parse|]. split; [exact xq_t_prev|]. split; [exact xq_t_none|].
    split; [exact xq_t_wf|]. split; [exact xq_numb_nodup|]. split; [exact xq_t_get|]. split; [exact xq_get_other|].
    rewrite xq_t_get by reflexivity. apply dict_get_denote. exact xq_get_size.
  Qed.
End XSec.

(* the hypotheses of the section, bundled *)
Definition xq_hyps (a : adoc) (x : xsstyle) (entry : N -> sentry) (secs : list (N * N)) (size : N) (prevl : list (bytes * obj))
           (dec : dict -> bytes -> option (dict * bytes)) (can : dict -> bool) : Prop :=
  (xs_filter x = SfNone \/
   (dec = decompress_ref /\ can = can_ref /\
    N.of_nat (xq_w0 x entry secs + xq_w1 x entry secs + xq_w2 x entry secs) <= Png.USIZE_MAX /\
    dict_get (a_trailer a) K_DecodeParms = None)) /\ secs_increasing 0 secs = true /\ (forall f c, In (f, c) secs -> 1 <= c /\ f + c <= size) /\
  size <= u32_max /\
  (forall k, In k (keys_of secs) -> a_of (entry k) < two32 /\ b_of (entry k) < 65536 /\ entry_in_range (entry k)) /\
  (exists k, In k (keys_of secs) /\ 0 < a_of (entry k)) /\
  (spell_wf (ODict (xq_d a x entry secs size prevl)) (i_obj (xs_istyle x)) /\
   (nest (ODict (xq_d a x entry secs size prevl)) <= MAX_DEPTH)%nat) /\
  (dict_get (a_trailer a) Xref.K_Index = None /\ dict_get (a_trailer a) K_Filter = None /\
   dict_get (a_trailer a) K_Prev = None /\ dict_get (a_trailer a) K_Encrypt = None /\
   dict_get (a_trailer a) K_XRefStm = None) /\
  (prevl = [] \/ exists q, prevl = [(K_PrevW, OInt (Z.of_N q))]) /\
  1 <= xs_id x <= u32_max.

Lemma xq_all' a x entry secs size prevl dec can : xq_hyps a x entry secs size prevl dec can -> xq_facts a x entry secs size prevl dec can.
Proof. intros [H1 [H2 [H3 [H4 [H5 [H6 [H7 [H8 [H9 H10]]]]]]]]]. apply (xq_all a x entry secs size 0 prevl dec can); assumption. Qed.
