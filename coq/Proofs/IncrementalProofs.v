(* IncrementalProofs.v -- C07, save side: the incremental save emits the previous bytes verbatim as
   a prefix (for ALL previous bytes and all new documents, also when the save fails), then ONLY the
   new objects with exact offsets, one cross-reference section whose Prev is the previous xref
   start; edits and saving never touch the previous view. *)
From LV Require Import Base.Bytes Base.Sx Model.Obj Model.DocQ Model.Writer Model.Save Model.Incremental Gen.Inc.

Local Open Scope N_scope.

(* ---------- prefix ---------- *)
Lemma firstn_app_exact {A} (l r : list A) : firstn (length l) (l ++ r) = l.
Proof.
  rewrite firstn_app, Nat.sub_diag. cbn [firstn]. rewrite app_nil_r. apply firstn_all.
Qed.

Theorem inc_save_prefix : forall s,
  firstn (length (i_bytes s)) (io_bytes (inc_save s)) = i_bytes s.
Proof.
  intro s. unfold inc_save.
  destruct (u32_top <=? d_max_id (xd_doc (i_new s))); cbn [io_bytes]; [apply firstn_all|].
  destruct (negb (binary_mark_ok (d_binary_mark (xd_doc (i_new s))))); cbn [io_bytes]; [apply firstn_app_exact|].
  destruct (write_objects (start_count (i_bytes s) + blen (inc_head s)) (d_objects (xd_doc (i_new s))) [])
    as [[ob pos] x].
  destruct (xd_type (i_prev s)); cbn [io_bytes]; [apply firstn_app_exact|].
  destruct (u32_top <=? d_max_id (xd_doc (i_new s)) + 1); cbn [io_bytes]; [apply firstn_app_exact|].
  destruct (xstream_parts (xd_doc (i_new s)) x (pos mod u32_mod)) as [[t content] x1].
  cbn [io_bytes]. apply firstn_app_exact.
Qed.

(* the same as an equation: the output IS the previous bytes followed by something *)
Theorem inc_save_appends : forall s, exists suffix, io_bytes (inc_save s) = i_bytes s ++ suffix.
Proof.
  intro s. exists (skipn (length (i_bytes s)) (io_bytes (inc_save s))).
  rewrite <- (inc_save_prefix s) at 1. symmetry. apply firstn_skipn.
Qed.

(* ---------- only the new objects, exact offsets ---------- *)
Definition wio (io : oid * obj) : bytes := write_indirect_object (fst (fst io)) (snd (fst io)) (snd io).

Lemma blen_app a b : blen (a ++ b) = blen a + blen b.
Proof. unfold blen. rewrite app_length. lia. Qed.

Lemma write_objects_spec : forall objs pos x,
  let '(b, pos', _) := write_objects pos objs x in
  b = flat_map wio (written objs) /\ pos' = pos + blen b.
Proof.
  induction objs as [|[[id g] o] objs IH]; intros pos x; cbn [write_objects].
  - cbn. split; [reflexivity|unfold blen; cbn; lia].
  - unfold written. cbn [filter snd]. fold (written objs).
    destruct (skipped o) eqn:Hs; cbn [negb].
    + apply IH.
    + specialize (IH (pos + blen (write_indirect_object id g o))
                     (xinsert x id (XNormal (pos mod u32_mod) g))).
      destruct (write_objects (pos + blen (write_indirect_object id g o)) objs
                              (xinsert x id (XNormal (pos mod u32_mod) g))) as [[b' pos'] x'].
      destruct IH as [Hb Hp]. cbn [flat_map]. unfold wio at 1. cbn [fst snd].
      split; [rewrite Hb; reflexivity|]. rewrite Hp, blen_app. lia.
Qed.

Lemma xget_xinsert x k e k' : xget (xinsert x k e) k' = if k =? k' then Some e else xget x k'.
Proof.
  induction x as [|[a ea] x IH]; cbn [xinsert xget].
  - reflexivity.
  - destruct (a =? k) eqn:Eak.
    + apply N.eqb_eq in Eak; subst a. cbn [xget]. destruct (k =? k'); reflexivity.
    + destruct (k <? a).
      * cbn [xget]. destruct (k =? k'); reflexivity.
      * cbn [xget]. rewrite IH. destruct (a =? k') eqn:Eak'; [|reflexivity].
        apply N.eqb_eq in Eak'; subst a. rewrite N.eqb_sym, Eak. reflexivity.
Qed.

(* object numbers written by the loop *)
Definition numbers (l : objmap) : list N := map (fun io => fst (fst io)) l.

Lemma write_objects_frame : forall objs pos x n,
  ~ In n (numbers (written objs)) ->
  let '(_, _, x') := write_objects pos objs x in xget x' n = xget x n.
Proof.
  induction objs as [|[[id g] o] objs IH]; intros pos x n Hn; cbn [write_objects].
  - reflexivity.
  - unfold written in Hn. cbn [filter snd] in Hn. fold (written objs) in Hn.
    destruct (skipped o) eqn:Hs; cbn [negb] in Hn.
    + apply IH. exact Hn.
    + cbn [numbers map fst] in Hn.
      specialize (IH (pos + blen (write_indirect_object id g o)) (xinsert x id (XNormal (pos mod u32_mod) g)) n).
      destruct (write_objects (pos + blen (write_indirect_object id g o)) objs
                              (xinsert x id (XNormal (pos mod u32_mod) g))) as [[b' pos'] x'].
      rewrite IH by (intro H; apply Hn; right; exact H).
      rewrite xget_xinsert. destruct (id =? n) eqn:E; [|reflexivity].
      apply N.eqb_eq in E. exfalso. apply Hn. left. exact E.
Qed.

(* offsets_exact: the entry of every written object is the value of the byte counter where its
   "id gen obj" starts (truncated to u32 as the code does), provided no later object re-uses the number *)
Lemma write_objects_offsets : forall objs pos x l1 id g o l2,
  written objs = l1 ++ ((id, g), o) :: l2 ->
  ~ In id (numbers l2) ->
  let '(_, _, x') := write_objects pos objs x in
  xget x' id = Some (XNormal ((pos + blen (flat_map wio l1)) mod u32_mod) g).
Proof.
  induction objs as [|[[i gi] oi] objs IH]; intros pos x l1 id g o l2 Hw Hn; cbn [write_objects].
  - destruct l1; discriminate.
  - unfold written in Hw. cbn [filter snd] in Hw. fold (written objs) in Hw.
    destruct (skipped oi) eqn:Hs; cbn [negb] in Hw.
    + apply (IH pos x l1 id g o l2 Hw Hn).
    + destruct l1 as [|h l1].
      * cbn [app] in Hw.
        assert (i = id /\ gi = g /\ oi = o /\ written objs = l2) as (-> & -> & -> & Hl)
          by (inversion Hw; auto).
        pose proof (write_objects_frame objs (pos + blen (write_indirect_object id g o))
                      (xinsert x id (XNormal (pos mod u32_mod) g)) id) as F.
        rewrite Hl in F. specialize (F Hn).
        destruct (write_objects (pos + blen (write_indirect_object id g o)) objs
                                (xinsert x id (XNormal (pos mod u32_mod) g))) as [[b' pos'] x'].
        rewrite F, xget_xinsert, N.eqb_refl. cbn [flat_map]. unfold blen at 1. cbn [length].
        rewrite N.add_0_r. reflexivity.
      * cbn [app] in Hw.
        assert (h = ((i, gi), oi) /\ written objs = l1 ++ ((id, g), o) :: l2) as (-> & Hl)
          by (inversion Hw; auto).
        specialize (IH (pos + blen (write_indirect_object i gi oi))
                       (xinsert x i (XNormal (pos mod u32_mod) gi)) l1 id g o l2 Hl Hn).
        destruct (write_objects (pos + blen (write_indirect_object i gi oi)) objs
                                (xinsert x i (XNormal (pos mod u32_mod) gi))) as [[b' pos'] x'].
        rewrite IH. cbn [flat_map]. unfold wio at 2. cbn [fst snd]. rewrite blen_app.
        rewrite N.add_assoc. reflexivity.
Qed.

(* the appended part of a successful save *)
Definition inc_xref_part (s : incdoc) (x : xmap) (pos : N) : bytes :=
  let nd := xd_doc (i_new s) in
  match xd_type (i_prev s) with
  | XTable => write_xref x (d_max_id nd + 1) ++ trailer_bytes (trailer_table nd)
  | XStream =>
    let '(t, content, _) := xstream_parts nd x (pos mod u32_mod) in
    write_indirect_object (d_max_id nd + 1) 0 (OStream t content)
  end.

Theorem inc_save_only_new : forall s,
  io_status (inc_save s) = IncOk ->
  let nd := xd_doc (i_new s) in
  let objs := flat_map wio (written (d_objects nd)) in
  let start := start_count (i_bytes s) + blen (inc_head s) in
  exists x,
    (* bytes: previous file, separator + header + mark, the new objects and nothing else, ONE
       cross-reference section, startxref *)
    io_bytes (inc_save s) =
      i_bytes s ++ inc_head s ++ objs ++ inc_xref_part s x (start + blen objs) ++ startxref_bytes (start + blen objs) /\
    io_start (inc_save s) = start + blen objs /\
    (* the section lists exactly the new objects, each at the offset where it starts *)
    (forall n, ~ In n (numbers (written (d_objects nd))) -> xget x n = None) /\
    (forall l1 id g o l2, written (d_objects nd) = l1 ++ ((id, g), o) :: l2 -> ~ In id (numbers l2) ->
       xget x id = Some (XNormal ((start + blen (flat_map wio l1)) mod u32_mod) g)).
Proof.
  intros s Hok nd objs start. unfold inc_save in *. fold nd in Hok |- *.
  destruct (u32_top <=? d_max_id nd); [discriminate|].
  destruct (negb (binary_mark_ok (d_binary_mark nd))); [discriminate|].
  fold start in Hok |- *.
  pose proof (write_objects_spec (d_objects nd) start []) as Hspec.
  pose proof (fun n => write_objects_frame (d_objects nd) start [] n) as Hframe.
  pose proof (fun l1 id g o l2 => write_objects_offsets (d_objects nd) start [] l1 id g o l2) as Hoff.
  destruct (write_objects start (d_objects nd) []) as [[ob pos] x].
  destruct Hspec as [Hob Hpos]. fold objs in Hob. subst ob pos.
  exists x. unfold inc_xref_part. fold nd.
  destruct (xd_type (i_prev s)).
  - cbn [io_bytes io_start]. split; [|split; [reflexivity|split]].
    + cbv zeta. rewrite <- ?app_assoc. reflexivity.
    + intros n Hn. apply (Hframe n Hn).
    + intros l1 id g o l2 H1 H2. apply (Hoff l1 id g o l2 H1 H2).
  - destruct (u32_top <=? d_max_id nd + 1); [discriminate|].
    destruct (xstream_parts nd x ((start + blen objs) mod u32_mod)) as [[t content] x1].
    cbn [io_bytes io_start]. split; [|split; [reflexivity|split]].
    + cbv zeta. rewrite <- ?app_assoc. reflexivity.
    + intros n Hn. apply (Hframe n Hn).
    + intros l1 id g o l2 H1 H2. apply (Hoff l1 id g o l2 H1 H2).
Qed.

(* ---------- Prev names the previous cross-reference section ---------- *)
Lemma dict_get_set_same d k v : dict_get (dict_set d k v) k = Some v.
Proof.
  induction d as [|[k' v'] d IH]; cbn [dict_set dict_get].
  - rewrite bytes_eqb_refl. reflexivity.
  - destruct (bytes_eqb k' k) eqn:E; cbn [dict_get]; rewrite E; [reflexivity|exact IH].
Qed.

Lemma dict_get_set_other d k v k' : k <> k' -> dict_get (dict_set d k v) k' = dict_get d k'.
Proof.
  intro Hne. induction d as [|[k0 v0] d IH]; cbn [dict_set dict_get].
  - destruct (bytes_eqb k k') eqn:E; [apply bytes_eqb_eq in E; contradiction|reflexivity].
  - destruct (bytes_eqb k0 k) eqn:E; cbn [dict_get].
    + apply bytes_eqb_eq in E; subst k0.
      destruct (bytes_eqb k k') eqn:E'; [apply bytes_eqb_eq in E'; contradiction|reflexivity].
    + destruct (bytes_eqb k0 k'); [reflexivity|exact IH].
Qed.

Theorem new_from_prev_links : forall prev,
  dict_get (d_trailer (xd_doc (new_from_prev prev))) K_Prev = Some (OInt (Z.of_N (xd_start prev))) /\
  d_objects (xd_doc (new_from_prev prev)) = [] /\
  d_max_id (xd_doc (new_from_prev prev)) = d_max_id (xd_doc prev) /\
  xd_type (new_from_prev prev) = xd_type prev.
Proof.
  intro prev. unfold new_from_prev. cbn [xd_doc d_trailer d_objects d_max_id xd_type].
  split; [apply dict_get_set_same|]. repeat split.
Qed.

(* the table trailer written by the save still carries that Prev (Size is another key) *)
Theorem inc_table_trailer_prev : forall s,
  dict_get (trailer_table (xd_doc (i_new s))) K_Prev = dict_get (d_trailer (xd_doc (i_new s))) K_Prev.
Proof.
  intro s. unfold trailer_table. apply dict_get_set_other. vm_compute. discriminate.
Qed.

(* ---------- frame: the previous view is never modified ---------- *)
Definition same_history (s s' : incdoc) : Prop :=
  i_bytes s' = i_bytes s /\ i_prev s' = i_prev s /\
  d_trailer (xd_doc (i_new s')) = d_trailer (xd_doc (i_new s)) /\
  xd_type (i_new s') = xd_type (i_new s).

Lemma same_history_refl s : same_history s s.
Proof. repeat split. Qed.
Lemma same_history_trans a b c : same_history a b -> same_history b c -> same_history a c.
Proof. intros (A1 & A2 & A3 & A4) (B1 & B2 & B3 & B4). repeat split; congruence. Qed.

Lemma set_new_objects_same s m : same_history s (set_new_objects s m).
Proof. repeat split. Qed.
Lemma set_object_same s id o : same_history s (set_object s id o).
Proof. apply set_new_objects_same. Qed.
Lemma add_object_same s o s' id : add_object s o = Some (s', id) -> same_history s s'.
Proof.
  unfold add_object. destruct (u32_top <=? d_max_id (xd_doc (i_new s))); [discriminate|].
  intro H. inversion H; subst. repeat split.
Qed.
Lemma opt_clone_same s id s' : opt_clone s id = Some s' -> same_history s s'.
Proof.
  unfold opt_clone. destruct (lookup (new_objects s) id).
  - intro H; inversion H; subst. apply same_history_refl.
  - destruct (get_object (prev_objects s) id); [|discriminate].
    intro H; inversion H; subst. apply set_object_same.
Qed.
Lemma get_or_create_resources_same s page : same_history s (fst (get_or_create_resources s page)).
Proof.
  unfold get_or_create_resources, get_or_create_resources_with.
  destruct (opt_clone s page) as [s1|] eqn:H1; [|apply same_history_refl].
  apply opt_clone_same in H1.
  destruct (get_object (new_objects s1) page) as [[| | | | | | |pd| |]|]; try exact H1.
  destruct (if dict_has pd K_Resources
            then match dict_get pd K_Resources with Some (ORef i g) => Some (i, g) | _ => None end
            else None) as [rid|].
  - destruct (opt_clone s1 rid) as [s2|] eqn:H2; [|exact H1].
    apply opt_clone_same in H2.
    destruct (get_object_mut_id (new_objects s2) rid); cbn [fst]; eapply same_history_trans; eauto.
  - destruct (get_object_mut_id (new_objects s1) page) as [t|]; [|exact H1].
    destruct (lookup (new_objects s1) t) as [[| | | | | | |td| |]|]; try exact H1.
    cbn [fst]. destruct (dict_has td K_Resources); [exact H1|].
    eapply same_history_trans; [exact H1|apply set_new_objects_same].
Qed.
Lemma add_xobject_same s page name xid : same_history s (fst (add_xobject s page name xid)).
Proof.
  unfold add_xobject.
  pose proof (get_or_create_resources_same s page) as H0.
  destruct (get_or_create_resources s page) as [s1 [rp|]]; cbn [fst] in H0; [|exact H0].
  destruct (place_get (new_objects s1) rp) as [[| | | | | | |rd| |]|]; try exact H0.
  set (rd1 := if dict_has rd K_XObject then rd else dict_set rd K_XObject (ODict [])).
  destruct (dict_get rd1 K_XObject) as [[| | | | | | |xd| |i g]|]; cbn [fst];
    try (eapply same_history_trans; [exact H0|apply set_new_objects_same]).
  destruct (get_object (place_set (new_objects s1) rp (ODict rd1)) (i, g)); cbn [fst];
    [|eapply same_history_trans; [exact H0|apply set_new_objects_same]].
  destruct (get_object_mut_id (place_set (new_objects s1) rp (ODict rd1)) (i, g)) as [t|]; cbn [fst];
    [|eapply same_history_trans; [exact H0|apply set_new_objects_same]].
  destruct (lookup (place_set (new_objects s1) rp (ODict rd1)) t) as [[| | | | | | |xd| |]|]; cbn [fst];
    try (eapply same_history_trans; [exact H0|apply set_new_objects_same]).
  eapply same_history_trans; [exact H0|].
  eapply same_history_trans; apply set_new_objects_same.
Qed.

(* prev_view_unchanged: after create_from and ANY sequence of the modelled edits, the previous
   bytes, the previous view, the Prev link and the table type are those of create_from *)
Inductive edit :=
| ESet (id : oid) (o : obj) | EAdd (o : obj) | EClone (id : oid) | ERes (page : oid)
| EXobj (page : oid) (name : bytes) (x : oid).

Definition apply_edit (s : incdoc) (e : edit) : incdoc :=
  match e with
  | ESet id o => set_object s id o
  | EAdd o => match add_object s o with Some (s', _) => s' | None => s end
  | EClone id => match opt_clone s id with Some s' => s' | None => s end
  | ERes page => fst (get_or_create_resources s page)
  | EXobj page name x => fst (add_xobject s page name x)
  end.

Lemma apply_edit_same s e : same_history s (apply_edit s e).
Proof.
  destruct e; cbn [apply_edit].
  - apply set_object_same.
  - destruct (add_object s o) as [[s' id]|] eqn:H; [eapply add_object_same; exact H|apply same_history_refl].
  - destruct (opt_clone s id) eqn:H; [eapply opt_clone_same; exact H|apply same_history_refl].
  - apply get_or_create_resources_same.
  - apply add_xobject_same.
Qed.

Theorem prev_view_unchanged : forall prev_bytes prev edits,
  let s := fold_left apply_edit edits (create_from prev_bytes prev) in
  i_bytes s = prev_bytes /\ i_prev s = prev /\
  dict_get (d_trailer (xd_doc (i_new s))) K_Prev = Some (OInt (Z.of_N (xd_start prev))) /\
  firstn (length prev_bytes) (io_bytes (inc_save s)) = prev_bytes.
Proof.
  intros prev_bytes prev edits.
  assert (H : forall s0, same_history s0 (fold_left apply_edit edits s0)).
  { induction edits as [|e edits IH]; intro s0; cbn [fold_left]; [apply same_history_refl|].
    eapply same_history_trans; [apply apply_edit_same|apply IH]. }
  specialize (H (create_from prev_bytes prev)). cbv zeta.
  destruct H as (H1 & H2 & H3 & H4).
  cbn [create_from i_bytes i_prev i_new] in H1, H2, H3.
  split; [exact H1|]. split; [exact H2|]. split.
  - rewrite H3. apply new_from_prev_links.
  - rewrite <- H1 at 1. rewrite inc_save_prefix. exact H1.
Qed.

(* ---------- Prev through the cross-reference stream dictionary ---------- *)
(* Dictionary::remove is IndexMap::swap_remove; on a dictionary with unique keys (IndexMap's invariant) it
   does not disturb the other keys. *)
Lemma dict_get_app a b k :
  dict_get (a ++ b) k = match dict_get a k with Some v => Some v | None => dict_get b k end.
Proof.
  induction a as [|[k0 v0] a IH]; cbn [app dict_get]; [reflexivity|].
  destruct (bytes_eqb k0 k); [reflexivity|exact IH].
Qed.

Lemma dict_split d k v :
  dict_get d k = Some v -> exists a b, d = a ++ (k, v) :: b /\ dict_get a k = None.
Proof.
  induction d as [|[k0 v0] d IH]; cbn [dict_get]; [discriminate|].
  destruct (bytes_eqb k0 k) eqn:E.
  - intro H. inversion H; subst. apply bytes_eqb_eq in E; subst. exists [], d. split; reflexivity.
  - intro H. destruct (IH H) as (a & b & -> & Ha). exists ((k0, v0) :: a), b. split; [reflexivity|].
    cbn [dict_get]. rewrite E. exact Ha.
Qed.

Lemma swap_go_spec k kl vl : forall a v b,
  dict_get a k = None ->
  (fix go (d : dict) : dict :=
     match d with
     | [] => []
     | (k', v') :: d' => if bytes_eqb k' k then (kl, vl) :: removelast d' else (k', v') :: go d'
     end) (a ++ (k, v) :: b) = a ++ (kl, vl) :: removelast b.
Proof.
  induction a as [|[k0 v0] a IH]; intros v b Ha.
  - simpl. rewrite bytes_eqb_refl. reflexivity.
  - cbn [dict_get] in Ha. destruct (bytes_eqb k0 k) eqn:E; [discriminate|].
    simpl. rewrite E. f_equal. apply IH. exact Ha.
Qed.

Lemma NoDup_app_r {A} (l1 l2 : list A) : NoDup (l1 ++ l2) -> NoDup l2.
Proof. induction l1 as [|a l1 IH]; cbn [app]; [auto|]. intro H. inversion H; subst. auto. Qed.

Lemma NoDup_snoc {A} (l : list A) a : NoDup l -> ~ In a l -> NoDup (l ++ [a]).
Proof.
  induction l as [|b l IH]; cbn [app]; intros Hnd Hn.
  - constructor; [intros []|constructor].
  - inversion Hnd; subst. constructor.
    + intro Hin. apply in_app_or in Hin. destruct Hin as [Hin|[Hin|[]]]; [contradiction|].
      apply Hn. left. symmetry. exact Hin.
    + apply IH; [assumption|]. intro Hin. apply Hn. right. exact Hin.
Qed.

Lemma dict_get_swap_remove_other d k k' :
  NoDup (map fst d) -> k <> k' -> dict_get (dict_swap_remove d k) k' = dict_get d k'.
Proof.
  intros Hnd Hne. unfold dict_swap_remove, dict_has.
  destruct (dict_get d k) as [v|] eqn:Hk; [|reflexivity].
  destruct (dict_split d k v Hk) as (a & b & Hd & Ha).
  destruct (rev d) as [|[kl vl] r] eqn:Hr.
  - apply (f_equal (@rev _)) in Hr. rewrite rev_involutive in Hr. subst d. destruct a; discriminate.
  - assert (Hlast : d = rev r ++ [(kl, vl)]).
    { apply (f_equal (@rev _)) in Hr. rewrite rev_involutive in Hr. exact Hr. }
    destruct (bytes_eqb kl k) eqn:Ekl.
    + apply bytes_eqb_eq in Ekl; subst kl. rewrite Hlast, removelast_last, dict_get_app.
      cbn [dict_get]. destruct (bytes_eqb k k') eqn:E; [apply bytes_eqb_eq in E; contradiction|].
      destruct (dict_get (rev r) k'); reflexivity.
    + (* the removed entry is not the last one: b = b' ++ [(kl, vl)] *)
      assert (Hb : exists b', b = b' ++ [(kl, vl)]).
      { destruct b as [|x b] using rev_ind.
        - rewrite Hd in Hlast. apply app_inj_tail in Hlast. destruct Hlast as [_ Hl]. inversion Hl; subst.
          rewrite bytes_eqb_refl in Ekl. discriminate.
        - exists b. rewrite Hd in Hlast.
          replace (a ++ (k, v) :: b ++ [x]) with ((a ++ (k, v) :: b) ++ [x]) in Hlast
            by (rewrite <- app_assoc; reflexivity).
          apply app_inj_tail in Hlast. destruct Hlast as [_ ->]. reflexivity. }
      destruct Hb as [b' ->].
      rewrite Hd at 1. rewrite (swap_go_spec k kl vl a v (b' ++ [(kl, vl)]) Ha), removelast_last.
      rewrite Hd, !dict_get_app. cbn [dict_get].
      destruct (dict_get a k'); [reflexivity|].
      destruct (bytes_eqb k k') eqn:E; [apply bytes_eqb_eq in E; contradiction|].
      rewrite dict_get_app. cbn [dict_get].
      destruct (bytes_eqb kl k') eqn:E2; [|destruct (dict_get b' k'); reflexivity].
      apply bytes_eqb_eq in E2; subst k'.
      (* kl occurs only once *)
      assert (Hnone : dict_get b' kl = None).
      { destruct (dict_get b' kl) as [w|] eqn:G; [|reflexivity]. exfalso.
        destruct (dict_split b' kl w G) as (b1 & b2 & Hb' & _).
        rewrite Hd in Hnd. rewrite map_app in Hnd. apply NoDup_app_r in Hnd.
        cbn [map fst] in Hnd. inversion Hnd as [|? ? _ Hnd2]; subst.
        rewrite map_app in Hnd2. cbn [map fst] in Hnd2. apply NoDup_remove_2 in Hnd2.
        apply Hnd2. rewrite app_nil_r, map_app. cbn [map fst].
        apply in_or_app. right. left. reflexivity. }
      rewrite Hnone. reflexivity.
Qed.

Lemma dict_set_keys d k v :
  map fst (dict_set d k v) = if dict_has d k then map fst d else map fst d ++ [k].
Proof.
  unfold dict_has. induction d as [|[k0 v0] d IH]; cbn [dict_set dict_get map fst app]; [reflexivity|].
  destruct (bytes_eqb k0 k) eqn:E; cbn [map fst]; [reflexivity|].
  rewrite IH. destruct (dict_get d k); reflexivity.
Qed.

Lemma dict_set_nodup d k v : NoDup (map fst d) -> NoDup (map fst (dict_set d k v)).
Proof.
  intro H. rewrite dict_set_keys. unfold dict_has. destruct (dict_get d k) eqn:G; [exact H|].
  apply NoDup_snoc; [exact H|].
  intro Hin. apply in_map_iff in Hin. destruct Hin as ([k0 v0] & Hk & Hin). cbn [fst] in Hk. subst k0.
  clear H. induction d as [|[k1 v1] d IH]; [contradiction|]. cbn [dict_get] in G.
  destruct (bytes_eqb k1 k) eqn:E; [discriminate|]. destruct Hin as [Hin|Hin].
  - inversion Hin; subst. rewrite bytes_eqb_refl in E. discriminate.
  - exact (IH G Hin).
Qed.

Lemma fold_edits_same : forall edits s0, same_history s0 (fold_left apply_edit edits s0).
Proof.
  induction edits as [|e es IH]; intro s0; cbn [fold_left]; [apply same_history_refl|].
  eapply same_history_trans; [apply apply_edit_same|apply IH].
Qed.

(* the cross-reference stream dictionary written by the save carries the Prev of the new document's trailer *)
Theorem inc_stream_trailer_prev : forall nd x p t content x1,
  NoDup (map fst (d_trailer nd)) ->
  xstream_parts nd x p = (t, content, x1) ->
  dict_get t K_Prev = dict_get (d_trailer nd) K_Prev.
Proof.
  intros nd x p t content x1 Hnd H. unfold xstream_parts in H. cbv zeta in H.
  inversion H; subst. clear H.
  rewrite dict_get_set_other by (vm_compute; discriminate).
  rewrite dict_get_swap_remove_other;
    [|repeat apply dict_set_nodup; exact Hnd|vm_compute; discriminate].
  rewrite !dict_get_set_other by (vm_compute; discriminate). reflexivity.
Qed.

(* Prev of the written section = the previous xref_start, both cross-reference styles, after any edits *)
Theorem inc_save_prev_link : forall prev_bytes prev edits,
  NoDup (map fst (d_trailer (xd_doc prev))) ->
  let s := fold_left apply_edit edits (create_from prev_bytes prev) in
  let nd := xd_doc (i_new s) in
  dict_get (trailer_table nd) K_Prev = Some (OInt (Z.of_N (xd_start prev))) /\
  forall x p t content x1, xstream_parts nd x p = (t, content, x1) ->
                           dict_get t K_Prev = Some (OInt (Z.of_N (xd_start prev))).
Proof.
  intros prev_bytes prev edits Hnd s nd.
  destruct (prev_view_unchanged prev_bytes prev edits) as (_ & _ & Hp & _). fold s in Hp. fold nd in Hp.
  split.
  - unfold nd. rewrite inc_table_trailer_prev. exact Hp.
  - intros x p t content x1 H. rewrite (inc_stream_trailer_prev nd x p t content x1); [exact Hp| |exact H].
    (* the trailer of the new document is the previous trailer with Prev set: unique keys are preserved *)
    assert (Ht : d_trailer nd = d_trailer (xd_doc (new_from_prev prev))).
    { destruct (fold_edits_same edits (create_from prev_bytes prev)) as (_ & _ & G3 & _). exact G3. }
    rewrite Ht. unfold new_from_prev. cbn [xd_doc d_trailer]. apply dict_set_nodup. exact Hnd.
Qed.
