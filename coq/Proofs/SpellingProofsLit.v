(* SpellingProofsLit.v -- rung 2 of C02, literal strings: every escape form the reference writer's style denotes
   (raw bytes, raw LF, the two-character escapes, octal escapes with one, two or three digits, a backslash in
   front of a character that needs none, backslash-end-of-line continuations with each of the three markers)
   is read back by Model/Parser.v as the denoted byte string.
   PARTIAL: parentheses left raw (balanced) are not covered here -- c14's literal_string_rt covers them for
   lopdf's own spelling, the correspondence run for the others; raw CR / CR LF for LF is the open finding
   C02-raw-eol and is excluded. *)
From LV Require Import Base.Bytes Base.Sx Model.Obj Model.Writer Model.Parser Gen.Lex
  Spec.XrefSpec Spec.RefWriter Proofs.LexProofs Proofs.LitStringProofs.
Local Open Scope N_scope.

(* what may follow an octal escape of fewer than three digits: not an octal digit *)
Definition calm (X : bytes) : bool :=
  match X with c :: _ => negb (is_oct_digit c) | [] => true end.

(* ---------- one step of the parser ---------- *)
Lemma inner_backslash f depth t e r out r' :
  escape_after_backslash t = Some (e, r) -> inner_literal f depth r = Some (out, r') ->
  inner_literal (S f) depth (x5c :: t) = Some (match e with Some b => b :: out | None => out end, r').
Proof.
  intros He Hr. cbn [inner_literal]. destruct direct_facts as [F1 _]. rewrite F1.
  change (byte_eqb x5c x5c) with true. cbv iota. rewrite He, Hr. reflexivity.
Qed.

Lemma inner_direct f depth c t out r :
  is_direct_literal c = true -> inner_literal f depth t = Some (out, r) ->
  inner_literal (S f) depth (c :: t) = Some (c :: out, r).
Proof. intros Hc Hr. cbn [inner_literal]. rewrite Hc, Hr. reflexivity. Qed.

Lemma inner_lf f depth t out r :
  inner_literal f depth t = Some (out, r) -> inner_literal (S f) depth (x0a :: t) = Some (x0a :: out, r).
Proof.
  intro Hr. cbn [inner_literal]. destruct direct_facts as [_ [_ [_ [F4 _]]]]. rewrite F4.
  change (byte_eqb x0a x5c) with false. change (byte_eqb x0a x0d) with false.
  change (byte_eqb x0a x0a) with true. cbv iota. rewrite Hr. reflexivity.
Qed.

(* ---------- octal escapes ---------- *)
Lemma oct_digit_facts d : d < 8 -> is_oct_digit (oct_digit d) = true /\ N_of_byte (oct_digit d) - 48 = d.
Proof.
  intro H. unfold oct_digit.
  assert (E : N_of_byte (byte_of_N (48 + d)) = 48 + d) by (apply N_of_byte_of_N; lia).
  unfold is_oct_digit. rewrite E. split; [|lia].
  apply andb_true_iff; split; apply N.leb_le; lia.
Qed.

Lemma oct_char_3 X va vb vc :
  va < 8 -> vb < 8 -> vc < 8 ->
  oct_char (oct_digit va :: oct_digit vb :: oct_digit vc :: X) = Some (byte_of_N ((va * 8 + vb) * 8 + vc), X).
Proof.
  intros Ha Hb Hc. destruct (oct_digit_facts va Ha) as [A1 A2]. destruct (oct_digit_facts vb Hb) as [B1 B2].
  destruct (oct_digit_facts vc Hc) as [C1 C2]. unfold oct_char. rewrite A1, B1, C1, A2, B2, C2. reflexivity.
Qed.

Lemma oct_char_2 X va vb : va < 8 -> vb < 8 -> calm X = true ->
  oct_char (oct_digit va :: oct_digit vb :: X) = Some (byte_of_N (va * 8 + vb), X).
Proof.
  intros Ha Hb HX. destruct (oct_digit_facts va Ha) as [A1 A2]. destruct (oct_digit_facts vb Hb) as [B1 B2].
  unfold oct_char. rewrite A1, B1, A2, B2. destruct X as [|c t]; [reflexivity|].
  cbn [calm] in HX. apply negb_true_iff in HX. rewrite HX. reflexivity.
Qed.

Lemma oct_char_1 X va : va < 8 -> calm X = true -> oct_char (oct_digit va :: X) = Some (byte_of_N va, X).
Proof.
  intros Ha HX. destruct (oct_digit_facts va Ha) as [A1 A2]. unfold oct_char. rewrite A1, A2.
  destruct X as [|c t]; [reflexivity|].
  cbn [calm] in HX. apply negb_true_iff in HX. rewrite HX. reflexivity.
Qed.

Lemma escape_of_oct s b r : oct_char s = Some (b, r) -> escape_after_backslash s = Some (Some b, r).
Proof. intro H. unfold escape_after_backslash. rewrite H. reflexivity. Qed.

Lemma oct3_value v : v < 256 -> (v / 64 * 8 + (v / 8) mod 8) * 8 + v mod 8 = v.
Proof.
  intro H. pose proof (N.div_mod v 8 ltac:(discriminate)). pose proof (N.div_mod (v / 8) 8 ltac:(discriminate)).
  rewrite N.div_div in H1 by discriminate. change (8 * 8) with 64 in H1. lia.
Qed.

(* the escape the writer chooses for [digits], as decided by what follows *)
Lemma oct_escape_read digits b X :
  ((length (oct_escape digits b) <? 4)%nat = false \/ calm X = true) ->
  exists e, oct_escape digits b = x5c :: e /\ escape_after_backslash (e ++ X) = Some (Some b, X).
Proof.
  intro H. unfold oct_escape in *. set (v := N_of_byte b) in *.
  assert (Hv : v < 256) by apply N_of_byte_lt.
  assert (H3 : escape_after_backslash ([oct_digit (v / 64); oct_digit ((v / 8) mod 8); oct_digit (v mod 8)] ++ X)
               = Some (Some b, X)).
  { cbn [app]. apply escape_of_oct. rewrite oct_char_3.
    - rewrite oct3_value by exact Hv. unfold v. rewrite byte_of_N_of_byte. reflexivity.
    - apply N.div_lt_upper_bound; [discriminate|lia].
    - apply N.mod_lt. discriminate.
    - apply N.mod_lt. discriminate. }
  assert (H2 : v < 64 -> calm X = true ->
               escape_after_backslash ([oct_digit (v / 8); oct_digit (v mod 8)] ++ X) = Some (Some b, X)).
  { intros H64 HX. cbn [app]. apply escape_of_oct. rewrite oct_char_2; [| | |exact HX].
    - replace (v / 8 * 8 + v mod 8) with v by (pose proof (N.div_mod v 8 ltac:(discriminate)); lia).
      unfold v. rewrite byte_of_N_of_byte. reflexivity.
    - apply N.div_lt_upper_bound; [discriminate|lia].
    - apply N.mod_lt. discriminate. }
  assert (H1 : v < 8 -> calm X = true -> escape_after_backslash ([oct_digit v] ++ X) = Some (Some b, X)).
  { intros H8 HX. cbn [app]. apply escape_of_oct. rewrite oct_char_1 by assumption.
    unfold v. rewrite byte_of_N_of_byte. reflexivity. }
  destruct digits as [|[|[|k]]].
  - eexists. split; [reflexivity|exact H3].
  - destruct (v <? 8) eqn:E8; [|destruct (v <? 64) eqn:E64].
    + eexists. split; [reflexivity|]. apply H1; [apply N.ltb_lt; exact E8|]. destruct H as [H|H]; [discriminate H|exact H].
    + eexists. split; [reflexivity|]. apply H2; [apply N.ltb_lt; exact E64|]. destruct H as [H|H]; [discriminate H|exact H].
    + eexists. split; [reflexivity|exact H3].
  - destruct (v <? 64) eqn:E64.
    + eexists. split; [reflexivity|]. apply H2; [apply N.ltb_lt; exact E64|]. destruct H as [H|H]; [discriminate H|exact H].
    + eexists. split; [reflexivity|exact H3].
  - eexists. split; [reflexivity|exact H3].
Qed.

(* ---------- two-character escapes and the ignored backslash ---------- *)
Lemma short_escape_read b e X : short_escape b = Some e -> escape_after_backslash (e :: X) = Some (Some b, X).
Proof.
  unfold short_escape. intro H.
  Ltac short_case H k :=
    let E := fresh "E" in
    destruct (byte_eqb _ k) eqn:E in H;
    [ apply byte_eqb_eq in E; subst; inversion H; subst; reflexivity | clear E ].
  short_case H x0a. short_case H x0d. short_case H x09. short_case H x08.
  short_case H x0c. short_case H x28. short_case H x29. short_case H x5c.
  discriminate.
Qed.

Definition ign_facts (b : byte) : bool :=
  negb (ign_ok b) ||
  (negb (is_oct_digit b) && negb (byte_eqb b x0d) && negb (byte_eqb b x0a) &&
   match assoc_byte ESCAPE_LETTERS b with None => true | Some _ => false end).
Lemma ign_sweep : byte_forallb ign_facts = true. Proof. vm_compute. reflexivity. Qed.

Lemma ign_read b X : ign_ok b = true -> escape_after_backslash (b :: X) = Some (Some b, X).
Proof.
  intro H. pose proof (byte_forallb_spec _ ign_sweep b) as K. unfold ign_facts in K. rewrite H in K. cbn [negb orb] in K.
  apply andb_true_iff in K as [K K4]. apply andb_true_iff in K as [K K3]. apply andb_true_iff in K as [K1 K2].
  apply negb_true_iff in K1, K2, K3.
  unfold escape_after_backslash, oct_char. rewrite K1.
  assert (Ee : eol (b :: X) = PErr).
  { apply byte_eqb_neq in K2, K3. destruct b; try reflexivity; contradiction. }
  rewrite Ee. destruct (assoc_byte ESCAPE_LETTERS b); [discriminate|reflexivity].
Qed.

(* ---------- line continuations ---------- *)
Lemma cont_read e X : (match e, X with ECR, x0a :: _ => false | _, _ => true end) = true ->
  escape_after_backslash (eol_bytes e ++ X) = Some (None, X).
Proof.
  intro H. destruct e; cbn [eol_bytes app].
  - destruct X as [|c t]; [reflexivity|]. destruct c; try reflexivity. discriminate.
  - reflexivity.
  - reflexivity.
Qed.

Definition lf_head (X : bytes) : bool := match X with c :: _ => byte_eqb c x0a | [] => false end.
Definition is_ecr (e : eolk) : bool := match e with ECR => true | _ => false end.

Lemma w_conts_cons e cs next :
  w_conts (e :: cs) next =
  if is_ecr e && lf_head (w_conts cs next ++ next) then w_conts cs next
  else x5c :: eol_bytes e ++ w_conts cs next.
Proof.
  cbn [w_conts]. destruct e; cbn [is_ecr andb]; try reflexivity;
    destruct (w_conts cs next ++ next) as [|c t]; try reflexivity.
  cbn [lf_head]. destruct c; reflexivity.
Qed.

Lemma cont_read' e X : is_ecr e && lf_head X = false -> escape_after_backslash (eol_bytes e ++ X) = Some (None, X).
Proof.
  intro H. apply cont_read. destruct e; try reflexivity. cbn [is_ecr andb] in H.
  destruct X as [|c t]; [reflexivity|]. cbn [lf_head] in H. apply byte_eqb_neq in H. destruct c; try reflexivity. contradiction.
Qed.

Lemma w_conts_parse : forall cs X f depth out r,
  inner_literal f depth X = Some (out, r) ->
  exists f', inner_literal f' depth (w_conts cs X ++ X) = Some (out, r).
Proof.
  induction cs as [|e cs IH]; intros X f depth out r HX.
  - exists f. exact HX.
  - destruct (IH X f depth out r HX) as [f1 H1]. rewrite w_conts_cons.
    destruct (is_ecr e && lf_head (w_conts cs X ++ X)) eqn:E.
    + exists f1. exact H1.
    + exists (S f1). cbn [app]. rewrite <- app_assoc.
      exact (inner_backslash f1 depth _ None _ _ _ (cont_read' e _ E) H1).
Qed.

(* the text produced by continuations starts with a backslash or is empty *)
Lemma w_conts_head cs X : w_conts cs X = [] \/ exists t, w_conts cs X = x5c :: t.
Proof.
  induction cs as [|e cs IH]; [left; reflexivity|]. rewrite w_conts_cons.
  destruct (is_ecr e && lf_head (w_conts cs X ++ X)); [exact IH | right; eexists; reflexivity].
Qed.

(* ---------- the hypotheses on the style ---------- *)
(* no parenthesis is left raw *)
Fixpoint no_raw_paren (s : bytes) (st : list lpos) : bool :=
  match s with
  | [] => true
  | b :: s' =>
    let '(c, st') := match st with [] => (LRaw, []) | p :: t => (l_ch p, t) end in
    negb (is_paren b && match c with LRaw => true | _ => false end) && no_raw_paren s' st'
  end.
(* no LF is written as a raw CR or CR LF (finding C02-raw-eol); the style is as long as the string here *)
Fixpoint no_raw_cr (s : bytes) (st : list lpos) : bool :=
  match s with
  | [] => true
  | b :: s' =>
    let '(c, st') := match st with [] => (LRaw, []) | p :: t => (l_ch p, t) end in
    negb (byte_eqb b x0a && match c with LRawCR | LRawCRLF => true | _ => false end) && no_raw_cr s' st'
  end.

Definition byte_class_facts (b : byte) : bool :=
  is_direct_literal b || byte_eqb b x0a || byte_eqb b x5c || byte_eqb b x0d || is_paren b.
Lemma byte_class_sweep : byte_forallb byte_class_facts = true. Proof. vm_compute. reflexivity. Qed.

(* one byte: whatever the choice, the parser reads [b] back, provided what follows parses *)
Lemma w_lit_byte_parse ok b c next f depth out r :
  (ok = false \/ negb (is_paren b && match c with LRaw => true | _ => false end) = true) ->
  negb (byte_eqb b x0a && match c with LRawCR | LRawCRLF => true | _ => false end) = true ->
  inner_literal f depth next = Some (out, r) ->
  exists f', inner_literal f' depth (w_lit_byte ok b c next ++ next) = Some (b :: out, r).
Proof.
  intros Hp Hc Hn.
  assert (Hfb : exists f', inner_literal f' depth (oct_escape 3 b ++ next) = Some (b :: out, r)).
  { destruct (oct_escape_read 3 b next) as [e [Ee He]]; [left; reflexivity|].
    rewrite Ee. exists (S f). cbn [app]. exact (inner_backslash f depth _ (Some b) _ _ _ He Hn). }
  assert (Hesc : forall e, escape_after_backslash (e :: next) = Some (Some b, next) ->
                 exists f', inner_literal f' depth ([x5c; e] ++ next) = Some (b :: out, r)).
  { intros e He. exists (S f). cbn [app]. exact (inner_backslash f depth _ (Some b) _ _ _ He Hn). }
  unfold w_lit_byte. destruct c as [| | | |d|].
  - (* raw *)
    destruct (byte_eqb b x5c || byte_eqb b x0d) eqn:E1; [exact Hfb|].
    apply orb_false_iff in E1 as [E5c E0d].
    destruct (is_paren b) eqn:Ep.
    + destruct Hp as [->|Hp]; [|rewrite andb_true_r in Hp; apply negb_true_iff in Hp; congruence].
      unfold is_paren in Ep. apply Hesc. destruct (byte_eqb b x28) eqn:E28.
      * apply byte_eqb_eq in E28. subst b. reflexivity.
      * cbn [orb] in Ep. apply byte_eqb_eq in Ep. subst b. reflexivity.
    + pose proof (byte_forallb_spec _ byte_class_sweep b) as K. unfold byte_class_facts in K.
      rewrite E5c, E0d, Ep in K. rewrite !orb_false_r in K. apply orb_true_iff in K as [K|K].
      * exists (S f). cbn [app]. exact (inner_direct f depth b next out r K Hn).
      * apply byte_eqb_eq in K. subst b. exists (S f). cbn [app]. exact (inner_lf f depth next out r Hn).
  - (* raw CR: excluded for LF bytes, a fallback otherwise *)
    destruct (byte_eqb b x0a) eqn:E; [discriminate Hc|]. cbn [andb]. exact Hfb.
  - destruct (byte_eqb b x0a) eqn:E; [discriminate Hc|]. exact Hfb.
  - (* two-character escape *)
    destruct (short_escape b) as [e|] eqn:Es; [|exact Hfb]. apply Hesc. exact (short_escape_read b e next Es).
  - (* octal *)
    set (nx := match next with d0 :: _ => is_oct_b d0 | [] => false end).
    destruct ((length (oct_escape d b) <? 4)%nat && nx) eqn:E; [exact Hfb|].
    destruct (oct_escape_read d b next) as [e [Ee He]].
    + apply andb_false_iff in E as [E|E]; [left; exact E|]. right.
      unfold nx in E. unfold calm. destruct next as [|d0 t0]; [reflexivity|].
      change (is_oct_b d0) with (is_oct_digit d0) in E. rewrite E. reflexivity.
    + rewrite Ee. exists (S f). cbn [app]. exact (inner_backslash f depth _ (Some b) _ _ _ He Hn).
  - (* ignored backslash *)
    destruct (ign_ok b) eqn:Ei; [|exact Hfb]. apply Hesc. exact (ign_read b next Ei).
Qed.

(* ---------- the body ---------- *)
Lemma w_lit_body_parse : forall s st ok tail f depth out r,
  (ok = false \/ no_raw_paren s st = true) -> no_raw_cr s st = true ->
  inner_literal f depth tail = Some (out, r) ->
  exists f', inner_literal f' depth (w_lit_body ok s st tail) = Some (s ++ out, r).
Proof.
  induction s as [|b s IH]; intros st ok tail f depth out r Hp Hc Ht.
  - exists f. exact Ht.
  - cbn [w_lit_body no_raw_paren no_raw_cr] in *.
    destruct st as [|p st'].
    + apply andb_true_iff in Hc as [Hc1 Hc2].
      assert (Hp' : ok = false \/ no_raw_paren s [] = true)
        by (destruct Hp as [Hp|Hp]; [left; exact Hp | right; apply andb_true_iff in Hp as [_ Hp]; exact Hp]).
      assert (Hp1 : ok = false \/ negb (is_paren b && true) = true)
        by (destruct Hp as [Hp|Hp]; [left; exact Hp | right; apply andb_true_iff in Hp as [Hp _]; exact Hp]).
      destruct (IH [] ok tail f depth out r Hp' Hc2 Ht) as [f1 H1].
      cbn [l_cont l_ch].
      destruct (w_lit_byte_parse ok b LRaw _ f1 depth _ r Hp1 Hc1 H1) as [f2 H2].
      cbn [w_conts app]. exists f2. exact H2.
    + apply andb_true_iff in Hc as [Hc1 Hc2].
      assert (Hp' : ok = false \/ no_raw_paren s st' = true)
        by (destruct Hp as [Hp|Hp]; [left; exact Hp | right; apply andb_true_iff in Hp as [_ Hp]; exact Hp]).
      assert (Hp1 : ok = false \/ negb (is_paren b && match l_ch p with LRaw => true | _ => false end) = true)
        by (destruct Hp as [Hp|Hp]; [left; exact Hp | right; apply andb_true_iff in Hp as [Hp _]; exact Hp]).
      destruct (IH st' ok tail f depth out r Hp' Hc2 Ht) as [f1 H1].
      destruct (w_lit_byte_parse ok b (l_ch p) _ f1 depth _ r Hp1 Hc1 H1) as [f2 H2].
      exact (w_conts_parse (l_cont p) _ f2 depth _ r H2).
Qed.

(* ---------- what follows the body does not influence it beyond its first byte ---------- *)
Lemma lf_head_app X R : X <> [] -> lf_head (X ++ R) = lf_head X.
Proof. destruct X; [contradiction|reflexivity]. Qed.

Lemma w_lit_byte_ext ok b c next R : next <> [] -> w_lit_byte ok b c (next ++ R) = w_lit_byte ok b c next.
Proof. destruct next; [contradiction|reflexivity]. Qed.

Lemma w_conts_ext : forall cs next R, next <> [] -> w_conts cs (next ++ R) = w_conts cs next.
Proof.
  induction cs as [|e cs IH]; intros next R Hn; [reflexivity|].
  rewrite !w_conts_cons, IH by exact Hn.
  rewrite app_assoc, lf_head_app; [reflexivity|].
  intro E. apply app_eq_nil in E as [_ E]. contradiction.
Qed.

Lemma app_ne_r {A} (x y : list A) : y <> [] -> x ++ y <> [].
Proof. intros H E. apply app_eq_nil in E as [_ E]. contradiction. Qed.

Lemma w_lit_body_app : forall s st ok tail R, tail <> [] ->
  w_lit_body ok s st tail ++ R = w_lit_body ok s st (tail ++ R) /\ w_lit_body ok s st tail <> [].
Proof.
  induction s as [|b s IH]; intros st ok tail R Ht.
  - split; [reflexivity | exact Ht].
  - cbn [w_lit_body].
    set (pst := match st with [] => ({| l_cont := []; l_ch := LRaw |}, []) | p :: t => (p, t) end).
    destruct pst as [p st'].
    destruct (IH st' ok tail R Ht) as [E Hne]. rewrite <- E.
    rewrite w_lit_byte_ext by exact Hne.
    split.
    + set (me := w_lit_byte ok b (l_ch p) (w_lit_body ok s st' tail)).
      set (rb := w_lit_body ok s st' tail) in *.
      assert (Hcs : w_conts (l_cont p) (me ++ rb ++ R) = w_conts (l_cont p) (me ++ rb))
        by (rewrite app_assoc; apply w_conts_ext; apply app_ne_r; exact Hne).
      rewrite Hcs. rewrite <- !app_assoc. reflexivity.
    + apply app_ne_r. apply app_ne_r. exact Hne.
Qed.

(* ---------- the theorem ---------- *)
Theorem literal_any_spelling_partial : forall s (st : list lpos) (tc : list eolk) rest fuel,
  (raw_parens_balanced s st 0 = false \/ no_raw_paren s st = true) -> no_raw_cr s st = true ->
  (length (w_literal s st tc ++ rest) <= fuel)%nat ->
  literal_string fuel (w_literal s st tc ++ rest) = POk s rest.
Proof.
  intros s st tc rest fuel Hp Hc Hf. unfold w_literal in *.
  set (ok := raw_parens_balanced s st 0) in *.
  cbn [app] in *.
  assert (Htl : w_conts tc [x29] ++ [x29] <> []) by (apply app_ne_r; discriminate).
  destruct (w_lit_body_app s st ok _ rest Htl) as [E _]. rewrite E in *. clear E.
  rewrite <- app_assoc in *. cbn [app] in *.
  replace (w_conts tc [x29]) with (w_conts tc ([x29] ++ rest)) in * by (apply w_conts_ext; discriminate).
  cbn [app] in *.
  unfold literal_string. change (byte_eqb x28 x28) with true. cbv iota.
  assert (Hstop : inner_literal 1 MAXB (x29 :: rest) = Some ([], x29 :: rest)) by reflexivity.
  destruct (w_conts_parse tc (x29 :: rest) 1 MAXB [] (x29 :: rest) Hstop) as [f0 H0].
  destruct (w_lit_body_parse s st ok _ f0 MAXB [] (x29 :: rest) Hp Hc H0) as [f' Hf'].
  rewrite app_nil_r in Hf'.
  set (body := w_lit_body ok s st (w_conts tc (x29 :: rest) ++ x29 :: rest)) in *.
  destruct (inner_enough fuel MAXB body) as [o [r [Eo _]]]; [cbn [length] in Hf; lia|].
  pose proof (inner_mono _ _ _ _ Hf' (Nat.max f' fuel) ltac:(lia)) as M1.
  pose proof (inner_mono _ _ _ _ Eo (Nat.max f' fuel) ltac:(lia)) as M2.
  rewrite M1 in M2. inversion M2; subst o r.
  fold MAXB. rewrite Eo. change (byte_eqb x29 x29) with true. reflexivity.
Qed.
