(* ComposeTextExample.v -- non-vacuity of the theorems of ComposeTextDecode.v / ComposeTextCompress.v: a five-object
   document whose page content is Content::encode of text-showing operations (187 bytes), a compressor that writes a genuine
   deflate stream for it (57 bytes, fixed Huffman codes, produced by zlib at level 9; any other content goes into stored blocks)
   -- so Document::compress really rewrites the content stream -- and every hypothesis of
   extract_written_after_save_load / extract_written_after_compress_save_load for both cross-reference formats, with lopdf's
   filter code running on the Gallina inflate. *)
From LV Require Import Base.Bytes Base.Sx Model.Obj Model.DocQ Model.Writer Model.Parser Model.Save
  Model.Xref Model.Loader Model.Utf Gen.Lex Gen.Consts Gen.Filters Model.StreamFilt
  Spec.StreamSpec Spec.StreamCodecSpec Proofs.FilterProofsDict Proofs.FilterProofsStream Proofs.FilterProofsCodec
  Proofs.ObjectRtProofs Proofs.ContentProofs Proofs.SaveProofs Spec.SaveSpec Proofs.ComposeReload.
From LV Require Model.Query Spec.Inflate Spec.ZlibStoredSpec Proofs.InflateProofs.
From LV Require Import Gen.Tables Model.OneByte Model.TextExtract
  Spec.ShownText Spec.ShownBlocks Proofs.TextProofsTables Proofs.TextProofsExtract Proofs.TextProofsBlocks
  Proofs.ComposeText Proofs.ComposeTextDecode Proofs.ComposeTextCompress.

Local Open Scope N_scope.

Definition ex_long_pieces : list piece :=
  [PTj (repeat 233 40) false;
   PTJ [IText (repeat 87 30) true; IAdjust (-120); IText [111; 114; 108; 100; 8364] false];
   PTj (repeat 233 40) false].

Definition ex_long_ops : list op := show_ops (bs "F1") (OInt 12) ex_table ex_long_pieces.

(* what Content::encode writes for them *)
Definition ex_long_content : bytes := Eval vm_compute in content_encode ex_long_ops.

(* zlib.compress(ex_long_content, 9) *)
Definition ex_long_z : bytes :=
  [x78; xda; x73; x0a; xe1; xd2; x77; x33; x54; x30; x34; x52; x08; x49; xe3; xd2; x78; x49; x24; xd0; x54; x08; xc9; xe2;
   x8a; xb6; x31; x35; x27; x1f; xda; x29; xe8; x1a; x1a; x19; x68; xe4; x17; xe5; xa4; x34; x68; xc6; x2a; x84; x78; x91;
   x68; xbb; x6b; x08; x00; x7a; x5a; x60; x8d].

(* a compressor whose output is a zlib stream for every input *)
Definition ex_deflate (c : bytes) : bytes :=
  if bytes_eqb c ex_long_content then ex_long_z else ZlibStoredSpec.zlib_stored 65534 c.

Lemma ex_deflate_valid c : valid_zlib_output ex_deflate c.
Proof.
  unfold valid_zlib_output, ex_deflate. destruct (bytes_eqb c ex_long_content) eqn:E.
  - apply bytes_eqb_eq in E. subst c. vm_compute. reflexivity.
  - apply InflateProofs.inflate_zlib_stored.
Qed.

Definition ex_cdoc : doc :=
  {| d_version := bs "1.5"; d_binary_mark := [xbb; xad; xc0; xde];
     d_trailer := [(K_Root, ORef 1 0)];
     d_objects := [((1, 0), ODict [(K_Type, OName (bs "Catalog")); (K_Pages, ORef 2 0)]);
                   ((2, 0), ODict [(K_Type, OName K_Pages); (K_Kids, OArr [ORef 3 0]); (K_Count, OInt 1)]);
                   ((3, 0), ODict [(K_Type, OName K_Page); (K_Parent, ORef 2 0);
                                   (Query.Q_Resources, ODict [(Query.Q_Font, ODict [(bs "F1", ORef 4 0)])]);
                                   (Query.Q_Contents, ORef 5 0)]);
                   ((4, 0), ODict ex_font);
                   ((5, 0), OStream [(K_Length, OInt (Z.of_nat (length ex_long_content)))] ex_long_content)];
     d_max_id := 5 |}.

(* Document::compress on it, computed *)
Definition ex_cdoc_compressed : doc := Eval vm_compute in compress_doc ex_deflate [] ex_cdoc.

Lemma ex_cdoc_compressed_eq : compress_doc ex_deflate [] ex_cdoc = ex_cdoc_compressed.
Proof. vm_compute. reflexivity. Qed.

Ltac solve_savable :=
  constructor; cbn [d_version d_binary_mark d_trailer d_objects d_max_id];
  [ vm_compute; reflexivity
  | reflexivity
  | reflexivity
  | vm_compute; discriminate
  | cbn [obj_numbers map fst increasing]; repeat split; reflexivity
  | repeat (apply Forall_cons; [cbn [fst snd]; split; [vm_compute; discriminate|]; split; [|reflexivity];
      cbn [top_wf ex_font]; repeat (constructor; cbn; try (intuition discriminate)) |]); try apply Forall_nil;
    try (vm_compute; discriminate); try reflexivity
  | constructor; [repeat constructor; cbn; intuition discriminate|];
    constructor; [|constructor]; cbn [snd]; constructor; vm_compute; discriminate
  | reflexivity
  | reflexivity ].

Lemma ex_cdoc_savable : savable ex_cdoc.
Proof. unfold ex_cdoc. solve_savable. Qed.

Lemma ex_cdoc_compressed_savable : savable ex_cdoc_compressed.
Proof. unfold ex_cdoc_compressed. solve_savable. Qed.

Lemma Forall_repeat {A} (P : A -> Prop) x n : P x -> Forall P (repeat x n).
Proof. intro H. induction n; cbn [repeat]; constructor; assumption. Qed.

Lemma ex_long_over : Forall (piece_over (in_repertoire ex_table)) ex_long_pieces.
Proof.
  assert (R233 : in_repertoire ex_table 233) by (exists (byte_of_N 233); vm_compute; reflexivity).
  assert (R87 : in_repertoire ex_table 87) by (exists (byte_of_N 87); vm_compute; reflexivity).
  unfold ex_long_pieces. repeat constructor; try assumption; try exact I; try (apply Forall_repeat; assumption);
    try (exists (byte_of_N 111); vm_compute; reflexivity);
    try (exists (byte_of_N 114); vm_compute; reflexivity);
    try (exists (byte_of_N 108); vm_compute; reflexivity);
    try (exists (byte_of_N 100); vm_compute; reflexivity);
    try (exists (byte_of_N 128); vm_compute; reflexivity).
Qed.

Lemma content_normal_check fuel m pid ids :
  Query.get_page_contents fuel m pid = Query.Ok ids ->
  (forall id, In id ids -> match get_object m id with Some (OStream sd _) => norm_dict sd = sd | _ => True end) ->
  content_normal fuel m pid.
Proof.
  intros H Hall ids' H'. rewrite H in H'. inversion H'; subst. intros id sd c Hi G. specialize (Hall id Hi). rewrite G in Hall. exact Hall.
Qed.

Notation gdecomp := (stream_decomp gallina_inflate gallina_lzw).

Theorem ex_compress_after_save_load :
  (* the compressor *)
  (forall c, valid_zlib_output ex_deflate c) /\
  compressible ex_deflate (d_objects ex_cdoc) /\
  (* the document in memory: C01's domain, and the page written with Content::encode *)
  savable ex_cdoc /\ known_deep ex_cdoc = false /\ small_file XTable ex_cdoc /\ small_file XStream ex_cdoc /\
  unreferenced XTable ex_cdoc /\ unreferenced XStream ex_cdoc /\
  content_normal 200 (d_objects ex_cdoc) (3, 0) /\
  page_written gdecomp 200 (d_objects ex_cdoc) (3, 0) (bs "F1") ex_font ex_long_ops /\
  length (content_encode ex_long_ops) = 187%nat /\
  (* Document::compress really compresses the content stream *)
  lookup (d_objects (compress_doc ex_deflate [] ex_cdoc)) (5, 0)
    = Some (OStream [(K_Length, OInt 57); (K_Filter, OName COMPRESS_FILTER)] ex_long_z) /\
  (* the compressed document: C01's domain *)
  savable (compress_doc ex_deflate [] ex_cdoc) /\ known_deep (compress_doc ex_deflate [] ex_cdoc) = false /\
  small_file XTable (compress_doc ex_deflate [] ex_cdoc) /\ small_file XStream (compress_doc ex_deflate [] ex_cdoc) /\
  unreferenced XTable (compress_doc ex_deflate [] ex_cdoc) /\ unreferenced XStream (compress_doc ex_deflate [] ex_cdoc) /\
  content_normal 200 (d_objects (compress_doc ex_deflate [] ex_cdoc)) (3, 0) /\
  (* the text *)
  operand_dom (OInt 12) /\ Forall piece_i64 ex_long_pieces /\
  get_font_encoding ex_font = Ok (EncOneByte ex_table) /\
  Forall (piece_over (in_repertoire ex_table)) ex_long_pieces /\
  (* the page view of the compressed document, through the Gallina inflate, is the page shown *)
  doc_page gdecomp content_decode 200 (d_objects (compress_doc ex_deflate [] ex_cdoc)) (3, 0)
    = Some (page_showing (bs "F1") ex_font (OInt 12) ex_table ex_long_pieces).
Proof.
  rewrite !ex_cdoc_compressed_eq.
  split; [exact ex_deflate_valid|].
  split. { intros id sd c L. split; [|apply ex_deflate_valid]. vm_compute in L.
           repeat (match type of L with (if ?b then _ else _) = _ => destruct b end; try discriminate).
           inversion L; subst. repeat constructor. cbn. intuition. }
  split; [exact ex_cdoc_savable|]. split; [vm_compute; reflexivity|].
  split; [vm_compute; reflexivity|]. split; [vm_compute; reflexivity|].
  split; [apply unreferenced_table|]. split; [apply unreferenced_check; vm_compute; reflexivity|].
  split. { apply (content_normal_check 200 _ (3, 0) [(5, 0)]); [vm_compute; reflexivity|].
           intros id [<-|[]]. vm_compute. reflexivity. }
  split; [split; vm_compute; reflexivity|].
  split; [vm_compute; reflexivity|].
  split; [vm_compute; reflexivity|].
  split; [exact ex_cdoc_compressed_savable|]. split; [vm_compute; reflexivity|].
  split; [vm_compute; reflexivity|]. split; [vm_compute; reflexivity|].
  split; [apply unreferenced_table|]. split; [apply unreferenced_check; vm_compute; reflexivity|].
  split. { apply (content_normal_check 200 _ (3, 0) [(5, 0)]); [vm_compute; reflexivity|].
           intros id [<-|[]]. vm_compute. reflexivity. }
  split. { split; [constructor; reflexivity|]. split; [exact I|]. cbn [nest]. lia. }
  split; [repeat constructor|].
  split. { destruct ex_text_after_save_load as [E _]. exact E. }
  split; [exact ex_long_over|].
  vm_compute. reflexivity.
Qed.
