(* LoadsMultiOSAt.v -- C02, files of ref_write_multi with object streams in two or more parts, step 2 of notes/C02.md Round 6:
   what parser::_indirect_object / ObjectStream::new return for ONE top-level object standing somewhere in ANY buffer,
   under ANY (merged) cross-reference table.  LoadsObjStmFile.parse_cont / parse_plain speak about the buffer FG of one
   section; here the single-section layout is gone:
     cont_at   a container (typed ObjStm): read as a stream, objstm_new decompress_ref returns members_val;
     plain_at  a plain object: read completely (Length direct, or a reference to an integer object the table places in the
               buffer), or -- the table names the integer by a type-2 entry, whichever part holds its object stream --
               returned without content and with the position of its data (the deferred path). *)
From LV Require Import Base.Bytes Base.Sx Model.Obj Model.Writer Model.Parser Model.Xref Model.ObjStm Model.Loader Model.Utf Gen.Lex
  Spec.XrefSpec Spec.RefWriter Proofs.LexProofs Proofs.LoadProofs Proofs.LoadProofsFile Proofs.XrefProofs
  Proofs.XrefTableProofs Proofs.ObjectRtProofs Proofs.SpellingProofs Proofs.SpellingObjProofs Proofs.SpellingFileProofs
  Proofs.LoadsFrameProofs Proofs.LoadsTableProofs Proofs.FilterProofsDict.
From LV Require Proofs.LoadProofsStream.
From LV Require Import Model.LoaderExt Proofs.LoaderExtProofs Proofs.LengthRefProofs.
From LV Require Import Proofs.LoadsFilterProofs Proofs.LoadsStreamProofs Proofs.LoadsRefLenProofs Proofs.LoadsLoopProofs.
From LV Require Import Proofs.ObjStmSpellProofs Proofs.ObjStmFilterProofs Proofs.LoadsObjStmProofs Proofs.ObjStmPredProofs.
From LV Require Model.Png Spec.StreamCodecSpec Model.StreamFilt Gen.SaveFmt.
From LV Require Import Proofs.LoadsObjStmFile.
From LV Require Proofs.LoadsMultiMixed.
From Coq Require Import Lia.
Local Open Scope N_scope.

(* ====================================================================================================
   Part A: a container at its place, in ANY buffer and under ANY table
   (LoadsObjStmFile.parse_cont without the single-section layout)
   ==================================================================================================== *)
Lemma cont_top_build (a : adoc) s tp : cont_top (a_objs a) s tp ->
  os_build (a_objs a) (os_members s) (os_items s) true = Some (itemsof a s).
Proof.
  intros [o [Ho _]]. destruct (os_object_items _ _ _ Ho) as [items E]. unfold itemsof. rewrite E. reflexivity.
Qed.

Lemma cont_at (a : adoc) (s : ostm) (buf : bytes) (x : xmap) tp post :
  cont_top (a_objs a) s tp -> cont_ok a s -> NoDup (os_members s) ->
  os_id s <= u32_max -> Forall (fun m => m <= u32_max) (os_members s) ->
  fst (fst tp) = (os_id s, 0) /\
  indirect_x buf x (top_text tp ++ post) None =
    IxOk (os_id s, 0) (OStream (D s (itemsof a s) (cstsG s)) (fst (enc s (itemsof a s)))) None /\
  has_type (D s (itemsof a s) (cstsG s)) K_ObjStm = true /\
  exists d' k, objstm_new decompress_ref (D s (itemsof a s) (cstsG s)) (fst (enc s (itemsof a s))) =
               ((d', payload s (itemsof a s) ++ repeat x20 k), OsOk (members_val (a_objs a) s (itemsof a s))).
Proof.
  intros Hc Hok Hnd Hid Hm32. pose proof (cont_top_build a s tp Hc) as Hb. destruct Hc as [o [Ho ->]].
  rewrite (os_object_eq (a_objs a) s (itemsof a s) Hb) in Ho. inversion Ho; subst o. clear Ho.
  destruct Hok as [Hne [Hl [Hmok [Hlen [Hnp [Hw Hn]]]]]].
  assert (HL : dict_get (dC s (itemsof a s)) K_Length = Some (OInt (Z.of_nat (length (fst (enc s (itemsof a s))))))).
  { unfold dC. cbn [app]. rewrite !dict_get_cons_neG by reflexivity. rewrite dict_get_appG.
    unfold enc. rewrite fent_keys by discriminate. reflexivity. }
  split; [reflexivity|]. split; [|split].
  - unfold top_text. cbn [fst snd]. rewrite <- app_assoc. unfold indirect_x.
    match goal with |- indirect_with ?b ?s0 ?e ?l = _ => pose proof (indirect_with_agrees b s0 e l) as A end.
    rewrite indirect_stream_any_spelling in A; [|exact Hid|unfold u16_max; lia|exact Hw|exact Hn|exact HL].
    destruct A as [pos [-> [->|[d0 [K Kn]]]]]; [reflexivity|].
    exfalso. exact (stream_new_has_length _ _ _ _ K Kn).
  - unfold has_type. rewrite (dC_get s (itemsof a s) (cstsG s) K_Type (OName (bs "ObjStm"))); [reflexivity|reflexivity|reflexivity|discriminate].
  - apply (objstm_new_ref_any (a_objs a) s (itemsof a s) (cstsG s) Hb Hne); assumption.
Qed.

(* ====================================================================================================
   Part B: a plain top-level object at its place, in ANY buffer, under the MERGED table [x]
   (LoadsObjStmFile.parse_plain / LoadsMultiMixed.indirect_x_top2 in one statement).
   [isc li] = "the table names the number [li] by a type-2 entry": the integer is a member of an object stream
   -- of ANY part of the file.
   ==================================================================================================== *)
Definition deferred_by (isc : N -> bool) (tp : top) : bool :=
  match snd (fst tp) with
  | OStream d _ => match dict_get d K_Length with Some (ORef li _) => isc li | _ => false end
  | _ => false
  end.
Definition first_top_by (isc : N -> bool) (tp : top) : obj :=
  match snd (fst tp) with
  | OStream d c => if deferred_by isc tp then OStream (denote_dict d (dict_sts (i_obj (snd tp)))) [] else loaded_top tp
  | _ => loaded_top tp
  end.

Lemma deferred_by_comp st tp : deferred_by (fun li => mem_N li (comp st)) tp = deferred st tp.
Proof. reflexivity. Qed.
Lemma first_top_by_comp st tp : first_top_by (fun li => mem_N li (comp st)) tp = first_top st tp.
Proof. reflexivity. Qed.

Lemma plain_at (a : adoc) (isc : N -> bool) (yl_of : N -> istyle) (buf : bytes) (x : xmap) pre tp post :
  top_ok2 a tp -> fst (fst (fst tp)) <= u32_max ->
  buf = pre ++ top_text tp ++ post ->
  (* a Length object outside every object stream: the table places it in the buffer *)
  (forall li lg len, In ((li, lg), OInt len) (a_objs a) -> isc li = false ->
     exists offl rest, xget x li = Some (XNormal offl lg) /\ offl <= blen buf /\
       from offl buf = w_indirect li lg (OInt len) (yl_of li) ++ rest /\ li <= u32_max /\ lg <= u16_max /\ in_i64 len = true) ->
  (* a Length object kept in an object stream: the table has a type-2 entry for it *)
  (forall li lg len, In ((li, lg), OInt len) (a_objs a) -> isc li = true -> exists c k, xget x li = Some (XCompressed c k)) ->
  exists pos, indirect_x buf x (top_text tp ++ post) None = IxOk (fst (fst tp)) (first_top_by isc tp) pos /\
    no_objstm (first_top_by isc tp) /\ match first_top_by isc tp with OStream _ _ => True | _ => pos = None end /\
    ((pos = None /\ first_top_by isc tp = loaded_top tp) \/
     exists d c li lg start rest, snd (fst tp) = OStream d c /\ dict_get d K_Length = Some (ORef li lg) /\ isc li = true /\
       In ((li, lg), OInt (Z.of_nat (length c))) (a_objs a) /\
       pos = Some start /\ start <= blen buf /\ from start buf = c ++ rest).
Proof.
  intros Hk Hi EF Hplain Hcomp.
  destruct tp as [[[i g] o] y]. unfold top_ok2 in Hk. unfold top_text, first_top_by, loaded_top, deferred_by in *. cbn [fst snd] in *.
  destruct Hk as [_ [Hg Ho]]. rewrite <- app_assoc in *. unfold indirect_x.
  destruct o as [| | | | | | | |d c|];
    try (destruct Ho as [Hw Hn]; exists None; split; [|split; [exact I|split; [reflexivity|left; split; reflexivity]]];
         match goal with |- indirect_with ?b ?s0 ?e ?l = _ => pose proof (indirect_with_agrees b s0 e l) as A end;
         rewrite indirect_any_spelling in A by (try assumption; intros d0 c0 K; discriminate K);
         destruct A as [pos [-> [->|[d0 [K _]]]]]; [reflexivity|discriminate K]).
  destruct Ho as [Hw [Hn [HT HL]]].
  assert (Hno : forall cc, no_objstm (stream_new (denote_dict d (dict_sts (i_obj y))) cc)).
  { intro cc. unfold stream_new, no_objstm. unfold has_type. rewrite dict_get_set_other by discriminate.
    apply (has_type_denote d _ K_ObjStm HT). }
  destruct HL as [HL|[li [lg [HL Hlen]]]].
  - rewrite HL. exists None. split; [|split; [apply Hno|split; [exact I|left; split; reflexivity]]].
    match goal with |- indirect_with ?b ?s0 ?e ?l = _ => pose proof (indirect_with_agrees b s0 e l) as A end.
    rewrite indirect_stream_any_spelling in A by assumption.
    destruct A as [pos [-> [->|[d0 [K Kn]]]]]; [reflexivity|].
    exfalso. exact (stream_new_has_length _ _ _ _ K Kn).
  - rewrite HL. destruct (isc li) eqn:Ec.
    + destruct (Hcomp li lg _ Hlen Ec) as [cn [k Hx]].
      assert (Hlen0 : get_length (S SaveFmt.MAX_LENGTH_CHAIN) buf x [] (li, lg) = LnNone).
      { cbn [get_length existsb length]. rewrite max_chain_ok. unfold get_offset. cbn [fst]. rewrite Hx. reflexivity. }
      destruct (indirect_ref_length_deferred i g d c y (gap_bytes (i_gap y) ++ post) li lg Hi Hg Hw Hn HL
                  pre _ None Hlen0 I) as [before [Ew Ep]].
      exists (Some (blen (pre ++ before))).
      split; [rewrite EF at 1; exact Ep|]. split.
      { unfold no_objstm. apply (has_type_denote d _ K_ObjStm HT). }
      split; [exact I|]. right.
      exists d, c, li, lg, (blen (pre ++ before)), (after_data c y (gap_bytes (i_gap y) ++ post)).
      split; [reflexivity|]. split; [exact HL|]. split; [exact Ec|]. split; [exact Hlen|]. split; [reflexivity|].
      assert (EF2 : buf = (pre ++ before) ++ c ++ after_data c y (gap_bytes (i_gap y) ++ post)).
      { unfold whole in Ew. rewrite EF, Ew, <- !app_assoc. reflexivity. }
      split; [rewrite EF2; unfold blen; rewrite !app_length; lia|].
      rewrite EF2. apply from_app.
    + exists None. split; [|split; [apply Hno|split; [exact I|left; split; reflexivity]]].
      destruct (Hplain li lg (Z.of_nat (length c)) Hlen Ec) as [offl [rest [Hx [Hb [Hf [Hli [Hlg Hz]]]]]]].
      apply (indirect_ref_length_eager i g d c y _ li lg Hi Hg Hw Hn HL); [|exact I].
      apply (get_length_finds _ buf x [] li lg (Z.of_nat (length c)) (yl_of li) offl rest).
      * reflexivity.
      * vm_compute. lia.
      * unfold get_offset. cbn [fst snd]. rewrite Hx, N.eqb_refl. reflexivity.
      * exact Hb.
      * exact Hf.
      * exact Hli.
      * exact Hlg.
      * exact Hz.
Qed.
