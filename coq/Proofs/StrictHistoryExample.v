(* StrictHistoryExample.v -- C03, part 12: non-vacuity of the history theorem.  c07's example document
   (Proofs/C07BytesExample.v) is saved, then updated THREE times through the modelled API, each time from the
   bytes of the previous file and from what the loader model returns for them:
     update 1: object 1 replaced (set_object), object 3 added (add_object)
     update 2: object 3 replaced, object 4 added
     update 3: object 2 (defined only by the first revision) replaced.
   Every hypothesis of [strict_load_history] is discharged; the recovered objects are written out (per number the
   newest revision decides); the executable strict reader run on the bytes agrees (no theorem involved). *)
From LV Require Import Base.Bytes Base.Sx Model.Obj Model.DocQ Model.Writer Model.Parser Model.Save Model.Xref Model.Loader
  Model.Incremental Model.Utf Gen.Lex Gen.SaveFmt Gen.Inc Proofs.IncrementalProofs Proofs.LexProofs Proofs.RealProofs
  Proofs.ObjectRtProofs Proofs.SaveProofs Proofs.FilterProofsDict Spec.SaveSpec Proofs.LoadProofs Proofs.LoadProofsFile
  Proofs.LoadProofsXref Proofs.LoadProofsTable Proofs.LoadProofsAgain Proofs.LoadProofsStream Proofs.LoadProofsFull
  Proofs.SaveStrictProofs Proofs.StrictLoadProofs Proofs.StrictRevisionProofs Proofs.StrictIncrementalProofs
  Proofs.C07Bytes Proofs.C07BytesTable Proofs.C07BytesStream Proofs.C07BytesHistory Proofs.C07BytesExample
  Proofs.StrictHistoryProofs Proofs.StrictHistorySaveProofs.
From LV Require Spec.StrictReader.

Local Open Scope N_scope.

Definition ex_h0 : shist := SBase XTable ex_d.
Definition ex_h1 : shist := SUpd ex_h0 ex_s.
Definition ex_h2 : shist := SUpd ex_h1 ex_s2.

(* what the loader returns for the file after the second update (C07BytesExample.example_second_update) *)
Definition ex_doc2 : doc :=
  {| d_version := bs "1.5"; d_binary_mark := [xbb; xad; xc0; xde];
     d_trailer := [(K_Root, ORef 1 0); (Save.K_Size, OInt 5)]; d_objects := ex_result2; d_max_id := 4 |}.

Definition ex_s3 : incdoc :=
  fold_left apply_edit [ESet (2, 0) (OInt 9)]
            (create_from (io_bytes (inc_save ex_s2)) {| xd_doc := ex_doc2; xd_start := io_start (inc_save ex_s2); xd_type := XTable |}).
Definition ex_h3 : shist := SUpd ex_h2 ex_s3.

Lemma ex_h0_ok : sh_ok ex_h0.
Proof. destruct example_reload as (H1 & H2 & H3 & H4 & _). exact (conj H1 (conj H2 (conj H3 H4))). Qed.

Lemma ex_h1_ok : sh_ok ex_h1.
Proof.
  destruct example_reload as (H1 & H2 & H3 & H4 & H5 & H6 & H7 & _).
  assert (Hl : load (sh_bytes ex_h0) = LOk (reloaded XTable ex_d) (xtype_of (sh_fmt ex_h0))).
  { apply (load_save_gen XTable ex_d); [apply savable_written; exact H1 | rewrite known_deep_written by exact H1; exact H2 | exact H3]. }
  refine (proj1 (proj2 (history_update_step ex_h0 (reloaded XTable ex_d) ex_edits ex_h0_ok Hl H5 H6 H7 _))).
  change (Forall (fun io : oid * obj => In (fst io) (map fst (d_objects (reloaded XTable ex_d))) \/
                            ~ In (fst (fst io)) (obj_numbers (d_objects (reloaded XTable ex_d)))) (d_objects ex_nd)).
  rewrite ex_nd_eq. cbn [d_objects].
  apply Forall_cons; [left; left; reflexivity|]. apply Forall_cons; [|apply Forall_nil].
  right. vm_compute. intros [H|[H|[]]]; discriminate H.
Qed.

Lemma ex_h2_ok : sh_ok ex_h2.
Proof.
  assert (End : xd_doc (i_new ex_s2) =
                {| d_version := INC_VERSION; d_binary_mark := INC_BINARY_MARK;
                   d_trailer := [(K_Root, ORef 1 0); (Save.K_Size, OInt 4); (Save.K_Prev, OInt (Z.of_N (io_start (inc_save ex_s))))];
                   d_objects := [((3, 0), OStr (bs "newer") false); ((4, 0), ORef 1 0)];
                   d_max_id := 4 |}) by (vm_compute; reflexivity).
  refine (proj1 (proj2 (history_update_step ex_h1 ex_result [ESet (3, 0) (OStr (bs "newer") false); EAdd (ORef 1 0)]
                          ex_h1_ok example_reload_computed _ _ _ _))).
  - change (rev_dom (xd_doc (i_new ex_s2))). rewrite End. constructor; cbn [d_max_id d_objects d_trailer].
    + vm_compute. reflexivity.
    + cbn [obj_numbers map fst increasing]. repeat split; reflexivity.
    + apply Forall_cons; [|apply Forall_cons; [|apply Forall_nil]]; cbn [fst snd].
      * split; [vm_compute; discriminate|]. split; [vm_compute; discriminate|]. split; [|reflexivity]. constructor.
      * split; [vm_compute; discriminate|]. split; [vm_compute; discriminate|]. split; [|reflexivity].
        constructor; vm_compute; discriminate.
    + constructor; [repeat constructor; cbn; intuition discriminate|].
      constructor; [cbn [snd]; constructor; vm_compute; discriminate|].
      constructor; [cbn [snd]; constructor; reflexivity|].
      constructor; [cbn [snd]; constructor; vm_compute; reflexivity | constructor].
  - vm_compute. reflexivity.
  - vm_compute. reflexivity.
  - change (Forall (fun io : oid * obj => In (fst io) (map fst (d_objects ex_result)) \/
                            ~ In (fst (fst io)) (obj_numbers (d_objects ex_result))) (d_objects (xd_doc (i_new ex_s2)))).
    rewrite End. cbn [d_objects].
    apply Forall_cons; [left; right; right; left; reflexivity|]. apply Forall_cons; [|apply Forall_nil].
    right. vm_compute. intros [H|[H|[H|[]]]]; discriminate H.
Qed.

Lemma ex_h3_ok : sh_ok ex_h3.
Proof.
  assert (End : xd_doc (i_new ex_s3) =
                {| d_version := INC_VERSION; d_binary_mark := INC_BINARY_MARK;
                   d_trailer := [(K_Root, ORef 1 0); (Save.K_Size, OInt 5); (Save.K_Prev, OInt (Z.of_N (io_start (inc_save ex_s2))))];
                   d_objects := [((2, 0), OInt 9)];
                   d_max_id := 4 |}) by (vm_compute; reflexivity).
  assert (Hl : load (sh_bytes ex_h2) = LOk ex_doc2 (xtype_of (sh_fmt ex_h2))) by exact (proj2 example_second_update).
  refine (proj1 (proj2 (history_update_step ex_h2 ex_doc2 [ESet (2, 0) (OInt 9)] ex_h2_ok Hl _ _ _ _))).
  - change (rev_dom (xd_doc (i_new ex_s3))). rewrite End. constructor; cbn [d_max_id d_objects d_trailer].
    + vm_compute. reflexivity.
    + cbn [obj_numbers map fst increasing]. repeat split; reflexivity.
    + apply Forall_cons; [|apply Forall_nil]; cbn [fst snd].
      split; [vm_compute; discriminate|]. split; [vm_compute; discriminate|]. split; [|reflexivity]. constructor. reflexivity.
    + constructor; [repeat constructor; cbn; intuition discriminate|].
      constructor; [cbn [snd]; constructor; vm_compute; discriminate|].
      constructor; [cbn [snd]; constructor; reflexivity|].
      constructor; [cbn [snd]; constructor; vm_compute; reflexivity | constructor].
  - vm_compute. reflexivity.
  - vm_compute. reflexivity.
  - change (Forall (fun io : oid * obj => In (fst io) (map fst (d_objects ex_doc2)) \/
                            ~ In (fst (fst io)) (obj_numbers (d_objects ex_doc2))) (d_objects (xd_doc (i_new ex_s3)))).
    rewrite End. cbn [d_objects]. apply Forall_cons; [left; right; left; reflexivity | apply Forall_nil].
Qed.

Lemma ex_h3_strict : sh_strict ex_h3.
Proof. cbn [sh_strict ex_h3 ex_h2 ex_h1 ex_h0]. repeat split; vm_compute; reflexivity. Qed.

Theorem history_example :
  sh_ok ex_h3 /\ sh_strict ex_h3 /\
  SR.strict_load (sh_bytes ex_h3) = SR.SOk (sdoc_of_history ex_h3) /\
  SR.s_revisions (sdoc_of_history ex_h3) = 4 /\
  SR.s_objects (sdoc_of_history ex_h3) =
    [((1, 0), ex_cat2); ((2, 0), OInt 9); ((3, 0), OStr (bs "newer") false); ((4, 0), ORef 1 0)] /\
  map SR.r_x (SR.s_revs (sdoc_of_history ex_h3)) =
    [io_start (inc_save ex_s3); io_start (inc_save ex_s2); io_start (inc_save ex_s); Save.blen (body_of ex_d)].
Proof.
  split; [exact ex_h3_ok|]. split; [exact ex_h3_strict|].
  split; [apply (strict_load_history ex_h3 ex_h3_ok ex_h3_strict)|].
  repeat split; vm_compute; reflexivity.
Qed.

(* the executable specification reader, run on the model's bytes, returns the same record *)
Theorem history_example_computed : SR.strict_load (sh_bytes ex_h3) = SR.SOk (sdoc_of_history ex_h3).
Proof. vm_compute. reflexivity. Qed.

Print Assumptions history_example.
